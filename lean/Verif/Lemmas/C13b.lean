/-
  C13, deepening round D — lemmas for the trigonometric branch (`det < 0`, `calc_triple_root`) and for the
  differentiability of the root `calc_cubic_root` returns.
-/
import Verif.Lemmas.C13
namespace Verif.C13
open Verif RealLike

set_option linter.unusedSimpArgs false in
theorem trig_core (a m r3 σ : ℝ) (hm : m ≠ 0) (hr0 : r3 ≠ 0) (hr : r3 * r3 = 3) (hD : 1 - 4 * σ * σ ≠ 0) :
    let p := -(m * m)
    let F := 3 * σ - 4 * σ ^ 3
    let q := 2 * (m * m * m) * F / (3 * r3)
    let b := p + a * a / 3
    let y := 2 / r3 * m * σ - a / 3
    let dP := 3 * y * y + 2 * a * y + b
    let dy_dsqmp := 2 * r3 * σ / 3
    let dy_dF := 2 * r3 * m / (9 * (1 - 4 * σ * σ))
    let dF_dsqmp := -9 * r3 * q / (2 * (m * m * m * m))
    let dF_dq := 3 * r3 / (2 * (m * m * m))
    let dsqmp_dp := -1 / (2 * m)
    let dp_da := -2 * a / 3
    let dq_da := 2 * (a * a) / 9 - b / 3
    let dq_db := -a / 3
    dy_dsqmp * dsqmp_dp * dp_da + dy_dF * (dF_dsqmp * dsqmp_dp * dp_da + dF_dq * dq_da) + -1 / 3 = -(y * y) / dP ∧
    dy_dsqmp * dsqmp_dp + dy_dF * (dF_dsqmp * dsqmp_dp + dF_dq * dq_db) = -y / dP ∧
    dy_dF * dF_dq = -1 / dP := by
  intro p F q b y dP dy_dsqmp dy_dF dF_dsqmp dF_dq dsqmp_dp dp_da dq_da dq_db
  have hdP : dP = -(m * m) * (1 - 4 * σ * σ) := by
    simp only [dP, y, b, p]; field_simp; grind
  have hdP0 : dP ≠ 0 := by rw [hdP]; exact mul_ne_zero (neg_ne_zero.mpr (mul_ne_zero hm hm)) hD
  refine ⟨?_, ?_, ?_⟩
  · rw [hdP, eq_div_iff (by rw [← hdP]; exact hdP0)]
    simp only [dy_dsqmp, dy_dF, dF_dsqmp, dF_dq, dsqmp_dp, dp_da, dq_da, dq_db, q, F, b, p, y]
    field_simp
    grind
  · rw [hdP, eq_div_iff (by rw [← hdP]; exact hdP0)]
    simp only [dy_dsqmp, dy_dF, dF_dsqmp, dF_dq, dsqmp_dp, dp_da, dq_da, dq_db, q, F, b, p, y]
    field_simp
    grind
  · rw [hdP, eq_div_iff (by rw [← hdP]; exact hdP0)]
    simp only [dy_dsqmp, dy_dF, dF_dsqmp, dF_dq, dsqmp_dp, dp_da, dq_da, dq_db, q, F, b, p, y]
    field_simp
    grind

theorem trig_facts (a b c : ℝ) (hdet : cubDet a b c < 0) :
    cubP a b < 0 ∧ RealLike.lt (0.0:ℝ) (cubDet a b c) = false ∧ RealLike.le (0.0:ℝ) (cubDet a b c) = false
    ∧ |trigArg (cubP a b) (cubQ a b c)| < 1 := by
  have hdetdef : cubDet a b c = cubQ a b c * cubQ a b c / 4 + cubP a b * cubP a b * cubP a b / 27 := by
    simp only [cubDet]; norm_num
  have hp : cubP a b < 0 := by
    by_contra h
    have h0 : 0 ≤ cubP a b := not_lt.mp h
    have : 0 ≤ cubP a b * cubP a b * cubP a b := by positivity
    nlinarith [mul_self_nonneg (cubQ a b c)]
  refine ⟨hp, ?_, ?_, ?_⟩
  · show decide ((0.0:ℝ) < cubDet a b c) = false
    rw [decide_eq_false_iff_not]; norm_num; exact hdet.le
  · show decide ((0.0:ℝ) ≤ cubDet a b c) = false
    rw [decide_eq_false_iff_not]; norm_num; exact hdet
  · generalize cubP a b = p at *
    generalize cubQ a b c = q at *
    have hm : 0 < Real.sqrt (-p) := Real.sqrt_pos.mpr (by linarith)
    have hmm : Real.sqrt (-p) * Real.sqrt (-p) = -p := Real.mul_self_sqrt (by linarith)
    have h3 : Real.sqrt 3.0 * Real.sqrt 3.0 = 3 := by rw [Real.mul_self_sqrt (by norm_num)]; norm_num
    rw [← sq_lt_one_iff_abs_lt_one]
    simp only [trigArg, RealLike.sqrt]
    generalize Real.sqrt (-p) = m at *
    generalize Real.sqrt 3.0 = r3 at *
    have hp' : p = -(m * m) := by linarith
    subst hp'
    rw [div_pow, div_lt_one (by positivity)]
    have : (3.0 * r3 * q) ^ 2 = 27 * (q * q) := by
      have : (3.0:ℝ) = 3 := by norm_num
      rw [this]; linear_combination (9 * q * q) * h3
    rw [this]
    have h2 : (2.0:ℝ) = 2 := by norm_num
    rw [h2]; rw [hdetdef] at hdet
    have : (2 * (m * m * m)) ^ 2 = 4 * (m * m * m * m * m * m) := by ring
    rw [this]
    have e : -(m * m) * -(m * m) * -(m * m) = -(m * m * m * m * m * m) := by ring
    rw [e] at hdet
    linarith

/-- purely algebraic end game, common to the three roots -/
theorem trig_algebra (a b q m r3 σ κ C3 : ℝ) (hm : m ≠ 0) (hr0 : r3 ≠ 0) (hr : r3 * r3 = 3)
    (hb : b = -(m * m) + a * a / 3) (hC0 : C3 ≠ 0) (hC : C3 = κ * (1 - 4 * σ * σ))
    (hq : q = 2 * (m * m * m) * (3 * σ - 4 * σ ^ 3) / (3 * r3)) :
    (2 * r3 * σ / 3 * (-1 / (2 * m)) * (-2 * a / 3)
        + 2 * r3 * m * κ / (9 * C3) * (-9 * r3 * q / (2 * (m * m * m * m)) * (-1 / (2 * m)) * (-2 * a / 3)
            + 3 * r3 / (2 * (m * m * m)) * (2 * (a * a) / 9 - b / 3)) + -1 / 3,
      2 * r3 * σ / 3 * (-1 / (2 * m))
        + 2 * r3 * m * κ / (9 * C3) * (-9 * r3 * q / (2 * (m * m * m * m)) * (-1 / (2 * m))
            + 3 * r3 / (2 * (m * m * m)) * (-a / 3)),
      2 * r3 * m * κ / (9 * C3) * (3 * r3 / (2 * (m * m * m))))
    = implicitDerivs a b (2 / r3 * m * σ - a / 3) := by
  have hκ : κ ≠ 0 := by intro h; apply hC0; rw [hC, h]; ring
  have hD : 1 - 4 * σ * σ ≠ 0 := by intro h; apply hC0; rw [hC, h]; ring
  have hX : 2 * r3 * m * κ / (9 * C3) = 2 * r3 * m / (9 * (1 - 4 * σ * σ)) := by
    rw [hC]; field_simp
  obtain ⟨r1, r2, r3'⟩ := trig_core a m r3 σ hm hr0 hr hD
  rw [hX]
  simp only [implicitDerivs, cubicPoly'_real]
  subst hq hb
  refine Prod.ext ?_ (Prod.ext ?_ ?_)
  · have h10 : (-1.0:ℝ) = -1 := by norm_num
    simp only []
    rw [← r1]
  · simp only []
    rw [← r2]
  · have h10 : (-1.0:ℝ) = -1 := by norm_num
    simp only []
    rw [h10, ← r3']


/-- the trigonometric root is a simple root of the cubic -/
theorem trig_algebra_root (a b c q m r3 σ κ C3 : ℝ) (hm : m ≠ 0) (hr0 : r3 ≠ 0) (hr : r3 * r3 = 3)
    (hb : b = -(m * m) + a * a / 3) (hC0 : C3 ≠ 0) (hC : C3 = κ * (1 - 4 * σ * σ))
    (hq : q = 2 * (m * m * m) * (3 * σ - 4 * σ ^ 3) / (3 * r3))
    (hc : q = 2 * a * a * a / 27 - a * b / 3 + c) :
    cubicPoly a b c (2 / r3 * m * σ - a / 3) = 0 ∧ cubicPoly' a b (2 / r3 * m * σ - a / 3) ≠ 0 := by
  have hD : 1 - 4 * σ * σ ≠ 0 := by intro h; apply hC0; rw [hC, h]; ring
  have hc' : c = q - 2 * a * a * a / 27 + a * b / 3 := by linarith
  constructor
  · rw [cubicPoly_real, hc', hq, hb]
    field_simp
    grind
  · rw [cubicPoly'_real]
    have : 3 * (2 / r3 * m * σ - a / 3) * (2 / r3 * m * σ - a / 3) + 2 * a * (2 / r3 * m * σ - a / 3) + b
        = -(m * m) * (1 - 4 * σ * σ) := by
      rw [hb]; field_simp; grind
    rw [this]
    exact mul_ne_zero (neg_ne_zero.mpr (mul_ne_zero hm hm)) hD
/-- `det < 0` (three distinct real roots, trigonometric form): the triple `calc_triple_root` computes is the
    implicit-function triple at the root `calc_cubic_root` returns, and that number is a SIMPLE ROOT of the cubic -/
theorem trig_root_all (a b c : ℝ) (k : Nat) (hdet : cubDet a b c < 0) :
    calcCubicRootDerivs a b c k = implicitDerivs a b (calcCubicRoot a b c k) ∧
    cubicPoly a b c (calcCubicRoot a b c k) = 0 ∧ cubicPoly' a b (calcCubicRoot a b c k) ≠ 0 := by
  obtain ⟨hp, hlt, hle, hF⟩ := trig_facts a b c hdet
  have hPdef : cubP a b = b - a * a / 3 := by simp only [cubP]; norm_num
  have hQdef : cubQ a b c = 2 * a * a * a / 27 - a * b / 3 + c := by simp only [cubQ]; norm_num
  have hclip : clip (trigArg (cubP a b) (cubQ a b c)) (-1.0) (1.0:ℝ) = trigArg (cubP a b) (cubQ a b c) := by
    obtain ⟨h1, h2⟩ := abs_lt.mp hF
    have e1 : RealLike.lt (trigArg (cubP a b) (cubQ a b c)) (-1.0:ℝ) = false := by
      show decide (_ < (-1.0:ℝ)) = false
      rw [decide_eq_false_iff_not]; norm_num; linarith
    have e2 : RealLike.lt (1.0:ℝ) (trigArg (cubP a b) (cubQ a b c)) = false := by
      show decide ((1.0:ℝ) < _) = false
      rw [decide_eq_false_iff_not]; norm_num; linarith
    simp only [clip, e1, e2, Bool.false_eq_true, if_false]
  have l1 : (1.0:ℝ) = 1 := by norm_num
  have l2 : (2.0:ℝ) = 2 := by norm_num
  have l3 : (3.0:ℝ) = 3 := by norm_num
  have l6 : (6.0:ℝ) = 6 := by norm_num
  have l9 : (9.0:ℝ) = 9 := by norm_num
  have hmpos : 0 < Real.sqrt (-cubP a b) := Real.sqrt_pos.mpr (by linarith)
  have hmm : Real.sqrt (-cubP a b) * Real.sqrt (-cubP a b) = -cubP a b := Real.mul_self_sqrt (by linarith)
  have h3 : Real.sqrt 3 * Real.sqrt 3 = 3 := Real.mul_self_sqrt (by norm_num)
  have h3pos : 0 < Real.sqrt 3 := Real.sqrt_pos.mpr (by norm_num)
  simp only [trigArg, RealLike.sqrt, l2, l3] at hF
  obtain ⟨hF1, hF2⟩ := abs_lt.mp hF
  have hsin := Real.sin_arcsin hF1.le hF2.le
  have hcos := Real.cos_arcsin (3 * Real.sqrt 3 * cubQ a b c / (2 * (Real.sqrt (-cubP a b) * Real.sqrt (-cubP a b) * Real.sqrt (-cubP a b))))
  have hC3pos : 0 < Real.sqrt (1 - (3 * Real.sqrt 3 * cubQ a b c / (2 * (Real.sqrt (-cubP a b) * Real.sqrt (-cubP a b) * Real.sqrt (-cubP a b)))) ^ 2) := by
    apply Real.sqrt_pos.mpr
    have := (sq_lt_one_iff_abs_lt_one _).mpr hF
    linarith
  simp only [calcCubicRootDerivs, calcCubicRoot, hlt, hle, Bool.false_eq_true, if_false, calcTripleRoot, hclip]
  simp only [trigArg, RealLike.sqrt, RealLike.sin, RealLike.cos, RealLike.arcsin, RealLike.pi, l1, l2, l3, l6, l9]
  have hsq : ∀ x : ℝ, 1 - x * x = 1 - x ^ 2 := fun x => by ring
  rw [hsq]
  generalize hFdef : 3 * Real.sqrt 3 * cubQ a b c / (2 * (Real.sqrt (-cubP a b) * Real.sqrt (-cubP a b) * Real.sqrt (-cubP a b))) = F at *
  generalize cubQ a b c = q at *
  generalize Real.sqrt (-cubP a b) = m at *
  generalize Real.sqrt 3 = r3 at *
  have hb : b = -(m * m) + a * a / 3 := by linarith
  have hq : q = 2 * (m * m * m) * F / (3 * r3) := by rw [← hFdef]; field_simp
  have hm0 : m ≠ 0 := hmpos.ne'
  have hr0 : r3 ≠ 0 := h3pos.ne'
  have h13 : (1:ℝ) / 3 * Real.arcsin F = Real.arcsin F / 3 := by ring
  rw [h13]
  generalize hC3 : Real.sqrt (1 - F ^ 2) = C3 at *
  generalize ht : Real.arcsin F = t at *
  rcases k with _ | _ | k
  · simp only []
    have e3 : Real.sin t = 3 * Real.sin (t / 3) - 4 * Real.sin (t / 3) ^ 3 := by
      rw [← Real.sin_three_mul]; congr 1; ring
    have e4 : Real.cos t = 4 * Real.cos (t / 3) ^ 3 - 3 * Real.cos (t / 3) := by
      rw [← Real.cos_three_mul]; congr 1; ring
    have e5 := Real.sin_sq_add_cos_sq (t / 3)
    generalize Real.sin (t / 3) = σ at *
    generalize Real.cos (t / 3) = κ at *
    have hC : C3 = κ * (1 - 4 * σ * σ) := by rw [← hcos, e4]; grind
    have hq' : q = 2 * (m * m * m) * (3 * σ - 4 * σ ^ 3) / (3 * r3) := by rw [hq, ← hsin, e3]
    have key := trig_algebra a b q m r3 σ κ C3 hm0 hr0 h3 hb hC3pos.ne' hC hq'
    refine ⟨?_, trig_algebra_root a b c q m r3 σ κ C3 hm0 hr0 h3 hb hC3pos.ne' hC hq' hQdef⟩
    rw [← key]
  · simp only []
    have e3 : Real.sin t = -(3 * Real.sin (t / 3 + Real.pi / 3) - 4 * Real.sin (t / 3 + Real.pi / 3) ^ 3) := by
      rw [← Real.sin_three_mul, show 3 * (t / 3 + Real.pi / 3) = t + Real.pi by ring, Real.sin_add_pi]; ring
    have e4 : Real.cos t = -(4 * Real.cos (t / 3 + Real.pi / 3) ^ 3 - 3 * Real.cos (t / 3 + Real.pi / 3)) := by
      rw [← Real.cos_three_mul, show 3 * (t / 3 + Real.pi / 3) = t + Real.pi by ring, Real.cos_add_pi]; ring
    have e5 := Real.sin_sq_add_cos_sq (t / 3 + Real.pi / 3)
    generalize Real.sin (t / 3 + Real.pi / 3) = s1 at *
    generalize Real.cos (t / 3 + Real.pi / 3) = c1 at *
    have hC : C3 = (-c1) * (1 - 4 * (-s1) * (-s1)) := by rw [← hcos, e4]; grind
    have hq' : q = 2 * (m * m * m) * (3 * (-s1) - 4 * (-s1) ^ 3) / (3 * r3) := by rw [hq, ← hsin, e3]; ring
    have key := trig_algebra a b q m r3 (-s1) (-c1) C3 hm0 hr0 h3 hb hC3pos.ne' hC hq'
    rw [show -2 / r3 * m * s1 - a / 3 = 2 / r3 * m * (-s1) - a / 3 by ring]
    refine ⟨?_, trig_algebra_root a b c q m r3 (-s1) (-c1) C3 hm0 hr0 h3 hb hC3pos.ne' hC hq' hQdef⟩
    rw [← key]
    refine Prod.ext ?_ (Prod.ext ?_ ?_) <;> simp only [] <;> ring
  · simp only []
    have e3 : Real.sin t = 3 * Real.cos (t / 3 + Real.pi / 6) - 4 * Real.cos (t / 3 + Real.pi / 6) ^ 3 := by
      have := Real.cos_three_mul (t / 3 + Real.pi / 6)
      rw [show 3 * (t / 3 + Real.pi / 6) = t + Real.pi / 2 by ring, Real.cos_add_pi_div_two] at this
      linarith
    have e4 : Real.cos t = 3 * Real.sin (t / 3 + Real.pi / 6) - 4 * Real.sin (t / 3 + Real.pi / 6) ^ 3 := by
      rw [← Real.sin_three_mul, show 3 * (t / 3 + Real.pi / 6) = t + Real.pi / 2 by ring, Real.sin_add_pi_div_two]
    have e5 := Real.sin_sq_add_cos_sq (t / 3 + Real.pi / 6)
    generalize Real.sin (t / 3 + Real.pi / 6) = s1 at *
    generalize Real.cos (t / 3 + Real.pi / 6) = c1 at *
    have hC : C3 = (-s1) * (1 - 4 * c1 * c1) := by rw [← hcos, e4]; grind
    have hq' : q = 2 * (m * m * m) * (3 * c1 - 4 * c1 ^ 3) / (3 * r3) := by rw [hq, ← hsin, e3]
    have key := trig_algebra a b q m r3 c1 (-s1) C3 hm0 hr0 h3 hb hC3pos.ne' hC hq'
    refine ⟨?_, trig_algebra_root a b c q m r3 c1 (-s1) C3 hm0 hr0 h3 hb hC3pos.ne' hC hq' hQdef⟩
    rw [← key]
    refine Prod.ext ?_ (Prod.ext ?_ ?_) <;> simp only [] <;> ring

end Verif.C13
