/-
  C13, deepening round D — lemmas for the trigonometric branch (`det < 0`, `calc_triple_root`) and for the
  differentiability of the root `calc_cubic_root` returns.
-/
import Verif.Lemmas.C13
import Mathlib.Analysis.SpecialFunctions.Pow.Deriv
import Mathlib.Analysis.SpecialFunctions.Trigonometric.InverseDeriv
import Mathlib.Analysis.SpecialFunctions.Trigonometric.Deriv
namespace Verif.C13
open Verif RealLike

set_option linter.unusedSimpArgs false in
theorem trig_core (a m r3 σ : ℝ) (hm : m ≠ 0) (hr0 : r3 ≠ 0) (hr : r3 * r3 = 3) (hD : 1 - 4 * σ * σ ≠ 0) :
    let p := -(m * m)
    let F := 3 * σ - 4 * σ ^ 3
    let q := 2 * (m * m * m) * F / (3 * r3)
    let b := p + a * a / 3
    let y := 2 / r3 * m * σ - a / 3
    let dP := 3 * y * y + 2 * a * y + b
    let dy_dsqmp := 2 * r3 * σ / 3
    let dy_dF := 2 * r3 * m / (9 * (1 - 4 * σ * σ))
    let dF_dsqmp := -9 * r3 * q / (2 * (m * m * m * m))
    let dF_dq := 3 * r3 / (2 * (m * m * m))
    let dsqmp_dp := -1 / (2 * m)
    let dp_da := -2 * a / 3
    let dq_da := 2 * (a * a) / 9 - b / 3
    let dq_db := -a / 3
    dy_dsqmp * dsqmp_dp * dp_da + dy_dF * (dF_dsqmp * dsqmp_dp * dp_da + dF_dq * dq_da) + -1 / 3 = -(y * y) / dP ∧
    dy_dsqmp * dsqmp_dp + dy_dF * (dF_dsqmp * dsqmp_dp + dF_dq * dq_db) = -y / dP ∧
    dy_dF * dF_dq = -1 / dP := by
  intro p F q b y dP dy_dsqmp dy_dF dF_dsqmp dF_dq dsqmp_dp dp_da dq_da dq_db
  have hdP : dP = -(m * m) * (1 - 4 * σ * σ) := by
    simp only [dP, y, b, p]; field_simp; grind
  have hdP0 : dP ≠ 0 := by rw [hdP]; exact mul_ne_zero (neg_ne_zero.mpr (mul_ne_zero hm hm)) hD
  refine ⟨?_, ?_, ?_⟩
  · rw [hdP, eq_div_iff (by rw [← hdP]; exact hdP0)]
    simp only [dy_dsqmp, dy_dF, dF_dsqmp, dF_dq, dsqmp_dp, dp_da, dq_da, dq_db, q, F, b, p, y]
    field_simp
    grind
  · rw [hdP, eq_div_iff (by rw [← hdP]; exact hdP0)]
    simp only [dy_dsqmp, dy_dF, dF_dsqmp, dF_dq, dsqmp_dp, dp_da, dq_da, dq_db, q, F, b, p, y]
    field_simp
    grind
  · rw [hdP, eq_div_iff (by rw [← hdP]; exact hdP0)]
    simp only [dy_dsqmp, dy_dF, dF_dsqmp, dF_dq, dsqmp_dp, dp_da, dq_da, dq_db, q, F, b, p, y]
    field_simp
    grind

theorem trig_facts (a b c : ℝ) (hdet : cubDet a b c < 0) :
    cubP a b < 0 ∧ RealLike.lt (0.0:ℝ) (cubDet a b c) = false ∧ RealLike.le (0.0:ℝ) (cubDet a b c) = false
    ∧ |trigArg (cubP a b) (cubQ a b c)| < 1 := by
  have hdetdef : cubDet a b c = cubQ a b c * cubQ a b c / 4 + cubP a b * cubP a b * cubP a b / 27 := by
    simp only [cubDet]; norm_num
  have hp : cubP a b < 0 := by
    by_contra h
    have h0 : 0 ≤ cubP a b := not_lt.mp h
    have : 0 ≤ cubP a b * cubP a b * cubP a b := by positivity
    nlinarith [mul_self_nonneg (cubQ a b c)]
  refine ⟨hp, ?_, ?_, ?_⟩
  · show decide ((0.0:ℝ) < cubDet a b c) = false
    rw [decide_eq_false_iff_not]; norm_num; exact hdet.le
  · show decide ((0.0:ℝ) ≤ cubDet a b c) = false
    rw [decide_eq_false_iff_not]; norm_num; exact hdet
  · generalize cubP a b = p at *
    generalize cubQ a b c = q at *
    have hm : 0 < Real.sqrt (-p) := Real.sqrt_pos.mpr (by linarith)
    have hmm : Real.sqrt (-p) * Real.sqrt (-p) = -p := Real.mul_self_sqrt (by linarith)
    have h3 : Real.sqrt 3.0 * Real.sqrt 3.0 = 3 := by rw [Real.mul_self_sqrt (by norm_num)]; norm_num
    rw [← sq_lt_one_iff_abs_lt_one]
    simp only [trigArg, RealLike.sqrt]
    generalize Real.sqrt (-p) = m at *
    generalize Real.sqrt 3.0 = r3 at *
    have hp' : p = -(m * m) := by linarith
    subst hp'
    rw [div_pow, div_lt_one (by positivity)]
    have : (3.0 * r3 * q) ^ 2 = 27 * (q * q) := by
      have : (3.0:ℝ) = 3 := by norm_num
      rw [this]; linear_combination (9 * q * q) * h3
    rw [this]
    have h2 : (2.0:ℝ) = 2 := by norm_num
    rw [h2]; rw [hdetdef] at hdet
    have : (2 * (m * m * m)) ^ 2 = 4 * (m * m * m * m * m * m) := by ring
    rw [this]
    have e : -(m * m) * -(m * m) * -(m * m) = -(m * m * m * m * m * m) := by ring
    rw [e] at hdet
    linarith

/-- purely algebraic end game, common to the three roots -/
theorem trig_algebra (a b q m r3 σ κ C3 : ℝ) (hm : m ≠ 0) (hr0 : r3 ≠ 0) (hr : r3 * r3 = 3)
    (hb : b = -(m * m) + a * a / 3) (hC0 : C3 ≠ 0) (hC : C3 = κ * (1 - 4 * σ * σ))
    (hq : q = 2 * (m * m * m) * (3 * σ - 4 * σ ^ 3) / (3 * r3)) :
    (2 * r3 * σ / 3 * (-1 / (2 * m)) * (-2 * a / 3)
        + 2 * r3 * m * κ / (9 * C3) * (-9 * r3 * q / (2 * (m * m * m * m)) * (-1 / (2 * m)) * (-2 * a / 3)
            + 3 * r3 / (2 * (m * m * m)) * (2 * (a * a) / 9 - b / 3)) + -1 / 3,
      2 * r3 * σ / 3 * (-1 / (2 * m))
        + 2 * r3 * m * κ / (9 * C3) * (-9 * r3 * q / (2 * (m * m * m * m)) * (-1 / (2 * m))
            + 3 * r3 / (2 * (m * m * m)) * (-a / 3)),
      2 * r3 * m * κ / (9 * C3) * (3 * r3 / (2 * (m * m * m))))
    = implicitDerivs a b (2 / r3 * m * σ - a / 3) := by
  have hκ : κ ≠ 0 := by intro h; apply hC0; rw [hC, h]; ring
  have hD : 1 - 4 * σ * σ ≠ 0 := by intro h; apply hC0; rw [hC, h]; ring
  have hX : 2 * r3 * m * κ / (9 * C3) = 2 * r3 * m / (9 * (1 - 4 * σ * σ)) := by
    rw [hC]; field_simp
  obtain ⟨r1, r2, r3'⟩ := trig_core a m r3 σ hm hr0 hr hD
  rw [hX]
  simp only [implicitDerivs, cubicPoly'_real]
  subst hq hb
  refine Prod.ext ?_ (Prod.ext ?_ ?_)
  · have h10 : (-1.0:ℝ) = -1 := by norm_num
    simp only []
    rw [← r1]
  · simp only []
    rw [← r2]
  · have h10 : (-1.0:ℝ) = -1 := by norm_num
    simp only []
    rw [h10, ← r3']


/-- the trigonometric root is a simple root of the cubic -/
theorem trig_algebra_root (a b c q m r3 σ κ C3 : ℝ) (hm : m ≠ 0) (hr0 : r3 ≠ 0) (hr : r3 * r3 = 3)
    (hb : b = -(m * m) + a * a / 3) (hC0 : C3 ≠ 0) (hC : C3 = κ * (1 - 4 * σ * σ))
    (hq : q = 2 * (m * m * m) * (3 * σ - 4 * σ ^ 3) / (3 * r3))
    (hc : q = 2 * a * a * a / 27 - a * b / 3 + c) :
    cubicPoly a b c (2 / r3 * m * σ - a / 3) = 0 ∧ cubicPoly' a b (2 / r3 * m * σ - a / 3) ≠ 0 := by
  have hD : 1 - 4 * σ * σ ≠ 0 := by intro h; apply hC0; rw [hC, h]; ring
  have hc' : c = q - 2 * a * a * a / 27 + a * b / 3 := by linarith
  constructor
  · rw [cubicPoly_real, hc', hq, hb]
    field_simp
    grind
  · rw [cubicPoly'_real]
    have : 3 * (2 / r3 * m * σ - a / 3) * (2 / r3 * m * σ - a / 3) + 2 * a * (2 / r3 * m * σ - a / 3) + b
        = -(m * m) * (1 - 4 * σ * σ) := by
      rw [hb]; field_simp; grind
    rw [this]
    exact mul_ne_zero (neg_ne_zero.mpr (mul_ne_zero hm hm)) hD
/-- `det < 0` (three distinct real roots, trigonometric form): the triple `calc_triple_root` computes is the
    implicit-function triple at the root `calc_cubic_root` returns, and that number is a SIMPLE ROOT of the cubic -/
theorem trig_root_all (a b c : ℝ) (k : Nat) (hdet : cubDet a b c < 0) :
    calcCubicRootDerivs a b c k = implicitDerivs a b (calcCubicRoot a b c k) ∧
    cubicPoly a b c (calcCubicRoot a b c k) = 0 ∧ cubicPoly' a b (calcCubicRoot a b c k) ≠ 0 := by
  obtain ⟨hp, hlt, hle, hF⟩ := trig_facts a b c hdet
  have hPdef : cubP a b = b - a * a / 3 := by simp only [cubP]; norm_num
  have hQdef : cubQ a b c = 2 * a * a * a / 27 - a * b / 3 + c := by simp only [cubQ]; norm_num
  have hclip : clip (trigArg (cubP a b) (cubQ a b c)) (-1.0) (1.0:ℝ) = trigArg (cubP a b) (cubQ a b c) := by
    obtain ⟨h1, h2⟩ := abs_lt.mp hF
    have e1 : RealLike.lt (trigArg (cubP a b) (cubQ a b c)) (-1.0:ℝ) = false := by
      show decide (_ < (-1.0:ℝ)) = false
      rw [decide_eq_false_iff_not]; norm_num; linarith
    have e2 : RealLike.lt (1.0:ℝ) (trigArg (cubP a b) (cubQ a b c)) = false := by
      show decide ((1.0:ℝ) < _) = false
      rw [decide_eq_false_iff_not]; norm_num; linarith
    simp only [clip, e1, e2, Bool.false_eq_true, if_false]
  have l1 : (1.0:ℝ) = 1 := by norm_num
  have l2 : (2.0:ℝ) = 2 := by norm_num
  have l3 : (3.0:ℝ) = 3 := by norm_num
  have l6 : (6.0:ℝ) = 6 := by norm_num
  have l9 : (9.0:ℝ) = 9 := by norm_num
  have hmpos : 0 < Real.sqrt (-cubP a b) := Real.sqrt_pos.mpr (by linarith)
  have hmm : Real.sqrt (-cubP a b) * Real.sqrt (-cubP a b) = -cubP a b := Real.mul_self_sqrt (by linarith)
  have h3 : Real.sqrt 3 * Real.sqrt 3 = 3 := Real.mul_self_sqrt (by norm_num)
  have h3pos : 0 < Real.sqrt 3 := Real.sqrt_pos.mpr (by norm_num)
  simp only [trigArg, RealLike.sqrt, l2, l3] at hF
  obtain ⟨hF1, hF2⟩ := abs_lt.mp hF
  have hsin := Real.sin_arcsin hF1.le hF2.le
  have hcos := Real.cos_arcsin (3 * Real.sqrt 3 * cubQ a b c / (2 * (Real.sqrt (-cubP a b) * Real.sqrt (-cubP a b) * Real.sqrt (-cubP a b))))
  have hC3pos : 0 < Real.sqrt (1 - (3 * Real.sqrt 3 * cubQ a b c / (2 * (Real.sqrt (-cubP a b) * Real.sqrt (-cubP a b) * Real.sqrt (-cubP a b)))) ^ 2) := by
    apply Real.sqrt_pos.mpr
    have := (sq_lt_one_iff_abs_lt_one _).mpr hF
    linarith
  simp only [calcCubicRootDerivs, calcCubicRoot, hlt, hle, Bool.false_eq_true, if_false, calcTripleRoot, hclip]
  simp only [trigArg, RealLike.sqrt, RealLike.sin, RealLike.cos, RealLike.arcsin, RealLike.pi, l1, l2, l3, l6, l9]
  have hsq : ∀ x : ℝ, 1 - x * x = 1 - x ^ 2 := fun x => by ring
  rw [hsq]
  generalize hFdef : 3 * Real.sqrt 3 * cubQ a b c / (2 * (Real.sqrt (-cubP a b) * Real.sqrt (-cubP a b) * Real.sqrt (-cubP a b))) = F at *
  generalize cubQ a b c = q at *
  generalize Real.sqrt (-cubP a b) = m at *
  generalize Real.sqrt 3 = r3 at *
  have hb : b = -(m * m) + a * a / 3 := by linarith
  have hq : q = 2 * (m * m * m) * F / (3 * r3) := by rw [← hFdef]; field_simp
  have hm0 : m ≠ 0 := hmpos.ne'
  have hr0 : r3 ≠ 0 := h3pos.ne'
  have h13 : (1:ℝ) / 3 * Real.arcsin F = Real.arcsin F / 3 := by ring
  rw [h13]
  generalize hC3 : Real.sqrt (1 - F ^ 2) = C3 at *
  generalize ht : Real.arcsin F = t at *
  rcases k with _ | _ | k
  · simp only []
    have e3 : Real.sin t = 3 * Real.sin (t / 3) - 4 * Real.sin (t / 3) ^ 3 := by
      rw [← Real.sin_three_mul]; congr 1; ring
    have e4 : Real.cos t = 4 * Real.cos (t / 3) ^ 3 - 3 * Real.cos (t / 3) := by
      rw [← Real.cos_three_mul]; congr 1; ring
    have e5 := Real.sin_sq_add_cos_sq (t / 3)
    generalize Real.sin (t / 3) = σ at *
    generalize Real.cos (t / 3) = κ at *
    have hC : C3 = κ * (1 - 4 * σ * σ) := by rw [← hcos, e4]; grind
    have hq' : q = 2 * (m * m * m) * (3 * σ - 4 * σ ^ 3) / (3 * r3) := by rw [hq, ← hsin, e3]
    have key := trig_algebra a b q m r3 σ κ C3 hm0 hr0 h3 hb hC3pos.ne' hC hq'
    refine ⟨?_, trig_algebra_root a b c q m r3 σ κ C3 hm0 hr0 h3 hb hC3pos.ne' hC hq' hQdef⟩
    rw [← key]
  · simp only []
    have e3 : Real.sin t = -(3 * Real.sin (t / 3 + Real.pi / 3) - 4 * Real.sin (t / 3 + Real.pi / 3) ^ 3) := by
      rw [← Real.sin_three_mul, show 3 * (t / 3 + Real.pi / 3) = t + Real.pi by ring, Real.sin_add_pi]; ring
    have e4 : Real.cos t = -(4 * Real.cos (t / 3 + Real.pi / 3) ^ 3 - 3 * Real.cos (t / 3 + Real.pi / 3)) := by
      rw [← Real.cos_three_mul, show 3 * (t / 3 + Real.pi / 3) = t + Real.pi by ring, Real.cos_add_pi]; ring
    have e5 := Real.sin_sq_add_cos_sq (t / 3 + Real.pi / 3)
    generalize Real.sin (t / 3 + Real.pi / 3) = s1 at *
    generalize Real.cos (t / 3 + Real.pi / 3) = c1 at *
    have hC : C3 = (-c1) * (1 - 4 * (-s1) * (-s1)) := by rw [← hcos, e4]; grind
    have hq' : q = 2 * (m * m * m) * (3 * (-s1) - 4 * (-s1) ^ 3) / (3 * r3) := by rw [hq, ← hsin, e3]; ring
    have key := trig_algebra a b q m r3 (-s1) (-c1) C3 hm0 hr0 h3 hb hC3pos.ne' hC hq'
    rw [show -2 / r3 * m * s1 - a / 3 = 2 / r3 * m * (-s1) - a / 3 by ring]
    refine ⟨?_, trig_algebra_root a b c q m r3 (-s1) (-c1) C3 hm0 hr0 h3 hb hC3pos.ne' hC hq' hQdef⟩
    rw [← key]
    refine Prod.ext ?_ (Prod.ext ?_ ?_) <;> simp only [] <;> ring
  · simp only []
    have e3 : Real.sin t = 3 * Real.cos (t / 3 + Real.pi / 6) - 4 * Real.cos (t / 3 + Real.pi / 6) ^ 3 := by
      have := Real.cos_three_mul (t / 3 + Real.pi / 6)
      rw [show 3 * (t / 3 + Real.pi / 6) = t + Real.pi / 2 by ring, Real.cos_add_pi_div_two] at this
      linarith
    have e4 : Real.cos t = 3 * Real.sin (t / 3 + Real.pi / 6) - 4 * Real.sin (t / 3 + Real.pi / 6) ^ 3 := by
      rw [← Real.sin_three_mul, show 3 * (t / 3 + Real.pi / 6) = t + Real.pi / 2 by ring, Real.sin_add_pi_div_two]
    have e5 := Real.sin_sq_add_cos_sq (t / 3 + Real.pi / 6)
    generalize Real.sin (t / 3 + Real.pi / 6) = s1 at *
    generalize Real.cos (t / 3 + Real.pi / 6) = c1 at *
    have hC : C3 = (-s1) * (1 - 4 * c1 * c1) := by rw [← hcos, e4]; grind
    have hq' : q = 2 * (m * m * m) * (3 * c1 - 4 * c1 ^ 3) / (3 * r3) := by rw [hq, ← hsin, e3]
    have key := trig_algebra a b q m r3 c1 (-s1) C3 hm0 hr0 h3 hb hC3pos.ne' hC hq'
    refine ⟨?_, trig_algebra_root a b c q m r3 c1 (-s1) C3 hm0 hr0 h3 hb hC3pos.ne' hC hq' hQdef⟩
    rw [← key]
    refine Prod.ext ?_ (Prod.ext ?_ ?_) <;> simp only [] <;> ring

section diff
open Filter Topology

/-- differentiability of the trigonometric root formula, generic in the constants and in the outer
    trigonometric function `T` (`sin`, `sin (· + π/3)`, `cos (· + π/6)`) -/
theorem trig_formula_differentiableAt (P Q A T : ℝ → ℝ) (t c0 c1 c2 c3 c4 : ℝ)
    (hP : DifferentiableAt ℝ P t) (hQ : DifferentiableAt ℝ Q t) (hA : DifferentiableAt ℝ A t)
    (hT : Differentiable ℝ T) (hp : P t < 0) (hc3 : c3 ≠ 0)
    (hF : |c2 * Q t / (c3 * (Real.sqrt (-P t) * Real.sqrt (-P t) * Real.sqrt (-P t)))| < 1) :
    DifferentiableAt ℝ (fun s => c0 * Real.sqrt (-P s)
      * T (c1 * Real.arcsin (c2 * Q s / (c3 * (Real.sqrt (-P s) * Real.sqrt (-P s) * Real.sqrt (-P s))))) - A s / c4) t := by
  have hmpos : 0 < Real.sqrt (-P t) := Real.sqrt_pos.mpr (by linarith)
  have hn : DifferentiableAt ℝ (fun s => -P s) t := hP.neg
  have hm : DifferentiableAt ℝ (fun s => Real.sqrt (-P s)) t := hn.sqrt (by linarith)
  have hden : DifferentiableAt ℝ (fun s => c3 * (Real.sqrt (-P s) * Real.sqrt (-P s) * Real.sqrt (-P s))) t :=
    ((hm.mul hm).mul hm).const_mul c3
  have hFd : DifferentiableAt ℝ
      (fun s => c2 * Q s / (c3 * (Real.sqrt (-P s) * Real.sqrt (-P s) * Real.sqrt (-P s)))) t :=
    (hQ.const_mul c2).div hden (mul_ne_zero hc3 (by positivity))
  obtain ⟨h1, h2⟩ := abs_lt.mp hF
  have harc : DifferentiableAt ℝ
      (fun s => Real.arcsin (c2 * Q s / (c3 * (Real.sqrt (-P s) * Real.sqrt (-P s) * Real.sqrt (-P s))))) t :=
    DifferentiableAt.comp (g := Real.arcsin) t (Real.differentiableAt_arcsin.mpr ⟨h1.ne', h2.ne⟩) hFd
  have hTd : DifferentiableAt ℝ
      (fun s => T (c1 * Real.arcsin (c2 * Q s / (c3 * (Real.sqrt (-P s) * Real.sqrt (-P s) * Real.sqrt (-P s)))))) t :=
    DifferentiableAt.comp (g := T) t (hT _) (harc.const_mul c1)
  exact ((hm.const_mul c0).mul hTd).sub (hA.div_const c4)

theorem trig_root_differentiableAt (A B C : ℝ → ℝ) (t : ℝ) (k : Nat) (hA : DifferentiableAt ℝ A t)
    (hB : DifferentiableAt ℝ B t) (hC : DifferentiableAt ℝ C t) (hdet : cubDet (A t) (B t) (C t) < 0) :
    (∀ᶠ s in 𝓝 t, cubDet (A s) (B s) (C s) < 0) ∧
    DifferentiableAt ℝ (fun s => calcCubicRoot (A s) (B s) (C s) k) t := by
  have hP : DifferentiableAt ℝ (fun s => cubP (A s) (B s)) t := by
    simp only [cubP]; fun_prop
  have hQ : DifferentiableAt ℝ (fun s => cubQ (A s) (B s) (C s)) t := by
    simp only [cubQ]; fun_prop
  have hD : DifferentiableAt ℝ (fun s => cubDet (A s) (B s) (C s)) t := by
    simp only [cubDet]; fun_prop
  have hev : ∀ᶠ s in 𝓝 t, cubDet (A s) (B s) (C s) < 0 := hD.continuousAt.eventually (Iio_mem_nhds hdet)
  refine ⟨hev, ?_⟩
  obtain ⟨hp, _, _, hF⟩ := trig_facts _ _ _ hdet
  have h20 : (2.0:ℝ) ≠ 0 := by norm_num
  simp only [trigArg, RealLike.sqrt] at hF
  rcases k with _ | _ | k
  · refine DifferentiableAt.congr_of_eventuallyEq
      (trig_formula_differentiableAt _ _ A Real.sin t (2.0 / Real.sqrt 3.0) (1.0 / 3.0) (3.0 * Real.sqrt 3.0) 2.0 3.0
        hP hQ hA Real.differentiable_sin hp h20 hF) ?_
    filter_upwards [hev] with s hs
    obtain ⟨_, hlt, hle, hFs⟩ := trig_facts _ _ _ hs
    obtain ⟨h1, h2⟩ := abs_lt.mp hFs
    have e1 : RealLike.lt (trigArg (cubP (A s) (B s)) (cubQ (A s) (B s) (C s))) (-1.0:ℝ) = false := by
      show decide (_ < (-1.0:ℝ)) = false
      rw [decide_eq_false_iff_not]; norm_num; linarith
    have e2 : RealLike.lt (1.0:ℝ) (trigArg (cubP (A s) (B s)) (cubQ (A s) (B s) (C s))) = false := by
      show decide ((1.0:ℝ) < _) = false
      rw [decide_eq_false_iff_not]; norm_num; linarith
    simp only [calcCubicRoot, hle, Bool.false_eq_true, if_false, clip, e1, e2]
    rfl
  · refine DifferentiableAt.congr_of_eventuallyEq
      (trig_formula_differentiableAt _ _ A (fun x => Real.sin (x + Real.pi / 3.0)) t ((-2.0) / Real.sqrt 3.0) (1.0 / 3.0) (3.0 * Real.sqrt 3.0) 2.0 3.0
        hP hQ hA (by fun_prop) hp h20 hF) ?_
    filter_upwards [hev] with s hs
    obtain ⟨_, hlt, hle, hFs⟩ := trig_facts _ _ _ hs
    obtain ⟨h1, h2⟩ := abs_lt.mp hFs
    have e1 : RealLike.lt (trigArg (cubP (A s) (B s)) (cubQ (A s) (B s) (C s))) (-1.0:ℝ) = false := by
      show decide (_ < (-1.0:ℝ)) = false
      rw [decide_eq_false_iff_not]; norm_num; linarith
    have e2 : RealLike.lt (1.0:ℝ) (trigArg (cubP (A s) (B s)) (cubQ (A s) (B s) (C s))) = false := by
      show decide ((1.0:ℝ) < _) = false
      rw [decide_eq_false_iff_not]; norm_num; linarith
    simp only [calcCubicRoot, hle, Bool.false_eq_true, if_false, clip, e1, e2]
    rfl
  · refine DifferentiableAt.congr_of_eventuallyEq
      (trig_formula_differentiableAt _ _ A (fun x => Real.cos (x + Real.pi / 6.0)) t (2.0 / Real.sqrt 3.0) (1.0 / 3.0) (3.0 * Real.sqrt 3.0) 2.0 3.0
        hP hQ hA (by fun_prop) hp h20 hF) ?_
    filter_upwards [hev] with s hs
    obtain ⟨_, hlt, hle, hFs⟩ := trig_facts _ _ _ hs
    obtain ⟨h1, h2⟩ := abs_lt.mp hFs
    have e1 : RealLike.lt (trigArg (cubP (A s) (B s)) (cubQ (A s) (B s) (C s))) (-1.0:ℝ) = false := by
      show decide (_ < (-1.0:ℝ)) = false
      rw [decide_eq_false_iff_not]; norm_num; linarith
    have e2 : RealLike.lt (1.0:ℝ) (trigArg (cubP (A s) (B s)) (cubQ (A s) (B s) (C s))) = false := by
      show decide ((1.0:ℝ) < _) = false
      rw [decide_eq_false_iff_not]; norm_num; linarith
    simp only [calcCubicRoot, hle, Bool.false_eq_true, if_false, clip, e1, e2]
    rfl

/-- `det < 0`: the root `calc_cubic_root` returns, as a function of a parameter the coefficients depend on
    differentiably, HAS the derivative the code computes: `∂y/∂a·a' + ∂y/∂b·b' + ∂y/∂c·c'` with
    `(∂y/∂a, ∂y/∂b, ∂y/∂c) = calc_cubic_root_derivatives(a, b, c, k)` -/
theorem trig_root_hasDerivAt (A B C : ℝ → ℝ) (a' b' c' t : ℝ) (k : Nat) (hA : HasDerivAt A a' t)
    (hB : HasDerivAt B b' t) (hC : HasDerivAt C c' t) (hdet : cubDet (A t) (B t) (C t) < 0) :
    HasDerivAt (fun s => calcCubicRoot (A s) (B s) (C s) k)
      ((calcCubicRootDerivs (A t) (B t) (C t) k).1 * a' + (calcCubicRootDerivs (A t) (B t) (C t) k).2.1 * b'
        + (calcCubicRootDerivs (A t) (B t) (C t) k).2.2 * c') t := by
  obtain ⟨hev, hd⟩ := trig_root_differentiableAt A B C t k hA.differentiableAt hB.differentiableAt
    hC.differentiableAt hdet
  have hy := hd.hasDerivAt
  obtain ⟨hchain, _, hsimple⟩ := trig_root_all (A t) (B t) (C t) k hdet
  have hroot : ∀ᶠ s in 𝓝 t, cubicPoly (A s) (B s) (C s) (calcCubicRoot (A s) (B s) (C s) k) = 0 :=
    hev.mono fun s hs => (trig_root_all (A s) (B s) (C s) k hs).2.1
  have e := implicit_row (fun s => calcCubicRoot (A s) (B s) (C s) k) A B C _ a' b' c' t hy hA hB hC hroot hsimple
  rw [hchain, ← e]
  exact hy

theorem cbrt_zero : Verif.Real.cbrt 0 = 0 := by
  unfold Verif.Real.cbrt
  rw [if_pos le_rfl]; exact Real.zero_rpow (by norm_num)

theorem cbrt_differentiableAt (x : ℝ) (hx : x ≠ 0) : DifferentiableAt ℝ Verif.Real.cbrt x := by
  rcases lt_or_gt_of_ne hx with h | h
  · have hev : Verif.Real.cbrt =ᶠ[𝓝 x] fun y => -((-y) ^ ((1:ℝ) / 3)) := by
      filter_upwards [Iio_mem_nhds h] with y hy
      have hy' : y < 0 := hy
      unfold Verif.Real.cbrt
      rw [if_neg (by linarith)]
    refine DifferentiableAt.congr_of_eventuallyEq ?_ hev
    have h1 : DifferentiableAt ℝ (fun y : ℝ => y ^ ((1:ℝ) / 3)) (-x) :=
      Real.differentiableAt_rpow_const_of_ne _ (by linarith)
    have h2 : DifferentiableAt ℝ (fun y : ℝ => -y) x := differentiableAt_id.neg
    exact (DifferentiableAt.comp (g := fun y : ℝ => y ^ ((1:ℝ) / 3)) x h1 h2).neg
  · have hev : Verif.Real.cbrt =ᶠ[𝓝 x] fun y => y ^ ((1:ℝ) / 3) := by
      filter_upwards [Ioi_mem_nhds h] with y hy
      have hy' : 0 < y := hy
      unfold Verif.Real.cbrt
      rw [if_pos hy'.le]
    exact (Real.differentiableAt_rpow_const_of_ne _ h.ne').congr_of_eventuallyEq hev

/-- `det > 0` (one real root, Cardano's formula): the number `calc_cubic_root` returns is a simple root -/
theorem cardano_root_simple (a b c : ℝ) (k : Nat) (hdet : 0 < cubDet a b c) :
    cubicPoly a b c (calcCubicRoot a b c k) = 0 ∧ cubicPoly' a b (calcCubicRoot a b c k) ≠ 0 := by
  have hle : RealLike.le (0.0:ℝ) (cubDet a b c) = true := by
    show decide ((0.0:ℝ) ≤ cubDet a b c) = true
    rw [decide_eq_true_eq]; norm_num; exact hdet.le
  have hdetdef : cubDet a b c = cubQ a b c * cubQ a b c / 4 + cubP a b * cubP a b * cubP a b / 27 := by
    simp only [cubDet]; norm_num
  have hPdef : cubP a b = b - a * a / 3 := by simp only [cubP]; norm_num
  have hQdef : cubQ a b c = 2 * a * a * a / 27 - a * b / 3 + c := by simp only [cubQ]; norm_num
  have hs0 : Real.sqrt (cubDet a b c) * Real.sqrt (cubDet a b c) = cubDet a b c := Real.mul_self_sqrt hdet.le
  have hs0pos : 0 < Real.sqrt (cubDet a b c) := Real.sqrt_pos.mpr hdet
  have hu3 := Real.cbrt_cube (-cubQ a b c * (1 / 2) + Real.sqrt (cubDet a b c))
  have hv3 := Real.cbrt_cube (-cubQ a b c * (1 / 2) - Real.sqrt (cubDet a b c))
  have hhalf : (0.5 : ℝ) = 1 / 2 := by norm_num
  have h30 : (3.0:ℝ) = 3 := by norm_num
  simp only [calcCubicRoot, hle, if_true, RealLike.sqrt, RealLike.cbrt, hhalf, h30]
  generalize Real.cbrt (-cubQ a b c * (1 / 2) + Real.sqrt (cubDet a b c)) = u at *
  generalize Real.cbrt (-cubQ a b c * (1 / 2) - Real.sqrt (cubDet a b c)) = v at *
  generalize Real.sqrt (cubDet a b c) = s0 at *
  generalize cubQ a b c = Q at *
  generalize cubP a b = P at *
  generalize cubDet a b c = D at *
  have hq : Q = -(u ^ 3 + v ^ 3) := by linarith
  have hs : s0 = (u ^ 3 - v ^ 3) / 2 := by linarith
  have hp : P = -3 * u * v := by
    apply cube_inj
    have : P * P * P / 27 = s0 * s0 - Q * Q / 4 := by rw [hs0, hdetdef]; ring
    rw [hq, hs] at this
    linear_combination 27 * this
  have hb : b = P + a * a / 3 := by linarith
  have hc : c = Q - 2 * a * a * a / 27 + a * b / 3 := by linarith
  have huv : u ≠ v := by
    intro h; rw [h] at hs; rw [hs] at hs0pos; norm_num at hs0pos
  rw [cubicPoly_real, cubicPoly'_real]
  subst hc hb hq hp
  constructor
  · ring
  · have : 3 * (u + v - a / 3) * (u + v - a / 3) + 2 * a * (u + v - a / 3) + (-3 * u * v + a * a / 3)
        = 3 * (u * u + u * v + v * v) := by ring
    rw [this]
    have hpos : 0 < u * u + u * v + v * v := by
      have : u - v ≠ 0 := sub_ne_zero.mpr huv
      nlinarith [sq_nonneg (u + v), sq_pos_of_ne_zero this]
    positivity

/-- off the band the two cube-root arguments of Cardano's formula are non-zero -/
theorem cardano_args_ne_zero (a b c : ℝ) (hdet : 0 < cubDet a b c) (hreg : regularised a b c = false) :
    -cubQ a b c * 0.5 + Real.sqrt (cubDet a b c) ≠ 0 ∧ -cubQ a b c * 0.5 - Real.sqrt (cubDet a b c) ≠ 0 := by
  have hlt : RealLike.lt (0.0:ℝ) (cubDet a b c) = true := by
    show decide ((0.0:ℝ) < cubDet a b c) = true
    rw [decide_eq_true_eq]; norm_num; exact hdet
  simp only [regularised, hlt, if_true] at hreg
  simp only [Bool.or_eq_false_iff] at hreg
  obtain ⟨⟨h1, h2⟩, _⟩ := hreg
  have small : RealLike.lt (RealLike.abs (RealLike.sq (RealLike.cbrt (RealLike.abs (0:ℝ))))) (1.0e-5:ℝ) = true := by
    show decide (_root_.abs (Verif.Real.cbrt (_root_.abs (0:ℝ)) * Verif.Real.cbrt (_root_.abs (0:ℝ))) < (1.0e-5:ℝ)) = true
    rw [decide_eq_true_eq, abs_zero, cbrt_zero]; norm_num
  constructor
  · intro h0
    have : RealLike.sqrt (cubDet a b c) - 0.5 * cubQ a b c = 0 := by
      show Real.sqrt _ - _ = 0
      linarith
    rw [this, small] at h1; exact Bool.noConfusion h1
  · intro h0
    have : -RealLike.sqrt (cubDet a b c) - 0.5 * cubQ a b c = 0 := by
      show -Real.sqrt _ - _ = 0
      linarith
    rw [this, small] at h2; exact Bool.noConfusion h2

theorem cardano_root_differentiableAt (A B C : ℝ → ℝ) (t : ℝ) (k : Nat) (hA : DifferentiableAt ℝ A t)
    (hB : DifferentiableAt ℝ B t) (hC : DifferentiableAt ℝ C t) (hdet : 0 < cubDet (A t) (B t) (C t))
    (hreg : regularised (A t) (B t) (C t) = false) :
    (∀ᶠ s in 𝓝 t, 0 < cubDet (A s) (B s) (C s)) ∧
    DifferentiableAt ℝ (fun s => calcCubicRoot (A s) (B s) (C s) k) t := by
  have hQ : DifferentiableAt ℝ (fun s => cubQ (A s) (B s) (C s)) t := by
    simp only [cubQ]; fun_prop
  have hD : DifferentiableAt ℝ (fun s => cubDet (A s) (B s) (C s)) t := by
    simp only [cubDet, cubP, cubQ]; fun_prop
  have hev : ∀ᶠ s in 𝓝 t, 0 < cubDet (A s) (B s) (C s) := hD.continuousAt.eventually (Ioi_mem_nhds hdet)
  refine ⟨hev, ?_⟩
  obtain ⟨hu, hv⟩ := cardano_args_ne_zero _ _ _ hdet hreg
  have hS : DifferentiableAt ℝ (fun s => Real.sqrt (cubDet (A s) (B s) (C s))) t := hD.sqrt hdet.ne'
  have hQ' : DifferentiableAt ℝ (fun s => -cubQ (A s) (B s) (C s) * 0.5) t := hQ.neg.mul_const _
  have hU : DifferentiableAt ℝ (fun s => Verif.Real.cbrt (-cubQ (A s) (B s) (C s) * 0.5 + Real.sqrt (cubDet (A s) (B s) (C s)))) t :=
    DifferentiableAt.comp (g := Verif.Real.cbrt) t (cbrt_differentiableAt _ hu) (hQ'.add hS)
  have hV : DifferentiableAt ℝ (fun s => Verif.Real.cbrt (-cubQ (A s) (B s) (C s) * 0.5 - Real.sqrt (cubDet (A s) (B s) (C s)))) t :=
    DifferentiableAt.comp (g := Verif.Real.cbrt) t (cbrt_differentiableAt _ hv) (hQ'.sub hS)
  refine DifferentiableAt.congr_of_eventuallyEq ((hU.add hV).sub (hA.div_const 3.0)) ?_
  filter_upwards [hev] with s hs
  have hle : RealLike.le (0.0:ℝ) (cubDet (A s) (B s) (C s)) = true := by
    show decide ((0.0:ℝ) ≤ cubDet (A s) (B s) (C s)) = true
    rw [decide_eq_true_eq]; norm_num; exact hs.le
  simp only [calcCubicRoot, hle, if_true]
  rfl

theorem cardano_root_hasDerivAt (A B C : ℝ → ℝ) (a' b' c' t : ℝ) (k : Nat) (hA : HasDerivAt A a' t)
    (hB : HasDerivAt B b' t) (hC : HasDerivAt C c' t) (hdet : 0 < cubDet (A t) (B t) (C t))
    (hreg : regularised (A t) (B t) (C t) = false) :
    HasDerivAt (fun s => calcCubicRoot (A s) (B s) (C s) k)
      ((calcCubicRootDerivs (A t) (B t) (C t) k).1 * a' + (calcCubicRootDerivs (A t) (B t) (C t) k).2.1 * b'
        + (calcCubicRootDerivs (A t) (B t) (C t) k).2.2 * c') t := by
  obtain ⟨hev, hd⟩ := cardano_root_differentiableAt A B C t k hA.differentiableAt hB.differentiableAt
    hC.differentiableAt hdet hreg
  have hy := hd.hasDerivAt
  have hchain := cardano_chain_eq_implicit_aux (A t) (B t) (C t) k hdet hreg
  have hsimple := (cardano_root_simple (A t) (B t) (C t) k hdet).2
  have hroot : ∀ᶠ s in 𝓝 t, cubicPoly (A s) (B s) (C s) (calcCubicRoot (A s) (B s) (C s) k) = 0 :=
    hev.mono fun s hs => (cardano_root_simple (A s) (B s) (C s) k hs).1
  have e := implicit_row (fun s => calcCubicRoot (A s) (B s) (C s) k) A B C _ a' b' c' t hy hA hB hC hroot hsimple
  rw [hchain, ← e]
  exact hy

end diff

/-! ### eFJC and tWLC: Jacobian rows w.r.t. the parameters -/
section extjac
open Filter Topology
set_option linter.unusedSimpArgs false
set_option linter.unusedTactic false
set_option linter.unreachableTactic false
set_option linter.unusedVariables false


theorem efjc_jac_Lc (f Lp Lc St kT : ℝ) :
    HasDerivAt (fun Lc => efjcDistance f Lp Lc St kT) ((efjcDistanceJac f Lp Lc St kT).getD 1 0) Lc := by
  have harg : Lp * (2.0 * f / kT) = 2.0 * f * Lp / kT := by
    have h20 : (2.0:ℝ) = 2 := by norm_num
    rw [h20]; ring
  apply HasDerivAt.congr_deriv
  · simp only [efjcDistance]
    repeat' deriv_step_h
  · simp only [efjcDistanceJac, List.getD_cons_succ, List.getD_cons_zero, harg]
    generalize coth (2.0 * f * Lp / kT) = K
    norm_num
    ring

theorem efjc_jac_St (f Lp Lc St kT : ℝ) (hSt : 0 < St) :
    HasDerivAt (fun St => efjcDistance f Lp Lc St kT) ((efjcDistanceJac f Lp Lc St kT).getD 2 0) St := by
  have harg : Lp * (2.0 * f / kT) = 2.0 * f * Lp / kT := by
    have h20 : (2.0:ℝ) = 2 := by norm_num
    rw [h20]; ring
  apply HasDerivAt.congr_deriv
  · simp only [efjcDistance]
    repeat' deriv_step_h
    all_goals side_goal
  · simp only [efjcDistanceJac, List.getD_cons_succ, List.getD_cons_zero, harg]
    generalize coth (2.0 * f * Lp / kT) = K
    norm_num
    field_simp
    ring


theorem efjc_jac_Lp (f Lp Lc St kT : ℝ) (hf : 0 < f) (hLp : 0 < Lp) (hkT : 0 < kT) (hSt : 0 < St)
    (hx : f * (2 * Lp / kT) < 300) :
    HasDerivAt (fun Lp => efjcDistance f Lp Lc St kT) ((efjcDistanceJac f Lp Lc St kT).getD 0 0) Lp := by
  have h20 : (2.0:ℝ) = 2 := by norm_num
  have hB : Lp < 150 * kT / f := by
    rw [lt_div_iff₀ hf]
    have : f * (2 * Lp / kT) * kT = 2 * (f * Lp) := by field_simp
    nlinarith
  have hev : (fun Lp => efjcDistance f Lp Lc St kT) =ᶠ[𝓝 Lp]
      fun Lp => Lc * (Real.cosh (2.0 * f * Lp / kT) / Real.sinh (2.0 * f * Lp / kT) - kT / (2.0 * f * Lp)) * (1.0 + f / St) := by
    filter_upwards [Ioo_mem_nhds hLp hB] with x hx
    obtain ⟨hx0, hx1⟩ := hx
    have h1 : RealLike.lt (RealLike.abs (2.0 * f * x / kT)) (500.0:ℝ) = true := by
      show decide (|2.0 * f * x / kT| < 500.0) = true
      rw [decide_eq_true_eq]
      have hp : 0 < 2.0 * f * x / kT := by positivity
      rw [abs_of_pos hp, div_lt_iff₀ hkT]
      rw [lt_div_iff₀ hf] at hx1
      norm_num; nlinarith
    simp only [efjcDistance, coth, h1, if_true]
    rfl
  refine HasDerivAt.congr_of_eventuallyEq ?_ hev
  have hsinh : Real.sinh (2.0 * f * Lp / kT) ≠ 0 := by
    have hp : 0 < 2.0 * f * Lp / kT := by positivity
    exact (Real.sinh_pos_iff.mpr hp).ne'
  apply HasDerivAt.congr_deriv
  · repeat' deriv_step_h
    all_goals side_goal
  · have harg : Lp * (2.0 * f / kT) = 2.0 * f * Lp / kT := by rw [h20]; ring
    have h1 : RealLike.lt (RealLike.abs (2.0 * f * Lp / kT)) (500.0:ℝ) = true := by
      show decide (|2.0 * f * Lp / kT| < 500.0) = true
      rw [decide_eq_true_eq]
      have hp : 0 < 2.0 * f * Lp / kT := by positivity
      rw [abs_of_pos hp]
      have : 2.0 * f * Lp / kT = f * (2 * Lp / kT) := by rw [h20]; ring
      rw [this]; norm_num; linarith
    have h2 : RealLike.lt (RealLike.abs (2.0 * f * Lp / kT)) (300.0:ℝ) = true := by
      show decide (|2.0 * f * Lp / kT| < 300.0) = true
      rw [decide_eq_true_eq]
      have hp : 0 < 2.0 * f * Lp / kT := by positivity
      rw [abs_of_pos hp]
      have : 2.0 * f * Lp / kT = f * (2 * Lp / kT) := by rw [h20]; ring
      rw [this]; norm_num; linarith
    simp only [efjcDistanceJac, List.getD_cons_succ, List.getD_cons_zero, harg, coth, h1, h2, if_true]
    have hcs := Real.cosh_sq (2.0 * f * Lp / kT)
    simp only [RealLikeH.sinh, RealLikeH.cosh]
    generalize Real.cosh (2.0 * f * Lp / kT) = ch at *
    generalize Real.sinh (2.0 * f * Lp / kT) = sh at *
    norm_num
    field_simp
    grind
theorem efjc_jac_kT (f Lp Lc St kT : ℝ) (hf : 0 < f) (hLp : 0 < Lp) (hkT : 0 < kT) (hSt : 0 < St)
    (hx : f * (2 * Lp / kT) < 300) :
    HasDerivAt (fun kT => efjcDistance f Lp Lc St kT) ((efjcDistanceJac f Lp Lc St kT).getD 3 0) kT := by
  have h20 : (2.0:ℝ) = 2 := by norm_num
  have hB : f * Lp / 150 < kT := by
    rw [div_lt_iff₀ (by norm_num)]
    have : f * (2 * Lp / kT) * kT = 2 * (f * Lp) := by field_simp
    nlinarith
  have hB0 : 0 < f * Lp / 150 := by positivity
  have hev : (fun kT => efjcDistance f Lp Lc St kT) =ᶠ[𝓝 kT]
      fun kT => Lc * (Real.cosh (2.0 * f * Lp / kT) / Real.sinh (2.0 * f * Lp / kT) - kT / (2.0 * f * Lp)) * (1.0 + f / St) := by
    filter_upwards [Ioi_mem_nhds hB] with x hx
    have hx1 : f * Lp / 150 < x := hx
    have hx0 : 0 < x := lt_trans hB0 hx1
    have h1 : RealLike.lt (RealLike.abs (2.0 * f * Lp / x)) (500.0:ℝ) = true := by
      show decide (|2.0 * f * Lp / x| < 500.0) = true
      rw [decide_eq_true_eq]
      have hp : 0 < 2.0 * f * Lp / x := by positivity
      rw [abs_of_pos hp, div_lt_iff₀ hx0]
      rw [div_lt_iff₀ (by norm_num)] at hx1
      norm_num; nlinarith
    simp only [efjcDistance, coth, h1, if_true]
    rfl
  refine HasDerivAt.congr_of_eventuallyEq ?_ hev
  have hsinh : Real.sinh (2.0 * f * Lp / kT) ≠ 0 := by
    have hp : 0 < 2.0 * f * Lp / kT := by positivity
    exact (Real.sinh_pos_iff.mpr hp).ne'
  apply HasDerivAt.congr_deriv
  · repeat' deriv_step_h
    all_goals side_goal
  · have harg : Lp * (2.0 * f / kT) = 2.0 * f * Lp / kT := by rw [h20]; ring
    have h1 : RealLike.lt (RealLike.abs (2.0 * f * Lp / kT)) (500.0:ℝ) = true := by
      show decide (|2.0 * f * Lp / kT| < 500.0) = true
      rw [decide_eq_true_eq]
      have hp : 0 < 2.0 * f * Lp / kT := by positivity
      rw [abs_of_pos hp]
      have : 2.0 * f * Lp / kT = f * (2 * Lp / kT) := by rw [h20]; ring
      rw [this]; norm_num; linarith
    have h2 : RealLike.lt (RealLike.abs (2.0 * f * Lp / kT)) (300.0:ℝ) = true := by
      show decide (|2.0 * f * Lp / kT| < 300.0) = true
      rw [decide_eq_true_eq]
      have hp : 0 < 2.0 * f * Lp / kT := by positivity
      rw [abs_of_pos hp]
      have : 2.0 * f * Lp / kT = f * (2 * Lp / kT) := by rw [h20]; ring
      rw [this]; norm_num; linarith
    simp only [efjcDistanceJac, List.getD_cons_succ, List.getD_cons_zero, harg, coth, h1, h2, if_true]
    have hcs := Real.cosh_sq (2.0 * f * Lp / kT)
    simp only [RealLikeH.sinh, RealLikeH.cosh]
    generalize Real.cosh (2.0 * f * Lp / kT) = ch at *
    generalize Real.sinh (2.0 * f * Lp / kT) = sh at *
    norm_num
    field_simp
    grind


theorem twlc_jac_above_Lp (f Lp Lc St C g0 g1 Fc kT : ℝ) (hf : 0 < f) (hLp : 0 < Lp) (hkT : 0 < kT) (hFc : Fc < f)
    (hden : C * St - (g0 + g1 * f) * (g0 + g1 * f) ≠ 0) (hg : g0 + g1 * f ≠ 0) :
    HasDerivAt (fun v => twlcDistance f v Lc St C g0 g1 Fc kT) ((twlcDistanceJac f Lp Lc St C g0 g1 Fc kT).getD 0 0) Lp := by
  obtain ⟨hsp, hk⟩ := odijk_sqrt_facts f Lp kT hf hLp hkT
  have hpos : 0 < kT / (f * Lp) := by positivity
  have hden' : -(g0 + g1 * f) * (g0 + g1 * f) + St * C ≠ 0 := by
    intro h; apply hden; linarith
  have h1 : RealLike.lt f Fc = false := by
    show decide (f < Fc) = false
    rw [decide_eq_false_iff_not]; linarith
  have h2 : RealLike.le Fc f = true := by
    show decide (Fc ≤ f) = true
    rw [decide_eq_true_eq]; linarith
  have i1 : RealLike.lt Fc f = true := by
    show decide (Fc < f) = true
    rw [decide_eq_true_eq]; exact hFc
  have i2 : RealLike.le f Fc = false := by
    show decide (f ≤ Fc) = false
    rw [decide_eq_false_iff_not]; linarith
  apply HasDerivAt.congr_deriv
  · simp only [twlcDistance, h1, h2, Bool.false_eq_true, if_false, if_true]
    deriv_auto
    all_goals side_goal
  · simp only [twlcDistanceJac, RealLike.sqrt, i1, i2, ind, if_true, Bool.false_eq_true, if_false,
      List.getD_cons_succ, List.getD_cons_zero]
    have e : kT * (1.0 / Lp) / f = kT / (f * Lp) := by norm_num; field_simp
    try rw [e]
    generalize Real.sqrt (kT / (f * Lp)) = s at *
    subst hk
    have hden2 : C * St - (g0 + g1 * (f * 1.0 + Fc * 0.0)) * (g0 + g1 * (f * 1.0 + Fc * 0.0)) ≠ 0 := by
      norm_num; exact hden
    have hg2 : g0 + g1 * (f * 1.0 + Fc * 0.0) ≠ 0 := by norm_num; exact hg
    rat_close

theorem twlc_jac_above_Lc (f Lp Lc St C g0 g1 Fc kT : ℝ) (hf : 0 < f) (hLp : 0 < Lp) (hkT : 0 < kT) (hFc : Fc < f)
    (hden : C * St - (g0 + g1 * f) * (g0 + g1 * f) ≠ 0) (hg : g0 + g1 * f ≠ 0) :
    HasDerivAt (fun v => twlcDistance f Lp v St C g0 g1 Fc kT) ((twlcDistanceJac f Lp Lc St C g0 g1 Fc kT).getD 1 0) Lc := by
  obtain ⟨hsp, hk⟩ := odijk_sqrt_facts f Lp kT hf hLp hkT
  have hpos : 0 < kT / (f * Lp) := by positivity
  have hden' : -(g0 + g1 * f) * (g0 + g1 * f) + St * C ≠ 0 := by
    intro h; apply hden; linarith
  have h1 : RealLike.lt f Fc = false := by
    show decide (f < Fc) = false
    rw [decide_eq_false_iff_not]; linarith
  have h2 : RealLike.le Fc f = true := by
    show decide (Fc ≤ f) = true
    rw [decide_eq_true_eq]; linarith
  have i1 : RealLike.lt Fc f = true := by
    show decide (Fc < f) = true
    rw [decide_eq_true_eq]; exact hFc
  have i2 : RealLike.le f Fc = false := by
    show decide (f ≤ Fc) = false
    rw [decide_eq_false_iff_not]; linarith
  apply HasDerivAt.congr_deriv
  · simp only [twlcDistance, h1, h2, Bool.false_eq_true, if_false, if_true]
    deriv_auto
    all_goals side_goal
  · simp only [twlcDistanceJac, RealLike.sqrt, i1, i2, ind, if_true, Bool.false_eq_true, if_false,
      List.getD_cons_succ, List.getD_cons_zero]
    have e : kT * (1.0 / Lp) / f = kT / (f * Lp) := by norm_num; field_simp
    try rw [e]
    generalize Real.sqrt (kT / (f * Lp)) = s at *
    subst hk
    have hden2 : C * St - (g0 + g1 * (f * 1.0 + Fc * 0.0)) * (g0 + g1 * (f * 1.0 + Fc * 0.0)) ≠ 0 := by
      norm_num; exact hden
    have hg2 : g0 + g1 * (f * 1.0 + Fc * 0.0) ≠ 0 := by norm_num; exact hg
    rat_close

theorem twlc_jac_above_St (f Lp Lc St C g0 g1 Fc kT : ℝ) (hf : 0 < f) (hLp : 0 < Lp) (hkT : 0 < kT) (hFc : Fc < f)
    (hden : C * St - (g0 + g1 * f) * (g0 + g1 * f) ≠ 0) (hg : g0 + g1 * f ≠ 0) :
    HasDerivAt (fun v => twlcDistance f Lp Lc v C g0 g1 Fc kT) ((twlcDistanceJac f Lp Lc St C g0 g1 Fc kT).getD 2 0) St := by
  obtain ⟨hsp, hk⟩ := odijk_sqrt_facts f Lp kT hf hLp hkT
  have hpos : 0 < kT / (f * Lp) := by positivity
  have hden' : -(g0 + g1 * f) * (g0 + g1 * f) + St * C ≠ 0 := by
    intro h; apply hden; linarith
  have h1 : RealLike.lt f Fc = false := by
    show decide (f < Fc) = false
    rw [decide_eq_false_iff_not]; linarith
  have h2 : RealLike.le Fc f = true := by
    show decide (Fc ≤ f) = true
    rw [decide_eq_true_eq]; linarith
  have i1 : RealLike.lt Fc f = true := by
    show decide (Fc < f) = true
    rw [decide_eq_true_eq]; exact hFc
  have i2 : RealLike.le f Fc = false := by
    show decide (f ≤ Fc) = false
    rw [decide_eq_false_iff_not]; linarith
  apply HasDerivAt.congr_deriv
  · simp only [twlcDistance, h1, h2, Bool.false_eq_true, if_false, if_true]
    deriv_auto
    all_goals side_goal
  · simp only [twlcDistanceJac, RealLike.sqrt, i1, i2, ind, if_true, Bool.false_eq_true, if_false,
      List.getD_cons_succ, List.getD_cons_zero]
    have e : kT * (1.0 / Lp) / f = kT / (f * Lp) := by norm_num; field_simp
    try rw [e]
    generalize Real.sqrt (kT / (f * Lp)) = s at *
    subst hk
    have hden2 : C * St - (g0 + g1 * (f * 1.0 + Fc * 0.0)) * (g0 + g1 * (f * 1.0 + Fc * 0.0)) ≠ 0 := by
      norm_num; exact hden
    have hg2 : g0 + g1 * (f * 1.0 + Fc * 0.0) ≠ 0 := by norm_num; exact hg
    rat_close

theorem twlc_jac_above_C (f Lp Lc St C g0 g1 Fc kT : ℝ) (hf : 0 < f) (hLp : 0 < Lp) (hkT : 0 < kT) (hFc : Fc < f)
    (hden : C * St - (g0 + g1 * f) * (g0 + g1 * f) ≠ 0) (hg : g0 + g1 * f ≠ 0) :
    HasDerivAt (fun v => twlcDistance f Lp Lc St v g0 g1 Fc kT) ((twlcDistanceJac f Lp Lc St C g0 g1 Fc kT).getD 3 0) C := by
  obtain ⟨hsp, hk⟩ := odijk_sqrt_facts f Lp kT hf hLp hkT
  have hpos : 0 < kT / (f * Lp) := by positivity
  have hden' : -(g0 + g1 * f) * (g0 + g1 * f) + St * C ≠ 0 := by
    intro h; apply hden; linarith
  have h1 : RealLike.lt f Fc = false := by
    show decide (f < Fc) = false
    rw [decide_eq_false_iff_not]; linarith
  have h2 : RealLike.le Fc f = true := by
    show decide (Fc ≤ f) = true
    rw [decide_eq_true_eq]; linarith
  have i1 : RealLike.lt Fc f = true := by
    show decide (Fc < f) = true
    rw [decide_eq_true_eq]; exact hFc
  have i2 : RealLike.le f Fc = false := by
    show decide (f ≤ Fc) = false
    rw [decide_eq_false_iff_not]; linarith
  apply HasDerivAt.congr_deriv
  · simp only [twlcDistance, h1, h2, Bool.false_eq_true, if_false, if_true]
    deriv_auto
    all_goals side_goal
  · simp only [twlcDistanceJac, RealLike.sqrt, i1, i2, ind, if_true, Bool.false_eq_true, if_false,
      List.getD_cons_succ, List.getD_cons_zero]
    have e : kT * (1.0 / Lp) / f = kT / (f * Lp) := by norm_num; field_simp
    try rw [e]
    generalize Real.sqrt (kT / (f * Lp)) = s at *
    subst hk
    have hden2 : C * St - (g0 + g1 * (f * 1.0 + Fc * 0.0)) * (g0 + g1 * (f * 1.0 + Fc * 0.0)) ≠ 0 := by
      norm_num; exact hden
    have hg2 : g0 + g1 * (f * 1.0 + Fc * 0.0) ≠ 0 := by norm_num; exact hg
    rat_close

theorem twlc_jac_above_g0 (f Lp Lc St C g0 g1 Fc kT : ℝ) (hf : 0 < f) (hLp : 0 < Lp) (hkT : 0 < kT) (hFc : Fc < f)
    (hden : C * St - (g0 + g1 * f) * (g0 + g1 * f) ≠ 0) (hg : g0 + g1 * f ≠ 0) :
    HasDerivAt (fun v => twlcDistance f Lp Lc St C v g1 Fc kT) ((twlcDistanceJac f Lp Lc St C g0 g1 Fc kT).getD 4 0) g0 := by
  obtain ⟨hsp, hk⟩ := odijk_sqrt_facts f Lp kT hf hLp hkT
  have hpos : 0 < kT / (f * Lp) := by positivity
  have hden' : -(g0 + g1 * f) * (g0 + g1 * f) + St * C ≠ 0 := by
    intro h; apply hden; linarith
  have h1 : RealLike.lt f Fc = false := by
    show decide (f < Fc) = false
    rw [decide_eq_false_iff_not]; linarith
  have h2 : RealLike.le Fc f = true := by
    show decide (Fc ≤ f) = true
    rw [decide_eq_true_eq]; linarith
  have i1 : RealLike.lt Fc f = true := by
    show decide (Fc < f) = true
    rw [decide_eq_true_eq]; exact hFc
  have i2 : RealLike.le f Fc = false := by
    show decide (f ≤ Fc) = false
    rw [decide_eq_false_iff_not]; linarith
  apply HasDerivAt.congr_deriv
  · simp only [twlcDistance, h1, h2, Bool.false_eq_true, if_false, if_true]
    deriv_auto
    all_goals side_goal
  · simp only [twlcDistanceJac, RealLike.sqrt, i1, i2, ind, if_true, Bool.false_eq_true, if_false,
      List.getD_cons_succ, List.getD_cons_zero]
    have e : kT * (1.0 / Lp) / f = kT / (f * Lp) := by norm_num; field_simp
    try rw [e]
    generalize Real.sqrt (kT / (f * Lp)) = s at *
    subst hk
    have hden2 : C * St - (g0 + g1 * (f * 1.0 + Fc * 0.0)) * (g0 + g1 * (f * 1.0 + Fc * 0.0)) ≠ 0 := by
      norm_num; exact hden
    have hg2 : g0 + g1 * (f * 1.0 + Fc * 0.0) ≠ 0 := by norm_num; exact hg
    rat_close

theorem twlc_jac_above_g1 (f Lp Lc St C g0 g1 Fc kT : ℝ) (hf : 0 < f) (hLp : 0 < Lp) (hkT : 0 < kT) (hFc : Fc < f)
    (hden : C * St - (g0 + g1 * f) * (g0 + g1 * f) ≠ 0) (hg : g0 + g1 * f ≠ 0) :
    HasDerivAt (fun v => twlcDistance f Lp Lc St C g0 v Fc kT) ((twlcDistanceJac f Lp Lc St C g0 g1 Fc kT).getD 5 0) g1 := by
  obtain ⟨hsp, hk⟩ := odijk_sqrt_facts f Lp kT hf hLp hkT
  have hpos : 0 < kT / (f * Lp) := by positivity
  have hden' : -(g0 + g1 * f) * (g0 + g1 * f) + St * C ≠ 0 := by
    intro h; apply hden; linarith
  have h1 : RealLike.lt f Fc = false := by
    show decide (f < Fc) = false
    rw [decide_eq_false_iff_not]; linarith
  have h2 : RealLike.le Fc f = true := by
    show decide (Fc ≤ f) = true
    rw [decide_eq_true_eq]; linarith
  have i1 : RealLike.lt Fc f = true := by
    show decide (Fc < f) = true
    rw [decide_eq_true_eq]; exact hFc
  have i2 : RealLike.le f Fc = false := by
    show decide (f ≤ Fc) = false
    rw [decide_eq_false_iff_not]; linarith
  apply HasDerivAt.congr_deriv
  · simp only [twlcDistance, h1, h2, Bool.false_eq_true, if_false, if_true]
    deriv_auto
    all_goals side_goal
  · simp only [twlcDistanceJac, RealLike.sqrt, i1, i2, ind, if_true, Bool.false_eq_true, if_false,
      List.getD_cons_succ, List.getD_cons_zero]
    have e : kT * (1.0 / Lp) / f = kT / (f * Lp) := by norm_num; field_simp
    try rw [e]
    generalize Real.sqrt (kT / (f * Lp)) = s at *
    subst hk
    have hden2 : C * St - (g0 + g1 * (f * 1.0 + Fc * 0.0)) * (g0 + g1 * (f * 1.0 + Fc * 0.0)) ≠ 0 := by
      norm_num; exact hden
    have hg2 : g0 + g1 * (f * 1.0 + Fc * 0.0) ≠ 0 := by norm_num; exact hg
    rat_close

theorem twlc_jac_above_Fc (f Lp Lc St C g0 g1 Fc kT : ℝ) (hf : 0 < f) (hLp : 0 < Lp) (hkT : 0 < kT) (hFc : Fc < f)
    (hden : C * St - (g0 + g1 * f) * (g0 + g1 * f) ≠ 0) (hg : g0 + g1 * f ≠ 0) :
    HasDerivAt (fun v => twlcDistance f Lp Lc St C g0 g1 v kT) ((twlcDistanceJac f Lp Lc St C g0 g1 Fc kT).getD 6 0) Fc := by
  obtain ⟨hsp, hk⟩ := odijk_sqrt_facts f Lp kT hf hLp hkT
  have hpos : 0 < kT / (f * Lp) := by positivity
  have hden' : -(g0 + g1 * f) * (g0 + g1 * f) + St * C ≠ 0 := by
    intro h; apply hden; linarith
  have h1 : RealLike.lt f Fc = false := by
    show decide (f < Fc) = false
    rw [decide_eq_false_iff_not]; linarith
  have h2 : RealLike.le Fc f = true := by
    show decide (Fc ≤ f) = true
    rw [decide_eq_true_eq]; linarith
  have i1 : RealLike.lt Fc f = true := by
    show decide (Fc < f) = true
    rw [decide_eq_true_eq]; exact hFc
  have i2 : RealLike.le f Fc = false := by
    show decide (f ≤ Fc) = false
    rw [decide_eq_false_iff_not]; linarith
  have hev : (fun v => twlcDistance f Lp Lc St C g0 g1 v kT) =ᶠ[𝓝 Fc]
      fun _ => Lc * (1.0 - 1.0 / 2.0 * Real.sqrt (kT / (f * Lp)) + (C / ((-(g0 + g1 * f)) * (g0 + g1 * f) + St * C)) * f) := by
    filter_upwards [Iio_mem_nhds hFc] with x hx
    have hx' : x < f := hx
    have h1 : RealLike.lt f x = false := by
      show decide (f < x) = false
      rw [decide_eq_false_iff_not]; linarith
    have h2 : RealLike.le x f = true := by
      show decide (x ≤ f) = true
      rw [decide_eq_true_eq]; linarith
    simp only [twlcDistance, h1, h2, Bool.false_eq_true, if_false, if_true]
    rfl
  refine HasDerivAt.congr_of_eventuallyEq ?_ hev
  apply HasDerivAt.congr_deriv
  · exact hasDerivAt_const _ _
  · simp only [twlcDistanceJac, RealLike.sqrt, i1, i2, ind, if_true, Bool.false_eq_true, if_false,
      List.getD_cons_succ, List.getD_cons_zero]
    have e : kT * (1.0 / Lp) / f = kT / (f * Lp) := by norm_num; field_simp
    try rw [e]
    generalize Real.sqrt (kT / (f * Lp)) = s at *
    subst hk
    have hden2 : C * St - (g0 + g1 * (f * 1.0 + Fc * 0.0)) * (g0 + g1 * (f * 1.0 + Fc * 0.0)) ≠ 0 := by
      norm_num; exact hden
    have hg2 : g0 + g1 * (f * 1.0 + Fc * 0.0) ≠ 0 := by norm_num; exact hg
    rat_close

theorem twlc_jac_above_kT (f Lp Lc St C g0 g1 Fc kT : ℝ) (hf : 0 < f) (hLp : 0 < Lp) (hkT : 0 < kT) (hFc : Fc < f)
    (hden : C * St - (g0 + g1 * f) * (g0 + g1 * f) ≠ 0) (hg : g0 + g1 * f ≠ 0) :
    HasDerivAt (fun v => twlcDistance f Lp Lc St C g0 g1 Fc v) ((twlcDistanceJac f Lp Lc St C g0 g1 Fc kT).getD 7 0) kT := by
  obtain ⟨hsp, hk⟩ := odijk_sqrt_facts f Lp kT hf hLp hkT
  have hpos : 0 < kT / (f * Lp) := by positivity
  have hden' : -(g0 + g1 * f) * (g0 + g1 * f) + St * C ≠ 0 := by
    intro h; apply hden; linarith
  have h1 : RealLike.lt f Fc = false := by
    show decide (f < Fc) = false
    rw [decide_eq_false_iff_not]; linarith
  have h2 : RealLike.le Fc f = true := by
    show decide (Fc ≤ f) = true
    rw [decide_eq_true_eq]; linarith
  have i1 : RealLike.lt Fc f = true := by
    show decide (Fc < f) = true
    rw [decide_eq_true_eq]; exact hFc
  have i2 : RealLike.le f Fc = false := by
    show decide (f ≤ Fc) = false
    rw [decide_eq_false_iff_not]; linarith
  apply HasDerivAt.congr_deriv
  · simp only [twlcDistance, h1, h2, Bool.false_eq_true, if_false, if_true]
    deriv_auto
    all_goals side_goal
  · simp only [twlcDistanceJac, RealLike.sqrt, i1, i2, ind, if_true, Bool.false_eq_true, if_false,
      List.getD_cons_succ, List.getD_cons_zero]
    have e : kT * (1.0 / Lp) / f = kT / (f * Lp) := by norm_num; field_simp
    try rw [e]
    generalize Real.sqrt (kT / (f * Lp)) = s at *
    subst hk
    have hden2 : C * St - (g0 + g1 * (f * 1.0 + Fc * 0.0)) * (g0 + g1 * (f * 1.0 + Fc * 0.0)) ≠ 0 := by
      norm_num; exact hden
    have hg2 : g0 + g1 * (f * 1.0 + Fc * 0.0) ≠ 0 := by norm_num; exact hg
    rat_close

theorem twlc_jac_below_Lp (f Lp Lc St C g0 g1 Fc kT : ℝ) (hf : 0 < f) (hLp : 0 < Lp) (hkT : 0 < kT) (hFc : f < Fc)
    (hden : C * St - (g0 + g1 * Fc) * (g0 + g1 * Fc) ≠ 0) (hg : g0 + g1 * Fc ≠ 0) :
    HasDerivAt (fun v => twlcDistance f v Lc St C g0 g1 Fc kT) ((twlcDistanceJac f Lp Lc St C g0 g1 Fc kT).getD 0 0) Lp := by
  obtain ⟨hsp, hk⟩ := odijk_sqrt_facts f Lp kT hf hLp hkT
  have hpos : 0 < kT / (f * Lp) := by positivity
  have hden' : -(g0 + g1 * Fc) * (g0 + g1 * Fc) + St * C ≠ 0 := by
    intro h; apply hden; linarith
  have h1 : RealLike.lt f Fc = true := by
    show decide (f < Fc) = true
    rw [decide_eq_true_eq]; exact hFc
  have i1 : RealLike.lt Fc f = false := by
    show decide (Fc < f) = false
    rw [decide_eq_false_iff_not]; linarith
  have i2 : RealLike.le f Fc = true := by
    show decide (f ≤ Fc) = true
    rw [decide_eq_true_eq]; linarith
  apply HasDerivAt.congr_deriv
  · simp only [twlcDistance, h1, if_true]
    deriv_auto
    all_goals side_goal
  · simp only [twlcDistanceJac, RealLike.sqrt, i1, i2, ind, if_true, Bool.false_eq_true, if_false,
      List.getD_cons_succ, List.getD_cons_zero]
    have e : kT * (1.0 / Lp) / f = kT / (f * Lp) := by norm_num; field_simp
    try rw [e]
    generalize Real.sqrt (kT / (f * Lp)) = s at *
    subst hk
    have hden2 : C * St - (g0 + g1 * (f * 0.0 + Fc * 1.0)) * (g0 + g1 * (f * 0.0 + Fc * 1.0)) ≠ 0 := by
      norm_num; exact hden
    have hg2 : g0 + g1 * (f * 0.0 + Fc * 1.0) ≠ 0 := by norm_num; exact hg
    rat_close

theorem twlc_jac_below_Lc (f Lp Lc St C g0 g1 Fc kT : ℝ) (hf : 0 < f) (hLp : 0 < Lp) (hkT : 0 < kT) (hFc : f < Fc)
    (hden : C * St - (g0 + g1 * Fc) * (g0 + g1 * Fc) ≠ 0) (hg : g0 + g1 * Fc ≠ 0) :
    HasDerivAt (fun v => twlcDistance f Lp v St C g0 g1 Fc kT) ((twlcDistanceJac f Lp Lc St C g0 g1 Fc kT).getD 1 0) Lc := by
  obtain ⟨hsp, hk⟩ := odijk_sqrt_facts f Lp kT hf hLp hkT
  have hpos : 0 < kT / (f * Lp) := by positivity
  have hden' : -(g0 + g1 * Fc) * (g0 + g1 * Fc) + St * C ≠ 0 := by
    intro h; apply hden; linarith
  have h1 : RealLike.lt f Fc = true := by
    show decide (f < Fc) = true
    rw [decide_eq_true_eq]; exact hFc
  have i1 : RealLike.lt Fc f = false := by
    show decide (Fc < f) = false
    rw [decide_eq_false_iff_not]; linarith
  have i2 : RealLike.le f Fc = true := by
    show decide (f ≤ Fc) = true
    rw [decide_eq_true_eq]; linarith
  apply HasDerivAt.congr_deriv
  · simp only [twlcDistance, h1, if_true]
    deriv_auto
    all_goals side_goal
  · simp only [twlcDistanceJac, RealLike.sqrt, i1, i2, ind, if_true, Bool.false_eq_true, if_false,
      List.getD_cons_succ, List.getD_cons_zero]
    have e : kT * (1.0 / Lp) / f = kT / (f * Lp) := by norm_num; field_simp
    try rw [e]
    generalize Real.sqrt (kT / (f * Lp)) = s at *
    subst hk
    have hden2 : C * St - (g0 + g1 * (f * 0.0 + Fc * 1.0)) * (g0 + g1 * (f * 0.0 + Fc * 1.0)) ≠ 0 := by
      norm_num; exact hden
    have hg2 : g0 + g1 * (f * 0.0 + Fc * 1.0) ≠ 0 := by norm_num; exact hg
    rat_close

theorem twlc_jac_below_St (f Lp Lc St C g0 g1 Fc kT : ℝ) (hf : 0 < f) (hLp : 0 < Lp) (hkT : 0 < kT) (hFc : f < Fc)
    (hden : C * St - (g0 + g1 * Fc) * (g0 + g1 * Fc) ≠ 0) (hg : g0 + g1 * Fc ≠ 0) :
    HasDerivAt (fun v => twlcDistance f Lp Lc v C g0 g1 Fc kT) ((twlcDistanceJac f Lp Lc St C g0 g1 Fc kT).getD 2 0) St := by
  obtain ⟨hsp, hk⟩ := odijk_sqrt_facts f Lp kT hf hLp hkT
  have hpos : 0 < kT / (f * Lp) := by positivity
  have hden' : -(g0 + g1 * Fc) * (g0 + g1 * Fc) + St * C ≠ 0 := by
    intro h; apply hden; linarith
  have h1 : RealLike.lt f Fc = true := by
    show decide (f < Fc) = true
    rw [decide_eq_true_eq]; exact hFc
  have i1 : RealLike.lt Fc f = false := by
    show decide (Fc < f) = false
    rw [decide_eq_false_iff_not]; linarith
  have i2 : RealLike.le f Fc = true := by
    show decide (f ≤ Fc) = true
    rw [decide_eq_true_eq]; linarith
  apply HasDerivAt.congr_deriv
  · simp only [twlcDistance, h1, if_true]
    deriv_auto
    all_goals side_goal
  · simp only [twlcDistanceJac, RealLike.sqrt, i1, i2, ind, if_true, Bool.false_eq_true, if_false,
      List.getD_cons_succ, List.getD_cons_zero]
    have e : kT * (1.0 / Lp) / f = kT / (f * Lp) := by norm_num; field_simp
    try rw [e]
    generalize Real.sqrt (kT / (f * Lp)) = s at *
    subst hk
    have hden2 : C * St - (g0 + g1 * (f * 0.0 + Fc * 1.0)) * (g0 + g1 * (f * 0.0 + Fc * 1.0)) ≠ 0 := by
      norm_num; exact hden
    have hg2 : g0 + g1 * (f * 0.0 + Fc * 1.0) ≠ 0 := by norm_num; exact hg
    rat_close

theorem twlc_jac_below_C (f Lp Lc St C g0 g1 Fc kT : ℝ) (hf : 0 < f) (hLp : 0 < Lp) (hkT : 0 < kT) (hFc : f < Fc)
    (hden : C * St - (g0 + g1 * Fc) * (g0 + g1 * Fc) ≠ 0) (hg : g0 + g1 * Fc ≠ 0) :
    HasDerivAt (fun v => twlcDistance f Lp Lc St v g0 g1 Fc kT) ((twlcDistanceJac f Lp Lc St C g0 g1 Fc kT).getD 3 0) C := by
  obtain ⟨hsp, hk⟩ := odijk_sqrt_facts f Lp kT hf hLp hkT
  have hpos : 0 < kT / (f * Lp) := by positivity
  have hden' : -(g0 + g1 * Fc) * (g0 + g1 * Fc) + St * C ≠ 0 := by
    intro h; apply hden; linarith
  have h1 : RealLike.lt f Fc = true := by
    show decide (f < Fc) = true
    rw [decide_eq_true_eq]; exact hFc
  have i1 : RealLike.lt Fc f = false := by
    show decide (Fc < f) = false
    rw [decide_eq_false_iff_not]; linarith
  have i2 : RealLike.le f Fc = true := by
    show decide (f ≤ Fc) = true
    rw [decide_eq_true_eq]; linarith
  apply HasDerivAt.congr_deriv
  · simp only [twlcDistance, h1, if_true]
    deriv_auto
    all_goals side_goal
  · simp only [twlcDistanceJac, RealLike.sqrt, i1, i2, ind, if_true, Bool.false_eq_true, if_false,
      List.getD_cons_succ, List.getD_cons_zero]
    have e : kT * (1.0 / Lp) / f = kT / (f * Lp) := by norm_num; field_simp
    try rw [e]
    generalize Real.sqrt (kT / (f * Lp)) = s at *
    subst hk
    have hden2 : C * St - (g0 + g1 * (f * 0.0 + Fc * 1.0)) * (g0 + g1 * (f * 0.0 + Fc * 1.0)) ≠ 0 := by
      norm_num; exact hden
    have hg2 : g0 + g1 * (f * 0.0 + Fc * 1.0) ≠ 0 := by norm_num; exact hg
    rat_close

theorem twlc_jac_below_g0 (f Lp Lc St C g0 g1 Fc kT : ℝ) (hf : 0 < f) (hLp : 0 < Lp) (hkT : 0 < kT) (hFc : f < Fc)
    (hden : C * St - (g0 + g1 * Fc) * (g0 + g1 * Fc) ≠ 0) (hg : g0 + g1 * Fc ≠ 0) :
    HasDerivAt (fun v => twlcDistance f Lp Lc St C v g1 Fc kT) ((twlcDistanceJac f Lp Lc St C g0 g1 Fc kT).getD 4 0) g0 := by
  obtain ⟨hsp, hk⟩ := odijk_sqrt_facts f Lp kT hf hLp hkT
  have hpos : 0 < kT / (f * Lp) := by positivity
  have hden' : -(g0 + g1 * Fc) * (g0 + g1 * Fc) + St * C ≠ 0 := by
    intro h; apply hden; linarith
  have h1 : RealLike.lt f Fc = true := by
    show decide (f < Fc) = true
    rw [decide_eq_true_eq]; exact hFc
  have i1 : RealLike.lt Fc f = false := by
    show decide (Fc < f) = false
    rw [decide_eq_false_iff_not]; linarith
  have i2 : RealLike.le f Fc = true := by
    show decide (f ≤ Fc) = true
    rw [decide_eq_true_eq]; linarith
  apply HasDerivAt.congr_deriv
  · simp only [twlcDistance, h1, if_true]
    deriv_auto
    all_goals side_goal
  · simp only [twlcDistanceJac, RealLike.sqrt, i1, i2, ind, if_true, Bool.false_eq_true, if_false,
      List.getD_cons_succ, List.getD_cons_zero]
    have e : kT * (1.0 / Lp) / f = kT / (f * Lp) := by norm_num; field_simp
    try rw [e]
    generalize Real.sqrt (kT / (f * Lp)) = s at *
    subst hk
    have hden2 : C * St - (g0 + g1 * (f * 0.0 + Fc * 1.0)) * (g0 + g1 * (f * 0.0 + Fc * 1.0)) ≠ 0 := by
      norm_num; exact hden
    have hg2 : g0 + g1 * (f * 0.0 + Fc * 1.0) ≠ 0 := by norm_num; exact hg
    rat_close

theorem twlc_jac_below_g1 (f Lp Lc St C g0 g1 Fc kT : ℝ) (hf : 0 < f) (hLp : 0 < Lp) (hkT : 0 < kT) (hFc : f < Fc)
    (hden : C * St - (g0 + g1 * Fc) * (g0 + g1 * Fc) ≠ 0) (hg : g0 + g1 * Fc ≠ 0) :
    HasDerivAt (fun v => twlcDistance f Lp Lc St C g0 v Fc kT) ((twlcDistanceJac f Lp Lc St C g0 g1 Fc kT).getD 5 0) g1 := by
  obtain ⟨hsp, hk⟩ := odijk_sqrt_facts f Lp kT hf hLp hkT
  have hpos : 0 < kT / (f * Lp) := by positivity
  have hden' : -(g0 + g1 * Fc) * (g0 + g1 * Fc) + St * C ≠ 0 := by
    intro h; apply hden; linarith
  have h1 : RealLike.lt f Fc = true := by
    show decide (f < Fc) = true
    rw [decide_eq_true_eq]; exact hFc
  have i1 : RealLike.lt Fc f = false := by
    show decide (Fc < f) = false
    rw [decide_eq_false_iff_not]; linarith
  have i2 : RealLike.le f Fc = true := by
    show decide (f ≤ Fc) = true
    rw [decide_eq_true_eq]; linarith
  apply HasDerivAt.congr_deriv
  · simp only [twlcDistance, h1, if_true]
    deriv_auto
    all_goals side_goal
  · simp only [twlcDistanceJac, RealLike.sqrt, i1, i2, ind, if_true, Bool.false_eq_true, if_false,
      List.getD_cons_succ, List.getD_cons_zero]
    have e : kT * (1.0 / Lp) / f = kT / (f * Lp) := by norm_num; field_simp
    try rw [e]
    generalize Real.sqrt (kT / (f * Lp)) = s at *
    subst hk
    have hden2 : C * St - (g0 + g1 * (f * 0.0 + Fc * 1.0)) * (g0 + g1 * (f * 0.0 + Fc * 1.0)) ≠ 0 := by
      norm_num; exact hden
    have hg2 : g0 + g1 * (f * 0.0 + Fc * 1.0) ≠ 0 := by norm_num; exact hg
    rat_close

theorem twlc_jac_below_Fc (f Lp Lc St C g0 g1 Fc kT : ℝ) (hf : 0 < f) (hLp : 0 < Lp) (hkT : 0 < kT) (hFc : f < Fc)
    (hden : C * St - (g0 + g1 * Fc) * (g0 + g1 * Fc) ≠ 0) (hg : g0 + g1 * Fc ≠ 0) :
    HasDerivAt (fun v => twlcDistance f Lp Lc St C g0 g1 v kT) ((twlcDistanceJac f Lp Lc St C g0 g1 Fc kT).getD 6 0) Fc := by
  obtain ⟨hsp, hk⟩ := odijk_sqrt_facts f Lp kT hf hLp hkT
  have hpos : 0 < kT / (f * Lp) := by positivity
  have hden' : -(g0 + g1 * Fc) * (g0 + g1 * Fc) + St * C ≠ 0 := by
    intro h; apply hden; linarith
  have h1 : RealLike.lt f Fc = true := by
    show decide (f < Fc) = true
    rw [decide_eq_true_eq]; exact hFc
  have i1 : RealLike.lt Fc f = false := by
    show decide (Fc < f) = false
    rw [decide_eq_false_iff_not]; linarith
  have i2 : RealLike.le f Fc = true := by
    show decide (f ≤ Fc) = true
    rw [decide_eq_true_eq]; linarith
  have hev : (fun v => twlcDistance f Lp Lc St C g0 g1 v kT) =ᶠ[𝓝 Fc]
      fun v => Lc * (1.0 - 1.0 / 2.0 * Real.sqrt (kT / (f * Lp)) + (C / ((-(g0 + g1 * v)) * (g0 + g1 * v) + St * C)) * f) := by
    filter_upwards [Ioi_mem_nhds hFc] with x hx
    have hx' : f < x := hx
    have h1 : RealLike.lt f x = true := by
      show decide (f < x) = true
      rw [decide_eq_true_eq]; exact hx'
    simp only [twlcDistance, h1, if_true]
    rfl
  refine HasDerivAt.congr_of_eventuallyEq ?_ hev
  apply HasDerivAt.congr_deriv
  · deriv_auto
    all_goals side_goal
  · simp only [twlcDistanceJac, RealLike.sqrt, i1, i2, ind, if_true, Bool.false_eq_true, if_false,
      List.getD_cons_succ, List.getD_cons_zero]
    have e : kT * (1.0 / Lp) / f = kT / (f * Lp) := by norm_num; field_simp
    try rw [e]
    generalize Real.sqrt (kT / (f * Lp)) = s at *
    subst hk
    have hden2 : C * St - (g0 + g1 * (f * 0.0 + Fc * 1.0)) * (g0 + g1 * (f * 0.0 + Fc * 1.0)) ≠ 0 := by
      norm_num; exact hden
    have hg2 : g0 + g1 * (f * 0.0 + Fc * 1.0) ≠ 0 := by norm_num; exact hg
    rat_close

theorem twlc_jac_below_kT (f Lp Lc St C g0 g1 Fc kT : ℝ) (hf : 0 < f) (hLp : 0 < Lp) (hkT : 0 < kT) (hFc : f < Fc)
    (hden : C * St - (g0 + g1 * Fc) * (g0 + g1 * Fc) ≠ 0) (hg : g0 + g1 * Fc ≠ 0) :
    HasDerivAt (fun v => twlcDistance f Lp Lc St C g0 g1 Fc v) ((twlcDistanceJac f Lp Lc St C g0 g1 Fc kT).getD 7 0) kT := by
  obtain ⟨hsp, hk⟩ := odijk_sqrt_facts f Lp kT hf hLp hkT
  have hpos : 0 < kT / (f * Lp) := by positivity
  have hden' : -(g0 + g1 * Fc) * (g0 + g1 * Fc) + St * C ≠ 0 := by
    intro h; apply hden; linarith
  have h1 : RealLike.lt f Fc = true := by
    show decide (f < Fc) = true
    rw [decide_eq_true_eq]; exact hFc
  have i1 : RealLike.lt Fc f = false := by
    show decide (Fc < f) = false
    rw [decide_eq_false_iff_not]; linarith
  have i2 : RealLike.le f Fc = true := by
    show decide (f ≤ Fc) = true
    rw [decide_eq_true_eq]; linarith
  apply HasDerivAt.congr_deriv
  · simp only [twlcDistance, h1, if_true]
    deriv_auto
    all_goals side_goal
  · simp only [twlcDistanceJac, RealLike.sqrt, i1, i2, ind, if_true, Bool.false_eq_true, if_false,
      List.getD_cons_succ, List.getD_cons_zero]
    have e : kT * (1.0 / Lp) / f = kT / (f * Lp) := by norm_num; field_simp
    try rw [e]
    generalize Real.sqrt (kT / (f * Lp)) = s at *
    subst hk
    have hden2 : C * St - (g0 + g1 * (f * 0.0 + Fc * 1.0)) * (g0 + g1 * (f * 0.0 + Fc * 1.0)) ≠ 0 := by
      norm_num; exact hden
    have hg2 : g0 + g1 * (f * 0.0 + Fc * 1.0) ≠ 0 := by norm_num; exact hg
    rat_close


end extjac

/-! ### eFJC in the guarded regimes (`2 f L_p / kT > 300`) -/
section efjcguards
open Filter Topology
set_option linter.unusedSimpArgs false
set_option linter.unusedTactic false
set_option linter.unreachableTactic false
set_option linter.unusedVariables false

/-- above the second overflow guard (`2 f L_p / kT > 500`) the code evaluates `coth = 1` in the model function and
    drops `1/sinh²` in the derivative: the two are consistent — the derivative is exact for the function the code computes -/
theorem efjc_deriv_above_guards (f Lp Lc St kT : ℝ) (hf : 0 < f) (hLp : 0 < Lp) (hkT : 0 < kT) (hSt : 0 < St)
    (hx : 500 < f * (2 * Lp / kT)) :
    HasDerivAt (fun f => efjcDistance f Lp Lc St kT) (efjcDistanceDeriv f Lp Lc St kT) f := by
  have h20 : (2.0:ℝ) = 2 := by norm_num
  have hB : 250 * kT / Lp < f := by
    rw [div_lt_iff₀ hLp]
    have : f * (2 * Lp / kT) * kT = 2 * (f * Lp) := by field_simp
    nlinarith
  have hev : (fun f => efjcDistance f Lp Lc St kT) =ᶠ[𝓝 f]
      fun f => Lc * (1.0 - kT / (2.0 * f * Lp)) * (1.0 + f / St) := by
    filter_upwards [Ioi_mem_nhds hB] with x hx
    have hx1 : 250 * kT / Lp < x := hx
    have hx0 : 0 < x := lt_trans (by positivity) hx1
    have h1 : RealLike.lt (RealLike.abs (2.0 * x * Lp / kT)) (500.0:ℝ) = false := by
      show decide (|2.0 * x * Lp / kT| < 500.0) = false
      rw [decide_eq_false_iff_not]
      have hp : 0 < 2.0 * x * Lp / kT := by positivity
      rw [abs_of_pos hp, not_lt, le_div_iff₀ hkT]
      rw [div_lt_iff₀ hLp] at hx1
      norm_num; nlinarith
    simp only [efjcDistance, coth, h1, Bool.false_eq_true, if_false]
  refine HasDerivAt.congr_of_eventuallyEq ?_ hev
  apply HasDerivAt.congr_deriv
  · repeat' deriv_step_h
    all_goals side_goal
  · have h1 : RealLike.lt (RealLike.abs (f * (2.0 * Lp / kT))) (500.0:ℝ) = false := by
      show decide (|f * (2.0 * Lp / kT)| < 500.0) = false
      rw [decide_eq_false_iff_not]
      have hp : 0 < f * (2.0 * Lp / kT) := by positivity
      rw [abs_of_pos hp]; norm_num; linarith
    have h2 : RealLike.lt (f * (2.0 * Lp / kT)) (300.0:ℝ) = false := by
      show decide (f * (2.0 * Lp / kT) < 300.0) = false
      rw [decide_eq_false_iff_not]; norm_num; linarith
    simp only [efjcDistanceDeriv, coth, h1, h2, Bool.false_eq_true, if_false]
    norm_num
    field_simp
    ring

/-- between the two guards (`300 < 2 f L_p / kT < 500`) the model function still uses the true `coth` while the
    derivative drops the `1/sinh²` term: the true derivative is the code's value MINUS `L_c (f/S_t + 1)(2 L_p/kT)/sinh²(2 f L_p/kT)` -/
theorem efjc_deriv_between_guards (f Lp Lc St kT : ℝ) (hf : 0 < f) (hLp : 0 < Lp) (hkT : 0 < kT) (hSt : 0 < St)
    (hlo : 300 < f * (2 * Lp / kT)) (hhi : f * (2 * Lp / kT) < 500) :
    HasDerivAt (fun f => efjcDistance f Lp Lc St kT)
      (efjcDistanceDeriv f Lp Lc St kT - Lc * (f / St + 1) * (2 * Lp / kT) / (Real.sinh (f * (2 * Lp / kT))) ^ 2) f := by
  have h20 : (2.0:ℝ) = 2 := by norm_num
  have hB : f < 250 * kT / Lp := by
    rw [lt_div_iff₀ hLp]
    have : f * (2 * Lp / kT) * kT = 2 * (f * Lp) := by field_simp
    nlinarith
  have hev : (fun f => efjcDistance f Lp Lc St kT) =ᶠ[𝓝 f]
      fun f => Lc * (Real.cosh (2.0 * f * Lp / kT) / Real.sinh (2.0 * f * Lp / kT) - kT / (2.0 * f * Lp)) * (1.0 + f / St) := by
    filter_upwards [Ioo_mem_nhds hf hB] with x hx
    obtain ⟨hx0, hx1⟩ := hx
    have h1 : RealLike.lt (RealLike.abs (2.0 * x * Lp / kT)) (500.0:ℝ) = true := by
      show decide (|2.0 * x * Lp / kT| < 500.0) = true
      rw [decide_eq_true_eq]
      have hp : 0 < 2.0 * x * Lp / kT := by positivity
      rw [abs_of_pos hp, div_lt_iff₀ hkT]
      rw [lt_div_iff₀ hLp] at hx1
      norm_num; nlinarith
    simp only [efjcDistance, coth, h1, if_true]
    rfl
  refine HasDerivAt.congr_of_eventuallyEq ?_ hev
  have hsinh : Real.sinh (2.0 * f * Lp / kT) ≠ 0 := by
    have hp : 0 < 2.0 * f * Lp / kT := by positivity
    exact (Real.sinh_pos_iff.mpr hp).ne'
  apply HasDerivAt.congr_deriv
  · repeat' deriv_step_h
    all_goals side_goal
  · have harg : f * (2.0 * Lp / kT) = 2.0 * f * Lp / kT := by rw [h20]; ring
    have harg2 : f * (2 * Lp / kT) = 2.0 * f * Lp / kT := by rw [h20]; ring
    have h1 : RealLike.lt (RealLike.abs (f * (2.0 * Lp / kT))) (500.0:ℝ) = true := by
      show decide (|f * (2.0 * Lp / kT)| < 500.0) = true
      rw [decide_eq_true_eq]
      have hp : 0 < f * (2.0 * Lp / kT) := by positivity
      rw [abs_of_pos hp]; norm_num; linarith
    have h2 : RealLike.lt (f * (2.0 * Lp / kT)) (300.0:ℝ) = false := by
      show decide (f * (2.0 * Lp / kT) < 300.0) = false
      rw [decide_eq_false_iff_not]; norm_num; linarith
    simp only [efjcDistanceDeriv, coth, h1, h2, if_true, Bool.false_eq_true, if_false]
    rw [harg, harg2]
    have hcs := Real.cosh_sq (2.0 * f * Lp / kT)
    simp only [RealLikeH.sinh, RealLikeH.cosh]
    generalize Real.cosh (2.0 * f * Lp / kT) = ch at *
    generalize Real.sinh (2.0 * f * Lp / kT) = sh at *
    norm_num
    field_simp
    grind

/-- the dropped term is below `4e-180` relative to `L_c (f/S_t + 1)(2 L_p/kT)`: `1/sinh²(x) ≤ 1/2^596` for `x ≥ 300` -/
theorem inv_sinh_sq_le (x : ℝ) (hx : 300 ≤ x) : 1 / (Real.sinh x) ^ 2 ≤ 1 / 2 ^ 596 := by
  have he : (2:ℝ) ^ 300 ≤ Real.exp x := by
    have h1 : (2:ℝ) ^ 300 ≤ Real.exp 1 ^ 300 :=
      pow_le_pow_left₀ (by norm_num) (by have := Real.add_one_le_exp (1:ℝ); linarith) 300
    have h2 : Real.exp 1 ^ 300 = Real.exp (300 : ℕ) := Real.exp_one_pow 300
    have h3 : Real.exp ((300 : ℕ) : ℝ) ≤ Real.exp x := Real.exp_le_exp.mpr (by push_cast; exact hx)
    calc (2:ℝ) ^ 300 ≤ Real.exp 1 ^ 300 := h1
      _ = Real.exp ((300 : ℕ) : ℝ) := h2
      _ ≤ Real.exp x := h3
  have hneg : Real.exp (-x) ≤ 1 := by
    rw [Real.exp_le_one_iff]; linarith
  have hs : (2:ℝ) ^ 298 ≤ Real.sinh x := by
    rw [Real.sinh_eq]
    have e4 : (2:ℝ) ^ 300 = 2 ^ 2 * 2 ^ 298 := by rw [← pow_add]
    have h298 : (1:ℝ) ≤ 2 ^ 298 := one_le_pow₀ (by norm_num)
    rw [e4] at he
    generalize (2:ℝ) ^ 298 = A at *
    have he' : 4 * A ≤ Real.exp x := by
      have : (2:ℝ) ^ 2 = 4 := by norm_num
      rw [this] at he; exact he
    clear e4 he
    linarith
  have hpos : (0:ℝ) < 2 ^ 298 := by positivity
  have : (2:ℝ) ^ 596 ≤ (Real.sinh x) ^ 2 := by
    have : (2:ℝ) ^ 596 = (2 ^ 298) ^ 2 := by rw [← pow_mul]
    rw [this]
    exact pow_le_pow_left₀ hpos.le hs 2
  exact one_div_le_one_div_of_le (by positivity) this

theorem efjc_jac_Lp_above (f Lp Lc St kT : ℝ) (hf : 0 < f) (hLp : 0 < Lp) (hkT : 0 < kT) (hSt : 0 < St)
    (hx : 500 < f * (2 * Lp / kT)) :
    HasDerivAt (fun Lp => efjcDistance f Lp Lc St kT) ((efjcDistanceJac f Lp Lc St kT).getD 0 0) Lp := by
  have h20 : (2.0:ℝ) = 2 := by norm_num
  have hB : 250 * kT / f < Lp := by
    rw [div_lt_iff₀ hf]
    have : f * (2 * Lp / kT) * kT = 2 * (f * Lp) := by field_simp
    nlinarith
  have hev : (fun Lp => efjcDistance f Lp Lc St kT) =ᶠ[𝓝 Lp]
      fun Lp => Lc * (1.0 - kT / (2.0 * f * Lp)) * (1.0 + f / St) := by
    filter_upwards [Ioi_mem_nhds hB] with x hx
    have hx1 : 250 * kT / f < x := hx
    have hx0 : 0 < x := lt_trans (by positivity) hx1
    have h1 : RealLike.lt (RealLike.abs (2.0 * f * x / kT)) (500.0:ℝ) = false := by
      show decide (|2.0 * f * x / kT| < 500.0) = false
      rw [decide_eq_false_iff_not]
      have hp : 0 < 2.0 * f * x / kT := by positivity
      rw [abs_of_pos hp, not_lt, le_div_iff₀ hkT]
      rw [div_lt_iff₀ hf] at hx1
      norm_num; nlinarith
    simp only [efjcDistance, coth, h1, Bool.false_eq_true, if_false]
  refine HasDerivAt.congr_of_eventuallyEq ?_ hev
  apply HasDerivAt.congr_deriv
  · repeat' deriv_step_h
    all_goals side_goal
  · have harg : Lp * (2.0 * f / kT) = f * (2 * Lp / kT) := by rw [h20]; ring
    have h1 : RealLike.lt (RealLike.abs (f * (2 * Lp / kT))) (500.0:ℝ) = false := by
      show decide (|f * (2 * Lp / kT)| < 500.0) = false
      rw [decide_eq_false_iff_not]
      have hp : 0 < f * (2 * Lp / kT) := by positivity
      rw [abs_of_pos hp]; norm_num; linarith
    have h2 : RealLike.lt (RealLike.abs (f * (2 * Lp / kT))) (300.0:ℝ) = false := by
      show decide (|f * (2 * Lp / kT)| < 300.0) = false
      rw [decide_eq_false_iff_not]
      have hp : 0 < f * (2 * Lp / kT) := by positivity
      rw [abs_of_pos hp]; norm_num; linarith
    simp only [efjcDistanceJac, List.getD_cons_succ, List.getD_cons_zero, harg, coth, h1, h2, Bool.false_eq_true, if_false]
    norm_num
    field_simp
    ring

theorem efjc_jac_kT_above (f Lp Lc St kT : ℝ) (hf : 0 < f) (hLp : 0 < Lp) (hkT : 0 < kT) (hSt : 0 < St)
    (hx : 500 < f * (2 * Lp / kT)) :
    HasDerivAt (fun kT => efjcDistance f Lp Lc St kT) ((efjcDistanceJac f Lp Lc St kT).getD 3 0) kT := by
  have h20 : (2.0:ℝ) = 2 := by norm_num
  have hB : kT < f * Lp / 250 := by
    rw [lt_div_iff₀ (by norm_num)]
    have : f * (2 * Lp / kT) * kT = 2 * (f * Lp) := by field_simp
    nlinarith
  have hev : (fun kT => efjcDistance f Lp Lc St kT) =ᶠ[𝓝 kT]
      fun kT => Lc * (1.0 - kT / (2.0 * f * Lp)) * (1.0 + f / St) := by
    filter_upwards [Ioo_mem_nhds hkT hB] with x hx
    obtain ⟨hx0, hx1⟩ := hx
    have h1 : RealLike.lt (RealLike.abs (2.0 * f * Lp / x)) (500.0:ℝ) = false := by
      show decide (|2.0 * f * Lp / x| < 500.0) = false
      rw [decide_eq_false_iff_not]
      have hp : 0 < 2.0 * f * Lp / x := by positivity
      rw [abs_of_pos hp, not_lt, le_div_iff₀ hx0]
      rw [lt_div_iff₀ (by norm_num)] at hx1
      norm_num; nlinarith
    simp only [efjcDistance, coth, h1, Bool.false_eq_true, if_false]
  refine HasDerivAt.congr_of_eventuallyEq ?_ hev
  apply HasDerivAt.congr_deriv
  · repeat' deriv_step_h
    all_goals side_goal
  · have harg : Lp * (2.0 * f / kT) = f * (2 * Lp / kT) := by rw [h20]; ring
    have h1 : RealLike.lt (RealLike.abs (f * (2 * Lp / kT))) (500.0:ℝ) = false := by
      show decide (|f * (2 * Lp / kT)| < 500.0) = false
      rw [decide_eq_false_iff_not]
      have hp : 0 < f * (2 * Lp / kT) := by positivity
      rw [abs_of_pos hp]; norm_num; linarith
    have h2 : RealLike.lt (RealLike.abs (f * (2 * Lp / kT))) (300.0:ℝ) = false := by
      show decide (|f * (2 * Lp / kT)| < 300.0) = false
      rw [decide_eq_false_iff_not]
      have hp : 0 < f * (2 * Lp / kT) := by positivity
      rw [abs_of_pos hp]; norm_num; linarith
    simp only [efjcDistanceJac, List.getD_cons_succ, List.getD_cons_zero, harg, coth, h1, h2, Bool.false_eq_true, if_false]
    norm_num
    field_simp
    ring

end efjcguards

/-! ### index bookkeeping: the constructors establish the hypotheses of the routing theorems -/

theorem indexOf_eq_some {names : List String} {n : String} {i : Nat} (h : indexOf names n = some i) :
    i < names.length ∧ names[i]? = some n := by
  unfold indexOf at h
  simp only at h
  split at h
  · rename_i hlt
    cases h
    refine ⟨hlt, ?_⟩
    have := List.findIdx_getElem (w := hlt)
    rw [List.getElem?_eq_getElem hlt]
    simp only [beq_iff_eq] at this
    rw [this]
  · cases h

theorem indexOf_of_mem {names : List String} {n : String} (h : n ∈ names) : ∃ i, indexOf names n = some i := by
  unfold indexOf
  simp only
  have : names.findIdx (· == n) < names.length := List.findIdx_lt_length_of_exists ⟨n, h, by simp⟩
  rw [if_pos this]
  exact ⟨_, rfl⟩

theorem indexOf_inj {names : List String} {a b : String} {i : Nat} (ha : indexOf names a = some i)
    (hb : indexOf names b = some i) : a = b := by
  have h1 := (indexOf_eq_some ha).2
  have h2 := (indexOf_eq_some hb).2
  rw [h1] at h2
  exact Option.some.inj h2

theorem subIdx_cons (all : List String) (n : String) (sub : List String) :
    subIdx all (n :: sub) = (do let i ← indexOf all n; let is ← subIdx all sub; pure (i :: is)) := by
  unfold subIdx
  rw [List.mapM_cons]

/-- `[params_all.index(par) for par in params_sub]` for distinct names that all occur: defined, in range,
    and the indices are distinct -/
theorem subIdx_spec (all sub : List String) (hsub : ∀ n ∈ sub, n ∈ all) (hnd : sub.Nodup) :
    ∃ idx, subIdx all sub = some idx ∧ idx.length = sub.length ∧ idx.Nodup ∧ (∀ i ∈ idx, i < all.length) ∧
      (∀ i ∈ idx, ∃ n ∈ sub, indexOf all n = some i) := by
  induction sub with
  | nil => exact ⟨[], rfl, rfl, List.nodup_nil, by simp, by simp⟩
  | cons n sub ih =>
    obtain ⟨hn, hnd'⟩ := List.nodup_cons.mp hnd
    obtain ⟨idx, h1, h2, h3, h4, h5⟩ := ih (fun m hm => hsub m (List.mem_cons_of_mem _ hm)) hnd'
    obtain ⟨i, hi⟩ := indexOf_of_mem (hsub n List.mem_cons_self)
    refine ⟨i :: idx, ?_, by simp [h2], ?_, ?_, ?_⟩
    · rw [subIdx_cons, hi, h1]; rfl
    · refine List.nodup_cons.mpr ⟨?_, h3⟩
      intro hmem
      obtain ⟨m, hm, hmi⟩ := h5 i hmem
      have := indexOf_inj hi hmi
      exact hn (this ▸ hm)
    · intro j hj
      rcases List.mem_cons.mp hj with rfl | hj
      · exact (indexOf_eq_some hi).1
      · exact h4 j hj
    · intro j hj
      rcases List.mem_cons.mp hj with rfl | hj
      · exact ⟨n, List.mem_cons_self, hi⟩
      · obtain ⟨m, hm, hmi⟩ := h5 j hj
        exact ⟨m, List.mem_cons_of_mem _ hm, hmi⟩

/-- a model tree whose built-in leaves have distinct parameter names (always the case: `Lp, Lc, St, kT`, … prefixed by the model name) -/
def M.WF : M → Prop
  | .base _ names => names.Nodup
  | .add l r => l.WF ∧ r.WF
  | .off _ m => m.WF
  | .inv m => m.WF

/-- the keys of the merged parameter dictionary are distinct -/
theorem M.params_nodup : (m : M) → m.WF → m.params.Nodup
  | .base _ names, h => h
  | .add l r, h => by
    have hl := M.params_nodup l h.1
    have hr := M.params_nodup r h.2
    simp only [M.params]
    refine List.nodup_append.mpr ⟨hl, hr.filter _, ?_⟩
    intro a ha b hb hab
    have hb' := (List.mem_filter.mp hb).2
    subst hab
    simp only [Bool.not_eq_true', List.contains_eq_mem, decide_eq_false_iff_not] at hb'
    exact hb' ha
  | .off name m, h => by
    have hm := M.params_nodup m h
    simp only [M.params]
    refine List.nodup_cons.mpr ⟨?_, hm.filter _⟩
    intro hmem
    have := (List.mem_filter.mp hmem).2
    simp at this
  | .inv m, h => M.params_nodup m h

/-- `CompositeModel.__init__` ESTABLISHES the hypotheses of `composite_jacobian`: `lhs_params` / `rhs_params` are defined,
    as long as the sub-models' parameter lists, in range, and each is a list of DISTINCT indices -/
theorem composite_indices_established (l r : M) (hl : l.WF) (hr : r.WF) :
    ∃ li ri, subIdx (M.add l r).params l.params = some li ∧ subIdx (M.add l r).params r.params = some ri ∧
      li.length = l.params.length ∧ ri.length = r.params.length ∧ li.Nodup ∧ ri.Nodup ∧
      (∀ i ∈ li, i < (M.add l r).params.length) ∧ (∀ i ∈ ri, i < (M.add l r).params.length) := by
  have hsubl : ∀ n ∈ l.params, n ∈ (M.add l r).params := by
    intro n hn; simp only [M.params]; exact List.mem_append_left _ hn
  have hsubr : ∀ n ∈ r.params, n ∈ (M.add l r).params := by
    intro n hn; simp only [M.params]
    by_cases h : n ∈ l.params
    · exact List.mem_append_left _ h
    · refine List.mem_append_right _ (List.mem_filter.mpr ⟨hn, ?_⟩)
      simp [h]
  obtain ⟨li, a1, a2, a3, a4, _⟩ := subIdx_spec _ _ hsubl (M.params_nodup l hl)
  obtain ⟨ri, b1, b2, b3, b4, _⟩ := subIdx_spec _ _ hsubr (M.params_nodup r hr)
  exact ⟨li, ri, a1, b1, a2, b2, a3, b3, a4, b4⟩

/-- `SubtractIndependentOffset.__init__` establishes the hypotheses of `offset_jacobian` -/
theorem offset_indices_established (name : String) (m : M) (hm : m.WF) :
    ∃ mi oi, subIdx (M.off name m).params m.params = some mi ∧ indexOf (M.off name m).params name = some oi ∧
      mi.length = m.params.length ∧ mi.Nodup ∧ oi < (M.off name m).params.length ∧
      (∀ i ∈ mi, i < (M.off name m).params.length) := by
  have hsub : ∀ n ∈ m.params, n ∈ (M.off name m).params := by
    intro n hn; simp only [M.params]
    by_cases h : n = name
    · subst h; exact List.mem_cons_self
    · refine List.mem_cons_of_mem _ (List.mem_filter.mpr ⟨hn, ?_⟩)
      simp [h]
  obtain ⟨mi, a1, a2, a3, a4, _⟩ := subIdx_spec _ _ hsub (M.params_nodup m hm)
  obtain ⟨oi, ho⟩ := indexOf_of_mem (names := (M.off name m).params) (n := name) (by simp only [M.params]; exact List.mem_cons_self)
  exact ⟨mi, oi, a1, ho, a2, a3, (indexOf_eq_some ho).1, a4⟩


theorem filterMap_indexOf_eq (names l : List String) (idx : List Nat) (h : subIdx names l = some idx) :
    l.filterMap (indexOf names) = idx := by
  induction l generalizing idx with
  | nil => unfold subIdx at h; simp at h; rw [h]; rfl
  | cons n l ih =>
    rw [subIdx_cons] at h
    cases hi : indexOf names n with
    | none => rw [hi] at h; cases h
    | some i =>
      cases hs : subIdx names l with
      | none => rw [hi, hs] at h; cases h
      | some is =>
        rw [hi, hs] at h
        have : idx = i :: is := by cases h; rfl
        rw [this, List.filterMap_cons, hi, ih is hs]

theorem pidx_eq (trans : List (Tr ℝ)) (names : List String) :
    (pGlobalIndices trans names).filterMap id = (trans.filterMap Tr.name?).filterMap (indexOf names) := by
  unfold pGlobalIndices
  induction trans with
  | nil => rfl
  | cons t ts ih =>
    rw [List.map_cons, List.filterMap_cons, ih]
    cases hv : t.val with
    | inl n =>
      have : t.name? = some n := by unfold Tr.name?; rw [hv]
      simp only [id, List.filterMap_cons, this]
    | inr v =>
      have : t.name? = none := by unfold Tr.name?; rw [hv]
      simp only [id, List.filterMap_cons, this]

/-- `Fit._build_fit` collects every parameter name of every data set: the names a data set maps to are among the
    global names -/
theorem parameterNames_sub_globalNames (models : List (M × List (DataSet ℝ))) (md : M × List (DataSet ℝ))
    (hmd : md ∈ models) (d : DataSet ℝ) (hd : d ∈ md.2) : ∀ n ∈ d.parameterNames, n ∈ globalNames models := by
  intro n hn
  unfold globalNames
  rw [List.mem_eraseDups]
  exact List.mem_flatMap.mpr ⟨md, hmd, List.mem_flatMap.mpr ⟨d, hd, hn⟩⟩

/-- `Condition.p_indices` ESTABLISHES the hypotheses of `fit_jacobian_assembly`: one in-range column index per
    parameter mapped to a name (as many as `localize_sensitivities` keeps), and the indices are DISTINCT exactly when
    the data set maps its parameters to distinct global names — the case in which the code's buffered `-=` is right
    (finding F16 otherwise) -/
theorem fit_indices_established (trans : List (Tr ℝ)) (names : List String)
    (hsub : ∀ n ∈ trans.filterMap Tr.name?, n ∈ names) :
    (∀ i ∈ (pGlobalIndices trans names).filterMap id, i < names.length) ∧
    ((pGlobalIndices trans names).filterMap id).length = (trans.filterMap Tr.name?).length ∧
    ((trans.filterMap Tr.name?).Nodup → ((pGlobalIndices trans names).filterMap id).Nodup) := by
  rw [pidx_eq]
  refine ⟨?_, ?_, ?_⟩
  · intro i hi
    obtain ⟨n, _, hni⟩ := List.mem_filterMap.mp hi
    exact (indexOf_eq_some hni).1
  · generalize trans.filterMap Tr.name? = l at hsub
    induction l with
    | nil => rfl
    | cons n l ih =>
      obtain ⟨i, hi⟩ := indexOf_of_mem (hsub n List.mem_cons_self)
      rw [List.filterMap_cons, hi, List.length_cons, List.length_cons,
        ih (fun m hm => hsub m (List.mem_cons_of_mem _ hm))]
  · intro hnd
    obtain ⟨idx, h1, _, h3, _⟩ := subIdx_spec names _ hsub hnd
    rw [filterMap_indexOf_eq _ _ _ h1]
    exact h3


end Verif.C13
