/-
  C13 — helper lemmas: the `ℝ` reading of the model's formulas, a small derivative tactic, the
  implicit-function identity for a simple root of a cubic, and list lemmas for the index routing.
-/
import Verif.Model.C13
import Verif.NumReal
import Mathlib.Analysis.Calculus.Deriv.Inv
import Mathlib.Analysis.Calculus.Deriv.Pow
import Mathlib.Analysis.Calculus.Deriv.Inverse
import Mathlib.Analysis.SpecialFunctions.Sqrt
import Mathlib.Analysis.SpecialFunctions.Trigonometric.DerivHyp
import Mathlib.Tactic.FieldSimp
import Mathlib.Tactic.Ring
import Mathlib.Tactic.Linarith
import Mathlib.Tactic.Positivity
import Mathlib.Tactic.LinearCombination

namespace Verif.C13
open Verif RealLike

noncomputable instance : RealLikeH ℝ where
  sinh := Real.sinh
  cosh := Real.cosh

/-- one step of structural differentiation of `fun x => e x` (constants are recognised as such;
    `div`/`sub` must be tried before `mul`/`add`, which would unfold them) -/
macro "deriv_step" : tactic => `(tactic| first
  | exact hasDerivAt_const _ _
  | exact hasDerivAt_id' _
  | apply HasDerivAt.div
  | apply HasDerivAt.sub
  | apply HasDerivAt.neg
  | apply HasDerivAt.add
  | apply HasDerivAt.mul
  | apply HasDerivAt.sqrt)

/-- differentiate a rational (+ sqrt) expression structurally; leaves the side goals `denominator ≠ 0` -/
macro "deriv_auto" : tactic => `(tactic| repeat' deriv_step)

/-! ### closed forms -/

theorem odijk_distance_hasDerivAt_aux (f Lp Lc St kT : ℝ) (hf : 0 < f) (hLp : 0 < Lp) (hkT : 0 < kT)
    (hSt : 0 < St) :
    HasDerivAt (fun f => odijkDistance f Lp Lc St kT) (odijkDistanceDeriv f Lp Lc St kT) f := by
  have hpos : 0 < kT / (f * Lp) := by positivity
  have hs2 : Real.sqrt (kT / (f * Lp)) ^ 2 = kT / (f * Lp) := Real.sq_sqrt hpos.le
  have hsp : 0 < Real.sqrt (kT / (f * Lp)) := Real.sqrt_pos.mpr hpos
  apply HasDerivAt.congr_deriv
  · simp only [odijkDistance]
    deriv_auto
    all_goals positivity
  · simp only [odijkDistanceDeriv, RealLike.sqrt]
    have e : kT * (1.0 / f) / Lp = kT / (f * Lp) := by norm_num; field_simp
    rw [e]
    generalize Real.sqrt (kT / (f * Lp)) = s at *
    have hk : kT = s ^ 2 * (f * Lp) := by rw [hs2]; field_simp
    subst hk
    norm_num
    field_simp
    first | ring1 | (ring_nf; simp)

/-- discharge a `denominator ≠ 0` side goal from positivity or a hypothesis in context -/
macro "side_goal" : tactic =>
  `(tactic| first | positivity | assumption | (norm_num <;> first | assumption | positivity))

/-- close `computed derivative = the code's expression` for rational expressions -/
macro "rat_close" : tactic =>
  `(tactic| ((try norm_num); (try field_simp); (try first | ring1 | (ring_nf; simp))))

/-- the square-root term of the Odijk model: replace `kT` by `s² f Lp` -/
theorem odijk_sqrt_facts (f Lp kT : ℝ) (hf : 0 < f) (hLp : 0 < Lp) (hkT : 0 < kT) :
    0 < Real.sqrt (kT / (f * Lp)) ∧ kT = Real.sqrt (kT / (f * Lp)) ^ 2 * (f * Lp) := by
  have hpos : 0 < kT / (f * Lp) := by positivity
  refine ⟨Real.sqrt_pos.mpr hpos, ?_⟩
  rw [Real.sq_sqrt hpos.le]; field_simp

theorem odijk_jac_Lp (f Lp Lc St kT : ℝ) (hf : 0 < f) (hLp : 0 < Lp) (hkT : 0 < kT) (hSt : 0 < St) :
    HasDerivAt (fun Lp => odijkDistance f Lp Lc St kT) ((odijkDistanceJac f Lp Lc St kT).getD 0 0) Lp := by
  obtain ⟨hsp, hk⟩ := odijk_sqrt_facts f Lp kT hf hLp hkT
  have hpos : 0 < kT / (f * Lp) := by positivity
  apply HasDerivAt.congr_deriv
  · simp only [odijkDistance]
    deriv_auto
    all_goals positivity
  · simp only [odijkDistanceJac, RealLike.sqrt, List.getD_cons_zero]
    generalize Real.sqrt (kT / (f * Lp)) = s at *
    subst hk
    rat_close

theorem odijk_jac_Lc (f Lp Lc St kT : ℝ) (hSt : 0 < St) :
    HasDerivAt (fun Lc => odijkDistance f Lp Lc St kT) ((odijkDistanceJac f Lp Lc St kT).getD 1 0) Lc := by
  apply HasDerivAt.congr_deriv
  · simp only [odijkDistance]
    deriv_auto
  · simp only [odijkDistanceJac, RealLike.sqrt, List.getD_cons_succ, List.getD_cons_zero]
    rat_close

theorem odijk_jac_St (f Lp Lc St kT : ℝ) (hSt : 0 < St) :
    HasDerivAt (fun St => odijkDistance f Lp Lc St kT) ((odijkDistanceJac f Lp Lc St kT).getD 2 0) St := by
  apply HasDerivAt.congr_deriv
  · simp only [odijkDistance]
    deriv_auto
    all_goals positivity
  · simp only [odijkDistanceJac, RealLike.sqrt, List.getD_cons_succ, List.getD_cons_zero]
    rat_close

theorem odijk_jac_kT (f Lp Lc St kT : ℝ) (hf : 0 < f) (hLp : 0 < Lp) (hkT : 0 < kT) (hSt : 0 < St) :
    HasDerivAt (fun kT => odijkDistance f Lp Lc St kT) ((odijkDistanceJac f Lp Lc St kT).getD 3 0) kT := by
  obtain ⟨hsp, hk⟩ := odijk_sqrt_facts f Lp kT hf hLp hkT
  have hpos : 0 < kT / (f * Lp) := by positivity
  apply HasDerivAt.congr_deriv
  · simp only [odijkDistance]
    deriv_auto
    all_goals positivity
  · simp only [odijkDistanceJac, RealLike.sqrt, List.getD_cons_succ, List.getD_cons_zero]
    generalize Real.sqrt (kT / (f * Lp)) = s at *
    subst hk
    rat_close

/-! Marko–Siggia force -/

theorem ms_force_hasDerivAt_aux (d Lp Lc kT : ℝ) (hLp : 0 < Lp) (hLc : 0 < Lc) (hd : d < Lc) :
    HasDerivAt (fun d => msForce d Lp Lc kT) (msForceDeriv d Lp Lc kT) d := by
  have h1 : Lc - d ≠ 0 := by linarith
  have h2 : (1:ℝ) - d / Lc ≠ 0 := by
    have : d / Lc < 1 := by rw [div_lt_one hLc]; exact hd
    linarith
  apply HasDerivAt.congr_deriv
  · simp only [msForce, RealLike.sq]
    deriv_auto
    all_goals side_goal
  · simp only [msForceDeriv, RealLike.sq, RealLike.cube]
    rat_close

theorem ms_jac_Lp (d Lp Lc kT : ℝ) (hLp : 0 < Lp) (hLc : 0 < Lc) (hd : d < Lc) :
    HasDerivAt (fun Lp => msForce d Lp Lc kT) ((msForceJac d Lp Lc kT).getD 0 0) Lp := by
  have h1 : Lc - d ≠ 0 := by linarith
  have h2 : (1:ℝ) - d / Lc ≠ 0 := by
    have : d / Lc < 1 := by rw [div_lt_one hLc]; exact hd
    linarith
  apply HasDerivAt.congr_deriv
  · simp only [msForce, RealLike.sq]
    deriv_auto
    all_goals side_goal
  · simp only [msForceJac, RealLike.sq, RealLike.cube, List.getD_cons_succ, List.getD_cons_zero]
    rat_close

theorem ms_jac_Lc (d Lp Lc kT : ℝ) (hLp : 0 < Lp) (hLc : 0 < Lc) (hd : d < Lc) :
    HasDerivAt (fun Lc => msForce d Lp Lc kT) ((msForceJac d Lp Lc kT).getD 1 0) Lc := by
  have h1 : Lc - d ≠ 0 := by linarith
  have h2 : (1:ℝ) - d / Lc ≠ 0 := by
    have : d / Lc < 1 := by rw [div_lt_one hLc]; exact hd
    linarith
  apply HasDerivAt.congr_deriv
  · simp only [msForce, RealLike.sq]
    deriv_auto
    all_goals side_goal
  · simp only [msForceJac, RealLike.sq, RealLike.cube, List.getD_cons_succ, List.getD_cons_zero]
    rat_close

theorem ms_jac_kT (d Lp Lc kT : ℝ) (hLp : 0 < Lp) (hLc : 0 < Lc) (hd : d < Lc) :
    HasDerivAt (fun kT => msForce d Lp Lc kT) ((msForceJac d Lp Lc kT).getD 2 0) kT := by
  have h1 : Lc - d ≠ 0 := by linarith
  have h2 : (1:ℝ) - d / Lc ≠ 0 := by
    have : d / Lc < 1 := by rw [div_lt_one hLc]; exact hd
    linarith
  apply HasDerivAt.congr_deriv
  · simp only [msForce, RealLike.sq]
    deriv_auto
    all_goals side_goal
  · simp only [msForceJac, RealLike.sq, RealLike.cube, List.getD_cons_succ, List.getD_cons_zero]
    rat_close

/-! ### the implicit-function identity for a simple root of `y³ + a y² + b y + c` -/

open Filter Topology in
theorem cubic_implicit (y a b c : ℝ → ℝ) (y' a' b' c' t : ℝ)
    (hy : HasDerivAt y y' t) (ha : HasDerivAt a a' t) (hb : HasDerivAt b b' t) (hc : HasDerivAt c c' t)
    (hroot : ∀ᶠ s in 𝓝 t, y s * y s * y s + a s * (y s * y s) + b s * y s + c s = 0)
    (hsimple : 3 * y t * y t + 2 * a t * y t + b t ≠ 0) :
    y' = (-(y t * y t)) / (3 * y t * y t + 2 * a t * y t + b t) * a'
        + (-(y t)) / (3 * y t * y t + 2 * a t * y t + b t) * b'
        + (-1) / (3 * y t * y t + 2 * a t * y t + b t) * c' := by
  have hG : HasDerivAt (fun s => y s * y s * y s + a s * (y s * y s) + b s * y s + c s)
      ((y' * y t + y t * y') * y t + y t * y t * y' + (a' * (y t * y t) + a t * (y' * y t + y t * y'))
        + (b' * y t + b t * y') + c') t :=
    ((((hy.mul hy).mul hy).add (ha.mul (hy.mul hy))).add (hb.mul hy)).add hc
  have h0 : HasDerivAt (fun s => y s * y s * y s + a s * (y s * y s) + b s * y s + c s) 0 t :=
    (hasDerivAt_const t (0:ℝ)).congr_of_eventuallyEq hroot
  have e := hG.unique h0
  have key : y' * (3 * y t * y t + 2 * a t * y t + b t) = -(y t * y t) * a' + -(y t) * b' + -1 * c' := by
    linear_combination e
  rw [← mul_div_cancel_right₀ y' hsimple, key]
  ring

theorem cubicPoly_real (a b c y : ℝ) : cubicPoly a b c y = y * y * y + a * (y * y) + b * y + c := rfl
theorem cubicPoly'_real (a b y : ℝ) : cubicPoly' a b y = 3 * y * y + 2 * a * y + b := by
  simp only [cubicPoly']; norm_num

open Filter Topology in
/-- the code's chain rule `∂y/∂a·a' + ∂y/∂b·b' + ∂y/∂c·c'` with the implicit-function values of the
    root derivatives is the derivative of ANY differentiable root branch through a simple root -/
theorem implicit_row (y a b c : ℝ → ℝ) (y' a' b' c' t : ℝ)
    (hy : HasDerivAt y y' t) (ha : HasDerivAt a a' t) (hb : HasDerivAt b b' t) (hc : HasDerivAt c c' t)
    (hroot : ∀ᶠ s in 𝓝 t, cubicPoly (a s) (b s) (c s) (y s) = 0)
    (hsimple : cubicPoly' (a t) (b t) (y t) ≠ 0) :
    y' = (implicitDerivs (a t) (b t) (y t)).1 * a' + (implicitDerivs (a t) (b t) (y t)).2.1 * b'
          + (implicitDerivs (a t) (b t) (y t)).2.2 * c' := by
  rw [cubicPoly'_real] at hsimple
  have := cubic_implicit y a b c y' a' b' c' t hy ha hb hc hroot hsimple
  simp only [implicitDerivs, cubicPoly'_real]
  rw [this]; norm_num

set_option linter.unusedSimpArgs false
set_option linter.unusedVariables false

/-! ### coefficient chains: the tables `da_dLc, …` are the partial derivatives of the coefficient maps
    (generated uniformly; every proof is `differentiate structurally, then field_simp; ring`) -/

theorem OF.a_Lp (d Lp Lc St kT : ℝ) :
    HasDerivAt (fun Lp => OF.a d Lp Lc St kT) 0 Lp := by
  simp only [OF.a]
  exact hasDerivAt_const _ _

theorem OF.a_Lc (d Lp Lc St kT : ℝ) (hLp : 0 < Lp) (hLc : 0 < Lc) (hSt : 0 < St) (hkT : 0 < kT) :
    HasDerivAt (fun Lc => OF.a d Lp Lc St kT) (OF.da_dLc d Lp Lc St kT) Lc := by
  apply HasDerivAt.congr_deriv
  · simp only [OF.a, RealLike.sq, RealLike.cube]
    deriv_auto
    all_goals side_goal
  · simp only [OF.da_dLc, RealLike.sq, RealLike.cube]
    rat_close

theorem OF.a_St (d Lp Lc St kT : ℝ) (hLp : 0 < Lp) (hLc : 0 < Lc) (hSt : 0 < St) (hkT : 0 < kT) :
    HasDerivAt (fun St => OF.a d Lp Lc St kT) (OF.da_dSt d Lp Lc St kT) St := by
  apply HasDerivAt.congr_deriv
  · simp only [OF.a, RealLike.sq, RealLike.cube]
    deriv_auto
    all_goals side_goal
  · simp only [OF.da_dSt, RealLike.sq, RealLike.cube]
    rat_close

theorem OF.a_kT (d Lp Lc St kT : ℝ) :
    HasDerivAt (fun kT => OF.a d Lp Lc St kT) 0 kT := by
  simp only [OF.a]
  exact hasDerivAt_const _ _

theorem OF.a_d (d Lp Lc St kT : ℝ) (hLp : 0 < Lp) (hLc : 0 < Lc) (hSt : 0 < St) (hkT : 0 < kT) :
    HasDerivAt (fun d => OF.a d Lp Lc St kT) (OF.da_dd d Lp Lc St kT) d := by
  apply HasDerivAt.congr_deriv
  · simp only [OF.a, RealLike.sq, RealLike.cube]
    deriv_auto
    all_goals side_goal
  · simp only [OF.da_dd, RealLike.sq, RealLike.cube]
    rat_close

theorem OF.b_Lp (d Lp Lc St kT : ℝ) :
    HasDerivAt (fun Lp => OF.b d Lp Lc St kT) 0 Lp := by
  simp only [OF.b]
  exact hasDerivAt_const _ _

theorem OF.b_Lc (d Lp Lc St kT : ℝ) (hLp : 0 < Lp) (hLc : 0 < Lc) (hSt : 0 < St) (hkT : 0 < kT) :
    HasDerivAt (fun Lc => OF.b d Lp Lc St kT) (OF.db_dLc d Lp Lc St kT) Lc := by
  apply HasDerivAt.congr_deriv
  · simp only [OF.b, RealLike.sq, RealLike.cube]
    deriv_auto
    all_goals side_goal
  · simp only [OF.db_dLc, RealLike.sq, RealLike.cube]
    rat_close

theorem OF.b_St (d Lp Lc St kT : ℝ) (hLp : 0 < Lp) (hLc : 0 < Lc) (hSt : 0 < St) (hkT : 0 < kT) :
    HasDerivAt (fun St => OF.b d Lp Lc St kT) (OF.db_dSt d Lp Lc St kT) St := by
  apply HasDerivAt.congr_deriv
  · simp only [OF.b, RealLike.sq, RealLike.cube]
    deriv_auto
    all_goals side_goal
  · simp only [OF.db_dSt, RealLike.sq, RealLike.cube]
    rat_close

theorem OF.b_kT (d Lp Lc St kT : ℝ) :
    HasDerivAt (fun kT => OF.b d Lp Lc St kT) 0 kT := by
  simp only [OF.b]
  exact hasDerivAt_const _ _

theorem OF.b_d (d Lp Lc St kT : ℝ) (hLp : 0 < Lp) (hLc : 0 < Lc) (hSt : 0 < St) (hkT : 0 < kT) :
    HasDerivAt (fun d => OF.b d Lp Lc St kT) (OF.db_dd d Lp Lc St kT) d := by
  apply HasDerivAt.congr_deriv
  · simp only [OF.b, RealLike.sq, RealLike.cube]
    deriv_auto
    all_goals side_goal
  · simp only [OF.db_dd, RealLike.sq, RealLike.cube]
    rat_close

theorem OF.c_Lp (d Lp Lc St kT : ℝ) (hLp : 0 < Lp) (hLc : 0 < Lc) (hSt : 0 < St) (hkT : 0 < kT) :
    HasDerivAt (fun Lp => OF.c d Lp Lc St kT) (OF.dc_dLp d Lp Lc St kT) Lp := by
  apply HasDerivAt.congr_deriv
  · simp only [OF.c, RealLike.sq, RealLike.cube]
    deriv_auto
    all_goals side_goal
  · simp only [OF.dc_dLp, RealLike.sq, RealLike.cube]
    rat_close

theorem OF.c_Lc (d Lp Lc St kT : ℝ) :
    HasDerivAt (fun Lc => OF.c d Lp Lc St kT) 0 Lc := by
  simp only [OF.c]
  exact hasDerivAt_const _ _

theorem OF.c_St (d Lp Lc St kT : ℝ) (hLp : 0 < Lp) (hLc : 0 < Lc) (hSt : 0 < St) (hkT : 0 < kT) :
    HasDerivAt (fun St => OF.c d Lp Lc St kT) (OF.dc_dSt d Lp Lc St kT) St := by
  apply HasDerivAt.congr_deriv
  · simp only [OF.c, RealLike.sq, RealLike.cube]
    deriv_auto
    all_goals side_goal
  · simp only [OF.dc_dSt, RealLike.sq, RealLike.cube]
    rat_close

theorem OF.c_kT (d Lp Lc St kT : ℝ) (hLp : 0 < Lp) (hLc : 0 < Lc) (hSt : 0 < St) (hkT : 0 < kT) :
    HasDerivAt (fun kT => OF.c d Lp Lc St kT) (OF.dc_dkT d Lp Lc St kT) kT := by
  apply HasDerivAt.congr_deriv
  · simp only [OF.c, RealLike.sq, RealLike.cube]
    deriv_auto
    all_goals side_goal
  · simp only [OF.dc_dkT, RealLike.sq, RealLike.cube]
    rat_close

theorem OF.c_d (d Lp Lc St kT : ℝ) :
    HasDerivAt (fun d => OF.c d Lp Lc St kT) 0 d := by
  simp only [OF.c]
  exact hasDerivAt_const _ _

theorem WD.a_Lp (f Lp Lc kT : ℝ) (hLp : 0 < Lp) (hLc : 0 < Lc) (hkT : 0 < kT) :
    HasDerivAt (fun Lp => WD.a f Lp Lc kT) (WD.da_dLp f Lp Lc kT) Lp := by
  apply HasDerivAt.congr_deriv
  · simp only [WD.a, RealLike.sq, RealLike.cube]
    deriv_auto
    all_goals side_goal
  · simp only [WD.da_dLp, RealLike.sq, RealLike.cube]
    rat_close

theorem WD.a_Lc (f Lp Lc kT : ℝ) (hLp : 0 < Lp) (hLc : 0 < Lc) (hkT : 0 < kT) :
    HasDerivAt (fun Lc => WD.a f Lp Lc kT) (WD.da_dLc f Lp Lc kT) Lc := by
  apply HasDerivAt.congr_deriv
  · simp only [WD.a, RealLike.sq, RealLike.cube]
    deriv_auto
    all_goals side_goal
  · simp only [WD.da_dLc, RealLike.sq, RealLike.cube]
    rat_close

theorem WD.a_kT (f Lp Lc kT : ℝ) (hLp : 0 < Lp) (hLc : 0 < Lc) (hkT : 0 < kT) :
    HasDerivAt (fun kT => WD.a f Lp Lc kT) (WD.da_dkT f Lp Lc kT) kT := by
  apply HasDerivAt.congr_deriv
  · simp only [WD.a, RealLike.sq, RealLike.cube]
    deriv_auto
    all_goals side_goal
  · simp only [WD.da_dkT, RealLike.sq, RealLike.cube]
    rat_close

theorem WD.a_f (f Lp Lc kT : ℝ) (hLp : 0 < Lp) (hLc : 0 < Lc) (hkT : 0 < kT) :
    HasDerivAt (fun f => WD.a f Lp Lc kT) (WD.da_df f Lp Lc kT) f := by
  apply HasDerivAt.congr_deriv
  · simp only [WD.a, RealLike.sq, RealLike.cube]
    deriv_auto
    all_goals side_goal
  · simp only [WD.da_df, RealLike.sq, RealLike.cube]
    rat_close

theorem WD.b_Lp (f Lp Lc kT : ℝ) (hLp : 0 < Lp) (hLc : 0 < Lc) (hkT : 0 < kT) :
    HasDerivAt (fun Lp => WD.b f Lp Lc kT) (WD.db_dLp f Lp Lc kT) Lp := by
  apply HasDerivAt.congr_deriv
  · simp only [WD.b, RealLike.sq, RealLike.cube]
    deriv_auto
    all_goals side_goal
  · simp only [WD.db_dLp, RealLike.sq, RealLike.cube]
    rat_close

theorem WD.b_Lc (f Lp Lc kT : ℝ) (hLp : 0 < Lp) (hLc : 0 < Lc) (hkT : 0 < kT) :
    HasDerivAt (fun Lc => WD.b f Lp Lc kT) (WD.db_dLc f Lp Lc kT) Lc := by
  apply HasDerivAt.congr_deriv
  · simp only [WD.b, RealLike.sq, RealLike.cube]
    deriv_auto
    all_goals side_goal
  · simp only [WD.db_dLc, RealLike.sq, RealLike.cube]
    rat_close

theorem WD.b_kT (f Lp Lc kT : ℝ) (hLp : 0 < Lp) (hLc : 0 < Lc) (hkT : 0 < kT) :
    HasDerivAt (fun kT => WD.b f Lp Lc kT) (WD.db_dkT f Lp Lc kT) kT := by
  apply HasDerivAt.congr_deriv
  · simp only [WD.b, RealLike.sq, RealLike.cube]
    deriv_auto
    all_goals side_goal
  · simp only [WD.db_dkT, RealLike.sq, RealLike.cube]
    rat_close

theorem WD.b_f (f Lp Lc kT : ℝ) (hLp : 0 < Lp) (hLc : 0 < Lc) (hkT : 0 < kT) :
    HasDerivAt (fun f => WD.b f Lp Lc kT) (WD.db_df f Lp Lc kT) f := by
  apply HasDerivAt.congr_deriv
  · simp only [WD.b, RealLike.sq, RealLike.cube]
    deriv_auto
    all_goals side_goal
  · simp only [WD.db_df, RealLike.sq, RealLike.cube]
    rat_close

theorem WD.c_Lp (f Lp Lc kT : ℝ) (hLp : 0 < Lp) (hLc : 0 < Lc) (hkT : 0 < kT) :
    HasDerivAt (fun Lp => WD.c f Lp Lc kT) (WD.dc_dLp f Lp Lc kT) Lp := by
  apply HasDerivAt.congr_deriv
  · simp only [WD.c, RealLike.sq, RealLike.cube]
    deriv_auto
    all_goals side_goal
  · simp only [WD.dc_dLp, RealLike.sq, RealLike.cube]
    rat_close

theorem WD.c_Lc (f Lp Lc kT : ℝ) (hLp : 0 < Lp) (hLc : 0 < Lc) (hkT : 0 < kT) :
    HasDerivAt (fun Lc => WD.c f Lp Lc kT) (WD.dc_dLc f Lp Lc kT) Lc := by
  apply HasDerivAt.congr_deriv
  · simp only [WD.c, RealLike.sq, RealLike.cube]
    deriv_auto
    all_goals side_goal
  · simp only [WD.dc_dLc, RealLike.sq, RealLike.cube]
    rat_close

theorem WD.c_kT (f Lp Lc kT : ℝ) (hLp : 0 < Lp) (hLc : 0 < Lc) (hkT : 0 < kT) :
    HasDerivAt (fun kT => WD.c f Lp Lc kT) (WD.dc_dkT f Lp Lc kT) kT := by
  apply HasDerivAt.congr_deriv
  · simp only [WD.c, RealLike.sq, RealLike.cube]
    deriv_auto
    all_goals side_goal
  · simp only [WD.dc_dkT, RealLike.sq, RealLike.cube]
    rat_close

theorem WD.c_f (f Lp Lc kT : ℝ) (hLp : 0 < Lp) (hLc : 0 < Lc) (hkT : 0 < kT) :
    HasDerivAt (fun f => WD.c f Lp Lc kT) (WD.dc_df f Lp Lc kT) f := by
  apply HasDerivAt.congr_deriv
  · simp only [WD.c, RealLike.sq, RealLike.cube]
    deriv_auto
    all_goals side_goal
  · simp only [WD.dc_df, RealLike.sq, RealLike.cube]
    rat_close

theorem EF.a_Lp (d Lp Lc St kT : ℝ) (hLp : 0 < Lp) (hLc : 0 < Lc) (hSt : 0 < St) (hkT : 0 < kT) :
    HasDerivAt (fun Lp => EF.a d Lp Lc St kT) (EF.da_dLp d Lp Lc St kT) Lp := by
  apply HasDerivAt.congr_deriv
  · simp only [EF.a, RealLike.sq, RealLike.cube, EF.denom1, EF.denom2, EF.quad]
    deriv_auto
    all_goals side_goal
  · simp only [EF.da_dLp, RealLike.sq, RealLike.cube, EF.denom1, EF.denom2, EF.quad]
    rat_close

theorem EF.a_Lc (d Lp Lc St kT : ℝ) (hLp : 0 < Lp) (hLc : 0 < Lc) (hSt : 0 < St) (hkT : 0 < kT) :
    HasDerivAt (fun Lc => EF.a d Lp Lc St kT) (EF.da_dLc d Lp Lc St kT) Lc := by
  apply HasDerivAt.congr_deriv
  · simp only [EF.a, RealLike.sq, RealLike.cube, EF.denom1, EF.denom2, EF.quad]
    deriv_auto
    all_goals side_goal
  · simp only [EF.da_dLc, RealLike.sq, RealLike.cube, EF.denom1, EF.denom2, EF.quad]
    rat_close

theorem EF.a_St (d Lp Lc St kT : ℝ) (hLp : 0 < Lp) (hLc : 0 < Lc) (hSt : 0 < St) (hkT : 0 < kT) :
    HasDerivAt (fun St => EF.a d Lp Lc St kT) (EF.da_dSt d Lp Lc St kT) St := by
  apply HasDerivAt.congr_deriv
  · simp only [EF.a, RealLike.sq, RealLike.cube, EF.denom1, EF.denom2, EF.quad]
    deriv_auto
    all_goals side_goal
  · simp only [EF.da_dSt, RealLike.sq, RealLike.cube, EF.denom1, EF.denom2, EF.quad]
    rat_close

theorem EF.a_kT (d Lp Lc St kT : ℝ) (hLp : 0 < Lp) (hLc : 0 < Lc) (hSt : 0 < St) (hkT : 0 < kT) :
    HasDerivAt (fun kT => EF.a d Lp Lc St kT) (EF.da_dkT d Lp Lc St kT) kT := by
  apply HasDerivAt.congr_deriv
  · simp only [EF.a, RealLike.sq, RealLike.cube, EF.denom1, EF.denom2, EF.quad]
    deriv_auto
    all_goals side_goal
  · simp only [EF.da_dkT, RealLike.sq, RealLike.cube, EF.denom1, EF.denom2, EF.quad]
    rat_close

theorem EF.a_d (d Lp Lc St kT : ℝ) (hLp : 0 < Lp) (hLc : 0 < Lc) (hSt : 0 < St) (hkT : 0 < kT) :
    HasDerivAt (fun d => EF.a d Lp Lc St kT) (EF.da_dd d Lp Lc St kT) d := by
  apply HasDerivAt.congr_deriv
  · simp only [EF.a, RealLike.sq, RealLike.cube, EF.denom1, EF.denom2, EF.quad]
    deriv_auto
    all_goals side_goal
  · simp only [EF.da_dd, RealLike.sq, RealLike.cube, EF.denom1, EF.denom2, EF.quad]
    rat_close

theorem EF.b_Lp (d Lp Lc St kT : ℝ) (hLp : 0 < Lp) (hLc : 0 < Lc) (hSt : 0 < St) (hkT : 0 < kT) :
    HasDerivAt (fun Lp => EF.b d Lp Lc St kT) (EF.db_dLp d Lp Lc St kT) Lp := by
  apply HasDerivAt.congr_deriv
  · simp only [EF.b, RealLike.sq, RealLike.cube, EF.denom1, EF.denom2, EF.quad]
    deriv_auto
    all_goals side_goal
  · simp only [EF.db_dLp, RealLike.sq, RealLike.cube, EF.denom1, EF.denom2, EF.quad]
    rat_close

theorem EF.b_Lc (d Lp Lc St kT : ℝ) (hLp : 0 < Lp) (hLc : 0 < Lc) (hSt : 0 < St) (hkT : 0 < kT) :
    HasDerivAt (fun Lc => EF.b d Lp Lc St kT) (EF.db_dLc d Lp Lc St kT) Lc := by
  apply HasDerivAt.congr_deriv
  · simp only [EF.b, RealLike.sq, RealLike.cube, EF.denom1, EF.denom2, EF.quad]
    deriv_auto
    all_goals side_goal
  · simp only [EF.db_dLc, RealLike.sq, RealLike.cube, EF.denom1, EF.denom2, EF.quad]
    rat_close

theorem EF.b_St (d Lp Lc St kT : ℝ) (hLp : 0 < Lp) (hLc : 0 < Lc) (hSt : 0 < St) (hkT : 0 < kT) :
    HasDerivAt (fun St => EF.b d Lp Lc St kT) (EF.db_dSt d Lp Lc St kT) St := by
  apply HasDerivAt.congr_deriv
  · simp only [EF.b, RealLike.sq, RealLike.cube, EF.denom1, EF.denom2, EF.quad]
    deriv_auto
    all_goals side_goal
  · simp only [EF.db_dSt, RealLike.sq, RealLike.cube, EF.denom1, EF.denom2, EF.quad]
    rat_close

theorem EF.b_kT (d Lp Lc St kT : ℝ) (hLp : 0 < Lp) (hLc : 0 < Lc) (hSt : 0 < St) (hkT : 0 < kT) :
    HasDerivAt (fun kT => EF.b d Lp Lc St kT) (EF.db_dkT d Lp Lc St kT) kT := by
  apply HasDerivAt.congr_deriv
  · simp only [EF.b, RealLike.sq, RealLike.cube, EF.denom1, EF.denom2, EF.quad]
    deriv_auto
    all_goals side_goal
  · simp only [EF.db_dkT, RealLike.sq, RealLike.cube, EF.denom1, EF.denom2, EF.quad]
    rat_close

theorem EF.b_d (d Lp Lc St kT : ℝ) (hLp : 0 < Lp) (hLc : 0 < Lc) (hSt : 0 < St) (hkT : 0 < kT) :
    HasDerivAt (fun d => EF.b d Lp Lc St kT) (EF.db_dd d Lp Lc St kT) d := by
  apply HasDerivAt.congr_deriv
  · simp only [EF.b, RealLike.sq, RealLike.cube, EF.denom1, EF.denom2, EF.quad]
    deriv_auto
    all_goals side_goal
  · simp only [EF.db_dd, RealLike.sq, RealLike.cube, EF.denom1, EF.denom2, EF.quad]
    rat_close

theorem EF.c_Lp (d Lp Lc St kT : ℝ) (hLp : 0 < Lp) (hLc : 0 < Lc) (hSt : 0 < St) (hkT : 0 < kT) :
    HasDerivAt (fun Lp => EF.c d Lp Lc St kT) (EF.dc_dLp d Lp Lc St kT) Lp := by
  apply HasDerivAt.congr_deriv
  · simp only [EF.c, RealLike.sq, RealLike.cube, EF.denom1, EF.denom2, EF.quad]
    deriv_auto
    all_goals side_goal
  · simp only [EF.dc_dLp, RealLike.sq, RealLike.cube, EF.denom1, EF.denom2, EF.quad]
    rat_close

theorem EF.c_Lc (d Lp Lc St kT : ℝ) (hLp : 0 < Lp) (hLc : 0 < Lc) (hSt : 0 < St) (hkT : 0 < kT) :
    HasDerivAt (fun Lc => EF.c d Lp Lc St kT) (EF.dc_dLc d Lp Lc St kT) Lc := by
  apply HasDerivAt.congr_deriv
  · simp only [EF.c, RealLike.sq, RealLike.cube, EF.denom1, EF.denom2, EF.quad]
    deriv_auto
    all_goals side_goal
  · simp only [EF.dc_dLc, RealLike.sq, RealLike.cube, EF.denom1, EF.denom2, EF.quad]
    rat_close

theorem EF.c_St (d Lp Lc St kT : ℝ) (hLp : 0 < Lp) (hLc : 0 < Lc) (hSt : 0 < St) (hkT : 0 < kT) :
    HasDerivAt (fun St => EF.c d Lp Lc St kT) (EF.dc_dSt d Lp Lc St kT) St := by
  apply HasDerivAt.congr_deriv
  · simp only [EF.c, RealLike.sq, RealLike.cube, EF.denom1, EF.denom2, EF.quad]
    deriv_auto
    all_goals side_goal
  · simp only [EF.dc_dSt, RealLike.sq, RealLike.cube, EF.denom1, EF.denom2, EF.quad]
    rat_close

theorem EF.c_kT (d Lp Lc St kT : ℝ) (hLp : 0 < Lp) (hLc : 0 < Lc) (hSt : 0 < St) (hkT : 0 < kT) :
    HasDerivAt (fun kT => EF.c d Lp Lc St kT) (EF.dc_dkT d Lp Lc St kT) kT := by
  apply HasDerivAt.congr_deriv
  · simp only [EF.c, RealLike.sq, RealLike.cube, EF.denom1, EF.denom2, EF.quad]
    deriv_auto
    all_goals side_goal
  · simp only [EF.dc_dkT, RealLike.sq, RealLike.cube, EF.denom1, EF.denom2, EF.quad]
    rat_close

theorem EF.c_d (d Lp Lc St kT : ℝ) (hLp : 0 < Lp) (hLc : 0 < Lc) (hSt : 0 < St) (hkT : 0 < kT) :
    HasDerivAt (fun d => EF.c d Lp Lc St kT) (EF.dc_dd d Lp Lc St kT) d := by
  apply HasDerivAt.congr_deriv
  · simp only [EF.c, RealLike.sq, RealLike.cube, EF.denom1, EF.denom2, EF.quad]
    deriv_auto
    all_goals side_goal
  · simp only [EF.dc_dd, RealLike.sq, RealLike.cube, EF.denom1, EF.denom2, EF.quad]
    rat_close

theorem ED.a_Lp (f Lp Lc St kT : ℝ) (hLp : 0 < Lp) (hLc : 0 < Lc) (hSt : 0 < St) (hkT : 0 < kT) :
    HasDerivAt (fun Lp => ED.a f Lp Lc St kT) (ED.da_dLp f Lp Lc St kT) Lp := by
  apply HasDerivAt.congr_deriv
  · simp only [ED.a, RealLike.sq, RealLike.cube, ED.cpoly, ED.bpoly]
    deriv_auto
    all_goals side_goal
  · simp only [ED.da_dLp, RealLike.sq, RealLike.cube, ED.cpoly, ED.bpoly]
    rat_close

theorem ED.a_Lc (f Lp Lc St kT : ℝ) (hLp : 0 < Lp) (hLc : 0 < Lc) (hSt : 0 < St) (hkT : 0 < kT) :
    HasDerivAt (fun Lc => ED.a f Lp Lc St kT) (ED.da_dLc f Lp Lc St kT) Lc := by
  apply HasDerivAt.congr_deriv
  · simp only [ED.a, RealLike.sq, RealLike.cube, ED.cpoly, ED.bpoly]
    deriv_auto
    all_goals side_goal
  · simp only [ED.da_dLc, RealLike.sq, RealLike.cube, ED.cpoly, ED.bpoly]
    rat_close

theorem ED.a_St (f Lp Lc St kT : ℝ) (hLp : 0 < Lp) (hLc : 0 < Lc) (hSt : 0 < St) (hkT : 0 < kT) :
    HasDerivAt (fun St => ED.a f Lp Lc St kT) (ED.da_dSt f Lp Lc St kT) St := by
  apply HasDerivAt.congr_deriv
  · simp only [ED.a, RealLike.sq, RealLike.cube, ED.cpoly, ED.bpoly]
    deriv_auto
    all_goals side_goal
  · simp only [ED.da_dSt, RealLike.sq, RealLike.cube, ED.cpoly, ED.bpoly]
    rat_close

theorem ED.a_kT (f Lp Lc St kT : ℝ) (hLp : 0 < Lp) (hLc : 0 < Lc) (hSt : 0 < St) (hkT : 0 < kT) :
    HasDerivAt (fun kT => ED.a f Lp Lc St kT) (ED.da_dkT f Lp Lc St kT) kT := by
  apply HasDerivAt.congr_deriv
  · simp only [ED.a, RealLike.sq, RealLike.cube, ED.cpoly, ED.bpoly]
    deriv_auto
    all_goals side_goal
  · simp only [ED.da_dkT, RealLike.sq, RealLike.cube, ED.cpoly, ED.bpoly]
    rat_close

theorem ED.a_f (f Lp Lc St kT : ℝ) (hLp : 0 < Lp) (hLc : 0 < Lc) (hSt : 0 < St) (hkT : 0 < kT) :
    HasDerivAt (fun f => ED.a f Lp Lc St kT) (ED.da_df f Lp Lc St kT) f := by
  apply HasDerivAt.congr_deriv
  · simp only [ED.a, RealLike.sq, RealLike.cube, ED.cpoly, ED.bpoly]
    deriv_auto
    all_goals side_goal
  · simp only [ED.da_df, RealLike.sq, RealLike.cube, ED.cpoly, ED.bpoly]
    rat_close

theorem ED.b_Lp (f Lp Lc St kT : ℝ) (hLp : 0 < Lp) (hLc : 0 < Lc) (hSt : 0 < St) (hkT : 0 < kT) :
    HasDerivAt (fun Lp => ED.b f Lp Lc St kT) (ED.db_dLp f Lp Lc St kT) Lp := by
  apply HasDerivAt.congr_deriv
  · simp only [ED.b, RealLike.sq, RealLike.cube, ED.cpoly, ED.bpoly]
    deriv_auto
    all_goals side_goal
  · simp only [ED.db_dLp, RealLike.sq, RealLike.cube, ED.cpoly, ED.bpoly]
    rat_close

theorem ED.b_Lc (f Lp Lc St kT : ℝ) (hLp : 0 < Lp) (hLc : 0 < Lc) (hSt : 0 < St) (hkT : 0 < kT) :
    HasDerivAt (fun Lc => ED.b f Lp Lc St kT) (ED.db_dLc f Lp Lc St kT) Lc := by
  apply HasDerivAt.congr_deriv
  · simp only [ED.b, RealLike.sq, RealLike.cube, ED.cpoly, ED.bpoly]
    deriv_auto
    all_goals side_goal
  · simp only [ED.db_dLc, RealLike.sq, RealLike.cube, ED.cpoly, ED.bpoly]
    rat_close

theorem ED.b_St (f Lp Lc St kT : ℝ) (hLp : 0 < Lp) (hLc : 0 < Lc) (hSt : 0 < St) (hkT : 0 < kT) :
    HasDerivAt (fun St => ED.b f Lp Lc St kT) (ED.db_dSt f Lp Lc St kT) St := by
  apply HasDerivAt.congr_deriv
  · simp only [ED.b, RealLike.sq, RealLike.cube, ED.cpoly, ED.bpoly]
    deriv_auto
    all_goals side_goal
  · simp only [ED.db_dSt, RealLike.sq, RealLike.cube, ED.cpoly, ED.bpoly]
    rat_close

theorem ED.b_kT (f Lp Lc St kT : ℝ) (hLp : 0 < Lp) (hLc : 0 < Lc) (hSt : 0 < St) (hkT : 0 < kT) :
    HasDerivAt (fun kT => ED.b f Lp Lc St kT) (ED.db_dkT f Lp Lc St kT) kT := by
  apply HasDerivAt.congr_deriv
  · simp only [ED.b, RealLike.sq, RealLike.cube, ED.cpoly, ED.bpoly]
    deriv_auto
    all_goals side_goal
  · simp only [ED.db_dkT, RealLike.sq, RealLike.cube, ED.cpoly, ED.bpoly]
    rat_close

theorem ED.b_f (f Lp Lc St kT : ℝ) (hLp : 0 < Lp) (hLc : 0 < Lc) (hSt : 0 < St) (hkT : 0 < kT) :
    HasDerivAt (fun f => ED.b f Lp Lc St kT) (ED.db_df f Lp Lc St kT) f := by
  apply HasDerivAt.congr_deriv
  · simp only [ED.b, RealLike.sq, RealLike.cube, ED.cpoly, ED.bpoly]
    deriv_auto
    all_goals side_goal
  · simp only [ED.db_df, RealLike.sq, RealLike.cube, ED.cpoly, ED.bpoly]
    rat_close

theorem ED.c_Lp (f Lp Lc St kT : ℝ) (hLp : 0 < Lp) (hLc : 0 < Lc) (hSt : 0 < St) (hkT : 0 < kT) :
    HasDerivAt (fun Lp => ED.c f Lp Lc St kT) (ED.dc_dLp f Lp Lc St kT) Lp := by
  apply HasDerivAt.congr_deriv
  · simp only [ED.c, RealLike.sq, RealLike.cube, ED.cpoly, ED.bpoly]
    deriv_auto
    all_goals side_goal
  · simp only [ED.dc_dLp, RealLike.sq, RealLike.cube, ED.cpoly, ED.bpoly]
    rat_close

theorem ED.c_Lc (f Lp Lc St kT : ℝ) (hLp : 0 < Lp) (hLc : 0 < Lc) (hSt : 0 < St) (hkT : 0 < kT) :
    HasDerivAt (fun Lc => ED.c f Lp Lc St kT) (ED.dc_dLc f Lp Lc St kT) Lc := by
  apply HasDerivAt.congr_deriv
  · simp only [ED.c, RealLike.sq, RealLike.cube, ED.cpoly, ED.bpoly]
    deriv_auto
    all_goals side_goal
  · simp only [ED.dc_dLc, RealLike.sq, RealLike.cube, ED.cpoly, ED.bpoly]
    rat_close

theorem ED.c_St (f Lp Lc St kT : ℝ) (hLp : 0 < Lp) (hLc : 0 < Lc) (hSt : 0 < St) (hkT : 0 < kT) :
    HasDerivAt (fun St => ED.c f Lp Lc St kT) (ED.dc_dSt f Lp Lc St kT) St := by
  apply HasDerivAt.congr_deriv
  · simp only [ED.c, RealLike.sq, RealLike.cube, ED.cpoly, ED.bpoly]
    deriv_auto
    all_goals side_goal
  · simp only [ED.dc_dSt, RealLike.sq, RealLike.cube, ED.cpoly, ED.bpoly]
    rat_close

theorem ED.c_kT (f Lp Lc St kT : ℝ) (hLp : 0 < Lp) (hLc : 0 < Lc) (hSt : 0 < St) (hkT : 0 < kT) :
    HasDerivAt (fun kT => ED.c f Lp Lc St kT) (ED.dc_dkT f Lp Lc St kT) kT := by
  apply HasDerivAt.congr_deriv
  · simp only [ED.c, RealLike.sq, RealLike.cube, ED.cpoly, ED.bpoly]
    deriv_auto
    all_goals side_goal
  · simp only [ED.dc_dkT, RealLike.sq, RealLike.cube, ED.cpoly, ED.bpoly]
    rat_close

theorem ED.c_f (f Lp Lc St kT : ℝ) (hLp : 0 < Lp) (hLc : 0 < Lc) (hSt : 0 < St) (hkT : 0 < kT) :
    HasDerivAt (fun f => ED.c f Lp Lc St kT) (ED.dc_df f Lp Lc St kT) f := by
  apply HasDerivAt.congr_deriv
  · simp only [ED.c, RealLike.sq, RealLike.cube, ED.cpoly, ED.bpoly]
    deriv_auto
    all_goals side_goal
  · simp only [ED.dc_df, RealLike.sq, RealLike.cube, ED.cpoly, ED.bpoly]
    rat_close


/-! ### inversion rules -/

open Filter Topology in
theorem inverse_derivative_lemma (f g : ℝ → ℝ) (f' d : ℝ) (hg : ContinuousAt g d)
    (hf : HasDerivAt f f' (g d)) (hf' : f' ≠ 0) (hfg : ∀ᶠ z in 𝓝 d, f (g z) = z) :
    HasDerivAt g (invertDerivative f') d := by
  have h := HasDerivAt.of_local_left_inverse hg hf hf' hfg
  have e : invertDerivative f' = f'⁻¹ := by simp only [invertDerivative]; norm_num
  rw [e]; exact h

open Filter Topology in
theorem inverse_jacobian_lemma (f : ℝ → ℝ → ℝ) (g : ℝ → ℝ) (fF fp gp d p0 : ℝ)
    (hf : HasFDerivAt (fun q : ℝ × ℝ => f q.1 q.2)
      (fF • ContinuousLinearMap.fst ℝ ℝ ℝ + fp • ContinuousLinearMap.snd ℝ ℝ ℝ) (g p0, p0))
    (hg : HasDerivAt g gp p0) (hfF : fF ≠ 0) (hfg : ∀ᶠ p in 𝓝 p0, f (g p) p = d) :
    gp = (invertJacobian [fp] fF).getD 0 0 := by
  have h1 : HasDerivAt (fun p => (g p, p)) (gp, 1) p0 := hg.prodMk (hasDerivAt_id p0)
  have hf2 : HasFDerivAt (fun q : ℝ × ℝ => f q.1 q.2)
      (fF • ContinuousLinearMap.fst ℝ ℝ ℝ + fp • ContinuousLinearMap.snd ℝ ℝ ℝ) ((fun p => (g p, p)) p0) := hf
  have h2 := HasFDerivAt.comp_hasDerivAt (f := fun p => (g p, p)) p0 hf2 h1
  have h3 : HasDerivAt (fun p => f (g p) p) 0 p0 := (hasDerivAt_const p0 d).congr_of_eventuallyEq hfg
  have e := h2.unique h3
  simp only [ContinuousLinearMap.add_apply, ContinuousLinearMap.smul_apply, ContinuousLinearMap.coe_fst',
    ContinuousLinearMap.coe_snd', smul_eq_mul] at e
  simp only [invertJacobian, List.map_cons, List.map_nil, List.getD_cons_zero]
  norm_num
  field_simp
  linear_combination e
/-! ### scatter (NumPy fancy-index `op=`) -/
section scatter
variable {β : Type}

/-- everything that is routed to position `k`, accumulated from `b` -/
def routedAcc (op : β → β → β) (l : List (Nat × β)) (k : Nat) (b : β) : β :=
  l.foldl (fun b iv => if iv.1 = k then op b iv.2 else b) b

/-- the LAST entry routed to position `k` applied to the original value `b0` (`r` if there is none) -/
def routedLast (op : β → β → β) (b0 : β) (l : List (Nat × β)) (k : Nat) (r : β) : β :=
  l.foldl (fun r iv => if iv.1 = k then op b0 iv.2 else r) r

@[simp] theorem routedAcc_nil (op : β → β → β) (k : Nat) (b : β) : routedAcc op [] k b = b := rfl
@[simp] theorem routedAcc_cons (op : β → β → β) (iv : Nat × β) (l : List (Nat × β)) (k : Nat) (b : β) :
    routedAcc op (iv :: l) k b = routedAcc op l k (if iv.1 = k then op b iv.2 else b) := rfl
@[simp] theorem routedLast_nil (op : β → β → β) (b0 : β) (k : Nat) (r : β) : routedLast op b0 [] k r = r := rfl
@[simp] theorem routedLast_cons (op : β → β → β) (b0 : β) (iv : Nat × β) (l : List (Nat × β)) (k : Nat) (r : β) :
    routedLast op b0 (iv :: l) k r = routedLast op b0 l k (if iv.1 = k then op b0 iv.2 else r) := rfl

theorem routedAcc_cons_ne (op : β → β → β) (iv : Nat × β) (l : List (Nat × β)) (k : Nat) (h : iv.1 ≠ k) :
    routedAcc op (iv :: l) k = routedAcc op l k := by funext b; rw [routedAcc_cons, if_neg h]
theorem routedLast_cons_ne (op : β → β → β) (b0 : β) (iv : Nat × β) (l : List (Nat × β)) (k : Nat) (h : iv.1 ≠ k) :
    routedLast op b0 (iv :: l) k = routedLast op b0 l k := by funext b; rw [routedLast_cons, if_neg h]

theorem foldl_acc_getElem? (op : β → β → β) (l : List (Nat × β)) (acc : List β) (k : Nat) :
    (l.foldl (fun acc (iv : Nat × β) =>
        match acc[iv.1]? with
        | some b0 => acc.set iv.1 (op b0 iv.2)
        | none => acc) acc)[k]? = acc[k]?.map (routedAcc op l k) := by
  induction l generalizing acc with
  | nil => rw [List.foldl_nil]; cases acc[k]? <;> rfl
  | cons iv l ih =>
    rw [List.foldl_cons, ih]
    by_cases hik : iv.1 = k
    · subst hik
      cases h : acc[iv.1]? with
      | none => simp [h]
      | some b0 =>
        have hlt : iv.1 < acc.length := (List.getElem?_eq_some_iff.mp h).1
        simp [List.getElem?_set, hlt]
    · rw [routedAcc_cons_ne op iv l k hik]
      cases h : acc[iv.1]? with
      | none => rfl
      | some b0 => simp [hik, List.getElem?_set]

theorem foldl_acc_length (op : β → β → β) (l : List (Nat × β)) (acc : List β) :
    (l.foldl (fun acc (iv : Nat × β) =>
        match acc[iv.1]? with
        | some b0 => acc.set iv.1 (op b0 iv.2)
        | none => acc) acc).length = acc.length := by
  induction l generalizing acc with
  | nil => rfl
  | cons iv l ih =>
    rw [List.foldl_cons, ih]
    cases h : acc[iv.1]? <;> simp

theorem foldl_op_length (op : β → β → β) (base : List β) (l : List (Nat × β)) (acc : List β) :
    (l.foldl (fun acc (iv : Nat × β) =>
        match base[iv.1]? with
        | some b0 => acc.set iv.1 (op b0 iv.2)
        | none => acc) acc).length = acc.length := by
  induction l generalizing acc with
  | nil => rfl
  | cons iv l ih =>
    rw [List.foldl_cons, ih]
    cases h : base[iv.1]? <;> simp

theorem foldl_op_getElem? (op : β → β → β) (base : List β) (l : List (Nat × β)) (acc : List β) (k : Nat)
    (b0 : β) (hb : base[k]? = some b0) (hlen : acc.length = base.length) :
    (l.foldl (fun acc (iv : Nat × β) =>
        match base[iv.1]? with
        | some b0 => acc.set iv.1 (op b0 iv.2)
        | none => acc) acc)[k]? = acc[k]?.map (routedLast op b0 l k) := by
  induction l generalizing acc with
  | nil => rw [List.foldl_nil]; cases acc[k]? <;> rfl
  | cons iv l ih =>
    rw [List.foldl_cons]
    by_cases hik : iv.1 = k
    · subst hik
      have hlt : iv.1 < acc.length := by
        have := (List.getElem?_eq_some_iff.mp hb).1; omega
      rw [hb, ih _ (by simp [hlen])]
      have h : acc[iv.1]? = some acc[iv.1] := List.getElem?_eq_getElem hlt
      simp [List.getElem?_set, hlt, h]
    · rw [routedLast_cons_ne op b0 iv l k hik]
      cases h : base[iv.1]? with
      | none => exact ih acc hlen
      | some b1 =>
        show (List.foldl _ (acc.set iv.1 (op b1 iv.2)) l)[k]? = _
        rw [ih _ (by simp [hlen])]
        simp [List.getElem?_set, hik]

theorem routedAcc_no_key (op : β → β → β) (l : List (Nat × β)) (k : Nat) (b : β)
    (h : ∀ iv ∈ l, iv.1 ≠ k) : routedAcc op l k b = b := by
  induction l generalizing b with
  | nil => rfl
  | cons iv l ih =>
    have : iv.1 ≠ k := h iv (by simp)
    rw [routedAcc_cons, if_neg this]
    exact ih b (fun iv' hm => h iv' (by simp [hm]))

theorem routedLast_no_key (op : β → β → β) (b0 : β) (l : List (Nat × β)) (k : Nat) (r : β)
    (h : ∀ iv ∈ l, iv.1 ≠ k) : routedLast op b0 l k r = r := by
  induction l generalizing r with
  | nil => rfl
  | cons iv l ih =>
    have : iv.1 ≠ k := h iv (by simp)
    rw [routedLast_cons, if_neg this]
    exact ih r (fun iv' hm => h iv' (by simp [hm]))

/-- with distinct target indices "accumulate" and "last wins" coincide -/
theorem routed_nodup (op : β → β → β) (l : List (Nat × β)) (k : Nat) (b0 : β)
    (hnd : (l.map Prod.fst).Nodup) : routedAcc op l k b0 = routedLast op b0 l k b0 := by
  induction l with
  | nil => rfl
  | cons iv l ih =>
    rw [List.map_cons, List.nodup_cons] at hnd
    rw [routedAcc_cons, routedLast_cons]
    by_cases hik : iv.1 = k
    · have hno : ∀ iv' ∈ l, iv'.1 ≠ k := by
        intro iv' hm heq
        apply hnd.1
        rw [hik, ← heq]; exact List.mem_map_of_mem hm
      simp only [hik, if_true]
      rw [routedAcc_no_key op l k _ hno, routedLast_no_key op b0 l k _ hno]
    · simp only [hik, if_false]
      exact ih hnd.2

theorem zip_fst_nodup (idx : List Nat) (vals : List β) (h : idx.Nodup) : ((idx.zip vals).map Prod.fst).Nodup := by
  induction idx generalizing vals with
  | nil => simp
  | cons i idx ih =>
    cases vals with
    | nil => simp
    | cons v vals =>
      rw [List.nodup_cons] at h
      simp only [List.zip_cons_cons, List.map_cons, List.nodup_cons]
      refine ⟨?_, ih vals h.2⟩
      intro hm
      rcases List.mem_map.mp hm with ⟨⟨a, b⟩, hab, rfl⟩
      exact h.1 (List.of_mem_zip hab).1

theorem scatterAcc_getElem? (op : β → β → β) (base : List β) (idx : List Nat) (vals : List β) (k : Nat) :
    (scatterAcc op base idx vals)[k]? = base[k]?.map (routedAcc op (idx.zip vals) k) :=
  foldl_acc_getElem? op (idx.zip vals) base k

theorem scatterOp_getElem? (op : β → β → β) (base : List β) (idx : List Nat) (vals : List β) (k : Nat)
    (b0 : β) (hb : base[k]? = some b0) :
    (scatterOp op base idx vals)[k]? = some (routedLast op b0 (idx.zip vals) k b0) := by
  have := foldl_op_getElem? op base (idx.zip vals) base k b0 hb rfl
  rw [hb] at this
  exact this

theorem scatterOp_length (op : β → β → β) (base : List β) (idx : List Nat) (vals : List β) :
    (scatterOp op base idx vals).length = base.length := foldl_op_length op base _ base
theorem scatterAcc_length (op : β → β → β) (base : List β) (idx : List Nat) (vals : List β) :
    (scatterAcc op base idx vals).length = base.length := foldl_acc_length op _ base

/-- for distinct indices the code's fancy-index update is the accumulating update -/
theorem scatterOp_eq_scatterAcc (op : β → β → β) (base : List β) (idx : List Nat) (vals : List β)
    (h : idx.Nodup) : scatterOp op base idx vals = scatterAcc op base idx vals := by
  apply List.ext_getElem?
  intro k
  rw [scatterAcc_getElem?]
  cases hb : base[k]? with
  | none =>
    have : (scatterOp op base idx vals)[k]? = none := by
      rw [List.getElem?_eq_none_iff, scatterOp_length]; exact List.getElem?_eq_none_iff.mp hb
    rw [this]; rfl
  | some b0 =>
    rw [scatterOp_getElem? op base idx vals k b0 hb]
    simp only [Option.map_some]
    rw [routed_nodup op _ k b0 (zip_fst_nodup idx vals h)]

end scatter

theorem routedAcc_add_sum (l : List (Nat × ℝ)) (k : Nat) (b : ℝ) :
    routedAcc (· + ·) l k b = b + ((l.filter (fun iv => iv.1 == k)).map Prod.snd).sum := by
  induction l generalizing b with
  | nil => simp
  | cons iv l ih =>
    rw [routedAcc_cons, ih]
    by_cases h : iv.1 = k
    · simp [h, List.filter_cons]; ring
    · simp [h, List.filter_cons]

theorem routedAcc_sub_sum (l : List (Nat × ℝ)) (k : Nat) (b : ℝ) :
    routedAcc (· - ·) l k b = b - ((l.filter (fun iv => iv.1 == k)).map Prod.snd).sum := by
  induction l generalizing b with
  | nil => simp
  | cons iv l ih =>
    rw [routedAcc_cons, ih]
    by_cases h : iv.1 = k
    · simp [h, List.filter_cons]; ring
    · simp [h, List.filter_cons]

/-- `pick` of the positions of the `true` entries of a mask = filtering by the mask -/
theorem pick_flatnonzero_aux {β : Type} (mask : List Bool) (row pre : List β) (h : row.length = mask.length) :
    pick (((mask.zipIdx pre.length).filter (·.1)).map (·.2)) (pre ++ row)
      = some ((row.zip mask).filterMap fun vm => if vm.2 then some vm.1 else none) := by
  induction mask generalizing row pre with
  | nil => simp [pick]
  | cons m ms ih =>
    cases row with
    | nil => simp at h
    | cons r rs =>
      simp only [List.length_cons, Nat.add_right_cancel_iff] at h
      have ih' := ih rs (pre ++ [r]) h
      simp only [List.length_append, List.length_cons, List.length_nil, List.append_assoc,
        List.cons_append, List.nil_append] at ih'
      simp only [List.zipIdx_cons, List.zip_cons_cons]
      cases m with
      | false =>
        simp only [List.filter_cons, Bool.false_eq_true, if_false, List.filterMap_cons]
        exact ih'
      | true =>
        simp only [List.filter_cons, if_true, List.map_cons, List.filterMap_cons]
        unfold pick at ih' ⊢
        rw [List.mapM_cons, ih']
        simp

theorem pick_flatnonzero {β : Type} (mask : List Bool) (row : List β) (h : row.length = mask.length) :
    pick (flatnonzero mask) row = some ((row.zip mask).filterMap fun vm => if vm.2 then some vm.1 else none) := by
  have := pick_flatnonzero_aux mask row [] h
  simpa [flatnonzero] using this



/-! ### the Cardano chain rule of `calc_first_root` equals the implicit-function derivatives -/

/-- algebraic heart of `calc_first_root`: with `u³ = −q/2 + √det`, `v³ = −q/2 − √det`, `p = −3uv`
    the chain rule through Cardano's formula gives the implicit-function derivatives -/
theorem cardano_core (a u v : ℝ) (hu : u ≠ 0) (hv : v ≠ 0) (huv : u ^ 3 - v ^ 3 ≠ 0) :
    let p := -3 * u * v
    let q := -(u ^ 3 + v ^ 3)
    let s := (u ^ 3 - v ^ 3) / 2
    let b := p + a * a / 3
    let y := u + v - a / 3
    let dP := 3 * y * y + 2 * a * y + b
    let dy_ddet := 1 / (6 * s * (u * u)) - 1 / (6 * s * (v * v))
    let dy_dq := -1 / (6 * (u * u)) - 1 / (6 * (v * v))
    let dp_da := -2 * a / 3
    let dq_da := 2 * (a * a) / 9 - b / 3
    let dq_db := -a / 3
    dy_ddet * (p * p / 9) * dp_da + dy_ddet * (1 / 2 * q) * dq_da + dy_dq * dq_da + -(1 / 3) = -(y * y) / dP ∧
    dy_ddet * (p * p / 9) + dy_ddet * (1 / 2 * q) * dq_db + dy_dq * dq_db = -y / dP ∧
    dy_ddet * (1 / 2 * q) + dy_dq = -1 / dP := by
  intro p q s b y dP dy_ddet dy_dq dp_da dq_da dq_db
  have hpos : 0 < u * u + u * v + v * v := by nlinarith [sq_nonneg (u + v / 2), sq_pos_of_ne_zero hv]
  have hdP : dP = 3 * (u * u + u * v + v * v) := by simp only [dP, y, b, p]; ring
  have hdP0 : dP ≠ 0 := by rw [hdP]; positivity
  have hs : s ≠ 0 := by simp only [s]; exact div_ne_zero huv (by norm_num)
  have hfac : u ^ 3 - v ^ 3 = (u - v) * (u * u + u * v + v * v) := by ring
  have huv' : u - v ≠ 0 := by
    intro h; apply huv; rw [hfac, h]; ring
  obtain ⟨W, hWdef⟩ : ∃ W, W = u * u + u * v + v * v := ⟨_, rfl⟩
  rw [← hWdef] at hfac hdP hpos
  have hW : W ≠ 0 := hpos.ne'
  have h3W : 3 * W ≠ 0 := by positivity
  refine ⟨?_, ?_, ?_⟩
  · rw [hdP, eq_div_iff h3W]; simp only [dy_ddet, dy_dq, dp_da, dq_da, dq_db, s, q, p, b, y]
    rw [hfac]; field_simp; subst hWdef; ring
  · rw [hdP, eq_div_iff h3W]; simp only [dy_ddet, dy_dq, dp_da, dq_da, dq_db, s, q, p, b, y]
    rw [hfac]; field_simp; subst hWdef; ring
  · rw [hdP, eq_div_iff h3W]; simp only [dy_ddet, dy_dq, dp_da, dq_da, dq_db, s, q, p, b, y]
    rw [hfac]; field_simp; subst hWdef; ring

theorem cbrt_abs_sq (x : ℝ) : Real.cbrt |x| * Real.cbrt |x| = Real.cbrt x * Real.cbrt x := by
  unfold Real.cbrt
  by_cases h : 0 ≤ x
  · rw [abs_of_nonneg h]
  · have h' : x < 0 := not_le.mp h
    rw [abs_of_neg h', if_pos (by linarith : (0:ℝ) ≤ -x), if_neg h]; ring

theorem cube_inj (x y : ℝ) (h : x ^ 3 = y ^ 3) : x = y :=
  (Odd.strictMono_pow (by decide : Odd 3)).injective h

theorem cardano_chain_eq_implicit_aux (a b c : ℝ) (k : Nat) (hdet : 0 < cubDet a b c)
    (hreg : regularised a b c = false) :
    calcCubicRootDerivs a b c k = implicitDerivs a b (calcCubicRoot a b c k) := by
  have hlt : RealLike.lt (0.0:ℝ) (cubDet a b c) = true := by
    show decide ((0.0:ℝ) < cubDet a b c) = true
    rw [decide_eq_true_eq]; norm_num; exact hdet
  have hle : RealLike.le (0.0:ℝ) (cubDet a b c) = true := by
    show decide ((0.0:ℝ) ≤ cubDet a b c) = true
    rw [decide_eq_true_eq]; norm_num; exact hdet.le
  simp only [regularised, hlt, if_true] at hreg
  simp only [Bool.or_eq_false_iff] at hreg
  obtain ⟨⟨h1, h2⟩, h3⟩ := hreg
  -- facts about s0 = √det, u, v
  have hdetdef : cubDet a b c = cubQ a b c * cubQ a b c / 4 + cubP a b * cubP a b * cubP a b / 27 := by
    simp only [cubDet]; norm_num
  have hPdef : cubP a b = b - a * a / 3 := by simp only [cubP]; norm_num
  have hs0 : Real.sqrt (cubDet a b c) * Real.sqrt (cubDet a b c) = cubDet a b c := Real.mul_self_sqrt hdet.le
  have hs0pos : 0 < Real.sqrt (cubDet a b c) := Real.sqrt_pos.mpr hdet
  have hu3 := Real.cbrt_cube (Real.sqrt (cubDet a b c) - 1 / 2 * cubQ a b c)
  have hv3 := Real.cbrt_cube (-Real.sqrt (cubDet a b c) - 1 / 2 * cubQ a b c)
  have hhalf : (0.5 : ℝ) = 1 / 2 := by norm_num
  -- the clamps are inactive
  have e1 : RealLike.sq (RealLike.cbrt (RealLike.abs (RealLike.sqrt (cubDet a b c) - 0.5 * cubQ a b c)))
      = Real.cbrt (Real.sqrt (cubDet a b c) - 1 / 2 * cubQ a b c) * Real.cbrt (Real.sqrt (cubDet a b c) - 1 / 2 * cubQ a b c) := by
    rw [hhalf]; exact cbrt_abs_sq _
  have e2 : RealLike.sq (RealLike.cbrt (RealLike.abs (-RealLike.sqrt (cubDet a b c) - 0.5 * cubQ a b c)))
      = Real.cbrt (-Real.sqrt (cubDet a b c) - 1 / 2 * cubQ a b c) * Real.cbrt (-Real.sqrt (cubDet a b c) - 1 / 2 * cubQ a b c) := by
    rw [hhalf]; exact cbrt_abs_sq _
  have c1 : clampLo (RealLike.sq (RealLike.cbrt (RealLike.abs (RealLike.sqrt (cubDet a b c) - 0.5 * cubQ a b c))))
      = Real.cbrt (Real.sqrt (cubDet a b c) - 1 / 2 * cubQ a b c) * Real.cbrt (Real.sqrt (cubDet a b c) - 1 / 2 * cubQ a b c) := by
    simp only [clampLo, h1, Bool.false_eq_true, if_false]; exact e1
  have c2 : clampLo (RealLike.sq (RealLike.cbrt (RealLike.abs (-RealLike.sqrt (cubDet a b c) - 0.5 * cubQ a b c))))
      = Real.cbrt (-Real.sqrt (cubDet a b c) - 1 / 2 * cubQ a b c) * Real.cbrt (-Real.sqrt (cubDet a b c) - 1 / 2 * cubQ a b c) := by
    simp only [clampLo, h2, Bool.false_eq_true, if_false]; exact e2
  have c3 : clampLo (RealLike.sqrt (cubDet a b c)) = Real.sqrt (cubDet a b c) := by
    simp only [clampLo, h3, Bool.false_eq_true, if_false]; rfl
  have small : RealLike.lt (RealLike.abs ((0:ℝ) * 0)) (10e-6:ℝ) = true := by
    show decide (|(0:ℝ) * 0| < 10e-6) = true
    rw [decide_eq_true_eq]; norm_num
  have t1pos : ¬ (Real.cbrt (Real.sqrt (cubDet a b c) - 1 / 2 * cubQ a b c) = 0) := by
    intro h0
    rw [e1, h0, small] at h1; exact Bool.noConfusion h1
  have t2pos : ¬ (Real.cbrt (-Real.sqrt (cubDet a b c) - 1 / 2 * cubQ a b c) = 0) := by
    intro h0
    rw [e2, h0, small] at h2; exact Bool.noConfusion h2
  simp only [calcCubicRootDerivs, calcCubicRoot, hlt, hle, if_true, calcFirstRoot]
  rw [c1, c2, c3]
  have eu : RealLike.cbrt (-cubQ a b c * 0.5 + RealLike.sqrt (cubDet a b c)) = Real.cbrt (Real.sqrt (cubDet a b c) - 1 / 2 * cubQ a b c) := by
    show Real.cbrt _ = _; congr 1; rw [hhalf]; show _ + Real.sqrt _ = _; ring
  have ev : RealLike.cbrt (-cubQ a b c * 0.5 - RealLike.sqrt (cubDet a b c)) = Real.cbrt (-Real.sqrt (cubDet a b c) - 1 / 2 * cubQ a b c) := by
    show Real.cbrt _ = _; congr 1; rw [hhalf]; show _ - Real.sqrt _ = _; ring
  rw [eu, ev]
  show _ = implicitDerivs a b _
  generalize Real.cbrt (Real.sqrt (cubDet a b c) - 1 / 2 * cubQ a b c) = u at *
  generalize Real.cbrt (-Real.sqrt (cubDet a b c) - 1 / 2 * cubQ a b c) = v at *
  clear e1 e2 c1 c2 c3 eu ev h1 h2 h3 small hlt hle
  generalize Real.sqrt (cubDet a b c) = s0 at *
  generalize cubQ a b c = Q at *
  generalize cubP a b = P at *
  generalize cubDet a b c = D at *
  have hq : Q = -(u ^ 3 + v ^ 3) := by linarith
  have hs : s0 = (u ^ 3 - v ^ 3) / 2 := by linarith
  have hp : P = -3 * u * v := by
    apply cube_inj
    have : P * P * P / 27 = s0 * s0 - Q * Q / 4 := by rw [hs0, hdetdef]; ring
    rw [hq, hs] at this
    linear_combination 27 * this
  have hb : b = P + a * a / 3 := by linarith
  have huv : u ^ 3 - v ^ 3 ≠ 0 := by
    intro h; rw [h] at hs; rw [hs] at hs0pos; norm_num at hs0pos
  obtain ⟨r1, r2, r3⟩ := cardano_core a u v t1pos t2pos huv
  simp only [implicitDerivs, cubicPoly'_real]
  subst hq hs hb
  subst hp
  refine Prod.ext ?_ (Prod.ext ?_ ?_)
  · show _ = -((u + v - a / 3.0) * (u + v - a / 3.0)) / _
    have h30 : (3.0:ℝ) = 3 := by norm_num
    rw [h30, ← r1]; norm_num
  · show _ = -(u + v - a / 3.0) / _
    have h30 : (3.0:ℝ) = 3 := by norm_num
    rw [h30, ← r2]; norm_num
  · show _ = (-1.0:ℝ) / _
    have h30 : (3.0:ℝ) = 3 := by norm_num
    have h10 : (-1.0:ℝ) = -1 := by norm_num
    rw [h30, h10, ← r3]; norm_num


/-! ### ext: twistable WLC and eFJC derivatives w.r.t. the force -/
section ext
open Filter Topology

theorem twlc_above (f Lp Lc St C g0 g1 Fc kT : ℝ) (hf : 0 < f) (hLp : 0 < Lp) (hkT : 0 < kT)
    (hFc : Fc < f) (hden : C * St - (g0 + g1 * f) * (g0 + g1 * f) ≠ 0) (hg : g0 + g1 * f ≠ 0) :
    HasDerivAt (fun f => twlcDistance f Lp Lc St C g0 g1 Fc kT) (twlcDistanceDeriv f Lp Lc St C g0 g1 Fc kT) f := by
  obtain ⟨hsp, hk⟩ := odijk_sqrt_facts f Lp kT hf hLp hkT
  have hpos : 0 < kT / (f * Lp) := by positivity
  have hden' : -(g0 + g1 * f) * (g0 + g1 * f) + St * C ≠ 0 := by
    intro h; apply hden; linarith
  -- near f the second branch of `g` is taken
  have hev : (fun f => twlcDistance f Lp Lc St C g0 g1 Fc kT) =ᶠ[𝓝 f]
      fun f => Lc * (1.0 - 1.0 / 2.0 * Real.sqrt (kT / (f * Lp)) + (C / ((-(g0 + g1 * f)) * (g0 + g1 * f) + St * C)) * f) := by
    filter_upwards [Ioi_mem_nhds hFc] with x hx
    have hx' : Fc < x := hx
    have h1 : RealLike.lt x Fc = false := by
      show decide (x < Fc) = false
      rw [decide_eq_false_iff_not]; linarith
    have h2 : RealLike.le Fc x = true := by
      show decide (Fc ≤ x) = true
      rw [decide_eq_true_eq]; linarith
    simp only [twlcDistance, h1, h2, Bool.false_eq_true, if_false, if_true]
    rfl
  refine HasDerivAt.congr_of_eventuallyEq ?_ hev
  have i1 : RealLike.lt Fc f = true := by
    show decide (Fc < f) = true
    rw [decide_eq_true_eq]; exact hFc
  have i2 : RealLike.le f Fc = false := by
    show decide (f ≤ Fc) = false
    rw [decide_eq_false_iff_not]; linarith
  apply HasDerivAt.congr_deriv
  · deriv_auto
    all_goals side_goal
  · simp only [twlcDistanceDeriv, RealLike.sqrt, i1, i2, ind, if_true, Bool.false_eq_true, if_false]
    have e : kT * (1.0 / f) / Lp = kT / (f * Lp) := by norm_num; field_simp
    rw [e]
    generalize Real.sqrt (kT / (f * Lp)) = s at *
    subst hk
    have hden2 : C * St - (g0 + g1 * (f * 1.0 + Fc * 0.0)) * (g0 + g1 * (f * 1.0 + Fc * 0.0)) ≠ 0 := by
      norm_num; exact hden
    have hg2 : g0 + g1 * (f * 1.0 + Fc * 0.0) ≠ 0 := by norm_num; exact hg
    rat_close

theorem twlc_below (f Lp Lc St C g0 g1 Fc kT : ℝ) (hf : 0 < f) (hLp : 0 < Lp) (hkT : 0 < kT)
    (hFc : f < Fc) (hden : C * St - (g0 + g1 * Fc) * (g0 + g1 * Fc) ≠ 0) (hg : g0 + g1 * Fc ≠ 0) :
    HasDerivAt (fun f => twlcDistance f Lp Lc St C g0 g1 Fc kT) (twlcDistanceDeriv f Lp Lc St C g0 g1 Fc kT) f := by
  obtain ⟨hsp, hk⟩ := odijk_sqrt_facts f Lp kT hf hLp hkT
  have hpos : 0 < kT / (f * Lp) := by positivity
  have hden' : -(g0 + g1 * Fc) * (g0 + g1 * Fc) + St * C ≠ 0 := by
    intro h; apply hden; linarith
  have hev : (fun f => twlcDistance f Lp Lc St C g0 g1 Fc kT) =ᶠ[𝓝 f]
      fun f => Lc * (1.0 - 1.0 / 2.0 * Real.sqrt (kT / (f * Lp)) + (C / ((-(g0 + g1 * Fc)) * (g0 + g1 * Fc) + St * C)) * f) := by
    filter_upwards [Iio_mem_nhds hFc] with x hx
    have hx' : x < Fc := hx
    have h1 : RealLike.lt x Fc = true := by
      show decide (x < Fc) = true
      rw [decide_eq_true_eq]; exact hx'
    simp only [twlcDistance, h1, if_true]
    rfl
  refine HasDerivAt.congr_of_eventuallyEq ?_ hev
  have i1 : RealLike.lt Fc f = false := by
    show decide (Fc < f) = false
    rw [decide_eq_false_iff_not]; linarith
  have i2 : RealLike.le f Fc = true := by
    show decide (f ≤ Fc) = true
    rw [decide_eq_true_eq]; linarith
  apply HasDerivAt.congr_deriv
  · deriv_auto
    all_goals side_goal
  · simp only [twlcDistanceDeriv, RealLike.sqrt, i1, i2, ind, if_true, Bool.false_eq_true, if_false]
    have e : kT * (1.0 / f) / Lp = kT / (f * Lp) := by norm_num; field_simp
    rw [e]
    generalize Real.sqrt (kT / (f * Lp)) = s at *
    subst hk
    have hden2 : C * St - (g0 + g1 * (f * 0.0 + Fc * 1.0)) * (g0 + g1 * (f * 0.0 + Fc * 1.0)) ≠ 0 := by
      norm_num; exact hden
    have hg2 : g0 + g1 * (f * 0.0 + Fc * 1.0) ≠ 0 := by norm_num; exact hg
    rat_close

macro "deriv_step_h" : tactic => `(tactic| first
  | exact hasDerivAt_const _ _
  | exact hasDerivAt_id' _
  | apply HasDerivAt.sinh
  | apply HasDerivAt.cosh
  | apply HasDerivAt.sqrt
  | apply HasDerivAt.div
  | apply HasDerivAt.sub
  | apply HasDerivAt.neg
  | apply HasDerivAt.add
  | apply HasDerivAt.mul)

theorem efjc_distance_hasDerivAt_aux (f Lp Lc St kT : ℝ) (hf : 0 < f) (hLp : 0 < Lp) (hkT : 0 < kT) (hSt : 0 < St)
    (hx : f * (2 * Lp / kT) < 300) :
    HasDerivAt (fun f => efjcDistance f Lp Lc St kT) (efjcDistanceDeriv f Lp Lc St kT) f := by
  have hB : f < 150 * kT / Lp := by
    rw [lt_div_iff₀ hLp]
    have : f * (2 * Lp / kT) * kT = 2 * (f * Lp) := by field_simp
    nlinarith
  have hev : (fun f => efjcDistance f Lp Lc St kT) =ᶠ[𝓝 f]
      fun f => Lc * (Real.cosh (2.0 * f * Lp / kT) / Real.sinh (2.0 * f * Lp / kT) - kT / (2.0 * f * Lp)) * (1.0 + f / St) := by
    filter_upwards [Ioo_mem_nhds hf hB] with x hx
    obtain ⟨hx0, hx1⟩ := hx
    have h1 : RealLike.lt (RealLike.abs (2.0 * x * Lp / kT)) (500.0:ℝ) = true := by
      show decide (|2.0 * x * Lp / kT| < 500.0) = true
      rw [decide_eq_true_eq]
      have hp : 0 < 2.0 * x * Lp / kT := by positivity
      rw [abs_of_pos hp, div_lt_iff₀ hkT]
      rw [lt_div_iff₀ hLp] at hx1
      norm_num; nlinarith
    simp only [efjcDistance, coth, h1, if_true]
    rfl
  refine HasDerivAt.congr_of_eventuallyEq ?_ hev
  have hsinh : Real.sinh (2.0 * f * Lp / kT) ≠ 0 := by
    have hp : 0 < 2.0 * f * Lp / kT := by positivity
    exact (Real.sinh_pos_iff.mpr hp).ne'
  apply HasDerivAt.congr_deriv
  · repeat' deriv_step_h
    all_goals side_goal
  · have harg : f * (2.0 * Lp / kT) = 2.0 * f * Lp / kT := by
      have h20 : (2.0:ℝ) = 2 := by norm_num
      rw [h20]; ring
    have h1 : RealLike.lt (RealLike.abs (f * (2.0 * Lp / kT))) (500.0:ℝ) = true := by
      show decide (|f * (2.0 * Lp / kT)| < 500.0) = true
      rw [decide_eq_true_eq]
      have hp : 0 < f * (2.0 * Lp / kT) := by positivity
      rw [abs_of_pos hp]; norm_num; linarith
    have h2 : RealLike.lt (f * (2.0 * Lp / kT)) (300.0:ℝ) = true := by
      show decide (f * (2.0 * Lp / kT) < 300.0) = true
      rw [decide_eq_true_eq]; norm_num; linarith
    simp only [efjcDistanceDeriv, coth, h1, h2, if_true]
    rw [harg]
    have hcs := Real.cosh_sq (2.0 * f * Lp / kT)
    show _ = Lc * (1.0 / St) * (Real.cosh (2.0 * f * Lp / kT) / Real.sinh (2.0 * f * Lp / kT) - 0.5 * kT / Lp / f)
        + Lc * (f * (1.0 / St) + 1.0) * (-(2.0 * Lp / kT) * (1.0 / (Real.sinh (2.0 * f * Lp / kT) * Real.sinh (2.0 * f * Lp / kT))) + 0.5 * kT / Lp / (f * f))
    generalize Real.cosh (2.0 * f * Lp / kT) = ch at *
    generalize Real.sinh (2.0 * f * Lp / kT) = sh at *
    norm_num
    field_simp
    linear_combination (-(Lc * (2 ^ 2 * Lp ^ 2 * f ^ 2) * (St + f))) * hcs

end ext

/-- without inversion values every point is paired with the empty row -/
theorem withSols_nil {α : Type} (xs : List α) : withSols xs [] = xs.map fun x => (x, ([] : List α)) := by
  induction xs with
  | nil => rfl
  | cons x xs ih => simp only [withSols, ih, List.map_cons]

end Verif.C13
