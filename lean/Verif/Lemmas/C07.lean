/-
  Helper lemmas for C07 (core Lean only).
-/
import Verif.Model.C07

namespace Verif.C07
open Verif.Py

/-! ### integer division facts -/

/-- `(st·d − 1) // (st·c) = (d − 1) // c` : the `num_frames` formula of a stepped sub-stack counts the
    elements of `range(0, d, c)`. -/
theorem mul_ediv_cancel_shift (st c d : Int) (hst : 0 < st) (hc : 0 < c) (_hd : 0 < d) :
    (st * d - 1) / (st * c) = (d - 1) / c := by
  have hq := Int.mul_ediv_add_emod (d - 1) c
  have hr0 := Int.emod_nonneg (d - 1) (Int.ne_of_gt hc)
  have hr1 := Int.emod_lt_of_pos (d - 1) hc
  generalize (d - 1) / c = q at *
  generalize (d - 1) % c = r at *
  have hd' : d = c * q + r + 1 := by omega
  have hstc : 0 < st * c := Int.mul_pos hst hc
  have e : st * d - 1 = (st * (r + 1) - 1) + (st * c) * q := by
    rw [hd']
    have : st * (c * q + r + 1) = st * c * q + st * (r + 1) := by
      rw [show c * q + r + 1 = c * q + (r + 1) by omega, Int.mul_add, Int.mul_assoc]
    omega
  rw [e, Int.add_mul_ediv_left _ _ (Int.ne_of_gt hstc)]
  have h0 : 0 ≤ st * (r + 1) - 1 := by
    have : st * 1 ≤ st * (r + 1) := Int.mul_le_mul_of_nonneg_left (by omega) (Int.le_of_lt hst)
    omega
  have h1 : st * (r + 1) - 1 < st * c := by
    have : st * (r + 1) ≤ st * c := Int.mul_le_mul_of_nonneg_left (by omega) (Int.le_of_lt hst)
    omega
  rw [Int.ediv_eq_zero_of_lt h0 h1]
  omega

theorem neg_one_ediv_pos (st : Int) (hst : 0 < st) : (-1 : Int) / st = -1 := by
  have h : (-1 : Int) = (st - 1) + st * (-1) := by omega
  rw [h, Int.add_mul_ediv_left _ _ (Int.ne_of_gt hst), Int.ediv_eq_zero_of_lt (by omega) (by omega)]
  omega

theorem numFrames_nonneg (s : Stack) (hst : 0 < s.st) : 0 ≤ s.numFrames := by
  unfold Stack.numFrames
  have h : (-1 : Int) / s.st ≤ (max (-1) (s.s1 - s.s0 - 1)) / s.st :=
    Int.ediv_le_ediv hst (Int.le_max_left _ _)
  rw [neg_one_ediv_pos _ hst] at h
  omega

/-- For `idx ≥ 0`: page `s0 + st·idx` lies before `s1` iff `idx < num_frames`. -/
theorem lt_numFrames_iff (s : Stack) (hst : 0 < s.st) (idx : Int) (h0 : 0 ≤ idx) :
    idx < s.numFrames ↔ s.s0 + s.st * idx < s.s1 := by
  unfold Stack.numFrames
  by_cases hD : s.s1 - s.s0 - 1 < 0
  · rw [Int.max_eq_left (by omega), neg_one_ediv_pos _ hst]
    have : 0 ≤ s.st * idx := Int.mul_nonneg (Int.le_of_lt hst) h0
    constructor <;> intro h <;> omega
  · rw [Int.max_eq_right (by omega)]
    have key : idx ≤ (s.s1 - s.s0 - 1) / s.st ↔ idx * s.st ≤ s.s1 - s.s0 - 1 :=
      Int.le_ediv_iff_mul_le hst
    rw [Int.mul_comm] at key
    constructor <;> intro h <;> omega

theorem length_frames (s : Stack) : s.frames.length = s.numFrames.toNat := by
  unfold Stack.frames; simp

theorem getElem?_frames (s : Stack) (k : Nat) (hk : k < s.numFrames.toNat) :
    s.frames[k]? = some (s.s0 + (k : Int) * s.st) := by
  unfold Stack.frames
  rw [List.getElem?_map, List.getElem?_range hk]; rfl

/-! ### `everyNth`, `range'` -/

theorem everyNth_nil {α} (c : Nat) : everyNth c ([] : List α) = [] := by
  unfold everyNth; rfl

theorem everyNth_cons {α} (c : Nat) (x : α) (xs : List α) :
    everyNth c (x :: xs) = x :: everyNth c (xs.drop (c - 1)) := by
  rw [everyNth]

theorem everyNth_map {α β} (f : α → β) (c : Nat) :
    ∀ (n : Nat) (l : List α), l.length ≤ n → everyNth c (l.map f) = (everyNth c l).map f := by
  intro n
  induction n with
  | zero =>
    intro l hl
    have : l = [] := List.eq_nil_of_length_eq_zero (by omega)
    subst this; simp [everyNth_nil]
  | succ n ih =>
    intro l hl
    cases l with
    | nil => simp [everyNth_nil]
    | cons x xs =>
      simp only [List.map_cons, everyNth_cons, ← List.map_drop]
      rw [ih (xs.drop (c - 1)) (by simp at hl ⊢; omega)]

/-- `range(i, i+m)[::c]` = `[i, i+c, i+2c, …]` with `⌈m/c⌉` elements. -/
theorem everyNth_range' (c : Nat) (hc : 0 < c) :
    ∀ (m i : Nat), everyNth c (List.range' i m) = (List.range ((m + c - 1) / c)).map (fun k => i + k * c) := by
  intro m
  induction m using Nat.strongRecOn with
  | _ m ih =>
    intro i
    cases m with
    | zero =>
      have : (0 + c - 1) / c = 0 := Nat.div_eq_of_lt (by omega)
      rw [this]; simp [everyNth_nil]
    | succ m =>
      rw [List.range'_succ, everyNth_cons]
      have hdrop : (List.range' (i + 1) m).drop (c - 1) = List.range' (i + c) (m - (c - 1)) := by
        rw [List.drop_range']
        congr 1
        omega
      rw [hdrop, ih (m - (c - 1)) (by omega) (i + c)]
      have hcount : (m + 1 + c - 1) / c = (m - (c - 1) + c - 1) / c + 1 := by
        by_cases h : c - 1 ≤ m
        · have : m + 1 + c - 1 = (m - (c - 1) + c - 1) + c := by omega
          rw [this, Nat.add_div_right _ hc]
        · have h1 : m - (c - 1) + c - 1 = c - 1 := by omega
          have h2 : m + 1 + c - 1 = m + c := by omega
          rw [h1, h2, Nat.div_eq_of_lt (by omega : c - 1 < c), Nat.add_div_right _ hc,
            Nat.div_eq_of_lt (by omega : m < c)]
      rw [hcount, List.range_succ_eq_map]
      simp only [List.map_cons, List.map_map, Nat.zero_mul, Nat.add_zero]
      congr 1
      apply List.map_congr_left
      intro k _
      simp only [Function.comp, Nat.succ_eq_add_one, Nat.add_mul, Nat.one_mul]
      omega

theorem take_drop_range (N i j : Nat) :
    ((List.range N).take j).drop i = List.range' i (min j N - i) := by
  apply List.ext_getElem?
  intro k
  simp only [List.getElem?_drop, List.getElem?_take]
  by_cases h : i + k < j
  · rw [if_pos h]
    by_cases h2 : i + k < N
    · have hk : k < min j N - i := by omega
      rw [List.getElem?_range h2, List.getElem?_range' hk]; simp
    · have hk : ¬ k < min j N - i := by omega
      rw [List.getElem?_eq_none (by simp; omega), List.getElem?_eq_none (by simp; omega)]
  · have hk : ¬ k < min j N - i := by omega
    rw [if_neg h, List.getElem?_eq_none (by simp; omega)]

/-- `pyNorm` is the positive-step bound normalisation of `slice.indices`. -/
theorem pyNorm_eq_adjust (n : Nat) (v : Int) : (pyNorm n v : Int) = adjustIndex n 0 n v := by
  unfold pyNorm adjustIndex
  split
  · split <;> omega
  · omega

theorem adjust_bounds (n : Nat) (v : Int) : 0 ≤ adjustIndex n 0 n v ∧ adjustIndex n 0 n v ≤ n := by
  unfold adjustIndex; split <;> omega

theorem sliceIndices_pos (a b : Option Int) (c : Int) (hc : 0 < c) (n : Nat) :
    sliceIndices a b c n = (Int.ofNat (sliceIndicesPos a b n).1, Int.ofNat (sliceIndicesPos a b n).2) := by
  unfold sliceIndices sliceIndicesPos
  rw [if_pos hc]
  cases a <;> cases b <;> simp [pyNorm_eq_adjust]

/-! ### `Roi.crop` in one dimension -/

theorem cropBound_eq_pyNorm (dim : Nat) (dflt : Int) (p : Option Int) :
    cropBound dim dflt p = (pyNorm dim (p.getD dflt) : Int) := by
  unfold cropBound pyNorm
  simp only
  split
  · split <;> omega
  · omega

theorem pySlice_nonneg' {α} (l : List α) (i j : Int) (hi : 0 ≤ i) (hj : 0 ≤ j) :
    pySlice l i j = (l.take j.toNat).drop i.toNat := by
  unfold pySlice pyNorm
  rw [if_neg (by omega), if_neg (by omega)]
  apply List.ext_getElem?
  intro k
  simp only [List.getElem?_drop, List.getElem?_take]
  rcases Nat.lt_or_ge (i.toNat + k) l.length with h | h
  · have e : min i.toNat l.length = i.toNat := by omega
    rw [e]
    by_cases hc : i.toNat + k < j.toNat
    · rw [if_pos (by omega), if_pos hc]
    · rw [if_neg (by omega), if_neg hc]
  · rw [if_neg (by omega)]
    split
    · exact (List.getElem?_eq_none (by omega)).symm
    · rfl

/-- Re-cropping a one-dimensional window: the absolute bounds `Roi.crop` computes select exactly the
    Python slice `[a:b]` of the current window `[m0:m1]`. -/
theorem crop1 {α} (l : List α) (m0 m1 : Int) (h0 : 0 ≤ m0) (h01 : m0 ≤ m1) (h1 : m1 ≤ l.length)
    (a b : Option Int) (da db : Int) (hda : a = none → da = 0) (hdb : b = none → db = m1 - m0) :
    pySlice l (cropBound (m1 - m0) da a + m0) (cropBound (m1 - m0) db b + m0) =
      pySliceOpt (pySlice l m0 m1) a b := by
  obtain ⟨dim, hdim⟩ : ∃ dim : Nat, m1 - m0 = dim := ⟨(m1 - m0).toNat, by omega⟩
  have hlen : (pySlice l m0 m1).length = dim := by
    rw [pySlice_nonneg' _ _ _ h0 (by omega)]
    simp only [List.length_drop, List.length_take]
    omega
  have ha : (a.getD da) = a.getD 0 := by
    cases a with
    | none => simp [hda rfl]
    | some v => rfl
  have hb : (b.getD db) = b.getD (dim : Int) := by
    cases b with
    | none => simp [hdb rfl, hdim]
    | some v => rfl
  rw [hdim, cropBound_eq_pyNorm, cropBound_eq_pyNorm, ha, hb]
  unfold pySliceOpt
  rw [hlen]
  generalize a.getD 0 = av
  generalize b.getD (dim : Int) = bv
  have hA : pyNorm dim av ≤ dim := by unfold pyNorm; split <;> (try split) <;> omega
  have hB : pyNorm dim bv ≤ dim := by unfold pyNorm; split <;> (try split) <;> omega
  rw [pySlice_nonneg' _ _ _ (by omega) (by omega)]
  have hdef : ∀ (x y : Int), pySlice (pySlice l m0 m1) x y =
      ((pySlice l m0 m1).take (pyNorm (pySlice l m0 m1).length y)).drop (pyNorm (pySlice l m0 m1).length x) :=
    fun _ _ => rfl
  rw [hdef, hlen, pySlice_nonneg' _ _ _ h0 (by omega)]
  apply List.ext_getElem?
  intro k
  simp only [List.getElem?_drop, List.getElem?_take]
  have e1 : ((pyNorm dim av : Int) + m0).toNat = m0.toNat + pyNorm dim av := by omega
  have e2 : ((pyNorm dim bv : Int) + m0).toNat = m0.toNat + pyNorm dim bv := by omega
  rw [e1, e2]
  by_cases hk : pyNorm dim av + k < pyNorm dim bv
  · rw [if_pos (by omega), if_pos hk, if_pos (by omega)]
    congr 1; omega
  · rw [if_neg (by omega), if_neg hk]

theorem cropBound_range (dim dflt : Int) (p : Option Int) (hdim : 0 ≤ dim) :
    0 ≤ cropBound dim dflt p ∧ cropBound dim dflt p ≤ dim := by
  unfold cropBound; simp only; omega

theorem pySliceOpt_map {α β} (f : α → β) (l : List α) (a b : Option Int) :
    pySliceOpt (l.map f) a b = (pySliceOpt l a b).map f := by
  unfold pySliceOpt pySlice
  simp only [List.length_map, List.map_drop, List.map_take]

theorem mem_of_mem_pySlice {α} {l : List α} {i j : Int} {x : α} (h : x ∈ pySlice l i j) : x ∈ l := by
  unfold pySlice at h
  exact List.mem_of_mem_take (List.mem_of_mem_drop h)

theorem mem_of_mem_pySliceOpt {α} {l : List α} {a b : Option Int} {x : α} (h : x ∈ pySliceOpt l a b) :
    x ∈ l := by
  unfold pySliceOpt at h
  exact mem_of_mem_pySlice h

/-- A ROI with `max ≤ min` in either direction (all corners non-negative) shows no pixel. -/
theorem apply_empty {α} (r : Roi) (raw : List (List α))
    (h : r.xMax ≤ r.xMin ∨ r.yMax ≤ r.yMin) (h0 : 0 ≤ r.xMin ∧ 0 ≤ r.xMax ∧ 0 ≤ r.yMin ∧ 0 ≤ r.yMax) :
    (r.apply raw).flatten = [] := by
  unfold Roi.apply
  rw [List.flatten_eq_nil_iff]
  intro l hl
  rw [List.mem_map] at hl
  obtain ⟨row, hrow, rfl⟩ := hl
  rcases h with h | h
  · rw [pySlice_nonneg' _ _ _ h0.1 h0.2.1]
    apply List.eq_nil_of_length_eq_zero
    simp only [List.length_drop, List.length_take]; omega
  · rw [pySlice_nonneg' _ _ _ h0.2.2.1 h0.2.2.2] at hrow
    have : (List.drop r.yMin.toNat (List.take r.yMax.toNat raw)) = [] := by
      apply List.eq_nil_of_length_eq_zero
      simp only [List.length_drop, List.length_take]; omega
    rw [this] at hrow
    cases hrow

/-! ### the heart of `slice_refines` -/

theorem count_eq (m cn : Nat) (hm : 0 < m) (hcn : 0 < cn) :
    (((m : Int) - 1) / (cn : Int) + 1).toNat = (m + cn - 1) / cn := by
  have h1 : ((m : Int) - 1) / (cn : Int) + 1 = ((m : Int) - 1 + 1 * (cn : Int)) / (cn : Int) := by
    rw [Int.add_mul_ediv_right _ _ (by omega)]
  have h2 : (m : Int) - 1 + 1 * (cn : Int) = ((m + cn - 1 : Nat) : Int) := by omega
  rw [h1, h2, ← Int.natCast_ediv, Int.toNat_natCast]

theorem sliceIndicesPos_le (a b : Option Int) (n : Nat) :
    (sliceIndicesPos a b n).1 ≤ n ∧ (sliceIndicesPos a b n).2 ≤ n := by
  have hp : ∀ v : Int, pyNorm n v ≤ n := by
    intro v; unfold pyNorm; split <;> (try split) <;> omega
  unfold sliceIndicesPos
  cases a <;> cases b <;> simp [hp]

/-- Frames of a stepped sub-stack `(s0 + st·i, s0 + st·j, st·c)` are `frames[i:j:c]`. -/
theorem frames_substack (s : Stack) (hst : 0 < s.st) (N : Nat) (hN : s.numFrames = N)
    (i j cn : Nat) (hij : i < j) (hj : j ≤ N) (hcn : 0 < cn) :
    Stack.frames { s with s0 := s.s0 + s.st * i, s1 := s.s0 + s.st * j, st := s.st * cn } =
      everyNth cn ((s.frames.take j).drop i) := by
  have hfr : s.frames = (List.range N).map (fun (k : Nat) => s.s0 + (k : Int) * s.st) := by
    unfold Stack.frames; rw [hN]; simp
  rw [hfr, ← List.map_take, ← List.map_drop, take_drop_range, Nat.min_eq_left hj,
    everyNth_map _ _ _ _ (Nat.le_refl _), everyNth_range' cn hcn, List.map_map]
  have hcount : (Stack.numFrames { s with s0 := s.s0 + s.st * i, s1 := s.s0 + s.st * j, st := s.st * cn }).toNat
      = (j - i + cn - 1) / cn := by
    unfold Stack.numFrames
    simp only
    have e1 : s.s0 + s.st * (j : Int) - (s.s0 + s.st * (i : Int)) - 1 = s.st * (((j - i : Nat) : Int)) - 1 := by
      have : ((j - i : Nat) : Int) = (j : Int) - (i : Int) := by omega
      rw [this, Int.mul_sub]; omega
    have hge : 0 ≤ s.st * (((j - i : Nat) : Int)) - 1 := by
      have : s.st * 1 ≤ s.st * (((j - i : Nat) : Int)) :=
        Int.mul_le_mul_of_nonneg_left (by omega) (Int.le_of_lt hst)
      omega
    rw [e1, Int.max_eq_right (by omega),
      mul_ediv_cancel_shift _ _ _ hst (by omega) (by omega), count_eq _ _ (by omega) hcn]
  unfold Stack.frames
  rw [hcount]
  apply List.map_congr_left
  intro k _
  simp only [Function.comp]
  have : ((i + k * cn : Nat) : Int) = (i : Int) + (k : Int) * (cn : Int) := by
    rw [Int.natCast_add, Int.natCast_mul]
  rw [this, Int.add_mul, Int.mul_comm s.st (i : Int), Int.mul_assoc, Int.mul_comm (cn : Int) s.st,
    ← Int.mul_assoc]
  omega

end Verif.C07
