/-
  Helper lemmas for C07 (core Lean for the indexing part; the tether geometry at `ℝ` uses single Mathlib modules).
-/
import Verif.Model.C07
import Verif.NumReal
import Mathlib.Tactic.FieldSimp
import Mathlib.Tactic.Ring
import Mathlib.Tactic.Linarith
import Mathlib.Tactic.LinearCombination

namespace Verif.C07
open Verif.Py

/-! ### integer division facts -/

/-- `(st·d − 1) // (st·c) = (d − 1) // c` : the `num_frames` formula of a stepped sub-stack counts the
    elements of `range(0, d, c)`. -/
theorem mul_ediv_cancel_shift (st c d : Int) (hst : 0 < st) (hc : 0 < c) (_hd : 0 < d) :
    (st * d - 1) / (st * c) = (d - 1) / c := by
  have hq := Int.mul_ediv_add_emod (d - 1) c
  have hr0 := Int.emod_nonneg (d - 1) (Int.ne_of_gt hc)
  have hr1 := Int.emod_lt_of_pos (d - 1) hc
  generalize (d - 1) / c = q at *
  generalize (d - 1) % c = r at *
  have hd' : d = c * q + r + 1 := by omega
  have hstc : 0 < st * c := Int.mul_pos hst hc
  have e : st * d - 1 = (st * (r + 1) - 1) + (st * c) * q := by
    rw [hd']
    have : st * (c * q + r + 1) = st * c * q + st * (r + 1) := by
      rw [show c * q + r + 1 = c * q + (r + 1) by omega, Int.mul_add, Int.mul_assoc]
    omega
  rw [e, Int.add_mul_ediv_left _ _ (Int.ne_of_gt hstc)]
  have h0 : 0 ≤ st * (r + 1) - 1 := by
    have : st * 1 ≤ st * (r + 1) := Int.mul_le_mul_of_nonneg_left (by omega) (Int.le_of_lt hst)
    omega
  have h1 : st * (r + 1) - 1 < st * c := by
    have : st * (r + 1) ≤ st * c := Int.mul_le_mul_of_nonneg_left (by omega) (Int.le_of_lt hst)
    omega
  rw [Int.ediv_eq_zero_of_lt h0 h1]
  omega

theorem neg_one_ediv_pos (st : Int) (hst : 0 < st) : (-1 : Int) / st = -1 := by
  have h : (-1 : Int) = (st - 1) + st * (-1) := by omega
  rw [h, Int.add_mul_ediv_left _ _ (Int.ne_of_gt hst), Int.ediv_eq_zero_of_lt (by omega) (by omega)]
  omega

theorem numFrames_nonneg (s : Stack) (hst : 0 < s.st) : 0 ≤ s.numFrames := by
  unfold Stack.numFrames
  have h : (-1 : Int) / s.st ≤ (max (-1) (s.s1 - s.s0 - 1)) / s.st :=
    Int.ediv_le_ediv hst (Int.le_max_left _ _)
  rw [neg_one_ediv_pos _ hst] at h
  omega

/-- For `idx ≥ 0`: page `s0 + st·idx` lies before `s1` iff `idx < num_frames`. -/
theorem lt_numFrames_iff (s : Stack) (hst : 0 < s.st) (idx : Int) (h0 : 0 ≤ idx) :
    idx < s.numFrames ↔ s.s0 + s.st * idx < s.s1 := by
  unfold Stack.numFrames
  by_cases hD : s.s1 - s.s0 - 1 < 0
  · rw [Int.max_eq_left (by omega), neg_one_ediv_pos _ hst]
    have : 0 ≤ s.st * idx := Int.mul_nonneg (Int.le_of_lt hst) h0
    constructor <;> intro h <;> omega
  · rw [Int.max_eq_right (by omega)]
    have key : idx ≤ (s.s1 - s.s0 - 1) / s.st ↔ idx * s.st ≤ s.s1 - s.s0 - 1 :=
      Int.le_ediv_iff_mul_le hst
    rw [Int.mul_comm] at key
    constructor <;> intro h <;> omega

theorem length_frames (s : Stack) : s.frames.length = s.numFrames.toNat := by
  unfold Stack.frames; simp

theorem getElem?_frames (s : Stack) (k : Nat) (hk : k < s.numFrames.toNat) :
    s.frames[k]? = some (s.s0 + (k : Int) * s.st) := by
  unfold Stack.frames
  rw [List.getElem?_map, List.getElem?_range hk]; rfl

/-! ### `everyNth`, `range'` -/

theorem everyNth_nil {α} (c : Nat) : everyNth c ([] : List α) = [] := by
  unfold everyNth; rfl

theorem everyNth_cons {α} (c : Nat) (x : α) (xs : List α) :
    everyNth c (x :: xs) = x :: everyNth c (xs.drop (c - 1)) := by
  rw [everyNth]

theorem everyNth_map {α β} (f : α → β) (c : Nat) :
    ∀ (n : Nat) (l : List α), l.length ≤ n → everyNth c (l.map f) = (everyNth c l).map f := by
  intro n
  induction n with
  | zero =>
    intro l hl
    have : l = [] := List.eq_nil_of_length_eq_zero (by omega)
    subst this; simp [everyNth_nil]
  | succ n ih =>
    intro l hl
    cases l with
    | nil => simp [everyNth_nil]
    | cons x xs =>
      simp only [List.map_cons, everyNth_cons, ← List.map_drop]
      rw [ih (xs.drop (c - 1)) (by simp at hl ⊢; omega)]

/-- `range(i, i+m)[::c]` = `[i, i+c, i+2c, …]` with `⌈m/c⌉` elements. -/
theorem everyNth_range' (c : Nat) (hc : 0 < c) :
    ∀ (m i : Nat), everyNth c (List.range' i m) = (List.range ((m + c - 1) / c)).map (fun k => i + k * c) := by
  intro m
  induction m using Nat.strongRecOn with
  | _ m ih =>
    intro i
    cases m with
    | zero =>
      have : (0 + c - 1) / c = 0 := Nat.div_eq_of_lt (by omega)
      rw [this]; simp [everyNth_nil]
    | succ m =>
      rw [List.range'_succ, everyNth_cons]
      have hdrop : (List.range' (i + 1) m).drop (c - 1) = List.range' (i + c) (m - (c - 1)) := by
        rw [List.drop_range']
        congr 1
        omega
      rw [hdrop, ih (m - (c - 1)) (by omega) (i + c)]
      have hcount : (m + 1 + c - 1) / c = (m - (c - 1) + c - 1) / c + 1 := by
        by_cases h : c - 1 ≤ m
        · have : m + 1 + c - 1 = (m - (c - 1) + c - 1) + c := by omega
          rw [this, Nat.add_div_right _ hc]
        · have h1 : m - (c - 1) + c - 1 = c - 1 := by omega
          have h2 : m + 1 + c - 1 = m + c := by omega
          rw [h1, h2, Nat.div_eq_of_lt (by omega : c - 1 < c), Nat.add_div_right _ hc,
            Nat.div_eq_of_lt (by omega : m < c)]
      rw [hcount, List.range_succ_eq_map]
      simp only [List.map_cons, List.map_map, Nat.zero_mul, Nat.add_zero]
      congr 1
      apply List.map_congr_left
      intro k _
      simp only [Function.comp, Nat.succ_eq_add_one, Nat.add_mul, Nat.one_mul]
      omega

theorem take_drop_range (N i j : Nat) :
    ((List.range N).take j).drop i = List.range' i (min j N - i) := by
  apply List.ext_getElem?
  intro k
  simp only [List.getElem?_drop, List.getElem?_take]
  by_cases h : i + k < j
  · rw [if_pos h]
    by_cases h2 : i + k < N
    · have hk : k < min j N - i := by omega
      rw [List.getElem?_range h2, List.getElem?_range' hk]; simp
    · have hk : ¬ k < min j N - i := by omega
      rw [List.getElem?_eq_none (by simp; omega), List.getElem?_eq_none (by simp; omega)]
  · have hk : ¬ k < min j N - i := by omega
    rw [if_neg h, List.getElem?_eq_none (by simp; omega)]

/-- `pyNorm` is the positive-step bound normalisation of `slice.indices`. -/
theorem pyNorm_eq_adjust (n : Nat) (v : Int) : (pyNorm n v : Int) = adjustIndex n 0 n v := by
  unfold pyNorm adjustIndex
  split
  · split <;> omega
  · omega

theorem adjust_bounds (n : Nat) (v : Int) : 0 ≤ adjustIndex n 0 n v ∧ adjustIndex n 0 n v ≤ n := by
  unfold adjustIndex; split <;> omega

theorem sliceIndices_pos (a b : Option Int) (c : Int) (hc : 0 < c) (n : Nat) :
    sliceIndices a b c n = (Int.ofNat (sliceIndicesPos a b n).1, Int.ofNat (sliceIndicesPos a b n).2) := by
  unfold sliceIndices sliceIndicesPos
  rw [if_pos hc]
  cases a <;> cases b <;> simp [pyNorm_eq_adjust]

/-! ### `Roi.crop` in one dimension -/

/-- The ROI lies inside a raw image of `H` rows and `W` columns and is not empty. -/
def Roi.Within (r : Roi) (H W : Nat) : Prop :=
  0 ≤ r.xMin ∧ r.xMin < r.xMax ∧ r.xMax ≤ W ∧ 0 ≤ r.yMin ∧ r.yMin < r.yMax ∧ r.yMax ≤ H


theorem cropBound_eq_pyNorm (dim : Nat) (dflt : Int) (p : Option Int) :
    cropBound dim dflt p = (pyNorm dim (p.getD dflt) : Int) := by
  unfold cropBound pyNorm
  simp only
  split
  · split <;> omega
  · omega

theorem pySlice_nonneg' {α} (l : List α) (i j : Int) (hi : 0 ≤ i) (hj : 0 ≤ j) :
    pySlice l i j = (l.take j.toNat).drop i.toNat := by
  unfold pySlice pyNorm
  rw [if_neg (by omega), if_neg (by omega)]
  apply List.ext_getElem?
  intro k
  simp only [List.getElem?_drop, List.getElem?_take]
  rcases Nat.lt_or_ge (i.toNat + k) l.length with h | h
  · have e : min i.toNat l.length = i.toNat := by omega
    rw [e]
    by_cases hc : i.toNat + k < j.toNat
    · rw [if_pos (by omega), if_pos hc]
    · rw [if_neg (by omega), if_neg hc]
  · rw [if_neg (by omega)]
    split
    · exact (List.getElem?_eq_none (by omega)).symm
    · rfl

/-- Re-cropping a one-dimensional window: the absolute bounds `Roi.crop` computes select exactly the
    Python slice `[a:b]` of the current window `[m0:m1]`. -/
theorem crop1 {α} (l : List α) (m0 m1 : Int) (h0 : 0 ≤ m0) (h01 : m0 ≤ m1) (h1 : m1 ≤ l.length)
    (a b : Option Int) (da db : Int) (hda : a = none → da = 0) (hdb : b = none → db = m1 - m0) :
    pySlice l (cropBound (m1 - m0) da a + m0) (cropBound (m1 - m0) db b + m0) =
      pySliceOpt (pySlice l m0 m1) a b := by
  obtain ⟨dim, hdim⟩ : ∃ dim : Nat, m1 - m0 = dim := ⟨(m1 - m0).toNat, by omega⟩
  have hlen : (pySlice l m0 m1).length = dim := by
    rw [pySlice_nonneg' _ _ _ h0 (by omega)]
    simp only [List.length_drop, List.length_take]
    omega
  have ha : (a.getD da) = a.getD 0 := by
    cases a with
    | none => simp [hda rfl]
    | some v => rfl
  have hb : (b.getD db) = b.getD (dim : Int) := by
    cases b with
    | none => simp [hdb rfl, hdim]
    | some v => rfl
  rw [hdim, cropBound_eq_pyNorm, cropBound_eq_pyNorm, ha, hb]
  unfold pySliceOpt
  rw [hlen]
  generalize a.getD 0 = av
  generalize b.getD (dim : Int) = bv
  have hA : pyNorm dim av ≤ dim := by unfold pyNorm; split <;> (try split) <;> omega
  have hB : pyNorm dim bv ≤ dim := by unfold pyNorm; split <;> (try split) <;> omega
  rw [pySlice_nonneg' _ _ _ (by omega) (by omega)]
  have hdef : ∀ (x y : Int), pySlice (pySlice l m0 m1) x y =
      ((pySlice l m0 m1).take (pyNorm (pySlice l m0 m1).length y)).drop (pyNorm (pySlice l m0 m1).length x) :=
    fun _ _ => rfl
  rw [hdef, hlen, pySlice_nonneg' _ _ _ h0 (by omega)]
  apply List.ext_getElem?
  intro k
  simp only [List.getElem?_drop, List.getElem?_take]
  have e1 : ((pyNorm dim av : Int) + m0).toNat = m0.toNat + pyNorm dim av := by omega
  have e2 : ((pyNorm dim bv : Int) + m0).toNat = m0.toNat + pyNorm dim bv := by omega
  rw [e1, e2]
  by_cases hk : pyNorm dim av + k < pyNorm dim bv
  · rw [if_pos (by omega), if_pos hk, if_pos (by omega)]
    congr 1; omega
  · rw [if_neg (by omega), if_neg hk]

theorem cropBound_range (dim dflt : Int) (p : Option Int) (hdim : 0 ≤ dim) :
    0 ≤ cropBound dim dflt p ∧ cropBound dim dflt p ≤ dim := by
  unfold cropBound; simp only; omega

theorem pySliceOpt_map {α β} (f : α → β) (l : List α) (a b : Option Int) :
    pySliceOpt (l.map f) a b = (pySliceOpt l a b).map f := by
  unfold pySliceOpt pySlice
  simp only [List.length_map, List.map_drop, List.map_take]

theorem mem_of_mem_pySlice {α} {l : List α} {i j : Int} {x : α} (h : x ∈ pySlice l i j) : x ∈ l := by
  unfold pySlice at h
  exact List.mem_of_mem_take (List.mem_of_mem_drop h)

theorem mem_of_mem_pySliceOpt {α} {l : List α} {a b : Option Int} {x : α} (h : x ∈ pySliceOpt l a b) :
    x ∈ l := by
  unfold pySliceOpt at h
  exact mem_of_mem_pySlice h

/-- A ROI with `max ≤ min` in either direction (all corners non-negative) shows no pixel. -/
theorem apply_empty {α} (r : Roi) (raw : List (List α))
    (h : r.xMax ≤ r.xMin ∨ r.yMax ≤ r.yMin) (h0 : 0 ≤ r.xMin ∧ 0 ≤ r.xMax ∧ 0 ≤ r.yMin ∧ 0 ≤ r.yMax) :
    (r.apply raw).flatten = [] := by
  unfold Roi.apply
  rw [List.flatten_eq_nil_iff]
  intro l hl
  rw [List.mem_map] at hl
  obtain ⟨row, hrow, rfl⟩ := hl
  rcases h with h | h
  · rw [pySlice_nonneg' _ _ _ h0.1 h0.2.1]
    apply List.eq_nil_of_length_eq_zero
    simp only [List.length_drop, List.length_take]; omega
  · rw [pySlice_nonneg' _ _ _ h0.2.2.1 h0.2.2.2] at hrow
    have : (List.drop r.yMin.toNat (List.take r.yMax.toNat raw)) = [] := by
      apply List.eq_nil_of_length_eq_zero
      simp only [List.length_drop, List.length_take]; omega
    rw [this] at hrow
    cases hrow

/-! ### the heart of `slice_refines` -/

theorem count_eq (m cn : Nat) (hm : 0 < m) (hcn : 0 < cn) :
    (((m : Int) - 1) / (cn : Int) + 1).toNat = (m + cn - 1) / cn := by
  have h1 : ((m : Int) - 1) / (cn : Int) + 1 = ((m : Int) - 1 + 1 * (cn : Int)) / (cn : Int) := by
    rw [Int.add_mul_ediv_right _ _ (by omega)]
  have h2 : (m : Int) - 1 + 1 * (cn : Int) = ((m + cn - 1 : Nat) : Int) := by omega
  rw [h1, h2, ← Int.natCast_ediv, Int.toNat_natCast]

theorem sliceIndicesPos_le (a b : Option Int) (n : Nat) :
    (sliceIndicesPos a b n).1 ≤ n ∧ (sliceIndicesPos a b n).2 ≤ n := by
  have hp : ∀ v : Int, pyNorm n v ≤ n := by
    intro v; unfold pyNorm; split <;> (try split) <;> omega
  unfold sliceIndicesPos
  cases a <;> cases b <;> simp [hp]

/-- Frames of a stepped sub-stack `(s0 + st·i, s0 + st·j, st·c)` are `frames[i:j:c]`. -/
theorem frames_substack (s : Stack) (hst : 0 < s.st) (N : Nat) (hN : s.numFrames = N)
    (i j cn : Nat) (hij : i < j) (hj : j ≤ N) (hcn : 0 < cn) :
    Stack.frames { s with s0 := s.s0 + s.st * i, s1 := s.s0 + s.st * j, st := s.st * cn } =
      everyNth cn ((s.frames.take j).drop i) := by
  have hfr : s.frames = (List.range N).map (fun (k : Nat) => s.s0 + (k : Int) * s.st) := by
    unfold Stack.frames; rw [hN]; simp
  rw [hfr, ← List.map_take, ← List.map_drop, take_drop_range, Nat.min_eq_left hj,
    everyNth_map _ _ _ _ (Nat.le_refl _), everyNth_range' cn hcn, List.map_map]
  have hcount : (Stack.numFrames { s with s0 := s.s0 + s.st * i, s1 := s.s0 + s.st * j, st := s.st * cn }).toNat
      = (j - i + cn - 1) / cn := by
    unfold Stack.numFrames
    simp only
    have e1 : s.s0 + s.st * (j : Int) - (s.s0 + s.st * (i : Int)) - 1 = s.st * (((j - i : Nat) : Int)) - 1 := by
      have : ((j - i : Nat) : Int) = (j : Int) - (i : Int) := by omega
      rw [this, Int.mul_sub]; omega
    have hge : 0 ≤ s.st * (((j - i : Nat) : Int)) - 1 := by
      have : s.st * 1 ≤ s.st * (((j - i : Nat) : Int)) :=
        Int.mul_le_mul_of_nonneg_left (by omega) (Int.le_of_lt hst)
      omega
    rw [e1, Int.max_eq_right (by omega),
      mul_ediv_cancel_shift _ _ _ hst (by omega) (by omega), count_eq _ _ (by omega) hcn]
  unfold Stack.frames
  rw [hcount]
  apply List.map_congr_left
  intro k _
  simp only [Function.comp]
  have : ((i + k * cn : Nat) : Int) = (i : Int) + (k : Int) * (cn : Int) := by
    rw [Int.natCast_add, Int.natCast_mul]
  rw [this, Int.add_mul, Int.mul_comm s.st (i : Int), Int.mul_assoc, Int.mul_comm (cn : Int) s.st,
    ← Int.mul_assoc]
  omega

/-! ### `numpy.cumsum` / `numpy.argmax` as used by `TiffStack.get_frame` -/

/-- partial sums starting from `s` -/
def psums (s : Int) : List Int → List Int
  | [] => []
  | x :: xs => (s + x) :: psums (s + x) xs

theorem cumsum_fold (l : List Int) : ∀ (s : Int) (acc : List Int),
    (l.foldl (fun (acc : Int × List Int) x => (acc.1 + x, (acc.1 + x) :: acc.2)) (s, acc)).2.reverse
      = acc.reverse ++ psums s l := by
  induction l with
  | nil => intro s acc; simp [psums]
  | cons x xs ih =>
    intro s acc
    simp only [List.foldl_cons, psums]
    rw [ih]
    simp

theorem cumsum_eq_psums (l : List Int) : cumsum l = psums 0 l := by
  unfold cumsum
  rw [cumsum_fold]; simp

def amStep (st : Nat × Nat × Int) (y : Int) : Nat × Nat × Int :=
  let (best, i, bv) := st
  if y > bv then (i, i + 1, y) else (best, i + 1, bv)

theorem argmax_fold_one (ys : List Int) (h : ∀ y ∈ ys, y ≤ 1) : ∀ (best i : Nat),
    (ys.foldl amStep (best, i, 1)).1 = best := by
  induction ys with
  | nil => intro best i; rfl
  | cons y ys ih =>
    intro best i
    have hy : y ≤ 1 := h y (List.mem_cons_self)
    simp only [List.foldl_cons, amStep]
    rw [if_neg (by omega)]
    exact ih (fun z hz => h z (List.mem_cons_of_mem _ hz)) best (i + 1)

/-- index of the first `1` counted from `i`, else `best` -/
def firstOne (best i : Nat) : List Int → Nat
  | [] => best
  | y :: ys => if y = 1 then i else firstOne best (i + 1) ys

theorem argmax_fold_zero (ys : List Int) (h : ∀ y ∈ ys, y = 0 ∨ y = 1) : ∀ (best i : Nat),
    (ys.foldl amStep (best, i, 0)).1 = firstOne best i ys := by
  induction ys with
  | nil => intro best i; rfl
  | cons y ys ih =>
    intro best i
    have hy := h y (List.mem_cons_self)
    have hrest : ∀ z ∈ ys, z = 0 ∨ z = 1 := fun z hz => h z (List.mem_cons_of_mem _ hz)
    simp only [List.foldl_cons, amStep, firstOne]
    rcases hy with hy | hy
    · subst hy
      rw [if_neg (by omega), if_neg (by omega)]
      exact ih hrest best (i + 1)
    · subst hy
      rw [if_pos (by omega), if_pos rfl]
      exact argmax_fold_one ys (fun z hz => by rcases hrest z hz with h | h <;> omega) i (i + 1)

theorem argmaxFirst_zero_head (ys : List Int) (h : ∀ y ∈ ys, y = 0 ∨ y = 1) :
    argmaxFirst (0 :: ys) = some (firstOne 0 1 ys) := by
  unfold argmaxFirst
  simp only
  congr 1
  exact argmax_fold_zero ys h 0 1

/-- The page lookup on the partial sums: generalised over the pages `s` before the current file and the
    number `i` of files already passed. -/
theorem firstOne_psums (frame : Int) : ∀ (lens : List Nat) (s : Int) (i : Nat), s ≤ frame →
    frame < s + ((lens.map Int.ofNat).sum) →
    ∃ f : Nat, f < lens.length ∧
      firstOne 0 (i + 1) ((psums s (lens.map Int.ofNat)).map fun c => if frame < c then 1 else 0) = i + 1 + f ∧
      s + ((lens.take f).map Int.ofNat).sum ≤ frame ∧
      frame < s + ((lens.take f).map Int.ofNat).sum + (lens.getD f 0 : Nat) := by
  intro lens
  induction lens with
  | nil => intro s i h0 h1; simp only [List.map_nil, List.sum_nil] at h1; omega
  | cons n ns ih =>
    intro s i h0 h1
    simp only [List.map_cons, psums, firstOne, List.sum_cons] at h1 ⊢
    by_cases hlt : frame < s + Int.ofNat n
    · refine ⟨0, by simp, ?_, ?_, ?_⟩
      · rw [if_pos hlt, if_pos rfl]
      · simpa using h0
      · simpa using hlt
    · rw [if_neg hlt, if_neg (by decide)]
      obtain ⟨f, hf, hfo, hlo, hhi⟩ := ih (s + Int.ofNat n) (i + 1) (by omega) (by omega)
      refine ⟨f + 1, by simp; omega, ?_, ?_, ?_⟩
      · rw [hfo]; omega
      · simp only [List.take_succ_cons, List.map_cons, List.sum_cons]; omega
      · simp only [List.take_succ_cons, List.map_cons, List.sum_cons, List.getD_cons_succ]; omega

theorem getElem?_psums (lens : List Nat) : ∀ (s : Int) (f : Nat), f < lens.length →
    (s :: psums s (lens.map Int.ofNat))[f]? = some (s + ((lens.take f).map Int.ofNat).sum) := by
  induction lens with
  | nil => intro s f hf; simp at hf
  | cons n ns ih =>
    intro s f hf
    cases f with
    | zero => simp
    | succ f =>
      simp only [List.map_cons, psums, List.getElem?_cons_succ, List.take_succ_cons, List.sum_cons]
      rw [ih (s + Int.ofNat n) f (by simpa using hf)]
      congr 1; omega

/-! ### sorted columns: `filter` = `takeWhile`/`dropWhile` -/

theorem filter_eq_takeWhile_of_antitone {α} (p : α → Bool) :
    ∀ (l : List α), l.Pairwise (fun x y => p y = true → p x = true) → l.filter p = l.takeWhile p := by
  intro l
  induction l with
  | nil => intro _; rfl
  | cons x xs ih =>
    intro h
    rw [List.pairwise_cons] at h
    by_cases hx : p x = true
    · rw [List.filter_cons_of_pos hx, List.takeWhile_cons_of_pos hx, ih h.2]
    · rw [List.filter_cons_of_neg hx, List.takeWhile_cons_of_neg hx]
      rw [List.filter_eq_nil_iff]
      intro y hy hpy
      exact hx (h.1 y hy hpy)

theorem filter_eq_dropWhile_of_monotone {α} (p : α → Bool) :
    ∀ (l : List α), l.Pairwise (fun x y => p x = true → p y = true) → l.filter p = l.dropWhile (fun x => !p x) := by
  intro l
  induction l with
  | nil => intro _; rfl
  | cons x xs ih =>
    intro h
    rw [List.pairwise_cons] at h
    by_cases hx : p x = true
    · rw [List.filter_cons_of_pos hx, List.dropWhile_cons_of_neg (by simp [hx])]
      congr 1
      rw [List.filter_eq_self]
      intro y hy
      exact h.1 y hy hx
    · rw [List.filter_cons_of_neg hx, List.dropWhile_cons_of_pos (by simp [hx]), ih h.2]

theorem takeWhile_eq_take_length {α} (p : α → Bool) (l : List α) :
    l.takeWhile p = l.take (l.takeWhile p).length := by
  induction l with
  | nil => rfl
  | cons x xs ih =>
    by_cases hx : p x = true
    · rw [List.takeWhile_cons_of_pos hx, List.length_cons, List.take_succ_cons, ← ih]
    · rw [List.takeWhile_cons_of_neg hx]; rfl

theorem dropWhile_eq_drop_length {α} (p : α → Bool) (l : List α) :
    l.dropWhile p = l.drop (l.takeWhile p).length := by
  induction l with
  | nil => rfl
  | cons x xs ih =>
    by_cases hx : p x = true
    · rw [List.takeWhile_cons_of_pos hx, List.dropWhile_cons_of_pos hx, List.length_cons, List.drop_succ_cons, ih]
    · rw [List.takeWhile_cons_of_neg hx, List.dropWhile_cons_of_neg hx]; rfl

theorem takeWhile_map_length {α β} (f : α → β) (p : β → Bool) (l : List α) :
    ((l.map f).takeWhile p).length = (l.takeWhile (p ∘ f)).length := by
  induction l with
  | nil => rfl
  | cons x xs ih =>
    by_cases hx : p (f x) = true
    · rw [List.map_cons, List.takeWhile_cons_of_pos hx, List.takeWhile_cons_of_pos (by simpa using hx)]
      simp [ih]
    · rw [List.map_cons, List.takeWhile_cons_of_neg hx, List.takeWhile_cons_of_neg (by simpa using hx)]
      rfl

/-! ### tether geometry at `ℝ` -/

theorem two_real : (2.0 : ℝ) = 2 := by norm_num

theorem tLen_sq (e : Pt ℝ × Pt ℝ) :
    tLen e * tLen e = (e.2.x - e.1.x) * (e.2.x - e.1.x) + (e.2.y - e.1.y) * (e.2.y - e.1.y) := by
  unfold tLen
  exact Real.mul_self_sqrt (by nlinarith [mul_self_nonneg (e.2.x - e.1.x), mul_self_nonneg (e.2.y - e.1.y)])

theorem tLen_pos (e : Pt ℝ × Pt ℝ) (h : e.1.x ≠ e.2.x ∨ e.1.y ≠ e.2.y) : 0 < tLen e := by
  unfold tLen
  apply Real.sqrt_pos.mpr
  rcases h with h | h
  · have : e.2.x - e.1.x ≠ 0 := sub_ne_zero.mpr (Ne.symm h)
    nlinarith [mul_self_pos.mpr this, mul_self_nonneg (e.2.y - e.1.y)]
  · have : e.2.y - e.1.y ≠ 0 := sub_ne_zero.mpr (Ne.symm h)
    nlinarith [mul_self_pos.mpr this, mul_self_nonneg (e.2.x - e.1.x)]

theorem rotate_first (e : Pt ℝ × Pt ℝ) (h : e.1.x ≠ e.2.x ∨ e.1.y ≠ e.2.y) :
    (rotate e e.1).x = tCx e - tLen e / 2 ∧ (rotate e e.1).y = tCy e := by
  have hr := tLen_pos e h
  have hsq := tLen_sq e
  unfold rotate tCos tSin tCx tCy
  simp only [two_real]
  generalize tLen e = r at *
  constructor
  · field_simp
    linear_combination (1 : ℝ) * hsq
  · field_simp
    ring

theorem rotate_second (e : Pt ℝ × Pt ℝ) (h : e.1.x ≠ e.2.x ∨ e.1.y ≠ e.2.y) :
    (rotate e e.2).x = tCx e + tLen e / 2 ∧ (rotate e e.2).y = tCy e := by
  have hr := tLen_pos e h
  have hsq := tLen_sq e
  unfold rotate tCos tSin tCx tCy
  simp only [two_real]
  generalize tLen e = r at *
  constructor
  · field_simp
    linear_combination (-1 : ℝ) * hsq
  · field_simp
    ring


/-- The ends of a tether as the processed image shows them. -/
theorem ends_processed (t : Tether ℝ) (e : Pt ℝ × Pt ℝ) (he : t.ends = some e)
    (h : e.1.x ≠ e.2.x ∨ e.1.y ≠ e.2.y) :
    ∃ a b, t.endsProcessed = some (a, b) ∧
      a.x = tCx e - tLen e / 2 - t.offX ∧ a.y = tCy e - t.offY ∧
      b.x = tCx e + tLen e / 2 - t.offX ∧ b.y = tCy e - t.offY := by
  have h1 := rotate_first e h
  have h2 := rotate_second e h
  refine ⟨_, _, by simp only [Tether.endsProcessed, he, Option.map_some]; rfl, ?_, ?_, ?_, ?_⟩
  · show (rotate e e.1).x - t.offX = _; rw [h1.1]
  · show (rotate e e.1).y - t.offY = _; rw [h1.2]
  · show (rotate e e.2).x - t.offX = _; rw [h2.1]
  · show (rotate e e.2).y - t.offY = _; rw [h2.2]

/-- `define_tether(p, q)` on a stack without tether (ROI origin `(ox, oy)`, `p ≠ q` in the current image):
    closed form of the processed ends, `L` the distance of the chosen points. -/
theorem fresh_tether (ox oy : ℝ) (p q : Pt ℝ) (h : p.x ≠ q.x ∨ p.y ≠ q.y) :
    ∃ a b, ((Tether.new ox oy none).withTether p q).endsProcessed = some (a, b) ∧
      0 < Real.sqrt ((q.x - p.x) * (q.x - p.x) + (q.y - p.y) * (q.y - p.y)) ∧
      a.x = (p.x + q.x) / 2 - Real.sqrt ((q.x - p.x) * (q.x - p.x) + (q.y - p.y) * (q.y - p.y)) / 2 ∧
      a.y = (p.y + q.y) / 2 ∧
      b.x = (p.x + q.x) / 2 + Real.sqrt ((q.x - p.x) * (q.x - p.x) + (q.y - p.y) * (q.y - p.y)) / 2 ∧
      b.y = (p.y + q.y) / 2 := by
  obtain ⟨e, hedef⟩ : ∃ e : Pt ℝ × Pt ℝ, e = (⟨p.x + ox, p.y + oy⟩, ⟨q.x + ox, q.y + oy⟩) := ⟨_, rfl⟩
  have he : ((Tether.new ox oy none).withTether p q).ends = some e := by rw [hedef]; rfl
  have hox : ((Tether.new ox oy none).withTether p q).offX = ox := rfl
  have hoy : ((Tether.new ox oy none).withTether p q).offY = oy := rfl
  have e1x : e.1.x = p.x + ox := by rw [hedef]
  have e1y : e.1.y = p.y + oy := by rw [hedef]
  have e2x : e.2.x = q.x + ox := by rw [hedef]
  have e2y : e.2.y = q.y + oy := by rw [hedef]
  have h' : e.1.x ≠ e.2.x ∨ e.1.y ≠ e.2.y := by
    rw [e1x, e1y, e2x, e2y]
    rcases h with h | h
    · left; intro hh; exact h (by linarith)
    · right; intro hh; exact h (by linarith)
  have hL : tLen e = Real.sqrt ((q.x - p.x) * (q.x - p.x) + (q.y - p.y) * (q.y - p.y)) := by
    unfold tLen
    rw [e1x, e1y, e2x, e2y]
    show Real.sqrt _ = _
    congr 1
    ring
  have hcx : tCx e = (p.x + q.x) / 2 + ox := by
    unfold tCx; rw [e1x, e2x]; simp only [two_real]; ring
  have hcy : tCy e = (p.y + q.y) / 2 + oy := by
    unfold tCy; rw [e1y, e2y]; simp only [two_real]; ring
  obtain ⟨a, b, hab, hax, hay, hbx, hby⟩ := ends_processed _ e he h'
  have hpos := tLen_pos e h'
  rw [hL] at hpos hax hbx
  rw [hcx, hox] at hax hbx
  rw [hcy, hoy] at hay hby
  refine ⟨a, b, hab, hpos, ?_, ?_, ?_, ?_⟩
  · rw [hax]; ring
  · rw [hay]; ring
  · rw [hbx]; ring
  · rw [hby]; ring

/-! ### affine maps: matrix product = composition, the rotation matrix = `rotate` -/

theorem aff_mul_apply (m n : Aff ℝ) (p : Pt ℝ) : (m.mul n).apply p = m.apply (n.apply p) := by
  simp only [Aff.mul, Aff.apply]
  congr 1 <;> ring

theorem rotAff_apply (e : Pt ℝ × Pt ℝ) (p : Pt ℝ) : (rotAff e).apply p = rotate e p := by
  simp only [rotAff, Aff.apply, rotate]
  congr 1 <;> ring

/-- The matrix a channel is warped with sends a raw point to the rotated position of where the aligned image shows it. -/
theorem frameMatrix_apply (t : Tether ℝ) (e : Pt ℝ × Pt ℝ) (he : t.ends = some e) (alignInv : Option (Aff ℝ))
    (r : Pt ℝ) : (t.frameMatrix alignInv).apply r = rotate e (shownAt alignInv r) := by
  cases alignInv with
  | none => simp only [Tether.frameMatrix, Tether.rotMatrix, he, shownAt, rotAff_apply]
  | some m => simp only [Tether.frameMatrix, Tether.rotMatrix, he, shownAt, aff_mul_apply, rotAff_apply]

end Verif.C07
