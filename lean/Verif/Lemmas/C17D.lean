/-
  C17, deepening round D — helper lemmas: the well-formedness invariant of tracks and its
  preservation by every editing operation (arbitrary Python indices, negative ones included),
  where the nodes of an edited group come from, composition laws.
-/
import Verif.Lemmas.C17
import Mathlib.Algebra.Order.Field.Power
import Mathlib.Tactic.Positivity
import Mathlib.Tactic.NormNum
import Mathlib.Algebra.Order.Archimedean.Basic
import Mathlib.Algebra.BigOperators.Intervals
import Mathlib.Algebra.Order.BigOperators.Group.Finset
import Mathlib.Algebra.BigOperators.Ring.Finset

namespace Verif.C17
open Verif.Py

/-- What every theorem about interpolation / merge order / duration bounds assumes of a track, and what
    `KymoTrack` objects made by the tracker satisfy: at least one node, strictly increasing scan
    lines, and (for a centroid localization) one photon count per node. -/
def WF (tr : Track) : Prop :=
  tr.pts ≠ [] ∧ StrictInc tr.pts ∧ ∀ c, tr.counts = some c → c.length = tr.pts.length

def nodesOf (g : List Track) : List Pt := g.flatMap (·.pts)

theorem mem_nodesOf (g : List Track) (p : Pt) : p ∈ nodesOf g ↔ ∃ tr ∈ g, p ∈ tr.pts := by
  simp [nodesOf, List.mem_flatMap]

/-! ### slices with arbitrary Python bounds -/

theorem pySliceOpt_stop {α} (l : List α) (k : Int) :
    pySliceOpt l none (some k) = l.take (pyNorm l.length k) := by
  unfold pySliceOpt pySlice
  simp only [Option.getD_none, Option.getD_some]
  rw [show pyNorm l.length 0 = 0 from by simpa using pyNorm_nat l.length 0]
  simp

theorem pySliceOpt_start {α} (l : List α) (k : Int) :
    pySliceOpt l (some k) none = l.drop (pyNorm l.length k) := by
  unfold pySliceOpt pySlice
  simp only [Option.getD_none, Option.getD_some]
  rw [pyNorm_nat]
  simp

/-- a valid Python index: the position it denotes -/
theorem pyIndex_some {α} (l : List α) (i : Int) (x : α) (h : pyIndex l i = some x) :
    ∃ n : Nat, l[n]? = some x ∧ n < l.length ∧ pyNorm l.length i = n ∧ pyNorm l.length (i + 1) ≤ n + 1 := by
  unfold pyIndex at h
  by_cases hi : i < 0
  · simp only [hi, if_true] at h
    by_cases h2 : i + (l.length : Int) < 0
    · simp [h2] at h
    · simp only [h2, if_false] at h
      have hlt : (i + (l.length : Int)).toNat < l.length := (List.getElem?_eq_some_iff.1 h).1
      refine ⟨(i + (l.length : Int)).toNat, h, hlt, ?_, ?_⟩
      · unfold pyNorm; simp [hi, h2]
      · unfold pyNorm
        by_cases h3 : i + 1 < 0
        · have h4 : ¬ (i + 1 + (l.length : Int) < 0) := by omega
          simp only [h3, h4, if_true, if_false]; omega
        · have h5 : i + 1 = 0 := by omega
          simp [h5]
  · simp only [hi, if_false] at h
    have hlt : i.toNat < l.length := (List.getElem?_eq_some_iff.1 h).1
    refine ⟨i.toNat, h, hlt, ?_, ?_⟩
    · unfold pyNorm; simp only [hi, if_false]; omega
    · unfold pyNorm
      have : ¬ (i + 1 < 0) := by omega
      simp only [this, if_false]; omega

theorem strictInc_sublist {l₁ l₂ : List Pt} (h : l₁.Sublist l₂) (hs : StrictInc l₂) : StrictInc l₁ :=
  List.Pairwise.sublist h hs

theorem wf_takeN (tr : Track) (n : Nat) (h : WF tr) (h0 : 0 < n) : WF (tr.takeN n) := by
  obtain ⟨hne, hs, hc⟩ := h
  refine ⟨?_, strictInc_sublist (List.take_sublist _ _) hs, ?_⟩
  · intro hnil
    have := congrArg List.length hnil
    have hl : 0 < tr.pts.length := List.length_pos_iff.2 hne
    simp only [Track.takeN, List.length_take, List.length_nil] at this
    omega
  · intro c hcc
    cases hcs : tr.counts with
    | none => simp [Track.takeN, hcs] at hcc
    | some c0 =>
      simp only [Track.takeN, hcs, Option.map_some, Option.some.injEq] at hcc
      subst hcc
      simp [Track.takeN, List.length_take, hc c0 hcs]

theorem wf_dropN (tr : Track) (n : Nat) (h : WF tr) (h1 : n < tr.len) : WF (tr.dropN n) := by
  obtain ⟨hne, hs, hc⟩ := h
  refine ⟨?_, strictInc_sublist (List.drop_sublist _ _) hs, ?_⟩
  · intro hnil
    have := congrArg List.length hnil
    simp only [Track.dropN, List.length_drop, List.length_nil] at this
    unfold Track.len at h1
    omega
  · intro c hcc
    cases hcs : tr.counts with
    | none => simp [Track.dropN, hcs] at hcc
    | some c0 =>
      simp only [Track.dropN, hcs, Option.map_some, Option.some.injEq] at hcc
      subst hcc
      simp [Track.dropN, List.length_drop, hc c0 hcs]

/-! ### `_split` / `_split_track` -/

theorem split_ok_iff (tr : Track) (node : Int) (b a : Track) (h : tr.split node = .ok (b, a)) :
    ∃ n : Nat, node = n ∧ 0 < n ∧ n < tr.len ∧ b = tr.takeN n ∧ a = tr.dropN n := by
  by_cases hin : 0 < node ∧ node < tr.len
  · obtain ⟨n, rfl⟩ : ∃ n : Nat, node = n := ⟨node.toNat, by omega⟩
    have h0 : 0 < n := by omega
    have h1 : n < tr.len := by omega
    rw [split_inside tr n h0 h1] at h
    injection h with h
    injection h with hb ha
    exact ⟨n, rfl, h0, h1, hb.symm, ha.symm⟩
  · rw [split_outside tr node (by omega)] at h
    cases h

/-- where the tracks of a split group come from -/
theorem splitTrack_members (g : List Track) (i : Nat) (node minLen : Int) (g' : List Track)
    (h : splitTrack g i node minLen = .ok g') :
    ∃ tr ∈ g, ∃ n : Nat, 0 < n ∧ n < tr.len ∧
      ∀ t ∈ g', t ∈ g ∨ t = tr.takeN n ∨ t = tr.dropN n := by
  unfold splitTrack at h
  cases hi : g[i]? with
  | none => simp [hi] at h
  | some tr =>
    simp only [hi] at h
    cases hsp : tr.split node with
    | error e => simp [hsp] at h
    | ok ba =>
      obtain ⟨b, a⟩ := ba
      simp only [hsp, Except.ok.injEq] at h
      obtain ⟨n, _, h0, h1, rfl, rfl⟩ := split_ok_iff tr node b a hsp
      refine ⟨tr, List.mem_of_getElem? hi, n, h0, h1, ?_⟩
      intro t ht
      rw [← h, List.mem_append] at ht
      rcases ht with ht | ht
      · exact Or.inl ((List.eraseIdx_sublist g i).subset ht)
      · have := (List.mem_filter.1 ht).1
        simp only [List.mem_cons, List.mem_nil_iff, or_false] at this
        exact Or.inr this

/-! ### `_merge_tracks` -/

/-- the track `_merge_tracks` builds, for arbitrary (possibly negative) Python node indices -/
theorem merge_core (a b : Track) (ni nj : Int) (ps pe : Pt) (hps : pyIndex a.pts ni = some ps)
    (hpe : pyIndex b.pts nj = some pe) (ha : WF a) (hb : WF b) :
    ∃ ia ib m : Nat, a.pts[ia]? = some ps ∧ b.pts[ib]? = some pe ∧ m ≤ ia + 1 ∧
      ((a.slice none (some (ni + 1))).add (b.slice (some nj) none)).pts = a.pts.take m ++ b.pts.drop ib ∧
      ((a.slice none (some (ni + 1))).add (b.slice (some nj) none)).minDur = a.minDur ∧
      ∀ c, ((a.slice none (some (ni + 1))).add (b.slice (some nj) none)).counts = some c →
        c.length = (a.pts.take m ++ b.pts.drop ib).length := by
  obtain ⟨ia, hia, _, _, hm⟩ := pyIndex_some a.pts ni ps hps
  obtain ⟨ib, hib, _, hnb, _⟩ := pyIndex_some b.pts nj pe hpe
  refine ⟨ia, ib, pyNorm a.pts.length (ni + 1), hia, hib, hm, ?_, rfl, ?_⟩
  · simp only [Track.add, Track.slice, pySliceOpt_stop, pySliceOpt_start, hnb]
  · intro c hc
    simp only [Track.add, Track.slice] at hc
    cases hca : a.counts with
    | none => simp [hca] at hc
    | some ca =>
      cases hcb : b.counts with
      | none => simp [hca, hcb] at hc
      | some cb =>
        simp only [hca, hcb, Option.map_some, Option.some.injEq] at hc
        subst hc
        have la := ha.2.2 ca hca
        have lb := hb.2.2 cb hcb
        simp only [pySliceOpt_stop, pySliceOpt_start, List.length_append, List.length_take,
          List.length_drop, la, lb, hnb]

theorem strictInc_merge (a b : List Pt) (ia ib m : Nat) (pa pb : Pt) (hpa : a[ia]? = some pa)
    (hpb : b[ib]? = some pb) (hm : m ≤ ia + 1) (hlt : pa.1 < pb.1) (hsa : StrictInc a) (hsb : StrictInc b) :
    StrictInc (a.take m ++ b.drop ib) := by
  have hfull : StrictInc (a.take (ia + 1) ++ b.drop ib) := by
    unfold StrictInc at *
    rw [List.pairwise_append]
    refine ⟨hsa.sublist (List.take_sublist _ _), hsb.sublist (List.drop_sublist _ _), ?_⟩
    intro x hx y hy
    obtain ⟨ix, hix, rfl⟩ := List.mem_iff_getElem.1 hx
    obtain ⟨iy, hiy, rfl⟩ := List.mem_iff_getElem.1 hy
    simp only [List.length_take, List.length_drop] at hix hiy
    rw [List.getElem_take, List.getElem_drop]
    obtain ⟨hna, hpa'⟩ := List.getElem?_eq_some_iff.1 hpa
    obtain ⟨hnb, hpb'⟩ := List.getElem?_eq_some_iff.1 hpb
    have h1 : (a[ix]).1 ≤ pa.1 := by
      rcases Nat.lt_or_ge ix ia with h | h
      · have := List.pairwise_iff_getElem.1 hsa ix ia (by omega) hna h
        rw [hpa'] at this; omega
      · have : ix = ia := by omega
        subst this; rw [hpa']
    have h2 : pb.1 ≤ (b[ib + iy]).1 := by
      rcases Nat.eq_zero_or_pos iy with h | h
      · subst h; simp only [Nat.add_zero]; rw [hpb']
      · have := List.pairwise_iff_getElem.1 hsb ib (ib + iy) hnb (by omega) (by omega)
        rw [hpb'] at this; omega
    omega
  refine strictInc_sublist ?_ hfull
  apply List.Sublist.append_right
  have : a.take m = (a.take (ia + 1)).take m := by
    rw [List.take_take]; congr 1; omega
  rw [this]
  exact List.take_sublist _ _

theorem wf_merge_core (a b : Track) (ni nj : Int) (ps pe : Pt) (hps : pyIndex a.pts ni = some ps)
    (hpe : pyIndex b.pts nj = some pe) (ha : WF a) (hb : WF b) (hlt : ps.1 < pe.1) :
    WF ((a.slice none (some (ni + 1))).add (b.slice (some nj) none)) ∧
    ∀ p ∈ ((a.slice none (some (ni + 1))).add (b.slice (some nj) none)).pts, p ∈ a.pts ∨ p ∈ b.pts := by
  obtain ⟨ia, ib, m, hia, hib, hm, hpts, _, hc⟩ := merge_core a b ni nj ps pe hps hpe ha hb
  refine ⟨⟨?_, ?_, ?_⟩, ?_⟩
  · rw [hpts]
    intro hnil
    have := congrArg List.length hnil
    have hlb : ib < b.pts.length := (List.getElem?_eq_some_iff.1 hib).1
    simp only [List.length_append, List.length_take, List.length_drop, List.length_nil] at this
    omega
  · rw [hpts]
    exact strictInc_merge a.pts b.pts ia ib m ps pe hia hib hm hlt ha.2.1 hb.2.1
  · intro c hcc
    rw [hpts]
    exact hc c hcc
  · intro p hp
    rw [hpts, List.mem_append] at hp
    rcases hp with hp | hp
    · exact Or.inl ((List.take_sublist _ _).subset hp)
    · exact Or.inr ((List.drop_sublist _ _).subset hp)

/-- where the tracks of a merged group come from: every track is an old one, or the connected track,
    which is well formed and made of nodes of two old tracks -/
theorem mergeTracks_members (g : List Track) (i j : Nat) (ni nj : Int) (g' : List Track)
    (hwf : ∀ tr ∈ g, WF tr) (h : mergeTracks g i ni j nj = .ok g') :
    ∃ M : Track, WF M ∧ (∀ p ∈ M.pts, ∃ tr ∈ g, p ∈ tr.pts) ∧ ∀ t ∈ g', t ∈ g ∨ t = M := by
  unfold mergeTracks at h
  cases hi : g[i]? with
  | none => simp [hi] at h
  | some a =>
    cases hj : g[j]? with
    | none => simp [hi, hj] at h
    | some b =>
      have hag : a ∈ g := List.mem_of_getElem? hi
      have hbg : b ∈ g := List.mem_of_getElem? hj
      simp only [hi, hj] at h
      cases hps : pyIndex a.pts ni with
      | none => simp [hps] at h
      | some ps =>
        cases hpe : pyIndex b.pts nj with
        | none => simp [hps, hpe] at h
        | some pe =>
          simp only [hps, hpe] at h
          by_cases heq : ps.1 = pe.1
          · simp [heq] at h
          · simp only [heq, if_false] at h
            by_cases hsw : ps.1 > pe.1
            · simp only [hsw, decide_true, if_true, Except.ok.injEq] at h
              obtain ⟨hW, hP⟩ := wf_merge_core b a nj ni pe ps hpe hps (hwf b hbg) (hwf a hag) (by omega)
              refine ⟨_, hW, ?_, ?_⟩
              · intro p hp
                rcases hP p hp with hp | hp
                · exact ⟨b, hbg, hp⟩
                · exact ⟨a, hag, hp⟩
              · intro t ht
                rw [← h] at ht
                have ht' : t ∈ g.set j ((b.slice none (some (nj + 1))).add (a.slice (some ni) none)) := by
                  split at ht
                  · exact ht
                  · exact (List.eraseIdx_sublist _ _).subset ht
                rcases List.mem_or_eq_of_mem_set ht' with h1 | h1
                · exact Or.inl h1
                · exact Or.inr h1
            · simp only [hsw, decide_false, Bool.false_eq_true, if_false, Except.ok.injEq] at h
              obtain ⟨hW, hP⟩ := wf_merge_core a b ni nj ps pe hps hpe (hwf a hag) (hwf b hbg) (by omega)
              refine ⟨_, hW, ?_, ?_⟩
              · intro p hp
                rcases hP p hp with hp | hp
                · exact ⟨a, hag, hp⟩
                · exact ⟨b, hbg, hp⟩
              · intro t ht
                rw [← h] at ht
                have ht' : t ∈ g.set i ((a.slice none (some (ni + 1))).add (b.slice (some nj) none)) := by
                  split at ht
                  · exact ht
                  · exact (List.eraseIdx_sublist _ _).subset ht
                rcases List.mem_or_eq_of_mem_set ht' with h1 | h1
                · exact Or.inl h1
                · exact Or.inr h1

/-! ### `filter_tracks`, `remove_tracks_in_rect` -/

theorem filterTracks_members (lt : Rat) (L : Int) (D : Rat) (g : List Track) (t : Track)
    (h : t ∈ filterTracks lt L D g) : ∃ tr ∈ g, t.pts = tr.pts ∧ t.counts = tr.counts := by
  unfold filterTracks at h
  simp only [List.mem_map, List.mem_filter] at h
  obtain ⟨tr, ⟨htr, _⟩, rfl⟩ := h
  exact ⟨tr, htr, rfl, rfl⟩

/-! ### interpolation -/

theorem arange_pairwise (a b : Int) : (arange a b).Pairwise (· < ·) := by
  unfold arange
  rw [List.pairwise_map]
  exact List.Pairwise.imp (fun h => by omega) List.pairwise_lt_range

theorem interpolate_strictInc (pts : List Pt) : StrictInc (interpolate pts) := by
  have h := arange_pairwise (tmin pts) (tmax pts + 1)
  rw [← interpolate_times_eq, List.pairwise_map] at h
  exact h

theorem interpolate_ne_nil (pts : List Pt) (hne : pts ≠ []) : interpolate pts ≠ [] := by
  intro hnil
  have h := interpolate_times_eq pts
  rw [hnil] at h
  cases pts with
  | nil => exact hne rfl
  | cons p ps =>
    have hle := tmin_le_tmax_mem (p :: ps) p (by simp)
    have hmem : tmin (p :: ps) ∈ arange (tmin (p :: ps)) (tmax (p :: ps) + 1) := by
      rw [mem_arange]; omega
    rw [← h] at hmem
    simp at hmem

theorem wf_interpolate (tr : Track) (h : WF tr) : WF tr.interpolate :=
  ⟨interpolate_ne_nil tr.pts h.1, interpolate_strictInc tr.pts, by intro c hc; simp [Track.interpolate] at hc⟩

theorem lin_left (p q : Pt) : lin p q p.1 = p.2 := by unfold lin; simp

/-- `np.interp` returns the node's own coordinate at a node's scan line -/
theorem interpAt_mem (l : List Pt) (hs : StrictInc l) (p : Pt) (hp : p ∈ l) : interpAt l p.1 = p.2 := by
  induction l with
  | nil => simp at hp
  | cons p0 rest ih =>
    cases rest with
    | nil =>
      simp only [List.mem_singleton] at hp
      subst hp; rfl
    | cons q rest' =>
      have hpq : p0.1 < q.1 := (List.pairwise_cons.1 hs).1 q (by simp)
      rcases List.mem_cons.1 hp with rfl | hp'
      · simp only [interpAt, Int.lt_irrefl, if_false, hpq, if_true, lin_left]
      · have hs' : StrictInc (q :: rest') := (List.pairwise_cons.1 hs).2
        have hge : q.1 ≤ p.1 := by
          rcases List.mem_cons.1 hp' with rfl | h
          · exact Int.le_refl _
          · exact Int.le_of_lt ((List.pairwise_cons.1 hs').1 p h)
        have h1 : ¬ p.1 < p0.1 := by omega
        have h2 : ¬ p.1 < q.1 := by omega
        simp only [interpAt, h1, h2, if_false]
        exact ih hs' hp'

/-- a track that already has a node on every line of its span is left alone -/
theorem interpolate_of_dense (m : List Pt) (hm : StrictInc m)
    (hd : m.map (·.1) = arange (tmin m) (tmax m + 1)) : interpolate m = m := by
  unfold interpolate
  rw [← hd, List.map_map]
  conv => rhs; rw [← List.map_id m]
  apply List.map_congr_left
  intro p hp
  simp only [Function.comp, id]
  rw [interpAt_mem m hm p hp]

theorem arange_last (a b : Int) (h : a ≤ b) : arange a (b + 1) = arange a b ++ [b] := by
  rw [arange_split a b (b + 1) h (by omega), arange_succ_left b (b + 1) (by omega)]
  have : arange (b + 1) (b + 1) = [] := by unfold arange; simp
  rw [this]

theorem tmin_tmax_of_times (m : List Pt) (hm : StrictInc m) (a b : Int) (hab : a ≤ b)
    (ht : m.map (·.1) = arange a (b + 1)) : tmin m = a ∧ tmax m = b := by
  cases m with
  | nil =>
    rw [arange_succ_left a (b + 1) (by omega)] at ht
    simp at ht
  | cons p ps =>
    constructor
    · rw [tmin_sorted p ps hm]
      rw [arange_succ_left a (b + 1) (by omega)] at ht
      simp only [List.map_cons, List.cons.injEq] at ht
      exact ht.1
    · have hmax : ∀ (p : Pt) (ps : List Pt), StrictInc (p :: ps) →
          tmax (p :: ps) = ((p :: ps).getLast (by simp)).1 := by
        intro p ps h
        induction ps generalizing p with
        | nil => simp [tmax]
        | cons q rest ih =>
          have hpq : p.1 < q.1 := (List.pairwise_cons.1 h).1 q (by simp)
          rw [tmax_cons_cons p q rest hpq, ih q (List.pairwise_cons.1 h).2]
          simp
      rw [hmax p ps hm]
      have h1 : ((p :: ps).map (·.1)).getLast (by simp) = ((p :: ps).getLast (by simp)).1 := by
        rw [List.getLast_map]
      rw [← h1]
      have h2 : ∀ (l₁ l₂ : List Int) (h₁ : l₁ ≠ []) (h₂ : l₂ ≠ []), l₁ = l₂ → l₁.getLast h₁ = l₂.getLast h₂ := by
        intro l₁ l₂ h₁ h₂ e; subst e; rfl
      rw [h2 _ (arange a b ++ [b]) (by simp) (by simp) (by rw [ht, arange_last a b hab])]
      simp

/-- **interpolation is idempotent** -/
theorem interpolate_idem (pts : List Pt) (hne : pts ≠ []) :
    interpolate (interpolate pts) = interpolate pts := by
  apply interpolate_of_dense _ (interpolate_strictInc pts)
  have hab : tmin pts ≤ tmax pts := by
    cases pts with
    | nil => exact absurd rfl hne
    | cons p ps => have := tmin_le_tmax_mem (p :: ps) p (by simp); omega
  obtain ⟨h1, h2⟩ := tmin_tmax_of_times (interpolate pts) (interpolate_strictInc pts) _ _ hab
    (interpolate_times_eq pts)
  rw [h1, h2, interpolate_times_eq]

/-! ### the CSV file as text: titles, cells, lookup by title -/

theorem trunc_intCast (z : Int) : trunc (z : Rat) = z := by
  unfold trunc
  simp

theorem hasInfix_prefix (pat rest : List Char) : hasInfix pat (pat ++ rest) = true := by
  cases pat with
  | nil => cases rest <;> simp [hasInfix]
  | cons c cs => simp [hasInfix, List.isPrefixOf]

theorem cols_export (unit : Title) (hu : unit = uUm ∨ unit = uKbp ∨ unit = uPixel) (sw : Option Nat) (hasMd : Bool) :
    let ts := readerKeys (exportTitles unit sw hasMd)
    lastIdx ts tTimePx = some 1 ∧ lastIdx ts tCoordPx = some 2 ∧
    lastIdx ts tMinDur = (if hasMd then some (5 + (if sw.isSome then 1 else 0)) else none) ∧
    (ts.find? (hasInfix sCounts)).bind (lastIdx ts) = (if sw.isSome then some 5 else none) := by
  rcases hu with rfl | rfl | rfl <;> cases sw <;> cases hasMd <;>
    simp [exportTitles, readerKeys, lastIdx, lastIdxFrom, tIdx, tTimePx, tCoordPx, tTimeSec, tPosition, tPosPre,
      tCounts, tCntPre, tCntPost, tMinDur, sCounts, uUm, uKbp, uPixel, hasInfix, List.isPrefixOf]

def Row.strip (r : Row) : Row := ⟨r.idx, r.t, r.c, 0, 0, r.count, r.minDur⟩

theorem mkTrack_strip (k : Kymo) (rs : List Row) : mkTrack k (rs.map Row.strip) = mkTrack k rs := by
  unfold mkTrack
  simp only [List.map_map]
  rfl

theorem readTxt_strip (rows : List Row) : readTxt (rows.map Row.strip) = (readTxt rows).map (·.map Row.strip) := by
  unfold readTxt
  rw [List.map_map, List.map_map]
  have : (Row.idx ∘ Row.strip) = Row.idx := rfl
  rw [this]
  apply List.map_congr_left
  intro i _
  simp only [Function.comp]
  rw [List.filter_map]
  rfl

/-- the importer reads neither the seconds nor the position column -/
theorem importGroup_strip (k : Kymo) (rows : List Row) :
    importGroup k (rows.map Row.strip) = importGroup k rows := by
  unfold importGroup
  by_cases h : rows = []
  · subst h; rfl
  · have h1 : rows.isEmpty = false := by cases rows <;> simp_all
    have h2 : (rows.map Row.strip).isEmpty = false := by cases rows <;> simp_all
    rw [h1, h2, readTxt_strip]
    simp only [Bool.false_eq_true, if_false]
    rw [List.mapM_map]
    congr 1
    funext rs
    exact mkTrack_strip k rs

theorem rowCells_length (r : Row) :
    (rowCells r).length = 5 + (if r.count.isSome then 1 else 0) + (if r.minDur.isSome then 1 else 0) := by
  unfold rowCells
  cases r.count <;> cases r.minDur <;> simp

theorem exportTitles_length (unit : Title) (sw : Option Nat) (hasMd : Bool) :
    (exportTitles unit sw hasMd).length = 5 + (if sw.isSome then 1 else 0) + (if hasMd then 1 else 0) := by
  unfold exportTitles
  cases sw <;> cases hasMd <;> simp

theorem readerKeys_length (ts : List Title) : (readerKeys ts).length = ts.length := by
  cases ts <;> simp [readerKeys]

/-- the cells the importer picks out of a written line are the entries of that line -/
theorem pick_cells (r : Row) (sw : Option Nat) (hasMd : Bool) (hc : r.count.isSome = sw.isSome)
    (hm : r.minDur.isSome = hasMd) :
    (⟨(trunc (cell (rowCells r) 0)).toNat, trunc (cell (rowCells r) 1), cell (rowCells r) 2, 0, 0,
      (if sw.isSome then some 5 else none).map (fun j => trunc (cell (rowCells r) j)),
      (if hasMd then some (5 + (if sw.isSome then 1 else 0)) else none).map (fun j => cell (rowCells r) j)⟩ : Row)
      = r.strip := by
  cases r with
  | mk idx t c sec pos count minDur =>
    cases count <;> cases minDur <;> cases sw <;> cases hasMd <;>
      simp_all [rowCells, cell, Row.strip, trunc_intCast] <;>
      (unfold trunc; simp)

theorem importFile_written (k : Kymo) (unit : Title) (hu : unit = uUm ∨ unit = uKbp ∨ unit = uPixel)
    (sw : Option Nat) (hasMd : Bool) (rows : List Row)
    (hrows : ∀ r ∈ rows, r.count.isSome = sw.isSome ∧ r.minDur.isSome = hasMd) :
    importFile k ⟨some 4, exportTitles unit sw hasMd, rows.map rowCells⟩ = importGroup k rows := by
  cases rows with
  | nil => rfl
  | cons r0 rest =>
    have hlen : ∀ r ∈ r0 :: rest, (rowCells r).length = (exportTitles unit sw hasMd).length := by
      intro r hr
      rw [rowCells_length, exportTitles_length, (hrows r hr).1, (hrows r hr).2]
    have hrag : ((r0 :: rest).map rowCells).any (fun r => r.length != (rowCells r0).length) = false := by
      rw [List.any_eq_false]
      intro x hx
      obtain ⟨r, hr, rfl⟩ := List.mem_map.1 hx
      rw [hlen r hr, hlen r0 (by simp)]
      simp
    obtain ⟨c1, c2, c3, c4⟩ := cols_export unit hu sw hasMd
    have htake : (readerKeys (exportTitles unit sw hasMd)).take (rowCells r0).length
        = readerKeys (exportTitles unit sw hasMd) := by
      rw [hlen r0 (by simp), ← readerKeys_length]
      exact List.take_length
    unfold importFile
    simp only [List.map_cons] at hrag ⊢
    simp only [hrag, Bool.false_eq_true, if_false, htake, c1, c2]
    have hv : ¬ ((some 4 : Option Nat) = some 3) := by decide
    simp only [hv, if_false, c3, c4]
    rw [← importGroup_strip k (r0 :: rest)]
    congr 1
    rw [List.map_cons, List.map_map]
    congr 1
    · exact pick_cells r0 sw hasMd (hrows r0 (by simp)).1 (hrows r0 (by simp)).2
    · apply List.map_congr_left
      intro r hr
      exact pick_cells r sw hasMd (hrows r (List.mem_cons_of_mem _ hr)).1 (hrows r (List.mem_cons_of_mem _ hr)).2

theorem exported_rows_shape (k : Kymo) (sample : Option (Int → Rat → Int)) (fmt : Rat → Rat) (g : List Track)
    (rows : List Row) (h : exportRows k sample fmt g = .ok rows) :
    ∀ r ∈ rows, r.count.isSome = sample.isSome ∧ r.minDur.isSome = g.all (·.minDur.isSome) := by
  have hne : g ≠ [] := by
    intro hg; subst hg; simp [exportRows] at h
  rw [exportRows_eq k sample fmt g hne] at h
  injection h with h
  subst h
  intro r hr
  simp only [rowBlocksFrom, blockOf, List.mem_flatMap, List.mem_map] at hr
  obtain ⟨p, hp, q, _, rfl⟩ := hr
  have hm : p.1 ∈ g := by
    have : p.1 ∈ (g.zipIdx).map Prod.fst := List.mem_map_of_mem hp
    rwa [List.zipIdx_map_fst] at this
  refine ⟨by cases sample <;> rfl, ?_⟩
  simp only [rowOf, mdOf]
  cases hall : g.all (·.minDur.isSome) with
  | false => simp
  | true =>
    have := (List.all_eq_true.1 hall) p.1 hm
    simp only [if_true, Option.isSome_map]
    exact this


/-! ### `%.6e`: exponent search, rounding, idempotence, accuracy -/

theorem pow10_eq_zpow (e : Int) : pow10 e = (10 : Rat) ^ e := by
  unfold pow10
  split
  · rename_i h
    obtain ⟨n, rfl⟩ := Int.eq_ofNat_of_zero_le h
    simp
  · rename_i h
    obtain ⟨n, hn⟩ : ∃ n : Nat, -e = n := ⟨(-e).toNat, by omega⟩
    have he : e = -(n : Int) := by omega
    rw [hn, he]
    simp

theorem pow10_pos (e : Int) : 0 < pow10 e := by
  rw [pow10_eq_zpow]; positivity

theorem pow10_lt {a b : Int} (h : a < b) : pow10 a < pow10 b := by
  rw [pow10_eq_zpow, pow10_eq_zpow]
  exact zpow_lt_zpow_right₀ (by norm_num) h

theorem pow10_le {a b : Int} (h : a ≤ b) : pow10 a ≤ pow10 b := by
  rw [pow10_eq_zpow, pow10_eq_zpow]
  exact zpow_le_zpow_right₀ (by norm_num) h

theorem pow10_add (a b : Int) : pow10 (a + b) = pow10 a * pow10 b := by
  simp only [pow10_eq_zpow]
  exact zpow_add₀ (by norm_num) a b

/-- `e` is the decimal exponent of `a` -/
def IsExp (a : Rat) (e : Int) : Prop := pow10 e ≤ a ∧ a < pow10 (e + 1)

theorem findExp_spec (a : Rat) (e0 : Int) (h : IsExp a e0) (fuel : Nat) (e : Int)
    (hd : (e0 - e).natAbs ≤ fuel) : findExp a fuel e = e0 := by
  induction fuel generalizing e with
  | zero =>
    have : e = e0 := by omega
    subst this; rfl
  | succ n ih =>
    unfold findExp
    by_cases h1 : a < pow10 e
    · simp only [h1, if_true]
      have : e0 < e := by
        by_contra hc
        have := pow10_le (not_lt.1 hc)
        exact absurd (lt_of_lt_of_le h1 (le_trans this h.1)) (lt_irrefl _)
      exact ih (e - 1) (by omega)
    · simp only [h1, if_false]
      by_cases h2 : pow10 (e + 1) ≤ a
      · simp only [h2, if_true]
        have : e < e0 := by
          by_contra hc
          have := pow10_le (show e0 + 1 ≤ e + 1 by omega)
          exact absurd (lt_of_lt_of_le h.2 (le_trans this h2)) (lt_irrefl _)
        exact ih (e + 1) (by omega)
      · simp only [h2, if_false]
        by_contra hne
        rcases lt_or_gt_of_ne hne with hlt | hgt
        · have := pow10_le (show e + 1 ≤ e0 by omega)
          exact h2 (le_trans this h.1)
        · have := pow10_le (show e0 + 1 ≤ e by omega)
          exact h1 (lt_of_lt_of_le h.2 this)

theorem roundHalfEven_int (n : Int) : roundHalfEven (n : Rat) = n := by
  unfold roundHalfEven
  simp

theorem roundHalfEven_near (y : Rat) : |(roundHalfEven y : Rat) - y| ≤ 1 / 2 := by
  unfold roundHalfEven
  have h1 := Int.floor_le y
  have h2 := Int.lt_floor_add_one y
  have hf : (y.floor : Rat) = (⌊y⌋ : Rat) := rfl
  simp only
  split
  · rename_i h
    rw [abs_le]; constructor <;> linarith [hf]
  · split
    · rename_i h h'
      push_cast
      rw [abs_le]; constructor <;> linarith [hf]
    · rename_i h h'
      have : y - y.floor = 1 / 2 := le_antisymm (not_lt.1 h') (not_lt.1 h)
      split
      · rw [abs_le]; constructor <;> linarith [hf]
      · push_cast
        rw [abs_le]; constructor <;> linarith [hf]

theorem roundHalfEven_mono_lo (y : Rat) (n : Int) (h : (n : Rat) ≤ y) : n ≤ roundHalfEven y := by
  have hfl : n ≤ y.floor := Int.le_floor.2 h
  unfold roundHalfEven
  simp only
  split
  · exact hfl
  · split
    · omega
    · split <;> omega

theorem roundHalfEven_mono_hi (y : Rat) (n : Int) (h : y < (n : Rat)) : roundHalfEven y ≤ n := by
  have hfl : y.floor < n := Int.floor_lt.2 h
  unfold roundHalfEven
  simp only
  split
  · omega
  · split
    · omega
    · split <;> omega


/-- the positive branch of `fmt6e` -/
def fmtPos (a : Rat) : Rat :=
  (roundHalfEven (a / pow10 (findExp a 1000 0 - 6)) : Rat) * pow10 (findExp a 1000 0 - 6)

theorem fmt6e_eq (x : Rat) : fmt6e x = if x = 0 then 0 else if x < 0 then -fmtPos (-x) else fmtPos x := by
  unfold fmt6e fmtPos
  by_cases h0 : x = 0
  · simp [h0]
  · by_cases h1 : x < 0 <;> simp [h0, h1]

theorem fmtPos_of_exp (a : Rat) (e : Int) (he : IsExp a e) (hb : e.natAbs ≤ 1000) :
    fmtPos a = (roundHalfEven (a / pow10 (e - 6)) : Rat) * pow10 (e - 6) := by
  unfold fmtPos
  rw [findExp_spec a e he 1000 0 (by omega)]

theorem pow10_six : pow10 6 = 1000000 := by rw [pow10_eq_zpow]; norm_num
theorem pow10_seven : pow10 7 = 10000000 := by rw [pow10_eq_zpow]; norm_num
theorem pow10_one : pow10 1 = 10 := by rw [pow10_eq_zpow]; norm_num

theorem exists_exp (a : Rat) (ha : 0 < a) (hlo : pow10 (-1000) ≤ a) (hhi : a < pow10 1000) :
    ∃ e : Int, IsExp a e ∧ -1000 ≤ e ∧ e ≤ 999 := by
  obtain ⟨e, h1, h2⟩ := exists_mem_Ico_zpow (y := (10 : Rat)) ha (by norm_num)
  rw [← pow10_eq_zpow] at h1 h2
  refine ⟨e, ⟨h1, h2⟩, ?_, ?_⟩
  · by_contra hc
    have := pow10_le (show e + 1 ≤ -1000 by omega)
    exact absurd (lt_of_lt_of_le h2 (le_trans this hlo)) (lt_irrefl _)
  · by_contra hc
    have := pow10_le (show (1000 : Int) ≤ e by omega)
    exact absurd (lt_of_lt_of_le hhi (le_trans this h1)) (lt_irrefl _)

theorem fmtPos_props (a : Rat) (ha : 0 < a) (hlo : pow10 (-1000) ≤ a) (hhi : a < pow10 1000) :
    0 < fmtPos a ∧ fmtPos (fmtPos a) = fmtPos a ∧ |fmtPos a - a| ≤ a * (1 / 2000000) := by
  obtain ⟨e, he, hel, heh⟩ := exists_exp a ha hlo hhi
  have hP : 0 < pow10 (e - 6) := pow10_pos _
  have hPne : pow10 (e - 6) ≠ 0 := ne_of_gt hP
  have hE : pow10 e = pow10 (e - 6) * 1000000 := by
    rw [← pow10_six, ← pow10_add]; congr 1; omega
  have hE1 : pow10 (e + 1) = pow10 (e - 6) * 10000000 := by
    rw [← pow10_seven, ← pow10_add]; congr 1; omega
  have hy1 : (1000000 : Rat) ≤ a / pow10 (e - 6) := by
    rw [le_div_iff₀ hP]; have := he.1; rw [hE] at this; linarith
  have hy2 : a / pow10 (e - 6) < 10000000 := by
    rw [div_lt_iff₀ hP]; have := he.2; rw [hE1] at this; linarith
  have hm1 : (1000000 : Int) ≤ roundHalfEven (a / pow10 (e - 6)) :=
    roundHalfEven_mono_lo _ 1000000 (by exact_mod_cast hy1)
  have hm2 : roundHalfEven (a / pow10 (e - 6)) ≤ (10000000 : Int) :=
    roundHalfEven_mono_hi _ 10000000 (by exact_mod_cast hy2)
  rw [fmtPos_of_exp a e he (by omega)]
  generalize hm : roundHalfEven (a / pow10 (e - 6)) = m at *
  have hmq1 : (1000000 : Rat) ≤ (m : Rat) := by exact_mod_cast hm1
  have hmq2 : (m : Rat) ≤ 10000000 := by exact_mod_cast hm2
  have hvpos : 0 < (m : Rat) * pow10 (e - 6) := by
    apply mul_pos _ hP; linarith
  refine ⟨hvpos, ?_, ?_⟩
  · by_cases hcase : m < 10000000
    · have hmq3 : (m : Rat) < 10000000 := by exact_mod_cast hcase
      have hv : IsExp ((m : Rat) * pow10 (e - 6)) e := by
        constructor
        · rw [hE]; nlinarith
        · rw [hE1]; nlinarith
      rw [fmtPos_of_exp _ e hv (by omega), mul_div_assoc, div_self hPne, mul_one, roundHalfEven_int]
    · have hmeq : m = 10000000 := by omega
      subst hmeq
      have hv : IsExp (((10000000 : Int) : Rat) * pow10 (e - 6)) (e + 1) := by
        constructor
        · rw [hE1]; push_cast; linarith
        · have : pow10 (e + 1 + 1) = pow10 (e - 6) * 100000000 := by
            have h8 : pow10 8 = 100000000 := by rw [pow10_eq_zpow]; norm_num
            rw [← h8, ← pow10_add]; congr 1; omega
          rw [this]; push_cast; nlinarith
      have hP5 : pow10 (e + 1 - 6) = pow10 (e - 6) * 10 := by
        rw [← pow10_one, ← pow10_add]; congr 1; omega
      rw [fmtPos_of_exp _ (e + 1) hv (by omega), hP5]
      have : ((10000000 : Int) : Rat) * pow10 (e - 6) / (pow10 (e - 6) * 10) = ((1000000 : Int) : Rat) := by
        push_cast; field_simp; norm_num
      rw [this, roundHalfEven_int]
      push_cast; ring
  · have hnear := roundHalfEven_near (a / pow10 (e - 6))
    rw [hm] at hnear
    have h1 : (m : Rat) * pow10 (e - 6) - a = ((m : Rat) - a / pow10 (e - 6)) * pow10 (e - 6) := by
      field_simp
    rw [h1, abs_mul, abs_of_pos hP]
    have h2 : pow10 (e - 6) ≤ a * (1 / 1000000) := by
      have := he.1; rw [hE] at this; linarith
    calc |(m : Rat) - a / pow10 (e - 6)| * pow10 (e - 6) ≤ 1 / 2 * pow10 (e - 6) :=
          mul_le_mul_of_nonneg_right hnear (le_of_lt hP)
      _ ≤ a * (1 / 2000000) := by linarith


/-! ### `_sum_track_signal`: the slice as a sum over pixel positions -/

/-- the elements at positions `a ≤ p < b`, summed position by position -/
def windowSum (l : List Int) (a b : Nat) : Int :=
  (((List.range l.length).filter (fun p => decide (a ≤ p ∧ p < b))).map (fun p => (l[p]?).getD 0)).sum

theorem windowSum_cons (x : Int) (xs : List Int) (a b : Nat) :
    windowSum (x :: xs) a b = (if a = 0 ∧ 0 < b then x else 0) + windowSum xs (a - 1) (b - 1) + 0 := by
  unfold windowSum
  rw [List.length_cons, List.range_succ_eq_map, List.filter_cons, List.filter_map]
  have hg : ∀ l : List Nat, (l.map Nat.succ).map (fun p => ((x :: xs)[p]?).getD 0) = l.map fun p => (xs[p]?).getD 0 := by
    intro l; rw [List.map_map]; apply List.map_congr_left; intro p _; simp
  have hf : (List.range xs.length).filter ((fun p => decide (a ≤ p ∧ p < b)) ∘ Nat.succ)
      = (List.range xs.length).filter (fun p => decide (a - 1 ≤ p ∧ p < b - 1)) := by
    apply List.filter_congr
    intro p _
    simp only [Function.comp, decide_eq_decide]
    omega
  rw [hf]
  have hg' : ((fun p => ((x :: xs)[p]?).getD 0) ∘ Nat.succ) = fun p => (xs[p]?).getD 0 := by
    funext p; simp
  by_cases h : a = 0 ∧ 0 < b
  · have : decide (a ≤ 0 ∧ 0 < b) = true := by simp; omega
    simp only [this]
    simp [h, hg']
  · have : decide (a ≤ 0 ∧ 0 < b) = false := by simp; omega
    simp only [this]
    simp [h, hg']

theorem sum_take_drop (l : List Int) (a b : Nat) : ((l.take b).drop a).sum = windowSum l a b := by
  induction l generalizing a b with
  | nil => simp [windowSum]
  | cons x xs ih =>
    rw [windowSum_cons]
    cases b with
    | zero => simp [windowSum]
    | succ b =>
      cases a with
      | zero => simp [← ih]
      | succ a => simp [← ih]


/-! ### centroid refinement: convolutions as window moments, centre of mass -/
section Centroid
open Finset

theorem list_range_sum (n : Nat) (f : Nat → Rat) : ((List.range n).map f).sum = ∑ i ∈ range n, f i := by
  induction n with
  | zero => simp
  | succ n ih => rw [List.range_succ, List.map_append, List.sum_append, ih, Finset.sum_range_succ]; simp

theorem dirKernel_get (h i : Nat) (hi : i < 2 * h + 1) : ((dirKernel h)[i]?).getD 0 = (((h : Int) - (i : Int) : Int) : Rat) := by
  unfold dirKernel
  simp [hi]

theorem meanKernel_get (h i : Nat) (hi : i < 2 * h + 1) : ((meanKernel h)[i]?).getD 0 = 1 := by
  unfold meanKernel
  simp [hi]

/-- zeroth window moment: the `ones` convolution is the sum of the `2h+1` pixels around `p` -/
theorem conv_mean (line : List Rat) (h : Nat) (p : Int) :
    convSame line (meanKernel h) h p = ∑ j ∈ range (2 * h + 1), dAt line (p - h + j) := by
  unfold convSame
  rw [list_range_sum]
  have hl : (meanKernel h).length = 2 * h + 1 := by simp [meanKernel]
  rw [hl, ← Finset.sum_range_reflect]
  apply Finset.sum_congr rfl
  intro j hj
  have hj' : j < 2 * h + 1 := Finset.mem_range.1 hj
  rw [meanKernel_get h _ (by omega), one_mul]
  congr 1
  omega

/-- first window moment: the `[h … −h]` convolution is `Σ (q − p)·data[q]` over the same pixels -/
theorem conv_dir (line : List Rat) (h : Nat) (p : Int) :
    convSame line (dirKernel h) h p = ∑ j ∈ range (2 * h + 1), (((j : Int) - h : Int) : Rat) * dAt line (p - h + j) := by
  unfold convSame
  rw [list_range_sum]
  have hl : (dirKernel h).length = 2 * h + 1 := by simp [dirKernel]
  rw [hl, ← Finset.sum_range_reflect]
  apply Finset.sum_congr rfl
  intro j hj
  have hj' : j < 2 * h + 1 := Finset.mem_range.1 hj
  rw [dirKernel_get h _ (by omega)]
  congr 2
  · omega
  · omega


/-- pixel `q` of the line as a total function on `Nat` -/
def pix (line : List Rat) (q : Nat) : Rat := (line[q]?).getD 0

theorem dAt_nat (line : List Rat) (q : Nat) : dAt line (q : Int) = pix line q := by
  unfold dAt pix
  have : ¬ ((q : Int) < 0) := by omega
  simp [this]

theorem dAt_out (line : List Rat) (z : Int) (h : z < 0 ∨ (line.length : Int) ≤ z) : dAt line z = 0 := by
  unfold dAt
  rcases h with h | h
  · simp [h]
  · have h0 : ¬ z < 0 := by omega
    have : line.length ≤ z.toNat := by omega
    simp [h0, List.getElem?_eq_none this]

/-- a window sum with zero padding = the sum over the pixels of the line that lie in the window -/
theorem window_sum_eq (line : List Rat) (F : Int → Rat) (a : Int) (m : Nat) :
    ∑ j ∈ range m, F (a + j) * dAt line (a + j)
      = ∑ q ∈ range line.length, if a ≤ (q : Int) ∧ (q : Int) < a + m then F q * pix line q else 0 := by
  induction m with
  | zero =>
    rw [Finset.sum_range_zero]
    symm
    apply Finset.sum_eq_zero
    intro q _
    have : ¬ (a ≤ (q : Int) ∧ (q : Int) < a + ((0 : Nat) : Int)) := by omega
    rw [if_neg this]
  | succ m ih =>
    rw [Finset.sum_range_succ, ih]
    have hsplit : ∀ q : Nat, (if a ≤ (q : Int) ∧ (q : Int) < a + ((m + 1 : Nat) : Int) then F q * pix line q else 0)
        = (if a ≤ (q : Int) ∧ (q : Int) < a + (m : Int) then F q * pix line q else 0)
          + (if (q : Int) = a + m then F q * pix line q else 0) := by
      intro q
      by_cases h1 : a ≤ (q : Int) ∧ (q : Int) < a + (m : Int)
      · have h2 : a ≤ (q : Int) ∧ (q : Int) < a + ((m + 1 : Nat) : Int) := by omega
        have h3 : ¬ (q : Int) = a + m := by omega
        rw [if_pos h2, if_pos h1, if_neg h3, add_zero]
      · by_cases h3 : (q : Int) = a + m
        · have h2 : a ≤ (q : Int) ∧ (q : Int) < a + ((m + 1 : Nat) : Int) := by omega
          rw [if_pos h2, if_neg h1, if_pos h3, zero_add]
        · have h2 : ¬ (a ≤ (q : Int) ∧ (q : Int) < a + ((m + 1 : Nat) : Int)) := by omega
          rw [if_neg h2, if_neg h1, if_neg h3, add_zero]
    rw [Finset.sum_congr rfl (fun q _ => hsplit q), Finset.sum_add_distrib]
    congr 1
    by_cases hin : 0 ≤ a + (m : Int) ∧ a + (m : Int) < line.length
    · obtain ⟨q0, hq0⟩ : ∃ q0 : Nat, a + (m : Int) = q0 := ⟨(a + (m : Int)).toNat, by omega⟩
      rw [hq0, dAt_nat]
      have : ∀ q : Nat, (if (q : Int) = (q0 : Int) then F q * pix line q else 0) = if q = q0 then F q * pix line q else 0 := by
        intro q
        by_cases h : q = q0
        · simp [h]
        · have : ¬ (q : Int) = (q0 : Int) := by omega
          simp [h, this]
      rw [Finset.sum_congr rfl (fun q _ => this q), Finset.sum_ite_eq']
      have : q0 ∈ range line.length := Finset.mem_range.2 (by omega)
      simp [this]
    · rw [dAt_out line _ (by omega), mul_zero]
      symm
      apply Finset.sum_eq_zero
      intro q hq
      have hq' : q < line.length := Finset.mem_range.1 hq
      have : ¬ (q : Int) = a + m := by omega
      simp [this]

/-- total counts and first moment of a scan line -/
def lineMass (line : List Rat) : Rat := ((List.range line.length).map fun q => pix line q).sum
def lineMoment (line : List Rat) : Rat := ((List.range line.length).map fun (q : Nat) => (q : Rat) * pix line q).sum

/-- every non-zero pixel of the line lies within `h` pixels of `p` -/
def SpotInWindow (line : List Rat) (h : Nat) (p : Int) : Prop :=
  ∀ q : Nat, q < line.length → pix line q ≠ 0 → p - h ≤ (q : Int) ∧ (q : Int) ≤ p + h

theorem window_all (line : List Rat) (F : Int → Rat) (h : Nat) (p : Int) (hs : SpotInWindow line h p) :
    ∑ j ∈ range (2 * h + 1), F (p - h + j) * dAt line (p - h + j) = ∑ q ∈ range line.length, F q * pix line q := by
  rw [window_sum_eq]
  apply Finset.sum_congr rfl
  intro q hq
  have hq' : q < line.length := Finset.mem_range.1 hq
  by_cases h0 : pix line q = 0
  · rw [h0]; simp
  · have := hs q hq' h0
    have h1 : p - (h : Int) ≤ (q : Int) ∧ (q : Int) < p - (h : Int) + ((2 * h + 1 : Nat) : Int) := by
      push_cast; omega
    rw [if_pos h1]

/-- **centroid estimate of a spot that lies inside the window**: pixel + offset is the centre of mass of
    the scan line, pulled towards the pixel centre by the regularisation `eps` -/
theorem centroid_value (eps : Rat) (line : List Rat) (h : Nat) (p : Int) (hs : SpotInWindow line h p)
    (hM : lineMass line + eps ≠ 0) :
    (p : Rat) + subpixelOffset eps line h p = (lineMoment line + (p : Rat) * eps) / (lineMass line + eps) := by
  unfold subpixelOffset
  rw [conv_mean, conv_dir]
  have hm0 : ∑ j ∈ range (2 * h + 1), dAt line (p - h + j) = lineMass line := by
    have := window_all line (fun _ => 1) h p hs
    simp only [one_mul] at this
    rw [this, lineMass, list_range_sum]
  have hm1 : ∑ j ∈ range (2 * h + 1), (((j : Int) - h : Int) : Rat) * dAt line (p - h + j)
      = lineMoment line - (p : Rat) * lineMass line := by
    have := window_all line (fun z => ((z - p : Int) : Rat)) h p hs
    have e : ∀ j : Nat, (((p - (h : Int) + (j : Int)) - p : Int) : Rat) = (((j : Int) - h : Int) : Rat) := by
      intro j; congr 1; omega
    simp only [e] at this
    rw [this, lineMoment, lineMass, list_range_sum, list_range_sum, Finset.mul_sum, ← Finset.sum_sub_distrib]
    apply Finset.sum_congr rfl
    intro q _
    push_cast
    ring
  rw [hm0, hm1]
  field_simp
  ring


theorem settle_stable (eps : Rat) (line : List Rat) (h : Nat) (fuel : Nat) (c c' : Int)
    (hs : settle eps line h fuel c = some c') : stepCoord eps line h c' = c' := by
  induction fuel generalizing c with
  | zero =>
    unfold settle at hs
    split at hs
    · injection hs with hs; subst hs; assumption
    · cases hs
  | succ n ih =>
    unfold settle at hs
    split at hs
    · injection hs with hs; subst hs; assumption
    · exact ih _ hs

/-- the centre of mass of a non-negative spot inside the window is within `h` pixels of the pixel -/
theorem com_near (line : List Rat) (h : Nat) (p : Int) (hs : SpotInWindow line h p)
    (hpos : ∀ q, 0 ≤ pix line q) :
    |(p : Rat) * lineMass line - lineMoment line| ≤ (h : Rat) * lineMass line := by
  unfold lineMass lineMoment
  rw [list_range_sum, list_range_sum, Finset.mul_sum, Finset.mul_sum, ← Finset.sum_sub_distrib, abs_le]
  have key : ∀ q ∈ range line.length, -((h : Rat) * pix line q) ≤ (p : Rat) * pix line q - (q : Rat) * pix line q ∧
      (p : Rat) * pix line q - (q : Rat) * pix line q ≤ (h : Rat) * pix line q := by
    intro q hq
    have hq' : q < line.length := Finset.mem_range.1 hq
    by_cases h0 : pix line q = 0
    · rw [h0]; simp
    · have hb := hs q hq' h0
      have h1 : ((p : Rat) - (q : Rat)) ≤ (h : Rat) := by
        have : p - (q : Int) ≤ (h : Int) := by omega
        exact_mod_cast this
      have h2 : -(h : Rat) ≤ ((p : Rat) - (q : Rat)) := by
        have : -(h : Int) ≤ p - (q : Int) := by omega
        exact_mod_cast this
      have hw := hpos q
      constructor <;> nlinarith
  constructor
  · rw [← Finset.sum_neg_distrib]
    exact Finset.sum_le_sum fun q hq => (key q hq).1
  · exact Finset.sum_le_sum fun q hq => (key q hq).2


end Centroid

end Verif.C17
