/-
  C20 (deepening round D) — helper lemmas for the Stimson–Jeffery model (`coupling_correction_factor_stimson`):
  the exp/log hyperbolic functions at `ℝ`, the bispherical coordinates, the behaviour of the summands and of the
  summation loop when the two beads exchange their labels.
-/
import Verif.Lemmas.C20
import Mathlib.Analysis.SpecialFunctions.Trigonometric.DerivHyp
import Mathlib.Algebra.BigOperators.Intervals

set_option linter.unusedSimpArgs false

namespace Verif.C20
open Verif

/-! ### hyperbolic functions -/

theorem sinhE_neg (x : ℝ) : sinhE (-x) = -sinhE x := by
  have e2 : (2.0:ℝ) = 2 := by norm_num
  simp only [sinhE, neg_neg, e2]; ring

theorem coshE_neg (x : ℝ) : coshE (-x) = coshE x := by
  have e2 : (2.0:ℝ) = 2 := by norm_num
  simp only [coshE, neg_neg, e2]; ring

theorem sinhE_real (x : ℝ) : sinhE x = Real.sinh x := by
  simp only [sinhE, RealLike.exp, Real.sinh_eq]; norm_num

theorem coshE_real (x : ℝ) : coshE x = Real.cosh x := by
  simp only [coshE, RealLike.exp, Real.cosh_eq]; norm_num

/-- `sinh(arccosh x) = √((x−1)(x+1))`, `cosh(arccosh x) = x`, `arccosh x > 0` for `x > 1` -/
theorem arccoshE_spec (x : ℝ) (hx : 1 < x) :
    sinhE (arccoshE x) = Real.sqrt ((x - 1) * (x + 1)) ∧ coshE (arccoshE x) = x ∧ 0 < arccoshE x := by
  have hs : 0 < Real.sqrt ((x - 1) * (x + 1)) := Real.sqrt_pos.mpr (mul_pos (by linarith) (by linarith))
  have hsq : Real.sqrt ((x - 1) * (x + 1)) ^ 2 = (x - 1) * (x + 1) :=
    Real.sq_sqrt (mul_pos (by linarith) (by linarith)).le
  obtain ⟨s, hsdef⟩ : ∃ s : ℝ, s = Real.sqrt ((x - 1) * (x + 1)) := ⟨_, rfl⟩
  rw [← hsdef] at hs hsq
  have hpos : 0 < x + s := by linarith
  have e1 : (1.0 : ℝ) = 1 := by norm_num
  have harg : arccoshE x = Real.log (x + s) := by
    simp only [arccoshE, RealLike.log, RealLike.sqrt, e1, hsdef]
  have hexp : Real.exp (arccoshE x) = x + s := by rw [harg, Real.exp_log hpos]
  have hexpn : Real.exp (-arccoshE x) = x - s := by
    rw [Real.exp_neg, hexp]
    have : (x + s) * (x - s) = 1 := by nlinarith
    field_simp
    linarith
  refine ⟨?_, ?_, ?_⟩
  · simp only [sinhE, RealLike.exp, hexp, hexpn, ← hsdef]; norm_num
  · simp only [coshE, RealLike.exp, hexp, hexpn]; norm_num
  · rw [harg]; exact Real.log_pos (by linarith)

/-! ### `to_curvilinear_coordinates` -/

/-- For two separate spheres the code's `(a, α, β)` are Stimson & Jeffery's bispherical coordinates: `a > 0`,
    `α > 0 > β`, `r₁ = a cosech α`, `r₂ = −a cosech β`, and the centres `a coth α`, `a coth β` are `d` apart. -/
theorem toCurvilinear_spec (r1 r2 d : ℝ) (h1 : 0 < r1) (h2 : 0 < r2) (hd : r1 + r2 < d) :
    ∃ a al be, toCurvilinear r1 r2 d = .ok (a, al, be) ∧ 0 < a ∧ 0 < al ∧ be < 0 ∧
      a / sinhE al = r1 ∧ -a / sinhE be = r2 ∧ a * coshE al / sinhE al - a * coshE be / sinhE be = d := by
  have hd0 : 0 < d := by linarith
  obtain ⟨d1, hd1⟩ : ∃ d1 : ℝ, d1 = (r1 * r1 - r2 * r2 + d * d) / (2 * d) := ⟨_, rfl⟩
  have hd1' : d1 * (2 * d) = r1 * r1 - r2 * r2 + d * d := by rw [hd1]; field_simp
  have hd1r : r1 < d1 := by
    have : 0 < (d1 - r1) * (2 * d) := by
      have e : (d1 - r1) * (2 * d) = (d - r1 - r2) * (d - r1 + r2) := by rw [sub_mul, hd1']; ring
      rw [e]; exact mul_pos (by linarith) (by linarith)
    by_contra hc
    have : (d1 - r1) * (2 * d) ≤ 0 := mul_nonpos_of_nonpos_of_nonneg (by linarith) (by linarith)
    linarith
  have hd2r : r2 < d - d1 := by
    have : 0 < (d - d1 - r2) * (2 * d) := by
      have e : (d - d1 - r2) * (2 * d) = (d - r2 - r1) * (d - r2 + r1) := by
        have : (d - d1 - r2) * (2 * d) = (d - r2) * (2 * d) - d1 * (2 * d) := by ring
        rw [this, hd1']; ring
      rw [e]; exact mul_pos (by linarith) (by linarith)
    by_contra hc
    have : (d - d1 - r2) * (2 * d) ≤ 0 := mul_nonpos_of_nonpos_of_nonneg (by linarith) (by linarith)
    linarith
  obtain ⟨x1, hx1d⟩ : ∃ x : ℝ, x = d1 / r1 := ⟨_, rfl⟩
  obtain ⟨x2, hx2d⟩ : ∃ x : ℝ, x = (d - d1) / r2 := ⟨_, rfl⟩
  have hx1 : 1 < x1 := by rw [hx1d, lt_div_iff₀ h1]; linarith
  have hx2 : 1 < x2 := by rw [hx2d, lt_div_iff₀ h2]; linarith
  obtain ⟨sa, ca, pa⟩ := arccoshE_spec x1 hx1
  obtain ⟨sb, cb, pb⟩ := arccoshE_spec x2 hx2
  obtain ⟨s1, hs1⟩ : ∃ s : ℝ, s = Real.sqrt ((x1 - 1) * (x1 + 1)) := ⟨_, rfl⟩
  obtain ⟨s2, hs2⟩ : ∃ s : ℝ, s = Real.sqrt ((x2 - 1) * (x2 + 1)) := ⟨_, rfl⟩
  rw [← hs1] at sa
  rw [← hs2] at sb
  have hs1p : 0 < s1 := by rw [hs1]; exact Real.sqrt_pos.mpr (mul_pos (by linarith) (by linarith))
  have hs2p : 0 < s2 := by rw [hs2]; exact Real.sqrt_pos.mpr (mul_pos (by linarith) (by linarith))
  have hs1q : s1 ^ 2 = (x1 - 1) * (x1 + 1) := by rw [hs1]; exact Real.sq_sqrt (mul_pos (by linarith) (by linarith)).le
  have hs2q : s2 ^ 2 = (x2 - 1) * (x2 + 1) := by rw [hs2]; exact Real.sq_sqrt (mul_pos (by linarith) (by linarith)).le
  have hr1x : r1 * x1 = d1 := by rw [hx1d]; field_simp
  have hr2x : r2 * x2 = d - d1 := by rw [hx2d]; field_simp
  -- the radical plane: d1² − r1² = d2² − r2², i.e. r1 s1 = r2 s2 (= a)
  have key : r1 * s1 = r2 * s2 := by
    have hsq : (r1 * s1) ^ 2 = (r2 * s2) ^ 2 := by
      have e1 : (r1 * s1) ^ 2 = (r1 * x1) ^ 2 - r1 ^ 2 := by rw [mul_pow, hs1q]; ring
      have e2 : (r2 * s2) ^ 2 = (r2 * x2) ^ 2 - r2 ^ 2 := by rw [mul_pow, hs2q]; ring
      rw [e1, e2, hr1x, hr2x]
      nlinarith [hd1']
    exact (sq_eq_sq₀ (by positivity) (by positivity)).mp hsq
  have hbe : sinhE (-(arccoshE x2)) = -s2 := by rw [sinhE_neg, sb]
  have hcbe : coshE (-(arccoshE x2)) = x2 := by rw [coshE_neg, cb]
  obtain ⟨Dn, hDn⟩ : ∃ D : ℝ, D = x1 / s1 + x2 / s2 := ⟨_, rfl⟩
  have hDnp : 0 < Dn := by rw [hDn]; positivity
  -- d = a · Dn with a = r1 s1
  have hdD : d = r1 * s1 * Dn := by
    have : r1 * s1 * Dn = r1 * x1 + (r1 * s1) * x2 / s2 := by rw [hDn]; field_simp
    rw [this, key, hr1x]
    have : r2 * s2 * x2 / s2 = r2 * x2 := by field_simp
    rw [this, hr2x]; ring
  have ha : d / Dn = r1 * s1 := by rw [hdD]; field_simp
  refine ⟨d / Dn, arccoshE x1, -(arccoshE x2), ?_, ?_, pa, by linarith, ?_, ?_, ?_⟩
  · have hlt : ¬ d < r1 + r2 := by linarith
    have e2 : (2.0 : ℝ) = 2 := by norm_num
    simp only [toCurvilinear, RealLike.lt, decide_eq_true_eq, hlt, if_false, e2, ← hd1, ← hx1d, ← hx2d, sa, hbe]
    have : x1 / s1 - x2 / -s2 = Dn := by rw [hDn, div_neg]; ring
    rw [this]
  · rw [ha]; positivity
  · rw [sa, ha]; field_simp
  · rw [hbe, ha, key]; field_simp
  · rw [sa, ca, hbe, hcbe, ha]
    have : r1 * s1 * x1 / s1 - r1 * s1 * x2 / -s2 = r1 * s1 * Dn := by rw [hDn, div_neg]; field_simp; ring
    rw [this, ← hdD]

/-! ### exchanging the labels of the two beads -/

/-- relabelling the beads reflects the coordinates: `(a, α, β) ↦ (a, −β, −α)` — for ALL real arguments -/
theorem toCurvilinear_swap (r1 r2 d : ℝ) :
    toCurvilinear r2 r1 d = (toCurvilinear r1 r2 d).map (fun t => (t.1, -t.2.2, -t.2.1)) := by
  have e2 : (2.0 : ℝ) = 2 := by norm_num
  simp only [toCurvilinear, RealLike.lt, e2]
  have hc : (r2 + r1) = (r1 + r2) := add_comm _ _
  rw [hc]
  by_cases hlt : d < r1 + r2
  · simp [hlt]; rfl
  · simp only [hlt, decide_false, Bool.false_eq_true, if_false]
    -- d1' = d − d1 (also for d = 0, where every quotient is 0), hence d2' = d1
    have hd1 : (r2 * r2 - r1 * r1 + d * d) / (2 * d) = d - (r1 * r1 - r2 * r2 + d * d) / (2 * d) := by
      by_cases h0 : d = 0
      · subst h0; simp
      · field_simp; ring
    rw [hd1]
    have hd2 : d - (d - (r1 * r1 - r2 * r2 + d * d) / (2 * d)) = (r1 * r1 - r2 * r2 + d * d) / (2 * d) := by ring
    rw [hd2]
    simp only [Except.map, sinhE_neg, neg_neg, div_neg]
    congr 2
    ring

theorem lit1 : (1.0:ℝ) = 1 := by norm_num
theorem lit2 : (2.0:ℝ) = 2 := by norm_num
theorem lit3 : (3.0:ℝ) = 3 := by norm_num
theorem lit4 : (4.0:ℝ) = 4 := by norm_num
theorem lit05 : (0.5:ℝ) = 1 / 2 := by norm_num
theorem lit15 : (1.5:ℝ) = 3 / 2 := by norm_num
theorem lit0 : (0.0:ℝ) = 0 := by norm_num

theorem stimsonAn_neg (n k m p delta : ℝ) : stimsonAn n k m (-p) delta = stimsonAn n k m p delta := by
  simp only [stimsonAn, mul_neg, coshE_neg]
theorem stimsonCn_neg (n k m p delta : ℝ) : stimsonCn n k m (-p) delta = stimsonCn n k m p delta := by
  simp only [stimsonCn, mul_neg, coshE_neg]
theorem stimsonBn_neg (n k m p delta : ℝ) : stimsonBn n k m (-p) delta = -stimsonBn n k m p delta := by
  simp only [stimsonBn, mul_neg, sinhE_neg, lit1, lit2, lit3, lit4, lit05, lit15]; ring
theorem stimsonDn_neg (n k m p delta : ℝ) : stimsonDn n k m (-p) delta = -stimsonDn n k m p delta := by
  simp only [stimsonDn, mul_neg, sinhE_neg, lit1, lit2, lit3, lit4, lit05, lit15]; ring

/-- `α + β ↦ −(α + β)` exchanges the two summands -/
theorem stimsonTerm_neg (a m p : ℝ) (n : ℕ) : stimsonTerm a m (-p) n = (stimsonTerm a m p n).swap := by
  simp only [stimsonTerm, stimsonAn_neg, stimsonCn_neg, stimsonBn_neg, stimsonDn_neg]
  split
  · simp only [Prod.swap_prod_mk, Prod.mk.injEq, lit1, lit2]
    constructor <;> ring
  · simp only [Prod.swap_prod_mk]

/-- … and so the two running sums, with the same stopping index (the stopping rule asks BOTH summands to be small) -/
theorem stimsonLoop_neg (a m p tol1 tol2 : ℝ) (fuel n : ℕ) (c1 c2 : ℝ) :
    stimsonLoop a m (-p) tol2 tol1 fuel n c2 c1 = (stimsonLoop a m p tol1 tol2 fuel n c1 c2).swap := by
  induction fuel generalizing n c1 c2 with
  | zero => simp [stimsonLoop]
  | succ k ih =>
    simp only [stimsonLoop, stimsonTerm_neg, Prod.fst_swap, Prod.snd_swap]
    rw [Bool.and_comm]
    split
    · simp only [Prod.swap_prod_mk]
    · exact ih _ _ _

/-- `coupling_correction_factor_stimson(r2, r1, d)` is `coupling_correction_factor_stimson(r1, r2, d)` with the two
    factors exchanged — exactly, for all arguments and every `max_summands` -/
theorem stimson_swap (r1 r2 d : ℝ) (N : ℕ) :
    stimson r2 r1 d N = (stimson r1 r2 d N).map Prod.swap := by
  simp only [stimson, toCurvilinear_swap r1 r2 d]
  cases h : toCurvilinear r1 r2 d with
  | error e => simp [Except.map]
  | ok t =>
    obtain ⟨a, al, be⟩ := t
    simp only [Except.map]
    have hm : -be - -al = al - be := by ring
    have hp : -be + -al = -(al + be) := by ring
    rw [hm, hp, stimsonLoop_neg]
    simp only [Prod.fst_swap, Prod.snd_swap, Prod.swap_prod_mk]

/-! ### the summation loop is the series truncated at the first summand that is small for both beads -/

theorem stimsonLoop_spec (a m p tol1 tol2 : ℝ) (fuel n : ℕ) (c1 c2 : ℝ) :
    ∃ k, k ≤ fuel ∧
      stimsonLoop a m p tol1 tol2 fuel n c1 c2 =
        (c1 + ∑ i ∈ Finset.range k, (stimsonTerm a m p (n + i)).1,
         c2 + ∑ i ∈ Finset.range k, (stimsonTerm a m p (n + i)).2) ∧
      (∀ i, i + 1 < k →
        ¬ (|(stimsonTerm a m p (n + i)).1| < tol1 ∧ |(stimsonTerm a m p (n + i)).2| < tol2)) ∧
      (k < fuel → 0 < k ∧ |(stimsonTerm a m p (n + (k - 1))).1| < tol1 ∧
        |(stimsonTerm a m p (n + (k - 1))).2| < tol2) := by
  induction fuel generalizing n c1 c2 with
  | zero => exact ⟨0, le_refl _, by simp [stimsonLoop], by intro i hi; omega, by intro h; omega⟩
  | succ f ih =>
    by_cases hs : |(stimsonTerm a m p n).1| < tol1 ∧ |(stimsonTerm a m p n).2| < tol2
    · refine ⟨1, by omega, ?_, by intro i hi; omega, ?_⟩
      · simp [stimsonLoop, RealLike.lt, RealLike.abs, hs.1, hs.2]
      · intro _; exact ⟨by omega, by simpa using hs.1, by simpa using hs.2⟩
    · obtain ⟨k, hk, heq, hno, hlast⟩ := ih (n + 1) (c1 + (stimsonTerm a m p n).1) (c2 + (stimsonTerm a m p n).2)
      refine ⟨k + 1, by omega, ?_, ?_, ?_⟩
      · have hcond : (RealLike.lt (RealLike.abs (stimsonTerm a m p n).1) tol1 &&
            RealLike.lt (RealLike.abs (stimsonTerm a m p n).2) tol2) = false := by
          simp only [RealLike.lt, RealLike.abs, Bool.and_eq_false_iff, decide_eq_false_iff_not]
          by_cases h1 : |(stimsonTerm a m p n).1| < tol1
          · right; exact fun h2 => hs ⟨h1, h2⟩
          · left; exact h1
        rw [stimsonLoop]
        simp only [hcond, Bool.false_eq_true, if_false]
        rw [heq, Finset.sum_range_succ', Finset.sum_range_succ']
        simp only [Nat.add_zero, Prod.mk.injEq]
        constructor
        · have : ∀ i, n + 1 + i = n + (i + 1) := by intro i; omega
          simp only [this]; ring
        · have : ∀ i, n + 1 + i = n + (i + 1) := by intro i; omega
          simp only [this]; ring
      · intro i hi
        cases i with
        | zero => simpa using hs
        | succ j =>
          have := hno j (by omega)
          have e : n + 1 + j = n + (j + 1) := by omega
          rwa [e] at this
      · intro hlt
        obtain ⟨hk0, h1, h2⟩ := hlast (by omega)
        have e : n + 1 + (k - 1) = n + (k + 1 - 1) := by omega
        rw [e] at h1 h2
        exact ⟨by omega, h1, h2⟩

end Verif.C20
