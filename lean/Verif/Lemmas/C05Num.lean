/-
  Helper lemmas for C05 that need ordered-field reasoning over `Rat` (single Mathlib modules): the exact
  double-rounding function `flDouble` meets the standard model of floating-point arithmetic, and two correctly
  rounded divisions followed by round-half-even give the sample period back.
-/
import Verif.Model.C05
import Mathlib.Tactic.Ring
import Mathlib.Tactic.FieldSimp
import Mathlib.Tactic.Linarith
import Mathlib.Tactic.Positivity
import Mathlib.Algebra.Order.Field.Rat
import Mathlib.Algebra.Order.Field.Power

namespace Verif.C05


theorem floor_eq_of_bounds (q : Rat) (n : Int) (h1 : (n : Rat) ≤ q) (h2 : q < (n : Rat) + 1) : q.floor = n := by
  have a : n ≤ q.floor := Rat.le_floor_iff.mpr h1
  have b : ¬ (n + 1 ≤ q.floor) := by
    intro h
    have := Rat.le_floor_iff.mp h
    push_cast at this
    linarith
  omega

theorem roundHalfEven_of_near (q : Rat) (n : Int) (h1 : (n : Rat) - 1 / 2 < q) (h2 : q < (n : Rat) + 1 / 2) :
    roundHalfEven q = n := by
  unfold roundHalfEven
  by_cases hq : (n : Rat) ≤ q
  · have hf : q.floor = n := floor_eq_of_bounds q n hq (by linarith)
    simp only [hf]
    rw [if_pos (by linarith)]
  · have hf : q.floor = n - 1 := floor_eq_of_bounds q (n - 1) (by push_cast; linarith) (by push_cast; linarith)
    simp only [hf]
    push_cast
    rw [if_neg (by linarith), if_pos (by linarith)]
    omega

theorem round_trip_near (fl : Rat → Rat) (hfl : StdModel fl) (dt : Int) (h1 : 1 ≤ dt) (h2 : dt ≤ 2 ^ 50) :
    (dt : Rat) - 1 / 2 < fl (1000000000 / fl (1000000000 / (dt : Rat))) ∧
    fl (1000000000 / fl (1000000000 / (dt : Rat))) < (dt : Rat) + 1 / 2 := by
  have hD1 : (1 : Rat) ≤ (dt : Rat) := by exact_mod_cast h1
  have hD2 : (dt : Rat) ≤ 1125899906842624 := by
    have : (dt : Rat) ≤ ((2 ^ 50 : Int) : Rat) := by exact_mod_cast h2
    norm_num at this; exact this
  generalize (dt : Rat) = D at *
  have hD0 : 0 < D := by linarith
  have hx1 : 0 < 1000000000 / D := by positivity
  obtain ⟨ra, rb⟩ := hfl _ hx1
  generalize fl (1000000000 / D) = r at *
  -- r * D within K (1 ± u)
  have hxD : 1000000000 / D * D = 1000000000 := by field_simp
  have ra' : 1000000000 - 1000000000 / 9007199254740992 ≤ r * D := by
    have := mul_le_mul_of_nonneg_right ra hD0.le
    have e : (1000000000 / D - 1000000000 / D / 9007199254740992) * D = 1000000000 - 1000000000 / 9007199254740992 := by
      field_simp
    linarith
  have rb' : r * D ≤ 1000000000 + 1000000000 / 9007199254740992 := by
    have := mul_le_mul_of_nonneg_right rb hD0.le
    have e : (1000000000 / D + 1000000000 / D / 9007199254740992) * D = 1000000000 + 1000000000 / 9007199254740992 := by
      field_simp
    linarith
  have hr0 : 0 < r := by
    by_contra h
    have : r * D ≤ 0 := mul_nonpos_of_nonpos_of_nonneg (not_lt.mp h) hD0.le
    norm_num at ra'; linarith
  have hx2 : 0 < 1000000000 / r := by positivity
  obtain ⟨qa, qb⟩ := hfl _ hx2
  generalize fl (1000000000 / r) = q at *
  have qa' : 1000000000 - 1000000000 / 9007199254740992 ≤ q * r := by
    have := mul_le_mul_of_nonneg_right qa hr0.le
    have e : (1000000000 / r - 1000000000 / r / 9007199254740992) * r = 1000000000 - 1000000000 / 9007199254740992 := by
      field_simp
    linarith
  have qb' : q * r ≤ 1000000000 + 1000000000 / 9007199254740992 := by
    have := mul_le_mul_of_nonneg_right qb hr0.le
    have e : (1000000000 / r + 1000000000 / r / 9007199254740992) * r = 1000000000 + 1000000000 / 9007199254740992 := by
      field_simp
    linarith
  constructor
  · by_contra h
    have hq : q ≤ D - 1 / 2 := not_lt.mp h
    -- q r ≤ (D - 1/2) r = D r - r/2
    have := mul_le_mul_of_nonneg_right hq hr0.le
    -- r/2 ≤ D r - q r ≤ 2 K u  → r ≤ 4 K u ; r D ≥ K (1-u)
    have hr : r ≤ 4 * (1000000000 / 9007199254740992) := by nlinarith
    have := mul_le_mul_of_nonneg_right hr hD0.le
    have := mul_le_mul_of_nonneg_left hD2 (by norm_num : (0:Rat) ≤ 4 * (1000000000 / 9007199254740992))
    norm_num at *
    linarith
  · by_contra h
    have hq : D + 1 / 2 ≤ q := not_lt.mp h
    have := mul_le_mul_of_nonneg_right hq hr0.le
    have hr : r ≤ 4 * (1000000000 / 9007199254740992) := by nlinarith
    have := mul_le_mul_of_nonneg_right hr hD0.le
    have := mul_le_mul_of_nonneg_left hD2 (by norm_num : (0:Rat) ≤ 4 * (1000000000 / 9007199254740992))
    norm_num at *
    linarith


theorem pow2_eq_zpow (e : Int) : pow2 e = (2 : Rat) ^ e := by
  unfold pow2
  by_cases h : 0 ≤ e
  · rw [if_pos h]
    obtain ⟨n, rfl⟩ := Int.eq_ofNat_of_zero_le h
    simp
  · rw [if_neg h]
    obtain ⟨n, hn⟩ : ∃ n : Nat, e = -(n : Int) := ⟨(-e).toNat, by omega⟩
    subst hn
    simp

theorem pow2_pos (e : Int) : 0 < pow2 e := by rw [pow2_eq_zpow]; positivity

theorem roundHalfEven_err (y : Rat) : (roundHalfEven y : Rat) - y ≤ 1 / 2 ∧ y - (roundHalfEven y : Rat) ≤ 1 / 2 := by
  have hf1 : (y.floor : Rat) ≤ y := Rat.le_floor_iff.mp (Int.le_refl _)
  have hf2 : y < (y.floor : Rat) + 1 := by
    by_contra h
    have : ((y.floor + 1 : Int) : Rat) ≤ y := by push_cast; linarith
    have := Rat.le_floor_iff.mpr this
    omega
  unfold roundHalfEven
  simp only
  by_cases h1 : y - (y.floor : Rat) < 1 / 2
  · rw [if_pos h1]; constructor <;> linarith
  · rw [if_neg h1]
    by_cases h2 : 1 / 2 < y - (y.floor : Rat)
    · rw [if_pos h2]; push_cast; constructor <;> linarith
    · rw [if_neg h2]
      by_cases h3 : y.floor % 2 = 0
      · rw [if_pos h3]; constructor <;> linarith
      · rw [if_neg h3]; push_cast; constructor <;> linarith

theorem ilog2_le (x : Rat) (hx : 0 < x) : pow2 (ilog2 x) ≤ x := by
  unfold ilog2
  simp only
  split
  · assumption
  · -- x = n / d with 2^a ≤ n and d < 2^(b+1)
    have hn : 0 < x.num := Rat.num_pos.mpr hx
    have hd : 0 < x.den := x.den_pos
    have h1 : 2 ^ (Nat.log2 x.num.toNat) ≤ x.num.toNat := Nat.log2_self_le (by omega)
    have h2 : x.den < 2 ^ (Nat.log2 x.den + 1) := Nat.lt_log2_self
    generalize Nat.log2 x.num.toNat = a at *
    generalize Nat.log2 x.den = b at *
    have hx' : x = (x.num.toNat : Rat) / (x.den : Rat) := by
      have : ((x.num.toNat : Nat) : Int) = x.num := by omega
      have h3 : ((x.num.toNat : Nat) : Rat) = (x.num : Rat) := by
        rw [← Int.cast_natCast, this]
      rw [h3, Rat.num_div_den]
    rw [pow2_eq_zpow, hx']
    have e : ((a : Int) - (b : Int) - 1) = (a : Int) - ((b + 1 : Nat) : Int) := by push_cast; ring
    rw [e, zpow_sub₀ (by norm_num), zpow_natCast, zpow_natCast]
    have h1' : ((2 : Rat) ^ a) ≤ (x.num.toNat : Rat) := by exact_mod_cast h1
    have h2' : (x.den : Rat) ≤ (2 : Rat) ^ (b + 1) := by exact_mod_cast h2.le
    have hd' : (0 : Rat) < (x.den : Rat) := by exact_mod_cast hd
    exact div_le_div₀ (by positivity) h1' hd' h2'

theorem flDouble_std : StdModel flDouble := by
  intro x hx
  unfold flDouble
  rw [if_neg (ne_of_gt hx)]
  simp only [if_neg (not_lt.mpr hx.le)]
  have hl := ilog2_le x hx
  generalize ilog2 x = e at *
  have hu : pow2 (e - 52) = pow2 e / 4503599627370496 := by
    rw [pow2_eq_zpow, pow2_eq_zpow, zpow_sub₀ (by norm_num)]; norm_num
  have hup : 0 < pow2 (e - 52) := pow2_pos _
  obtain ⟨r1, r2⟩ := roundHalfEven_err (x / pow2 (e - 52))
  generalize (roundHalfEven (x / pow2 (e - 52)) : Rat) = m at *
  have hxu : x / pow2 (e - 52) * pow2 (e - 52) = x := by field_simp
  have a1 := mul_le_mul_of_nonneg_right r1 hup.le
  have a2 := mul_le_mul_of_nonneg_right r2 hup.le
  rw [sub_mul, hxu] at a1 a2
  rw [hu] at *
  constructor <;> linarith


/-! ### time range of a source; ids of `from_field` items -/

theorem samplesFrom_head (t0 dt : Int) (data : List Int) (x : C01.Sample) (rest : List C01.Sample)
    (h : C01.samplesFrom t0 dt data = x :: rest) : x.1 = t0 := by
  cases data with
  | nil => simp [C01.samplesFrom] at h
  | cons v vs => simp only [C01.samplesFrom, List.cons.injEq] at h; rw [← h.1]

theorem samplesFrom_getLast (dt : Int) (data : List Int) : ∀ (t0 : Int) (y : C01.Sample),
    (C01.samplesFrom t0 dt data).getLast? = some y → y.1 + dt = t0 + data.length * dt := by
  induction data with
  | nil => intro t0 y h; simp [C01.samplesFrom] at h
  | cons v vs ih =>
    intro t0 y h
    cases vs with
    | nil =>
      simp only [C01.samplesFrom, List.getLast?_singleton, Option.some.injEq] at h
      rw [← h]; simp
    | cons w ws =>
      have : (C01.samplesFrom t0 dt (v :: w :: ws)).getLast? = (C01.samplesFrom (t0 + dt) dt (w :: ws)).getLast? := by
        simp only [C01.samplesFrom, List.getLast?_cons_cons]
      rw [this] at h
      have := ih (t0 + dt) y h
      simp only [List.length_cons] at this ⊢
      push_cast at this ⊢
      rw [this]; ring

/-- start/stop of a non-empty continuous or time-series source are its first timestamp and one step after its last -/
theorem src_range (s : C01.Src) (hs : ∀ t, s ≠ .tags t) (x y : C01.Sample) (rest : List C01.Sample)
    (hk : s.samples = x :: rest) (hy : (x :: rest).getLast? = some y) :
    s.start = x.1 ∧ s.stop = y.1 + stepOf s := by
  cases s with
  | cont c =>
    simp only [C01.Src.samples, C01.Cont.samples] at hk
    refine ⟨(samplesFrom_head _ _ _ _ _ hk).symm, ?_⟩
    rw [← hk] at hy
    have := samplesFrom_getLast c.dt c.data c.start y hy
    simp only [C01.Src.stop, C01.Cont.stop, stepOf]
    omega
  | ts l =>
    simp only [C01.Src.samples] at hk
    subst hk
    simp only [C01.Src.start, C01.Src.stop, stepOf, List.head?_cons, Option.map_some, Option.getD_some, hy, and_self]
  | tags t => exact absurd rfl (hs t)

theorem crop_kind (s : C01.Src) (a b : Int) (hs : ∀ t, s ≠ .tags t) :
    (∀ t, cropChannel s a b ≠ .tags t) ∧ stepOf (cropChannel s a b) = stepOf s := by
  unfold cropChannel C01.Src.getitem
  cases s with
  | cont c => split <;> simp [C01.Src.slice, stepOf, C01.Cont.slice]
  | ts l => split <;> simp [C01.Src.slice, stepOf]
  | tags t => exact absurd rfl (hs t)

theorem filterMap_zipIdx_ids {α} (f : α × Nat → Option CalItem) (hf : ∀ a i x, f (a, i) = some x → x.id = i) (l : List α) :
    ∀ k, (∀ x ∈ (l.zipIdx k).filterMap f, k ≤ x.id) ∧ ((l.zipIdx k).filterMap f).Pairwise (fun x y => x.id < y.id) := by
  induction l with
  | nil => intro k; simp
  | cons a as ih =>
    intro k
    obtain ⟨ih1, ih2⟩ := ih (k + 1)
    rw [List.zipIdx_cons, List.filterMap_cons]
    cases h : f (a, k) with
    | none =>
      refine ⟨fun x hx => ?_, ih2⟩
      have := ih1 x hx; omega
    | some y =>
      have hy := hf a k y h
      refine ⟨fun x hx => ?_, List.pairwise_cons.mpr ⟨fun z hz => ?_, ih2⟩⟩
      · rcases List.mem_cons.mp hx with rfl | hx
        · omega
        · have := ih1 x hx; omega
      · have := ih1 z hz; omega

/-! ### the tree written under omit patterns -/

def HasPath (st : List OutNode) (p : List Char) : Prop := ∃ n ∈ st, n.path = p

theorem ensureGroup_explicit (st : List OutNode) (g p : List Char) :
    (⟨p, true⟩ : OutNode) ∈ ensureGroup st g ↔ (⟨p, true⟩ : OutNode) ∈ st := by
  unfold ensureGroup
  split
  · rfl
  · simp

theorem ensureGroup_path (st : List OutNode) (g p : List Char) :
    HasPath (ensureGroup st g) p ↔ HasPath st p ∨ p = g := by
  unfold ensureGroup HasPath
  split
  · rename_i h
    constructor
    · intro h'; exact Or.inl h'
    · rintro (h' | h')
      · exact h'
      · subst h'
        obtain ⟨n, hn, hp⟩ := List.any_eq_true.mp h
        exact ⟨n, hn, by simpa using hp⟩
  · constructor
    · rintro ⟨n, hn, hp⟩
      rcases List.mem_append.mp hn with h1 | h1
      · exact Or.inl ⟨n, h1, hp⟩
      · simp only [List.mem_singleton] at h1
        subst h1; exact Or.inr hp.symm
    · rintro (⟨n, hn, hp⟩ | h')
      · exact ⟨n, List.mem_append_left _ hn, hp⟩
      · exact ⟨⟨g, false⟩, by simp, h'.symm⟩

theorem foldl_ensure_explicit (gs : List (List Char)) : ∀ (st : List OutNode) (p : List Char),
    (⟨p, true⟩ : OutNode) ∈ gs.foldl ensureGroup st ↔ (⟨p, true⟩ : OutNode) ∈ st := by
  induction gs with
  | nil => intro st p; rfl
  | cons g gs ih => intro st p; rw [List.foldl_cons, ih, ensureGroup_explicit]

theorem foldl_ensure_path (gs : List (List Char)) : ∀ (st : List OutNode) (p : List Char),
    HasPath (gs.foldl ensureGroup st) p ↔ HasPath st p ∨ p ∈ gs := by
  induction gs with
  | nil => intro st p; simp
  | cons g gs ih =>
    intro st p
    rw [List.foldl_cons, ih, ensureGroup_path, List.mem_cons, or_assoc]

theorem writeNode_explicit (st : List OutNode) (q p : List Char) :
    (⟨p, true⟩ : OutNode) ∈ writeNode st q ↔ (⟨p, true⟩ : OutNode) ∈ st ∨ p = q := by
  unfold writeNode
  rw [List.mem_append, foldl_ensure_explicit]
  simp

theorem writeNode_path (st : List OutNode) (q p : List Char) :
    HasPath (writeNode st q) p ↔ HasPath st p ∨ p = q ∨ p ∈ ancestors q := by
  unfold writeNode
  constructor
  · rintro ⟨n, hn, hp⟩
    rcases List.mem_append.mp hn with h1 | h1
    · rcases (foldl_ensure_path _ st p).mp ⟨n, h1, hp⟩ with h2 | h2
      · exact Or.inl h2
      · exact Or.inr (Or.inr h2)
    · simp only [List.mem_singleton] at h1
      subst h1; exact Or.inr (Or.inl hp.symm)
  · rintro (h | h | h)
    · obtain ⟨n, hn, hp⟩ := (foldl_ensure_path (ancestors q) st p).mpr (Or.inl h)
      exact ⟨n, List.mem_append_left _ hn, hp⟩
    · exact ⟨⟨q, true⟩, by simp, h.symm⟩
    · obtain ⟨n, hn, hp⟩ := (foldl_ensure_path (ancestors q) st p).mpr (Or.inr h)
      exact ⟨n, List.mem_append_left _ hn, hp⟩

theorem writeOmit_aux_explicit (pats : List (List Pat)) (nodes : List (List Char)) : ∀ (st : List OutNode) (p : List Char),
    (⟨p, true⟩ : OutNode) ∈ nodes.foldl (fun st p => if exported pats p then writeNode st p else st) st ↔
      (⟨p, true⟩ : OutNode) ∈ st ∨ (p ∈ nodes ∧ exported pats p = true) := by
  induction nodes with
  | nil => intro st p; simp
  | cons q qs ih =>
    intro st p
    rw [List.foldl_cons, ih]
    by_cases hq : exported pats q = true
    · rw [if_pos hq, writeNode_explicit]
      constructor
      · rintro ((h | h) | h)
        · exact Or.inl h
        · subst h; exact Or.inr ⟨List.mem_cons_self, hq⟩
        · exact Or.inr ⟨List.mem_cons_of_mem _ h.1, h.2⟩
      · rintro (h | ⟨h1, h2⟩)
        · exact Or.inl (Or.inl h)
        · rcases List.mem_cons.mp h1 with h | h
          · exact Or.inl (Or.inr h)
          · exact Or.inr ⟨h, h2⟩
    · rw [if_neg hq]
      constructor
      · rintro (h | h)
        · exact Or.inl h
        · exact Or.inr ⟨List.mem_cons_of_mem _ h.1, h.2⟩
      · rintro (h | ⟨h1, h2⟩)
        · exact Or.inl h
        · rcases List.mem_cons.mp h1 with h | h
          · subst h; exact absurd h2 hq
          · exact Or.inr ⟨h, h2⟩

theorem writeOmit_aux_path (pats : List (List Pat)) (nodes : List (List Char)) : ∀ (st : List OutNode) (p : List Char),
    HasPath (nodes.foldl (fun st p => if exported pats p then writeNode st p else st) st) p ↔
      HasPath st p ∨ ∃ q ∈ nodes, exported pats q = true ∧ (p = q ∨ p ∈ ancestors q) := by
  induction nodes with
  | nil => intro st p; simp
  | cons q qs ih =>
    intro st p
    rw [List.foldl_cons, ih]
    by_cases hq : exported pats q = true
    · rw [if_pos hq, writeNode_path]
      constructor
      · rintro ((h | h) | ⟨r, hr, h⟩)
        · exact Or.inl h
        · exact Or.inr ⟨q, List.mem_cons_self, hq, h⟩
        · exact Or.inr ⟨r, List.mem_cons_of_mem _ hr, h⟩
      · rintro (h | ⟨r, hr, h⟩)
        · exact Or.inl (Or.inl h)
        · rcases List.mem_cons.mp hr with e | e
          · subst e; exact Or.inl (Or.inr h.2)
          · exact Or.inr ⟨r, e, h⟩
    · rw [if_neg hq]
      constructor
      · rintro (h | ⟨r, hr, h⟩)
        · exact Or.inl h
        · exact Or.inr ⟨r, List.mem_cons_of_mem _ hr, h⟩
      · rintro (h | ⟨r, hr, h⟩)
        · exact Or.inl h
        · rcases List.mem_cons.mp hr with e | e
          · subst e; exact absurd h.1 hq
          · exact Or.inr ⟨r, e, h⟩

/-! ### time-series steps -/

theorem diffs_grid (d : Int) : ∀ (n : Nat) (t0 : Int), diffs (grid t0 d (n + 1)) = List.replicate n d := by
  intro n
  induction n with
  | zero => intro t0; rfl
  | succ k ih =>
    intro t0
    have := ih (t0 + d)
    simp only [grid] at this ⊢
    simp only [diffs, this, List.replicate_succ]
    congr 1; omega

end Verif.C05
