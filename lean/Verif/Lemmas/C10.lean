/-
  C10 — helper lemmas for the power-spectrum model (masks, block means, peak ranges, DFT).
-/
import Verif.Model.C10
import Verif.NumReal
import Mathlib.Tactic.FieldSimp
import Mathlib.Analysis.SpecialFunctions.Complex.Log
import Mathlib.Algebra.Field.GeomSum
import Mathlib.Tactic.Positivity
import Mathlib.Order.Defs.LinearOrder
import Mathlib.Tactic.Ring
import Mathlib.Tactic.Linarith
import Mathlib.Data.List.Forall2

namespace Verif.C10

/-! ## masks -/

theorem maskSelect_map {β} (q : β → Bool) (l : List β) :
    maskSelect l (l.map q) = l.filter q := by
  unfold maskSelect
  induction l with
  | nil => rfl
  | cons x xs ih =>
    simp only [List.map_cons, List.zip_cons_cons, List.filterMap_cons, List.filter_cons]
    cases q x <;> simp [ih]

/-- Selecting from two arrays with one mask computed from the first keeps the pairs together. -/
theorem maskSelect_zip {β γ} (q : β → Bool) (f : List β) (p : List γ) (h : f.length = p.length) :
    (maskSelect f (f.map q)).zip (maskSelect p (f.map q)) = (f.zip p).filter (fun b => q b.1) := by
  unfold maskSelect
  induction f generalizing p with
  | nil => simp
  | cons x xs ih =>
    cases p with
    | nil => simp at h
    | cons y ys =>
      simp only [List.length_cons, Nat.add_right_cancel_iff] at h
      simp only [List.map_cons, List.zip_cons_cons, List.filterMap_cons, List.filter_cons]
      cases q x <;> simp [ih ys h]

theorem maskSelect_snd {β γ} (q : β → Bool) (f : List β) (p : List γ) (h : f.length = p.length) :
    maskSelect p (f.map q) = ((f.zip p).filter (fun b => q b.1)).map Prod.snd := by
  unfold maskSelect
  induction f generalizing p with
  | nil => cases p <;> simp at h ⊢
  | cons x xs ih =>
    cases p with
    | nil => simp at h
    | cons y ys =>
      simp only [List.length_cons, Nat.add_right_cancel_iff] at h
      simp only [List.map_cons, List.zip_cons_cons, List.filterMap_cons, List.filter_cons]
      cases q x <;> simp [ih ys h]

theorem andReduce_map {β} {ρ} (f : List β) (q : ρ → β → Bool) (ranges : List ρ) :
    andReduce f.length (ranges.map fun r => f.map (q r)) = f.map fun x => ranges.all fun r => q r x := by
  unfold andReduce
  have key : ∀ (g : β → Bool),
      (ranges.map fun r => f.map (q r)).foldl (fun acc m => List.zipWith (· && ·) acc m) (f.map g)
        = f.map fun x => g x && ranges.all fun r => q r x := by
    induction ranges with
    | nil => intro g; simp
    | cons r rs ih =>
      intro g
      simp only [List.map_cons, List.foldl_cons, List.all_cons]
      have : List.zipWith (· && ·) (f.map g) (f.map (q r)) = f.map fun x => g x && q r x := by
        simp [List.zipWith_map, List.zipWith_self]
      rw [this, ih]
      simp [Bool.and_assoc]
  have h0 : List.replicate f.length true = f.map fun _ => true := by
    simp [List.map_const']
  rw [h0, key]
  simp


theorem maskSelect_fst {β γ} (q : β → Bool) (f : List β) (p : List γ) (h : f.length = p.length) :
    maskSelect f (f.map q) = ((f.zip p).filter (fun b => q b.1)).map Prod.fst := by
  unfold maskSelect
  induction f generalizing p with
  | nil => simp
  | cons x xs ih =>
    cases p with
    | nil => simp at h
    | cons y ys =>
      simp only [List.length_cons, Nat.add_right_cancel_iff] at h
      simp only [List.map_cons, List.zip_cons_cons, List.filterMap_cons, List.filter_cons]
      cases q x <;> simp [ih ys h]

theorem zip_map_fst_snd {β γ} (K : List (β × γ)) : (K.map Prod.fst).zip (K.map Prod.snd) = K := by
  induction K with
  | nil => rfl
  | cons x xs ih => simp [ih]
/-! ## block averaging -/

theorem roundDown_le (n k : Nat) : roundDown n k ≤ n := by
  unfold roundDown; exact Nat.div_mul_le_self n k

theorem reshapeRows_length {β} (k : Nat) (l : List β) : (reshapeRows k l).length = l.length / k := by
  simp [reshapeRows]

/-- Row `i` of `reshape(-1,k)` of the truncated data consists of the elements `i*k … i*k+k-1`. -/
theorem window_eq {β} (d : β) (l : List β) (m s k : Nat) (hm : m ≤ l.length) (hs : s + k ≤ m) :
    ((l.take m).drop s).take k = (List.range k).map fun j => l.getD (s + j) d := by
  apply List.ext_getElem
  · simp; omega
  · intro j h1 h2
    simp at h1 h2
    simp only [List.getElem_take, List.getElem_drop, List.getElem_map, List.getElem_range]
    rw [List.getD_eq_getElem?_getD, List.getElem?_eq_getElem (by omega)]
    rfl

theorem downsampleMean_length (k : Nat) (hk : 0 < k) (l : List Rat) :
    (downsampleMean k l).length = l.length / k := by
  unfold downsampleMean
  rw [List.length_map, reshapeRows_length, List.length_take, Nat.min_eq_left (roundDown_le _ _)]
  unfold roundDown
  exact Nat.mul_div_cancel _ hk

theorem downsampleMean_getElem (k : Nat) (hk : 0 < k) (l : List Rat) (i : Nat) (hi : i < l.length / k) :
    (downsampleMean k l)[i]'(by rw [downsampleMean_length k hk]; exact hi) =
      ((List.range k).map fun j => l.getD (i * k + j) 0).sum / (k : Rat) := by
  have hlen : (l.take (roundDown l.length k)).length / k = l.length / k := by
    rw [List.length_take, Nat.min_eq_left (roundDown_le _ _)]
    unfold roundDown
    exact Nat.mul_div_cancel _ hk
  unfold downsampleMean reshapeRows
  simp only [List.getElem_map, List.getElem_range]
  rw [window_eq 0 l (roundDown l.length k) (i * k) k (roundDown_le _ _)]
  unfold roundDown
  calc i * k + k = (i + 1) * k := by ring
    _ ≤ l.length / k * k := Nat.mul_le_mul_right k hi

/-! ## contiguous ranges (`grab_contiguous_ranges`) -/

/-- positions where the value changes, scanning from index `i` with previous value `prev`; a final
    falling edge closes an open run (`append=0`) -/
def edgesAux (prev : Bool) (i : Nat) : List Bool → List Nat
  | [] => if prev then [i] else []
  | b :: bs => if b ≠ prev then i :: edgesAux b (i + 1) bs else edgesAux b (i + 1) bs

theorem nonzero_diff_eq_edges (prev : Bool) (i : Nat) (l : List Bool) :
    nonzeroFrom i (diff (boolInt prev :: (l.map boolInt ++ [0]))) = edgesAux prev i l := by
  induction l generalizing prev i with
  | nil => cases prev <;> simp [diff, nonzeroFrom, edgesAux, boolInt]
  | cons b bs ih =>
    have := ih b (i + 1)
    cases b <;> cases prev <;>
      simp_all [diff, nonzeroFrom, edgesAux, boolInt]

/-- Specification-side scan: the maximal runs of `true`, `s` = start of the run that is open at index `i`
    (`s = i`: no run is open). -/
def runsFrom (i s : Nat) : List Bool → List (Nat × Nat)
  | [] => if s < i then [(s, i - 1)] else []
  | true :: bs => runsFrom (i + 1) s bs
  | false :: bs => if s < i then (s, i - 1) :: runsFrom (i + 1) (i + 1) bs else runsFrom (i + 1) (i + 1) bs

theorem pairUp_edges (l : List Bool) : ∀ (i : Nat),
    ((pairUp (edgesAux false i l)).map (fun r => (r.1, r.2 - 1)) = runsFrom i i l) ∧
    (∀ s, s < i → (pairUp (s :: edgesAux true i l)).map (fun r => (r.1, r.2 - 1)) = runsFrom i s l) := by
  induction l with
  | nil =>
    intro i
    constructor
    · simp [edgesAux, pairUp, runsFrom]
    · intro s hs; simp [edgesAux, pairUp, runsFrom, hs]
  | cons b bs ih =>
    intro i
    obtain ⟨iha, ihb⟩ := ih (i + 1)
    cases b
    · constructor
      · simp [edgesAux, runsFrom, iha]
      · intro s hs
        simp [edgesAux, runsFrom, pairUp, iha, hs]
    · constructor
      · simp only [edgesAux, runsFrom]
        simpa using ihb i (by omega)
      · intro s hs
        simp only [edgesAux, runsFrom]
        simpa using ihb s (by omega)

theorem grab_eq_runs (mask : List Bool) : grabContiguousRanges mask = runsFrom 0 0 mask := by
  unfold grabContiguousRanges
  have h := nonzero_diff_eq_edges false 0 mask
  simp only [boolInt, Bool.false_eq_true, ↓reduceIte] at h
  simp only [h]
  exact (pairUp_edges mask 0).1

/-- the list `l`, placed at offset `i`, is described by the predicate `m` -/
def Agrees (m : Nat → Bool) (i : Nat) (l : List Bool) : Prop :=
  ∀ j (h : j < l.length), l[j] = m (i + j)

theorem Agrees.head {m i b bs} (h : Agrees m i (b :: bs)) : b = m i := by
  have := h 0 (by simp)
  simpa using this

theorem Agrees.tail {m i b bs} (h : Agrees m i (b :: bs)) : Agrees m (i + 1) bs := by
  intro j hj
  have := h (j + 1) (by simp; omega)
  simp only [List.getElem_cons_succ] at this
  rw [this]; congr 1; omega

theorem agrees_getD (l : List Bool) : Agrees (fun j => l.getD j false) 0 l := by
  intro j hj
  simp [List.getD_eq_getElem?_getD, List.getElem?_eq_getElem hj]

/-- `r` is a maximal run of `true` of a mask of length `n` described by `m` -/
def RunOK (m : Nat → Bool) (n : Nat) (r : Nat × Nat) : Prop :=
  r.1 ≤ r.2 ∧ r.2 < n ∧ (∀ j, r.1 ≤ j → j ≤ r.2 → m j = true) ∧
    (r.1 = 0 ∨ m (r.1 - 1) = false) ∧ (r.2 + 1 = n ∨ m (r.2 + 1) = false)

/-- scan invariant: the open run `[s, i)` is all `true` and cannot be extended to the left -/
def Inv (m : Nat → Bool) (i s : Nat) : Prop :=
  s ≤ i ∧ (∀ j, s ≤ j → j < i → m j = true) ∧ (s = 0 ∨ m (s - 1) = false)

theorem runs_ok (m : Nat → Bool) (l : List Bool) : ∀ i s, Agrees m i l → Inv m i s →
    ∀ r ∈ runsFrom i s l, RunOK m (i + l.length) r := by
  induction l with
  | nil =>
    intro i s _ hinv r hr
    simp only [runsFrom] at hr
    split at hr
    · simp only [List.mem_singleton] at hr
      subst hr
      obtain ⟨h1, h2, h3⟩ := hinv
      refine ⟨by simp; omega, by simp; omega, ?_, h3, ?_⟩
      · intro j hj1 hj2; exact h2 j hj1 (by simp at hj2; omega)
      · left; simp; omega
    · simp at hr
  | cons b bs ih =>
    intro i s hag hinv r hr
    have hb := hag.head
    have htl := hag.tail
    obtain ⟨h1, h2, h3⟩ := hinv
    have hlen : i + (b :: bs).length = (i + 1) + bs.length := by simp; omega
    rw [hlen]
    cases b
    · simp only [runsFrom] at hr
      have hinv' : Inv m (i + 1) (i + 1) := ⟨Nat.le_refl _, by intro j a b; omega, by right; simpa using hb.symm⟩
      split at hr
      · rename_i hsi
        rcases List.mem_cons.mp hr with hr | hr
        · subst hr
          refine ⟨by simp; omega, by simp; omega, ?_, h3, ?_⟩
          · intro j hj1 hj2; exact h2 j hj1 (by simp at hj2; omega)
          · right
            have : i - 1 + 1 = i := by omega
            simp only [this]; exact hb.symm
        · exact ih (i + 1) (i + 1) htl hinv' r hr
      · exact ih (i + 1) (i + 1) htl hinv' r hr
    · simp only [runsFrom] at hr
      refine ih (i + 1) s htl ⟨by omega, ?_, h3⟩ r hr
      intro j hj1 hj2
      by_cases hji : j = i
      · subst hji; exact hb.symm
      · exact h2 j hj1 (by omega)

theorem runs_cover (m : Nat → Bool) (l : List Bool) : ∀ i s, Agrees m i l → s ≤ i →
    ∀ j, s ≤ j → j < i + l.length → m j = true → ∃ r ∈ runsFrom i s l, r.1 ≤ j ∧ j ≤ r.2 := by
  induction l with
  | nil =>
    intro i s _ hsi j hj1 hj2 _
    simp only [List.length_nil, Nat.add_zero] at hj2
    refine ⟨(s, i - 1), ?_, hj1, by simp; omega⟩
    simp [runsFrom]; omega
  | cons b bs ih =>
    intro i s hag hsi j hj1 hj2 hmj
    have hb := hag.head
    have htl := hag.tail
    have hlen : i + (b :: bs).length = (i + 1) + bs.length := by simp; omega
    rw [hlen] at hj2
    cases b
    · have hji : j ≠ i := by intro h; subst h; rw [hmj] at hb; cases hb
      simp only [runsFrom]
      by_cases hlt : j < i
      · have hs : s < i := by omega
        rw [if_pos hs]
        exact ⟨(s, i - 1), by simp, hj1, by simp; omega⟩
      · obtain ⟨r, hr, h1, h2⟩ := ih (i + 1) (i + 1) htl (Nat.le_refl _) j (by omega) hj2 hmj
        split
        · exact ⟨r, List.mem_cons_of_mem _ hr, h1, h2⟩
        · exact ⟨r, hr, h1, h2⟩
    · simp only [runsFrom]
      exact ih (i + 1) s htl (by omega) j hj1 hj2 hmj

/-- the runs are reported in increasing order and are separated by at least one `false` bin -/
theorem runs_sorted (l : List Bool) : ∀ i s, s ≤ i →
    (runsFrom i s l).Pairwise (fun r t => r.2 + 1 < t.1) ∧ (∀ r ∈ runsFrom i s l, s ≤ r.1) := by
  induction l with
  | nil =>
    intro i s _
    simp only [runsFrom]
    split <;> simp
  | cons b bs ih =>
    intro i s hsi
    cases b
    · simp only [runsFrom]
      obtain ⟨ih1, ih2⟩ := ih (i + 1) (i + 1) (Nat.le_refl _)
      split
      · rename_i hlt
        refine ⟨List.pairwise_cons.mpr ⟨?_, ih1⟩, ?_⟩
        · intro t ht
          have := ih2 t ht
          simp; omega
        · intro r hr
          rcases List.mem_cons.mp hr with hr | hr
          · subst hr; exact Nat.le_refl _
          · have := ih2 r hr; omega
      · exact ⟨ih1, fun r hr => by have := ih2 r hr; omega⟩
    · simp only [runsFrom]
      exact ih (i + 1) s (by omega)

theorem runs_head (l : List Bool) : ∀ i s, s < i →
    ∃ e, (runsFrom i s l)[0]? = some (s, e) ∧ i ≤ e + 1 := by
  induction l with
  | nil => intro i s h; exact ⟨i - 1, by simp [runsFrom, h], by omega⟩
  | cons b bs ih =>
    intro i s h
    cases b
    · exact ⟨i - 1, by simp [runsFrom, h], by omega⟩
    · obtain ⟨e, he, hle⟩ := ih (i + 1) s (by omega)
      exact ⟨e, by simpa [runsFrom] using he, by omega⟩
/-! ## baseline look-up (`cumsum` of rising edges) and `np.unique` -/

/-- `cumsum(starts) - 1` as a scan: `cnt` rising edges seen so far, `prev` the previous mask value -/
def idxAux (cnt : Int) (prev : Bool) : List Bool → List Int
  | [] => []
  | b :: bs =>
    let cnt' := if b && !prev then cnt + 1 else cnt
    (cnt' - 1) :: idxAux cnt' b bs

theorem baselineIdx_eq_aux (l : List Bool) : ∀ (cnt : Int) (prev : Bool),
    (cumsumFrom cnt ((diff (boolInt prev :: l.map boolInt)).map fun d => boolInt (decide (d > 0)))).map (· - 1)
      = idxAux cnt prev l := by
  induction l with
  | nil => intro cnt prev; simp [diff, cumsumFrom, idxAux]
  | cons b bs ih =>
    intro cnt prev
    have ihf := fun cnt => ih cnt false
    have iht := fun cnt => ih cnt true
    simp [boolInt] at ihf iht
    cases b <;> cases prev <;> simp [diff, cumsumFrom, idxAux, boolInt, List.map_cons, ihf, iht]

theorem baselineIndices_eq (l : List Bool) : baselineIndices l = idxAux 0 false l := by
  unfold baselineIndices
  have := baselineIdx_eq_aux l 0 false
  simpa [boolInt] using this

theorem idxAux_length (l : List Bool) : ∀ cnt prev, (idxAux cnt prev l).length = l.length := by
  induction l with
  | nil => intro _ _; rfl
  | cons b bs ih => intro cnt prev; simp [idxAux, ih]

theorem idxAux_shift (l : List Bool) : ∀ (cnt c : Int) (prev : Bool),
    idxAux (cnt + c) prev l = (idxAux cnt prev l).map (· + c) := by
  induction l with
  | nil => intro _ _ _; rfl
  | cons b bs ih =>
    intro cnt c prev
    simp only [idxAux, List.map_cons]
    split
    · rw [show cnt + c + 1 = (cnt + 1) + c by omega, ih]
      congr 1; omega
    · rw [ih]; congr 1; omega

/-- The look-up `baseline_indices[p]` of a bin `p` inside a run is the position of that run in the list
    of runs. -/
theorem lookup_run (l : List Bool) : ∀ i s, s ≤ i →
    ∀ j (hj : j < l.length), l[j] = true →
      ∃ k : Nat, (idxAux (if s < i then 1 else 0) (decide (s < i)) l)[j]'(by rw [idxAux_length]; exact hj) = (k : Int) ∧
        ∃ r, (runsFrom i s l)[k]? = some r ∧ r.1 ≤ i + j ∧ i + j ≤ r.2 := by
  induction l with
  | nil => intro i s _ j hj; simp at hj
  | cons b bs ih =>
    intro i s hsi j hj hl
    cases b
    · -- a `false` bin closes the open run
      cases j with
      | zero => simp at hl
      | succ j =>
        simp only [List.getElem_cons_succ] at hl
        have hj' : j < bs.length := by simpa using hj
        obtain ⟨k, hk, r, hr, h1, h2⟩ := ih (i + 1) (i + 1) (Nat.le_refl _) j hj' hl
        simp only [Nat.lt_irrefl, ↓reduceIte, decide_false] at hk
        by_cases hlt : s < i
        · refine ⟨k + 1, ?_, r, ?_, by omega, by omega⟩
          · simp only [idxAux, hlt, ↓reduceIte, Bool.false_and, Bool.false_eq_true,
              List.getElem_cons_succ]
            have := idxAux_shift bs 0 1 false
            simp only [Int.zero_add] at this
            simp only [this, List.getElem_map, hk]
            omega
          · simp [runsFrom, hlt, hr]
        · refine ⟨k, ?_, r, ?_, by omega, by omega⟩
          · simp only [idxAux, hlt, ↓reduceIte, Bool.false_and, Bool.false_eq_true,
              List.getElem_cons_succ, hk]
          · simp [runsFrom, hlt, hr]
    · -- a `true` bin: the run `[s, …)` is (or becomes) open
      have hcnt : (if (true && !decide (s < i)) = true then (if s < i then (1:Int) else 0) + 1
          else (if s < i then 1 else 0)) = 1 := by
        by_cases hlt : s < i <;> simp [hlt]
      cases j with
      | zero =>
        obtain ⟨e, he, hle⟩ := runs_head bs (i + 1) s (by omega)
        refine ⟨0, ?_, (s, e), ?_, by simp; omega, by simp; omega⟩
        · simp only [idxAux, hcnt, List.getElem_cons_zero]; rfl
        · simpa [runsFrom] using he
      | succ j =>
        simp only [List.getElem_cons_succ] at hl
        have hj' : j < bs.length := by simpa using hj
        obtain ⟨k, hk, r, hr, h1, h2⟩ := ih (i + 1) s (by omega) j hj' hl
        have hlt : s < i + 1 := by omega
        simp only [hlt, ↓reduceIte, decide_true] at hk
        refine ⟨k, ?_, r, ?_, by omega, by omega⟩
        · simp only [idxAux, hcnt, List.getElem_cons_succ, hk]
        · simpa [runsFrom] using hr

theorem mem_insertUniq (x y : Int) (l : List Int) : y ∈ insertUniq x l ↔ y = x ∨ y ∈ l := by
  induction l with
  | nil => simp [insertUniq]
  | cons z zs ih =>
    simp only [insertUniq]
    split
    · simp
    · split
      · rename_i h; subst h; simp
      · simp only [List.mem_cons, ih]
        constructor
        · rintro (h | h | h) <;> simp [h]
        · rintro (h | h | h) <;> simp [h]

theorem mem_unique (y : Int) (l : List Int) : y ∈ unique l ↔ y ∈ l := by
  induction l with
  | nil => simp [unique]
  | cons x xs ih =>
    have : unique (x :: xs) = insertUniq x (unique xs) := rfl
    rw [this, mem_insertUniq, ih]; simp

theorem insertUniq_sorted (x : Int) (l : List Int) (h : l.Pairwise (· < ·)) :
    (insertUniq x l).Pairwise (· < ·) := by
  induction l with
  | nil => simp [insertUniq]
  | cons z zs ih =>
    obtain ⟨h1, h2⟩ := List.pairwise_cons.mp h
    simp only [insertUniq]
    split
    · rename_i hlt
      refine List.pairwise_cons.mpr ⟨?_, h⟩
      intro a ha
      rcases List.mem_cons.mp ha with ha | ha
      · omega
      · have := h1 a ha; omega
    · split
      · exact h
      · refine List.pairwise_cons.mpr ⟨?_, ih h2⟩
        intro a ha
        rcases (mem_insertUniq x a zs).mp ha with ha | ha
        · omega
        · exact h1 a ha

theorem unique_sorted (l : List Int) : (unique l).Pairwise (· < ·) := by
  induction l with
  | nil => simp [unique]
  | cons x xs ih => exact insertUniq_sorted x _ ih

theorem mapM_option_of_forall {β γ} (f : β → Option γ) (g : β → γ) (l : List β)
    (h : ∀ x ∈ l, f x = some (g x)) : l.mapM f = some (l.map g) := by
  induction l with
  | nil => rfl
  | cons x xs ih =>
    rw [List.mapM_cons, h x (by simp), ih (fun y hy => h y (by simp [hy]))]
    rfl

theorem mapM_option_some {β γ} (f : β → Option γ) : ∀ (l : List β) (out : List γ),
    l.mapM f = some out → List.Forall₂ (fun x y => f x = some y) l out := by
  intro l
  induction l with
  | nil => intro out h; simp at h; subst h; exact List.Forall₂.nil
  | cons x xs ih =>
    intro out h
    rw [List.mapM_cons] at h
    cases hf : f x with
    | none => simp [hf] at h
    | some y =>
      cases hr : xs.mapM f with
      | none => simp [hf, hr] at h
      | some ys =>
        simp [hf, hr] at h
        subst h
        exact List.Forall₂.cons hf (ih ys hr)
/-! ## `identify_peaks` -/

theorem getD_map_true {β} (q : β → Bool) (l : List β) (j : Nat) :
    (l.map q).getD j false = true ↔ ∃ h : j < l.length, q l[j] = true := by
  rw [List.getD_eq_getElem?_getD]
  by_cases h : j < l.length
  · simp [h]
  · simp [h]

theorem pyIndex_natCast {β} (l : List β) (k : Nat) : Py.pyIndex l (k : Int) = l[k]? := by
  unfold Py.pyIndex
  have : ¬ ((k : Int) < 0) := by omega
  simp [this]

theorem pyIndex_of_nonneg {β} (l : List β) (y : Int) (h : 0 ≤ y) : Py.pyIndex l y = l[y.toNat]? := by
  obtain ⟨k, rfl⟩ := Int.eq_ofNat_of_zero_le h
  rw [pyIndex_natCast]; simp

/-- the runs of a mask derived from a list, described by `getD` -/
theorem runs_of_map_ok {β} (q : β → Bool) (l : List β) :
    ∀ r ∈ runsFrom 0 0 (l.map q), RunOK (fun j => (l.map q).getD j false) l.length r := by
  intro r hr
  have := runs_ok (fun j => (l.map q).getD j false) (l.map q) 0 0 (agrees_getD _)
    ⟨Nat.le_refl _, by intro j _ h; omega, Or.inl rfl⟩ r hr
  simpa using this

section peaks
variable {α : Type} [LinearOrder α]

/-- Characterisation of the index ranges computed by `identify_peaks`: the look-ups never fail, and the
    result consists of the baseline runs (at strictly increasing positions `ys` of the list of all
    baseline runs) that contain the first bin of some peak run. -/
theorem identifyPeaks_char (flat : List α) (baseline cutoff : α) (hbc : baseline < cutoff) :
    ∃ ys : List Int, ys.Pairwise (· < ·) ∧
      (∀ y ∈ ys, 0 ≤ y ∧ ∃ b, (runsFrom 0 0 (flat.map fun x => decide (baseline ≤ x)))[y.toNat]? = some b ∧
        ∃ p ∈ runsFrom 0 0 (flat.map fun x => decide (cutoff < x)), b.1 ≤ p.1 ∧ p.1 ≤ b.2) ∧
      (∀ p ∈ runsFrom 0 0 (flat.map fun x => decide (cutoff < x)), ∃ y ∈ ys, 0 ≤ y ∧
        ∃ b, (runsFrom 0 0 (flat.map fun x => decide (baseline ≤ x)))[y.toNat]? = some b ∧
          b.1 ≤ p.1 ∧ p.1 ≤ b.2) ∧
      identifyPeaksIdx flat baseline cutoff =
        some (ys.map fun y => ((runsFrom 0 0 (flat.map fun x => decide (baseline ≤ x)))[y.toNat]?).getD (0, 0)) := by
  generalize hbm : (flat.map fun x => decide (baseline ≤ x)) = bm
  generalize hpm : (flat.map fun x => decide (cutoff < x)) = pm
  have hbl : bm.length = flat.length := by rw [← hbm]; simp
  -- every peak run starts in a bin that is above the baseline, so the look-up succeeds
  have hlook : ∀ p ∈ runsFrom 0 0 pm, ∃ k : Nat,
      (idxAux 0 false bm)[p.1]? = some (k : Int) ∧
        ∃ b, (runsFrom 0 0 bm)[k]? = some b ∧ b.1 ≤ p.1 ∧ p.1 ≤ b.2 := by
    intro p hp
    rw [← hpm] at hp
    obtain ⟨h1, _, h3, _, _⟩ := runs_of_map_ok (fun x => decide (cutoff < x)) flat p hp
    have hp1 := h3 p.1 (Nat.le_refl _) h1
    obtain ⟨hlt, hq⟩ := (getD_map_true _ flat p.1).mp hp1
    have hcut : cutoff < flat[p.1] := by simpa using hq
    have hb : bm[p.1]'(by omega) = true := by
      subst hbm
      simp only [List.getElem_map, decide_eq_true_eq]
      exact le_of_lt (lt_trans hbc hcut)
    obtain ⟨k, hk, b, hb1, hb2, hb3⟩ := lookup_run bm 0 0 (Nat.le_refl _) p.1 (by omega) hb
    simp only [Nat.lt_irrefl, ↓reduceIte, decide_false, Nat.zero_add] at hk hb2 hb3
    refine ⟨k, ?_, b, hb1, hb2, hb3⟩
    rw [List.getElem?_eq_getElem (by rw [idxAux_length]; omega), hk]
  let g1 : Nat × Nat → Int := fun p => ((idxAux 0 false bm)[p.1]?).getD 0
  let g2 : Int → Nat × Nat := fun y => ((runsFrom 0 0 bm)[y.toNat]?).getD (0, 0)
  have hg1 : ∀ p ∈ runsFrom 0 0 pm, Py.pyIndex (baselineIndices bm) p.1 = some (g1 p) := by
    intro p hp
    obtain ⟨k, hk, _⟩ := hlook p hp
    rw [baselineIndices_eq, pyIndex_natCast]
    simp [g1, hk]
  have hex : ∀ y ∈ unique ((runsFrom 0 0 pm).map g1), 0 ≤ y ∧
      ∃ b, (runsFrom 0 0 bm)[y.toNat]? = some b ∧ ∃ p ∈ runsFrom 0 0 pm, b.1 ≤ p.1 ∧ p.1 ≤ b.2 := by
    intro y hy
    rw [mem_unique] at hy
    obtain ⟨p, hp, rfl⟩ := List.mem_map.mp hy
    obtain ⟨k, hk, b, hb1, hb2, hb3⟩ := hlook p hp
    have : g1 p = (k : Int) := by simp [g1, hk]
    rw [this]
    exact ⟨by omega, b, by simpa using hb1, p, hp, hb2, hb3⟩
  have hg2 : ∀ y ∈ unique ((runsFrom 0 0 pm).map g1),
      Py.pyIndex (runsFrom 0 0 bm) y = some (g2 y) := by
    intro y hy
    obtain ⟨h0, b, hb, _⟩ := hex y hy
    rw [pyIndex_of_nonneg _ _ h0]
    simp [g2, hb]
  refine ⟨unique ((runsFrom 0 0 pm).map g1), unique_sorted _, hex, ?_, ?_⟩
  · intro p hp
    obtain ⟨k, hk, b, hb1, hb2, hb3⟩ := hlook p hp
    have hg : g1 p = (k : Int) := by simp [g1, hk]
    refine ⟨g1 p, (mem_unique _ _).mpr (List.mem_map.mpr ⟨p, hp, rfl⟩), by omega, b, ?_, hb2, hb3⟩
    rw [hg]; simpa using hb1
  · unfold identifyPeaksIdx
    simp only [hbm, hpm, grab_eq_runs]
    rw [mapM_option_of_forall _ g1 _ hg1]
    simp only [Option.bind_some]
    rw [mapM_option_of_forall _ g2 _ hg2]
    split
    · rename_i hemp
      simp only [List.isEmpty_iff] at hemp
      simp [hemp, unique]
    · rfl

end peaks
/-! ## the `ℝ` reading of the DFT / PSD formulas -/

section real
open RealLike

theorem ofNat'_real (n : Nat) : (ofNat' n : ℝ) = (n : ℝ) := by
  unfold ofNat'
  simp only [OfScientific.ofScientific, Rat.ofScientific_false_def, Nat.pow_zero, Nat.mul_one]
  norm_cast

theorem zero_lit : (0.0 : ℝ) = 0 := by norm_num
theorem one_lit : (1.0 : ℝ) = 1 := by norm_num
theorem two_lit : (2.0 : ℝ) = 2 := by norm_num

theorem rsum_real (l : List ℝ) : rsum l = l.sum := by
  induction l with
  | nil => simp [rsum, zero_lit]
  | cons x xs ih => simp [rsum, ih]

theorem rsum_map_mul (a : ℝ) (l : List ℝ) : rsum (l.map (a * ·)) = a * rsum l := by
  induction l with
  | nil => simp [rsum, zero_lit]
  | cons x xs ih => simp only [List.map_cons, rsum, ih]; ring

theorem rsum_map_add (c : ℝ) (l : List ℝ) : rsum (l.map (· + c)) = rsum l + l.length * c := by
  induction l with
  | nil => simp [rsum, zero_lit]
  | cons x xs ih => simp only [List.map_cons, rsum, ih, List.length_cons]; push_cast; ring

theorem mean_map_mul (a : ℝ) (l : List ℝ) : mean (l.map (a * ·)) = a * mean l := by
  unfold mean
  rw [rsum_map_mul, List.length_map]; ring

theorem demean_map_mul (a : ℝ) (l : List ℝ) : demean (l.map (a * ·)) = (demean l).map (a * ·) := by
  unfold demean
  simp only [mean_map_mul, List.map_map]
  apply List.map_congr_left
  intro v _
  simp only [Function.comp]; ring

theorem demean_map_add (c : ℝ) (l : List ℝ) : demean (l.map (· + c)) = demean l := by
  unfold demean
  cases l with
  | nil => rfl
  | cons x xs =>
    have hne : ((x :: xs).length : ℝ) ≠ 0 := by simp; positivity
    have hm : mean ((x :: xs).map (· + c)) = mean (x :: xs) + c := by
      unfold mean
      rw [rsum_map_add, List.length_map, ofNat'_real]
      field_simp
    rw [hm, List.map_map]
    apply List.map_congr_left
    intro v _
    simp only [Function.comp]; ring

theorem dftReFrom_map_mul (a : ℝ) (k N : Nat) (l : List ℝ) : ∀ n,
    dftReFrom k N n (l.map (a * ·)) = a * dftReFrom k N n l := by
  induction l with
  | nil => intro n; simp [dftReFrom, zero_lit]
  | cons x xs ih => intro n; simp only [List.map_cons, dftReFrom, ih]; ring

theorem dftImFrom_map_mul (a : ℝ) (k N : Nat) (l : List ℝ) : ∀ n,
    dftImFrom k N n (l.map (a * ·)) = a * dftImFrom k N n l := by
  induction l with
  | nil => intro n; simp [dftImFrom, zero_lit]
  | cons x xs ih => intro n; simp only [List.map_cons, dftImFrom, ih]; ring

theorem dftSq_map_mul (a : ℝ) (l : List ℝ) (k : Nat) :
    dftSq (l.map (a * ·)) k = a * a * dftSq l k := by
  unfold dftSq
  rw [List.length_map, dftReFrom_map_mul, dftImFrom_map_mul]
  simp only [RealLike.sq]; ring

theorem rfftSq_map_mul (a : ℝ) (l : List ℝ) : rfftSq (l.map (a * ·)) = (rfftSq l).map (a * a * ·) := by
  unfold rfftSq
  rw [List.length_map, List.map_map]
  apply List.map_congr_left
  intro k _
  exact dftSq_map_mul a l k

theorem chunks_map {β γ} (g : β → γ) (l : List β) (npw : Nat) :
    chunks (l.map g) npw = (chunks l npw).map (List.map g) := by
  unfold chunks
  rw [List.length_map, List.map_map]
  apply List.map_congr_left
  intro c _
  simp [List.map_take, List.map_drop]

theorem chunks_length {β} (l : List β) (npw : Nat) : (chunks l npw).length = l.length / npw := by
  simp [chunks]

theorem meanRows_map_mul (s : ℝ) (rows : List (List ℝ)) (w : Nat) :
    meanRows (rows.map (List.map (s * ·))) w = (meanRows rows w).map (s * ·) := by
  unfold meanRows
  rw [List.map_map, List.length_map]
  apply List.map_congr_left
  intro k _
  simp only [Function.comp, List.map_map]
  have : (fun r : List ℝ => (List.map (s * ·) r).getD k 0.0) = fun r => s * r.getD k 0.0 := by
    funext r
    simp only [List.getD_eq_getElem?_getD, List.getElem?_map]
    cases r[k]? <;> simp [zero_lit]
  have h2 : (rows.map fun r : List ℝ => s * r.getD k 0.0) = (rows.map fun r => r.getD k 0.0).map (s * ·) := by
    rw [List.map_map]; rfl
  show rsum (rows.map ((fun r : List ℝ => (List.map (s * ·) r).getD k 0.0))) / _ = _
  rw [this, h2, rsum_map_mul]; ring

end real
/-! ## roots of unity: the DFT of a constant vanishes off the zero-frequency bin -/

open Complex in
theorem sum_exp_eq_zero (d N : ℕ) (hd : 0 < d) (hdN : d < N) :
    ∑ i ∈ Finset.range N, Complex.exp (((2 * Real.pi * ((d * i : ℕ) : ℝ) / (N : ℝ) : ℝ) : ℂ) * I) = 0 := by
  have hN : (N : ℂ) ≠ 0 := by
    have : N ≠ 0 := by omega
    exact_mod_cast this
  have hterm : ∀ i : ℕ, Complex.exp (((2 * Real.pi * ((d * i : ℕ) : ℝ) / (N : ℝ) : ℝ) : ℂ) * I)
      = Complex.exp (2 * Real.pi * I * d / N) ^ i := by
    intro i
    rw [← Complex.exp_nat_mul]
    congr 1
    push_cast
    field_simp
  simp only [hterm]
  have hpow : Complex.exp (2 * Real.pi * I * d / N) ^ N = 1 := by
    rw [← Complex.exp_nat_mul]
    have : (N : ℂ) * (2 * Real.pi * I * d / N) = (d : ℂ) * (2 * Real.pi * I) := by field_simp
    rw [this, Complex.exp_nat_mul_two_pi_mul_I]
  have hne : Complex.exp (2 * Real.pi * I * d / N) ≠ 1 := by
    intro h
    obtain ⟨n, hn⟩ := Complex.exp_eq_one_iff.mp h
    have h2 : (d : ℂ) = n * N := by
      field_simp at hn
      rw [hn]; ring
    have h3 : (d : ℤ) = n * N := by exact_mod_cast h2
    rcases le_or_gt n 0 with hn0 | hn0
    · have : n * (N : ℤ) ≤ 0 := mul_nonpos_of_nonpos_of_nonneg hn0 (by positivity)
      omega
    · have : (N : ℤ) ≤ n * N := by nlinarith
      omega
  rw [geom_sum_eq hne, hpow]; simp

theorem sum_cos_eq_zero (d N : ℕ) (hd : 0 < d) (hdN : d < N) :
    ∑ i ∈ Finset.range N, Real.cos (2 * Real.pi * ((d * i : ℕ) : ℝ) / (N : ℝ)) = 0 := by
  have := congrArg Complex.re (sum_exp_eq_zero d N hd hdN)
  rw [Complex.re_sum] at this
  simp only [Complex.exp_ofReal_mul_I_re, Complex.zero_re] at this
  exact this

theorem sum_sin_eq_zero (d N : ℕ) (hd : 0 < d) (hdN : d < N) :
    ∑ i ∈ Finset.range N, Real.sin (2 * Real.pi * ((d * i : ℕ) : ℝ) / (N : ℝ)) = 0 := by
  have := congrArg Complex.im (sum_exp_eq_zero d N hd hdN)
  rw [Complex.im_sum] at this
  simp only [Complex.exp_ofReal_mul_I_im, Complex.zero_im] at this
  exact this

section real
open RealLike

/-- the model's `2π·k·n/N` at `ℝ` -/
theorem angle_real (k n N : Nat) : (angle k n N : ℝ) = 2 * Real.pi * ((k * n : ℕ) : ℝ) / (N : ℝ) := by
  unfold angle
  rw [ofNat'_real, ofNat'_real, two_lit]; rfl

theorem sum_range_shift (f : ℕ → ℝ) (n len : ℕ) :
    ∑ i ∈ Finset.range (len + 1), f (n + i) = f n + ∑ i ∈ Finset.range len, f (n + 1 + i) := by
  rw [Finset.sum_range_succ']
  simp only [Nat.add_zero]
  rw [add_comm]
  congr 1
  apply Finset.sum_congr rfl
  intro i _
  congr 1; omega

/-- subtracting a constant from the samples subtracts the constant times the sum of the cosines -/
theorem dftReFrom_sub_const (m : ℝ) (k N : Nat) (l : List ℝ) : ∀ n,
    dftReFrom k N n (l.map (· - m)) =
      dftReFrom k N n l - m * ∑ i ∈ Finset.range l.length, Real.cos (2 * Real.pi * ((k * (n + i) : ℕ) : ℝ) / (N : ℝ)) := by
  induction l with
  | nil => intro n; simp [dftReFrom, zero_lit]
  | cons v vs ih =>
    intro n
    simp only [List.map_cons, dftReFrom, ih, List.length_cons]
    rw [sum_range_shift (fun j => Real.cos (2 * Real.pi * ((k * j : ℕ) : ℝ) / (N : ℝ))) n vs.length]
    rw [angle_real]
    show (v - m) * Real.cos _ + _ = v * Real.cos _ + _ - _
    ring

theorem dftImFrom_sub_const (m : ℝ) (k N : Nat) (l : List ℝ) : ∀ n,
    dftImFrom k N n (l.map (· - m)) =
      dftImFrom k N n l - m * ∑ i ∈ Finset.range l.length, Real.sin (2 * Real.pi * ((k * (n + i) : ℕ) : ℝ) / (N : ℝ)) := by
  induction l with
  | nil => intro n; simp [dftImFrom, zero_lit]
  | cons v vs ih =>
    intro n
    simp only [List.map_cons, dftImFrom, ih, List.length_cons]
    rw [sum_range_shift (fun j => Real.sin (2 * Real.pi * ((k * j : ℕ) : ℝ) / (N : ℝ))) n vs.length]
    rw [angle_real]
    show (v - m) * Real.sin _ + _ = v * Real.sin _ + _ - _
    ring

/-- **The DFT of a constant vanishes off the zero-frequency bin**: for `0 < k < N` bin `k` of a length-`N`
    signal does not change when a constant is subtracted from the samples. -/
theorem dftSq_sub_const (m : ℝ) (l : List ℝ) (k : Nat) (hk : 0 < k) (hkN : k < l.length) :
    dftSq (l.map (· - m)) k = dftSq l k := by
  unfold dftSq
  rw [List.length_map, dftReFrom_sub_const, dftImFrom_sub_const]
  simp only [Nat.zero_add]
  rw [sum_cos_eq_zero k l.length hk hkN, sum_sin_eq_zero k l.length hk hkN]
  simp

end real
/-! ## windows -/

section real
open RealLike

theorem mem_chunks_length {β} (x : List β) (npw : Nat) (w : List β) (hw : w ∈ chunks x npw) :
    w.length = npw := by
  unfold chunks at hw
  obtain ⟨c, hc, rfl⟩ := List.mem_map.mp hw
  have hc : c < x.length / npw := List.mem_range.mp hc
  have h1 : (c + 1) * npw ≤ x.length / npw * npw := Nat.mul_le_mul_right npw hc
  have h2 : x.length / npw * npw ≤ x.length := Nat.div_mul_le_self _ _
  have h3 : (c + 1) * npw = c * npw + npw := by ring
  simp only [List.length_take, List.length_drop]
  omega

theorem getD_map_range {γ} (f : ℕ → γ) (n k : ℕ) (d : γ) (hk : k < n) :
    ((List.range n).map f).getD k d = f k := by
  simp [List.getD_eq_getElem?_getD, List.getElem?_map, List.getElem?_range hk]

theorem psdPower_def (x : List ℝ) (fs : ℝ) (npw : Nat) :
    psdPower x fs npw =
      (meanRows ((chunks (demean x) npw).map rfftSq) (npw / 2 + 1)).map fun v => scaling fs npw * v := rfl

/-- a list of length `npw > 0` is its own single window -/
theorem chunks_self {β} (w : List β) (npw : Nat) (hn : 0 < npw) (hl : w.length = npw) :
    chunks w npw = [w] := by
  unfold chunks
  rw [hl, Nat.div_self hn]
  simp [← hl]

/-- bin `k` (`1 ≤ k ≤ N/2`) of the un-windowed spectrum of a window `w` of `N` points:
    the window's own mean does not matter -/
theorem psdPower_single (fs : ℝ) (w : List ℝ) (npw k : Nat) (hl : w.length = npw)
    (hk1 : 1 ≤ k) (hk2 : k ≤ npw / 2) :
    (psdPower w fs npw).getD k 0 = scaling fs npw * dftSq w k := by
  have hn : 0 < npw := by omega
  have hkN : k < npw := by omega
  have hdl : (demean w).length = npw := by simp [demean, hl]
  rw [psdPower_def, chunks_self _ npw hn hdl]
  simp only [List.map_cons, List.map_nil, meanRows, List.map_map, List.length_singleton]
  rw [getD_map_range _ _ _ _ (by omega)]
  simp only [Function.comp, rsum, ofNat'_real, zero_lit]
  unfold rfftSq
  rw [hdl, getD_map_range _ _ _ _ (by omega)]
  unfold demean
  rw [dftSq_sub_const _ _ _ (by omega) (by omega)]
  simp

end real

section real
open RealLike

theorem dftImFrom_zero (N : Nat) (l : List ℝ) : ∀ n, dftImFrom 0 N n l = 0 := by
  induction l with
  | nil => intro n; simp [dftImFrom, zero_lit]
  | cons v vs ih =>
    intro n
    simp only [dftImFrom, ih, angle_real]
    show v * Real.sin _ + 0 = 0
    simp

theorem dftReFrom_zero (N : Nat) (l : List ℝ) : ∀ n, dftReFrom 0 N n l = rsum l := by
  induction l with
  | nil => intro n; simp [dftReFrom, rsum]
  | cons v vs ih =>
    intro n
    simp only [dftReFrom, ih, angle_real, rsum]
    show v * Real.cos _ + _ = _
    simp

theorem rsum_demean (x : List ℝ) : rsum (demean x) = 0 := by
  unfold demean mean
  cases x with
  | nil => simp [rsum, zero_lit]
  | cons v vs =>
    have hne : (((v :: vs).length : ℕ) : ℝ) ≠ 0 := by simp; positivity
    have h : ∀ (m : ℝ) (l : List ℝ), rsum (l.map fun w => w - m) = rsum l - l.length * m := by
      intro m l
      induction l with
      | nil => simp [rsum, zero_lit]
      | cons a as ih => simp only [List.map_cons, rsum, ih, List.length_cons]; push_cast; ring
    rw [h, ofNat'_real]
    field_simp
    ring

/-- the zero-frequency bin of a de-meaned signal is empty -/
theorem dftSq_demean_zero (x : List ℝ) : dftSq (demean x) 0 = 0 := by
  unfold dftSq
  rw [dftReFrom_zero, dftImFrom_zero, rsum_demean]
  simp [RealLike.sq]

end real
/-! ## Plancherel / Parseval for the model DFT -/

section real
open RealLike

/-- the angle used by the DFT, at `ℝ` -/
noncomputable def th (N k i : ℕ) : ℝ := 2 * Real.pi * ((k * i : ℕ) : ℝ) / (N : ℝ)

theorem dftReFrom_eq_sum (k N : ℕ) (l : List ℝ) : ∀ n,
    dftReFrom k N n l = ∑ i ∈ Finset.range l.length, l.getD i 0 * Real.cos (th N k (n + i)) := by
  induction l with
  | nil => intro n; simp [dftReFrom, zero_lit]
  | cons v vs ih =>
    intro n
    simp only [dftReFrom, ih, List.length_cons]
    rw [Finset.sum_range_succ', angle_real]
    simp only [List.getD_cons_zero, List.getD_cons_succ, Nat.add_zero]
    rw [add_comm]
    congr 1
    apply Finset.sum_congr rfl
    intro i _
    have : n + 1 + i = n + (i + 1) := by omega
    rw [this]

theorem dftImFrom_eq_sum (k N : ℕ) (l : List ℝ) : ∀ n,
    dftImFrom k N n l = ∑ i ∈ Finset.range l.length, l.getD i 0 * Real.sin (th N k (n + i)) := by
  induction l with
  | nil => intro n; simp [dftImFrom, zero_lit]
  | cons v vs ih =>
    intro n
    simp only [dftImFrom, ih, List.length_cons]
    rw [Finset.sum_range_succ', angle_real]
    simp only [List.getD_cons_zero, List.getD_cons_succ, Nat.add_zero]
    rw [add_comm]
    congr 1
    apply Finset.sum_congr rfl
    intro i _
    have : n + 1 + i = n + (i + 1) := by omega
    rw [this]

/-- `|X_k|²` as a double sum of `y_i y_j cos(θ_ki − θ_kj)` -/
theorem dftSq_eq_double_sum (y : List ℝ) (k : ℕ) :
    dftSq y k = ∑ i ∈ Finset.range y.length, ∑ j ∈ Finset.range y.length,
      y.getD i 0 * y.getD j 0 * Real.cos (th y.length k i - th y.length k j) := by
  unfold dftSq
  rw [dftReFrom_eq_sum, dftImFrom_eq_sum]
  simp only [RealLike.sq, Nat.zero_add]
  rw [Finset.sum_mul_sum, Finset.sum_mul_sum, ← Finset.sum_add_distrib]
  apply Finset.sum_congr rfl
  intro i _
  rw [← Finset.sum_add_distrib]
  apply Finset.sum_congr rfl
  intro j _
  rw [Real.cos_sub]; ring

/-- orthogonality of the cosines over a full period -/
theorem sum_cos_diff (N i j : ℕ) (hi : i < N) (hj : j < N) :
    ∑ k ∈ Finset.range N, Real.cos (th N k i - th N k j) = if i = j then (N : ℝ) else 0 := by
  have hN : (N : ℝ) ≠ 0 := by
    have : N ≠ 0 := by omega
    exact_mod_cast this
  by_cases hij : i = j
  · subst hij; simp
  · rw [if_neg hij]
    rcases Nat.lt_or_gt_of_ne hij with hlt | hgt
    · -- i < j : cos is even
      have := sum_cos_eq_zero (j - i) N (by omega) (by omega)
      rw [← this]
      apply Finset.sum_congr rfl
      intro k _
      rw [← Real.cos_neg]
      congr 1
      unfold th
      rw [Nat.cast_mul, Nat.cast_mul, Nat.cast_mul, Nat.cast_sub (le_of_lt hlt)]
      field_simp
      ring
    · have := sum_cos_eq_zero (i - j) N (by omega) (by omega)
      rw [← this]
      apply Finset.sum_congr rfl
      intro k _
      congr 1
      unfold th
      rw [Nat.cast_mul, Nat.cast_mul, Nat.cast_mul, Nat.cast_sub (le_of_lt hgt)]
      field_simp

/-- **Plancherel** for the full (two-sided) DFT of a real list -/
theorem plancherel (y : List ℝ) :
    ∑ k ∈ Finset.range y.length, dftSq y k
      = (y.length : ℝ) * ∑ i ∈ Finset.range y.length, y.getD i 0 * y.getD i 0 := by
  simp only [dftSq_eq_double_sum]
  rw [Finset.sum_comm]
  rw [Finset.mul_sum]
  apply Finset.sum_congr rfl
  intro i hi
  rw [Finset.sum_comm]
  have : ∀ j ∈ Finset.range y.length,
      ∑ k ∈ Finset.range y.length, y.getD i 0 * y.getD j 0 * Real.cos (th y.length k i - th y.length k j)
        = y.getD i 0 * y.getD j 0 * (if i = j then (y.length : ℝ) else 0) := by
    intro j hj
    rw [← Finset.mul_sum, sum_cos_diff _ i j (Finset.mem_range.mp hi) (Finset.mem_range.mp hj)]
  rw [Finset.sum_congr rfl this]
  simp only [mul_ite, mul_zero]
  rw [Finset.sum_ite_eq]
  simp only [hi, if_true]
  ring

/-- conjugate symmetry of the DFT of a real signal: `|X_{N-k}|² = |X_k|²` -/
theorem dftSq_reflect (y : List ℝ) (k : ℕ) (hk : k ≤ y.length) :
    dftSq y (y.length - k) = dftSq y k := by
  by_cases hN0 : y.length = 0
  · have : k = 0 := by omega
    subst this; rw [hN0]
  have hN : (y.length : ℝ) ≠ 0 := by exact_mod_cast hN0
  have hth : ∀ i : ℕ, th y.length (y.length - k) i = (i : ℝ) * (2 * Real.pi) - th y.length k i := by
    intro i
    unfold th
    rw [Nat.cast_mul, Nat.cast_mul, Nat.cast_sub hk]
    field_simp
  unfold dftSq
  rw [dftReFrom_eq_sum, dftImFrom_eq_sum, dftReFrom_eq_sum, dftImFrom_eq_sum]
  simp only [Nat.zero_add, hth, Real.cos_nat_mul_two_pi_sub, Real.sin_nat_mul_two_pi_sub, mul_neg,
    Finset.sum_neg_distrib, RealLike.sq]
  ring

/-- folding a sum over a full period of a reflection-symmetric sequence onto the lower half -/
theorem fold_odd (S : ℕ → ℝ) (h : ℕ) (hS : ∀ k, 0 < k → k < 2 * h + 1 → S (2 * h + 1 - k) = S k) :
    ∑ k ∈ Finset.range (2 * h + 1), S k = S 0 + 2 * ∑ k ∈ Finset.range h, S (k + 1) := by
  rw [Finset.sum_range_succ', show 2 * h = h + h by ring, Finset.sum_range_add]
  have : ∑ x ∈ Finset.range h, S (h + x + 1) = ∑ x ∈ Finset.range h, S (x + 1) := by
    rw [← Finset.sum_range_reflect]
    apply Finset.sum_congr rfl
    intro x hx
    have hx := Finset.mem_range.mp hx
    have := hS (x + 1) (by omega) (by omega)
    rw [← this]
    congr 1; omega
  rw [this]; ring

theorem fold_even (S : ℕ → ℝ) (h : ℕ) (hS : ∀ k, 0 < k → k < 2 * h + 2 → S (2 * h + 2 - k) = S k) :
    ∑ k ∈ Finset.range (2 * h + 2), S k = S 0 + 2 * ∑ k ∈ Finset.range h, S (k + 1) + S (h + 1) := by
  rw [Finset.sum_range_succ', show 2 * h + 1 = h + (h + 1) by ring, Finset.sum_range_add,
    Finset.sum_range_succ']
  have : ∑ x ∈ Finset.range h, S (h + (x + 1) + 1) = ∑ x ∈ Finset.range h, S (x + 1) := by
    rw [← Finset.sum_range_reflect]
    apply Finset.sum_congr rfl
    intro x hx
    have hx := Finset.mem_range.mp hx
    have := hS (x + 1) (by omega) (by omega)
    rw [← this]
    congr 1; omega
  rw [this]
  simp only [Nat.add_zero]
  ring

theorem list_sum_eq_finset (l : List ℝ) (f : ℝ → ℝ) :
    (l.map f).sum = ∑ i ∈ Finset.range l.length, f (l.getD i 0) := by
  induction l with
  | nil => simp
  | cons v vs ih =>
    rw [List.map_cons, List.sum_cons, List.length_cons, Finset.sum_range_succ', ih]
    simp only [List.getD_cons_zero, List.getD_cons_succ]
    ring

/-- bin `k ≤ N/2` of the un-windowed spectrum -/
theorem psdPower_unwindowed (fs : ℝ) (x : List ℝ) (hx : x ≠ []) (k : ℕ) (hk : k ≤ x.length / 2) :
    (psdPower x fs x.length).getD k 0 = scaling fs x.length * dftSq (demean x) k := by
  have hn : 0 < x.length := List.length_pos_iff.mpr hx
  have hdl : (demean x).length = x.length := by simp [demean]
  rw [psdPower_def, chunks_self _ x.length hn hdl]
  simp only [List.map_cons, List.map_nil, meanRows, List.map_map, List.length_singleton]
  rw [getD_map_range _ _ _ _ (by omega)]
  simp only [Function.comp, rsum, ofNat'_real, zero_lit]
  unfold rfftSq
  rw [hdl, getD_map_range _ _ _ _ (by omega)]
  simp

/-- `np.var`: the population variance, written without reference to the model -/
noncomputable def variance (x : List ℝ) : ℝ :=
  (x.map fun v => (v - x.sum / x.length) * (v - x.sum / x.length)).sum / x.length

theorem sum_sq_demean (x : List ℝ) :
    ∑ i ∈ Finset.range (demean x).length, (demean x).getD i 0 * (demean x).getD i 0
      = (x.length : ℝ) * variance x := by
  rw [← list_sum_eq_finset (demean x) (fun v => v * v)]
  unfold demean mean variance
  rw [List.map_map, rsum_real, ofNat'_real]
  by_cases hx : (x.length : ℝ) = 0
  · have : x = [] := by
      have : x.length = 0 := by exact_mod_cast hx
      exact List.length_eq_zero_iff.mp this
    subst this; simp
  · have h : ∀ A : ℝ, (x.length : ℝ) * (A / (x.length : ℝ)) = A := fun A => by field_simp
    rw [h]
    rfl

/-- total (two-sided) power of the de-meaned signal -/
theorem total_power (x : List ℝ) :
    ∑ k ∈ Finset.range x.length, dftSq (demean x) k = (x.length : ℝ) * ((x.length : ℝ) * variance x) := by
  have hdl : (demean x).length = x.length := by simp [demean]
  have := plancherel (demean x)
  rw [sum_sq_demean, hdl] at this
  exact this

end real
/-! ## Parseval for the windowed spectrum -/

section real
open RealLike

/-- the one-sided fold of a sequence of `npw` two-sided bins -/
noncomputable def oneSided (S : ℕ → ℝ) (npw : ℕ) : ℝ :=
  S 0 + 2 * ∑ k ∈ Finset.range ((npw - 1) / 2), S (k + 1) + if npw % 2 = 0 then S (npw / 2) else 0

theorem oneSided_add (S T : ℕ → ℝ) (npw : ℕ) :
    oneSided (fun k => S k + T k) npw = oneSided S npw + oneSided T npw := by
  unfold oneSided
  rw [Finset.sum_add_distrib]
  split <;> ring

theorem oneSided_zero (npw : ℕ) : oneSided (fun _ => 0) npw = 0 := by
  unfold oneSided; simp

/-- one window: the one-sided fold of its squared DFT is `N·Σ w²` -/
theorem oneSided_window (w : List ℝ) (npw : ℕ) (hn : 0 < npw) (hl : w.length = npw) :
    oneSided (fun k => dftSq w k) npw = (npw : ℝ) * (w.map fun v => v * v).sum := by
  have hsym : ∀ k, 0 < k → k < npw → dftSq w (npw - k) = dftSq w k := by
    intro k _ hk
    have := dftSq_reflect w k (by omega)
    rwa [hl] at this
  have hpl := plancherel w
  rw [← list_sum_eq_finset w (fun v => v * v), hl] at hpl
  rw [← hpl]
  unfold oneSided
  rcases Nat.even_or_odd' npw with ⟨h, hh | hh⟩
  · obtain ⟨h', rfl⟩ : ∃ h', h = h' + 1 := ⟨h - 1, by omega⟩
    have hN2 : npw = 2 * h' + 2 := by omega
    subst hN2
    have hfold := fold_even (fun k => dftSq w k) h' (by
      intro k hk1 hk2
      exact hsym k hk1 hk2)
    have e1 : (2 * h' + 2 - 1) / 2 = h' := by omega
    have e2 : (2 * h' + 2) % 2 = 0 := by omega
    have e3 : (2 * h' + 2) / 2 = h' + 1 := by omega
    rw [e1, if_pos e2, e3, hfold]
  · subst hh
    have hfold := fold_odd (fun k => dftSq w k) h (by
      intro k hk1 hk2
      exact hsym k hk1 hk2)
    have e1 : (2 * h + 1 - 1) / 2 = h := by omega
    have e2 : ¬ (2 * h + 1) % 2 = 0 := by omega
    rw [e1, if_neg e2, hfold]; ring

theorem oneSided_windows (W : List (List ℝ)) (npw : ℕ) (hn : 0 < npw) (hW : ∀ w ∈ W, w.length = npw) :
    oneSided (fun k => (W.map fun w => dftSq w k).sum) npw
      = (npw : ℝ) * (W.map fun w => (w.map fun v => v * v).sum).sum := by
  induction W with
  | nil => simp [oneSided_zero]
  | cons w W ih =>
    simp only [List.map_cons, List.sum_cons]
    rw [oneSided_add (fun k => dftSq w k) (fun k => (W.map fun w => dftSq w k).sum), ih (fun v hv => hW v (List.mem_cons_of_mem _ hv)),
      oneSided_window w npw hn (hW w List.mem_cons_self)]
    ring

/-- the windows tile the first `⌊n/npw⌋·npw` samples -/
theorem sum_chunks_aux {β} (l : List β) (f : β → ℝ) (npw : ℕ) : ∀ c, 
    ((List.range c).map fun i => (((l.drop (i * npw)).take npw).map f).sum).sum = ((l.take (c * npw)).map f).sum := by
  intro c
  induction c with
  | zero => simp
  | succ c ih =>
    rw [List.range_succ, List.map_append, List.sum_append, ih]
    simp only [List.map_cons, List.map_nil, List.sum_cons, List.sum_nil, add_zero]
    rw [show (c + 1) * npw = c * npw + npw by ring, List.take_add, List.map_append, List.sum_append]

theorem sum_chunks {β} (l : List β) (f : β → ℝ) (npw : ℕ) :
    ((chunks l npw).map fun w => (w.map f).sum).sum = ((l.take (l.length / npw * npw)).map f).sum := by
  unfold chunks
  rw [List.map_map]
  exact sum_chunks_aux l f npw _

/-- bin `k ≤ N_w/2` of the windowed spectrum -/
theorem psdPower_bin (fs : ℝ) (x : List ℝ) (npw k : ℕ) (hk : k ≤ npw / 2) :
    (psdPower x fs npw).getD k 0 =
      scaling fs npw * (((chunks (demean x) npw).map fun w => dftSq w k).sum / ((x.length / npw : ℕ) : ℝ)) := by
  have hL : (((chunks (demean x) npw).map rfftSq).map fun r => r.getD k (0.0 : ℝ))
      = (chunks (demean x) npw).map fun w => dftSq w k := by
    rw [List.map_map]
    apply List.map_congr_left
    intro w hw
    have hl := mem_chunks_length _ npw w hw
    simp only [Function.comp]
    unfold rfftSq
    rw [hl, getD_map_range _ _ _ _ (by omega)]
  rw [psdPower_def]
  unfold meanRows
  rw [List.map_map, getD_map_range _ _ _ _ (by omega)]
  simp only [Function.comp]
  have hlen : (chunks (demean x) npw).length = x.length / npw := by
    rw [chunks_length]; simp [demean]
  rw [hL, ofNat'_real, List.length_map, hlen, rsum_real]


/-- mean square deviation, from the mean of the WHOLE signal, of the samples the windows use (`np.mean((x[:tsu] - x.mean())**2)`);
    written without reference to the model -/
noncomputable def usedMeanSq (x : List ℝ) (npw : ℕ) : ℝ :=
  ((x.take (x.length / npw * npw)).map fun v => (v - x.sum / x.length) * (v - x.sum / x.length)).sum
    / ((x.length / npw * npw : ℕ) : ℝ)

theorem usedMeanSq_of_dvd (x : List ℝ) (npw : ℕ) (hd : npw ∣ x.length) : usedMeanSq x npw = variance x := by
  unfold usedMeanSq variance
  rw [Nat.div_mul_cancel hd, List.take_length]

end real
/-! ## block averaging twice; block means stay within the bounds of the data; `fitInit` -/

theorem sum_range_mul (g : Nat → Rat) (b : Nat) : ∀ a,
    ((List.range (a * b)).map g).sum = ((List.range a).map fun j => ((List.range b).map fun m => g (j * b + m)).sum).sum := by
  intro a
  induction a with
  | zero => simp
  | succ a ih =>
    rw [show (a + 1) * b = a * b + b by ring, List.range_add, List.map_append, List.sum_append, ih,
      List.range_succ, List.map_append, List.sum_append]
    simp [List.map_map, Function.comp_def]

theorem sum_map_div (l : List Nat) (g : Nat → Rat) (c : Rat) :
    (l.map fun j => g j / c).sum = (l.map g).sum / c := by
  induction l with
  | nil => simp
  | cons x xs ih => simp only [List.map_cons, List.sum_cons, ih]; ring

theorem getD_downsampleMean (k : Nat) (hk : 0 < k) (l : List Rat) (i : Nat) (hi : i < l.length / k) :
    (downsampleMean k l).getD i 0 = ((List.range k).map fun j => l.getD (i * k + j) 0).sum / (k : Rat) := by
  rw [List.getD_eq_getElem?_getD, List.getElem?_eq_getElem (by rw [downsampleMean_length k hk]; exact hi),
    Option.getD_some, downsampleMean_getElem k hk l i hi]

/-- block averaging twice = block averaging once by the product -/
theorem downsampleMean_twice (k₁ k₂ : Nat) (h₁ : 0 < k₁) (h₂ : 0 < k₂) (l : List Rat) :
    downsampleMean k₂ (downsampleMean k₁ l) = downsampleMean (k₁ * k₂) l := by
  have h12 : 0 < k₁ * k₂ := Nat.mul_pos h₁ h₂
  apply List.ext_getElem
  · rw [downsampleMean_length k₂ h₂, downsampleMean_length k₁ h₁, downsampleMean_length _ h12, Nat.div_div_eq_div_mul]
  · intro i hi1 hi2
    rw [downsampleMean_length _ h12] at hi2
    have hi1' : i < (downsampleMean k₁ l).length / k₂ := by rwa [downsampleMean_length k₂ h₂] at hi1
    rw [downsampleMean_getElem k₂ h₂ _ i hi1', downsampleMean_getElem _ h12 l i hi2]
    have hin : ∀ j ∈ List.range k₂, (downsampleMean k₁ l).getD (i * k₂ + j) 0
        = ((List.range k₁).map fun m => l.getD (i * (k₁ * k₂) + (j * k₁ + m)) 0).sum / (k₁ : Rat) := by
      intro j hj
      have hj := List.mem_range.mp hj
      rw [downsampleMean_length k₁ h₁] at hi1'
      have : i * k₂ + j < l.length / k₁ := by
        calc i * k₂ + j < (i + 1) * k₂ := by nlinarith
          _ ≤ l.length / k₁ / k₂ * k₂ := Nat.mul_le_mul_right _ hi1'
          _ ≤ l.length / k₁ := Nat.div_mul_le_self _ _
      rw [getD_downsampleMean k₁ h₁ l _ this]
      congr 2
      apply List.map_congr_left
      intro m _
      congr 1; ring
    rw [List.map_congr_left hin, sum_map_div, Nat.mul_comm k₁ k₂,
      sum_range_mul (fun t => l.getD (i * (k₂ * k₁) + t) 0) k₁ k₂]
    have hk1 : (k₁ : Rat) ≠ 0 := by exact_mod_cast (by omega : k₁ ≠ 0)
    have hk2 : (k₂ : Rat) ≠ 0 := by exact_mod_cast (by omega : k₂ ≠ 0)
    push_cast
    field_simp

/-! block means stay inside the bounds of the data -/

theorem sum_range_le (g : Nat → Rat) (hi : Rat) : ∀ k, (∀ j, j < k → g j ≤ hi) →
    ((List.range k).map g).sum ≤ (k : Rat) * hi := by
  intro k
  induction k with
  | zero => intro _; simp
  | succ k ih =>
    intro h
    rw [List.range_succ, List.map_append, List.sum_append]
    have := ih (fun j hj => h j (by omega))
    have := h k (by omega)
    simp only [List.map_cons, List.map_nil, List.sum_cons, List.sum_nil]
    push_cast
    linarith

theorem sum_range_ge (g : Nat → Rat) (lo : Rat) : ∀ k, (∀ j, j < k → lo ≤ g j) →
    (k : Rat) * lo ≤ ((List.range k).map g).sum := by
  intro k
  induction k with
  | zero => intro _; simp
  | succ k ih =>
    intro h
    rw [List.range_succ, List.map_append, List.sum_append]
    have := ih (fun j hj => h j (by omega))
    have := h k (by omega)
    simp only [List.map_cons, List.map_nil, List.sum_cons, List.sum_nil]
    push_cast
    linarith

theorem sum_range_gt (g : Nat → Rat) (lo : Rat) : ∀ k, 0 < k → (∀ j, j < k → lo < g j) →
    (k : Rat) * lo < ((List.range k).map g).sum := by
  intro k
  induction k with
  | zero => intro h; omega
  | succ k ih =>
    intro _ h
    rw [List.range_succ, List.map_append, List.sum_append]
    have h1 := sum_range_ge g lo k (fun j hj => le_of_lt (h j (by omega)))
    have := h k (by omega)
    simp only [List.map_cons, List.map_nil, List.sum_cons, List.sum_nil]
    push_cast
    linarith

/-- every output of `downsample(·, k, mean)` is the mean of `k` members of the input -/
theorem mem_downsampleMean (k : Nat) (hk : 0 < k) (l : List Rat) (y : Rat) (hy : y ∈ downsampleMean k l) :
    ∃ g : Nat → Rat, (∀ j, j < k → g j ∈ l) ∧ y = ((List.range k).map g).sum / (k : Rat) := by
  obtain ⟨i, hi, rfl⟩ := List.getElem_of_mem hy
  have hi' : i < l.length / k := by rwa [downsampleMean_length k hk] at hi
  refine ⟨fun j => l.getD (i * k + j) 0, ?_, downsampleMean_getElem k hk l i hi'⟩
  intro j hj
  have : i * k + j < l.length := by
    calc i * k + j < (i + 1) * k := by nlinarith
      _ ≤ l.length / k * k := Nat.mul_le_mul_right _ hi'
      _ ≤ l.length := Nat.div_mul_le_self _ _
  show l.getD (i * k + j) 0 ∈ l
  rw [List.getD_eq_getElem?_getD, List.getElem?_eq_getElem this]
  exact List.getElem_mem this

theorem downsampleMean_bounds (k : Nat) (hk : 0 < k) (l : List Rat) (lo hi : Rat) :
    ((∀ x ∈ l, lo ≤ x) → ∀ y ∈ downsampleMean k l, lo ≤ y) ∧
    ((∀ x ∈ l, lo < x) → ∀ y ∈ downsampleMean k l, lo < y) ∧
    ((∀ x ∈ l, x ≤ hi) → ∀ y ∈ downsampleMean k l, y ≤ hi) := by
  have hkR : (0 : Rat) < (k : Rat) := by exact_mod_cast hk
  refine ⟨?_, ?_, ?_⟩
  · intro h y hy
    obtain ⟨g, hg, rfl⟩ := mem_downsampleMean k hk l y hy
    rw [le_div_iff₀ hkR]
    have := sum_range_ge g lo k (fun j hj => h _ (hg j hj))
    linarith
  · intro h y hy
    obtain ⟨g, hg, rfl⟩ := mem_downsampleMean k hk l y hy
    rw [lt_div_iff₀ hkR]
    have := sum_range_gt g lo k hk (fun j hj => h _ (hg j hj))
    linarith
  · intro h y hy
    obtain ⟨g, hg, rfl⟩ := mem_downsampleMean k hk l y hy
    rw [div_le_iff₀ hkR]
    have := sum_range_le g hi k (fun j hj => h _ (hg j hj))
    linarith

/-! `fitInit` -/
section order
variable {α : Type} [LinearOrder α]

theorem foldl_min_spec (xs : List α) : ∀ m : α,
    (xs.foldl (fun m y => if y < m then y else m) m ≤ m) ∧
    (∀ x ∈ xs, xs.foldl (fun m y => if y < m then y else m) m ≤ x) ∧
    (xs.foldl (fun m y => if y < m then y else m) m = m ∨ xs.foldl (fun m y => if y < m then y else m) m ∈ xs) := by
  induction xs with
  | nil => intro m; simp
  | cons y ys ih =>
    intro m
    simp only [List.foldl_cons]
    obtain ⟨h1, h2, h3⟩ := ih (if y < m then y else m)
    have hle : (if y < m then y else m) ≤ m := by split <;> [exact le_of_lt ‹_›; exact le_refl _]
    have hley : (if y < m then y else m) ≤ y := by split <;> [exact le_refl _; exact not_lt.mp ‹_›]
    refine ⟨le_trans h1 hle, ?_, ?_⟩
    · intro x hx
      rcases List.mem_cons.mp hx with rfl | hx
      · exact le_trans h1 hley
      · exact h2 x hx
    · rcases h3 with h3 | h3
      · rw [h3]
        by_cases hym : y < m
        · rw [if_pos hym]; right; exact List.mem_cons_self
        · rw [if_neg hym]; left; rfl
      · right; exact List.mem_cons_of_mem _ h3

theorem foldl_max_spec (xs : List α) : ∀ m : α,
    (m ≤ xs.foldl (fun m y => if m < y then y else m) m) ∧
    (∀ x ∈ xs, x ≤ xs.foldl (fun m y => if m < y then y else m) m) ∧
    (xs.foldl (fun m y => if m < y then y else m) m = m ∨ xs.foldl (fun m y => if m < y then y else m) m ∈ xs) := by
  induction xs with
  | nil => intro m; simp
  | cons y ys ih =>
    intro m
    simp only [List.foldl_cons]
    obtain ⟨h1, h2, h3⟩ := ih (if m < y then y else m)
    have hle : m ≤ (if m < y then y else m) := by split <;> [exact le_of_lt ‹_›; exact le_refl _]
    have hley : y ≤ (if m < y then y else m) := by split <;> [exact le_refl _; exact not_lt.mp ‹_›]
    refine ⟨le_trans hle h1, ?_, ?_⟩
    · intro x hx
      rcases List.mem_cons.mp hx with rfl | hx
      · exact le_trans hley h1
      · exact h2 x hx
    · rcases h3 with h3 | h3
      · rw [h3]
        by_cases hym : m < y
        · rw [if_pos hym]; right; exact List.mem_cons_self
        · rw [if_neg hym]; left; rfl
      · right; exact List.mem_cons_of_mem _ h3

/-- `fitInit` returns the least and the greatest element -/
theorem fitInit_spec (f : List α) (lo hi : α) (h : fitInit f = some (lo, hi)) :
    lo ∈ f ∧ hi ∈ f ∧ ∀ x ∈ f, lo ≤ x ∧ x ≤ hi := by
  cases f with
  | nil => simp [fitInit] at h
  | cons x xs =>
    simp only [fitInit, Option.some.injEq, Prod.mk.injEq] at h
    obtain ⟨rfl, rfl⟩ := h
    obtain ⟨a1, a2, a3⟩ := foldl_min_spec xs x
    obtain ⟨b1, b2, b3⟩ := foldl_max_spec xs x
    refine ⟨?_, ?_, ?_⟩
    · rcases a3 with a3 | a3
      · rw [a3]; exact List.mem_cons_self
      · exact List.mem_cons_of_mem _ a3
    · rcases b3 with b3 | b3
      · rw [b3]; exact List.mem_cons_self
      · exact List.mem_cons_of_mem _ b3
    · intro y hy
      rcases List.mem_cons.mp hy with rfl | hy
      · exact ⟨a1, b1⟩
      · exact ⟨a2 y hy, b2 y hy⟩

theorem fitInit_isSome (f : List α) (h : f ≠ []) : ∃ lo hi, fitInit f = some (lo, hi) := by
  cases f with
  | nil => exact absurd rfl h
  | cons x xs => exact ⟨_, _, rfl⟩

end order

end Verif.C10
