/-
  C11, deepening round D — helper lemmas:
  * the objective of `_fit_power_spectra` (`chi2`): non-negative, zero exactly on a pointwise fit;
  * identifiability of the Lorentzian and of the Lorentzian × diode spectrum from finitely many
    frequencies (a cubic with four roots vanishes), and the swapped twin (`f_c ↔ f_diode`);
  * the three-point parabola and the Gaussian peak of `estimate_driving_input_parameters`.
-/
import Verif.Lemmas.C11
import Mathlib.Tactic.LinearCombination

namespace Verif.C11
theorem zero_lit : (0.0 : ℝ) = 0 := by norm_num
theorem one_lit : (1.0 : ℝ) = 1 := by norm_num
open Verif

/-! ## `chi2` -/


theorem chi2_cons (psd : ℝ → ℝ) (n f p : ℝ) (fs ps : List ℝ) :
    chi2 psd n (f :: fs) (p :: ps)
      = ((1 / psd f - 1 / p) / ((1 / p) / Real.sqrt n)) ^ 2 + chi2 psd n fs ps := by
  simp only [chi2, RealLike.sqrt, one_lit]; ring

theorem chi2_nonneg' (psd : ℝ → ℝ) (n : ℝ) (fs ps : List ℝ) : 0 ≤ chi2 psd n fs ps := by
  fun_induction chi2 psd n fs ps with
  | case1 f fs p ps sigma r ih =>
    exact add_nonneg (mul_self_nonneg _) ih
  | case2 => exact zero_lit.ge

theorem chi2_zero_iff' (psd : ℝ → ℝ) (n : ℝ) (hn : 0 < n) (fs ps : List ℝ)
    (hp : ∀ x ∈ fs.zip ps, x.2 ≠ 0) :
    chi2 psd n fs ps = 0 ↔ ∀ x ∈ fs.zip ps, 1 / psd x.1 = 1 / x.2 := by
  induction fs generalizing ps with
  | nil => simp [chi2, zero_lit]
  | cons f fs ih =>
    cases ps with
    | nil => simp [chi2, zero_lit]
    | cons p ps =>
      rw [chi2_cons]
      have hp0 : p ≠ 0 := hp (f, p) (by simp)
      have hps : ∀ x ∈ fs.zip ps, x.2 ≠ 0 := fun x hx => hp x (by simp [hx])
      have hs : (1 / p) / Real.sqrt n ≠ 0 :=
        div_ne_zero (one_div_ne_zero hp0) (Real.sqrt_pos.mpr hn).ne'
      have h1 := chi2_nonneg' psd n fs ps
      have h2 := sq_nonneg ((1 / psd f - 1 / p) / ((1 / p) / Real.sqrt n))
      constructor
      · intro h
        have e1 : ((1 / psd f - 1 / p) / ((1 / p) / Real.sqrt n)) ^ 2 = 0 := by linarith
        have e2 : chi2 psd n fs ps = 0 := by linarith
        have e3 : 1 / psd f - 1 / p = 0 := by
          have := pow_eq_zero_iff (n := 2) (by norm_num) |>.mp e1
          rcases div_eq_zero_iff.mp this with h | h
          · exact h
          · exact absurd h hs
        intro x hx
        simp only [List.zip_cons_cons, List.mem_cons] at hx
        rcases hx with rfl | hx
        · exact sub_eq_zero.mp e3
        · exact (ih ps hps).mp e2 x hx
      · intro h
        have e3 : 1 / psd f = 1 / p := h (f, p) (by simp)
        have e2 : chi2 psd n fs ps = 0 := (ih ps hps).mpr fun x hx => h x (by simp [hx])
        rw [e2, e3]; simp

theorem mem_zip_map {β γ : Type} (g : β → γ) (l : List β) (x : β) (hx : x ∈ l) :
    (x, g x) ∈ l.zip (l.map g) := by
  induction l with
  | nil => cases hx
  | cons a t ih =>
    simp only [List.map_cons, List.zip_cons_cons, List.mem_cons] at hx ⊢
    rcases hx with rfl | hx
    · exact Or.inl rfl
    · exact Or.inr (ih hx)

theorem zip_map_snd {β γ : Type} (g : β → γ) (l : List β) (x : β × γ) (hx : x ∈ l.zip (l.map g)) :
    x.1 ∈ l ∧ x.2 = g x.1 := by
  induction l with
  | nil => simp at hx
  | cons a t ih =>
    simp only [List.map_cons, List.zip_cons_cons, List.mem_cons] at hx ⊢
    rcases hx with rfl | hx
    · exact ⟨Or.inl rfl, rfl⟩
    · exact ⟨Or.inr (ih hx).1, (ih hx).2⟩

/-! ## Identifiability -/

/-- a cubic that vanishes at four distinct points is the zero polynomial -/
theorem cubic_zero (c3 c2 c1 c0 u1 u2 u3 u4 : ℝ) (h12 : u1 ≠ u2) (h13 : u1 ≠ u3) (h14 : u1 ≠ u4)
    (h24 : u2 ≠ u4)
    (e1 : c3 * u1 ^ 3 + c2 * u1 ^ 2 + c1 * u1 + c0 = 0)
    (e2 : c3 * u2 ^ 3 + c2 * u2 ^ 2 + c1 * u2 + c0 = 0)
    (e3 : c3 * u3 ^ 3 + c2 * u3 ^ 2 + c1 * u3 + c0 = 0)
    (e4 : c3 * u4 ^ 3 + c2 * u4 ^ 2 + c1 * u4 + c0 = 0)
    (h23 : u2 ≠ u3) (h34 : u3 ≠ u4) : c3 = 0 ∧ c2 = 0 ∧ c1 = 0 ∧ c0 = 0 := by
  have d12 : c3 * (u1 ^ 2 + u1 * u2 + u2 ^ 2) + c2 * (u1 + u2) + c1 = 0 :=
    mul_left_cancel₀ (sub_ne_zero.2 h12) (by linear_combination e1 - e2)
  have d23 : c3 * (u2 ^ 2 + u2 * u3 + u3 ^ 2) + c2 * (u2 + u3) + c1 = 0 :=
    mul_left_cancel₀ (sub_ne_zero.2 h23) (by linear_combination e2 - e3)
  have d34 : c3 * (u3 ^ 2 + u3 * u4 + u4 ^ 2) + c2 * (u3 + u4) + c1 = 0 :=
    mul_left_cancel₀ (sub_ne_zero.2 h34) (by linear_combination e3 - e4)
  have g123 : c3 * (u1 + u2 + u3) + c2 = 0 :=
    mul_left_cancel₀ (sub_ne_zero.2 h13) (by linear_combination d12 - d23)
  have g234 : c3 * (u2 + u3 + u4) + c2 = 0 :=
    mul_left_cancel₀ (sub_ne_zero.2 h24) (by linear_combination d23 - d34)
  have k3 : c3 = 0 := mul_left_cancel₀ (sub_ne_zero.2 h14) (by linear_combination g123 - g234)
  have k2 : c2 = 0 := by rw [k3] at g123; linarith
  have k1 : c1 = 0 := by rw [k3, k2] at d12; linarith
  have k0 : c0 = 0 := by rw [k3, k2, k1] at e1; linarith
  exact ⟨k3, k2, k1, k0⟩

/-- the Lorentzian × diode spectrum as a rational function of `u = f²` -/
theorem ld_form (f fc D fd al : ℝ) (hfd : fd ≠ 0) :
    lorentzDiodePsd f fc D fd al
      = D / Real.pi ^ 2 * (fd ^ 2 + al ^ 2 * f ^ 2) / ((f ^ 2 + fc ^ 2) * (f ^ 2 + fd ^ 2)) := by
  have h1 : f ^ 2 + fd ^ 2 ≠ 0 := by positivity
  have hpi : Real.pi ≠ 0 := Real.pi_ne_zero
  simp only [lorentzDiodePsd, lorentzianPsd, gDiode, RealLike.pi, one_lit]
  by_cases h2 : f ^ 2 + fc ^ 2 = 0
  · have h2' : f * f + fc * fc = 0 := by nlinarith
    rw [h2, h2']; simp
  · have h2' : f * f + fc * fc ≠ 0 := by intro h; apply h2; nlinarith
    have h3 : 1 + f / fd * (f / fd) ≠ 0 :=
      (add_pos_of_pos_of_nonneg one_pos (mul_self_nonneg (f / fd))).ne'
    field_simp
    ring

theorem ld_pos (f fc D fd al : ℝ) (hfc : 0 < fc) (hD : 0 < D) (hfd : 0 < fd) :
    0 < lorentzDiodePsd f fc D fd al := by
  rw [ld_form _ _ _ _ _ hfd.ne']
  have := Real.pi_pos
  positivity

/-- the swapped twin: exchanging `f_c` and `f_diode` (with `D' = D·f_d²/f_c²`, `α' = α·f_c/f_d`)
    gives the same spectrum at every frequency -/
theorem ld_twin' (f fc D fd al : ℝ) (hfc : fc ≠ 0) (hfd : fd ≠ 0) :
    lorentzDiodePsd f fd (D * fd ^ 2 / fc ^ 2) fc (al * fc / fd) = lorentzDiodePsd f fc D fd al := by
  rw [ld_form _ _ _ _ _ hfd, ld_form _ _ _ _ _ hfc]
  have hpi : Real.pi ≠ 0 := Real.pi_ne_zero
  have h1 : f ^ 2 + fd ^ 2 ≠ 0 := by positivity
  have h2 : f ^ 2 + fc ^ 2 ≠ 0 := by positivity
  field_simp

/-- cross-multiplied equality of two Lorentzian × diode spectra at one frequency -/
theorem ld_cross (f fc D fd al fc' D' fd' al' : ℝ) (hfc : 0 < fc) (hfd : 0 < fd) (hfc' : 0 < fc')
    (hfd' : 0 < fd')
    (h : lorentzDiodePsd f fc' D' fd' al' = lorentzDiodePsd f fc D fd al) :
    D' * (fd' ^ 2 + al' ^ 2 * f ^ 2) * ((f ^ 2 + fc ^ 2) * (f ^ 2 + fd ^ 2))
      = D * (fd ^ 2 + al ^ 2 * f ^ 2) * ((f ^ 2 + fc' ^ 2) * (f ^ 2 + fd' ^ 2)) := by
  rw [ld_form _ _ _ _ _ hfd.ne', ld_form _ _ _ _ _ hfd'.ne'] at h
  have hpi : Real.pi ≠ 0 := Real.pi_ne_zero
  have h1 : (f ^ 2 + fc ^ 2) * (f ^ 2 + fd ^ 2) ≠ 0 := by positivity
  have h2 : (f ^ 2 + fc' ^ 2) * (f ^ 2 + fd' ^ 2) ≠ 0 := by positivity
  rw [div_eq_div_iff h2 h1] at h
  field_simp at h
  linear_combination h

theorem sq_inj_pos {x y : ℝ} (hx : 0 ≤ x) (hy : 0 ≤ y) (h : x ^ 2 = y ^ 2) : x = y := by
  nlinarith [sq_nonneg (x - y), sq_nonneg (x + y)]

/-- four frequencies with distinct squares determine `(f_c, D, f_diode, α)` inside
    `0 < f_c < f_diode`, `0 ≤ α < 1`, `D > 0` -/
theorem ld_identifiable' (fc D fd al fc' D' fd' al' f1 f2 f3 f4 : ℝ)
    (hfc : 0 < fc) (hord : fc < fd) (hD : 0 < D) (hal : 0 ≤ al) (hal1 : al < 1)
    (hfc' : 0 < fc') (hord' : fc' < fd') (hal' : 0 ≤ al')
    (h12 : f1 ^ 2 ≠ f2 ^ 2) (h13 : f1 ^ 2 ≠ f3 ^ 2) (h14 : f1 ^ 2 ≠ f4 ^ 2) (h23 : f2 ^ 2 ≠ f3 ^ 2)
    (h24 : f2 ^ 2 ≠ f4 ^ 2) (h34 : f3 ^ 2 ≠ f4 ^ 2)
    (e1 : lorentzDiodePsd f1 fc' D' fd' al' = lorentzDiodePsd f1 fc D fd al)
    (e2 : lorentzDiodePsd f2 fc' D' fd' al' = lorentzDiodePsd f2 fc D fd al)
    (e3 : lorentzDiodePsd f3 fc' D' fd' al' = lorentzDiodePsd f3 fc D fd al)
    (e4 : lorentzDiodePsd f4 fc' D' fd' al' = lorentzDiodePsd f4 fc D fd al) :
    fc' = fc ∧ D' = D ∧ fd' = fd ∧ al' = al := by
  have hfd : 0 < fd := by linarith
  have hfd' : 0 < fd' := by linarith
  -- coefficients of the cubic q(u) = D (b + s u)(u + a')(u + b') − D' (b' + s' u)(u + a)(u + b)
  obtain ⟨a, ha⟩ : ∃ a, a = fc ^ 2 := ⟨_, rfl⟩
  obtain ⟨b, hb⟩ : ∃ b, b = fd ^ 2 := ⟨_, rfl⟩
  obtain ⟨s, hs⟩ : ∃ s, s = al ^ 2 := ⟨_, rfl⟩
  obtain ⟨a', ha'⟩ : ∃ a, a = fc' ^ 2 := ⟨_, rfl⟩
  obtain ⟨b', hb'⟩ : ∃ b, b = fd' ^ 2 := ⟨_, rfl⟩
  obtain ⟨s', hs'⟩ : ∃ s, s = al' ^ 2 := ⟨_, rfl⟩
  have hq : ∀ f, lorentzDiodePsd f fc' D' fd' al' = lorentzDiodePsd f fc D fd al →
      (D * s - D' * s') * (f ^ 2) ^ 3
        + (D * (b + s * (a' + b')) - D' * (b' + s' * (a + b))) * (f ^ 2) ^ 2
        + (D * (b * (a' + b') + s * (a' * b')) - D' * (b' * (a + b) + s' * (a * b))) * (f ^ 2)
        + (D * b * (a' * b') - D' * b' * (a * b)) = 0 := by
    intro f h
    have := ld_cross f fc D fd al fc' D' fd' al' hfc hfd hfc' hfd' h
    rw [ha, hb, hs, ha', hb', hs']
    linear_combination -this
  obtain ⟨k3, k2, k1, k0⟩ := cubic_zero _ _ _ _ _ _ _ _ h12 h13 h14 h24 (hq f1 e1) (hq f2 e2)
    (hq f3 e3) (hq f4 e4) h23 h34
  -- the cubic vanishes identically
  have hall : ∀ u : ℝ, D * (b + s * u) * ((u + a') * (u + b')) = D' * (b' + s' * u) * ((u + a) * (u + b)) := by
    intro u
    linear_combination k3 * u ^ 3 + k2 * u ^ 2 + k1 * u + k0
  have hab : a < b := by rw [ha, hb]; exact pow_lt_pow_left₀ hord hfc.le two_ne_zero
  have hab' : a' < b' := by rw [ha', hb']; exact pow_lt_pow_left₀ hord' hfc'.le two_ne_zero
  have ha0 : 0 < a := by rw [ha]; positivity
  have hb0 : 0 < b := by rw [hb]; positivity
  have hs1 : s < 1 := by rw [hs]; exact pow_lt_one₀ hal hal1 two_ne_zero
  have hs0 : 0 ≤ s := by rw [hs]; positivity
  -- u = −a and u = −b
  have ua := hall (-a)
  have ub := hall (-b)
  have fa : (a' - a) * (b' - a) = 0 := by
    have hne : D * (b + s * -a) ≠ 0 := by
      have : 0 < b + s * -a := by nlinarith
      positivity
    apply mul_left_cancel₀ hne
    linear_combination ua
  have fb : (a' - b) * (b' - b) = 0 := by
    have hne : D * (b + s * -b) ≠ 0 := by
      have : 0 < b + s * -b := by nlinarith
      positivity
    apply mul_left_cancel₀ hne
    linear_combination ub
  have haa : a' = a := by
    rcases mul_eq_zero.mp fa with h | h
    · linarith
    · rcases mul_eq_zero.mp fb with h2 | h2 <;> linarith
  have hbb : b' = b := by
    rcases mul_eq_zero.mp fb with h | h
    · linarith
    · linarith
  have hDD : D' = D := by
    have h0 : (D - D') * (b * (a * b)) = 0 := by rw [haa, hbb] at k0; linear_combination k0
    have hne : b * (a * b) ≠ 0 := by positivity
    rcases mul_eq_zero.mp h0 with h | h
    · linarith
    · exact absurd h hne
  have hss : s' = s := by
    have h0 : D * (s - s') = 0 := by rw [hDD] at k3; linear_combination k3
    rcases mul_eq_zero.mp h0 with h | h
    · linarith
    · linarith
  refine ⟨sq_inj_pos hfc'.le hfc.le ?_, hDD, sq_inj_pos hfd'.le hfd.le ?_, sq_inj_pos hal' hal ?_⟩
  · rw [← ha, ← ha', haa]
  · rw [← hb, ← hb', hbb]
  · rw [← hs, ← hs', hss]

/-- the plain Lorentzian is determined by two frequencies with distinct squares -/
theorem lorentzian_identifiable' (fc D fc' D' f1 f2 : ℝ) (hfc : 0 < fc) (hfc' : 0 < fc')
    (hD : D ≠ 0) (h12 : f1 ^ 2 ≠ f2 ^ 2)
    (e1 : lorentzianPsd f1 fc' D' = lorentzianPsd f1 fc D)
    (e2 : lorentzianPsd f2 fc' D' = lorentzianPsd f2 fc D) : fc' = fc ∧ D' = D := by
  have hpi : Real.pi ≠ 0 := Real.pi_ne_zero
  have cross : ∀ f, lorentzianPsd f fc' D' = lorentzianPsd f fc D →
      D' * (f ^ 2 + fc ^ 2) = D * (f ^ 2 + fc' ^ 2) := by
    intro f h
    simp only [lorentzianPsd, RealLike.pi] at h
    have h1 : f * f + fc * fc ≠ 0 :=
      (add_pos_of_nonneg_of_pos (mul_self_nonneg f) (mul_pos hfc hfc)).ne'
    have h2 : f * f + fc' * fc' ≠ 0 :=
      (add_pos_of_nonneg_of_pos (mul_self_nonneg f) (mul_pos hfc' hfc')).ne'
    rw [div_eq_div_iff h2 h1] at h
    field_simp at h
    linear_combination h
  have c1 := cross f1 e1
  have c2 := cross f2 e2
  have hDD : D' = D := by
    have : (D' - D) * (f1 ^ 2 - f2 ^ 2) = 0 := by linear_combination c1 - c2
    rcases mul_eq_zero.mp this with h | h
    · linarith
    · exact absurd (sub_eq_zero.mp h) h12
  refine ⟨sq_inj_pos hfc'.le hfc.le ?_, hDD⟩
  rw [hDD] at c1
  have : D * (fc ^ 2 - fc' ^ 2) = 0 := by linear_combination c1
  rcases mul_eq_zero.mp this with h | h
  · exact absurd h hD
  · linarith

/-! ## The three-point parabola and the Gaussian peak -/

theorem parabola3_exact' (x0 x1 x2 A B C : ℝ) (h01 : x0 ≠ x1) (h12 : x1 ≠ x2) (h02 : x0 ≠ x2) :
    parabola3 x0 x1 x2 (A * x0 ^ 2 + B * x0 + C) (A * x1 ^ 2 + B * x1 + C) (A * x2 ^ 2 + B * x2 + C)
      = (A, B, C) := by
  have d01 : (A * x1 ^ 2 + B * x1 + C - (A * x0 ^ 2 + B * x0 + C)) / (x1 - x0) = A * (x0 + x1) + B := by
    rw [div_eq_iff (sub_ne_zero.2 h01.symm)]; ring
  have d12 : (A * x2 ^ 2 + B * x2 + C - (A * x1 ^ 2 + B * x1 + C)) / (x2 - x1) = A * (x1 + x2) + B := by
    rw [div_eq_iff (sub_ne_zero.2 h12.symm)]; ring
  have p0 : (A * (x1 + x2) + B - (A * (x0 + x1) + B)) / (x2 - x0) = A := by
    rw [div_eq_iff (sub_ne_zero.2 h02.symm)]; ring
  simp only [parabola3, d01, d12, p0]
  refine Prod.ext rfl (Prod.ext ?_ ?_) <;> (dsimp only; ring)

theorem two_lit : (2.0 : ℝ) = 2 := by norm_num

/-- what an `.ok` answer of `drivePost` says -/
theorem drivePost_ok' (m : Nat) (x0 x1 x2 a0 a1 a2 guess search delta npts tp sw sw2 : ℝ)
    (r : DriveEst ℝ)
    (h : drivePost m x0 x1 x2 a0 a1 a2 guess search delta npts tp sw sw2 = .ok r) :
    (r.p0, r.p1, r.p2) = parabola3 x0 x1 x2 (Real.log a0) (Real.log a1) (Real.log a2) ∧
    r.p0 < 0 ∧ r.freq = -r.p1 / (2 * r.p0) ∧ guess - search ≤ r.freq ∧ r.freq ≤ guess + search ∧
    r.amp = Real.exp (r.p2 - 0.25 * (r.p1 * r.p1) / r.p0 + 0.5 * Real.log (-Real.pi / r.p0)) * delta ∧
    r.ampStd = npts * sw2 / (sw * sw) * Real.sqrt |tp - r.amp * r.amp / 2| / Real.sqrt npts ∧
    r.maxIdx = m := by
  unfold drivePost at h
  simp only [RealLike.le, RealLike.lt, RealLike.log, RealLike.exp, RealLike.sqrt, RealLike.abs,
    RealLike.pi, zero_lit, two_lit] at h
  split_ifs at h with c1 c2
  cases h
  simp only [decide_eq_true_eq, not_le, Bool.or_eq_true, not_or, not_lt] at c1 c2
  exact ⟨rfl, c1, rfl, c2.1, c2.2, rfl, rfl, rfl⟩

theorem exp_half_log (y : ℝ) (hy : 0 < y) : Real.exp (0.5 * Real.log y) = Real.sqrt y := by
  symm
  rw [Real.sqrt_eq_iff_mul_self_eq_of_pos (Real.exp_pos _), ← Real.exp_add]
  have : 0.5 * Real.log y + 0.5 * Real.log y = Real.log y := by ring
  rw [this, Real.exp_log hy]

/-- on an exactly Gaussian peak `a_i = K·exp(−½((x_i − μ)/σ)²)` the estimator returns the centre
    `μ` and the amplitude `K·σ·√(2π)·δ` -/
theorem drivePost_gaussian' (m : Nat) (x0 x1 x2 K mu sigma guess search delta npts tp sw sw2 : ℝ)
    (h01 : x0 ≠ x1) (h12 : x1 ≠ x2) (h02 : x0 ≠ x2) (hK : 0 < K) (hs : 0 < sigma)
    (hlo : guess - search ≤ mu) (hhi : mu ≤ guess + search) :
    ∃ r, drivePost m x0 x1 x2 (K * Real.exp (-(1 / 2) * ((x0 - mu) / sigma) ^ 2))
        (K * Real.exp (-(1 / 2) * ((x1 - mu) / sigma) ^ 2))
        (K * Real.exp (-(1 / 2) * ((x2 - mu) / sigma) ^ 2)) guess search delta npts tp sw sw2 = .ok r ∧
      r.freq = mu ∧ r.amp = K * (sigma * Real.sqrt (2 * Real.pi)) * delta := by
  have hlog : ∀ x, Real.log (K * Real.exp (-(1 / 2) * ((x - mu) / sigma) ^ 2))
      = (-(1 / (2 * sigma ^ 2))) * x ^ 2 + (mu / sigma ^ 2) * x
        + (Real.log K - mu ^ 2 / (2 * sigma ^ 2)) := by
    intro x
    rw [Real.log_mul hK.ne' (Real.exp_pos _).ne', Real.log_exp]
    field_simp
    ring
  have hA : -(1 / (2 * sigma ^ 2)) < 0 := by
    have : 0 < 1 / (2 * sigma ^ 2) := by positivity
    linarith
  have hpar := parabola3_exact' x0 x1 x2 (-(1 / (2 * sigma ^ 2))) (mu / sigma ^ 2)
    (Real.log K - mu ^ 2 / (2 * sigma ^ 2)) h01 h12 h02
  have hfreq : -(mu / sigma ^ 2) / (2 * -(1 / (2 * sigma ^ 2))) = mu := by
    field_simp
  unfold drivePost
  simp only [RealLike.le, RealLike.lt, RealLike.log, RealLike.exp, RealLike.sqrt, RealLike.abs,
    RealLike.pi, zero_lit, two_lit, hlog, hpar, hfreq]
  have c1 : ¬ (0 : ℝ) ≤ -(1 / (2 * sigma ^ 2)) := not_le.mpr hA
  have c2 : ¬ mu < guess - search := not_lt.mpr hlo
  have c3 : ¬ guess + search < mu := not_lt.mpr hhi
  simp only [c1, c2, c3, decide_false, Bool.or_self, Bool.false_eq_true, if_false]
  refine ⟨_, rfl, rfl, ?_⟩
  show Real.exp _ * delta = _
  have e1 : Real.log K - mu ^ 2 / (2 * sigma ^ 2)
      - 0.25 * (mu / sigma ^ 2 * (mu / sigma ^ 2)) / -(1 / (2 * sigma ^ 2)) = Real.log K := by
    field_simp
    ring
  have e2 : -Real.pi / -(1 / (2 * sigma ^ 2)) = sigma ^ 2 * (2 * Real.pi) := by
    field_simp
  have hpos : 0 < sigma ^ 2 * (2 * Real.pi) := by have := Real.pi_pos; positivity
  rw [e1, e2, Real.exp_add, Real.exp_log hK, exp_half_log _ hpos,
    Real.sqrt_mul (by positivity), Real.sqrt_sq hs.le]

/-! ## The peak bin: `np.where(mask)[0][0] + np.argmax(mags[mask])` -/

theorem argmaxGo_spec (t : List ℝ) : ∀ (k bi : Nat) (bv : ℝ),
    (argmaxGo t k bi bv = bi ∧ ∀ x ∈ t, x ≤ bv) ∨
    (∃ j, ∃ hj : j < t.length, argmaxGo t k bi bv = k + j ∧ bv < t[j] ∧ (∀ x ∈ t, x ≤ t[j]) ∧
      ∀ i (hi : i < j), t[i] < t[j]) := by
  induction t with
  | nil => intro k bi bv; left; exact ⟨rfl, by simp⟩
  | cons x t ih =>
    intro k bi bv
    by_cases hx : bv < x
    · have e : argmaxGo (x :: t) k bi bv = argmaxGo t (k + 1) k x := by
        simp [argmaxGo, RealLike.lt, hx]
      rw [e]
      right
      rcases ih (k + 1) k x with ⟨h1, h2⟩ | ⟨j, hj, h1, h2, h3, h4⟩
      · refine ⟨0, by simp, by simpa using h1, by simpa using hx, ?_, by intro i hi; omega⟩
        intro y hy
        rcases List.mem_cons.mp hy with rfl | hy
        · simp
        · simpa using h2 y hy
      · refine ⟨j + 1, by simp; omega, by rw [h1]; omega, by simpa using lt_trans hx h2, ?_, ?_⟩
        · intro y hy
          rcases List.mem_cons.mp hy with rfl | hy
          · simpa using h2.le
          · simpa using h3 y hy
        · intro i hi
          cases i with
          | zero => simpa using h2
          | succ i => simpa using h4 i (by omega)
    · have e : argmaxGo (x :: t) k bi bv = argmaxGo t (k + 1) bi bv := by
        simp [argmaxGo, RealLike.lt, hx]
      rw [e]
      have hx' : x ≤ bv := not_lt.mp hx
      rcases ih (k + 1) bi bv with ⟨h1, h2⟩ | ⟨j, hj, h1, h2, h3, h4⟩
      · left
        refine ⟨h1, ?_⟩
        intro y hy
        rcases List.mem_cons.mp hy with rfl | hy
        · exact hx'
        · exact h2 y hy
      · right
        refine ⟨j + 1, by simp; omega, by rw [h1]; omega, by simpa using h2, ?_, ?_⟩
        · intro y hy
          rcases List.mem_cons.mp hy with rfl | hy
          · simpa using (lt_of_le_of_lt hx' h2).le
          · simpa using h3 y hy
        · intro i hi
          cases i with
          | zero => simpa using lt_of_le_of_lt hx' h2
          | succ i => simpa using h4 i (by omega)

/-- `np.argmax`: a valid index, a maximum, and the FIRST one -/
theorem argmax_spec (l : List ℝ) (hl : l ≠ []) :
    ∃ h : argmax l < l.length, (∀ x ∈ l, x ≤ l[argmax l]) ∧ ∀ i (hi : i < argmax l), l[i] < l[argmax l] := by
  cases l with
  | nil => exact absurd rfl hl
  | cons x t =>
    rcases argmaxGo_spec t 1 0 x with ⟨h1, h2⟩ | ⟨j, hj, h1, h2, h3, h4⟩
    · have e : argmax (x :: t) = 0 := h1
      refine ⟨by rw [e]; simp, ?_, by intro i hi; omega⟩
      intro y hy
      simp only [e, List.getElem_cons_zero]
      rcases List.mem_cons.mp hy with rfl | hy
      · exact le_refl _
      · exact h2 y hy
    · have e : argmax (x :: t) = j + 1 := by show argmaxGo t 1 0 x = _; rw [h1]; omega
      refine ⟨by rw [e]; simp; omega, ?_, ?_⟩
      · intro y hy
        simp only [e, List.getElem_cons_succ]
        rcases List.mem_cons.mp hy with rfl | hy
        · exact h2.le
        · exact h3 y hy
      · intro i hi
        simp only [e, List.getElem_cons_succ]
        cases i with
        | zero => simpa using h2
        | succ i => simpa using h4 i (by omega)

/-- the `true` entries of a mask form an interval of indices -/
def IsInterval (mask : List Bool) : Prop :=
  ∀ i j k : Nat, i < j → j < k → mask[i]? = some true → mask[k]? = some true → mask[j]? = some true

theorem IsInterval.tail {a : Bool} {l : List Bool} (h : IsInterval (a :: l)) : IsInterval l := by
  intro i j k hij hjk hi hk
  have := h (i + 1) (j + 1) (k + 1) (by omega) (by omega) (by simpa using hi) (by simpa using hk)
  simpa using this

/-- on a sorted frequency axis the search mask is an interval -/
theorem searchMask_interval (freqs : List ℝ) (g s : ℝ) (hs : freqs.Pairwise (· ≤ ·)) :
    IsInterval (searchMask freqs g s) := by
  intro i j k hij hjk hi hk
  simp only [searchMask, List.getElem?_map, Option.map_eq_some_iff] at hi hk ⊢
  obtain ⟨fi, hfi, ei⟩ := hi
  obtain ⟨fk, hfk, ek⟩ := hk
  obtain ⟨hkl, rfl⟩ := List.getElem?_eq_some_iff.mp hfk
  obtain ⟨hil, rfl⟩ := List.getElem?_eq_some_iff.mp hfi
  have hjl : j < freqs.length := by omega
  refine ⟨freqs[j], List.getElem?_eq_getElem hjl, ?_⟩
  have h1 : freqs[i] ≤ freqs[j] := List.pairwise_iff_getElem.mp hs i j hil hjl hij
  have h2 : freqs[j] ≤ freqs[k] := List.pairwise_iff_getElem.mp hs j k hjl hkl hjk
  simp only [RealLike.lt, Bool.and_eq_true, decide_eq_true_eq] at ei ek ⊢
  exact ⟨lt_of_lt_of_le ei.1 h1, lt_of_le_of_lt h2 ek.2⟩

theorem interval_true_head (ms : List Bool) (h : IsInterval (true :: ms)) :
    ∃ c rest, ms = List.replicate c true ++ rest ∧ ∀ b ∈ rest, b = false := by
  induction ms with
  | nil => exact ⟨0, [], rfl, by simp⟩
  | cons b ms ih =>
    cases b with
    | true =>
      obtain ⟨c, rest, e, hr⟩ := ih h.tail
      exact ⟨c + 1, rest, by rw [e]; rfl, hr⟩
    | false =>
      refine ⟨0, false :: ms, rfl, ?_⟩
      intro b hb
      rcases List.mem_cons.mp hb with rfl | hb
      · rfl
      · cases b with
        | false => rfl
        | true =>
          obtain ⟨k, hk, e⟩ := List.getElem_of_mem hb
          have := h 0 1 (k + 2) (by omega) (by omega) (by simp) (by simp [e, hk])
          simp at this

theorem firstTrue_decomp (mask : List Bool) (i : Nat) (h : firstTrue mask = some i) :
    ∃ ms, mask = List.replicate i false ++ true :: ms := by
  induction mask generalizing i with
  | nil => simp [firstTrue] at h
  | cons b t ih =>
    cases b with
    | true =>
      simp only [firstTrue, Option.some.injEq] at h
      subst h
      exact ⟨t, rfl⟩
    | false =>
      simp only [firstTrue, Option.map_eq_some_iff] at h
      obtain ⟨i', hi', rfl⟩ := h
      obtain ⟨ms, e⟩ := ih i' hi'
      exact ⟨ms, by rw [e]; rfl⟩

theorem IsInterval.drop_false (i : Nat) (M : List Bool) (h : IsInterval (List.replicate i false ++ M)) :
    IsInterval M := by
  induction i with
  | zero => simpa using h
  | succ i ih => exact ih (by rw [List.replicate_succ, List.cons_append] at h; exact h.tail)

theorem maskSelect_false_prefix {β : Type} (i : Nat) (xs : List β) (M : List Bool) :
    maskSelect xs (List.replicate i false ++ M) = maskSelect (xs.drop i) M := by
  induction i generalizing xs with
  | zero => simp
  | succ i ih =>
    cases xs with
    | nil => cases M <;> simp [maskSelect]
    | cons x xs => simp [maskSelect, List.replicate_succ, ih]

theorem maskSelect_all_false {β : Type} (xs : List β) (R : List Bool) (h : ∀ b ∈ R, b = false) :
    maskSelect xs R = [] := by
  induction R generalizing xs with
  | nil => cases xs <;> simp [maskSelect]
  | cons b R ih =>
    have hb : b = false := h b (by simp)
    subst hb
    cases xs with
    | nil => simp [maskSelect]
    | cons x xs => simp only [maskSelect]; exact ih xs (fun b hb => h b (by simp [hb]))

theorem maskSelect_true_prefix {β : Type} (c : Nat) (xs : List β) (R : List Bool)
    (h : ∀ b ∈ R, b = false) :
    maskSelect xs (List.replicate c true ++ R) = xs.take c := by
  induction c generalizing xs with
  | zero => simpa using maskSelect_all_false xs R h
  | succ c ih =>
    cases xs with
    | nil => cases R <;> simp [maskSelect]
    | cons x xs => simp [maskSelect, List.replicate_succ, ih]

/-- the peak bin is a bin of the search range, holds the largest magnitude of the range, and is the
    first such bin (sorted frequency axis, as `np.fft.rfftfreq` returns it) -/
theorem peakBin_spec' (freqs mags : List ℝ) (g s : ℝ) (m : Nat)
    (hs : freqs.Pairwise (· ≤ ·)) (hlen : mags.length = freqs.length)
    (h : peakBin freqs mags g s = some m) :
    ∃ hm : m < mags.length, (searchMask freqs g s)[m]? = some true ∧
      (∀ j (hj : j < mags.length), (searchMask freqs g s)[j]? = some true → mags[j] ≤ mags[m]) ∧
      (∀ j (hj : j < mags.length), j < m → (searchMask freqs g s)[j]? = some true → mags[j] < mags[m]) := by
  simp only [peakBin, Option.map_eq_some_iff] at h
  obtain ⟨i, hi, rfl⟩ := h
  obtain ⟨ms, e⟩ := firstTrue_decomp _ i hi
  have hint := searchMask_interval freqs g s hs
  rw [e] at hint
  obtain ⟨c, rest, e2, hr⟩ := interval_true_head ms hint.drop_false
  have emask : searchMask freqs g s = List.replicate i false ++ (List.replicate (c + 1) true ++ rest) := by
    rw [e, e2]; rfl
  have hml : (searchMask freqs g s).length = mags.length := by simp [searchMask, hlen]
  have hlen2 : i + (c + 1) + rest.length = mags.length := by
    rw [← hml, emask]; simp; omega
  have hsel : maskSelect mags (searchMask freqs g s) = (mags.drop i).take (c + 1) := by
    rw [emask, maskSelect_false_prefix, maskSelect_true_prefix _ _ _ hr]
  rw [hsel]
  have hsl : ((mags.drop i).take (c + 1)).length = c + 1 := by simp; omega
  obtain ⟨ha, hmax, hfirst⟩ := argmax_spec ((mags.drop i).take (c + 1)) (by
    intro h0; rw [h0] at hsl; simp at hsl)
  rw [hsl] at ha
  have hval : ∀ a (h : a < c + 1), ((mags.drop i).take (c + 1))[a]'(by rw [hsl]; exact h)
      = mags[i + a]'(by omega) := by
    intro a h
    simp [List.getElem_take, List.getElem_drop]
  have hmaskj : ∀ j, (searchMask freqs g s)[j]? = some true → i ≤ j ∧ j < i + (c + 1) := by
    intro j hj
    rw [emask] at hj
    by_cases h1 : j < i
    · rw [List.getElem?_append_left (by simpa using h1)] at hj
      simp [h1] at hj
    · refine ⟨by omega, ?_⟩
      by_contra h2
      rw [List.getElem?_append_right (by simp; omega), List.getElem?_append_right (by simp; omega)] at hj
      have := List.mem_of_getElem? hj
      exact absurd (hr _ this) (by simp)
  refine ⟨by omega, ?_, ?_, ?_⟩
  · rw [emask, List.getElem?_append_right (by simp), List.getElem?_append_left (by simp; omega)]
    simp [List.getElem?_replicate]; omega
  · intro j hj hjm
    obtain ⟨h1, h2⟩ := hmaskj j hjm
    have := hmax (mags[j]) (by
      have : mags[j] = ((mags.drop i).take (c + 1))[j - i]'(by rw [hsl]; omega) := by
        rw [hval (j - i) (by omega)]; congr 1; omega
      rw [this]; exact List.getElem_mem _)
    rw [hval _ ha] at this
    exact this
  · intro j hj hjlt hjm
    obtain ⟨h1, h2⟩ := hmaskj j hjm
    have := hfirst (j - i) (by omega)
    rw [hval _ ha, hval (j - i) (by omega)] at this
    have e3 : i + (j - i) = j := by omega
    simpa [e3] using this

/-- an answer of the whole estimator is an answer of `drivePost` on the three bins around the
    peak bin -/
theorem estimateDrive_ok' (freqs mags : List ℝ) (g s delta npts tp sw sw2 : ℝ) (r : DriveEst ℝ)
    (h : estimateDrive freqs mags g s delta npts tp sw sw2 = .ok r) :
    ∃ m x0 x1 x2 a0 a1 a2, peakBin freqs mags g s = some m ∧ 0 < m ∧
      freqs[m - 1]? = some x0 ∧ freqs[m]? = some x1 ∧ freqs[m + 1]? = some x2 ∧
      mags[m - 1]? = some a0 ∧ mags[m]? = some a1 ∧ mags[m + 1]? = some a2 ∧
      drivePost m x0 x1 x2 a0 a1 a2 g s delta npts tp sw sw2 = .ok r := by
  unfold estimateDrive at h
  split at h
  · cases h
  · rename_i m hm
    split at h
    · cases h
    · rename_i hm0
      split at h
      · rename_i x0 x1 x2 a0 a1 a2 e0 e1 e2 e3 e4 e5
        exact ⟨m, x0, x1, x2, a0, a1, a2, hm, by omega, e0, e1, e2, e3, e4, e5, h⟩
      · cases h

/-! ## Positivity of the drag of every constructed model -/

theorem brenner_den_factor (h : ℝ) :
    1 - 9 / 8 * h + 1 / 2 * h ^ 3 - 57 / 100 * h ^ 4 + 1 / 5 * h ^ 5 + 7 / 200 * h ^ 11 - 1 / 25 * h ^ 12
      = (1 - h) * (1 - h / 8 - h ^ 2 / 8 + 3 / 8 * h ^ 3 - 39 / 200 * h ^ 4
          + 1 / 200 * (h ^ 5 + h ^ 6 + h ^ 7 + h ^ 8 + h ^ 9 + h ^ 10) + 1 / 25 * h ^ 11) := by
  ring

theorem brenner_cofactor_pos (h : ℝ) (h0 : 0 ≤ h) (h1 : h ≤ 1) :
    0 < 1 - h / 8 - h ^ 2 / 8 + 3 / 8 * h ^ 3 - 39 / 200 * h ^ 4
          + 1 / 200 * (h ^ 5 + h ^ 6 + h ^ 7 + h ^ 8 + h ^ 9 + h ^ 10) + 1 / 25 * h ^ 11 := by
  have a2 : h ^ 2 ≤ 1 := pow_le_one₀ h0 h1
  have a34 : 0 ≤ 3 / 8 * h ^ 3 - 39 / 200 * h ^ 4 := by
    have : 3 / 8 * h ^ 3 - 39 / 200 * h ^ 4 = h ^ 3 * (3 / 8 - 39 / 200 * h) := by ring
    rw [this]
    exact mul_nonneg (pow_nonneg h0 3) (by linarith)
  have b5 := pow_nonneg h0 5
  have b6 := pow_nonneg h0 6
  have b7 := pow_nonneg h0 7
  have b8 := pow_nonneg h0 8
  have b9 := pow_nonneg h0 9
  have b10 := pow_nonneg h0 10
  have b11 := pow_nonneg h0 11
  linarith

/-- Brenner's axial correction is positive for every `R/l < 1` … -/
theorem brennerSpec_pos' (h : ℝ) (h0 : 0 ≤ h) (h1 : h < 1) : 0 < brennerSpec h := by
  unfold brennerSpec
  rw [brenner_den_factor]
  exact one_div_pos.mpr (mul_pos (by linarith) (brenner_cofactor_pos h h0 h1.le))

/-- … and its denominator vanishes at contact `R/l = 1` -/
theorem brenner_den_contact :
    (1:ℝ) - 9 / 8 * 1 + 1 / 2 * 1 ^ 3 - 57 / 100 * 1 ^ 4 + 1 / 5 * 1 ^ 5 + 7 / 200 * 1 ^ 11
      - 1 / 25 * 1 ^ 12 = 0 := by norm_num

theorem viscosityOfWater_pos (t : ℝ) : 0 < viscosityOfWater t := by
  simp only [viscosityOfWater, rpow, RealLike.exp, RealLike.log]
  have e1 := Real.exp_pos (-1.9 * Real.log ((t + 273.15) / 300.0))
  have e2 := Real.exp_pos (-7.7 * Real.log ((t + 273.15) / 300.0))
  have e3 := Real.exp_pos (-19.6 * Real.log ((t + 273.15) / 300.0))
  have e4 := Real.exp_pos (-40.0 * Real.log ((t + 273.15) / 300.0))
  have : (0:ℝ) < 280.68 * Real.exp (-1.9 * Real.log ((t + 273.15) / 300.0))
      + 511.45 * Real.exp (-7.7 * Real.log ((t + 273.15) / 300.0))
      + 61.131 * Real.exp (-19.6 * Real.log ((t + 273.15) / 300.0))
      + 0.45903 * Real.exp (-40.0 * Real.log ((t + 273.15) / 300.0)) := by
    have c1 : (0:ℝ) < 280.68 := by norm_num
    have c2 : (0:ℝ) < 511.45 := by norm_num
    have c3 : (0:ℝ) < 61.131 := by norm_num
    have c4 : (0:ℝ) < 0.45903 := by norm_num
    have := mul_pos c1 e1; have := mul_pos c2 e2; have := mul_pos c3 e3; have := mul_pos c4 e4
    linarith
  have c : (0:ℝ) < 1.0e-6 := by norm_num
  exact mul_pos this c

/-- every model the constructor accepts has a positive corrected drag and `k_BT/γ > 0`, provided an
    axial model is not placed exactly at contact (`l = R`, where Brenner's factor is `1/0`) -/
theorem constructed_drag_pos' (o : Opts ℝ) (m : Mdl ℝ) (hm : mkModel o = .ok m)
    (hax : ∀ l, o.hydro = false → o.axial = true → o.dist = some l → o.d / 2 < l) :
    0 < m.drag ∧ 0 < kT m.o.temp / m.drag := by
  have hv := (validate_none_iff o).mp (mkModel_ok hm).1
  obtain ⟨-, rfl⟩ := mkModel_ok hm
  have hd : (0:ℝ) < o.d := by
    have : (0:ℝ) < 1e-2 := by norm_num
    linarith [hv.1]
  have hvisc : 0 < viscosityOf o := by
    unfold viscosityOf
    cases hvo : o.visc with
    | none => exact viscosityOfWater_pos _
    | some v =>
      have := hv.2.2.1 v hvo
      have c : (0:ℝ) < 0.0003 := by norm_num
      simp only; linarith
  have hbulk : 0 < bulkDrag o := by
    rw [bulkDrag_real]; unfold stokesDrag
    have := Real.pi_pos
    have c : (0:ℝ) < 1e-6 := by norm_num
    positivity
  have hcorr : 0 < dragCorrection o := by
    by_cases hh : o.hydro = true
    · rw [dragCorrection_hydro o hh]; exact one_pos
    · have hh' : o.hydro = false := by simpa using hh
      cases hdo : o.dist with
      | none => rw [dragCorrection_bulk o hdo]; exact one_pos
      | some l =>
        obtain ⟨-, hdl, hl0⟩ := mkModel_dist_pos hm hdo
        have hr0 : 0 ≤ o.d / 2 / l := by positivity
        by_cases ha : o.axial = true
        · rw [dragCorrection_brenner o l hh' ha hdo hl0.ne']
          exact brennerSpec_pos' _ hr0 ((div_lt_one hl0).mpr (hax l hh' ha hdo))
        · have ha' : o.axial = false := by simpa using ha
          rw [dragCorrection_faxen o l hh' ha' hdo hl0.ne']
          exact faxenSpec_pos _ hr0 ((div_le_one hl0).mpr hdl)
  have hdrag : 0 < (build o).drag := by rw [drag_build]; exact mul_pos hbulk hcorr
  have hkT : 0 < kT (build o).o.temp := by
    show 0 < kT o.temp
    unfold kT
    have := hv.2.2.2.1
    have c : (0:ℝ) < 1.380649e-23 := by norm_num
    have : (0:ℝ) < o.temp + 273.15 := by norm_num; linarith
    positivity
  exact ⟨hdrag, div_pos hkT hdrag⟩

/-! ## `calibrate_force` glue -/

theorem optTruthy_real (d : Option ℝ) : optTruthy d = true ↔ ∃ g, d = some g ∧ g ≠ 0 := by
  cases d with
  | none => simp [optTruthy]
  | some g => simp [optTruthy, truthy_real]

/-! ## The robust loss -/

theorem half_lit : (0.5 : ℝ) = 1 / 2 := by norm_num

theorem lloss_cons (psd : ℝ → ℝ) (n f p : ℝ) (fs ps : List ℝ) :
    lorentzianLoss psd n (f :: fs) (p :: ps)
      = Real.log (1 + 1 / 2 * ((p - psd f) / (psd f / Real.sqrt n)) ^ 2) + lorentzianLoss psd n fs ps := by
  simp only [lorentzianLoss, RealLike.sqrt, RealLike.log, one_lit, half_lit]; ring_nf

theorem lloss_term_nonneg (x : ℝ) : 0 ≤ Real.log (1 + 1 / 2 * x ^ 2) :=
  Real.log_nonneg (by nlinarith [sq_nonneg x])

theorem lloss_term_zero (x : ℝ) : Real.log (1 + 1 / 2 * x ^ 2) = 0 ↔ x = 0 := by
  constructor
  · intro h
    have hpos : (0:ℝ) < 1 + 1 / 2 * x ^ 2 := by nlinarith [sq_nonneg x]
    have := Real.eq_one_of_pos_of_log_eq_zero hpos h
    have hx : x ^ 2 = 0 := by linarith
    exact pow_eq_zero_iff (n := 2) (by norm_num) |>.mp hx
  · rintro rfl; simp

theorem lloss_nonneg' (psd : ℝ → ℝ) (n : ℝ) : ∀ fs ps : List ℝ, 0 ≤ lorentzianLoss psd n fs ps
  | [], _ => by simp [lorentzianLoss, zero_lit]
  | _ :: _, [] => by simp [lorentzianLoss, zero_lit]
  | f :: fs, p :: ps => by
    rw [lloss_cons]
    exact add_nonneg (lloss_term_nonneg _) (lloss_nonneg' psd n fs ps)

theorem lloss_zero_iff' (psd : ℝ → ℝ) (n : ℝ) (hn : 0 < n) (fs ps : List ℝ)
    (hp : ∀ x ∈ fs.zip ps, psd x.1 ≠ 0) :
    lorentzianLoss psd n fs ps = 0 ↔ ∀ x ∈ fs.zip ps, psd x.1 = x.2 := by
  induction fs generalizing ps with
  | nil => simp [lorentzianLoss, zero_lit]
  | cons f fs ih =>
    cases ps with
    | nil => simp [lorentzianLoss, zero_lit]
    | cons p ps =>
      rw [lloss_cons]
      have hf0 : psd f ≠ 0 := hp (f, p) (by simp)
      have hps : ∀ x ∈ fs.zip ps, psd x.1 ≠ 0 := fun x hx => hp x (by simp [hx])
      have hg : psd f / Real.sqrt n ≠ 0 := div_ne_zero hf0 (Real.sqrt_pos.mpr hn).ne'
      have h1 := lloss_nonneg' psd n fs ps
      have h2 := lloss_term_nonneg ((p - psd f) / (psd f / Real.sqrt n))
      constructor
      · intro h
        have e1 : Real.log (1 + 1 / 2 * ((p - psd f) / (psd f / Real.sqrt n)) ^ 2) = 0 := by linarith
        have e2 : lorentzianLoss psd n fs ps = 0 := by linarith
        have e3 : p - psd f = 0 := by
          rcases div_eq_zero_iff.mp ((lloss_term_zero _).mp e1) with h | h
          · exact h
          · exact absurd h hg
        intro x hx
        simp only [List.zip_cons_cons, List.mem_cons] at hx
        rcases hx with rfl | hx
        · exact (sub_eq_zero.mp e3).symm
        · exact (ih ps hps).mp e2 x hx
      · intro h
        have e3 : psd f = p := h (f, p) (by simp)
        have e2 : lorentzianLoss psd n fs ps = 0 := (ih ps hps).mpr fun x hx => h x (by simp [hx])
        rw [e2, e3]; simp

/-! ## Spectra of the form `D·A(f)/((f_c + B(f))² + C(f))` (hydrodynamic model, fixed filter) -/

/-- specification-side family: `A`, `B`, `C` are known functions of frequency (they depend on the
    bead, the medium, the wall and a fixed filter, not on the fitted parameters) -/
noncomputable def ratPsd (A B C : ℝ → ℝ) (f fc D : ℝ) : ℝ := D * A f / ((fc + B f) ^ 2 + C f)

/-- three frequencies whose rows `(B² + C, B, 1)` are linearly independent determine `(f_c, D)` -/
theorem ratPsd_identifiable' (A B C : ℝ → ℝ) (fc D fc' D' f1 f2 f3 : ℝ) (hD : D ≠ 0)
    (hA : A f1 ≠ 0 ∧ A f2 ≠ 0 ∧ A f3 ≠ 0) (hC : 0 < C f1 ∧ 0 < C f2 ∧ 0 < C f3)
    (hdet : (B f1 ^ 2 + C f1) * (B f2 - B f3) - B f1 * ((B f2 ^ 2 + C f2) - (B f3 ^ 2 + C f3))
      + ((B f2 ^ 2 + C f2) * B f3 - (B f3 ^ 2 + C f3) * B f2) ≠ 0)
    (e1 : ratPsd A B C f1 fc' D' = ratPsd A B C f1 fc D)
    (e2 : ratPsd A B C f2 fc' D' = ratPsd A B C f2 fc D)
    (e3 : ratPsd A B C f3 fc' D' = ratPsd A B C f3 fc D) : fc' = fc ∧ D' = D := by
  have cross : ∀ f, A f ≠ 0 → 0 < C f → ratPsd A B C f fc' D' = ratPsd A B C f fc D →
      (D' - D) * (B f ^ 2 + C f) + (2 * (D' * fc - D * fc')) * B f + (D' * fc ^ 2 - D * fc' ^ 2) = 0 := by
    intro f ha hc h
    unfold ratPsd at h
    have h1 : (fc + B f) ^ 2 + C f ≠ 0 := by positivity
    have h2 : (fc' + B f) ^ 2 + C f ≠ 0 := by positivity
    rw [div_eq_div_iff h2 h1] at h
    have : D' * ((fc + B f) ^ 2 + C f) = D * ((fc' + B f) ^ 2 + C f) := by
      apply mul_left_cancel₀ ha
      linear_combination h
    linear_combination this
  have c1 := cross f1 hA.1 hC.1 e1
  have c2 := cross f2 hA.2.1 hC.2.1 e2
  have c3 := cross f3 hA.2.2 hC.2.2 e3
  obtain ⟨w1, hw1⟩ : ∃ w, w = B f1 ^ 2 + C f1 := ⟨_, rfl⟩
  obtain ⟨w2, hw2⟩ : ∃ w, w = B f2 ^ 2 + C f2 := ⟨_, rfl⟩
  obtain ⟨w3, hw3⟩ : ∃ w, w = B f3 ^ 2 + C f3 := ⟨_, rfl⟩
  rw [← hw1] at c1 hdet; rw [← hw2] at c2 hdet; rw [← hw3] at c3 hdet
  have hX : (D' - D) * (w1 * (B f2 - B f3) - B f1 * (w2 - w3) + (w2 * B f3 - w3 * B f2)) = 0 := by
    linear_combination (B f2 - B f3) * c1 - (B f1 - B f3) * c2 + (B f1 - B f2) * c3
  have hY : (2 * (D' * fc - D * fc')) * (w1 * (B f2 - B f3) - B f1 * (w2 - w3) + (w2 * B f3 - w3 * B f2)) = 0 := by
    linear_combination (-(w2 - w3)) * c1 + (w1 - w3) * c2 - (w1 - w2) * c3
  have hDD : D' = D := by
    rcases mul_eq_zero.mp hX with h | h
    · linarith
    · exact absurd h hdet
  have hY' : D' * fc - D * fc' = 0 := by
    rcases mul_eq_zero.mp hY with h | h
    · linarith
    · exact absurd h hdet
  refine ⟨?_, hDD⟩
  rw [hDD] at hY'
  have : D * (fc - fc') = 0 := by linear_combination hY'
  rcases mul_eq_zero.mp this with h | h
  · exact absurd h hD
  · linarith

/-- the hydrodynamically correct spectrum has this form, with `A = Re γ/π²`, `B = f·(Im γ − f/f_m)`,
    `C = (f·Re γ)²` (`γ` = `calculate_complex_drag`, `f_m` = `calculate_dissipation_frequency`) -/
theorem hydroPsd_form (f fc D gamma0 r rhoS rhoB : ℝ) (dist : Option ℝ) :
    hydroPsd f fc D gamma0 r rhoS rhoB dist
      = ratPsd (fun f => (complexDrag f gamma0 rhoS r dist).1 / Real.pi ^ 2)
          (fun f => f * ((complexDrag f gamma0 rhoS r dist).2 - f / dissipationFrequency gamma0 r rhoB))
          (fun f => (f * (complexDrag f gamma0 rhoS r dist).1) ^ 2) f fc D := by
  simp only [hydroPsd, ratPsd, RealLike.pi]
  ring

theorem complexDrag_bulk_re (f g rho r : ℝ) :
    (complexDrag f g rho r none).1 = 1 + Real.sqrt (f / (g / (6 * Real.pi * rho * r) / (Real.pi * (r * r)))) := by
  simp only [complexDrag, RealLike.sqrt, RealLike.pi, one_lit]
  norm_num

end Verif.C11
