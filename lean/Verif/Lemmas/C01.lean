/-
  Helper lemmas for C01 (core Lean only).
-/
import Verif.Model.C01

namespace Verif.C01
open Verif.Py

/-- ceil(x/dt) for dt > 0 as computed by the code: (x + dt - 1) / dt -/
def cdiv (x dt : Int) : Int := (x + dt - 1) / dt

theorem cdiv_le_iff {x dt : Int} (hdt : 0 < dt) (k : Int) : cdiv x dt ≤ k ↔ x ≤ k * dt := by
  unfold cdiv
  constructor
  · intro h
    have := Int.lt_mul_ediv_self_add hdt (x := x + dt - 1)
    have h2 : (x + dt - 1) / dt * dt ≤ k * dt := Int.mul_le_mul_of_nonneg_right h (Int.le_of_lt hdt)
    rw [Int.mul_comm dt] at this
    omega
  · intro h
    have : x + dt - 1 < (k + 1) * dt := by rw [Int.add_mul]; omega
    have := (Int.ediv_lt_iff_lt_mul hdt).mpr this
    omega

theorem cdiv_sub (x dt : Int) (hdt : 0 < dt) : cdiv (x - dt) dt = cdiv x dt - 1 := by
  unfold cdiv
  have : x - dt + dt - 1 = (x + dt - 1) + (-1) * dt := by omega
  rw [this, Int.add_mul_ediv_right _ _ (by omega)]
  omega

theorem cdiv_mul (k dt : Int) (hdt : 0 < dt) : cdiv (k * dt) dt = k := by
  apply Int.le_antisymm
  · exact (cdiv_le_iff hdt k).mpr (Int.le_refl _)
  · have h := (cdiv_le_iff hdt (cdiv (k * dt) dt)).mp (Int.le_refl _)
    exact Int.le_of_mul_le_mul_right h hdt

theorem toIndex_eq_cdiv (start dt t : Int) : toIndex start dt t = cdiv (t - start) dt := by
  unfold toIndex cdiv; rfl

/-- The arithmetic heart: filtering an equidistant sample list by a window is `take`/`drop` with
    ceil-division indices. -/
theorem filter_samplesFrom (dt : Int) (hdt : 0 < dt) (a b : Int) :
    ∀ (l : List Int) (t0 : Int),
      (samplesFrom t0 dt l).filter (inWin a b) =
        samplesFrom (t0 + (cdiv (a - t0) dt).toNat * dt) dt
          ((l.take (cdiv (b - t0) dt).toNat).drop (cdiv (a - t0) dt).toNat) := by
  intro l
  induction l with
  | nil => intro t0; simp [samplesFrom]
  | cons v vs ih =>
    intro t0
    have hL : cdiv (a - (t0 + dt)) dt = cdiv (a - t0) dt - 1 := by
      have : a - (t0 + dt) = (a - t0) - dt := by omega
      rw [this, cdiv_sub _ _ hdt]
    have hH : cdiv (b - (t0 + dt)) dt = cdiv (b - t0) dt - 1 := by
      have : b - (t0 + dt) = (b - t0) - dt := by omega
      rw [this, cdiv_sub _ _ hdt]
    have hLle : cdiv (a - t0) dt ≤ 0 ↔ a ≤ t0 := by
      rw [cdiv_le_iff hdt]; omega
    have hHle : cdiv (b - t0) dt ≤ 0 ↔ b ≤ t0 := by
      rw [cdiv_le_iff hdt]; omega
    simp only [samplesFrom, List.filter_cons, inWin]
    rw [ih (t0 + dt), hL, hH]
    generalize hLdef : cdiv (a - t0) dt = L at *
    generalize hHdef : cdiv (b - t0) dt = H at *
    by_cases h1 : a ≤ t0
    · have hL0 : L ≤ 0 := hLle.mpr h1
      have hLn : L.toNat = 0 := by omega
      have hLn' : (L - 1).toNat = 0 := by omega
      by_cases h2 : t0 < b
      · have hH0 : 0 < H := by
          by_cases h : 0 < H
          · exact h
          · exact absurd (hHle.mp (by omega)) (by omega)
        obtain ⟨m, hm⟩ : ∃ m : Nat, (H - 1).toNat = m ∧ H.toNat = m + 1 := ⟨(H-1).toNat, rfl, by omega⟩
        rw [hLn, hLn', hm.1, hm.2]
        simp [h1, h2, samplesFrom]
      · have hH0 : H ≤ 0 := hHle.mpr (by omega)
        have hHn : H.toNat = 0 := by omega
        have hHn' : (H - 1).toNat = 0 := by omega
        rw [hLn, hLn', hHn, hHn']
        simp [h1, h2, samplesFrom]
    · have hL0 : 0 < L := by
        by_cases h : 0 < L
        · exact h
        · exact absurd (hLle.mp (by omega)) h1
      obtain ⟨k, hk1, hk2⟩ : ∃ k : Nat, (L - 1).toNat = k ∧ L.toNat = k + 1 := ⟨(L-1).toNat, rfl, by omega⟩
      have hshift : t0 + dt + (k : Int) * dt = t0 + ((k + 1 : Nat) : Int) * dt := by
        rw [Int.natCast_add, Int.add_mul]; omega
      by_cases hH0 : 0 < H
      · obtain ⟨m, hm⟩ : ∃ m : Nat, (H - 1).toNat = m ∧ H.toNat = m + 1 := ⟨(H-1).toNat, rfl, by omega⟩
        rw [hk1, hk2, hm.1, hm.2, hshift]
        simp [h1]
      · have hHn : H.toNat = 0 := by omega
        have hHn' : (H - 1).toNat = 0 := by omega
        rw [hk1, hk2, hHn, hHn']
        simp [h1, samplesFrom]

/-- The aligned start is the grid point with index `max (cdiv (a - start)) 0`. -/
theorem alignedStart_eq (c : Cont) (hdt : 0 < c.dt) (a : Int) :
    alignedStart c a = c.start + ((cdiv (a - c.start) c.dt).toNat : Int) * c.dt := by
  unfold alignedStart
  generalize hL : cdiv (a - c.start) c.dt = L
  -- characterise L: (L-1)*dt < a - start ≤ L*dt
  have hup : a - c.start ≤ L * c.dt := (cdiv_le_iff hdt L).mp (by omega)
  have hlo : ¬ (a - c.start ≤ (L - 1) * c.dt) := by
    intro h; have := (cdiv_le_iff hdt (L - 1)).mpr h; omega
  have hsub : (L - 1) * c.dt = L * c.dt - c.dt := by rw [Int.sub_mul]; omega
  have hdm := Int.emod_add_mul_ediv (a - c.start) c.dt
  have hnn := Int.emod_nonneg (a - c.start) (by omega : c.dt ≠ 0)
  have hlt := Int.emod_lt_of_pos (a - c.start) hdt
  generalize hq : (a - c.start) / c.dt = q at *
  generalize hr : (a - c.start) % c.dt = r at *
  simp only []
  by_cases hr0 : r = 0
  · simp only [hr0, ↓reduceIte]
    -- a - start = dt * q, so L = q
    have hLq : L = q := by
      have e : a - c.start = q * c.dt := by rw [Int.mul_comm]; omega
      rw [← hL, e]; exact cdiv_mul q c.dt hdt
    subst hLq
    by_cases hq0 : 0 ≤ L
    · have : ((L.toNat : Nat) : Int) = L := Int.toNat_of_nonneg hq0
      rw [this]
      have : c.dt * L = L * c.dt := Int.mul_comm _ _
      have hge : 0 ≤ L * c.dt := Int.mul_nonneg hq0 (by omega)
      omega
    · have h0 : L.toNat = 0 := by omega
      rw [h0]
      have : c.dt * L = L * c.dt := Int.mul_comm _ _
      have hneg : L * c.dt ≤ 0 := by
        have : L ≤ 0 := by omega
        exact Int.mul_nonpos_of_nonpos_of_nonneg this (by omega)
      simp; omega
  · simp only [hr0, ↓reduceIte]
    -- a - start = dt*q + r with 0<r<dt, so L = q+1 and a + dt - r = start + (q+1)*dt
    have hLq : L = q + 1 := by
      have hmul : c.dt * q = q * c.dt := Int.mul_comm _ _
      have e1 : a - c.start ≤ (q + 1) * c.dt := by rw [Int.add_mul]; omega
      have e2 : ¬ (a - c.start ≤ q * c.dt) := by omega
      have l1 : L ≤ q + 1 := by rw [← hL]; exact (cdiv_le_iff hdt _).mpr e1
      have l2 : ¬ (L ≤ q) := by rw [← hL]; intro h; exact e2 ((cdiv_le_iff hdt _).mp h)
      omega
    subst hLq
    have hmul : c.dt * q = q * c.dt := Int.mul_comm _ _
    have hexp : (q + 1) * c.dt = q * c.dt + c.dt := by rw [Int.add_mul]; omega
    by_cases hq0 : 0 ≤ q + 1
    · have : (((q + 1).toNat : Nat) : Int) = q + 1 := Int.toNat_of_nonneg hq0
      rw [this]
      have hge : 0 ≤ (q + 1) * c.dt := Int.mul_nonneg hq0 (by omega)
      omega
    · have h0 : (q + 1).toNat = 0 := by omega
      rw [h0]
      have hneg : (q + 1) * c.dt ≤ 0 :=
        Int.mul_nonpos_of_nonpos_of_nonneg (by omega) (by omega)
      simp; omega

theorem take_drop_min {α} (l : List α) (i j : Nat) :
    (l.take (min j l.length)).drop (min i l.length) = (l.take j).drop i := by
  have h1 : l.take (min j l.length) = l.take j := by
    rw [List.take_eq_take_iff]; omega
  rw [h1]
  by_cases h : i ≤ l.length
  · rw [Nat.min_eq_left h]
  · have hi : l.length ≤ i := by omega
    rw [Nat.min_eq_right hi]
    rw [List.drop_eq_nil_of_le (by simp; omega), List.drop_eq_nil_of_le (by simp; omega)]

theorem pySlice_nonneg {α} (l : List α) (i j : Int) (hi : 0 ≤ i) (hj : 0 ≤ j) :
    pySlice l i j = (l.take j.toNat).drop i.toNat := by
  unfold pySlice pyNorm
  rw [if_neg (by omega), if_neg (by omega)]
  exact take_drop_min l _ _


/-! ## Time strings: the strings people write -/

/-- one group of a time string in the form people write: optional white space, a whole number, a unit -/
structure Grp where
  pre : List Char
  digits : List Char
  unit : Nat

def unitChars (i : Nat) : List Char := ((units[i]?).map (·.1.toList)).getD []
def unitRatio (i : Nat) : Nat := ((units[i]?).map (·.2)).getD 0

def Grp.str (g : Grp) : List Char := g.pre ++ g.digits ++ unitChars g.unit
def Grp.WF (g : Grp) : Prop := g.pre.all isSpace = true ∧ g.digits ≠ [] ∧ g.digits.all isDigit = true ∧ g.unit < 7
def Grp.tok (g : Grp) : Tok := ⟨⟨digitsToNat g.digits, 0⟩, g.unit⟩

theorem takeWhile_append_stop {p : Char → Bool} (l r : List Char) (hl : l.all p = true)
    (hr : ∀ c r', r = c :: r' → p c = false) : (l ++ r).takeWhile p = l ∧ (l ++ r).dropWhile p = r := by
  induction l with
  | nil =>
    cases r with
    | nil => simp
    | cons c r' => simp [List.takeWhile_cons, List.dropWhile_cons, hr c r' rfl]
  | cons x xs ih =>
    simp only [List.all_cons, Bool.and_eq_true] at hl
    simp [List.takeWhile_cons, List.dropWhile_cons, hl.1, ih hl.2]

theorem digit_not_space (c : Char) (h : isDigit c = true) : isSpace c = false := by
  unfold isDigit at h; unfold isSpace
  simp only [Bool.and_eq_true, decide_eq_true_eq] at h
  have h1 : '0'.toNat ≤ c.toNat := h.1
  have h2 : c.toNat ≤ '9'.toNat := h.2
  have : ∀ d : Char, d.toNat < 48 → c ≠ d := fun d hd he => by subst he; simp at h1; omega
  simp [this]

theorem digit_not_unitChar (c : Char) (h : isDigit c = true) : isUnitChar c = false := by
  unfold isUnitChar; simp [h]




theorem unit_facts (i : Nat) (h : i < 7) :
    unitChars i ≠ [] ∧ (unitChars i).all isUnitChar = true ∧
    (unitChars i).head?.all (fun c => !isDigit c && !isSpace c && c != '.') = true ∧
    unitIndex? (String.ofList (unitChars i)) = some i := by
  match i, h with
  | 0, _ | 1, _ | 2, _ | 3, _ | 4, _ | 5, _ | 6, _ => decide

theorem unit_head (i : Nat) (h : i < 7) (c : Char) (r : List Char) (hc : unitChars i = c :: r) :
    isDigit c = false ∧ isSpace c = false ∧ c ≠ '.' := by
  have := (unit_facts i h).2.2.1
  rw [hc] at this
  simp at this
  exact ⟨this.1.1, this.1.2, this.2⟩


def strs (gs : List Grp) : List Char := gs.flatMap Grp.str

/-- what may follow a group: nothing, or the next group (which starts with white space or a digit) -/
theorem strs_head (gs : List Grp) (hwf : ∀ g ∈ gs, g.WF) (c : Char) (r : List Char) (h : strs gs = c :: r) :
    isSpace c = true ∨ isDigit c = true := by
  cases gs with
  | nil => simp [strs] at h
  | cons g gs =>
    have hg := hwf g (by simp)
    unfold strs at h
    simp only [List.flatMap_cons, Grp.str, List.append_assoc] at h
    cases hp : g.pre with
    | cons x xs =>
      rw [hp] at h; simp only [List.cons_append, List.cons.injEq] at h
      have := hg.1; rw [hp] at this; simp only [List.all_cons, Bool.and_eq_true] at this
      left; rw [← h.1]; exact this.1
    | nil =>
      rw [hp] at h; simp only [List.nil_append] at h
      cases hd : g.digits with
      | nil => exact absurd hd hg.2.1
      | cons x xs =>
        rw [hd] at h; simp only [List.cons_append, List.cons.injEq] at h
        have := hg.2.2.1; rw [hd] at this; simp only [List.all_cons, Bool.and_eq_true] at this
        right; rw [← h.1]; exact this.1

theorem space_not_unitChar (c : Char) (h : isSpace c = true) : isUnitChar c = false := by
  unfold isUnitChar; simp [h]

theorem lexToks_strs (gs : List Grp) (hwf : ∀ g ∈ gs, g.WF) (fuel : Nat) (hf : gs.length < fuel) :
    lexToks fuel (strs gs) = some (gs.map Grp.tok, false) := by
  induction gs generalizing fuel with
  | nil =>
    cases fuel with
    | zero => omega
    | succ f => simp [strs, lexToks]
  | cons g gs ih =>
    cases fuel with
    | zero => omega
    | succ f =>
      have hg := hwf g (by simp)
      have hwf' : ∀ g ∈ gs, g.WF := fun x hx => hwf x (by simp [hx])
      obtain ⟨hpre, hne, hdig, hu⟩ := hg
      obtain ⟨d0, ds, hd⟩ : ∃ d0 ds, g.digits = d0 :: ds := by
        cases h : g.digits with
        | nil => exact absurd h hne
        | cons a b => exact ⟨a, b, rfl⟩
      have hd0 : isDigit d0 = true := by
        have := hdig; rw [hd] at this; simp only [List.all_cons, Bool.and_eq_true] at this; exact this.1
      obtain ⟨u0, us, hu0⟩ : ∃ u0 us, unitChars g.unit = u0 :: us := by
        cases h : unitChars g.unit with
        | nil => exact absurd h (unit_facts g.unit hu).1
        | cons a b => exact ⟨a, b, rfl⟩
      obtain ⟨hu0d, hu0s, hu0p⟩ := unit_head g.unit hu u0 us hu0
      have hcs : strs (g :: gs) = g.pre ++ (g.digits ++ (unitChars g.unit ++ strs gs)) := by
        simp [strs, Grp.str, List.append_assoc]
      -- skip the white space
      have h1 := takeWhile_append_stop (p := isSpace) g.pre (g.digits ++ (unitChars g.unit ++ strs gs)) hpre
        (by intro c r' hc; rw [hd] at hc; simp only [List.cons_append, List.cons.injEq] at hc
            rw [← hc.1]; exact digit_not_space d0 hd0)
      -- the number
      have h2 := takeWhile_append_stop (p := isDigit) g.digits (unitChars g.unit ++ strs gs) hdig
        (by intro c r' hc; rw [hu0] at hc; simp only [List.cons_append, List.cons.injEq] at hc
            rw [← hc.1]; exact hu0d)
      -- the unit
      have h3 := takeWhile_append_stop (p := isUnitChar) (unitChars g.unit) (strs gs) (unit_facts g.unit hu).2.1
        (by intro c r' hc
            rcases strs_head gs hwf' c r' hc with h | h
            · exact space_not_unitChar c h
            · exact digit_not_unitChar c h)
      have hrest_ne : (g.digits ++ (unitChars g.unit ++ strs gs)).isEmpty = false := by rw [hd]; rfl
      have hnum : lexNumber (g.digits ++ (unitChars g.unit ++ strs gs)) =
          some (⟨digitsToNat g.digits, 0⟩, unitChars g.unit ++ strs gs) := by
        unfold lexNumber
        simp only [h2.1, h2.2]
        rw [hu0]
        simp only [List.cons_append]
        have : g.digits.isEmpty = false := by rw [hd]; rfl
        split
        · rename_i r2 heq
          simp only [List.cons.injEq] at heq
          exact absurd heq.1 hu0p
        · simp [this]
      have hsp : (unitChars g.unit ++ strs gs).dropWhile isSpace = unitChars g.unit ++ strs gs := by
        rw [hu0]; simp [List.dropWhile_cons, hu0s]
      rw [hcs]
      unfold lexToks
      simp only [h1.2, hrest_ne, Bool.false_eq_true, ↓reduceIte, hnum, hsp, h3.1, h3.2, (unit_facts g.unit hu).2.2.2]
      rw [ih hwf' f (by simp at hf; omega)]
      simp [Grp.tok]


theorem length_le_strs (gs : List Grp) (hwf : ∀ g ∈ gs, g.WF) : gs.length ≤ (strs gs).length := by
  induction gs with
  | nil => simp
  | cons g gs ih =>
    have hg := hwf g (by simp)
    have : 1 ≤ g.digits.length := by
      cases h : g.digits with
      | nil => exact absurd h hg.2.1
      | cons a b => simp
    have := ih (fun x hx => hwf x (by simp [hx]))
    simp only [strs, List.flatMap_cons, Grp.str, List.length_append, List.length_cons] at *
    omega

/-- nanoseconds a group stands for -/
def Grp.ns (g : Grp) : Nat := digitsToNat g.digits * unitRatio g.unit

theorem tokNs_tok (g : Grp) : tokNs g.tok = g.ns := by
  simp [tokNs, Grp.tok, Grp.ns, unitRatio]

theorem head_not_minus (gs : List Grp) (hwf : ∀ g ∈ gs, g.WF) : splitSign (strs gs) = (false, strs gs) := by
  cases h : strs gs with
  | nil => rfl
  | cons c r =>
    have hc := strs_head gs hwf c r h
    have : c ≠ '-' := by
      intro he; subst he
      rcases hc with hc | hc <;> revert hc <;> decide
    unfold splitSign
    split
    · rename_i r' heq; simp only [List.cons.injEq] at heq; exact absurd heq.1 this
    · rfl

/-! ## deepening round D: helper lemmas -/

theorem mem_samplesFrom (dt : Int) (hdt : 0 < dt) :
    ∀ (l : List Int) (t0 : Int) (x : Sample), x ∈ samplesFrom t0 dt l →
      t0 ≤ x.1 ∧ x.1 < t0 + l.length * dt := by
  intro l
  induction l with
  | nil => intro t0 x hx; simp [samplesFrom] at hx
  | cons v vs ih =>
    intro t0 x hx
    simp only [samplesFrom, List.mem_cons] at hx
    have e : ((vs.length + 1 : Nat) : Int) * dt = vs.length * dt + dt := by
      rw [Int.natCast_add, Int.add_mul]; omega
    have hnn : 0 ≤ (vs.length : Int) * dt := Int.mul_nonneg (by omega) (by omega)
    rcases hx with hx | hx
    · subst hx
      simp only [List.length_cons]
      rw [e]; omega
    · have := ih (t0 + dt) x hx
      simp only [List.length_cons]
      rw [e]; omega


end Verif.C01
