/-
  Helper lemmas for C01 (core Lean only).
-/
import Verif.Model.C01

namespace Verif.C01
open Verif.Py

/-- ceil(x/dt) for dt > 0 as computed by the code: (x + dt - 1) / dt -/
def cdiv (x dt : Int) : Int := (x + dt - 1) / dt

theorem cdiv_le_iff {x dt : Int} (hdt : 0 < dt) (k : Int) : cdiv x dt ≤ k ↔ x ≤ k * dt := by
  unfold cdiv
  constructor
  · intro h
    have := Int.lt_mul_ediv_self_add hdt (x := x + dt - 1)
    have h2 : (x + dt - 1) / dt * dt ≤ k * dt := Int.mul_le_mul_of_nonneg_right h (Int.le_of_lt hdt)
    rw [Int.mul_comm dt] at this
    omega
  · intro h
    have : x + dt - 1 < (k + 1) * dt := by rw [Int.add_mul]; omega
    have := (Int.ediv_lt_iff_lt_mul hdt).mpr this
    omega

theorem cdiv_sub (x dt : Int) (hdt : 0 < dt) : cdiv (x - dt) dt = cdiv x dt - 1 := by
  unfold cdiv
  have : x - dt + dt - 1 = (x + dt - 1) + (-1) * dt := by omega
  rw [this, Int.add_mul_ediv_right _ _ (by omega)]
  omega

theorem cdiv_mul (k dt : Int) (hdt : 0 < dt) : cdiv (k * dt) dt = k := by
  apply Int.le_antisymm
  · exact (cdiv_le_iff hdt k).mpr (Int.le_refl _)
  · have h := (cdiv_le_iff hdt (cdiv (k * dt) dt)).mp (Int.le_refl _)
    exact Int.le_of_mul_le_mul_right h hdt

theorem toIndex_eq_cdiv (start dt t : Int) : toIndex start dt t = cdiv (t - start) dt := by
  unfold toIndex cdiv; rfl

/-- The arithmetic heart: filtering an equidistant sample list by a window is `take`/`drop` with
    ceil-division indices. -/
theorem filter_samplesFrom (dt : Int) (hdt : 0 < dt) (a b : Int) :
    ∀ (l : List Int) (t0 : Int),
      (samplesFrom t0 dt l).filter (inWin a b) =
        samplesFrom (t0 + (cdiv (a - t0) dt).toNat * dt) dt
          ((l.take (cdiv (b - t0) dt).toNat).drop (cdiv (a - t0) dt).toNat) := by
  intro l
  induction l with
  | nil => intro t0; simp [samplesFrom]
  | cons v vs ih =>
    intro t0
    have hL : cdiv (a - (t0 + dt)) dt = cdiv (a - t0) dt - 1 := by
      have : a - (t0 + dt) = (a - t0) - dt := by omega
      rw [this, cdiv_sub _ _ hdt]
    have hH : cdiv (b - (t0 + dt)) dt = cdiv (b - t0) dt - 1 := by
      have : b - (t0 + dt) = (b - t0) - dt := by omega
      rw [this, cdiv_sub _ _ hdt]
    have hLle : cdiv (a - t0) dt ≤ 0 ↔ a ≤ t0 := by
      rw [cdiv_le_iff hdt]; omega
    have hHle : cdiv (b - t0) dt ≤ 0 ↔ b ≤ t0 := by
      rw [cdiv_le_iff hdt]; omega
    simp only [samplesFrom, List.filter_cons, inWin]
    rw [ih (t0 + dt), hL, hH]
    generalize hLdef : cdiv (a - t0) dt = L at *
    generalize hHdef : cdiv (b - t0) dt = H at *
    by_cases h1 : a ≤ t0
    · have hL0 : L ≤ 0 := hLle.mpr h1
      have hLn : L.toNat = 0 := by omega
      have hLn' : (L - 1).toNat = 0 := by omega
      by_cases h2 : t0 < b
      · have hH0 : 0 < H := by
          by_cases h : 0 < H
          · exact h
          · exact absurd (hHle.mp (by omega)) (by omega)
        obtain ⟨m, hm⟩ : ∃ m : Nat, (H - 1).toNat = m ∧ H.toNat = m + 1 := ⟨(H-1).toNat, rfl, by omega⟩
        rw [hLn, hLn', hm.1, hm.2]
        simp [h1, h2, samplesFrom]
      · have hH0 : H ≤ 0 := hHle.mpr (by omega)
        have hHn : H.toNat = 0 := by omega
        have hHn' : (H - 1).toNat = 0 := by omega
        rw [hLn, hLn', hHn, hHn']
        simp [h1, h2, samplesFrom]
    · have hL0 : 0 < L := by
        by_cases h : 0 < L
        · exact h
        · exact absurd (hLle.mp (by omega)) h1
      obtain ⟨k, hk1, hk2⟩ : ∃ k : Nat, (L - 1).toNat = k ∧ L.toNat = k + 1 := ⟨(L-1).toNat, rfl, by omega⟩
      have hshift : t0 + dt + (k : Int) * dt = t0 + ((k + 1 : Nat) : Int) * dt := by
        rw [Int.natCast_add, Int.add_mul]; omega
      by_cases hH0 : 0 < H
      · obtain ⟨m, hm⟩ : ∃ m : Nat, (H - 1).toNat = m ∧ H.toNat = m + 1 := ⟨(H-1).toNat, rfl, by omega⟩
        rw [hk1, hk2, hm.1, hm.2, hshift]
        simp [h1]
      · have hHn : H.toNat = 0 := by omega
        have hHn' : (H - 1).toNat = 0 := by omega
        rw [hk1, hk2, hHn, hHn']
        simp [h1, samplesFrom]

/-- The aligned start is the grid point with index `max (cdiv (a - start)) 0`. -/
theorem alignedStart_eq (c : Cont) (hdt : 0 < c.dt) (a : Int) :
    alignedStart c a = c.start + ((cdiv (a - c.start) c.dt).toNat : Int) * c.dt := by
  unfold alignedStart
  generalize hL : cdiv (a - c.start) c.dt = L
  -- characterise L: (L-1)*dt < a - start ≤ L*dt
  have hup : a - c.start ≤ L * c.dt := (cdiv_le_iff hdt L).mp (by omega)
  have hlo : ¬ (a - c.start ≤ (L - 1) * c.dt) := by
    intro h; have := (cdiv_le_iff hdt (L - 1)).mpr h; omega
  have hsub : (L - 1) * c.dt = L * c.dt - c.dt := by rw [Int.sub_mul]; omega
  have hdm := Int.emod_add_mul_ediv (a - c.start) c.dt
  have hnn := Int.emod_nonneg (a - c.start) (by omega : c.dt ≠ 0)
  have hlt := Int.emod_lt_of_pos (a - c.start) hdt
  generalize hq : (a - c.start) / c.dt = q at *
  generalize hr : (a - c.start) % c.dt = r at *
  simp only []
  by_cases hr0 : r = 0
  · simp only [hr0, ↓reduceIte]
    -- a - start = dt * q, so L = q
    have hLq : L = q := by
      have e : a - c.start = q * c.dt := by rw [Int.mul_comm]; omega
      rw [← hL, e]; exact cdiv_mul q c.dt hdt
    subst hLq
    by_cases hq0 : 0 ≤ L
    · have : ((L.toNat : Nat) : Int) = L := Int.toNat_of_nonneg hq0
      rw [this]
      have : c.dt * L = L * c.dt := Int.mul_comm _ _
      have hge : 0 ≤ L * c.dt := Int.mul_nonneg hq0 (by omega)
      omega
    · have h0 : L.toNat = 0 := by omega
      rw [h0]
      have : c.dt * L = L * c.dt := Int.mul_comm _ _
      have hneg : L * c.dt ≤ 0 := by
        have : L ≤ 0 := by omega
        exact Int.mul_nonpos_of_nonpos_of_nonneg this (by omega)
      simp; omega
  · simp only [hr0, ↓reduceIte]
    -- a - start = dt*q + r with 0<r<dt, so L = q+1 and a + dt - r = start + (q+1)*dt
    have hLq : L = q + 1 := by
      have hmul : c.dt * q = q * c.dt := Int.mul_comm _ _
      have e1 : a - c.start ≤ (q + 1) * c.dt := by rw [Int.add_mul]; omega
      have e2 : ¬ (a - c.start ≤ q * c.dt) := by omega
      have l1 : L ≤ q + 1 := by rw [← hL]; exact (cdiv_le_iff hdt _).mpr e1
      have l2 : ¬ (L ≤ q) := by rw [← hL]; intro h; exact e2 ((cdiv_le_iff hdt _).mp h)
      omega
    subst hLq
    have hmul : c.dt * q = q * c.dt := Int.mul_comm _ _
    have hexp : (q + 1) * c.dt = q * c.dt + c.dt := by rw [Int.add_mul]; omega
    by_cases hq0 : 0 ≤ q + 1
    · have : (((q + 1).toNat : Nat) : Int) = q + 1 := Int.toNat_of_nonneg hq0
      rw [this]
      have hge : 0 ≤ (q + 1) * c.dt := Int.mul_nonneg hq0 (by omega)
      omega
    · have h0 : (q + 1).toNat = 0 := by omega
      rw [h0]
      have hneg : (q + 1) * c.dt ≤ 0 :=
        Int.mul_nonpos_of_nonpos_of_nonneg (by omega) (by omega)
      simp; omega

theorem take_drop_min {α} (l : List α) (i j : Nat) :
    (l.take (min j l.length)).drop (min i l.length) = (l.take j).drop i := by
  have h1 : l.take (min j l.length) = l.take j := by
    rw [List.take_eq_take_iff]; omega
  rw [h1]
  by_cases h : i ≤ l.length
  · rw [Nat.min_eq_left h]
  · have hi : l.length ≤ i := by omega
    rw [Nat.min_eq_right hi]
    rw [List.drop_eq_nil_of_le (by simp; omega), List.drop_eq_nil_of_le (by simp; omega)]

theorem pySlice_nonneg {α} (l : List α) (i j : Int) (hi : 0 ≤ i) (hj : 0 ≤ j) :
    pySlice l i j = (l.take j.toNat).drop i.toNat := by
  unfold pySlice pyNorm
  rw [if_neg (by omega), if_neg (by omega)]
  exact take_drop_min l _ _


/-! ## Time strings: the strings people write -/

/-- one group of a time string in the form people write: optional white space, a whole number, a unit -/
structure Grp where
  pre : List Char
  digits : List Char
  unit : Nat

def unitChars (i : Nat) : List Char := ((units[i]?).map (·.1.toList)).getD []
def unitRatio (i : Nat) : Nat := ((units[i]?).map (·.2)).getD 0

def Grp.str (g : Grp) : List Char := g.pre ++ g.digits ++ unitChars g.unit
def Grp.WF (g : Grp) : Prop := g.pre.all isSpace = true ∧ g.digits ≠ [] ∧ g.digits.all isDigit = true ∧ g.unit < 7
def Grp.tok (g : Grp) : Tok := ⟨⟨digitsToNat g.digits, 0⟩, g.unit⟩

theorem takeWhile_append_stop {p : Char → Bool} (l r : List Char) (hl : l.all p = true)
    (hr : ∀ c r', r = c :: r' → p c = false) : (l ++ r).takeWhile p = l ∧ (l ++ r).dropWhile p = r := by
  induction l with
  | nil =>
    cases r with
    | nil => simp
    | cons c r' => simp [List.takeWhile_cons, List.dropWhile_cons, hr c r' rfl]
  | cons x xs ih =>
    simp only [List.all_cons, Bool.and_eq_true] at hl
    simp [List.takeWhile_cons, List.dropWhile_cons, hl.1, ih hl.2]

theorem digit_not_space (c : Char) (h : isDigit c = true) : isSpace c = false := by
  unfold isDigit at h; unfold isSpace
  simp only [Bool.and_eq_true, decide_eq_true_eq] at h
  have h1 : '0'.toNat ≤ c.toNat := h.1
  have h2 : c.toNat ≤ '9'.toNat := h.2
  have : ∀ d : Char, d.toNat < 48 → c ≠ d := fun d hd he => by subst he; simp at h1; omega
  simp [this]

theorem digit_not_unitChar (c : Char) (h : isDigit c = true) : isUnitChar c = false := by
  unfold isUnitChar; simp [h]




theorem unit_facts (i : Nat) (h : i < 7) :
    unitChars i ≠ [] ∧ (unitChars i).all isUnitChar = true ∧
    (unitChars i).head?.all (fun c => !isDigit c && !isSpace c && c != '.') = true ∧
    unitIndex? (String.ofList (unitChars i)) = some i := by
  match i, h with
  | 0, _ | 1, _ | 2, _ | 3, _ | 4, _ | 5, _ | 6, _ => decide

theorem unit_head (i : Nat) (h : i < 7) (c : Char) (r : List Char) (hc : unitChars i = c :: r) :
    isDigit c = false ∧ isSpace c = false ∧ c ≠ '.' := by
  have := (unit_facts i h).2.2.1
  rw [hc] at this
  simp at this
  exact ⟨this.1.1, this.1.2, this.2⟩


def strs (gs : List Grp) : List Char := gs.flatMap Grp.str

/-- what may follow a group: nothing, or the next group (which starts with white space or a digit) -/
theorem strs_head (gs : List Grp) (hwf : ∀ g ∈ gs, g.WF) (c : Char) (r : List Char) (h : strs gs = c :: r) :
    isSpace c = true ∨ isDigit c = true := by
  cases gs with
  | nil => simp [strs] at h
  | cons g gs =>
    have hg := hwf g (by simp)
    unfold strs at h
    simp only [List.flatMap_cons, Grp.str, List.append_assoc] at h
    cases hp : g.pre with
    | cons x xs =>
      rw [hp] at h; simp only [List.cons_append, List.cons.injEq] at h
      have := hg.1; rw [hp] at this; simp only [List.all_cons, Bool.and_eq_true] at this
      left; rw [← h.1]; exact this.1
    | nil =>
      rw [hp] at h; simp only [List.nil_append] at h
      cases hd : g.digits with
      | nil => exact absurd hd hg.2.1
      | cons x xs =>
        rw [hd] at h; simp only [List.cons_append, List.cons.injEq] at h
        have := hg.2.2.1; rw [hd] at this; simp only [List.all_cons, Bool.and_eq_true] at this
        right; rw [← h.1]; exact this.1

theorem space_not_unitChar (c : Char) (h : isSpace c = true) : isUnitChar c = false := by
  unfold isUnitChar; simp [h]

theorem lexToks_strs (gs : List Grp) (hwf : ∀ g ∈ gs, g.WF) (fuel : Nat) (hf : gs.length < fuel) :
    lexToks fuel (strs gs) = some (gs.map Grp.tok, false) := by
  induction gs generalizing fuel with
  | nil =>
    cases fuel with
    | zero => omega
    | succ f => simp [strs, lexToks]
  | cons g gs ih =>
    cases fuel with
    | zero => omega
    | succ f =>
      have hg := hwf g (by simp)
      have hwf' : ∀ g ∈ gs, g.WF := fun x hx => hwf x (by simp [hx])
      obtain ⟨hpre, hne, hdig, hu⟩ := hg
      obtain ⟨d0, ds, hd⟩ : ∃ d0 ds, g.digits = d0 :: ds := by
        cases h : g.digits with
        | nil => exact absurd h hne
        | cons a b => exact ⟨a, b, rfl⟩
      have hd0 : isDigit d0 = true := by
        have := hdig; rw [hd] at this; simp only [List.all_cons, Bool.and_eq_true] at this; exact this.1
      obtain ⟨u0, us, hu0⟩ : ∃ u0 us, unitChars g.unit = u0 :: us := by
        cases h : unitChars g.unit with
        | nil => exact absurd h (unit_facts g.unit hu).1
        | cons a b => exact ⟨a, b, rfl⟩
      obtain ⟨hu0d, hu0s, hu0p⟩ := unit_head g.unit hu u0 us hu0
      have hcs : strs (g :: gs) = g.pre ++ (g.digits ++ (unitChars g.unit ++ strs gs)) := by
        simp [strs, Grp.str, List.append_assoc]
      -- skip the white space
      have h1 := takeWhile_append_stop (p := isSpace) g.pre (g.digits ++ (unitChars g.unit ++ strs gs)) hpre
        (by intro c r' hc; rw [hd] at hc; simp only [List.cons_append, List.cons.injEq] at hc
            rw [← hc.1]; exact digit_not_space d0 hd0)
      -- the number
      have h2 := takeWhile_append_stop (p := isDigit) g.digits (unitChars g.unit ++ strs gs) hdig
        (by intro c r' hc; rw [hu0] at hc; simp only [List.cons_append, List.cons.injEq] at hc
            rw [← hc.1]; exact hu0d)
      -- the unit
      have h3 := takeWhile_append_stop (p := isUnitChar) (unitChars g.unit) (strs gs) (unit_facts g.unit hu).2.1
        (by intro c r' hc
            rcases strs_head gs hwf' c r' hc with h | h
            · exact space_not_unitChar c h
            · exact digit_not_unitChar c h)
      have hrest_ne : (g.digits ++ (unitChars g.unit ++ strs gs)).isEmpty = false := by rw [hd]; rfl
      have hnum : lexNumber (g.digits ++ (unitChars g.unit ++ strs gs)) =
          some (⟨digitsToNat g.digits, 0⟩, unitChars g.unit ++ strs gs) := by
        unfold lexNumber
        simp only [h2.1, h2.2]
        rw [hu0]
        simp only [List.cons_append]
        have : g.digits.isEmpty = false := by rw [hd]; rfl
        split
        · rename_i r2 heq
          simp only [List.cons.injEq] at heq
          exact absurd heq.1 hu0p
        · simp [this]
      have hsp : (unitChars g.unit ++ strs gs).dropWhile isSpace = unitChars g.unit ++ strs gs := by
        rw [hu0]; simp [List.dropWhile_cons, hu0s]
      rw [hcs]
      unfold lexToks
      simp only [h1.2, hrest_ne, Bool.false_eq_true, ↓reduceIte, hnum, hsp, h3.1, h3.2, (unit_facts g.unit hu).2.2.2]
      rw [ih hwf' f (by simp at hf; omega)]
      simp [Grp.tok]


theorem length_le_strs (gs : List Grp) (hwf : ∀ g ∈ gs, g.WF) : gs.length ≤ (strs gs).length := by
  induction gs with
  | nil => simp
  | cons g gs ih =>
    have hg := hwf g (by simp)
    have : 1 ≤ g.digits.length := by
      cases h : g.digits with
      | nil => exact absurd h hg.2.1
      | cons a b => simp
    have := ih (fun x hx => hwf x (by simp [hx]))
    simp only [strs, List.flatMap_cons, Grp.str, List.length_append, List.length_cons] at *
    omega

/-- nanoseconds a group stands for -/
def Grp.ns (g : Grp) : Nat := digitsToNat g.digits * unitRatio g.unit

theorem tokNs_tok (g : Grp) : tokNs g.tok = g.ns := by
  simp [tokNs, Grp.tok, Grp.ns, unitRatio]

theorem head_not_minus (gs : List Grp) (hwf : ∀ g ∈ gs, g.WF) : splitSign (strs gs) = (false, strs gs) := by
  cases h : strs gs with
  | nil => rfl
  | cons c r =>
    have hc := strs_head gs hwf c r h
    have : c ≠ '-' := by
      intro he; subst he
      rcases hc with hc | hc <;> revert hc <;> decide
    unfold splitSign
    split
    · rename_i r' heq; simp only [List.cons.injEq] at heq; exact absurd heq.1 this
    · rfl

/-! ## deepening round D: helper lemmas -/

theorem mem_samplesFrom (dt : Int) (hdt : 0 < dt) :
    ∀ (l : List Int) (t0 : Int) (x : Sample), x ∈ samplesFrom t0 dt l →
      t0 ≤ x.1 ∧ x.1 < t0 + l.length * dt := by
  intro l
  induction l with
  | nil => intro t0 x hx; simp [samplesFrom] at hx
  | cons v vs ih =>
    intro t0 x hx
    simp only [samplesFrom, List.mem_cons] at hx
    have e : ((vs.length + 1 : Nat) : Int) * dt = vs.length * dt + dt := by
      rw [Int.natCast_add, Int.add_mul]; omega
    have hnn : 0 ≤ (vs.length : Int) * dt := Int.mul_nonneg (by omega) (by omega)
    rcases hx with hx | hx
    · subst hx
      simp only [List.length_cons]
      rw [e]; omega
    · have := ih (t0 + dt) x hx
      simp only [List.length_cons]
      rw [e]; omega


/-! ## deepening round D: the time-string matcher against the regular expression -/

/-- one `number \s* unit` group with the white space in front of it, as the regular expression describes it -/
structure GG where
  pre : List Char
  d1 : List Char
  dot : Bool
  d2 : List Char
  mid : List Char
  unit : Nat

def dotStr (dot : Bool) : List Char := if dot then ['.'] else []
def GG.numStr (g : GG) : List Char := g.d1 ++ dotStr g.dot ++ g.d2
def GG.core (g : GG) : List Char := g.numStr ++ g.mid ++ unitChars g.unit
def GG.str (g : GG) : List Char := g.pre ++ g.core
def GG.WF (g : GG) : Prop :=
  g.pre.all isSpace = true ∧ g.d1.all isDigit = true ∧ g.d2.all isDigit = true ∧ g.d2 ≠ [] ∧
  g.mid.all isSpace = true ∧ g.unit < 7
def GG.tok (g : GG) : Tok := ⟨⟨digitsToNat (g.d1 ++ g.d2), if g.dot then g.d2.length else 0⟩, g.unit⟩
def strsG (gs : List GG) : List Char := gs.flatMap GG.str

theorem space_not_digit (c : Char) (h : isSpace c = true) : isDigit c = false := by
  cases hd : isDigit c with
  | false => rfl
  | true => rw [digit_not_space c hd] at h; cases h

theorem space_not_dot (c : Char) (h : isSpace c = true) : c ≠ '.' := by
  intro he; subst he; revert h; decide

theorem digit_not_dot (c : Char) (h : isDigit c = true) : c ≠ '.' := by
  intro he; subst he; revert h; decide

theorem dot_not_space : isSpace '.' = false := by decide
theorem dot_not_digit : isDigit '.' = false := by decide
theorem dot_not_unitChar : isUnitChar '.' = false := by decide

/-- what a number starts with -/
theorem numStr_head (g : GG) (h : g.WF) : ∃ c r, g.numStr = c :: r ∧ (isDigit c = true ∨ c = '.') := by
  obtain ⟨_, h1, h2, hne, _, _⟩ := h
  cases hd1 : g.d1 with
  | cons a b =>
    refine ⟨a, b ++ (dotStr g.dot ++ g.d2), by simp [GG.numStr, hd1], Or.inl ?_⟩
    rw [hd1] at h1; simp only [List.all_cons, Bool.and_eq_true] at h1; exact h1.1
  | nil =>
    cases hdot : g.dot with
    | true => exact ⟨'.', g.d2, by simp [GG.numStr, hd1, hdot, dotStr], Or.inr rfl⟩
    | false =>
      cases hd2 : g.d2 with
      | nil => exact absurd hd2 hne
      | cons a b =>
        refine ⟨a, b, by simp [GG.numStr, hd1, hdot, dotStr, hd2], Or.inl ?_⟩
        rw [hd2] at h2; simp only [List.all_cons, Bool.and_eq_true] at h2; exact h2.1

/-- The number lexer reads exactly `\d*\.?\d+` when what follows is neither a digit nor a dot. -/
theorem lexNumber_gg (g : GG) (h : g.WF) (c : Char) (r : List Char) (hc1 : isDigit c = false) (hc2 : c ≠ '.') :
    lexNumber (g.numStr ++ c :: r) = some (g.tok.num, c :: r) := by
  obtain ⟨_, h1, h2, hne, _, _⟩ := h
  unfold GG.numStr dotStr GG.tok
  cases hdot : g.dot with
  | false =>
    simp only [Bool.false_eq_true, ↓reduceIte, List.append_nil]
    have hall : (g.d1 ++ g.d2).all isDigit = true := by simp [List.all_append, h1, h2]
    have ht := takeWhile_append_stop (p := isDigit) (g.d1 ++ g.d2) (c :: r) hall
      (by intro c' r' hc; simp only [List.cons.injEq] at hc; rw [← hc.1]; exact hc1)
    unfold lexNumber
    simp only [ht.1, ht.2]
    have hne' : (g.d1 ++ g.d2).isEmpty = false := by
      cases hd2 : g.d2 with
      | nil => exact absurd hd2 hne
      | cons a b => cases g.d1 <;> rfl
    split
    · rename_i r2 heq
      simp only [List.cons.injEq] at heq
      exact absurd heq.1 hc2
    · simp [hne']
  | true =>
    simp only [↓reduceIte]
    have e : g.d1 ++ ['.'] ++ g.d2 ++ c :: r = g.d1 ++ ('.' :: (g.d2 ++ c :: r)) := by simp
    rw [e]
    have ht := takeWhile_append_stop (p := isDigit) g.d1 ('.' :: (g.d2 ++ c :: r)) h1
      (by intro c' r' hc; simp only [List.cons.injEq] at hc; rw [← hc.1]; exact dot_not_digit)
    have ht2 := takeWhile_append_stop (p := isDigit) g.d2 (c :: r) h2
      (by intro c' r' hc; simp only [List.cons.injEq] at hc; rw [← hc.1]; exact hc1)
    unfold lexNumber
    simp only [ht.1, ht.2, ht2.1, ht2.2]
    have hne' : g.d2.isEmpty = false := by
      cases hd2 : g.d2 with
      | nil => exact absurd hd2 hne
      | cons a b => rfl
    simp [hne']

theorem all_takeWhile' (p : Char → Bool) (l : List Char) : (l.takeWhile p).all p = true := by
  induction l with
  | nil => rfl
  | cons x xs ih =>
    simp only [List.takeWhile_cons]
    cases hx : p x <;> simp [hx, ih]

theorem dropWhile_head_not (p : Char → Bool) (l : List Char) (c : Char) (r : List Char)
    (h : l.dropWhile p = c :: r) : p c = false := by
  induction l with
  | nil => simp at h
  | cons x xs ih =>
    simp only [List.dropWhile_cons] at h
    cases hx : p x with
    | true => rw [hx] at h; exact ih h
    | false =>
      rw [hx] at h; simp only [Bool.false_eq_true, ↓reduceIte, List.cons.injEq] at h
      rw [← h.1]; exact hx

/-- Whatever the number lexer accepts has the shape `\d*\.?\d+`. -/
theorem lexNumber_sound (cs : List Char) (n : Dec) (r : List Char) (h : lexNumber cs = some (n, r)) :
    ∃ d1 dot d2, d1.all isDigit = true ∧ d2.all isDigit = true ∧ d2 ≠ [] ∧
      cs = d1 ++ dotStr dot ++ d2 ++ r ∧ n = ⟨digitsToNat (d1 ++ d2), if dot then d2.length else 0⟩ := by
  simp only [lexNumber] at h
  have hsplit := List.takeWhile_append_dropWhile (p := isDigit) (l := cs)
  split at h
  · rename_i r2 heq
    split at h
    · cases h
    · rename_i hne
      simp only [Option.some.injEq, Prod.mk.injEq] at h
      refine ⟨cs.takeWhile isDigit, true, r2.takeWhile isDigit, all_takeWhile' _ _, all_takeWhile' _ _, ?_, ?_, h.1.symm⟩
      · intro he; rw [he] at hne; simp at hne
      · have h2 := List.takeWhile_append_dropWhile (p := isDigit) (l := r2)
        rw [← h.2]
        simp only [dotStr, ↓reduceIte]
        rw [List.append_assoc, List.append_assoc, h2]
        simp only [List.cons_append, List.nil_append]
        rw [← heq, hsplit]
  · split at h
    · cases h
    · rename_i hne
      simp only [Option.some.injEq, Prod.mk.injEq] at h
      refine ⟨[], false, cs.takeWhile isDigit, rfl, all_takeWhile' _ _, ?_, ?_, ?_⟩
      · intro he; rw [he] at hne; simp at hne
      · rw [← h.2]; simp [dotStr, hsplit]
      · rw [← h.1]; simp


theorem dropWhile_nil_of_all (p : Char → Bool) (l : List Char) (h : l.all p = true) : l.dropWhile p = [] := by
  induction l with
  | nil => rfl
  | cons x xs ih =>
    simp only [List.all_cons, Bool.and_eq_true] at h
    simp [List.dropWhile_cons, h.1, ih h.2]

theorem all_of_dropWhile_nil (p : Char → Bool) (l : List Char) (h : l.dropWhile p = []) : l.all p = true := by
  induction l with
  | nil => rfl
  | cons x xs ih =>
    simp only [List.dropWhile_cons] at h
    cases hx : p x with
    | true => rw [hx] at h; simp [hx, ih h]
    | false => rw [hx] at h; simp at h

theorem unitIndex_sound (u : List Char) (i : Nat) (h : unitIndex? (String.ofList u) = some i) :
    i < 7 ∧ u = unitChars i := by
  unfold unitIndex? at h
  rw [List.findIdx?_eq_some_iff_getElem] at h
  obtain ⟨hi, hp, _⟩ := h
  have hi7 : i < 7 := hi
  refine ⟨hi7, ?_⟩
  have he : units[i].1 = String.ofList u := eq_of_beq hp
  unfold unitChars
  rw [List.getElem?_eq_getElem hi]
  simp only [Option.map_some, Option.getD_some]
  have h2 := congrArg String.toList he
  rw [String.toList_ofList] at h2
  exact h2.symm

/-- what may follow a unit: nothing, white space, or the next number -/
theorem strsG_head (gs : List GG) (post : List Char) (hwf : ∀ g ∈ gs, g.WF) (hp : post.all isSpace = true)
    (c : Char) (r : List Char) (h : strsG gs ++ post = c :: r) : isUnitChar c = false := by
  cases gs with
  | nil =>
    simp only [strsG, List.flatMap_nil, List.nil_append] at h
    rw [h] at hp; simp only [List.all_cons, Bool.and_eq_true] at hp
    exact space_not_unitChar c hp.1
  | cons g gs =>
    have hg := hwf g (by simp)
    obtain ⟨c0, r0, hn, hc0⟩ := numStr_head g hg
    simp only [strsG, List.flatMap_cons, GG.str, GG.core, List.append_assoc] at h
    cases hpre : g.pre with
    | cons x xs =>
      rw [hpre] at h; simp only [List.cons_append, List.cons.injEq] at h
      have := hg.1; rw [hpre] at this; simp only [List.all_cons, Bool.and_eq_true] at this
      rw [← h.1]; exact space_not_unitChar x this.1
    | nil =>
      rw [hpre, hn] at h; simp only [List.nil_append, List.cons_append, List.cons.injEq] at h
      rw [← h.1]
      rcases hc0 with hc0 | hc0
      · exact digit_not_unitChar c0 hc0
      · rw [hc0]; exact dot_not_unitChar

theorem lexToks_complete (gs : List GG) (post : List Char) (hwf : ∀ g ∈ gs, g.WF) (hp : post.all isSpace = true)
    (fuel : Nat) (hf : gs.length < fuel) :
    lexToks fuel (strsG gs ++ post) = some (gs.map GG.tok, !post.isEmpty) := by
  induction gs generalizing fuel with
  | nil =>
    cases fuel with
    | zero => omega
    | succ f =>
      have hd : post.dropWhile isSpace = [] := dropWhile_nil_of_all _ _ hp
      simp [strsG, lexToks, hd]
  | cons g gs ih =>
    cases fuel with
    | zero => omega
    | succ f =>
      have hg := hwf g (by simp)
      have hwf' : ∀ g ∈ gs, g.WF := fun x hx => hwf x (by simp [hx])
      obtain ⟨c0, r0, hn, hc0⟩ := numStr_head g hg
      obtain ⟨hpre, _, _, _, hmid, hu⟩ := hg
      obtain ⟨u0, us, hu0⟩ : ∃ u0 us, unitChars g.unit = u0 :: us := by
        cases h : unitChars g.unit with
        | nil => exact absurd h (unit_facts g.unit hu).1
        | cons a b => exact ⟨a, b, rfl⟩
      obtain ⟨hu0d, hu0s, hu0p⟩ := unit_head g.unit hu u0 us hu0
      -- the text after the number: `mid ++ unit ++ rest`, starting with a blank or the unit's first letter
      obtain ⟨m0, mr, hm, hm0d, hm0p⟩ : ∃ m0 mr, g.mid ++ (unitChars g.unit ++ (strsG gs ++ post)) = m0 :: mr ∧
          isDigit m0 = false ∧ m0 ≠ '.' := by
        cases hmid' : g.mid with
        | nil => exact ⟨u0, us ++ (strsG gs ++ post), by simp [hu0], hu0d, hu0p⟩
        | cons a b =>
          have := hmid; rw [hmid'] at this; simp only [List.all_cons, Bool.and_eq_true] at this
          exact ⟨a, b ++ (unitChars g.unit ++ (strsG gs ++ post)), by simp, space_not_digit a this.1, space_not_dot a this.1⟩
      have hcs : strsG (g :: gs) ++ post =
          g.pre ++ (g.numStr ++ (g.mid ++ (unitChars g.unit ++ (strsG gs ++ post)))) := by
        simp [strsG, GG.str, GG.core, List.append_assoc]
      have h1 := takeWhile_append_stop (p := isSpace) g.pre
        (g.numStr ++ (g.mid ++ (unitChars g.unit ++ (strsG gs ++ post)))) hpre
        (by intro c r' hc; rw [hn] at hc; simp only [List.cons_append, List.cons.injEq] at hc
            rw [← hc.1]
            rcases hc0 with hc0 | hc0
            · exact digit_not_space c0 hc0
            · rw [hc0]; exact dot_not_space)
      have hnum : lexNumber (g.numStr ++ (g.mid ++ (unitChars g.unit ++ (strsG gs ++ post)))) =
          some (g.tok.num, g.mid ++ (unitChars g.unit ++ (strsG gs ++ post))) := by
        rw [hm]; exact lexNumber_gg g (hwf g (by simp)) m0 mr hm0d hm0p
      have h2 := takeWhile_append_stop (p := isSpace) g.mid (unitChars g.unit ++ (strsG gs ++ post)) hmid
        (by intro c r' hc; rw [hu0] at hc; simp only [List.cons_append, List.cons.injEq] at hc
            rw [← hc.1]; exact hu0s)
      have h3 := takeWhile_append_stop (p := isUnitChar) (unitChars g.unit) (strsG gs ++ post)
        (unit_facts g.unit hu).2.1
        (by intro c r' hc; exact strsG_head gs post hwf' hp c r' hc)
      have hrest_ne : (g.numStr ++ (g.mid ++ (unitChars g.unit ++ (strsG gs ++ post)))).isEmpty = false := by
        rw [hn]; rfl
      rw [hcs]
      unfold lexToks
      simp only [h1.2, hrest_ne, Bool.false_eq_true, ↓reduceIte, hnum, h2.2, h3.1, h3.2,
        (unit_facts g.unit hu).2.2.2]
      rw [ih hwf' f (by simp at hf; omega)]
      simp [GG.tok]

theorem lexToks_sound (fuel : Nat) (cs : List Char) (toks : List Tok) (trail : Bool)
    (h : lexToks fuel cs = some (toks, trail)) :
    ∃ gs post, (∀ g ∈ gs, g.WF) ∧ post.all isSpace = true ∧ cs = strsG gs ++ post ∧
      toks = gs.map GG.tok ∧ trail = !post.isEmpty := by
  induction fuel generalizing cs toks trail with
  | zero =>
    unfold lexToks at h
    split at h
    · rename_i he
      simp only [Option.some.injEq, Prod.mk.injEq] at h
      refine ⟨[], [], by simp, rfl, ?_, h.1.symm, h.2.symm⟩
      simpa [strsG] using he
    · cases h
  | succ f ih =>
    simp only [lexToks] at h
    have hsp := List.takeWhile_append_dropWhile (p := isSpace) (l := cs)
    split at h
    · rename_i he
      simp only [Option.some.injEq, Prod.mk.injEq] at h
      have hall : cs.all isSpace = true := all_of_dropWhile_nil _ _ (by simpa using he)
      exact ⟨[], cs, by simp, hall, by simp [strsG], h.1.symm, h.2.symm⟩
    · split at h
      · cases h
      · rename_i n r1 hnum
        split at h
        · cases h
        · rename_i ui hui
          split at h
          · cases h
          · rename_i ts tr hrec
            simp only [Option.some.injEq, Prod.mk.injEq] at h
            obtain ⟨gs, post, hwf, hp, hcs, hts, htr⟩ := ih _ _ _ hrec
            obtain ⟨d1, dot, d2, hd1, hd2, hne, hrest, hn⟩ := lexNumber_sound _ _ _ hnum
            obtain ⟨hu7, huc⟩ := unitIndex_sound _ _ hui
            have hm := List.takeWhile_append_dropWhile (p := isSpace) (l := r1)
            have hu := List.takeWhile_append_dropWhile (p := isUnitChar) (l := r1.dropWhile isSpace)
            refine ⟨⟨cs.takeWhile isSpace, d1, dot, d2, r1.takeWhile isSpace, ui⟩ :: gs, post, ?_, hp, ?_, ?_, ?_⟩
            · intro g hg
              rcases List.mem_cons.mp hg with hg | hg
              · subst hg
                exact ⟨all_takeWhile' _ _, hd1, hd2, hne, all_takeWhile' _ _, hu7⟩
              · exact hwf g hg
            · simp only [strsG, List.flatMap_cons, GG.str, GG.core, GG.numStr]
              rw [← huc]
              have : strsG gs = gs.flatMap GG.str := rfl
              rw [← this, List.append_assoc, List.append_assoc, List.append_assoc, ← hcs, hu]
              rw [List.append_assoc, hm, ← hrest, hsp]
            · rw [← h.1, hts]; simp [GG.tok, hn]
            · rw [← h.2, htr]


/-! ### The regular expression, read as a specification -/

/-- `(?P<u>\d*\.?\d+)\s*u` for the unit number `i`, with the token it captures. -/
inductive GroupMatch (i : Nat) : List Char → Tok → Prop
  | mk (d1 d2 mid : List Char) (dot : Bool) :
      d1.all isDigit = true → d2.all isDigit = true → d2 ≠ [] → mid.all isSpace = true →
      GroupMatch i (d1 ++ dotStr dot ++ d2 ++ mid ++ unitChars i)
        ⟨⟨digitsToNat (d1 ++ d2), if dot then d2.length else 0⟩, i⟩

/-- `(\s*(G_i)?)(\s*(G_{i+1})?)…(\s*(G_ns)?)`: the optional groups of the units `i … 6`, each preceded by `\s*`. -/
inductive TailMatch : Nat → List Char → List Tok → Prop
  | done : TailMatch 7 [] []
  | absent (i : Nat) (ws rest : List Char) (toks : List Tok) :
      i < 7 → ws.all isSpace = true → TailMatch (i + 1) rest toks → TailMatch i (ws ++ rest) toks
  | present (i : Nat) (ws g rest : List Char) (tok : Tok) (toks : List Tok) :
      i < 7 → ws.all isSpace = true → GroupMatch i g tok → TailMatch (i + 1) rest toks →
      TailMatch i (ws ++ g ++ rest) (tok :: toks)

/-- The part of the pattern after the sign: `(G_d)?` followed by `\s*(G_h)? … \s*(G_ns)?`. -/
inductive BodyMatch : List Char → List Tok → Prop
  | absent (rest : List Char) (toks : List Tok) : TailMatch 1 rest toks → BodyMatch rest toks
  | present (g rest : List Char) (tok : Tok) (toks : List Tok) :
      GroupMatch 0 g tok → TailMatch 1 rest toks → BodyMatch (g ++ rest) (tok :: toks)

/-- canonical form of a tail: groups with strictly increasing units `≥ i`; trailing white space needs a free
    `\s*` slot (none is left after an `ns` group) -/
def CanonTail : Nat → List GG → List Char → Prop
  | i, [], post => post.all isSpace = true ∧ (post = [] ∨ i < 7) ∧ i ≤ 7
  | i, g :: gs, post => g.WF ∧ i ≤ g.unit ∧ CanonTail (g.unit + 1) gs post

theorem GG.groupMatch (g : GG) (h : g.WF) : GroupMatch g.unit g.core g.tok := by
  obtain ⟨_, h1, h2, hne, hm, _⟩ := h
  exact GroupMatch.mk g.d1 g.d2 g.mid g.dot h1 h2 hne hm

theorem tail_of_canon : ∀ (k i : Nat), i + k = 7 → ∀ (gs : List GG) (post : List Char),
    CanonTail i gs post → TailMatch i (strsG gs ++ post) (gs.map GG.tok) := by
  intro k
  induction k with
  | zero =>
    intro i hi gs post hc
    have hi7 : i = 7 := by omega
    subst hi7
    cases gs with
    | nil =>
      obtain ⟨_, h2, _⟩ := hc
      rcases h2 with h2 | h2
      · subst h2; exact TailMatch.done
      · omega
    | cons g gs =>
      obtain ⟨hwf, h2, _⟩ := hc
      have := hwf.2.2.2.2.2
      omega
  | succ k ih =>
    intro i hi gs post hc
    have hi7 : i < 7 := by omega
    cases gs with
    | nil =>
      obtain ⟨h1, _, _⟩ := hc
      have hrest := ih (i + 1) (by omega) [] [] ⟨rfl, Or.inl rfl, by omega⟩
      have := TailMatch.absent i post [] [] hi7 h1 hrest
      simpa [strsG] using this
    | cons g gs =>
      obtain ⟨hwf, h2, h3⟩ := hc
      by_cases hu : g.unit = i
      · have hrest := ih (i + 1) (by omega) gs post (by rw [← hu]; exact h3)
        have hg := GG.groupMatch g hwf
        rw [hu] at hg
        have := TailMatch.present i g.pre g.core (strsG gs ++ post) g.tok (gs.map GG.tok) hi7 hwf.1 hg hrest
        simpa [strsG, GG.str, List.append_assoc] using this
      · have hrest := ih (i + 1) (by omega) (g :: gs) post ⟨hwf, by omega, h3⟩
        have := TailMatch.absent i [] _ _ hi7 rfl hrest
        simpa using this

theorem canon_of_tail (i : Nat) (cs : List Char) (toks : List Tok) (h : TailMatch i cs toks) :
    ∃ gs post, cs = strsG gs ++ post ∧ CanonTail i gs post ∧ toks = gs.map GG.tok := by
  induction h with
  | done => exact ⟨[], [], rfl, ⟨rfl, Or.inl rfl, by omega⟩, rfl⟩
  | absent i ws rest toks hi hws _ ih =>
    obtain ⟨gs, post, hcs, hc, ht⟩ := ih
    cases gs with
    | nil =>
      obtain ⟨h1, _, _⟩ := hc
      refine ⟨[], ws ++ post, by simp [strsG, hcs], ⟨?_, Or.inr hi, by omega⟩, ht⟩
      simp [List.all_append, hws, h1]
    | cons g gs =>
      obtain ⟨hwf, h2, h3⟩ := hc
      obtain ⟨w1, w2, w3, w4, w5, w6⟩ := hwf
      refine ⟨⟨ws ++ g.pre, g.d1, g.dot, g.d2, g.mid, g.unit⟩ :: gs, post, ?_, ⟨⟨?_, w2, w3, w4, w5, w6⟩, by simp; omega, h3⟩, ?_⟩
      · simp [hcs, strsG, GG.str, GG.core, GG.numStr, List.append_assoc]
      · simp [List.all_append, hws, w1]
      · simp [ht, GG.tok]
  | present i ws g rest tok toks hi hws hg _ ih =>
    obtain ⟨gs, post, hcs, hc, ht⟩ := ih
    cases hg with
    | mk d1 d2 mid dot h1 h2 hne hm =>
      refine ⟨⟨ws, d1, dot, d2, mid, i⟩ :: gs, post, ?_, ⟨⟨hws, h1, h2, hne, hm, hi⟩, Nat.le_refl _, hc⟩, ?_⟩
      · simp [hcs, strsG, GG.str, GG.core, GG.numStr, List.append_assoc]
      · simp [ht, GG.tok]

theorem canonTail_le (i j : Nat) (hji : j ≤ i) (gs : List GG) (post : List Char) (h : CanonTail i gs post) :
    CanonTail j gs post := by
  cases gs with
  | nil =>
    obtain ⟨h1, h2, h3⟩ := h
    exact ⟨h1, h2.imp id (fun h => by omega), by omega⟩
  | cons g gs =>
    obtain ⟨h1, h2, h3⟩ := h
    exact ⟨h1, by omega, h3⟩

/-- canonical form of the whole body: nothing may precede a `d` group -/
def CanonTop (gs : List GG) (post : List Char) : Prop :=
  CanonTail 0 gs post ∧ ∀ g, gs.head? = some g → g.unit = 0 → g.pre = []

theorem body_of_canon (gs : List GG) (post : List Char) (h : CanonTop gs post) :
    BodyMatch (strsG gs ++ post) (gs.map GG.tok) := by
  obtain ⟨hc, hh⟩ := h
  cases gs with
  | nil =>
    obtain ⟨h1, _, _⟩ := hc
    exact BodyMatch.absent _ _ (tail_of_canon 6 1 rfl [] post ⟨h1, Or.inr (by omega), by omega⟩)
  | cons g gs =>
    obtain ⟨hwf, _, h3⟩ := hc
    by_cases hu : g.unit = 0
    · have hpre := hh g rfl hu
      have ht := tail_of_canon 6 1 rfl gs post (by rw [hu] at h3; exact h3)
      have hg := GG.groupMatch g hwf
      rw [hu] at hg
      have := BodyMatch.present g.core (strsG gs ++ post) g.tok (gs.map GG.tok) hg ht
      simpa [strsG, GG.str, hpre, List.append_assoc] using this
    · exact BodyMatch.absent _ _ (tail_of_canon 6 1 rfl (g :: gs) post ⟨hwf, by omega, h3⟩)

theorem canon_of_body (cs : List Char) (toks : List Tok) (h : BodyMatch cs toks) :
    ∃ gs post, cs = strsG gs ++ post ∧ CanonTop gs post ∧ toks = gs.map GG.tok := by
  cases h with
  | absent rest toks ht =>
    obtain ⟨gs, post, hcs, hc, htk⟩ := canon_of_tail 1 _ _ ht
    refine ⟨gs, post, hcs, ⟨canonTail_le 1 0 (by omega) gs post hc, ?_⟩, htk⟩
    intro g hg hu
    cases gs with
    | nil => simp at hg
    | cons g' gs' =>
      simp only [List.head?_cons, Option.some.injEq] at hg; subst hg
      have := hc.2.1; omega
  | present g rest tok toks hg ht =>
    obtain ⟨gs, post, hcs, hc, htk⟩ := canon_of_tail 1 _ _ ht
    cases hg with
    | mk d1 d2 mid dot h1 h2 hne hm =>
      refine ⟨⟨[], d1, dot, d2, mid, 0⟩ :: gs, post, ?_, ⟨⟨⟨rfl, h1, h2, hne, hm, by show (0 : Nat) < 7; omega⟩, Nat.le_refl _, hc⟩, ?_⟩, ?_⟩
      · simp [hcs, strsG, GG.str, GG.core, GG.numStr, List.append_assoc]
      · intro g hg _
        simp only [List.head?_cons, Option.some.injEq] at hg; subst hg; rfl
      · simp [htk, GG.tok]


theorem canonTail_iff (gs : List GG) (post : List Char) (hwf : ∀ g ∈ gs, g.WF) (hp : post.all isSpace = true) :
    ∀ i, i ≤ 7 → (CanonTail i gs post ↔
      (∀ g, gs.head? = some g → i ≤ g.unit) ∧ strictlyIncreasing (gs.map (·.unit)) = true ∧
      (∀ g, gs.getLast? = some g → post = [] ∨ g.unit < 6) ∧ (gs = [] → post = [] ∨ i < 7)) := by
  induction gs with
  | nil =>
    intro i hi
    simp [CanonTail, hp, hi, strictlyIncreasing]
  | cons g gs ih =>
    intro i hi
    have hg := hwf g (by simp)
    have hu : g.unit < 7 := hg.2.2.2.2.2
    have ih' := ih (fun x hx => hwf x (by simp [hx])) (g.unit + 1) (by omega)
    simp only [CanonTail, ih', hg, true_and]
    cases gs with
    | nil =>
      simp [strictlyIncreasing]
      intro _
      constructor <;> (intro h; exact h.imp id (fun h => by omega))
    | cons h t =>
      simp only [List.head?_cons, Option.some.injEq, forall_eq', List.map_cons, strictlyIncreasing,
        Bool.and_eq_true, decide_eq_true_eq, List.getLast?_cons_cons, reduceCtorEq, false_imp_iff, and_true]
      constructor
      · rintro ⟨h1, h2, h3, h4⟩; exact ⟨h1, ⟨by omega, h3⟩, h4⟩
      · rintro ⟨h1, ⟨h2, h3⟩, h4⟩; exact ⟨h1, by omega, h3, h4⟩

/-- the three checks `matchBody` makes, on the groups -/
def checksG (gs : List GG) (leading trailing : Bool) : Bool :=
  strictlyIncreasing (gs.map (·.unit)) &&
  (match gs.head? with | some g => !(leading && decide (g.unit = 0)) | none => true) &&
  (match gs.getLast? with | some g => !(trailing && decide (g.unit = 6)) | none => true)

def leadingOf (cs : List Char) : Bool := match cs with | c :: _ => isSpace c | [] => false

theorem leading_eq (g : GG) (hg : g.WF) (rest : List Char) :
    leadingOf (g.str ++ rest) = !g.pre.isEmpty := by
  unfold leadingOf
  obtain ⟨c0, r0, hn, hc0⟩ := numStr_head g hg
  cases hpre : g.pre with
  | cons x xs =>
    have := hg.1; rw [hpre] at this; simp only [List.all_cons, Bool.and_eq_true] at this
    simp [GG.str, hpre, this.1]
  | nil =>
    simp only [GG.str, hpre, GG.core, hn, List.nil_append, List.cons_append, List.isEmpty_nil, Bool.not_true]
    rcases hc0 with h | h
    · exact digit_not_space c0 h
    · rw [h]; exact dot_not_space

theorem checksG_iff (gs : List GG) (post : List Char) (hwf : ∀ g ∈ gs, g.WF) (hp : post.all isSpace = true)
    (leading : Bool) (hl : ∀ g, gs.head? = some g → leading = !g.pre.isEmpty) :
    checksG gs leading (!post.isEmpty) = true ↔ CanonTop gs post := by
  unfold CanonTop
  rw [canonTail_iff gs post hwf hp 0 (by omega)]
  unfold checksG
  cases gs with
  | nil => simp [strictlyIncreasing]
  | cons g gs =>
    have hl' := hl g rfl
    simp only [List.head?_cons, Option.some.injEq, forall_eq', Nat.zero_le, true_and, Bool.and_eq_true,
      reduceCtorEq, false_imp_iff, and_true]
    cases hlast : (g :: gs).getLast? with
    | none => simp at hlast
    | some l =>
      simp only [Bool.not_eq_true', Bool.and_eq_false_iff, decide_eq_false_iff_not, Option.some.injEq, forall_eq']
      have hlu : l.unit < 7 := (hwf l (List.mem_of_getLast? hlast)).2.2.2.2.2
      rw [hl']
      constructor
      · rintro ⟨⟨h1, h2⟩, h3⟩
        refine ⟨⟨h1, ?_⟩, ?_⟩
        · rcases h3 with h3 | h3
          · left; simpa using h3
          · right; omega
        · intro hu
          rcases h2 with h2 | h2
          · simpa using h2
          · exact absurd hu h2
      · rintro ⟨⟨h1, h2⟩, h3⟩
        refine ⟨⟨h1, ?_⟩, ?_⟩
        · by_cases hu : g.unit = 0
          · left; simp [h3 hu]
          · right; exact hu
        · rcases h2 with h2 | h2
          · left; simp [h2]
          · right; omega

theorem length_le_strsG (gs : List GG) (hwf : ∀ g ∈ gs, g.WF) : gs.length ≤ (strsG gs).length := by
  induction gs with
  | nil => simp
  | cons g gs ih =>
    have hg := hwf g (by simp)
    have : 1 ≤ g.d2.length := by
      cases h : g.d2 with
      | nil => exact absurd h hg.2.2.2.1
      | cons a b => simp
    have := ih (fun x hx => hwf x (by simp [hx]))
    simp only [strsG, List.flatMap_cons, GG.str, GG.core, GG.numStr, List.length_append, List.length_cons] at *
    omega

theorem canonTail_wf (i : Nat) (gs : List GG) (post : List Char) (h : CanonTail i gs post) :
    (∀ g ∈ gs, g.WF) ∧ post.all isSpace = true := by
  induction gs generalizing i with
  | nil => exact ⟨by simp, h.1⟩
  | cons g gs ih =>
    obtain ⟨h1, _, h3⟩ := h
    have := ih _ h3
    exact ⟨by intro x hx; rcases List.mem_cons.mp hx with hx | hx; · subst hx; exact h1
              · exact this.1 x hx, this.2⟩

theorem ite_some_eq {α} {c : Prop} [Decidable c] {a b : α} (h : (if c then some a else none) = some b) :
    c ∧ a = b := by
  by_cases hc : c
  · rw [if_pos hc] at h; exact ⟨hc, by injection h⟩
  · rw [if_neg hc] at h; cases h

/-- the three checks `matchBody` makes after tokenising -/
def checksT (toks : List Tok) (leading trailing : Bool) : Bool :=
  strictlyIncreasing (toks.map (·.unit)) &&
  (match toks.head? with | some t => !(leading && decide (t.unit = 0)) | none => true) &&
  (match toks.getLast? with | some t => !(trailing && decide (t.unit = 6)) | none => true)

theorem matchBody_unfold (cs : List Char) :
    matchBody cs = match lexToks (cs.length + 1) cs with
      | none => none
      | some (toks, tr) => if checksT toks (leadingOf cs) tr then some toks else none := by
  unfold matchBody
  cases lexToks (cs.length + 1) cs with
  | none => rfl
  | some p => rfl

theorem checksT_map (gs : List GG) (lead trail : Bool) :
    checksT (gs.map GG.tok) lead trail = checksG gs lead trail := by
  unfold checksT checksG
  have e : ((fun x : Tok => x.unit) ∘ GG.tok) = fun g : GG => g.unit := by funext g; rfl
  rw [List.map_map, List.head?_map, List.getLast?_map, e]
  cases gs.head? <;> cases gs.getLast? <;> rfl

theorem matchBody_eq (gs : List GG) (post : List Char) (hwf : ∀ g ∈ gs, g.WF) (hp : post.all isSpace = true) :
    matchBody (strsG gs ++ post) =
      if checksG gs (leadingOf (strsG gs ++ post)) (!post.isEmpty) then some (gs.map GG.tok) else none := by
  rw [matchBody_unfold,
    lexToks_complete gs post hwf hp _ (by have := length_le_strsG gs hwf; simp only [List.length_append]; omega)]
  simp only [checksT_map]



/-! ## deepening round D: order of the samples, trailing newline, textbook regular expressions -/

theorem samplesFrom_sorted (dt : Int) (hdt : 0 < dt) (l : List Int) (t0 : Int) :
    (samplesFrom t0 dt l).Pairwise (fun x y => x.1 ≤ y.1) := by
  induction l generalizing t0 with
  | nil => exact List.Pairwise.nil
  | cons v vs ih =>
    simp only [samplesFrom, List.pairwise_cons]
    refine ⟨?_, ih (t0 + dt)⟩
    intro y hy
    have := (mem_samplesFrom dt hdt vs (t0 + dt) y hy).1
    show t0 ≤ y.1
    omega


theorem unit_last_not_nl (i : Nat) (h : i < 7) : (unitChars i).getLast? ≠ some '\n' ∧ unitChars i ≠ [] := by
  match i, h with
  | 0, _ | 1, _ | 2, _ | 3, _ | 4, _ | 5, _ | 6, _ => decide

theorem getLast?_append_ne_nil (a b : List Char) (hb : b ≠ []) : (a ++ b).getLast? = b.getLast? := by
  cases b with
  | nil => exact absurd rfl hb
  | cons x xs =>
    rw [List.getLast?_append]
    cases h : (x :: xs).getLast? with
    | none => simp at h
    | some y => rfl

theorem strsG_last_not_nl (gs : List GG) (hwf : ∀ g ∈ gs, g.WF) (hne : gs ≠ []) :
    (strsG gs).getLast? ≠ some '\n' ∧ strsG gs ≠ [] := by
  induction gs with
  | nil => exact absurd rfl hne
  | cons g gs ih =>
    have hg := hwf g (by simp)
    have hu := unit_last_not_nl g.unit hg.2.2.2.2.2
    by_cases hgs : gs = []
    · subst hgs
      have e : strsG [g] = (g.pre ++ (g.numStr ++ g.mid)) ++ unitChars g.unit := by
        simp [strsG, GG.str, GG.core, List.append_assoc]
      rw [e]
      refine ⟨by rw [getLast?_append_ne_nil _ _ hu.2]; exact hu.1, ?_⟩
      intro h; exact hu.2 (List.append_eq_nil_iff.mp h).2
    · have := ih (fun x hx => hwf x (by simp [hx])) hgs
      have e : strsG (g :: gs) = g.str ++ strsG gs := by simp [strsG]
      rw [e]
      refine ⟨by rw [getLast?_append_ne_nil _ _ this.2]; exact this.1, ?_⟩
      intro h; exact this.2 (List.append_eq_nil_iff.mp h).2

theorem canonTail_dropLast (i : Nat) (gs : List GG) (p : List Char) (c : Char) (h : CanonTail i gs (p ++ [c])) :
    CanonTail i gs p := by
  induction gs generalizing i with
  | nil =>
    obtain ⟨h1, h2, h3⟩ := h
    refine ⟨?_, Or.inr ?_, h3⟩
    · rw [List.all_append] at h1; simp only [Bool.and_eq_true] at h1; exact h1.1
    · rcases h2 with h2 | h2
      · simp at h2
      · exact h2
  | cons g gs ih =>
    obtain ⟨h1, h2, h3⟩ := h
    exact ⟨h1, h2, ih _ h3⟩

/-- If a text ending in a newline matches, the text without that newline matches too, with the same captures
    (the newline can only have been matched by one of the `\s*`). -/
theorem body_drop_newline (b : List Char) (toks : List Tok) (h : BodyMatch (b ++ ['\n']) toks) :
    BodyMatch b toks := by
  obtain ⟨gs, post, hcs, hc, htk⟩ := canon_of_body _ _ h
  obtain ⟨hwf, hp⟩ := canonTail_wf 0 gs post hc.1
  have hpost : post ≠ [] := by
    intro he
    subst he
    rw [List.append_nil] at hcs
    by_cases hgs : gs = []
    · subst hgs; simp [strsG] at hcs
    · have := (strsG_last_not_nl gs hwf hgs).1
      rw [← hcs] at this
      simp at this
  obtain ⟨p, c, hpc⟩ : ∃ p c, post = p ++ [c] := by
    rcases List.eq_nil_or_concat post with h | ⟨p, c, h⟩
    · exact absurd h hpost
    · exact ⟨p, c, by simpa using h⟩
  subst hpc
  rw [← List.append_assoc] at hcs
  have hb : b = strsG gs ++ p := (List.append_inj' hcs rfl).1
  subst hb; subst htk
  exact body_of_canon gs p ⟨canonTail_dropLast 0 gs p c hc.1, hc.2⟩


/-- Regular expressions over characters: the fragment `Timeindex`'s pattern uses. -/
inductive Rx where
  | cls (p : Char → Bool)
  | eps
  | seq (a b : Rx)
  | star (a : Rx)
  | opt (a : Rx)

/-- The textbook matching relation. -/
inductive Rx.Matches : Rx → List Char → Prop
  | cls (p : Char → Bool) (c : Char) : p c = true → Matches (.cls p) [c]
  | eps : Matches .eps []
  | seq (a b : Rx) (x y : List Char) : Matches a x → Matches b y → Matches (.seq a b) (x ++ y)
  | star_nil (a : Rx) : Matches (.star a) []
  | star_cons (a : Rx) (x y : List Char) : Matches a x → Matches (.star a) y → Matches (.star a) (x ++ y)
  | opt_none (a : Rx) : Matches (.opt a) []
  | opt_some (a : Rx) (x : List Char) : Matches a x → Matches (.opt a) x

/-- a literal string -/
def Rx.lit : List Char → Rx
  | [] => .eps
  | c :: cs => .seq (.cls (· == c)) (Rx.lit cs)
/-- `a+` -/
def Rx.plus (a : Rx) : Rx := .seq a (.star a)

/-- `\d` and `\s` restricted to ASCII -/
def rxDigit : Rx := .cls isDigit
def rxSpace : Rx := .cls isSpace
/-- `\s*` -/
def rxWs : Rx := .star rxSpace
/-- `\d*\.?\d+` -/
def rxNumber : Rx := .seq (.star rxDigit) (.seq (.opt (.cls (· == '.'))) (Rx.plus rxDigit))
/-- `((?P<u>\d*\.?\d+)\s*u)?` -/
def rxGroup (i : Nat) : Rx := .opt (.seq rxNumber (.seq rxWs (Rx.lit (unitChars i))))
/-- `r"\s*".join(...)` -/
def rxJoin : List Rx → Rx
  | [] => .eps
  | [r] => r
  | r :: r' :: rs => .seq r (.seq rxWs (rxJoin (r' :: rs)))
/-- the pattern between `^(?P<sign>-?)` and `$` -/
def rxBody : Rx := rxJoin [rxGroup 0, rxGroup 1, rxGroup 2, rxGroup 3, rxGroup 4, rxGroup 5, rxGroup 6]
/-- `(?P<sign>-?)` followed by the body -/
def rxFull : Rx := .seq (.opt (.cls (· == '-'))) rxBody

theorem seq_iff (a b : Rx) (z : List Char) :
    (Rx.seq a b).Matches z ↔ ∃ x y, z = x ++ y ∧ a.Matches x ∧ b.Matches y := by
  constructor
  · intro h; cases h with | seq _ _ x y h1 h2 => exact ⟨x, y, rfl, h1, h2⟩
  · rintro ⟨x, y, rfl, h1, h2⟩; exact .seq a b x y h1 h2

theorem opt_iff (a : Rx) (z : List Char) : (Rx.opt a).Matches z ↔ z = [] ∨ a.Matches z := by
  constructor
  · intro h; cases h with
    | opt_none => exact Or.inl rfl
    | opt_some _ _ h => exact Or.inr h
  · rintro (rfl | h)
    · exact .opt_none a
    · exact .opt_some a z h

theorem cls_iff (p : Char → Bool) (z : List Char) : (Rx.cls p).Matches z ↔ ∃ c, z = [c] ∧ p c = true := by
  constructor
  · intro h; cases h with | cls _ c h => exact ⟨c, rfl, h⟩
  · rintro ⟨c, rfl, h⟩; exact .cls p c h

theorem eps_iff (z : List Char) : Rx.eps.Matches z ↔ z = [] := by
  constructor
  · intro h; cases h; rfl
  · rintro rfl; exact .eps

theorem star_cls_all (p : Char → Bool) (r : Rx) (z : List Char) (h : r.Matches z) (hr : r = .star (.cls p)) :
    z.all p = true := by
  induction h with
  | star_nil => rfl
  | star_cons a x y h1 _ _ ih2 =>
    injection hr with hr; subst hr
    obtain ⟨c, rfl, hc⟩ := (cls_iff p x).mp h1
    simp [hc, ih2 rfl]
  | _ => cases hr

theorem star_cls_iff (p : Char → Bool) (z : List Char) : (Rx.star (.cls p)).Matches z ↔ z.all p = true := by
  constructor
  · intro h; exact star_cls_all p _ z h rfl
  · intro h
    induction z with
    | nil => exact .star_nil _
    | cons c cs ih =>
      simp only [List.all_cons, Bool.and_eq_true] at h
      exact .star_cons _ [c] cs (.cls p c h.1) (ih h.2)

theorem plus_cls_iff (p : Char → Bool) (z : List Char) :
    (Rx.plus (.cls p)).Matches z ↔ z.all p = true ∧ z ≠ [] := by
  unfold Rx.plus
  rw [seq_iff]
  constructor
  · rintro ⟨x, y, rfl, h1, h2⟩
    obtain ⟨c, rfl, hc⟩ := (cls_iff p x).mp h1
    exact ⟨by simp [hc, (star_cls_iff p y).mp h2], by simp⟩
  · rintro ⟨h, hne⟩
    cases z with
    | nil => exact absurd rfl hne
    | cons c cs =>
      simp only [List.all_cons, Bool.and_eq_true] at h
      exact ⟨[c], cs, rfl, .cls p c h.1, (star_cls_iff p cs).mpr h.2⟩

theorem lit_iff (s z : List Char) : (Rx.lit s).Matches z ↔ z = s := by
  induction s generalizing z with
  | nil => exact eps_iff z
  | cons c cs ih =>
    simp only [Rx.lit]
    rw [seq_iff]
    constructor
    · rintro ⟨x, y, rfl, h1, h2⟩
      obtain ⟨c', rfl, hc⟩ := (cls_iff _ x).mp h1
      have : c' = c := by simpa using hc
      rw [this, (ih y).mp h2]; rfl
    · rintro rfl
      exact ⟨[c], cs, rfl, .cls _ c (by simp), (ih cs).mpr rfl⟩

theorem number_iff (z : List Char) :
    rxNumber.Matches z ↔ ∃ d1 dot d2, z = d1 ++ dotStr dot ++ d2 ∧ d1.all isDigit = true ∧
      d2.all isDigit = true ∧ d2 ≠ [] := by
  unfold rxNumber rxDigit
  simp only [seq_iff, opt_iff, star_cls_iff, plus_cls_iff, cls_iff]
  constructor
  · rintro ⟨d1, y, rfl, h1, o, d2, rfl, ho, h2, hne⟩
    rcases ho with rfl | ⟨c, rfl, hc⟩
    · exact ⟨d1, false, d2, by simp [dotStr], h1, h2, hne⟩
    · have : c = '.' := by simpa using hc
      subst this
      exact ⟨d1, true, d2, by simp [dotStr], h1, h2, hne⟩
  · rintro ⟨d1, dot, d2, rfl, h1, h2, hne⟩
    cases dot with
    | false => exact ⟨d1, d2, by simp [dotStr], h1, [], d2, rfl, Or.inl rfl, h2, hne⟩
    | true => exact ⟨d1, '.' :: d2, by simp [dotStr], h1, ['.'], d2, rfl, Or.inr ⟨'.', rfl, by simp⟩, h2, hne⟩

theorem group_iff (i : Nat) (z : List Char) : (rxGroup i).Matches z ↔ z = [] ∨ ∃ tok, GroupMatch i z tok := by
  unfold rxGroup rxWs rxSpace
  rw [opt_iff]
  apply or_congr Iff.rfl
  simp only [seq_iff, number_iff, star_cls_iff, lit_iff]
  constructor
  · rintro ⟨x, y, rfl, ⟨d1, dot, d2, rfl, h1, h2, hne⟩, mid, u, rfl, hm, rfl⟩
    have := GroupMatch.mk (i := i) d1 d2 mid dot h1 h2 hne hm
    exact ⟨_, by simpa [List.append_assoc] using this⟩
  · rintro ⟨tok, h⟩
    cases h with
    | mk d1 d2 mid dot h1 h2 hne hm =>
      exact ⟨d1 ++ dotStr dot ++ d2, mid ++ unitChars i, by simp [List.append_assoc],
        ⟨d1, dot, d2, rfl, h1, h2, hne⟩, mid, unitChars i, rfl, hm, rfl⟩


theorem ws_iff (z : List Char) : rxWs.Matches z ↔ z.all isSpace = true := star_cls_iff isSpace z

theorem tail7 (cs : List Char) (toks : List Tok) (h : TailMatch 7 cs toks) : cs = [] ∧ toks = [] := by
  cases h with
  | done => exact ⟨rfl, rfl⟩
  | absent _ _ _ _ hi => omega
  | present _ _ _ _ _ _ hi => omega

theorem tail_base (cs : List Char) :
    (Rx.seq rxWs (rxJoin [rxGroup 6])).Matches cs ↔ ∃ toks, TailMatch 6 cs toks := by
  simp only [rxJoin, seq_iff, ws_iff, group_iff]
  constructor
  · rintro ⟨ws, g, rfl, hws, hg⟩
    rcases hg with rfl | ⟨tok, hg⟩
    · exact ⟨[], TailMatch.absent 6 ws [] [] (by omega) hws TailMatch.done⟩
    · have := TailMatch.present 6 ws g [] tok [] (by omega) hws hg TailMatch.done
      exact ⟨[tok], by simpa using this⟩
  · rintro ⟨toks, h⟩
    cases h with
    | absent _ ws rest toks hi hws ht =>
      obtain ⟨rfl, rfl⟩ := tail7 _ _ ht
      exact ⟨ws, [], rfl, hws, Or.inl rfl⟩
    | present _ ws g rest tok toks hi hws hg ht =>
      obtain ⟨rfl, rfl⟩ := tail7 _ _ ht
      exact ⟨ws, g, by simp, hws, Or.inr ⟨tok, hg⟩⟩

theorem tail_step (i : Nat) (hi : i < 7) (r' : Rx) (rs : List Rx)
    (ih : ∀ cs, (Rx.seq rxWs (rxJoin (r' :: rs))).Matches cs ↔ ∃ toks, TailMatch (i + 1) cs toks) (cs : List Char) :
    (Rx.seq rxWs (rxJoin (rxGroup i :: r' :: rs))).Matches cs ↔ ∃ toks, TailMatch i cs toks := by
  simp only [rxJoin]
  rw [seq_iff]
  constructor
  · rintro ⟨ws, y, rfl, hws, hy⟩
    obtain ⟨g, rest, rfl, hg, hrest⟩ := (seq_iff _ _ _).mp hy
    obtain ⟨toks, ht⟩ := (ih rest).mp hrest
    rcases (group_iff i g).mp hg with rfl | ⟨tok, hg⟩
    · have := TailMatch.absent i ws rest toks hi ((ws_iff ws).mp hws) ht
      exact ⟨toks, by simpa using this⟩
    · have := TailMatch.present i ws g rest tok toks hi ((ws_iff ws).mp hws) hg ht
      exact ⟨tok :: toks, by simpa [List.append_assoc] using this⟩
  · rintro ⟨toks, h⟩
    cases h with
    | done => omega
    | absent _ ws rest toks hi hws ht =>
      exact ⟨ws, rest, rfl, (ws_iff ws).mpr hws, (seq_iff _ _ _).mpr
        ⟨[], rest, rfl, (group_iff i []).mpr (Or.inl rfl), (ih rest).mpr ⟨toks, ht⟩⟩⟩
    | present _ ws g rest tok toks hi hws hg ht =>
      exact ⟨ws, g ++ rest, by simp [List.append_assoc], (ws_iff ws).mpr hws, (seq_iff _ _ _).mpr
        ⟨g, rest, rfl, (group_iff i g).mpr (Or.inr ⟨tok, hg⟩), (ih rest).mpr ⟨_, ht⟩⟩⟩



/-! ## deepening round D: small helpers of the property theorems -/

theorem pairwise_head_le (l : List Sample) (h : l.Pairwise (fun x y => x.1 ≤ y.1)) (x y : Sample)
    (hy : l.head? = some y) (hx : x ∈ l) : y.1 ≤ x.1 := by
  cases l with
  | nil => simp at hy
  | cons z zs =>
    simp only [List.head?_cons, Option.some.injEq] at hy
    subst hy
    rcases List.mem_cons.mp hx with hx | hx
    · subst hx; exact Int.le_refl _
    · exact (List.pairwise_cons.mp h).1 x hx

theorem pairwise_le_last (l : List Sample) (h : l.Pairwise (fun x y => x.1 ≤ y.1)) (x y : Sample)
    (hy : l.getLast? = some y) (hx : x ∈ l) : x.1 ≤ y.1 := by
  induction l with
  | nil => simp at hx
  | cons z zs ih =>
    cases zs with
    | nil =>
      simp at hy hx; subst hy; subst hx; exact Int.le_refl _
    | cons w ws =>
      have hp := List.pairwise_cons.mp h
      have hy' : (w :: ws).getLast? = some y := by simpa [List.getLast?_cons_cons] using hy
      rcases List.mem_cons.mp hx with hx | hx
      · subst hx
        exact hp.1 y (List.mem_of_getLast? hy')
      · exact ih hp.2 hy' hx

theorem pairwise_map_fst (ts : List Int) (h : ts.Pairwise (· ≤ ·)) :
    (ts.map fun x => ((x, x) : Sample)).Pairwise (fun x y => x.1 ≤ y.1) := by
  rw [List.pairwise_map]; exact h

/-- An independent reading of "keeps exactly the masked samples": the samples at the positions `i` whose flag
    `m[i]` is set, in increasing order of `i`. -/
def maskSpec (l : List Sample) (m : List Bool) : List Sample :=
  ((List.range l.length).filter (fun i => m.getD i false)).filterMap (fun i => l[i]?)

theorem zipMask_eq (l : List Sample) (m : List Bool) (h : l.length = m.length) :
    ((l.zip m).filterMap fun (s, k) => if k then some s else none) = maskSpec l m := by
  induction l generalizing m with
  | nil => simp [maskSpec]
  | cons x xs ih =>
    cases m with
    | nil => simp at h
    | cons k ks =>
      have h' : xs.length = ks.length := by simpa using h
      have ih' := ih ks h'
      unfold maskSpec at ih' ⊢
      simp only [List.zip_cons_cons, List.filterMap_cons, List.length_cons, List.range_succ_eq_map,
        List.filter_cons, List.filter_map, List.filterMap_map]
      have e1 : ((fun i => (k :: ks).getD i false) ∘ Nat.succ) = fun i => ks.getD i false := by
        funext i; simp
      have e2 : ((fun i => (x :: xs)[i]?) ∘ Nat.succ) = fun i => xs[i]? := by
        funext i; simp
      cases k
      · simp [e1, e2, ih', Function.comp_def]
      · simp [e1, e2, ih', Function.comp_def]

theorem body_not_minus (body : List Char) (toks : List Tok) (h : BodyMatch body toks) (r : List Char) :
    body ≠ '-' :: r := by
  intro he
  obtain ⟨gs, post, hcs, hc, _⟩ := canon_of_body body toks h
  obtain ⟨hwf, hp⟩ := canonTail_wf 0 gs post hc.1
  have := strsG_head gs post hwf hp '-' r (by rw [← hcs, he])
  revert this; decide

/-- positional value of a digit string, most significant digit first -/
def decValue : List Char → Nat
  | [] => 0
  | c :: cs => digitVal c * 10 ^ cs.length + decValue cs

theorem foldl_digits (ds : List Char) (acc : Nat) :
    ds.foldl (fun acc c => acc * 10 + digitVal c) acc = acc * 10 ^ ds.length + decValue ds := by
  induction ds generalizing acc with
  | nil => simp [decValue]
  | cons c cs ih =>
    simp only [List.foldl_cons, ih, decValue, List.length_cons, Nat.pow_succ]
    rw [Nat.add_mul, Nat.mul_assoc, Nat.mul_comm 10 (10 ^ cs.length), Nat.add_assoc]

/-- First and last timestamp of a non-empty continuous channel: `start` and `stop - dt`. -/
theorem samplesFrom_ends (dt : Int) (v : Int) (vs : List Int) (t0 : Int) :
    (samplesFrom t0 dt (v :: vs)).head?.map (·.1) = some t0 ∧
    (samplesFrom t0 dt (v :: vs)).getLast?.map (·.1) = some (t0 + vs.length * dt) := by
  refine ⟨rfl, ?_⟩
  induction vs generalizing t0 v with
  | nil => simp [samplesFrom]
  | cons w ws ih =>
    have := ih w (t0 + dt)
    simp only [samplesFrom] at this ⊢
    rw [List.getLast?_cons_cons, this]
    simp only [List.length_cons, Option.some.injEq]
    rw [Int.natCast_add, Int.add_mul]; omega

theorem ediv_bounds (x dt : Int) (hdt : 0 < dt) : (0 ≤ x → 0 ≤ x / dt ∧ x / dt ≤ x) ∧ (x < 0 → x ≤ x / dt ∧ x / dt < 0) := by
  constructor
  · intro hx
    exact ⟨Int.ediv_nonneg hx (Int.le_of_lt hdt), Int.ediv_le_self _ hx⟩
  · intro hx
    constructor
    · rw [Int.le_ediv_iff_mul_le hdt]
      have := Int.mul_le_mul_of_nonpos_left (a := x) (b := dt) (c := 1) (by omega) (by omega)
      omega
    · exact Int.ediv_neg_of_neg_of_pos hx hdt


theorem pySlice_length_le {α} (l : List α) (i j : Int) : (pySlice l i j).length ≤ l.length := by
  unfold pySlice
  simp only [List.length_drop, List.length_take]
  omega


end Verif.C01
