/-
  C14 — helper lemmas for the property theorems in `Verif.Props.C14`.
-/
import Verif.Model.C14
import Mathlib.Algebra.Order.Field.Rat
import Mathlib.Tactic.Linarith
import Mathlib.Tactic.Ring

namespace Verif.C14

/-! ### `unique` -/

theorem uniqueAux_append (acc l1 l2 : List String) :
    uniqueAux acc (l1 ++ l2) = uniqueAux (uniqueAux acc l1) l2 := by
  induction l1 generalizing acc with
  | nil => rfl
  | cons x xs ih =>
    simp only [List.cons_append, uniqueAux]
    split <;> exact ih _

/-- the accumulator is only ever extended: by a sublist of the input made of names that are new -/
theorem uniqueAux_eq (acc l : List String) :
    ∃ r, uniqueAux acc l = acc ++ r ∧ r.Sublist l ∧ ∀ x ∈ r, x ∉ acc := by
  induction l generalizing acc with
  | nil => exact ⟨[], by simp [uniqueAux]⟩
  | cons x xs ih =>
    simp only [uniqueAux]
    split
    · obtain ⟨r, h1, h2, h3⟩ := ih acc
      exact ⟨r, h1, h2.cons _, h3⟩
    · rename_i hx
      obtain ⟨r, h1, h2, h3⟩ := ih (acc ++ [x])
      refine ⟨x :: r, by rw [h1]; simp, h2.cons_cons _, ?_⟩
      intro y hy
      rcases List.mem_cons.mp hy with rfl | hy
      · exact hx
      · intro hacc; exact h3 y hy (by simp [hacc])

theorem uniqueAux_prefix (acc l : List String) : acc <+: uniqueAux acc l := by
  obtain ⟨r, h, _⟩ := uniqueAux_eq acc l
  exact ⟨r, h.symm⟩

theorem mem_uniqueAux (acc l : List String) (x : String) :
    x ∈ uniqueAux acc l ↔ x ∈ acc ∨ x ∈ l := by
  induction l generalizing acc with
  | nil => simp [uniqueAux]
  | cons y ys ih =>
    simp only [uniqueAux]
    split
    · rename_i hy
      rw [ih]; constructor
      · rintro (h | h); exact .inl h; exact .inr (List.mem_cons_of_mem _ h)
      · rintro (h | h); exact .inl h
        rcases List.mem_cons.mp h with rfl | h
        · exact .inl hy
        · exact .inr h
    · rw [ih]; simp [or_assoc]

theorem nodup_uniqueAux (acc l : List String) (h : acc.Nodup) : (uniqueAux acc l).Nodup := by
  induction l generalizing acc with
  | nil => simpa [uniqueAux]
  | cons y ys ih =>
    simp only [uniqueAux]
    split
    · exact ih acc h
    · rename_i hy
      apply ih
      rw [List.nodup_append]
      refine ⟨h, by simp, ?_⟩
      intro a ha b hb
      simp only [List.mem_singleton] at hb
      subst hb
      intro e; subst e; exact hy ha

theorem unique_nodup (l : List String) : (unique l).Nodup := nodup_uniqueAux [] l List.nodup_nil

theorem mem_unique (l : List String) (x : String) : x ∈ unique l ↔ x ∈ l := by
  simp [unique, mem_uniqueAux]

theorem unique_sublist (l : List String) : (unique l).Sublist l := by
  obtain ⟨r, h1, h2, _⟩ := uniqueAux_eq [] l
  unfold unique; rw [h1]; simpa using h2

theorem unique_append_prefix (l1 l2 : List String) : unique l1 <+: unique (l1 ++ l2) := by
  unfold unique; rw [uniqueAux_append]; exact uniqueAux_prefix _ _


/-! ### index table -/

theorem idxOf_inj_of_mem (l : List String) (a b : String) (ha : a ∈ l) (h : l.idxOf a = l.idxOf b) : a = b := by
  have h1 : l.idxOf a < l.length := List.idxOf_lt_length_of_mem ha
  have h2 : l.idxOf b < l.length := h ▸ h1
  have e1 := List.getElem_idxOf h1
  have e2 := List.getElem_idxOf h2
  rw [← e1, ← e2]
  simp only [h]

theorem lookupIdx_of_mem (uniq : List String) (s : String) (h : s ∈ uniq) :
    lookupIdx uniq s = some (uniq.idxOf s) := by
  simp [lookupIdx, h]

/-! ### conditions -/

/-- The independent reading of "what a dataset sees": every model parameter of the dataset, in model order, is the
    entry of the global vector that belongs to its global NAME, or its constant. -/
def localDirect (tr : List (String × Target)) (uniq : List String) (g : List Rat) : List Rat :=
  tr.map fun e => match e.2 with
    | .name s => g.getD (uniq.idxOf s) 0
    | .const v _ => v

/-- every name a dataset refers to is in the global table -/
def NamesIn (tr : List (String × Target)) (uniq : List String) : Prop :=
  ∀ e ∈ tr, ∀ s, e.2 = .name s → s ∈ uniq

theorem getLocalParams_mkCondition (tr : List (String × Target)) (uniq : List String) (g : List Rat)
    (h : NamesIn tr uniq) : getLocalParams (mkCondition tr uniq) g = localDirect tr uniq g := by
  unfold getLocalParams mkCondition localDirect
  simp only [List.zipWith_map_left, List.zipWith_map_right, List.zipWith_self, List.map_map]
  apply List.map_congr_left
  intro e he
  cases ht : e.2 with
  | name s => simp [Function.comp, ht, lookupIdx_of_mem uniq s (h e he s ht)]
  | const v r => simp [Function.comp, ht]

/-- condition strings identify the targets (no two different target lists of one model print the same) -/
def CondInj (m : ModelData) : Prop :=
  ∀ d1 ∈ m.data, ∀ d2 ∈ m.data, condString d1 = condString d2 → d1.trans.map (·.2) = d2.trans.map (·.2)

theorem mkCondition_congr (t1 t2 : List (String × Target)) (uniq : List String)
    (h : t1.map (·.2) = t2.map (·.2)) : mkCondition t1 uniq = mkCondition t2 uniq := by
  unfold mkCondition; rw [h]

theorem mem_groups (m : ModelData) (g : List Data) (r d : Data) (hg : g ∈ groups m) (hr : r ∈ g) (hd : d ∈ g) :
    r ∈ m.data ∧ d ∈ m.data ∧ condString r = condString d := by
  unfold groups at hg
  simp only [List.mem_map, List.mem_range] at hg
  obtain ⟨ci, hci, rfl⟩ := hg
  simp only [List.mem_filter, beq_iff_eq] at hr hd
  refine ⟨hr.1, hd.1, ?_⟩
  apply idxOf_inj_of_mem (unique (m.data.map condString))
  · rw [mem_unique]; exact List.mem_map_of_mem hr.1
  · rw [hr.2, hd.2]

theorem group_of_mem (m : ModelData) (d : Data) (hd : d ∈ m.data) :
    ∃ g ∈ groups m, d ∈ g := by
  refine ⟨m.data.filter fun d' => (unique (m.data.map condString)).idxOf (condString d') ==
    (unique (m.data.map condString)).idxOf (condString d), ?_, ?_⟩
  · unfold groups
    simp only [List.mem_map, List.mem_range]
    refine ⟨_, ?_, rfl⟩
    apply List.idxOf_lt_length_of_mem
    rw [mem_unique]; exact List.mem_map_of_mem hd
  · simp [List.mem_filter, hd]

theorem mem_localsByIndex (m : ModelData) (uniq : List String) (g : List Rat) (hinj : CondInj m)
    (hin : ∀ d ∈ m.data, NamesIn d.trans uniq) (n : String) (v : List Rat) :
    (n, v) ∈ localsByIndex m uniq g ↔ ∃ d ∈ m.data, d.name = n ∧ v = localDirect d.trans uniq g := by
  unfold localsByIndex generateConditions
  simp only [List.mem_flatMap, List.mem_filterMap, List.mem_map, Prod.mk.injEq]
  constructor
  · rintro ⟨cd, ⟨grp, hgrp, hcd⟩, d, hd, rfl, rfl⟩
    cases grp with
    | nil => simp at hcd
    | cons r rest =>
      simp only [Option.some.injEq] at hcd
      subst hcd
      obtain ⟨hr, hdm, hs⟩ := mem_groups m _ r d hgrp (List.mem_cons_self) hd
      refine ⟨d, hdm, rfl, ?_⟩
      show getLocalParams (mkCondition r.trans uniq) g = _
      rw [mkCondition_congr _ _ uniq (hinj r hr d hdm hs), getLocalParams_mkCondition _ _ _ (hin d hdm)]
  · rintro ⟨d, hd, rfl, rfl⟩
    obtain ⟨grp, hgrp, hdg⟩ := group_of_mem m d hd
    cases hgr : grp with
    | nil => rw [hgr] at hdg; simp at hdg
    | cons r rest =>
      subst hgr
      obtain ⟨hr, hdm, hs⟩ := mem_groups m _ r d hgrp (List.mem_cons_self) hdg
      refine ⟨(mkCondition r.trans uniq, r :: rest), ⟨r :: rest, hgrp, rfl⟩, d, hdg, rfl, ?_⟩
      show getLocalParams (mkCondition r.trans uniq) g = _
      rw [mkCondition_congr _ _ uniq (hinj r hr d hdm hs), getLocalParams_mkCondition _ _ _ (hin d hdm)]


/-! ### what a dataset sees, read directly -/

theorem localDirect_getElem_name (tr : List (String × Target)) (uniq : List String) (g : List Rat) (j : Nat)
    (k n : String) (h : tr[j]? = some (k, .name n)) :
    (localDirect tr uniq g)[j]? = some (g.getD (uniq.idxOf n) 0) := by
  simp [localDirect, List.getElem?_map, h]

theorem localDirect_getElem_const (tr : List (String × Target)) (uniq : List String) (g : List Rat) (j : Nat)
    (k r : String) (v : Rat) (h : tr[j]? = some (k, .const v r)) :
    (localDirect tr uniq g)[j]? = some v := by
  simp [localDirect, List.getElem?_map, h]

theorem getD_set_ne (g : List Rat) (i j : Nat) (x : Rat) (h : i ≠ j) : (g.set i x).getD j 0 = g.getD j 0 := by
  simp [List.getD_eq_getElem?_getD, h]

/-- changing the global entry of a name the dataset does not use leaves its local vector unchanged -/
theorem localDirect_set_other (tr : List (String × Target)) (uniq : List String) (g : List Rat) (n : String)
    (x : Rat) (hin : NamesIn tr uniq) (hn : ∀ e ∈ tr, e.2 ≠ .name n) :
    localDirect tr uniq (g.set (uniq.idxOf n) x) = localDirect tr uniq g := by
  unfold localDirect
  apply List.map_congr_left
  intro e he
  cases ht : e.2 with
  | const v r => rfl
  | name s =>
    simp only
    apply getD_set_ne
    intro hidx
    have : s = n := idxOf_inj_of_mem uniq s n (hin e he s ht) hidx.symm
    subst this
    exact hn e he ht

/-! ### global names -/

theorem mem_parameterNames (d : Data) (n : String) :
    n ∈ parameterNames d ↔ ∃ e ∈ d.trans, e.2 = .name n := by
  unfold parameterNames
  simp only [List.mem_filterMap]
  constructor
  · rintro ⟨e, he, h⟩
    refine ⟨e, he, ?_⟩
    cases ht : e.2 with
    | name s => simp [Target.name?, ht] at h; rw [h]
    | const v r => simp [Target.name?, ht] at h
  · rintro ⟨e, he, h⟩
    exact ⟨e, he, by simp [Target.name?, h]⟩

theorem mem_allNames (ms : List ModelData) (n : String) :
    n ∈ allNames ms ↔ ∃ m ∈ ms, ∃ d ∈ m.data, n ∈ parameterNames d := by
  simp [allNames, ModelData.transformedParams, List.mem_flatMap]

theorem mem_globalNames (ms : List ModelData) (n : String) :
    n ∈ globalNames ms ↔ ∃ m ∈ ms, ∃ d ∈ m.data, ∃ e ∈ d.trans, e.2 = .name n := by
  simp only [globalNames, mem_unique, mem_allNames, mem_parameterNames]

theorem namesIn_globalNames (ms : List ModelData) (m : ModelData) (hm : m ∈ ms) (d : Data) (hd : d ∈ m.data) :
    NamesIn d.trans (globalNames ms) := by
  intro e he s hs
  rw [mem_globalNames]
  exact ⟨m, hm, d, hd, e, he, hs⟩

/-! ### `_set_params`, `_build_fit` -/

theorem setParams_keys (old : List (String × Param)) (names : List String) (defs : List (Option Param))
    (h : names.length = defs.length) : (setParams old names defs).map (·.1) = names := by
  unfold setParams
  simp only [List.map_map]
  have : ((fun x : String × Param => x.1) ∘ fun nd : String × Option Param =>
      (nd.1, (old.lookup nd.1).getD (nd.2.getD Param.dflt))) = fun nd => nd.1 := rfl
  rw [this]
  exact List.map_fst_zip (by omega)

theorem lookup_setParams_zip (old : List (String × Param)) (names : List String) (defs : List (Option Param))
    (hnd : names.Nodup) (n : String) (d : Option Param) (h : (n, d) ∈ names.zip defs) :
    (setParams old names defs).lookup n = some ((old.lookup n).getD (d.getD Param.dflt)) := by
  induction names generalizing defs with
  | nil => simp at h
  | cons a as ih =>
    cases defs with
    | nil => simp at h
    | cons d0 ds =>
      simp only [setParams, List.zip_cons_cons, List.map_cons, List.lookup_cons]
      simp only [List.zip_cons_cons, List.mem_cons, Prod.mk.injEq] at h
      rcases h with ⟨rfl, rfl⟩ | h
      · simp
      · have hmem : n ∈ as := (List.of_mem_zip h).1
        have hne : n ≠ a := by
          intro e; subst e; exact (List.nodup_cons.mp hnd).1 hmem
        have : (n == a) = false := by simp [hne]
        rw [this]
        exact ih ds (List.nodup_cons.mp hnd).2 h

theorem lookup_setParams (old : List (String × Param)) (names : List String) (defs : List (Option Param))
    (hnd : names.Nodup) (h : names.length = defs.length) (n : String) (hn : n ∈ names) :
    ∃ d, (setParams old names defs).lookup n = some ((old.lookup n).getD d) := by
  obtain ⟨i, hi, rfl⟩ := List.getElem_of_mem hn
  have hz : (names[i], defs[i]'(h ▸ hi)) ∈ names.zip defs := by
    have : (names.zip defs)[i]'(by simp [List.length_zip]; omega) = (names[i], defs[i]'(h ▸ hi)) := by simp
    rw [← this]; exact List.getElem_mem _
  exact ⟨_, lookup_setParams_zip old names defs hnd _ _ hz⟩

theorem lookup_isSome_of_mem_keys (t : List (String × Param)) (n : String) (h : n ∈ t.map (·.1)) :
    (t.lookup n).isSome := by
  induction t with
  | nil => cases h
  | cons e es ih =>
    obtain ⟨k, p⟩ := e
    simp only [List.lookup_cons]
    by_cases e' : n = k
    · subst e'; simp
    · have : (n == k) = false := by simp [e']
      rw [this]
      apply ih
      simpa [e'] using h

/-- an existing key keeps its `Parameter` through `_set_params` -/
theorem lookup_setParams_old (old : List (String × Param)) (names : List String) (defs : List (Option Param))
    (hnd : names.Nodup) (h : names.length = defs.length) (n : String) (hn : n ∈ names) (ho : n ∈ old.map (·.1)) :
    (setParams old names defs).lookup n = old.lookup n := by
  obtain ⟨d, hd⟩ := lookup_setParams old names defs hnd h n hn
  rw [hd]
  have := lookup_isSome_of_mem_keys old n ho
  cases hl : old.lookup n with
  | none => simp [hl] at this
  | some p => rfl

theorem buildDefaults_length (r : Bool) (ms : List ModelData) :
    (globalNames ms).length = (buildDefaults r ms).length := by
  simp [buildDefaults]

theorem setParams_idem (old : List (String × Param)) (names : List String) (defs : List (Option Param))
    (hnd : names.Nodup) :
    setParams (setParams old names defs) names defs = setParams old names defs := by
  show List.map _ _ = List.map _ _
  apply List.map_congr_left
  intro nd hmem
  have := lookup_setParams_zip old names defs hnd nd.1 nd.2 hmem
  simp only [this, Option.getD_some]


/-! ### masked select / assign, write-back -/

/-- the table after the write-back of an optimiser answer `x` -/
def tableAfter (T : List (String × Param)) (x : List Rat) : List (String × Param) :=
  setValues T (writeBack (T.map (!·.2.fixed)) x (T.map (·.2.value)))

theorem setValues_self (T : List (String × Param)) : setValues T (T.map (·.2.value)) = T := by
  induction T with
  | nil => rfl
  | cons e es ih => simp only [setValues] at ih ⊢; simp [ih]

theorem tableAfter_cons_fixed (e : String × Param) (es : List (String × Param)) (x : List Rat)
    (h : e.2.fixed = true) : tableAfter (e :: es) x = e :: tableAfter es x := by
  obtain ⟨k, p⟩ := e
  obtain ⟨v, l, u, f⟩ := p
  simp only at h; subst h
  simp [tableAfter, setValues, writeBack]

theorem tableAfter_cons_free (e : String × Param) (es : List (String × Param)) (v : Rat) (x : List Rat)
    (h : e.2.fixed = false) :
    tableAfter (e :: es) (v :: x) = (e.1, { e.2 with value := v }) :: tableAfter es x := by
  simp [tableAfter, setValues, writeBack, h]

theorem tableAfter_cons_free_nil (e : String × Param) (es : List (String × Param))
    (h : e.2.fixed = false) : tableAfter (e :: es) [] = e :: es := by
  have := setValues_self (e :: es)
  simp only [tableAfter, List.map_cons, h, Bool.not_false, writeBack]
  exact this

/-- position by position: same name, same bounds, same flag; a fixed entry is untouched -/
theorem tableAfter_getElem (T : List (String × Param)) (x : List Rat) (i : Nat) (e : String × Param)
    (h : T[i]? = some e) :
    ∃ v, (tableAfter T x)[i]? = some (e.1, { e.2 with value := v }) ∧ (e.2.fixed = true → v = e.2.value) := by
  induction T generalizing x i with
  | nil => simp at h
  | cons a as ih =>
    by_cases hf : a.2.fixed = true
    · rw [tableAfter_cons_fixed a as x hf]
      cases i with
      | zero =>
        simp only [List.getElem?_cons_zero, Option.some.injEq] at h ⊢
        subst h; exact ⟨a.2.value, rfl, fun _ => rfl⟩
      | succ i => simpa using ih x i (by simpa using h)
    · have hf' : a.2.fixed = false := by simpa using hf
      cases x with
      | nil =>
        rw [tableAfter_cons_free_nil a as hf']
        exact ⟨e.2.value, by simpa using h, fun _ => rfl⟩
      | cons v vs =>
        rw [tableAfter_cons_free a as v vs hf']
        cases i with
        | zero =>
          simp only [List.getElem?_cons_zero, Option.some.injEq] at h ⊢
          subst h; exact ⟨v, rfl, fun h' => by simp [hf'] at h'⟩
        | succ i => simpa using ih vs i (by simpa using h)

theorem tableAfter_length (T : List (String × Param)) (x : List Rat) : (tableAfter T x).length = T.length := by
  induction T generalizing x with
  | nil => simp [tableAfter, setValues, writeBack]
  | cons a as ih =>
    by_cases hf : a.2.fixed = true
    · rw [tableAfter_cons_fixed a as x hf]; simp [ih]
    · have hf' : a.2.fixed = false := by simpa using hf
      cases x with
      | nil => rw [tableAfter_cons_free_nil a as hf']
      | cons v vs => rw [tableAfter_cons_free a as v vs hf']; simp [ih]

/-- `geLb`/`leUb` say what they should -/
theorem geLb_iff (lb : Option Rat) (v : Rat) : geLb lb v = true ↔ ∀ l, lb = some l → l ≤ v := by
  cases lb with
  | none => simp [geLb]
  | some l => simp [geLb, Rat.not_lt]

theorem leUb_iff (ub : Option Rat) (v : Rat) : leUb ub v = true ↔ ∀ u, ub = some u → v ≤ u := by
  cases ub with
  | none => simp [leUb]
  | some u => simp [leUb, Rat.not_lt]

def Param.inBounds (p : Param) : Bool := geLb p.lb p.value && leUb p.ub p.value

/-- the start-point test of `Fit.fit` is exactly "every free parameter is within its own bounds" -/
theorem inBox_start_iff (T : List (String × Param)) :
    inBox (maskSel (T.map (!·.2.fixed)) (T.map (·.2.lb))) (maskSel (T.map (!·.2.fixed)) (T.map (·.2.ub)))
      (maskSel (T.map (!·.2.fixed)) (T.map (·.2.value))) = true ↔
    ∀ e ∈ T, e.2.fixed = false → e.2.inBounds = true := by
  induction T with
  | nil => simp [maskSel, inBox]
  | cons a as ih =>
    by_cases hf : a.2.fixed = true
    · simp only [List.map_cons, hf, Bool.not_true, maskSel, ih, List.mem_cons, forall_eq_or_imp]
      simp
    · have hf' : a.2.fixed = false := by simpa using hf
      simp only [List.map_cons, hf', Bool.not_false, maskSel, inBox, Bool.and_eq_true, ih, List.mem_cons,
        forall_eq_or_imp, Param.inBounds]
      simp

/-- an optimiser answer inside the box puts every free parameter within its own bounds -/
theorem tableAfter_inBounds (T : List (String × Param)) (x : List Rat)
    (h : inBox (maskSel (T.map (!·.2.fixed)) (T.map (·.2.lb))) (maskSel (T.map (!·.2.fixed)) (T.map (·.2.ub))) x
      = true) :
    ∀ e ∈ tableAfter T x, e.2.fixed = false → e.2.inBounds = true := by
  induction T generalizing x with
  | nil => simp [tableAfter, setValues, writeBack]
  | cons a as ih =>
    by_cases hf : a.2.fixed = true
    · rw [tableAfter_cons_fixed a as x hf]
      simp only [List.map_cons, hf, Bool.not_true, maskSel] at h
      intro e he hfe
      rcases List.mem_cons.mp he with rfl | he
      · simp [hf] at hfe
      · exact ih x h e he hfe
    · have hf' : a.2.fixed = false := by simpa using hf
      simp only [List.map_cons, hf', Bool.not_false, maskSel] at h
      cases x with
      | nil => simp [inBox] at h
      | cons v vs =>
        simp only [inBox, Bool.and_eq_true] at h
        rw [tableAfter_cons_free a as v vs hf']
        intro e he hfe
        rcases List.mem_cons.mp he with rfl | he
        · simp [Param.inBounds, h.1.1, h.1.2]
        · exact ih vs h.2 e he hfe

/-- the free entries of the new table carry exactly the optimiser's answer, in order -/
theorem tableAfter_free_values (T : List (String × Param)) (x : List Rat)
    (h : x.length = (T.filter (!·.2.fixed)).length) :
    ((tableAfter T x).filter (!·.2.fixed)).map (·.2.value) = x := by
  induction T generalizing x with
  | nil => cases x with
    | nil => simp [tableAfter, setValues, writeBack]
    | cons v vs => simp at h
  | cons a as ih =>
    by_cases hf : a.2.fixed = true
    · rw [tableAfter_cons_fixed a as x hf]
      simp only [List.filter_cons, hf, Bool.not_true] at h ⊢
      simpa using ih x (by simpa using h)
    · have hf' : a.2.fixed = false := by simpa using hf
      cases x with
      | nil => simp [hf'] at h
      | cons v vs =>
        rw [tableAfter_cons_free a as v vs hf']
        simp only [List.filter_cons, hf', Bool.not_false] at h ⊢
        simp only [↓reduceIte, List.length_cons, Nat.add_right_cancel_iff] at h
        simp [ih vs h]


theorem inBox_length (lb ub : List (Option Rat)) (x : List Rat) (h : inBox lb ub x = true) :
    x.length = lb.length := by
  induction lb generalizing ub x with
  | nil => cases ub <;> cases x <;> simp_all [inBox]
  | cons l ls ih =>
    cases ub with
    | nil => simp [inBox] at h
    | cons u us =>
      cases x with
      | nil => simp [inBox] at h
      | cons v vs =>
        simp only [inBox, Bool.and_eq_true] at h
        simp [ih us vs h.2]

theorem maskSel_length (T : List (String × Param)) {β} (f : String × Param → β) :
    (maskSel (T.map (!·.2.fixed)) (T.map f)).length = (T.filter (!·.2.fixed)).length := by
  induction T with
  | nil => simp [maskSel]
  | cons a as ih =>
    by_cases hf : a.2.fixed = true
    · simp [maskSel, hf, ih]
    · have hf' : a.2.fixed = false := by simpa using hf
      simp [maskSel, hf', ih]

/-- by-name lookup in the table = by-index lookup in the value vector -/
theorem lookup_eq_getD (T : List (String × Param)) (s : String) (hs : s ∈ T.map (·.1)) :
    (T.lookup s).map (·.value) = some ((T.map (·.2.value)).getD ((T.map (·.1)).idxOf s) 0) := by
  induction T with
  | nil => cases hs
  | cons e es ih =>
    obtain ⟨k, p⟩ := e
    simp only [List.lookup_cons, List.map_cons, List.idxOf_cons]
    by_cases e' : s = k
    · subst e'; simp
    · have h1 : (s == k) = false := by simp [e']
      have h2 : (k == s) = false := by simp [Ne.symm e']
      rw [h1, h2]
      have := ih (by simpa [e'] using hs)
      simp only [cond_false, List.getD_eq_getElem?_getD, List.getElem?_cons_succ] at this ⊢
      exact this



/-! ### Jacobian scatter -/

theorem scatter_fold_eq (idx : List Nat) (s row0 r : List Rat) (hnd : idx.Nodup)
    (h : ∀ i ∈ idx, r.getD i 0 = row0.getD i 0) :
    (List.zipWith (fun i sj => (i, row0.getD i 0 - sj)) idx s).foldl (fun r (iv : Nat × Rat) => r.set iv.1 iv.2) r =
    (List.zipWith (fun i sj => (i, sj)) idx s).foldl
      (fun r (iv : Nat × Rat) => r.set iv.1 (r.getD iv.1 0 - iv.2)) r := by
  induction idx generalizing s r with
  | nil => simp
  | cons i is ih =>
    cases s with
    | nil => simp
    | cons sj ss =>
      simp only [List.zipWith_cons_cons, List.foldl_cons]
      rw [h i (List.mem_cons_self)]
      apply ih ss _ (List.nodup_cons.mp hnd).2
      intro i' hi'
      have hne : i ≠ i' := by
        intro e; subst e; exact (List.nodup_cons.mp hnd).1 hi'
      rw [getD_set_ne _ _ _ _ hne]
      exact h i' (List.mem_cons_of_mem _ hi')

theorem scatterRow_eq_sum (c : Condition) (row sens : List Rat) (hnd : c.pIndices.Nodup) :
    scatterRow c row sens = scatterRowSum c row sens := by
  unfold scatterRow scatterRowSum
  exact scatter_fold_eq _ _ row row hnd (fun _ _ => rfl)

theorem pIndices_eq (tr : List (String × Target)) (uniq : List String) (h : NamesIn tr uniq) :
    (mkCondition tr uniq).pIndices = (tr.filterMap (·.2.name?)).map uniq.idxOf := by
  unfold mkCondition
  simp only [List.map_map]
  induction tr with
  | nil => rfl
  | cons e es ih =>
    have h' : NamesIn es uniq := fun e' he' => h e' (List.mem_cons_of_mem _ he')
    cases ht : e.2 with
    | name s =>
      have hs : s ∈ uniq := h e (List.mem_cons_self) s ht
      simp [Function.comp, ht, Target.name?, lookupIdx_of_mem uniq s hs] at ih ⊢
      exact ih h'
    | const v r =>
      simp [Function.comp, ht, Target.name?] at ih ⊢
      exact ih h'

theorem nodup_map_idxOf (uniq ns : List String) (hin : ∀ n ∈ ns, n ∈ uniq) (hnd : ns.Nodup) :
    (ns.map uniq.idxOf).Nodup := by
  induction ns with
  | nil => simp
  | cons a as ih =>
    rw [List.map_cons, List.nodup_cons]
    refine ⟨?_, ih (fun n hn => hin n (List.mem_cons_of_mem _ hn)) (List.nodup_cons.mp hnd).2⟩
    intro hmem
    obtain ⟨b, hb, e⟩ := List.mem_map.mp hmem
    have : a = b := idxOf_inj_of_mem uniq a b (hin a (List.mem_cons_self)) e.symm
    subst this
    exact (List.nodup_cons.mp hnd).1 hb

/-! ### defaults -/

def namedPairs (m : ModelData) : List (String × Option Param) :=
  m.data.flatMap fun d => d.trans.filterMap fun e => match e.2 with
    | .name s => some (s, m.default e.1)
    | .const _ _ => none

def allPairs (ms : List ModelData) : List (String × Option Param) := ms.flatMap namedPairs

theorem namedPairs_fst (m : ModelData) : (namedPairs m).map (·.1) = m.transformedParams := by
  unfold namedPairs ModelData.transformedParams parameterNames
  rw [List.map_flatMap]
  congr 1; funext d
  rw [List.map_filterMap]
  congr 1; funext e
  cases e.2 <;> rfl

theorem namedPairs_snd (m : ModelData) : (namedPairs m).map (·.2) = m.dataDefaults := by
  unfold namedPairs ModelData.dataDefaults sourceNames
  rw [List.map_flatMap]
  congr 1; funext d
  rw [List.map_filterMap, List.map_filterMap]
  congr 1; funext e
  cases e.2 <;> rfl

theorem allPairs_fst (ms : List ModelData) : (allPairs ms).map (·.1) = allNames ms := by
  unfold allPairs allNames
  rw [List.map_flatMap]
  congr 1; funext m; exact namedPairs_fst m

theorem allPairs_snd (ms : List ModelData) : (allPairs ms).map (·.2) = allDefaults true ms := by
  unfold allPairs allDefaults
  rw [List.map_flatMap]
  congr 1; funext m; simp [namedPairs_snd]

theorem getElem_idxOf_eq_lookup {β} (l : List (String × β)) (n : String) (h : n ∈ l.map (·.1)) :
    (l.map (·.2))[(l.map (·.1)).idxOf n]? = l.lookup n := by
  induction l with
  | nil => cases h
  | cons e es ih =>
    obtain ⟨k, v⟩ := e
    simp only [List.map_cons, List.idxOf_cons, List.lookup_cons]
    by_cases e' : n = k
    · subst e'; simp
    · have h1 : (n == k) = false := by simp [e']
      have h2 : (k == n) = false := by simp [Ne.symm e']
      rw [h1, h2]
      simp only [cond_false, List.getElem?_cons_succ]
      exact ih (by simpa [e'] using h)

theorem buildDefaults_aligned (ms : List ModelData) :
    buildDefaults true ms = (globalNames ms).map fun n => ((allPairs ms).lookup n).join := by
  unfold buildDefaults
  apply List.map_congr_left
  intro n hn
  have hn' : n ∈ (allPairs ms).map (·.1) := by
    rw [allPairs_fst]; exact (mem_unique _ _).mp hn
  rw [← allPairs_fst, ← allPairs_snd, getElem_idxOf_eq_lookup _ n hn']

theorem allDefaults_of_all_data (ms : List ModelData) (h : ∀ m ∈ ms, m.data ≠ []) :
    allDefaults false ms = allDefaults true ms := by
  unfold allDefaults
  induction ms with
  | nil => rfl
  | cons m ms ih =>
    have hm : m.data.isEmpty = false := by
      cases hd : m.data with
      | nil => exact absurd hd (h m (List.mem_cons_self))
      | cons a as => rfl
    simp only [List.flatMap_cons]
    rw [ih (fun m' hm' => h m' (List.mem_cons_of_mem _ hm'))]
    simp [ModelData.defaults, hm]


theorem mem_zip_map_self {α β} (l : List α) (g : α → β) (n : α) (h : n ∈ l) : (n, g n) ∈ l.zip (l.map g) := by
  induction l with
  | nil => cases h
  | cons a as ih =>
    simp only [List.map_cons, List.zip_cons_cons, List.mem_cons, Prod.mk.injEq]
    rcases List.mem_cons.mp h with rfl | h
    · exact .inl ⟨rfl, rfl⟩
    · exact .inr (ih h)

/-! ### rebuilding, adding data -/

theorem build_models_names (r : Bool) (F : Fit) : globalNames (F.build r).models = globalNames F.models := by
  have h : ∀ ms : List ModelData, allNames (ms.map fun m => { m with built := true }) = allNames ms := by
    intro ms; simp [allNames, ModelData.transformedParams, List.flatMap_map]
  simp only [Fit.build, globalNames, h]

theorem build_models_defaults (r : Bool) (F : Fit) :
    buildDefaults r (F.build r).models = buildDefaults r F.models := by
  have h : ∀ ms : List ModelData, allNames (ms.map fun m => { m with built := true }) = allNames ms := by
    intro ms; simp [allNames, ModelData.transformedParams, List.flatMap_map]
  have h2 : ∀ ms : List ModelData,
      allDefaults r (ms.map fun m => { m with built := true }) = allDefaults r ms := by
    intro ms
    have hd : ∀ m : ModelData, ({ m with built := true } : ModelData).default = m.default := fun _ => rfl
    simp [allDefaults, List.flatMap_map, ModelData.defaults, ModelData.dataDefaults, hd]
  simp only [Fit.build, buildDefaults, globalNames, h, h2]

/-- the models after a dataset `d` was appended to model `m` (`pre ++ m :: post` ↦ …) -/
def withData (pre : List ModelData) (m : ModelData) (post : List ModelData) (d : Data) : List ModelData :=
  pre ++ { m with built := false, data := m.data ++ [d] } :: post

theorem allNames_withData (pre post : List ModelData) (m : ModelData) (d : Data) :
    allNames (withData pre m post d) =
      allNames pre ++ (m.transformedParams ++ parameterNames d) ++ allNames post := by
  simp [allNames, withData, ModelData.transformedParams, List.flatMap_append]

/-! ### the samples a dataset holds -/

theorem keepValid_length {α} (nx ny : List Bool) (xs : List α) (h1 : nx.length = ny.length)
    (h2 : xs.length = nx.length) : (keepValid nx ny xs).length = countValid nx ny := by
  induction nx generalizing ny xs with
  | nil => cases ny <;> cases xs <;> simp_all [keepValid, countValid]
  | cons a as ih =>
    cases ny with
    | nil => simp at h1
    | cons b bs =>
      cases xs with
      | nil => simp at h2
      | cons v vs =>
        simp only [List.length_cons, Nat.add_right_cancel_iff] at h1 h2
        simp only [keepValid, countValid]
        split <;> simp [ih bs vs h1 h2] <;> omega

theorem keepValid_no_nan {α} (nx ny : List Bool) (xs : List α) (h1 : nx.length = ny.length)
    (h2 : xs.length = nx.length) (hx : ∀ b ∈ nx, b = false) (hy : ∀ b ∈ ny, b = false) :
    keepValid nx ny xs = xs := by
  induction nx generalizing ny xs with
  | nil =>
    cases xs with
    | nil => cases ny <;> rfl
    | cons v vs => simp at h2
  | cons a as ih =>
    cases ny with
    | nil => simp at h1
    | cons b bs =>
      cases xs with
      | nil => simp at h2
      | cons v vs =>
        simp only [List.length_cons, Nat.add_right_cancel_iff] at h1 h2
        simp only [List.mem_cons, forall_eq_or_imp] at hx hy
        simp only [keepValid, hx.1, hy.1, Bool.or_self, Bool.false_eq_true, if_false]
        rw [ih bs vs h1 h2 hx.2 hy.2]

/-- `G` still has every model of `F`, and every dataset of `F` is still there, at its place, as it was (name,
    transformations, the samples it holds); datasets may have been appended. -/
def Keeps (F G : Fit) : Prop :=
  ∀ (mi : Nat) (m : ModelData), F.models[mi]? = some m →
    ∃ m' : ModelData, G.models[mi]? = some m' ∧ m.data <+: m'.data

theorem Keeps.refl (F : Fit) : Keeps F F := fun _ m h => ⟨m, h, List.prefix_refl _⟩

theorem Keeps.trans {F G H : Fit} (a : Keeps F G) (b : Keeps G H) : Keeps F H := fun mi m h => by
  obtain ⟨m', h', p⟩ := a mi m h
  obtain ⟨m'', h'', q⟩ := b mi m' h'
  exact ⟨m'', h'', p.trans q⟩

theorem Keeps.of_models {F G : Fit} (h : G.models = F.models) : Keeps F G := fun _ m hm => ⟨m, h ▸ hm, List.prefix_refl _⟩

theorem keeps_build (r : Bool) (F : Fit) : Keeps F (F.build r) := fun mi m h => by
  refine ⟨{ m with built := true }, ?_, List.prefix_refl _⟩
  simp [Fit.build, h]

theorem keeps_rebuild (r : Bool) (F : Fit) : Keeps F (F.rebuild r) := by
  unfold Fit.rebuild
  split
  · exact keeps_build r F
  · exact Keeps.refl F

theorem keeps_set_model (F : Fit) (mi : Nat) (m m' : ModelData) (hm : F.models[mi]? = some m)
    (hp : m.data <+: m'.data) : Keeps F { F with models := F.models.set mi m' } := fun j mj hj => by
  by_cases e : mi = j
  · subst e
    rw [hm] at hj; cases hj
    refine ⟨m', ?_, hp⟩
    have : mi < F.models.length := by
      rcases Nat.lt_or_ge mi F.models.length with h | h
      · exact h
      · rw [List.getElem?_eq_none h] at hm; cases hm
    simp [this]
  · exact ⟨mj, by simp [List.getElem?_set_ne e, hj], List.prefix_refl _⟩

theorem keeps_addData (F : Fit) (mi : Nat) (name : String) (ov : List (String × Target)) (nx ny : List Bool)
    (xs ys : List Nat) : Keeps F (F.addData mi name ov nx ny xs ys).1 := by
  unfold Fit.addData
  split
  · exact Keeps.refl F
  · rename_i m hm
    split
    · exact Keeps.refl F
    · split
      · exact Keeps.refl F
      · split
        · exact keeps_set_model F mi m _ hm (List.prefix_refl _)
        · exact keeps_set_model F mi m _ hm (List.prefix_append _ _)

theorem keeps_setField (r : Bool) (F : Fit) (name : String) (f : Field) : Keeps F (F.setField r name f).1 := by
  unfold Fit.setField
  refine (keeps_rebuild r F).trans ?_
  simp only
  split
  · exact Keeps.of_models rfl
  · exact Keeps.refl _

theorem keeps_fit (r : Bool) (opt : Opt) (F : Fit) : Keeps F (F.fit r opt).1 := by
  unfold Fit.fit
  refine (keeps_rebuild r F).trans ?_
  simp only
  split
  · exact Keeps.refl _
  · split
    · exact Keeps.refl _
    · split
      · exact Keeps.refl _
      · split
        · exact Keeps.refl _
        · exact Keeps.of_models rfl

theorem keeps_step (r : Bool) (F : Fit) (a : Action) : Keeps F (step r F a).1 := by
  cases a with
  | add mi name ov nx ny xs ys => exact keeps_addData F mi name ov nx ny xs ys
  | set name f => exact keeps_setField r F name f
  | fit o => exact keeps_fit r _ F
  | query => exact keeps_rebuild r F
  | jac mi name sens => exact keeps_rebuild r F

theorem keeps_exec (r : Bool) (F : Fit) (acts : List Action) : Keeps F (exec r F acts) := by
  induction acts generalizing F with
  | nil => exact Keeps.refl F
  | cons a as ih => exact (keeps_step r F a).trans (ih _)

theorem run_append (r : Bool) (F : Fit) (as bs : List Action) :
    run r F (as ++ bs) = run r F as ++ run r (exec r F as) bs := by
  induction as generalizing F with
  | nil => rfl
  | cons a as ih => simp [run, exec, ih]

/-! ### the residual the fit evaluates -/

/-- every dataset of every condition is a dataset of the model, and the condition's local vector (computed from the
    group's first dataset) is the dataset's own direct reading -/
theorem mem_generateConditions (m : ModelData) (uniq : List String) (hinj : CondInj m)
    (hin : ∀ d ∈ m.data, NamesIn d.trans uniq) (cd : Condition × List Data) (hcd : cd ∈ generateConditions m uniq)
    (d : Data) (hd : d ∈ cd.2) :
    d ∈ m.data ∧ ∀ g, getLocalParams cd.1 g = localDirect d.trans uniq g := by
  unfold generateConditions at hcd
  simp only [List.mem_filterMap] at hcd
  obtain ⟨grp, hgrp, h⟩ := hcd
  cases grp with
  | nil => simp at h
  | cons r rest =>
    simp only [Option.some.injEq] at h
    subst h
    obtain ⟨hr, hdm, hs⟩ := mem_groups m _ r d hgrp (List.mem_cons_self) hd
    refine ⟨hdm, fun g => ?_⟩
    show getLocalParams (mkCondition r.trans uniq) g = _
    rw [mkCondition_congr _ _ uniq (hinj r hr d hdm hs), getLocalParams_mkCondition _ _ _ (hin d hdm)]

theorem mem_residual (f : ModelFn) (m : ModelData) (uniq : List String) (hinj : CondInj m)
    (hin : ∀ d ∈ m.data, NamesIn d.trans uniq) (g : List Rat) (r : Rat) (hr : r ∈ m.residual f uniq g) :
    ∃ d ∈ m.data, r ∈ dataResidual f (localDirect d.trans uniq g) d := by
  unfold ModelData.residual residualOf at hr
  simp only [List.mem_flatMap] at hr
  obtain ⟨cd, hcd, d, hd, hr⟩ := hr
  obtain ⟨hdm, hl⟩ := mem_generateConditions m uniq hinj hin cd hcd d hd
  exact ⟨d, hdm, by rw [← hl g]; exact hr⟩

/-- dataset `d` is noise-free data of the model function `f` at the local parameter vector `p` -/
def NoiseFree (f : ModelFn) (p : List Rat) (d : Data) : Prop :=
  d.y.map bitsToRat = d.x.map fun x => f p (bitsToRat x)

theorem zipWith_residual_zero (f : ModelFn) (p : List Rat) (xs ys : List Nat)
    (h : ys.map bitsToRat = xs.map fun x => f p (bitsToRat x)) :
    ∀ r ∈ List.zipWith (fun x y => bitsToRat y - f p (bitsToRat x)) xs ys, r = 0 := by
  induction xs generalizing ys with
  | nil => intro r hr; simp at hr
  | cons x xs ih =>
    cases ys with
    | nil => intro r hr; simp at hr
    | cons y ys =>
      simp only [List.map_cons, List.cons.injEq] at h
      intro r hr
      simp only [List.zipWith_cons_cons, List.mem_cons] at hr
      rcases hr with rfl | hr
      · rw [h.1]; exact sub_self _
      · exact ih ys h.2 r hr

theorem dataResidual_zero (f : ModelFn) (p : List Rat) (d : Data) (h : NoiseFree f p d) :
    ∀ r ∈ dataResidual f p d, r = 0 := zipWith_residual_zero f p d.x d.y h

theorem mem_zipWith_zip {α β γ} (fn : α → β → γ) (l1 : List α) (l2 : List β) (c : γ)
    (h : c ∈ List.zipWith fn l1 l2) : ∃ ab ∈ l1.zip l2, c = fn ab.1 ab.2 := by
  induction l1 generalizing l2 with
  | nil => simp at h
  | cons a as ih =>
    cases l2 with
    | nil => simp at h
    | cons b bs =>
      simp only [List.zipWith_cons_cons, List.mem_cons] at h
      rcases h with rfl | h
      · exact ⟨(a, b), by simp, rfl⟩
      · obtain ⟨ab, hab, e⟩ := ih bs h
        exact ⟨ab, by simp [hab], e⟩

theorem mem_residualAt (fs : List ModelFn) (F : Fit) (g : List Rat) (r : Rat) (h : r ∈ F.residualAt fs g) :
    ∃ mf ∈ F.models.zip fs, r ∈ mf.1.residual mf.2 (F.table.map (·.1)) g := by
  unfold Fit.residualAt at h
  simp only [List.mem_flatten] at h
  obtain ⟨l, hl, hr⟩ := h
  obtain ⟨mf, hmf, e⟩ := mem_zipWith_zip _ _ _ _ hl
  exact ⟨mf, hmf, e ▸ hr⟩

/-! ### sums of squares -/

theorem sumSq_nonneg (l : List Rat) : 0 ≤ sumSq l := by
  unfold sumSq
  induction l with
  | nil => simp
  | cons a as ih =>
    simp only [List.map_cons, List.sum_cons]
    have := mul_self_nonneg a
    linarith

theorem sumSq_eq_zero_iff (l : List Rat) : sumSq l = 0 ↔ ∀ r ∈ l, r = 0 := by
  unfold sumSq
  induction l with
  | nil => simp
  | cons a as ih =>
    simp only [List.map_cons, List.sum_cons, List.mem_cons, forall_eq_or_imp]
    have h1 := mul_self_nonneg a
    have h2 : 0 ≤ (as.map fun r => r * r).sum := sumSq_nonneg as
    constructor
    · intro h
      have ha : a * a = 0 := by linarith
      have hs : (as.map fun r => r * r).sum = 0 := by linarith
      exact ⟨mul_self_eq_zero.mp ha, ih.mp hs⟩
    · rintro ⟨rfl, h⟩
      rw [ih.mpr h]; simp

/-! ### the fit and the residual -/

theorem writeBack_maskSel (m : List Bool) (v : List Rat) : writeBack m (maskSel m v) v = v := by
  induction m generalizing v with
  | nil => cases v <;> rfl
  | cons b ms ih =>
    cases v with
    | nil => cases b <;> rfl
    | cons a as =>
      cases b
      · simp only [maskSel, writeBack, ih]
      · simp only [maskSel, writeBack, ih]

theorem writeBack_length (m : List Bool) (x p : List Rat) : (writeBack m x p).length = p.length := by
  induction m generalizing x p with
  | nil => cases x <;> cases p <;> rfl
  | cons b ms ih =>
    cases p with
    | nil => cases b <;> cases x <;> rfl
    | cons a as =>
      cases b
      · simp only [writeBack, List.length_cons, ih]
      · cases x with
        | nil => rfl
        | cons y ys => simp only [writeBack, List.length_cons, ih]

theorem setValues_values (T : List (String × Param)) (v : List Rat) (h : v.length = T.length) :
    (setValues T v).map (·.2.value) = v := by
  induction T generalizing v with
  | nil => cases v with
    | nil => rfl
    | cons a as => simp at h
  | cons e es ih =>
    cases v with
    | nil => simp at h
    | cons a as =>
      simp only [List.length_cons, Nat.add_right_cancel_iff] at h
      have := ih as h
      simp only [setValues] at this ⊢
      simp [this]

theorem tableAfter_values (T : List (String × Param)) (x : List Rat) :
    (tableAfter T x).map (·.2.value) = writeBack (T.map (!·.2.fixed)) x (T.map (·.2.value)) := by
  unfold tableAfter
  apply setValues_values
  rw [writeBack_length]; simp

theorem tableAfter_start (T : List (String × Param)) :
    tableAfter T (maskSel (T.map (!·.2.fixed)) (T.map (·.2.value))) = T := by
  unfold tableAfter
  rw [writeBack_maskSel]
  exact setValues_self T

/-- the objective at the start point the fit hands over is the residual at the table values -/
theorem objective_start (fs : List ModelFn) (G : Fit) :
    G.objective fs (maskSel G.fitted G.values) = G.residualAt fs G.values := by
  unfold Fit.objective
  rw [writeBack_maskSel]


/-! ### generating values given by NAME -/

/-- what a dataset reads when the parameters are given by NAME (`gen`): the independent reading of "a shared name is
    one value every dataset sees, a renamed parameter has its own, a constant is itself" -/
def localByName (tr : List (String × Target)) (gen : String → Rat) : List Rat :=
  tr.map fun e => match e.2 with
    | .name s => gen s
    | .const v _ => v

theorem getD_idxOf_of_gen (T : List (String × Param)) (gen : String → Rat) (hgen : ∀ e ∈ T, e.2.value = gen e.1)
    (s : String) (hs : s ∈ T.map (·.1)) :
    (T.map (·.2.value)).getD ((T.map (·.1)).idxOf s) 0 = gen s := by
  induction T with
  | nil => cases hs
  | cons e es ih =>
    obtain ⟨k, p⟩ := e
    simp only [List.map_cons, List.idxOf_cons]
    by_cases e' : s = k
    · subst e'
      simp only [beq_self_eq_true, cond_true, List.getD_cons_zero]
      exact hgen (s, p) List.mem_cons_self
    · have h2 : (k == s) = false := by simp [Ne.symm e']
      rw [h2]
      simp only [cond_false, List.getD_cons_succ]
      exact ih (fun e he => hgen e (List.mem_cons_of_mem _ he)) (by simpa [e'] using hs)

theorem localDirect_of_table (T : List (String × Param)) (gen : String → Rat)
    (hgen : ∀ e ∈ T, e.2.value = gen e.1) (tr : List (String × Target)) (hin : NamesIn tr (T.map (·.1))) :
    localDirect tr (T.map (·.1)) (T.map (·.2.value)) = localByName tr gen := by
  unfold localDirect localByName
  apply List.map_congr_left
  intro e he
  cases ht : e.2 with
  | const v r => rfl
  | name s => exact getD_idxOf_of_gen T gen hgen s (hin e he s ht)

theorem mem_of_lookup_eq_some (T : List (String × Param)) (n : String) (p : Param) (h : T.lookup n = some p) :
    (n, p) ∈ T := by
  induction T with
  | nil => cases h
  | cons e es ih =>
    obtain ⟨k, q⟩ := e
    simp only [List.lookup_cons] at h
    by_cases e' : n = k
    · subst e'
      simp only [beq_self_eq_true, Option.some.injEq] at h
      subst h; exact List.mem_cons_self
    · have : (n == k) = false := by simp [e']
      rw [this] at h
      exact List.mem_cons_of_mem _ (ih h)

/-- `_set_params` keeps the generating values when every key of the new table was a key of the old one -/
theorem setParams_gen (old : List (String × Param)) (names : List String) (defs : List (Option Param))
    (gen : String → Rat) (hgen : ∀ e ∈ old, e.2.value = gen e.1) (hsub : ∀ n ∈ names, n ∈ old.map (·.1)) :
    ∀ e ∈ setParams old names defs, e.2.value = gen e.1 := by
  intro e he
  unfold setParams at he
  simp only [List.mem_map] at he
  obtain ⟨nd, hnd, rfl⟩ := he
  have hn : nd.1 ∈ names := (List.of_mem_zip hnd).1
  have hs := lookup_isSome_of_mem_keys old nd.1 (hsub _ hn)
  cases hl : old.lookup nd.1 with
  | none => simp [hl] at hs
  | some p =>
    simp only [Option.getD_some]
    exact hgen _ (mem_of_lookup_eq_some old nd.1 p hl)


/-! ### the sum of squares is a sum over all datasets -/

theorem sumSq_append (l1 l2 : List Rat) : sumSq (l1 ++ l2) = sumSq l1 + sumSq l2 := by
  simp [sumSq, List.map_append, List.sum_append]

theorem sumSq_flatMap {α} (l : List α) (φ : α → List Rat) :
    sumSq (l.flatMap φ) = (l.map fun a => sumSq (φ a)).sum := by
  induction l with
  | nil => simp [sumSq]
  | cons a as ih => simp only [List.flatMap_cons, sumSq_append, ih, List.map_cons, List.sum_cons]

theorem sumSq_flatten (l : List (List Rat)) : sumSq l.flatten = (l.map sumSq).sum := by
  induction l with
  | nil => simp [sumSq]
  | cons a as ih => simp only [List.flatten_cons, sumSq_append, ih, List.map_cons, List.sum_cons]

theorem sum_map_zero {α} (l : List α) : (l.map fun _ => (0 : Rat)).sum = 0 := by
  induction l with
  | nil => rfl
  | cons a as ih => simp only [List.map_cons, List.sum_cons, ih]; simp

theorem sum_map_add' {α} (l : List α) (f g : α → Rat) :
    (l.map fun a => f a + g a).sum = (l.map f).sum + (l.map g).sum := by
  induction l with
  | nil => simp
  | cons a as ih => simp only [List.map_cons, List.sum_cons, ih]; ring

theorem sum_range_ite (n k : Nat) (c : Rat) (hk : k < n) :
    ((List.range n).map fun ci => if k = ci then c else 0).sum = c := by
  induction n with
  | zero => omega
  | succ n ih =>
    rw [List.range_succ, List.map_append, List.sum_append]
    by_cases h : k = n
    · subst h
      have : ((List.range k).map fun ci => if k = ci then c else 0) = (List.range k).map fun _ => (0 : Rat) := by
        apply List.map_congr_left
        intro ci hci
        have := List.mem_range.mp hci
        simp [show k ≠ ci by omega]
      rw [this, sum_map_zero]; simp
    · rw [ih (by omega)]; simp [h]

/-- splitting a list by a key with values below `n` and summing the classes one after the other is summing the list -/
theorem sum_by_key {α} (l : List α) (k : α → Nat) (n : Nat) (h : α → Rat) (hk : ∀ a ∈ l, k a < n) :
    ((List.range n).map fun ci => ((l.filter fun a => k a == ci).map h).sum).sum = (l.map h).sum := by
  induction l with
  | nil => simp only [List.filter_nil, List.map_nil, List.sum_nil]; exact sum_map_zero _
  | cons a as ih =>
    have e : (fun ci => (((a :: as).filter fun a' => k a' == ci).map h).sum) =
        fun ci => (if k a = ci then h a else 0) + ((as.filter fun a' => k a' == ci).map h).sum := by
      funext ci
      by_cases hc : k a = ci
      · simp [List.filter_cons, hc]
      · simp [List.filter_cons, hc]
    rw [e, sum_map_add', sum_range_ite n (k a) (h a) (hk a List.mem_cons_self),
      ih (fun a' ha' => hk a' (List.mem_cons_of_mem _ ha'))]
    simp

/-- the sum of squares of the blocks of one condition group as the code evaluates them (local vector of the FIRST
    dataset for all) -/
def groupCost (f : ModelFn) (uniq : List String) (g : List Rat) : List Data → Rat
  | [] => 0
  | r :: rest => ((r :: rest).map fun d => sumSq (dataResidual f (getLocalParams (mkCondition r.trans uniq) g) d)).sum

theorem sumSq_residualOf_filterMap (f : ModelFn) (uniq : List String) (g : List Rat) (gs : List (List Data)) :
    sumSq (residualOf (gs.filterMap fun grp => match grp with
      | [] => none
      | r :: _ => some (mkCondition r.trans uniq, grp)) f g) = (gs.map (groupCost f uniq g)).sum := by
  induction gs with
  | nil => simp [residualOf, sumSq]
  | cons grp gs ih =>
    cases grp with
    | nil =>
      simp only [List.filterMap_cons, List.map_cons, List.sum_cons, groupCost, zero_add]
      exact ih
    | cons r rest =>
      simp only [List.filterMap_cons, List.map_cons, List.sum_cons]
      unfold residualOf at ih ⊢
      rw [List.flatMap_cons, sumSq_append, ih, sumSq_flatMap]
      rfl

theorem zipWith_eq_map_zip' {α β γ} (fn : α → β → γ) (l1 : List α) (l2 : List β) :
    List.zipWith fn l1 l2 = (l1.zip l2).map fun p => fn p.1 p.2 := by
  induction l1 generalizing l2 with
  | nil => simp
  | cons a as ih =>
    cases l2 with
    | nil => simp
    | cons b bs => simp only [List.zipWith_cons_cons, List.zip_cons_cons, List.map_cons, ih]


/-! ### the Jacobian scatter as a sum over all paths -/

theorem getD_set_eq' (r : List Rat) (i j : Nat) (v : Rat) (hj : j < r.length) :
    (r.set i v).getD j 0 = if i = j then v else r.getD j 0 := by
  by_cases h : i = j
  · subst h; simp [List.getD_eq_getElem?_getD, hj]
  · simp [List.getD_eq_getElem?_getD, List.getElem?_set_ne h, h]

/-- subtracting a list of (column, value) pairs from a row one after the other: every column ends with its start value
    minus the sum of ALL values addressed to it -/
theorem foldl_subAt_getD (pairs : List (Nat × Rat)) (r : List Rat) (j : Nat) (hj : j < r.length) :
    (pairs.foldl (fun r iv => r.set iv.1 (r.getD iv.1 0 - iv.2)) r).getD j 0 =
      r.getD j 0 - ((pairs.filter fun iv => iv.1 = j).map (·.2)).sum := by
  induction pairs generalizing r with
  | nil => simp
  | cons iv ps ih =>
    simp only [List.foldl_cons]
    rw [ih _ (by simpa using hj), getD_set_eq' _ _ _ _ hj]
    by_cases h : iv.1 = j
    · simp only [h, ↓reduceIte, List.filter_cons, decide_true, List.map_cons, List.sum_cons]
      ring
    · simp only [h, ↓reduceIte, List.filter_cons, decide_false]
      simp

/-- the (column, value) pairs of the scatter, read off the transformations directly: one pair per model parameter
    that is mapped to a NAME — (index of the name in the table, local sensitivity of that model parameter) -/
def pathPairs (tr : List (String × Target)) (uniq : List String) (sens : List Rat) (n0 : Nat) : List (Nat × Rat) :=
  (tr.zipIdx n0).filterMap fun ek => ek.1.2.name?.map fun s => (uniq.idxOf s, sens.getD ek.2 0)

theorem scatter_pairs_aux (tr : List (String × Target)) (uniq : List String) (sens : List Rat) (n0 : Nat) :
    List.zipWith (fun i sj => (i, sj)) ((tr.filterMap (·.2.name?)).map uniq.idxOf)
      (((((tr.map (·.2)).zipIdx n0).filter fun ti => ti.1.name?.isSome).map (·.2)).map fun j => sens.getD j 0)
      = pathPairs tr uniq sens n0 := by
  induction tr generalizing n0 with
  | nil => rfl
  | cons e es ih =>
    have hn : ∀ s, (Target.name s).name? = some s := fun _ => rfl
    have hc : ∀ v r, (Target.const v r).name? = none := fun _ _ => rfl
    unfold pathPairs at ih ⊢
    cases ht : e.2 with
    | name s =>
      simp only [List.map_cons, ht, List.zipIdx_cons, hn, Option.isSome_some,
        List.filter_cons_of_pos, List.filterMap_cons, List.zipWith_cons_cons, Option.map_some]
      rw [ih (n0 + 1)]
    | const v r =>
      simp only [List.map_cons, ht, List.zipIdx_cons, hc, Option.isSome_none,
        Bool.false_eq_true, not_false_eq_true, List.filter_cons_of_neg, List.filterMap_cons, Option.map_none]
      rw [ih (n0 + 1)]

theorem scatterRowSum_eq_fold (tr : List (String × Target)) (uniq : List String) (h : NamesIn tr uniq)
    (row sens : List Rat) :
    scatterRowSum (mkCondition tr uniq) row sens =
      (pathPairs tr uniq sens 0).foldl (fun r iv => r.set iv.1 (r.getD iv.1 0 - iv.2)) row := by
  unfold scatterRowSum
  have hE : (mkCondition tr uniq).pExternal =
      (((tr.map (·.2)).zipIdx.filter fun ti => ti.1.name?.isSome).map (·.2)) := rfl
  simp only [pIndices_eq _ _ h, hE]
  rw [scatter_pairs_aux tr uniq sens 0]

theorem pathPairs_column_sum (l : List ((String × Target) × Nat)) (uniq : List String) (sens : List Rat)
    (h : ∀ ek ∈ l, ∀ s, ek.1.2 = .name s → s ∈ uniq) (n : String) :
    (((l.filterMap fun ek => ek.1.2.name?.map fun s => (uniq.idxOf s, sens.getD ek.2 0)).filter
        fun iv => iv.1 = uniq.idxOf n).map (·.2)).sum =
      ((l.filter fun ek => ek.1.2 = .name n).map fun ek => sens.getD ek.2 0).sum := by
  induction l with
  | nil => rfl
  | cons ek l ih =>
    have ih' := ih (fun ek' he' => h ek' (List.mem_cons_of_mem _ he'))
    cases ht : ek.1.2 with
    | name s =>
      have hs : s ∈ uniq := h ek List.mem_cons_self s ht
      have hn : (Target.name s).name? = some s := rfl
      simp only [List.filterMap_cons, ht, hn, Option.map_some, List.filter_cons]
      by_cases e : s = n
      · subst e
        simp only [decide_true, ↓reduceIte, List.map_cons, List.sum_cons, ih']
      · have h1 : ¬ (uniq.idxOf s = uniq.idxOf n) := fun hh => e (idxOf_inj_of_mem uniq s n hs hh)
        have h2 : ¬ (Target.name s = Target.name n) := fun hh => e (by injection hh)
        simp only [h1, h2, decide_false, Bool.false_eq_true, ↓reduceIte, ih']
    | const v r =>
      have hc : (Target.const v r).name? = none := rfl
      have h2 : ¬ (Target.const v r = Target.name n) := fun hh => by cases hh
      simp only [List.filterMap_cons, ht, hc, Option.map_none, List.filter_cons, h2, decide_false,
        Bool.false_eq_true, ↓reduceIte, ih']

theorem mem_generateConditions_cond (m : ModelData) (uniq : List String) (hinj : CondInj m)
    (cd : Condition × List Data) (hcd : cd ∈ generateConditions m uniq) (d : Data) (hd : d ∈ cd.2) :
    d ∈ m.data ∧ cd.1 = mkCondition d.trans uniq := by
  unfold generateConditions at hcd
  simp only [List.mem_filterMap] at hcd
  obtain ⟨grp, hgrp, h⟩ := hcd
  cases grp with
  | nil => simp at h
  | cons r rest =>
    simp only [Option.some.injEq] at h
    subst h
    obtain ⟨hr, hdm, hs⟩ := mem_groups m _ r d hgrp (List.mem_cons_self) hd
    exact ⟨hdm, mkCondition_congr _ _ uniq (hinj r hr d hdm hs)⟩

theorem mem_model_jacobian (J : SensFn) (m : ModelData) (uniq : List String) (hinj : CondInj m)
    (hin : ∀ d ∈ m.data, NamesIn d.trans uniq) (g : List Rat) (row : List Rat) (h : row ∈ m.jacobian J uniq g) :
    ∃ d ∈ m.data, ∃ x ∈ d.x, row = scatterRowSum (mkCondition d.trans uniq) (List.replicate uniq.length 0)
      (J (localDirect d.trans uniq g) (bitsToRat x)) := by
  unfold ModelData.jacobian jacobianOf at h
  simp only [List.mem_flatMap] at h
  obtain ⟨cd, hcd, d, hd, hrow⟩ := h
  obtain ⟨hdm, hc⟩ := mem_generateConditions_cond m uniq hinj cd hcd d hd
  unfold dataJacobian at hrow
  simp only [List.mem_map] at hrow
  obtain ⟨x, hx, rfl⟩ := hrow
  refine ⟨d, hdm, x, hx, ?_⟩
  rw [hc, getLocalParams_mkCondition _ _ _ (hin d hdm)]


theorem dirty_withData (F : Fit) (pre post : List ModelData) (m : ModelData) (d : Data) :
    Fit.dirty { F with models := withData pre m post d } = true := by
  simp [Fit.dirty, withData]


/-! ### the length of the residual vector -/

theorem nsum_map_zero {α} (l : List α) : (l.map fun _ => (0 : Nat)).sum = 0 := by
  induction l with
  | nil => rfl
  | cons a as ih => simp only [List.map_cons, List.sum_cons, ih]

theorem nsum_map_add {α} (l : List α) (f g : α → Nat) :
    (l.map fun a => f a + g a).sum = (l.map f).sum + (l.map g).sum := by
  induction l with
  | nil => simp
  | cons a as ih => simp only [List.map_cons, List.sum_cons, ih]; omega

theorem nsum_range_ite (n k c : Nat) (hk : k < n) :
    ((List.range n).map fun ci => if k = ci then c else 0).sum = c := by
  induction n with
  | zero => omega
  | succ n ih =>
    rw [List.range_succ, List.map_append, List.sum_append]
    by_cases h : k = n
    · subst h
      have : ((List.range k).map fun ci => if k = ci then c else 0) = (List.range k).map fun _ => (0 : Nat) := by
        apply List.map_congr_left
        intro ci hci
        have := List.mem_range.mp hci
        simp [show k ≠ ci by omega]
      rw [this, nsum_map_zero]; simp
    · rw [ih (by omega)]; simp [h]

theorem nsum_by_key {α} (l : List α) (k : α → Nat) (n : Nat) (h : α → Nat) (hk : ∀ a ∈ l, k a < n) :
    ((List.range n).map fun ci => ((l.filter fun a => k a == ci).map h).sum).sum = (l.map h).sum := by
  induction l with
  | nil => simp only [List.filter_nil, List.map_nil, List.sum_nil]; exact nsum_map_zero _
  | cons a as ih =>
    have e : (fun ci => (((a :: as).filter fun a' => k a' == ci).map h).sum) =
        fun ci => (if k a = ci then h a else 0) + ((as.filter fun a' => k a' == ci).map h).sum := by
      funext ci
      by_cases hc : k a = ci
      · simp [hc]
      · simp [hc]
    rw [e, nsum_map_add, nsum_range_ite n (k a) (h a) (hk a List.mem_cons_self),
      ih (fun a' ha' => hk a' (List.mem_cons_of_mem _ ha'))]
    simp

/-- a dataset holds exactly `npoints` sample pairs (what `add_data` establishes: `add_data_holds`) -/
def DataOk (d : Data) : Prop := d.x.length = d.npoints ∧ d.y.length = d.npoints

theorem dataResidual_length (f : ModelFn) (p : List Rat) (d : Data) (h : DataOk d) :
    (dataResidual f p d).length = d.npoints := by
  unfold dataResidual
  rw [List.length_zipWith, h.1, h.2, Nat.min_self]

theorem length_residualOf_filterMap (f : ModelFn) (uniq : List String) (g : List Rat) (gs : List (List Data))
    (hok : ∀ grp ∈ gs, ∀ d ∈ grp, DataOk d) :
    (residualOf (gs.filterMap fun grp => match grp with
      | [] => none
      | r :: _ => some (mkCondition r.trans uniq, grp)) f g).length =
      (gs.map fun grp => (grp.map (·.npoints)).sum).sum := by
  induction gs with
  | nil => simp [residualOf]
  | cons grp gs ih =>
    have ih' := ih (fun g' hg' => hok g' (List.mem_cons_of_mem _ hg'))
    cases grp with
    | nil =>
      simp only [List.filterMap_cons, List.map_cons, List.sum_cons, List.map_nil, List.sum_nil, Nat.zero_add]
      exact ih'
    | cons r rest =>
      simp only [List.filterMap_cons, List.map_cons, List.sum_cons]
      unfold residualOf at ih' ⊢
      rw [List.flatMap_cons, List.length_append, ih', List.length_flatMap]
      congr 1
      have : ∀ d ∈ r :: rest, (dataResidual f (getLocalParams (mkCondition r.trans uniq) g) d).length = d.npoints :=
        fun d hd => dataResidual_length _ _ d (hok _ List.mem_cons_self d hd)
      rw [List.map_congr_left this]
      simp


end Verif.C14
