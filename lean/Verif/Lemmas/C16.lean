/-
  C16 — helper lemmas for Props/C16 (Viterbi invariant, mask-difference vs run-length encoding,
  scaled forward–backward algebra).
-/
import Verif.Model.C16
import Mathlib.Algebra.Order.Field.Rat
import Mathlib.Algebra.BigOperators.Field
import Mathlib.Algebra.BigOperators.Ring.Finset
import Mathlib.Algebra.BigOperators.Group.Finset.Sigma
import Mathlib.Algebra.Order.BigOperators.Group.Finset
import Mathlib.Tactic.Ring
import Mathlib.Tactic.FieldSimp
import Mathlib.Tactic.Linarith

namespace Verif.C16
open Verif.Py

/-! ## Viterbi -/


namespace Score
@[simp] theorem fin_le_fin (a b : Rat) : (fin a ≤ fin b) ↔ a ≤ b := Iff.rfl
@[simp] theorem ninf_le (a : Score) : ninf ≤ a := by cases a <;> trivial
@[simp] theorem fin_le_ninf (a : Rat) : ¬ (fin a ≤ ninf) := fun h => h
@[simp] theorem fin_add_fin (a b : Rat) : fin a + fin b = fin (a + b) := rfl
@[simp] theorem ninf_add (a : Score) : ninf + a = ninf := rfl
@[simp] theorem add_ninf (a : Score) : a + ninf = ninf := by cases a <;> rfl

theorem le_refl' (a : Score) : a ≤ a := by
  cases a <;> simp
theorem le_trans' (a b c : Score) : a ≤ b → b ≤ c → a ≤ c := by
  cases a <;> cases b <;> cases c <;> simp; exact le_trans
theorem le_total' (a b : Score) : a ≤ b ∨ b ≤ a := by
  cases a <;> cases b <;> simp; exact le_total _ _
theorem add_le_add_right' (a b c : Score) : a ≤ b → a + c ≤ b + c := by
  cases a <;> cases b <;> cases c <;> simp
end Score

theorem getD_tab {α} (n : Nat) (f : Nat → α) (j : Nat) (d : α) (h : j < n) :
    (tab n f).getD j d = f j := by
  simp [tab, List.getD_eq_getElem?_getD, h]

theorem length_tab {α} (n : Nat) (f : Nat → α) : (tab n f).length = n := by simp [tab]

theorem atS_tab (k : Nat) (f : Nat → Score) (j : Nat) (h : j ≤ k) : atS (tab (k + 1) f) j = f j :=
  getD_tab _ _ _ _ (by omega)
theorem atN_tab (k : Nat) (f : Nat → Nat) (j : Nat) (h : j ≤ k) : atN (tab (k + 1) f) j = f j :=
  getD_tab _ _ _ _ (by omega)

theorem argmax_le (f : Nat → Score) : ∀ n, argmaxUpTo f n ≤ n
  | 0 => Nat.le_refl 0
  | n + 1 => by
    have ih := argmax_le f n
    simp only [argmaxUpTo]
    split <;> omega

theorem argmax_max (f : Nat → Score) : ∀ n i, i ≤ n → f i ≤ f (argmaxUpTo f n)
  | 0, i, h => by
    have : i = 0 := by omega
    subst this; exact Score.le_refl' _
  | n + 1, i, h => by
    simp only [argmaxUpTo]
    by_cases hc : f (n + 1) ≤ f (argmaxUpTo f n)
    · simp only [hc, if_true]
      by_cases hi : i ≤ n
      · exact argmax_max f n i hi
      · have : i = n + 1 := by omega
        subst this; exact hc
    · simp only [hc, if_false]
      by_cases hi : i ≤ n
      · have h1 := argmax_max f n i hi
        have h2 : f (argmaxUpTo f n) ≤ f (n + 1) := by
          rcases Score.le_total' (f (n+1)) (f (argmaxUpTo f n)) with h | h
          · exact absurd h hc
          · exact h
        exact Score.le_trans' _ _ _ h1 h2
      · have : i = n + 1 := by omega
        subst this; exact Score.le_refl' _

/-- Invariant carried by the forward pass. `Bd` = processed observations, latest first. -/
def Inv (k : Nat) (logPi : Nat → Score) (logA : Nat → Nat → Score)
    (Bd : List (Nat → Score)) (delta : List Score) (psis : List (List Nat)) : Prop :=
  ∀ j, j ≤ k →
    (backtrackR psis j).length = Bd.length ∧
    (∀ s ∈ backtrackR psis j, s ≤ k) ∧
    (backtrackR psis j).head? = some j ∧
    scoreR logPi logA Bd (backtrackR psis j) = some (atS delta j) ∧
    ∀ q, q.length = Bd.length → (∀ s ∈ q, s ≤ k) → q.head? = some j →
      ∃ v, scoreR logPi logA Bd q = some v ∧ v ≤ atS delta j

theorem inv_base (k : Nat) (logPi : Nat → Score) (logA : Nat → Nat → Score) (b0 : Nat → Score) :
    Inv k logPi logA [b0] (tab (k + 1) (fun j => logPi j + b0 j)) [] := by
  intro j hj
  rw [atS_tab _ _ _ hj]
  refine ⟨rfl, ?_, rfl, rfl, ?_⟩
  · intro s hs; simp [backtrackR] at hs; omega
  · intro q hlen _ hhead
    match q, hlen, hhead with
    | [s], _, hh =>
      simp at hh; subst hh
      exact ⟨_, rfl, Score.le_refl' _⟩

theorem inv_step (k : Nat) (logPi : Nat → Score) (logA : Nat → Nat → Score)
    (Bd : List (Nat → Score)) (hBd : Bd ≠ []) (delta : List Score) (psis : List (List Nat))
    (b : Nat → Score) (h : Inv k logPi logA Bd delta psis) :
    Inv k logPi logA (b :: Bd) (tab (k + 1) (stepDelta k logA (atS delta) b))
      (tab (k + 1) (psiOf k logA (atS delta)) :: psis) := by
  intro j hj
  have hpsi : psiOf k logA (atS delta) j ≤ k := argmax_le _ _
  obtain ⟨hlen, hmem, hhead, hsc, hopt⟩ := h (psiOf k logA (atS delta) j) hpsi
  rw [atS_tab _ _ _ hj]
  have hbt : backtrackR (tab (k + 1) (psiOf k logA (atS delta)) :: psis) j
      = j :: backtrackR psis (psiOf k logA (atS delta) j) := by
    simp only [backtrackR, atN_tab _ _ _ hj]
  rw [hbt]
  refine ⟨by simp [hlen], ?_, rfl, ?_, ?_⟩
  · intro s hs
    simp only [List.mem_cons] at hs
    rcases hs with rfl | hs
    · exact hj
    · exact hmem s hs
  · cases hbt2 : backtrackR psis (psiOf k logA (atS delta) j) with
    | nil => rw [hbt2] at hhead; simp at hhead
    | cons s' ss =>
      rw [hbt2] at hhead hsc
      simp at hhead; subst hhead
      simp only [scoreR, hsc, stepDelta]
  · intro q hqlen hqmem hqhead
    match q, hqlen, hqhead with
    | [s], hl, _ =>
      exfalso; apply hBd
      cases Bd with
      | nil => rfl
      | cons _ _ => simp at hl
    | s :: s' :: ss, hl, hh =>
      simp at hh; subst hh
      have hs'k : s' ≤ k := hqmem s' (by simp)
      obtain ⟨_, _, _, _, hopt'⟩ := h s' hs'k
      obtain ⟨v, hv, hvle⟩ := hopt' (s' :: ss) (by simpa using hl)
        (fun x hx => hqmem x (List.mem_cons_of_mem _ hx)) rfl
      refine ⟨v + logA s' s + b s, by simp [scoreR, hv], ?_⟩
      have h1 : v + logA s' s ≤ atS delta s' + logA s' s := Score.add_le_add_right' _ _ _ hvle
      have h2 : atS delta s' + logA s' s ≤
          atS delta (psiOf k logA (atS delta) s) + logA (psiOf k logA (atS delta) s) s :=
        argmax_max (fun i => atS delta i + logA i s) k s' hs'k
      exact Score.add_le_add_right' _ _ _ (Score.le_trans' _ _ _ h1 h2)

theorem inv_forward (k : Nat) (logPi : Nat → Score) (logA : Nat → Nat → Score) :
    ∀ (bs : List (List Score)) (Bd : List (Nat → Score)) (_ : Bd ≠ []) (delta : List Score)
      (psis : List (List Nat)),
      Inv k logPi logA Bd delta psis →
      Inv k logPi logA ((bs.map atS).reverse ++ Bd) (vforward k logA delta bs psis).1
        (vforward k logA delta bs psis).2
  | [], Bd, _, delta, psis, h => by simpa [vforward] using h
  | b :: bs, Bd, hBd, delta, psis, h => by
    have := inv_forward k logPi logA bs (atS b :: Bd) (by simp) _ _
      (inv_step k logPi logA Bd hBd delta psis (atS b) h)
    simpa [vforward, List.reverse_cons, List.append_assoc] using this

/-- **Viterbi is optimal**. -/
theorem viterbi_optimal_aux (k : Nat) (logPi : List Score) (logA : List (List Score))
    (B : List (List Score)) (hB : B ≠ []) (q : List Nat) (hq : q.length = B.length)
    (hqk : ∀ s ∈ q, s ≤ k) :
    ∃ v w, score logPi logA B q = some v ∧
      score logPi logA B (viterbi k logPi logA B) = some w ∧ v ≤ w ∧
      (viterbi k logPi logA B).length = B.length ∧ ∀ s ∈ viterbi k logPi logA B, s ≤ k := by
  match B, hB with
  | b0 :: bs, _ =>
    have hinv := inv_forward k (atS logPi) (fun i j => atS (logA.getD i []) j) bs [atS b0] (by simp) _ []
      (inv_base k (atS logPi) _ (atS b0))
    generalize hr : vforward k (fun i j => atS (logA.getD i []) j)
      (tab (k + 1) (fun j => atS logPi j + atS b0 j)) bs [] = r at hinv
    have hjm : argmaxUpTo (atS r.1) k ≤ k := argmax_le _ _
    obtain ⟨hlen, hmem, _, hsc, _⟩ := hinv (argmaxUpTo (atS r.1) k) hjm
    have hqr_len : q.reverse.length = ((bs.map atS).reverse ++ [atS b0]).length := by simp [hq]
    have hqne : q.reverse ≠ [] := by
      intro h; rw [h] at hqr_len; simp at hqr_len
    obtain ⟨j, tl, hjt⟩ := List.exists_cons_of_ne_nil hqne
    have hjk : j ≤ k := hqk j (by
      have : j ∈ q.reverse := by rw [hjt]; simp
      simpa using this)
    obtain ⟨_, _, _, _, hopt⟩ := hinv j hjk
    obtain ⟨v, hv, hvle⟩ := hopt q.reverse hqr_len (fun s hs => hqk s (by simpa using hs)) (by rw [hjt]; rfl)
    refine ⟨v, atS r.1 (argmaxUpTo (atS r.1) k), ?_, ?_, ?_, ?_, ?_⟩
    · simpa [score, List.reverse_cons] using hv
    · simp only [score, viterbi, hr, List.reverse_reverse, List.map_cons, List.reverse_cons]
      exact hsc
    · exact Score.le_trans' _ _ _ hvle (argmax_max (atS r.1) k j hjk)
    · simp only [viterbi, hr, List.length_reverse]; simpa using hlen
    · intro s hs
      simp only [viterbi, hr, List.mem_reverse] at hs
      exact hmem s hs


/-! ## Dwell extraction -/


def ind (s x : Int) : Int := if x = s then 1 else 0

def D (s : Int) (i : Nat) (pm : Int) (p : List Int) : List Nat :=
  argwhereFrom i (diff (pm :: (p.map (ind s) ++ [0])))

theorem maskOf_padded (s : Int) (path : List Int) :
    maskOf s (padded path) = 0 :: (path.map (ind s) ++ [0]) := by
  simp [maskOf, padded, ind, Function.comp_def]

theorem D_nil (s : Int) (i : Nat) (pm : Int) : D s i pm [] = if 0 - pm ≠ 0 then [i] else [] := by
  simp only [D, List.map_nil, List.nil_append, diff, argwhereFrom]

theorem D_cons (s : Int) (i : Nat) (pm x : Int) (xs : List Int) :
    D s i pm (x :: xs) = if ind s x - pm ≠ 0 then i :: D s (i + 1) (ind s x) xs else D s (i + 1) (ind s x) xs := by
  simp only [D, List.map_cons, List.cons_append, diff, argwhereFrom]

def flat (rs : List Run) : List Nat := rs.flatMap (fun r => [r.start, r.stop])
def sRuns (s : Int) (rs : List Run) : List Run := rs.filter (fun r => r.state = s)

theorem rleFrom_cons_head (i : Nat) (x : Int) (xs : List Int) :
    ∃ b rest, rleFrom i (x :: xs) = ⟨x, i, b⟩ :: rest := by
  simp only [rleFrom]
  cases rleFrom (i + 1) xs with
  | nil => exact ⟨_, _, rfl⟩
  | cons r rs =>
    by_cases h : r.state = x
    · simp only [h, if_true]; exact ⟨_, _, rfl⟩
    · simp only [h, if_false]; exact ⟨_, _, rfl⟩

theorem sRuns_skip (s : Int) (i : Nat) (x : Int) (xs : List Int) (hx : x ≠ s) :
    sRuns s (rleFrom i (x :: xs)) = sRuns s (rleFrom (i + 1) xs) := by
  simp only [rleFrom]
  cases rleFrom (i + 1) xs with
  | nil => simp [sRuns, hx]
  | cons r rs =>
    by_cases h : r.state = x
    · simp only [h, if_true]
      have : r.state ≠ s := by rw [h]; exact hx
      simp [sRuns, hx, this]
    · simp only [h, if_false]
      simp [sRuns, hx]

theorem D_spec (s : Int) : ∀ (p : List Int) (i : Nat),
    D s i 0 p = flat (sRuns s (rleFrom i p)) ∧
    i :: D s (i + 1) 1 p = flat (sRuns s (rleFrom i (s :: p)))
  | [], i => by
    constructor
    · simp [D_nil, rleFrom, sRuns, flat]
    · simp [D_nil, rleFrom, sRuns, flat]
  | x :: xs, i => by
    have ih1 := D_spec s xs
    by_cases hx : x = s
    · subst hx
      have h2 : i :: D x (i + 1) 1 xs = flat (sRuns x (rleFrom i (x :: xs))) := (ih1 i).2
      constructor
      · rw [D_cons]; simp only [ind, if_true]
        simpa using h2
      · rw [D_cons]; simp only [ind, if_true]
        have h3 := (ih1 (i + 1)).2
        obtain ⟨b, rest, hb⟩ := rleFrom_cons_head (i + 1) x xs
        rw [hb] at h3
        have e : rleFrom i (x :: x :: xs) = ⟨x, i, b⟩ :: rest := by
          rw [rleFrom, hb]; simp
        rw [e]
        simp only [sRuns, flat, List.filter_cons, decide_true, if_true, List.flatMap_cons,
          List.cons_append, List.nil_append, List.cons.injEq, true_and] at h3 ⊢
        simpa using h3
    · have hi : ind s x = 0 := by simp [ind, hx]
      constructor
      · rw [D_cons, hi]; simp only [sub_self, ne_eq, not_true_eq_false, if_false]
        rw [(ih1 (i + 1)).1, sRuns_skip s i x xs hx]
      · rw [D_cons, hi]
        simp only [zero_sub, ne_eq, neg_eq_zero, one_ne_zero, not_false_eq_true, if_true]
        rw [(ih1 (i + 2)).1]
        obtain ⟨b, rest, hb⟩ := rleFrom_cons_head (i + 1) x xs
        have e : rleFrom i (s :: x :: xs) = ⟨s, i, i + 1⟩ :: rleFrom (i + 1) (x :: xs) := by
          rw [rleFrom, hb]; simp [hx]
        rw [e]
        have := sRuns_skip s (i + 1) x xs hx
        simp only [sRuns, flat, List.filter_cons, decide_true, if_true, List.flatMap_cons,
          List.cons_append, List.nil_append] at this ⊢
        rw [this]


theorem pairUp_flat (rs : List Run) : pairUp (flat rs) = some (rs.map Run.range) := by
  induction rs with
  | nil => rfl
  | cons r rs ih =>
    simp only [flat, List.flatMap_cons, List.cons_append, List.nil_append, pairUp] at ih ⊢
    rw [ih]; rfl

theorem dwellRanges_false (path : List Int) (s : Int) :
    dwellRanges path false s = some ((sRuns s (rle path)).map Run.range) := by
  unfold dwellRanges
  rw [maskOf_padded]
  have := (D_spec s path 0).1
  unfold D at this
  rw [this, pairUp_flat]
  rfl

theorem contig_rleFrom : ∀ (p : List Int) (i : Nat), Contig i (i + p.length) (rleFrom i p)
  | [], i => by simp [rleFrom, Contig]
  | x :: xs, i => by
    have ih := contig_rleFrom xs (i + 1)
    simp only [rleFrom]
    cases h : rleFrom (i + 1) xs with
    | nil =>
      rw [h] at ih
      simp only [Contig] at ih ⊢
      simp only [List.length_cons]
      exact ⟨trivial, by omega, by omega⟩
    | cons r rs =>
      rw [h] at ih
      simp only [Contig] at ih
      by_cases hs : r.state = x
      · simp only [hs, if_true, Contig, List.length_cons]
        refine ⟨trivial, by omega, ?_⟩
        have := ih.2.2
        rwa [show i + 1 + xs.length = i + (xs.length + 1) by omega] at this
      · simp only [hs, if_false, Contig, List.length_cons]
        refine ⟨trivial, by omega, by omega, ih.2.1, ?_⟩
        have := ih.2.2
        rwa [show i + 1 + xs.length = i + (xs.length + 1) by omega] at this


theorem contig_mem : ∀ (R : List Run) (i n : Nat), Contig i n R →
    ∀ r ∈ R, i ≤ r.start ∧ r.start < r.stop ∧ r.stop ≤ n
  | [], _, _, _ => by simp
  | a :: R, i, n, h => by
    simp only [Contig] at h
    obtain ⟨h1, h2, h3⟩ := h
    intro r hr
    simp only [List.mem_cons] at hr
    rcases hr with rfl | hr
    · refine ⟨by omega, h2, ?_⟩
      cases R with
      | nil => simp only [Contig] at h3; omega
      | cons b R' =>
        have := contig_mem (b :: R') _ _ h3 b (by simp)
        omega
    · have := contig_mem R _ _ h3 r hr
      omega

theorem contig_le : ∀ (R : List Run) (i n : Nat), Contig i n R → i ≤ n
  | [], _, _, h => by simp only [Contig] at h; omega
  | a :: R, i, n, h => by
    have := contig_mem (a :: R) i n h a (by simp)
    omega

theorem contig_concat : ∀ (init : List Run) (l : Run) (i n : Nat), Contig i n (init ++ [l]) →
    l.stop = n ∧ ∀ r ∈ init, r.stop < n
  | [], l, i, n, h => by
    simp only [List.nil_append, Contig] at h
    exact ⟨h.2.2, by simp⟩
  | a :: init, l, i, n, h => by
    simp only [List.cons_append, Contig] at h
    obtain ⟨_, h2, h3⟩ := h
    have ih := contig_concat init l _ _ h3
    refine ⟨ih.1, ?_⟩
    intro r hr
    simp only [List.mem_cons] at hr
    rcases hr with rfl | hr
    · have := contig_mem _ _ _ h3 l (by simp)
      omega
    · exact ih.2 r hr

theorem pyNorm_len (n : Nat) : pyNorm n (n : Int) = n := by
  unfold pyNorm; rw [if_neg (by omega)]; simp
theorem pyNorm_neg_one (n : Nat) : pyNorm n (-1) = n - 1 := by
  unfold pyNorm; rw [if_pos (by omega)]; split <;> omega
theorem pyNorm_zero (n : Nat) : pyNorm n 0 = 0 := by
  unfold pyNorm; simp
theorem pyNorm_one (n : Nat) : pyNorm n 1 = min 1 n := by
  unfold pyNorm; simp

theorem pySliceOpt_excl {α} (l : List α) (c1 c2 : Prop) [Decidable c1] [Decidable c2] :
    pySliceOpt l (some (if c1 then 1 else 0)) (if c2 then some (-1) else none)
      = (if c2 then l.dropLast else l).drop (if c1 then 1 else 0) := by
  by_cases h1 : c1 <;> by_cases h2 : c2 <;>
    simp only [h1, h2, pySliceOpt, pySlice, Option.getD_some, Option.getD_none, pyNorm_len, pyNorm_neg_one,
      pyNorm_zero, pyNorm_one, List.take_length, List.drop_zero, if_true, if_false,
      List.dropLast_eq_take]
  · cases l with
    | nil => simp
    | cons a t => cases t <;> simp
  · cases l <;> simp

theorem sRuns_ne_nil_of_mem (s : Int) : ∀ (p : List Int) (i : Nat), s ∈ p → sRuns s (rleFrom i p) ≠ []
  | [], _, h => by simp at h
  | x :: xs, i, h => by
    by_cases hx : x = s
    · subst hx
      obtain ⟨b, rest, hb⟩ := rleFrom_cons_head i x xs
      rw [hb]; simp [sRuns]
    · rw [sRuns_skip s i x xs hx]
      exact sRuns_ne_nil_of_mem s xs (i + 1) (by
        simp only [List.mem_cons] at h
        rcases h with h | h
        · exact absurd h.symm hx
        · exact h)

theorem head?_map_filter_pos (s : Int) (mid : List Run) (hA : ∀ r ∈ mid, 0 < r.start)
    (first : Nat × Nat) (hf : ((sRuns s mid).map Run.range).head? = some first) : first.1 ≠ 0 := by
  have := List.mem_of_mem_head? (by rw [hf]; rfl : first ∈ ((sRuns s mid).map Run.range).head?)
  simp only [List.mem_map, sRuns, List.mem_filter] at this
  obtain ⟨r, ⟨hr, _⟩, rfl⟩ := this
  have := hA r hr
  simp only [Run.range]; omega

theorem excl_two (s : Int) (n : Nat) (h : Run) (mid : List Run) (l : Run)
    (hc : Contig 0 n (h :: (mid ++ [l]))) (hne : sRuns s (h :: (mid ++ [l])) ≠ []) :
    (match ((sRuns s (h :: (mid ++ [l]))).map Run.range).head?,
        ((sRuns s (h :: (mid ++ [l]))).map Run.range).getLast? with
      | some first, some last =>
        some (pySliceOpt ((sRuns s (h :: (mid ++ [l]))).map Run.range) (some (if first.1 = 0 then 1 else 0))
          (if last.2 = n then some (-1) else none))
      | _, _ => none) = some ((sRuns s (h :: (mid ++ [l])).tail.dropLast).map Run.range) := by
  have hA : ∀ r ∈ mid ++ [l], 0 < r.start := by
    intro r hr
    simp only [Contig] at hc
    have := contig_mem _ _ _ hc.2.2 r hr
    omega
  have hB := contig_concat (h :: mid) l 0 n (by simpa using hc)
  have h0 : h.start = 0 := by simp only [Contig] at hc; exact hc.1
  have hspec : (sRuns s (h :: (mid ++ [l])).tail.dropLast) = sRuns s mid := by simp
  rw [hspec]
  generalize hL : (sRuns s (h :: (mid ++ [l]))).map Run.range = L
  have hLne : L ≠ [] := by rw [← hL]; simpa using hne
  obtain ⟨first, hfirst⟩ : ∃ f, L.head? = some f := by
    cases L with
    | nil => exact absurd rfl hLne
    | cons a t => exact ⟨a, rfl⟩
  obtain ⟨last, hlast⟩ : ∃ f, L.getLast? = some f := by
    cases hh : L.getLast? with
    | none => rw [List.getLast?_eq_none_iff] at hh; exact absurd hh hLne
    | some a => exact ⟨a, rfl⟩
  rw [hfirst, hlast]
  simp only [pySliceOpt_excl]
  have hM1 : ∀ f, ((sRuns s mid).map Run.range).head? = some f → f.1 ≠ 0 :=
    head?_map_filter_pos s mid (fun r hr => hA r (by simp [hr]))
  have hM2 : ∀ f, ((sRuns s mid).map Run.range).getLast? = some f → f.2 ≠ n := by
    intro f hf
    have := List.mem_of_mem_getLast? (by rw [hf]; rfl : f ∈ ((sRuns s mid).map Run.range).getLast?)
    simp only [List.mem_map, sRuns, List.mem_filter] at this
    obtain ⟨r, ⟨hr, _⟩, rfl⟩ := this
    have := hB.2 r (by simp [hr])
    simp only [Run.range]; omega
  have hl0 : l.start ≠ 0 := by have := hA l (by simp); omega
  have hhn : h.stop ≠ n := by have := hB.2 h (by simp); omega
  generalize hMdef : (sRuns s mid).map Run.range = M at hM1 hM2
  have hLeq : L = (if h.state = s then [h.range] else []) ++ M ++ (if l.state = s then [l.range] else []) := by
    rw [← hL, ← hMdef]
    by_cases ph : h.state = s <;> by_cases pl : l.state = s <;> simp [sRuns, ph, pl, List.filter_append]
  by_cases ph : h.state = s <;> by_cases pl : l.state = s <;>
    simp only [ph, pl, if_true, if_false, List.nil_append, List.append_nil, List.cons_append] at hLeq <;>
    subst hLeq
  · rw [← List.cons_append, List.getLast?_concat] at hlast
    simp at hfirst hlast
    subst hfirst; subst hlast
    have e : (h.range :: (M ++ [l.range])).dropLast = h.range :: M := by
      rw [← List.cons_append, List.dropLast_concat]
    simp [Run.range, h0, hB.1] at e ⊢
    rw [e]; rfl
  · simp at hfirst
    subst hfirst
    have : last.2 ≠ n := by
      cases M with
      | nil => simp at hlast; subst hlast; simpa [Run.range] using hhn
      | cons a t => exact hM2 last (by simpa using hlast)
    simp [Run.range, h0, this]
  · rw [List.getLast?_concat] at hlast
    simp at hlast
    subst hlast
    have : first.1 ≠ 0 := by
      cases M with
      | nil => simp at hfirst; subst hfirst; simpa [Run.range] using hl0
      | cons a t => exact hM1 first (by simpa using hfirst)
    simp [Run.range, hB.1, this]
  · have h1 := hM1 first hfirst
    have h2 := hM2 last hlast
    simp [h1, h2]

theorem excl_list (s : Int) (n : Nat) (R : List Run) (hc : Contig 0 n R) (hne : sRuns s R ≠ []) :
    (match ((sRuns s R).map Run.range).head?, ((sRuns s R).map Run.range).getLast? with
      | some first, some last =>
        some (pySliceOpt ((sRuns s R).map Run.range) (some (if first.1 = 0 then 1 else 0))
          (if last.2 = n then some (-1) else none))
      | _, _ => none) = some ((sRuns s R.tail.dropLast).map Run.range) := by
  cases R with
  | nil => simp [sRuns] at hne
  | cons h tl =>
    rcases List.eq_nil_or_concat tl with rfl | ⟨mid, l, htl⟩
    rotate_left
    · rw [List.concat_eq_append] at htl; subst htl
      exact excl_two s n h mid l hc hne
    · -- a single run
      simp only [Contig] at hc
      have hs : h.state = s := by
        by_contra hh; simp [sRuns, hh] at hne
      simp [sRuns, hs, Run.range, hc.1, hc.2.2, pySliceOpt, pySlice, pyNorm]


/-! ## Forward–backward -/
section fb
open Finset


theorem atR_tab (K : Nat) (f : Nat → Rat) (j : Nat) (h : j < K) : atR (tab K f) j = f j :=
  getD_tab _ _ _ _ h

theorem sumK_eq (K : Nat) (f : Nat → Rat) : sumK K f = ∑ i ∈ range K, f i := by
  unfold sumK
  induction K with
  | zero => simp
  | succ n ih => rw [List.range_succ, List.map_append, List.sum_append, ih, Finset.sum_range_succ]; simp

theorem sumK_congr (K : Nat) (f g : Nat → Rat) (h : ∀ i, i < K → f i = g i) : sumK K f = sumK K g := by
  rw [sumK_eq, sumK_eq]
  exact Finset.sum_congr rfl (fun i hi => h i (Finset.mem_range.mp hi))

theorem sumK_atR_tab (K : Nat) (f : Nat → Rat) : sumK K (atR (tab K f)) = sumK K f :=
  sumK_congr _ _ _ (fun i hi => atR_tab K f i hi)

/-! ### normalisation step -/

theorem normStep_c (K : Nat) (a b : Vec) : (normStep K a b).c = sumK K (atR a) := rfl
theorem normStep_b (K : Nat) (a b : Vec) : (normStep K a b).b = b := rfl
theorem normStep_alpha (K : Nat) (a b : Vec) (j : Nat) (hj : j < K) :
    atR (normStep K a b).alpha j = atR a j / (normStep K a b).c := by
  simp only [normStep]; rw [atR_tab _ _ _ hj]

theorem normStep_mul (K : Nat) (a b : Vec) (hc : (normStep K a b).c ≠ 0) (j : Nat) (hj : j < K) :
    atR (normStep K a b).alpha j * (normStep K a b).c = atR a j := by
  rw [normStep_alpha K a b j hj]; field_simp

theorem normStep_sum (K : Nat) (a b : Vec) (hc : (normStep K a b).c ≠ 0) :
    sumK K (atR (normStep K a b).alpha) = 1 := by
  rw [sumK_congr K _ (fun j => atR a j / (normStep K a b).c) (fun j hj => normStep_alpha K a b j hj)]
  rw [sumK_eq, ← Finset.sum_div, ← sumK_eq, ← normStep_c K a b]
  exact div_self hc

theorem fwdStep_mul (K : Nat) (A : Nat → Nat → Rat) (prev b : Vec) (hc : (fwdStep K A prev b).c ≠ 0)
    (j : Nat) (hj : j < K) :
    atR (fwdStep K A prev b).alpha j * (fwdStep K A prev b).c
      = sumK K (fun i => atR prev i * A i j) * atR b j := by
  unfold fwdStep at hc ⊢
  rw [normStep_mul K _ _ hc j hj, atR_tab _ _ _ hj]

theorem fwdStep_b (K : Nat) (A : Nat → Nat → Rat) (prev b : Vec) : (fwdStep K A prev b).b = b := rfl

/-! ### γ is normalised -/

theorem smooth_gamma (K : Nat) (A : Nat → Nat → Rat) : ∀ (bs : List Vec) (s : Step),
    sumK K (atR s.alpha) = 1 → (∀ s' ∈ fwdFrom K A s.alpha bs, s'.c ≠ 0) →
    sumK K (fun i => atR s.alpha i * atR (smooth K A s (fwdFrom K A s.alpha bs)).1 i) = 1 ∧
    ∀ g ∈ (smooth K A s (fwdFrom K A s.alpha bs)).2.1, sumK K (atR g) = 1
  | [], s, hs, _ => by
    have e : sumK K (fun i => atR s.alpha i * atR (tab K (fun _ => (1 : Rat))) i) = 1 := by
      refine Eq.trans (sumK_congr _ _ _ ?_) hs
      intro i hi; rw [atR_tab _ _ _ hi]; ring
    refine ⟨by simpa [fwdFrom, smooth] using e, ?_⟩
    intro g hg
    simp only [fwdFrom, smooth, List.mem_singleton] at hg
    subst hg
    simp only [had]; rw [sumK_atR_tab]; exact e
  | b :: bs, s, hs, hc => by
    simp only [fwdFrom] at hc ⊢
    have hc' : (fwdStep K A s.alpha b).c ≠ 0 := hc _ (by simp)
    have hs' : sumK K (atR (fwdStep K A s.alpha b).alpha) = 1 := normStep_sum K _ _ hc'
    obtain ⟨ih1, ih2⟩ := smooth_gamma K A bs (fwdStep K A s.alpha b) hs'
      (fun x hx => hc x (by simp [hx]))
    simp only [smooth]
    generalize hr : smooth K A (fwdStep K A s.alpha b) (fwdFrom K A (fwdStep K A s.alpha b).alpha bs) = r
      at ih1 ih2 ⊢
    have key : sumK K (fun i => atR s.alpha i * atR (backStep K A (fwdStep K A s.alpha b) r.1) i) = 1 := by
      refine Eq.trans ?_ ih1
      have e1 : ∀ i, i < K → atR s.alpha i * atR (backStep K A (fwdStep K A s.alpha b) r.1) i
          = (∑ j ∈ range K, atR s.alpha i * A i j * atR b j * atR r.1 j) / (fwdStep K A s.alpha b).c := by
        intro i hi
        simp only [backStep]; rw [atR_tab _ _ _ hi, sumK_eq, fwdStep_b, mul_div_assoc', Finset.mul_sum]
        congr 1; apply Finset.sum_congr rfl; intro j _; ring
      rw [sumK_congr K _ _ e1, sumK_eq, ← Finset.sum_div, Finset.sum_comm, sumK_eq]
      rw [div_eq_iff hc']
      rw [Finset.sum_mul]
      apply Finset.sum_congr rfl
      intro j hj
      have := fwdStep_mul K A s.alpha b hc' j (Finset.mem_range.mp hj)
      rw [sumK_eq] at this
      calc ∑ i ∈ range K, atR s.alpha i * A i j * atR b j * atR r.1 j
          = (∑ i ∈ range K, atR s.alpha i * A i j) * atR b j * atR r.1 j := by
            rw [Finset.sum_mul, Finset.sum_mul]
        _ = atR (fwdStep K A s.alpha b).alpha j * atR r.1 j * (fwdStep K A s.alpha b).c := by
            rw [← this]; ring
    refine ⟨key, ?_⟩
    intro g hg
    simp only [List.mem_cons] at hg
    rcases hg with rfl | hg
    · simp only [had]; rw [sumK_atR_tab]; exact key
    · exact ih2 g hg


/-! ### ξ row sums are γ -/

theorem rowSums_xiOf (K : Nat) (A : Nat → Nat → Rat) (al : Vec) (s' : Step) (nb : Vec) :
    rowSums K (xiOf K A al s' nb) = had K al (backStep K A s' nb) := by
  simp only [rowSums, had, tab]
  apply List.map_congr_left
  intro i hi
  have hi : i < K := by simpa using hi
  simp only [xiOf]
  rw [getD_tab _ _ _ _ hi, sumK_atR_tab, backStep, atR_tab _ _ _ hi, sumK_eq, sumK_eq, mul_div_assoc',
    Finset.mul_sum, Finset.sum_div]
  apply Finset.sum_congr rfl; intro j _; ring

theorem smooth_gammas_ne_nil (K : Nat) (A : Nat → Nat → Rat) (s : Step) (rest : List Step) :
    (smooth K A s rest).2.1 ≠ [] := by
  cases rest <;> simp [smooth]

theorem fwdFrom_length (K : Nat) (A : Nat → Nat → Rat) : ∀ (bs : List Vec) (prev : Vec),
    (fwdFrom K A prev bs).length = bs.length
  | [], _ => rfl
  | b :: bs, prev => by simp [fwdFrom, fwdFrom_length K A bs]

theorem smooth_length (K : Nat) (A : Nat → Nat → Rat) : ∀ (rest : List Step) (s : Step),
    (smooth K A s rest).2.1.length = rest.length + 1
  | [], s => by simp [smooth]
  | s' :: rest, s => by simp [smooth, smooth_length K A rest s']

theorem smooth_gammas_length (K : Nat) (A : Nat → Nat → Rat) (bs : List Vec) (s : Step) :
    (smooth K A s (fwdFrom K A s.alpha bs)).2.1.length = (s.b :: bs).length := by
  rw [smooth_length, fwdFrom_length]; rfl

theorem smooth_xi (K : Nat) (A : Nat → Nat → Rat) : ∀ (rest : List Step) (s : Step),
    (smooth K A s rest).2.2.map (rowSums K) = (smooth K A s rest).2.1.dropLast
  | [], s => by simp [smooth]
  | s' :: rest, s => by
    simp only [smooth, List.map_cons]
    rw [List.dropLast_cons_of_ne_nil (smooth_gammas_ne_nil K A s' rest), rowSums_xiOf,
      smooth_xi K A rest s']

/-! ### likelihood -/

/-- nested-sum form of the sum over all continuations from state `i` -/
def sufSum (K : Nat) (A : Nat → Nat → Rat) : Nat → List Vec → Rat
  | _, [] => 1
  | i, b :: bs => sumK K (fun j => A i j * atR b j * sufSum K A j bs)

theorem sum_map_flatMap {α β} (L : List α) (f : α → List β) (g : β → Rat) :
    ((L.flatMap f).map g).sum = (L.map (fun x => ((f x).map g).sum)).sum := by
  induction L with
  | nil => simp
  | cons a L ih => simp [List.flatMap_cons, List.map_append, List.sum_append, ih]

theorem sum_map_mul_left (L : List (List Nat)) (c : Rat) (g : List Nat → Rat) :
    (L.map (fun q => c * g q)).sum = c * (L.map g).sum := by
  induction L with
  | nil => simp
  | cons a L ih => simp [ih, mul_add]

theorem sufSum_paths (K : Nat) (A : Nat → Nat → Rat) : ∀ (bs : List Vec) (i : Nat),
    sufSum K A i bs = ((allPaths K bs.length).map (wFrom A i bs)).sum
  | [], i => by simp [sufSum, allPaths, wFrom]
  | b :: bs, i => by
    simp only [sufSum, List.length_cons, allPaths, sum_map_flatMap, List.map_map, sumK]
    congr 1
    apply List.map_congr_left
    intro j _
    rw [sufSum_paths K A bs j, ← sum_map_mul_left]
    congr 1

theorem fwd_likelihood (K : Nat) (A : Nat → Nat → Rat) : ∀ (bs : List Vec) (prev : Vec),
    sumK K (atR prev) = 1 → (∀ s' ∈ fwdFrom K A prev bs, s'.c ≠ 0) →
    prodL ((fwdFrom K A prev bs).map (·.c)) = sumK K (fun i => atR prev i * sufSum K A i bs)
  | [], prev, hs, _ => by
    simp only [fwdFrom, List.map_nil, prodL, sufSum, mul_one]; exact hs.symm
  | b :: bs, prev, hs, hc => by
    simp only [fwdFrom] at hc ⊢
    have hc' : (fwdStep K A prev b).c ≠ 0 := hc _ (by simp)
    have hs' : sumK K (atR (fwdStep K A prev b).alpha) = 1 := normStep_sum K _ _ hc'
    have ih := fwd_likelihood K A bs (fwdStep K A prev b).alpha hs' (fun x hx => hc x (by simp [hx]))
    simp only [List.map_cons, prodL, ih, sufSum]
    rw [sumK_eq, sumK_eq, Finset.mul_sum]
    have e1 : ∀ i ∈ range K, atR prev i * sumK K (fun j => A i j * atR b j * sufSum K A j bs)
        = ∑ j ∈ range K, atR prev i * A i j * atR b j * sufSum K A j bs := by
      intro i _; rw [sumK_eq, Finset.mul_sum]; apply Finset.sum_congr rfl; intro j _; ring
    rw [Finset.sum_congr rfl e1, Finset.sum_comm]
    apply Finset.sum_congr rfl
    intro j hj
    have := fwdStep_mul K A prev b hc' j (Finset.mem_range.mp hj)
    rw [sumK_eq] at this
    calc (fwdStep K A prev b).c * (atR (fwdStep K A prev b).alpha j * sufSum K A j bs)
        = (atR (fwdStep K A prev b).alpha j * (fwdStep K A prev b).c) * sufSum K A j bs := by ring
      _ = (∑ i ∈ range K, atR prev i * A i j) * atR b j * sufSum K A j bs := by rw [this]
      _ = ∑ i ∈ range K, atR prev i * A i j * atR b j * sufSum K A j bs := by
          rw [Finset.sum_mul, Finset.sum_mul]

theorem likelihood_paths (K : Nat) (pi : Nat → Rat) (A : Nat → Nat → Rat) (b0 : Vec) (bs : List Vec)
    (hc0 : (initStep K pi b0).c ≠ 0)
    (hc : ∀ s' ∈ fwdFrom K A (initStep K pi b0).alpha bs, s'.c ≠ 0) :
    prodL (((initStep K pi b0) :: fwdFrom K A (initStep K pi b0).alpha bs).map (·.c))
      = likelihoodSpec K pi A (b0 :: bs) := by
  have hs : sumK K (atR (initStep K pi b0).alpha) = 1 := normStep_sum K _ _ hc0
  simp only [List.map_cons, prodL, fwd_likelihood K A bs _ hs hc]
  simp only [likelihoodSpec, List.length_cons, allPaths, sum_map_flatMap, List.map_map]
  rw [sumK_eq, Finset.mul_sum, ← sumK_eq]
  unfold sumK
  congr 1
  apply List.map_congr_left
  intro j hj
  have hj : j < K := by simpa using hj
  have := normStep_mul K _ b0 hc0 j hj
  unfold initStep at hc0 ⊢
  rw [atR_tab _ _ _ hj] at this
  rw [sufSum_paths, ← sum_map_mul_left]
  rw [← sum_map_mul_left]
  congr 1
  apply List.map_congr_left
  intro q _
  simp only [Function.comp, joint]
  rw [← this]; ring


end fb

/-! ## further facts: run-length encoding, `np.unique`, the M-step -/

theorem adjDiff_rleFrom : ∀ (p : List Int) (i : Nat), AdjDiff (rleFrom i p)
  | [], i => by simp [rleFrom, AdjDiff]
  | x :: xs, i => by
    have ih := adjDiff_rleFrom xs (i + 1)
    simp only [rleFrom]
    cases h : rleFrom (i + 1) xs with
    | nil => simp [AdjDiff]
    | cons r rs =>
      rw [h] at ih
      by_cases hs : r.state = x
      · simp only [hs, if_true]
        cases rs with
        | nil => simp [AdjDiff]
        | cons r' rs' =>
          simp only [AdjDiff] at ih ⊢
          exact ⟨by rw [← hs]; exact ih.1, ih.2⟩
      · simp only [hs, if_false, AdjDiff]
        exact ⟨fun e => hs e.symm, ih⟩

theorem expand_rleFrom : ∀ (p : List Int) (i : Nat), expand (rleFrom i p) = p
  | [], i => by simp [rleFrom, expand]
  | x :: xs, i => by
    have ih := expand_rleFrom xs (i + 1)
    have hc := contig_rleFrom xs (i + 1)
    simp only [rleFrom]
    cases h : rleFrom (i + 1) xs with
    | nil =>
      rw [h] at ih
      simp only [expand, List.flatMap_nil] at ih
      subst ih
      simp [expand]
    | cons r rs =>
      rw [h] at ih hc
      simp only [Contig] at hc
      by_cases hs : r.state = x
      · simp only [hs, if_true]
        simp only [expand, List.flatMap_cons] at ih ⊢
        rw [← ih, hs]
        have : r.stop - i = (r.stop - r.start) + 1 := by omega
        rw [this, List.replicate_succ]; rfl
      · simp only [hs, if_false]
        simp only [expand, List.flatMap_cons] at ih ⊢
        rw [ih]; simp

theorem mem_insertU (x y : Int) : ∀ l : List Int, y ∈ insertU x l ↔ y = x ∨ y ∈ l
  | [] => by simp [insertU]
  | a :: l => by
    simp only [insertU]
    split
    · simp
    · split
      · rename_i h; subst h; simp
      · simp only [List.mem_cons, mem_insertU x y l]
        constructor
        · rintro (h | h | h) <;> simp [h]
        · rintro (h | h | h) <;> simp [h]

theorem mem_uniq (y : Int) : ∀ l : List Int, y ∈ uniq l ↔ y ∈ l
  | [] => by simp [uniq]
  | a :: l => by
    have := mem_uniq y l
    simp only [uniq, List.foldr_cons] at this ⊢
    rw [mem_insertU, this]; simp

theorem mapM_some {α β} (f : α → Option β) (g : α → β) :
    ∀ l : List α, (∀ x ∈ l, f x = some (g x)) → l.mapM f = some (l.map g)
  | [], _ => rfl
  | a :: l, h => by
    rw [List.mapM_cons, h a (by simp), mapM_some f g l (fun x hx => h x (by simp [hx]))]
    rfl

section upd
open Finset

theorem sumK_sumT {α} (K : Nat) (L : List α) (f : α → Nat → Rat) :
    sumK K (fun j => sumT L (fun x => f x j)) = sumT L (fun x => sumK K (f x)) := by
  induction L with
  | nil => simp [sumT, sumK_eq]
  | cons a L ih =>
    simp only [sumT, List.map_cons, List.sum_cons] at ih ⊢
    rw [← ih, sumK_eq, sumK_eq, sumK_eq, Finset.sum_add_distrib]

theorem updA_row_sum (K : Nat) (gammas : List Vec) (xis : List (List Vec))
    (hx : xis.map (rowSums K) = gammas.dropLast) (i : Nat) (hi : i < K)
    (hD : sumT gammas.dropLast (fun g => atR g i) ≠ 0) :
    sumK K (atR ((updA K gammas xis).getD i [])) = 1 := by
  simp only [updA]
  rw [getD_tab _ _ _ _ hi, sumK_atR_tab, sumK_eq, ← Finset.sum_div, ← sumK_eq, sumK_sumT]
  rw [div_eq_one_iff_eq hD, ← hx]
  simp only [sumT, List.map_map]
  congr 1
  apply List.map_congr_left
  intro x _
  simp only [Function.comp, rowSums]
  rw [atR_tab _ _ _ hi]
end upd


/-! ## the tiling in index terms -/

theorem contig_cover : ∀ (R : List Run) (a n : Nat), Contig a n R → ∀ i, a ≤ i → i < n →
    ∃ r ∈ R, r.start ≤ i ∧ i < r.stop
  | [], a, n, h, i, h1, h2 => by simp only [Contig] at h; omega
  | r :: R, a, n, h, i, h1, h2 => by
    simp only [Contig] at h
    by_cases hi : i < r.stop
    · exact ⟨r, by simp, by omega, hi⟩
    · obtain ⟨r', hr', h'⟩ := contig_cover R r.stop n h.2.2 i (by omega) h2
      exact ⟨r', by simp [hr'], h'⟩

theorem contig_pairwise : ∀ (R : List Run) (a n : Nat), Contig a n R →
    R.Pairwise (fun r r' => r.stop ≤ r'.start)
  | [], _, _, _ => List.Pairwise.nil
  | r :: R, a, n, h => by
    simp only [Contig] at h
    refine List.Pairwise.cons ?_ (contig_pairwise R _ _ h.2.2)
    intro r' hr'
    exact (contig_mem R _ _ h.2.2 r' hr').1

theorem contig_constant : ∀ (R : List Run) (a n : Nat), Contig a n R →
    ∀ r ∈ R, ∀ i, r.start ≤ i → i < r.stop → (expand R)[i - a]? = some r.state
  | [], _, _, _, r, hr, _, _, _ => by simp at hr
  | r0 :: R, a, n, h, r, hr, i, h1, h2 => by
    simp only [Contig] at h
    simp only [expand, List.flatMap_cons]
    simp only [List.mem_cons] at hr
    rcases hr with rfl | hr
    · rw [List.getElem?_append_left (by simp; omega)]
      simp [List.getElem?_replicate]; omega
    · have hm := contig_mem R _ _ h.2.2 r hr
      rw [List.getElem?_append_right (by simp; omega)]
      have := contig_constant R r0.stop n h.2.2 r hr i h1 h2
      simp only [expand] at this
      rw [← this]
      congr 1
      simp; omega


/-! ## exactness of the posteriors: prefix × suffix decomposition of the path sum -/
section exact
open Finset

/-- sum over the continuations `q` from state `prev` with `q[t] = i`, nested-sum form -/
def wPin (K : Nat) (A : Nat → Nat → Rat) (i : Nat) : Nat → Nat → List Vec → Rat
  | _, _, [] => 0
  | 0, prev, b :: bs => A prev i * atR b i * sufSum K A i bs
  | t + 1, prev, b :: bs => sumK K (fun j => A prev j * atR b j * wPin K A i t j bs)

theorem sumK_ite (K : Nat) (i : Nat) (hi : i < K) (f : Nat → Rat) :
    sumK K (fun j => if j = i then f j else 0) = f i := by
  rw [sumK_eq, Finset.sum_ite_eq' (range K) i f]; simp [hi]

theorem filter_cons_zero (L : List (List Nat)) (j i : Nat) :
    (L.map (j :: ·)).filter (fun q => q[0]? = some i) = if j = i then L.map (j :: ·) else [] := by
  by_cases h : j = i <;> simp [List.filter_map, Function.comp_def, h]

theorem filter_cons_succ (L : List (List Nat)) (j i t : Nat) :
    (L.map (j :: ·)).filter (fun q => q[t + 1]? = some i)
      = (L.filter (fun q => q[t]? = some i)).map (j :: ·) := by
  simp [List.filter_map, Function.comp_def]

theorem wPin_paths (K : Nat) (A : Nat → Nat → Rat) (i : Nat) (hi : i < K) :
    ∀ (bs : List Vec) (t prev : Nat),
    wPin K A i t prev bs
      = (((allPaths K bs.length).filter (fun q => q[t]? = some i)).map (wFrom A prev bs)).sum
  | [], t, prev => by simp [wPin, allPaths]
  | b :: bs, 0, prev => by
    simp only [wPin, List.length_cons, allPaths, List.filter_flatMap, sum_map_flatMap, filter_cons_zero]
    rw [← sumK_ite K i hi (fun _ => A prev i * atR b i * sufSum K A i bs)]
    unfold sumK
    congr 1
    apply List.map_congr_left
    intro j _
    by_cases hj : j = i
    · subst hj
      simp only [if_true, List.map_map]
      rw [sufSum_paths, ← sum_map_mul_left]; rfl
    · simp [hj]
  | b :: bs, t + 1, prev => by
    simp only [wPin, List.length_cons, allPaths, List.filter_flatMap, sum_map_flatMap, filter_cons_succ,
      sumK]
    congr 1
    apply List.map_congr_left
    intro j _
    rw [wPin_paths K A i hi bs t j, ← sum_map_mul_left, List.map_map]
    rfl


/-- `β̂_t(i) · Π_{u>t} c_u` is the sum over all continuations from state `i`. -/
theorem beta_suffix (K : Nat) (A : Nat → Nat → Rat) : ∀ (bs : List Vec) (s : Step),
    (∀ s' ∈ fwdFrom K A s.alpha bs, s'.c ≠ 0) → ∀ i, i < K →
    atR (smooth K A s (fwdFrom K A s.alpha bs)).1 i * prodL ((fwdFrom K A s.alpha bs).map (·.c))
      = sufSum K A i bs
  | [], s, _, i, hi => by simp [fwdFrom, smooth, prodL, sufSum, atR_tab _ _ _ hi]
  | b :: bs, s, hc, i, hi => by
    simp only [fwdFrom] at hc ⊢
    have hc' : (fwdStep K A s.alpha b).c ≠ 0 := hc _ (by simp)
    have ih := beta_suffix K A bs (fwdStep K A s.alpha b) (fun x hx => hc x (by simp [hx]))
    simp only [smooth, List.map_cons, prodL, sufSum, backStep]
    rw [atR_tab _ _ _ hi, sumK_eq, sumK_eq, fwdStep_b, div_mul_eq_mul_div, mul_comm (fwdStep K A s.alpha b).c,
      ← mul_assoc, mul_div_assoc, div_self hc', mul_one, Finset.sum_mul]
    apply Finset.sum_congr rfl
    intro j hj
    rw [← ih j (Finset.mem_range.mp hj)]; ring

/-- the `γ` rows belonging to the steps `fwdFrom K A prev bs` -/
def chainGammas (K : Nat) (A : Nat → Nat → Rat) (prev : Vec) (bs : List Vec) : List Vec :=
  match fwdFrom K A prev bs with
  | [] => []
  | s' :: rest => (smooth K A s' rest).2.1

theorem smooth_gammas_cons (K : Nat) (A : Nat → Nat → Rat) (s : Step) (bs : List Vec) :
    (smooth K A s (fwdFrom K A s.alpha bs)).2.1
      = had K s.alpha (smooth K A s (fwdFrom K A s.alpha bs)).1 :: chainGammas K A s.alpha bs := by
  cases bs with
  | nil => simp [fwdFrom, smooth, chainGammas]
  | cons b r => simp [fwdFrom, smooth, chainGammas]

theorem chain_gamma_exact (K : Nat) (A : Nat → Nat → Rat) (i : Nat) (hi : i < K) :
    ∀ (bs : List Vec) (prev : Vec) (t : Nat), t < bs.length →
    (∀ s' ∈ fwdFrom K A prev bs, s'.c ≠ 0) →
    sumK K (fun p => atR prev p * wPin K A i t p bs)
      = atR ((chainGammas K A prev bs).getD t []) i * prodL ((fwdFrom K A prev bs).map (·.c))
  | [], _, _, ht, _ => by simp at ht
  | b :: bs, prev, t, ht, hc => by
    simp only [fwdFrom] at hc
    have hc' : (fwdStep K A prev b).c ≠ 0 := hc _ (by simp)
    have hrest : ∀ s' ∈ fwdFrom K A (fwdStep K A prev b).alpha bs, s'.c ≠ 0 := fun x hx => hc x (by simp [hx])
    have hcg : chainGammas K A prev (b :: bs)
        = had K (fwdStep K A prev b).alpha (smooth K A (fwdStep K A prev b)
            (fwdFrom K A (fwdStep K A prev b).alpha bs)).1 :: chainGammas K A (fwdStep K A prev b).alpha bs := by
      simp only [chainGammas, fwdFrom]
      exact smooth_gammas_cons K A (fwdStep K A prev b) bs
    rw [hcg]
    simp only [fwdFrom, List.map_cons, prodL]
    have hmul := fun j (hj : j < K) => fwdStep_mul K A prev b hc' j hj
    cases t with
    | zero =>
      simp only [wPin, List.getD_cons_zero, had]
      rw [atR_tab _ _ _ hi]
      have e := beta_suffix K A bs (fwdStep K A prev b) hrest i hi
      have h1 := hmul i hi
      rw [sumK_eq] at h1
      rw [sumK_eq]
      calc ∑ p ∈ range K, atR prev p * (A p i * atR b i * sufSum K A i bs)
          = (∑ p ∈ range K, atR prev p * A p i) * atR b i * sufSum K A i bs := by
            rw [Finset.sum_mul, Finset.sum_mul]; apply Finset.sum_congr rfl; intro p _; ring
        _ = _ := by rw [← h1, ← e]; ring
    | succ t =>
      simp only [wPin, List.getD_cons_succ]
      have ih := chain_gamma_exact K A i hi bs (fwdStep K A prev b).alpha t (by simpa using ht) hrest
      rw [← mul_assoc, mul_comm _ (fwdStep K A prev b).c, mul_assoc, ← ih]
      rw [sumK_eq, sumK_eq, Finset.mul_sum]
      have e1 : ∀ p ∈ range K, atR prev p * sumK K (fun j => A p j * atR b j * wPin K A i t j bs)
          = ∑ j ∈ range K, atR prev p * A p j * atR b j * wPin K A i t j bs := by
        intro p _; rw [sumK_eq, Finset.mul_sum]; apply Finset.sum_congr rfl; intro j _; ring
      rw [Finset.sum_congr rfl e1, Finset.sum_comm]
      apply Finset.sum_congr rfl
      intro j hj
      have h1 := hmul j (Finset.mem_range.mp hj)
      rw [sumK_eq] at h1
      calc ∑ p ∈ range K, atR prev p * A p j * atR b j * wPin K A i t j bs
          = (∑ p ∈ range K, atR prev p * A p j) * atR b j * wPin K A i t j bs := by
            rw [Finset.sum_mul, Finset.sum_mul]
        _ = _ := by rw [← h1]; ring


theorem gamma_exact_aux (K : Nat) (pi : Nat → Rat) (A : Nat → Nat → Rat) (b0 : Vec) (bs : List Vec)
    (hc0 : (initStep K pi b0).c ≠ 0)
    (hc : ∀ s' ∈ fwdFrom K A (initStep K pi b0).alpha bs, s'.c ≠ 0)
    (t : Nat) (ht : t < (b0 :: bs).length) (i : Nat) (hi : i < K) :
    atR ((smooth K A (initStep K pi b0) (fwdFrom K A (initStep K pi b0).alpha bs)).2.1.getD t []) i
      * prodL (((initStep K pi b0) :: fwdFrom K A (initStep K pi b0).alpha bs).map (·.c))
      = pinnedSpec K pi A (b0 :: bs) t i := by
  rw [smooth_gammas_cons]
  simp only [List.map_cons, prodL, pinnedSpec, List.length_cons, allPaths, List.filter_flatMap,
    sum_map_flatMap]
  have hmul : ∀ j, j < K → atR (initStep K pi b0).alpha j * (initStep K pi b0).c = pi j * atR b0 j := by
    intro j hj
    have := normStep_mul K _ b0 hc0 j hj
    rw [atR_tab _ _ _ hj] at this
    exact this
  cases t with
  | zero =>
    simp only [List.getD_cons_zero, had, filter_cons_zero]
    rw [atR_tab _ _ _ hi]
    have e := beta_suffix K A bs (initStep K pi b0) hc i hi
    have lhs : atR (initStep K pi b0).alpha i
        * atR (smooth K A (initStep K pi b0) (fwdFrom K A (initStep K pi b0).alpha bs)).1 i
        * ((initStep K pi b0).c * prodL (List.map (fun x => x.c) (fwdFrom K A (initStep K pi b0).alpha bs)))
        = pi i * atR b0 i * sufSum K A i bs := by
      rw [← e, ← hmul i hi]; ring
    rw [lhs, ← sumK_ite K i hi (fun _ => pi i * atR b0 i * sufSum K A i bs)]
    unfold sumK
    congr 1
    apply List.map_congr_left
    intro j _
    by_cases hj : j = i
    · subst hj
      simp only [if_true, List.map_map]
      rw [sufSum_paths, ← sum_map_mul_left]; rfl
    · simp [hj]
  | succ t =>
    simp only [List.getD_cons_succ, filter_cons_succ]
    have ih := chain_gamma_exact K A i hi bs (initStep K pi b0).alpha t (by simpa using ht) hc
    rw [← mul_assoc, mul_comm _ (initStep K pi b0).c, mul_assoc, ← ih, sumK_eq, Finset.mul_sum, ← sumK_eq]
    unfold sumK
    congr 1
    apply List.map_congr_left
    intro j hj
    have hj : j < K := by simpa using hj
    rw [List.map_map, wPin_paths K A i hi bs t j, ← mul_assoc, mul_comm (initStep K pi b0).c, hmul j hj,
      ← sum_map_mul_left]
    rfl


/-! ### ξ -/

/-- sum over the continuations `q` from `prev` with `q[t] = i` and `q[t+1] = j`, nested-sum form -/
def wPin2 (K : Nat) (A : Nat → Nat → Rat) (i j : Nat) : Nat → Nat → List Vec → Rat
  | _, _, [] => 0
  | 0, prev, b :: bs => A prev i * atR b i * wPin K A j 0 i bs
  | t + 1, prev, b :: bs => sumK K (fun k => A prev k * atR b k * wPin2 K A i j t k bs)

theorem filter_cons_zero2 (L : List (List Nat)) (k i j : Nat) :
    (L.map (k :: ·)).filter (fun q => q[0]? = some i ∧ q[1]? = some j)
      = if k = i then (L.filter (fun q => q[0]? = some j)).map (k :: ·) else [] := by
  by_cases h : k = i <;> simp [List.filter_map, Function.comp_def, h]

theorem filter_cons_succ2 (L : List (List Nat)) (k i j t : Nat) :
    (L.map (k :: ·)).filter (fun q => q[t + 1]? = some i ∧ q[t + 1 + 1]? = some j)
      = (L.filter (fun q => q[t]? = some i ∧ q[t + 1]? = some j)).map (k :: ·) := by
  simp [List.filter_map, Function.comp_def]

theorem wPin2_paths (K : Nat) (A : Nat → Nat → Rat) (i j : Nat) (hi : i < K) (hj : j < K) :
    ∀ (bs : List Vec) (t prev : Nat),
    wPin2 K A i j t prev bs
      = (((allPaths K bs.length).filter (fun q => q[t]? = some i ∧ q[t + 1]? = some j)).map
          (wFrom A prev bs)).sum
  | [], t, prev => by simp [wPin2, allPaths]
  | b :: bs, 0, prev => by
    simp only [wPin2, List.length_cons, allPaths, List.filter_flatMap, sum_map_flatMap, filter_cons_zero2,
      Nat.zero_add]
    rw [← sumK_ite K i hi (fun _ => A prev i * atR b i * wPin K A j 0 i bs)]
    unfold sumK
    congr 1
    apply List.map_congr_left
    intro k _
    by_cases hk : k = i
    · subst hk
      simp only [if_true, List.map_map]
      rw [wPin_paths K A j hj bs 0 k, ← sum_map_mul_left]; rfl
    · simp [hk]
  | b :: bs, t + 1, prev => by
    simp only [wPin2, List.length_cons, allPaths, List.filter_flatMap, sum_map_flatMap, filter_cons_succ2,
      sumK]
    congr 1
    apply List.map_congr_left
    intro k _
    rw [wPin2_paths K A i j hi hj bs t k, ← sum_map_mul_left, List.map_map]
    rfl

/-- the `ξ` matrices belonging to the steps `fwdFrom K A prev bs` -/
def chainXis (K : Nat) (A : Nat → Nat → Rat) (prev : Vec) (bs : List Vec) : List (List Vec) :=
  match fwdFrom K A prev bs with
  | [] => []
  | s' :: rest => (smooth K A s' rest).2.2

theorem smooth_xis_cons (K : Nat) (A : Nat → Nat → Rat) (s : Step) (b : Vec) (bs : List Vec) :
    (smooth K A s (fwdFrom K A s.alpha (b :: bs))).2.2
      = xiOf K A s.alpha (fwdStep K A s.alpha b)
          (smooth K A (fwdStep K A s.alpha b) (fwdFrom K A (fwdStep K A s.alpha b).alpha bs)).1
        :: chainXis K A s.alpha (b :: bs) := by
  simp [fwdFrom, smooth, chainXis]

theorem atR_xiOf (K : Nat) (A : Nat → Nat → Rat) (al : Vec) (s' : Step) (nb : Vec) (i j : Nat)
    (hi : i < K) (hj : j < K) :
    atR ((xiOf K A al s' nb).getD i []) j = atR al i * A i j * atR s'.b j * atR nb j / s'.c := by
  simp only [xiOf]; rw [getD_tab _ _ _ _ hi, atR_tab _ _ _ hj]

theorem chain_xi_exact (K : Nat) (A : Nat → Nat → Rat) (i j : Nat) (hi : i < K) (hj : j < K) :
    ∀ (bs : List Vec) (prev : Vec) (t : Nat), t + 1 < bs.length →
    (∀ s' ∈ fwdFrom K A prev bs, s'.c ≠ 0) →
    sumK K (fun p => atR prev p * wPin2 K A i j t p bs)
      = atR (((chainXis K A prev bs).getD t []).getD i []) j * prodL ((fwdFrom K A prev bs).map (·.c))
  | [], _, _, ht, _ => by simp at ht
  | [_], _, _, ht, _ => by simp at ht
  | b :: b2 :: r2, prev, t, ht, hc => by
    simp only [fwdFrom] at hc
    have hc' : (fwdStep K A prev b).c ≠ 0 := hc _ (by simp)
    have hrest : ∀ s' ∈ fwdFrom K A (fwdStep K A prev b).alpha (b2 :: r2), s'.c ≠ 0 :=
      fun x hx => hc x (by simp only [fwdFrom] at hx; simp [hx])
    have hcx : chainXis K A prev (b :: b2 :: r2)
        = xiOf K A (fwdStep K A prev b).alpha (fwdStep K A (fwdStep K A prev b).alpha b2)
            (smooth K A (fwdStep K A (fwdStep K A prev b).alpha b2)
              (fwdFrom K A (fwdStep K A (fwdStep K A prev b).alpha b2).alpha r2)).1
          :: chainXis K A (fwdStep K A prev b).alpha (b2 :: r2) := by
      simp only [chainXis, fwdFrom, smooth]
    rw [hcx]
    have hmul := fun k (hk : k < K) => fwdStep_mul K A prev b hc' k hk
    cases t with
    | zero =>
      simp only [wPin2, wPin, List.getD_cons_zero, fwdFrom, List.map_cons, prodL]
      rw [atR_xiOf K A _ _ _ i j hi hj, fwdStep_b]
      have hc2 : (fwdStep K A (fwdStep K A prev b).alpha b2).c ≠ 0 := hc _ (by simp)
      have e := beta_suffix K A r2 (fwdStep K A (fwdStep K A prev b).alpha b2)
        (fun x hx => hc x (by simp [hx])) j hj
      have h1 := hmul i hi
      rw [sumK_eq] at h1
      rw [sumK_eq]
      calc ∑ p ∈ range K, atR prev p * (A p i * atR b i * (A i j * atR b2 j * sufSum K A j r2))
          = (∑ p ∈ range K, atR prev p * A p i) * atR b i * (A i j * atR b2 j * sufSum K A j r2) := by
            rw [Finset.sum_mul, Finset.sum_mul]; apply Finset.sum_congr rfl; intro p _; ring
        _ = _ := by rw [← h1, ← e]; field_simp
    | succ t =>
      simp only [wPin2, List.getD_cons_succ]
      have ih := chain_xi_exact K A i j hi hj (b2 :: r2) (fwdStep K A prev b).alpha t (by simpa using ht) hrest
      have hp : prodL ((fwdFrom K A prev (b :: b2 :: r2)).map (·.c))
          = (fwdStep K A prev b).c * prodL ((fwdFrom K A (fwdStep K A prev b).alpha (b2 :: r2)).map (·.c)) := by
        simp only [fwdFrom, List.map_cons, prodL]
      rw [hp, ← mul_assoc, mul_comm _ (fwdStep K A prev b).c, mul_assoc, ← ih]
      rw [sumK_eq, sumK_eq, Finset.mul_sum]
      have e1 : ∀ p ∈ range K, atR prev p * sumK K (fun k => A p k * atR b k * wPin2 K A i j t k (b2 :: r2))
          = ∑ k ∈ range K, atR prev p * A p k * atR b k * wPin2 K A i j t k (b2 :: r2) := by
        intro p _; rw [sumK_eq, Finset.mul_sum]; apply Finset.sum_congr rfl; intro k _; ring
      rw [Finset.sum_congr rfl e1, Finset.sum_comm]
      apply Finset.sum_congr rfl
      intro k hk
      have h1 := hmul k (Finset.mem_range.mp hk)
      rw [sumK_eq] at h1
      calc ∑ p ∈ range K, atR prev p * A p k * atR b k * wPin2 K A i j t k (b2 :: r2)
          = (∑ p ∈ range K, atR prev p * A p k) * atR b k * wPin2 K A i j t k (b2 :: r2) := by
            rw [Finset.sum_mul, Finset.sum_mul]
        _ = _ := by rw [← h1]; ring


theorem xi_exact_aux (K : Nat) (pi : Nat → Rat) (A : Nat → Nat → Rat) (b0 : Vec) (bs : List Vec)
    (hc0 : (initStep K pi b0).c ≠ 0)
    (hc : ∀ s' ∈ fwdFrom K A (initStep K pi b0).alpha bs, s'.c ≠ 0)
    (t : Nat) (ht : t + 1 < (b0 :: bs).length) (i j : Nat) (hi : i < K) (hj : j < K) :
    atR (((smooth K A (initStep K pi b0) (fwdFrom K A (initStep K pi b0).alpha bs)).2.2.getD t []).getD i []) j
      * prodL (((initStep K pi b0) :: fwdFrom K A (initStep K pi b0).alpha bs).map (·.c))
      = pinned2Spec K pi A (b0 :: bs) t i j := by
  cases bs with
  | nil => simp at ht
  | cons b1 r1 =>
    rw [smooth_xis_cons]
    simp only [List.map_cons, prodL, pinned2Spec, List.length_cons, allPaths, List.filter_flatMap,
      sum_map_flatMap]
    have hmul : ∀ k, k < K → atR (initStep K pi b0).alpha k * (initStep K pi b0).c = pi k * atR b0 k := by
      intro k hk
      have := normStep_mul K _ b0 hc0 k hk
      rw [atR_tab _ _ _ hk] at this
      exact this
    cases t with
    | zero =>
      simp only [List.getD_cons_zero, filter_cons_zero2, Nat.zero_add]
      rw [atR_xiOf K A _ _ _ i j hi hj, fwdStep_b]
      simp only [fwdFrom] at hc
      have hc1 : (fwdStep K A (initStep K pi b0).alpha b1).c ≠ 0 := hc _ (by simp)
      have e := beta_suffix K A r1 (fwdStep K A (initStep K pi b0).alpha b1)
        (fun x hx => hc x (by simp [hx])) j hj
      have lhs : atR (initStep K pi b0).alpha i * A i j * atR b1 j
          * atR (smooth K A (fwdStep K A (initStep K pi b0).alpha b1)
              (fwdFrom K A (fwdStep K A (initStep K pi b0).alpha b1).alpha r1)).1 j
          / (fwdStep K A (initStep K pi b0).alpha b1).c
          * ((initStep K pi b0).c * prodL (List.map (fun x => x.c)
              (fwdFrom K A (initStep K pi b0).alpha (b1 :: r1))))
          = pi i * atR b0 i * wPin K A j 0 i (b1 :: r1) := by
        simp only [fwdFrom, List.map_cons, prodL, wPin]
        rw [← e, ← hmul i hi]; field_simp
      rw [lhs, ← sumK_ite K i hi (fun _ => pi i * atR b0 i * wPin K A j 0 i (b1 :: r1))]
      unfold sumK
      congr 1
      apply List.map_congr_left
      intro k _
      by_cases hk : k = i
      · subst hk
        simp only [if_true, List.map_map]
        rw [wPin_paths K A j hj (b1 :: r1) 0 k, ← sum_map_mul_left]; rfl
      · simp [hk]
    | succ t =>
      simp only [List.getD_cons_succ, filter_cons_succ2]
      have ih := chain_xi_exact K A i j hi hj (b1 :: r1) (initStep K pi b0).alpha t (by simpa using ht) hc
      rw [← mul_assoc, mul_comm _ (initStep K pi b0).c, mul_assoc, ← ih, sumK_eq, Finset.mul_sum, ← sumK_eq]
      unfold sumK
      congr 1
      apply List.map_congr_left
      intro k hk
      have hk : k < K := by simpa using hk
      rw [List.map_map, wPin2_paths K A i j hi hj (b1 :: r1) t k, ← mul_assoc, mul_comm (initStep K pi b0).c,
        hmul k hk, ← sum_map_mul_left]
      rfl


end exact

/-! ### Deepening round D: conservation of samples by dwell extraction -/

theorem insertU_lt (x : Int) : ∀ l : List Int, l.Pairwise (· < ·) → (insertU x l).Pairwise (· < ·)
  | [], _ => by simp [insertU]
  | y :: ys, h => by
    have hy := List.pairwise_cons.mp h
    simp only [insertU]
    by_cases h1 : x < y
    · rw [if_pos h1]
      refine List.pairwise_cons.mpr ⟨?_, h⟩
      intro z hz
      simp only [List.mem_cons] at hz
      rcases hz with rfl | hz
      · exact h1
      · exact Int.lt_trans h1 (hy.1 z hz)
    · rw [if_neg h1]
      by_cases h2 : x = y
      · rw [if_pos h2]; exact h
      · rw [if_neg h2]
        refine List.pairwise_cons.mpr ⟨?_, insertU_lt x ys hy.2⟩
        intro z hz
        rcases (mem_insertU x z ys).mp hz with rfl | hz
        · omega
        · exact hy.1 z hz

theorem uniq_lt : ∀ l : List Int, (uniq l).Pairwise (· < ·)
  | [] => by simp [uniq]
  | x :: xs => by
    have := insertU_lt x (uniq xs) (uniq_lt xs)
    simpa [uniq] using this

theorem uniq_nodup (l : List Int) : (uniq l).Nodup :=
  (uniq_lt l).imp (fun h => Int.ne_of_lt h)

theorem sum_ite_nodup (w : Int) (k : Int) : ∀ U : List Int, U.Nodup → k ∈ U →
    (U.map (fun s => if k = s then w else 0)).sum = w
  | [], _, h => by simp at h
  | u :: us, hn, h => by
    have hn' := List.nodup_cons.mp hn
    simp only [List.map_cons, List.sum_cons]
    by_cases hk : k = u
    · subst hk
      rw [if_pos rfl]
      have : (us.map (fun s => if k = s then w else 0)).sum = 0 := by
        apply List.sum_eq_zero
        intro x hx
        obtain ⟨s, hs, rfl⟩ := List.mem_map.mp hx
        rw [if_neg]; rintro rfl; exact hn'.1 hs
      omega
    · rw [if_neg hk]
      have hmem : k ∈ us := by
        simp only [List.mem_cons] at h; rcases h with h | h
        · exact absurd h hk
        · exact h
      rw [sum_ite_nodup w k us hn'.2 hmem]; omega

/-- regrouping a sum over runs by state -/
theorem sum_by_state (U : List Int) (hU : U.Nodup) : ∀ R : List Run, (∀ r ∈ R, r.state ∈ U) →
    (U.map (fun s => ((R.filter (fun r => r.state = s)).map Run.len).sum)).sum = (R.map Run.len).sum
  | [], _ => by simp
  | r :: rs, h => by
    have ih := sum_by_state U hU rs (fun x hx => h x (by simp [hx]))
    have e : ∀ s, (((r :: rs).filter (fun r => r.state = s)).map Run.len).sum
        = (if r.state = s then r.len else 0) + ((rs.filter (fun r => r.state = s)).map Run.len).sum := by
      intro s
      by_cases hs : r.state = s
      · rw [List.filter_cons_of_pos (by simpa using hs), if_pos hs]; simp
      · rw [List.filter_cons_of_neg (by simpa using hs), if_neg hs]; simp
    simp only [e]
    rw [List.sum_map_add, ih, sum_ite_nodup r.len r.state U hU (h r (by simp))]
    simp

theorem contig_sum_len : ∀ (R : List Run) (i n : Nat), Contig i n R → (R.map Run.len).sum = (n : Int) - i
  | [], i, n, h => by simp only [Contig] at h; subst h; simp
  | r :: R, i, n, h => by
    simp only [Contig] at h
    have := contig_sum_len R r.stop n h.2.2
    simp only [List.map_cons, List.sum_cons, this, Run.len]
    omega

theorem dwellCounts_sum (l : List Run) : (dwellCounts (l.map Run.range)).sum = (l.map Run.len).sum := by
  simp only [dwellCounts, List.map_map]
  rfl

theorem rle_state_mem (path : List Int) : ∀ r ∈ rle path, r.state ∈ path := by
  intro r hr
  have hc : Contig 0 path.length (rle path) := by simpa [rle] using contig_rleFrom path 0
  have hm := contig_mem _ _ _ hc r hr
  have := contig_constant _ _ _ hc r hr r.start (Nat.le_refl _) hm.2.1
  have he : expand (rle path) = path := expand_rleFrom path 0
  rw [he, Nat.sub_zero] at this
  exact List.mem_of_getElem? this


/-! ### Deepening round D: the `isfinite` assertion -/

theorem mapM_id_some : ∀ p : List Int, (p.map some).mapM id = some p
  | [] => rfl
  | x :: xs => by
    simp only [List.map_cons, List.mapM_cons, id_eq]
    rw [mapM_id_some xs]; rfl

theorem mapM_id_none : ∀ path : List (Option Int), none ∈ path → path.mapM id = none
  | [], h => by simp at h
  | none :: xs, _ => by simp [List.mapM_cons]
  | some x :: xs, h => by
    have h' : none ∈ xs := by simpa using h
    simp only [List.mapM_cons, id_eq]
    rw [mapM_id_none xs h']; rfl

theorem all_some_or_none : ∀ path : List (Option Int), (∃ p : List Int, path = p.map some) ∨ none ∈ path
  | [] => Or.inl ⟨[], rfl⟩
  | none :: xs => Or.inr (by simp)
  | some x :: xs => by
    rcases all_some_or_none xs with ⟨p, rfl⟩ | h
    · exact Or.inl ⟨x :: p, rfl⟩
    · exact Or.inr (by simp [h])


/-! ### Deepening round D: positivity (the code establishes `c_t ≠ 0`) -/

section pos
open Finset

theorem sumK_nonneg (K : Nat) (f : Nat → Rat) (h : ∀ i, i < K → 0 ≤ f i) : 0 ≤ sumK K f := by
  rw [sumK_eq]; exact Finset.sum_nonneg (fun i hi => h i (Finset.mem_range.mp hi))

/-- weights `u ≥ 0` with a positive total against strictly positive `b`: the weighted sum is positive -/
theorem sumK_mul_pos (K : Nat) (u b : Nat → Rat) (hu : ∀ j, j < K → 0 ≤ u j)
    (hb : ∀ j, j < K → 0 < b j) (hs : 0 < sumK K u) : 0 < sumK K (fun j => u j * b j) := by
  rw [sumK_eq] at hs ⊢
  have hex : ∃ j ∈ range K, 0 < u j := by
    by_contra hne
    have : ∑ j ∈ range K, u j ≤ 0 :=
      Finset.sum_nonpos (fun j hj => not_lt.mp (fun h => hne ⟨j, hj, h⟩))
    exact absurd hs (not_lt.mpr this)
  obtain ⟨j, hj, hpos⟩ := hex
  exact Finset.sum_pos' (fun i hi => mul_nonneg (hu i (mem_range.mp hi)) (hb i (mem_range.mp hi)).le)
    ⟨j, hj, mul_pos hpos (hb j (mem_range.mp hj))⟩

/-- A forward step as the code leaves it for a model with probability weights and positive emissions. -/
def GoodStep (K : Nat) (s : Step) : Prop :=
  0 < s.c ∧ (∀ j, j < K → 0 ≤ atR s.alpha j) ∧ (∀ j, j < K → 0 < atR s.b j)

theorem normStep_good (K : Nat) (a b : Vec) (ha : ∀ j, j < K → 0 ≤ atR a j)
    (hc : 0 < sumK K (atR a)) (hb : ∀ j, j < K → 0 < atR b j) :
    GoodStep K (normStep K a b) ∧ sumK K (atR (normStep K a b).alpha) = 1 ∧
      ∀ j, j < K → 0 < atR a j → 0 < atR (normStep K a b).alpha j := by
  have hc' : 0 < (normStep K a b).c := hc
  refine ⟨⟨hc', ?_, hb⟩, normStep_sum K a b (ne_of_gt hc'), ?_⟩
  · intro j hj; rw [normStep_alpha K a b j hj]; exact div_nonneg (ha j hj) hc'.le
  · intro j hj h; rw [normStep_alpha K a b j hj]; exact div_pos h hc'

theorem initStep_good (K : Nat) (pi : Nat → Rat) (b0 : Vec) (hpi : ∀ i, i < K → 0 ≤ pi i)
    (hs : 0 < sumK K pi) (hb : ∀ j, j < K → 0 < atR b0 j) :
    GoodStep K (initStep K pi b0) ∧ sumK K (atR (initStep K pi b0).alpha) = 1 ∧
      ∀ j, j < K → 0 < pi j → 0 < atR (initStep K pi b0).alpha j := by
  unfold initStep
  obtain ⟨h1, h2, h3⟩ := normStep_good K (tab K (fun j => pi j * atR b0 j)) b0
    (fun j hj => by rw [atR_tab _ _ _ hj]; exact mul_nonneg (hpi j hj) (hb j hj).le)
    (by rw [sumK_atR_tab]; exact sumK_mul_pos K pi (atR b0) hpi hb hs) hb
  refine ⟨h1, h2, fun j hj hp => h3 j hj ?_⟩
  rw [atR_tab _ _ _ hj]; exact mul_pos hp (hb j hj)

theorem fwdStep_good (K : Nat) (A : Nat → Nat → Rat) (prev b : Vec)
    (hA : ∀ i j, i < K → j < K → 0 ≤ A i j) (hrow : ∀ i, i < K → 0 < sumK K (A i))
    (hprev : ∀ i, i < K → 0 ≤ atR prev i) (hsum : sumK K (atR prev) = 1)
    (hb : ∀ j, j < K → 0 < atR b j) :
    GoodStep K (fwdStep K A prev b) ∧ sumK K (atR (fwdStep K A prev b).alpha) = 1 := by
  unfold fwdStep
  have hu : ∀ j, j < K → 0 ≤ sumK K (fun i => atR prev i * A i j) := fun j hj =>
    sumK_nonneg K _ (fun i hi => mul_nonneg (hprev i hi) (hA i j hi hj))
  have hS : 0 < sumK K (fun j => sumK K (fun i => atR prev i * A i j)) := by
    have e : sumK K (fun j => sumK K (fun i => atR prev i * A i j))
        = sumK K (fun i => atR prev i * sumK K (A i)) := by
      simp only [sumK_eq]
      rw [Finset.sum_comm]
      apply Finset.sum_congr rfl; intro i _; rw [Finset.mul_sum]
    rw [e]
    exact sumK_mul_pos K (atR prev) (fun i => sumK K (A i)) hprev hrow (by rw [hsum]; exact zero_lt_one)
  obtain ⟨h1, h2, _⟩ := normStep_good K
    (tab K (fun j => sumK K (fun i => atR prev i * A i j) * atR b j)) b
    (fun j hj => by rw [atR_tab _ _ _ hj]; exact mul_nonneg (hu j hj) (hb j hj).le)
    (by rw [sumK_atR_tab]; exact sumK_mul_pos K _ (atR b) hu hb hS) hb
  exact ⟨h1, h2⟩

theorem fwdFrom_good (K : Nat) (A : Nat → Nat → Rat)
    (hA : ∀ i j, i < K → j < K → 0 ≤ A i j) (hrow : ∀ i, i < K → 0 < sumK K (A i)) :
    ∀ (bs : List Vec) (prev : Vec), (∀ i, i < K → 0 ≤ atR prev i) → sumK K (atR prev) = 1 →
      (∀ b ∈ bs, ∀ j, j < K → 0 < atR b j) → ∀ s ∈ fwdFrom K A prev bs, GoodStep K s
  | [], _, _, _, _ => by simp [fwdFrom]
  | b :: bs, prev, hprev, hsum, hb => by
    obtain ⟨hg, hs⟩ := fwdStep_good K A prev b hA hrow hprev hsum (hb b (by simp))
    intro s hs'
    simp only [fwdFrom, List.mem_cons] at hs'
    rcases hs' with rfl | hs'
    · exact hg
    · exact fwdFrom_good K A hA hrow bs _ hg.2.1 hs (fun b' hb' => hb b' (by simp [hb'])) s hs'

theorem atR_had (K : Nat) (a b : Vec) (i : Nat) (hi : i < K) : atR (had K a b) i = atR a i * atR b i := by
  simp only [had]; rw [atR_tab _ _ _ hi]

/-- `β̂ > 0`, `γ ≥ 0`, `ξ ≥ 0`, and `γ_t(i) > 0` where `α̂_t(i) > 0` (first time point of the suffix). -/
theorem smooth_pos (K : Nat) (A : Nat → Nat → Rat)
    (hA : ∀ i j, i < K → j < K → 0 ≤ A i j) (hrow : ∀ i, i < K → 0 < sumK K (A i)) :
    ∀ (rest : List Step) (s : Step), GoodStep K s → (∀ s' ∈ rest, GoodStep K s') →
      (∀ i, i < K → 0 < atR (smooth K A s rest).1 i) ∧
      (∀ g ∈ (smooth K A s rest).2.1, ∀ i, i < K → 0 ≤ atR g i) ∧
      (∀ x ∈ (smooth K A s rest).2.2, ∀ i j, i < K → j < K → 0 ≤ atR (x.getD i []) j) ∧
      (∀ i, i < K → 0 < atR s.alpha i → 0 < atR ((smooth K A s rest).2.1.headD []) i)
  | [], s, hs, _ => by
    simp only [smooth]
    refine ⟨fun i hi => by rw [atR_tab _ _ _ hi]; exact zero_lt_one, ?_, by simp, ?_⟩
    · intro g hg i hi
      simp only [List.mem_singleton] at hg; subst hg
      rw [atR_had K _ _ i hi, atR_tab _ _ _ hi, mul_one]; exact hs.2.1 i hi
    · intro i hi h
      simp only [List.headD_cons]
      rw [atR_had K _ _ i hi, atR_tab _ _ _ hi, mul_one]; exact h
  | s' :: rest, s, hs, hrest => by
    have hs' : GoodStep K s' := hrest s' (by simp)
    obtain ⟨ih1, ih2, ih3, _⟩ := smooth_pos K A hA hrow rest s' hs' (fun x hx => hrest x (by simp [hx]))
    simp only [smooth]
    generalize smooth K A s' rest = r at ih1 ih2 ih3 ⊢
    have hβ : ∀ i, i < K → 0 < atR (backStep K A s' r.1) i := by
      intro i hi
      simp only [backStep]; rw [atR_tab _ _ _ hi]
      refine div_pos ?_ hs'.1
      have := sumK_mul_pos K (A i) (fun j => atR s'.b j * atR r.1 j) (fun j hj => hA i j hi hj)
        (fun j hj => mul_pos (hs'.2.2 j hj) (ih1 j hj)) (hrow i hi)
      refine lt_of_lt_of_eq this (sumK_congr _ _ _ (fun j _ => by ring))
    refine ⟨hβ, ?_, ?_, ?_⟩
    · intro g hg i hi
      simp only [List.mem_cons] at hg
      rcases hg with rfl | hg
      · rw [atR_had K _ _ i hi]; exact mul_nonneg (hs.2.1 i hi) (hβ i hi).le
      · exact ih2 g hg i hi
    · intro x hx i j hi hj
      simp only [List.mem_cons] at hx
      rcases hx with rfl | hx
      · rw [atR_xiOf K A _ _ _ i j hi hj]
        exact div_nonneg (mul_nonneg (mul_nonneg (mul_nonneg (hs.2.1 i hi) (hA i j hi hj))
          (hs'.2.2 j hj).le) (ih1 j hj).le) hs'.1.le
      · exact ih3 x hx i j hi hj
    · intro i hi h
      simp only [List.headD_cons]
      rw [atR_had K _ _ i hi]; exact mul_pos h (hβ i hi)

/-- the Boolean check `posModel` spelled out -/
theorem posModel_spec (K : Nat) (pi : Nat → Rat) (A : Nat → Nat → Rat) (B : List Vec)
    (h : posModel K pi A B = true) :
    (∀ i, i < K → 0 ≤ pi i) ∧ 0 < sumK K pi ∧ (∀ i j, i < K → j < K → 0 ≤ A i j) ∧
    (∀ i, i < K → 0 < sumK K (A i)) ∧ (∀ b ∈ B, ∀ j, j < K → 0 < atR b j) := by
  simp only [posModel, Bool.and_eq_true, List.all_eq_true, List.mem_range, decide_eq_true_eq] at h
  obtain ⟨⟨⟨h1, h2⟩, h3⟩, h4⟩ := h
  exact ⟨h1, h2, fun i j hi hj => (h3 i hi).1 j hj, fun i hi => (h3 i hi).2, h4⟩

/-- All the positivity facts of one `forward_backward` + `calculate_temporary_variables` call. -/
theorem fb_pos (K : Nat) (pi : Nat → Rat) (A : Nat → Nat → Rat) (b0 : Vec) (bs : List Vec)
    (h : posModel K pi A (b0 :: bs) = true) :
    (∀ s ∈ initStep K pi b0 :: fwdFrom K A (initStep K pi b0).alpha bs, 0 < s.c) ∧
    (∀ g ∈ (smooth K A (initStep K pi b0) (fwdFrom K A (initStep K pi b0).alpha bs)).2.1,
      ∀ i, i < K → 0 ≤ atR g i) ∧
    (∀ x ∈ (smooth K A (initStep K pi b0) (fwdFrom K A (initStep K pi b0).alpha bs)).2.2,
      ∀ i j, i < K → j < K → 0 ≤ atR (x.getD i []) j) ∧
    (∀ i, i < K → 0 < pi i →
      0 < atR ((smooth K A (initStep K pi b0) (fwdFrom K A (initStep K pi b0).alpha bs)).2.1.headD []) i) := by
  obtain ⟨hpi, hps, hA, hrow, hB⟩ := posModel_spec K pi A _ h
  obtain ⟨g0, s0, p0⟩ := initStep_good K pi b0 hpi hps (hB b0 (by simp))
  have hrest := fwdFrom_good K A hA hrow bs _ g0.2.1 s0 (fun b hb => hB b (by simp [hb]))
  obtain ⟨_, k2, k3, k4⟩ := smooth_pos K A hA hrow _ _ g0 hrest
  refine ⟨?_, k2, k3, fun i hi hp => k4 i hi (p0 i hi hp)⟩
  intro s hs
  simp only [List.mem_cons] at hs
  rcases hs with rfl | hs
  · exact g0.1
  · exact (hrest s hs).1

theorem sumT_nonneg {α} (l : List α) (f : α → Rat) (h : ∀ x ∈ l, 0 ≤ f x) : 0 ≤ sumT l f := by
  unfold sumT
  induction l with
  | nil => simp
  | cons x xs ih =>
    simp only [List.map_cons, List.sum_cons]
    exact add_nonneg (h x (by simp)) (ih (fun y hy => h y (by simp [hy])))

theorem prodL_pos : ∀ l : List Rat, (∀ x ∈ l, 0 < x) → 0 < prodL l
  | [], _ => by simp [prodL]
  | x :: xs, h => by
    simp only [prodL]
    exact mul_pos (h x (by simp)) (prodL_pos xs (fun y hy => h y (by simp [hy])))

end pos
end Verif.C16
