/-
  C11 — helper lemmas: routing of fixed/fitted diode parameters (core Lean), the Cauchy–Schwarz
  determinant and the normal equations of the analytical Lorentzian fit (ℚ), the ℝ reading of the
  calibration formulas (unfolding lemmas, option matrix, derivatives).
-/
import Verif.Model.C11
import Verif.NumReal
import Mathlib.Tactic.Ring
import Mathlib.Tactic.Linarith
import Mathlib.Tactic.Positivity
import Mathlib.Tactic.FieldSimp
import Mathlib.Algebra.Order.Field.Rat
import Mathlib.Algebra.Order.Ring.Rat

namespace Verif.C11
open Verif

/-! ## Routing (core Lean) -/

/-- specification of the routing: walk through the positions, keep fixed values, consume the
    supplied values in order at the free positions -/
def fill {β : Type} : List (Option β) → List (Option β) → List (Option β)
  | [], _ => []
  | some v :: t, vals => some v :: fill t vals
  | none :: t, v :: vals => v :: fill t vals
  | none :: t, [] => none :: fill t []

theorem fill_nil {β : Type} (fx : List (Option β)) : fill fx [] = fx := by
  induction fx with
  | nil => rfl
  | cons x t ih => cases x <;> simp [fill, ih]

theorem scatter_noneIdx {β : Type} (fx pre vals : List (Option β)) :
    scatter (pre ++ fx) (noneIdx fx pre.length) vals = pre ++ fill fx vals := by
  induction fx generalizing pre vals with
  | nil => simp [noneIdx, scatter, fill]
  | cons x t ih =>
    cases x with
    | some v =>
      have := ih (pre ++ [some v]) vals
      simp only [List.length_append, List.length_cons, List.length_nil, List.append_assoc,
        List.cons_append, List.nil_append] at this
      simpa [noneIdx, fill] using this
    | none =>
      cases vals with
      | nil => simp [noneIdx, scatter, fill, fill_nil]
      | cons v vs =>
        have := ih (pre ++ [v]) vs
        simp only [List.length_append, List.length_cons, List.length_nil, List.append_assoc,
          List.cons_append, List.nil_append] at this
        simp only [noneIdx, scatter, fill]
        rw [List.set_append_right _ _ (Nat.le_refl _)]
        simpa using this

/-- number of free (non-fixed) positions -/
def freeCount {β : Type} (fx : List (Option β)) : Nat := (fx.filter Option.isNone).length
/-- rank of position `i` among the free positions -/
def rank {β : Type} (fx : List (Option β)) (i : Nat) : Nat := freeCount (fx.take i)

theorem noneIdx_length {β : Type} (fx : List (Option β)) (k : Nat) :
    (noneIdx fx k).length = freeCount fx := by
  induction fx generalizing k with
  | nil => rfl
  | cons x t ih => cases x <;> simp [noneIdx, freeCount, ih]

theorem fill_length {β : Type} (fx vals : List (Option β)) : (fill fx vals).length = fx.length := by
  induction fx generalizing vals with
  | nil => rfl
  | cons x t ih =>
    cases x with
    | some v => simp [fill, ih]
    | none => cases vals <;> simp [fill, ih]

theorem fill_getElem? {β : Type} (fx vals : List (Option β)) (i : Nat) :
    (fill fx vals)[i]? = fx[i]?.map fun x =>
      match x with
      | some v => some v
      | none => (vals[rank fx i]?).getD none := by
  induction fx generalizing vals i with
  | nil => simp [fill]
  | cons x t ih =>
    cases i with
    | zero =>
      cases x with
      | some v => simp [fill]
      | none => cases vals <;> simp [fill, rank, freeCount]
    | succ i =>
      cases x with
      | some v => simp [fill, ih, rank, freeCount]
      | none =>
        cases vals with
        | nil => simp [fill, ih, rank, freeCount]
        | cons v vs => simp [fill, ih, rank, freeCount]


theorem route_eq_fill {β : Type} (fixed : List (Option β)) (pars : List β)
    (h : pars.length = freeCount fixed) :
    route fixed pars = some (fill fixed (pars.map some)) := by
  unfold route
  simp only [noneIdx_length, h, if_true]
  have := scatter_noneIdx fixed [] (pars.map some)
  simpa using this

theorem routing_pointwise {β : Type} (fixed : List (Option β)) (pars : List β)
    (h : pars.length = freeCount fixed) :
    ∃ r, route fixed pars = some r ∧ r.length = fixed.length ∧
      ∀ i, r[i]? = fixed[i]?.map fun x =>
        match x with
        | some v => some v
        | none => pars[rank fixed i]? := by
  refine ⟨_, route_eq_fill fixed pars h, fill_length _ _, fun i => ?_⟩
  rw [fill_getElem?]
  congr 1
  funext x
  cases x with
  | some v => rfl
  | none =>
    simp only [List.getElem?_map]
    cases pars[rank fixed i]? <;> rfl

theorem route_broadcast' {β : Type} (fixed : List (Option β)) (p : β) (h : freeCount fixed ≠ 1) :
    route fixed [p] = some (fill fixed (List.replicate (freeCount fixed) (some p))) := by
  unfold route
  simp only [noneIdx_length, List.length_cons, List.length_nil, Nat.zero_add]
  rw [if_neg (by omega)]
  have := scatter_noneIdx fixed [] (List.replicate (freeCount fixed) (some p))
  simpa using this

theorem route_error' {β : Type} (fixed : List (Option β)) (pars : List β)
    (h : pars.length ≠ freeCount fixed) (h1 : pars.length ≠ 1) : route fixed pars = none := by
  unfold route
  have h0 : ¬ (pars.length = (noneIdx fixed 0).length) := by rw [noneIdx_length]; exact h
  simp only [h0, if_false]
  match pars, h1 with
  | [], _ => rfl
  | [_], h1 => simp at h1
  | _ :: _ :: _, _ => rfl

/-! ## Analytical Lorentzian (ℚ) -/

/-! ### sums over a list, linear combinations -/

theorem sum_map_lin {α : Type} (L : List α) (f g h : α → Rat) (a b : Rat)
    (hf : ∀ x ∈ L, f x = a * g x + b * h x) :
    (L.map f).sum = a * (L.map g).sum + b * (L.map h).sum := by
  induction L with
  | nil => simp
  | cons x t ih =>
    have hx := hf x (by simp)
    have ht := ih (fun y hy => hf y (by simp [hy]))
    simp only [List.map_cons, List.sum_cons, hx, ht]
    ring

/-! ### Cauchy–Schwarz determinant over a list (Lagrange's identity, one element at a time) -/

section cs
variable {α : Type} (u v : α → Rat)

def csDet (L : List α) : Rat :=
  (L.map fun x => u x * u x).sum * (L.map fun x => v x * v x).sum
    - (L.map fun x => u x * v x).sum * (L.map fun x => u x * v x).sum

def cross (x : α) (L : List α) : Rat := (L.map fun y => (u x * v y - v x * u y) * (u x * v y - v x * u y)).sum

theorem cross_eq (x : α) (L : List α) :
    cross u v x L = u x * u x * (L.map fun y => v y * v y).sum
      - 2 * (u x * v x) * (L.map fun y => u y * v y).sum
      + v x * v x * (L.map fun y => u y * u y).sum := by
  unfold cross
  induction L with
  | nil => simp
  | cons y t ih => simp only [List.map_cons, List.sum_cons, ih]; ring

theorem csDet_cons (x : α) (L : List α) : csDet u v (x :: L) = csDet u v L + cross u v x L := by
  rw [cross_eq]; unfold csDet
  simp only [List.map_cons, List.sum_cons]; ring

theorem cross_nonneg (x : α) (L : List α) : 0 ≤ cross u v x L := by
  unfold cross
  induction L with
  | nil => simp
  | cons y t ih =>
    simp only [List.map_cons, List.sum_cons]
    have := mul_self_nonneg (u x * v y - v x * u y)
    linarith

theorem cross_pos (x : α) (L : List α) (y : α) (hy : y ∈ L) (h : u x * v y ≠ v x * u y) :
    0 < cross u v x L := by
  unfold cross
  induction L with
  | nil => simp at hy
  | cons z t ih =>
    simp only [List.map_cons, List.sum_cons]
    rcases List.mem_cons.mp hy with rfl | hy'
    · have h1 : 0 < (u x * v y - v x * u y) * (u x * v y - v x * u y) :=
        mul_self_pos.mpr (sub_ne_zero.mpr h)
      have h2 := cross_nonneg u v x t
      unfold cross at h2
      linarith
    · have h1 := mul_self_nonneg (u x * v z - v x * u z)
      have h2 := ih hy'
      linarith

theorem csDet_nonneg (L : List α) : 0 ≤ csDet u v L := by
  induction L with
  | nil => simp [csDet]
  | cons x t ih => rw [csDet_cons]; have := cross_nonneg u v x t; linarith

theorem csDet_pos (L : List α) (h : ¬ L.Pairwise fun x y => u x * v y = v x * u y) :
    0 < csDet u v L := by
  induction L with
  | nil => simp at h
  | cons x t ih =>
    rw [csDet_cons]
    rw [List.pairwise_cons, not_and_or] at h
    rcases h with h | h
    · push Not at h
      obtain ⟨y, hy, hne⟩ := h
      have := cross_pos u v x t y hy hne
      have := csDet_nonneg u v t
      linarith
    · have := ih h
      have := cross_nonneg u v x t
      linarith
end cs

/-! ### the analytical Lorentzian -/

theorem anlDet_eq_csDet (fs ps : List Rat) :
    anlDet fs ps = csDet (fun x : Rat × Rat => x.2) (fun x => x.1 ^ 2 * x.2) (fs.zip ps) := by
  unfold anlDet csDet spq
  have e1 : (fun x : Rat × Rat => x.1 ^ (2 * 0) * x.2 ^ 2) = fun x => x.2 * x.2 := by
    funext x; ring
  have e2 : (fun x : Rat × Rat => x.1 ^ (2 * 2) * x.2 ^ 2) = fun x => x.1 ^ 2 * x.2 * (x.1 ^ 2 * x.2) := by
    funext x; ring
  have e3 : (fun x : Rat × Rat => x.1 ^ (2 * 1) * x.2 ^ 2) = fun x => x.2 * (x.1 ^ 2 * x.2) := by
    funext x; ring
  rw [e1, e2, e3]

theorem anlDet_nonneg' (fs ps : List Rat) : 0 ≤ anlDet fs ps := by
  rw [anlDet_eq_csDet]; exact csDet_nonneg _ _ _

theorem anlDet_pos' (fs ps : List Rat) (i j : Nat) (hij : i < j) (hjf : j < fs.length)
    (hjp : j < ps.length) (hPi : ps[i] ≠ 0) (hPj : ps[j] ≠ 0) (hf : fs[i] ^ 2 ≠ fs[j] ^ 2) :
    0 < anlDet fs ps := by
  rw [anlDet_eq_csDet]
  apply csDet_pos
  intro hpw
  rw [List.pairwise_iff_getElem] at hpw
  have hl : j < (fs.zip ps).length := by simp [List.length_zip]; omega
  have := hpw i j (by omega) hl hij
  simp only [List.getElem_zip] at this
  apply hf
  have h1 : ps[i] * ps[j] * (fs[j] ^ 2 - fs[i] ^ 2) = 0 := by linarith
  have h2 : ps[i] * ps[j] ≠ 0 := mul_ne_zero hPi hPj
  have h3 := (mul_eq_zero.mp h1).resolve_left h2
  linarith

/-- the two normal equations that an exact Lorentzian satisfies -/
theorem lorentzian_normal_eqs (fs ps : List Rat) (a0 b0 : Rat)
    (hP : ∀ x ∈ fs.zip ps, x.2 * (a0 + b0 * x.1 ^ 2) = 1) :
    spq 0 1 fs ps = a0 * spq 0 2 fs ps + b0 * spq 1 2 fs ps ∧
    spq 1 1 fs ps = a0 * spq 1 2 fs ps + b0 * spq 2 2 fs ps := by
  unfold spq
  constructor
  · apply sum_map_lin
    intro x hx
    have := hP x hx
    have e : x.2 = x.2 * (x.2 * (a0 + b0 * x.1 ^ 2)) := by rw [this]; ring
    calc x.1 ^ (2 * 0) * x.2 ^ 1 = x.2 := by ring
      _ = x.2 * (x.2 * (a0 + b0 * x.1 ^ 2)) := e
      _ = _ := by ring
  · apply sum_map_lin
    intro x hx
    have := hP x hx
    have e : x.1 ^ 2 * x.2 = x.1 ^ 2 * x.2 * (x.2 * (a0 + b0 * x.1 ^ 2)) := by rw [this]; ring
    calc x.1 ^ (2 * 1) * x.2 ^ 1 = x.1 ^ 2 * x.2 := by ring
      _ = x.1 ^ 2 * x.2 * (x.2 * (a0 + b0 * x.1 ^ 2)) := e
      _ = _ := by ring

theorem analytical_exact' (fs ps : List Rat) (a0 b0 : Rat)
    (hP : ∀ x ∈ fs.zip ps, x.2 * (a0 + b0 * x.1 ^ 2) = 1)
    (hdet : anlDet fs ps ≠ 0) : analyticalLorentzian fs ps = (a0, b0) := by
  obtain ⟨h1, h2⟩ := lorentzian_normal_eqs fs ps a0 b0 hP
  unfold analyticalLorentzian
  have hd : anlDet fs ps = spq 0 2 fs ps * spq 2 2 fs ps - spq 1 2 fs ps * spq 1 2 fs ps := rfl
  rw [h1, h2]
  ext
  · simp only
    rw [div_eq_iff hdet, hd]; ring
  · simp only
    rw [div_eq_iff hdet, hd]; ring

/-! ## Calibration formulas over ℝ -/


theorem passive_kappa (m : Mdl ℝ) (fc D sfc sD : ℝ) :
    (passiveResults m fc D sfc sD).kappa = 2 * Real.pi * m.drag * fc * 1000 := by
  simp only [passiveResults, RealLike.pi]; norm_num

theorem passive_rd (m : Mdl ℝ) (fc D sfc sD : ℝ) :
    (passiveResults m fc D sfc sD).rd
      = Real.sqrt (1.380649e-23 * (m.o.temp + 273.15) / m.drag / D) * 1000000 := by
  simp only [passiveResults, RealLike.sqrt, kB, toKelvin]; norm_num

theorem validate_none_iff (o : Opts ℝ) :
    validate o = none ↔
      (1e-2 ≤ o.d ∧ (∀ l, o.dist = some l → o.d / 2 ≤ l) ∧ (∀ v, o.visc = some v → 0.0003 < v)
        ∧ 5 < o.temp ∧ o.temp < 90
        ∧ (o.hydro = true → o.axial = false ∧ (∀ l, o.dist = some l → 1.5 ≤ l / (o.d / 2))
            ∧ (∀ r, o.rhoSample = some r → 100 ≤ r) ∧ 100 ≤ o.rhoBead)) := by
  unfold validate
  simp only [RealLike.lt, RealLike.le]
  rcases o with ⟨d, visc, temp, hydro, dist, rhoS, rhoB, fast, axial⟩
  cases dist <;> cases visc <;> cases rhoS <;> cases hydro <;> cases axial <;>
    simp <;> norm_num <;> grind

/-! ### specification-side quantities -/
/-- Stokes drag `3πηd` (SI) -/
noncomputable def stokesDrag (η d : ℝ) : ℝ := 3 * Real.pi * η * d
/-- Faxén's lateral wall correction as a function of `h = R/l` -/
noncomputable def faxenSpec (h : ℝ) : ℝ :=
  1 / (1 - 9 / 16 * h + 1 / 8 * h ^ 3 - 45 / 256 * h ^ 4 - 1 / 16 * h ^ 5)
/-- Brenner's axial wall correction as a function of `h = R/l` -/
noncomputable def brennerSpec (h : ℝ) : ℝ :=
  1 / (1 - 9 / 8 * h + 1 / 2 * h ^ 3 - 57 / 100 * h ^ 4 + 1 / 5 * h ^ 5 + 7 / 200 * h ^ 11
    - 1 / 25 * h ^ 12)
/-- thermal energy `k_B T` for a temperature in °C -/
noncomputable def kT (tC : ℝ) : ℝ := 1.380649e-23 * (tC + 273.15)

theorem bulkDrag_real (o : Opts ℝ) : bulkDrag o = stokesDrag (viscosityOf o) (o.d * 1e-6) := by
  simp only [bulkDrag, sphereFriction, stokesDrag, RealLike.pi]; norm_num

theorem faxenFactor_real (l r : ℝ) : faxenFactor l r = faxenSpec (r / l) := by
  simp only [faxenFactor, faxenSpec, RealLike.npow]; norm_num; ring_nf

theorem brennerAxial_real (l r : ℝ) : brennerAxial l r = brennerSpec (r / l) := by
  simp only [brennerAxial, brennerSpec, RealLike.npow]; norm_num; ring_nf

theorem truthy_real (x : ℝ) : truthy x = true ↔ x ≠ 0 := by
  simp only [truthy, RealLike.lt]
  have e : (0.0 : ℝ) = 0 := by norm_num
  rw [e]
  simp only [Bool.or_eq_true, decide_eq_true_eq]
  exact lt_or_lt_iff_ne

theorem unit_ratio (d l : ℝ) (hl : l ≠ 0) : d * 1e-6 / 2 / (l * 1e-6) = d / 2 / l := by
  field_simp


theorem mkModel_ok {o : Opts ℝ} {m : Mdl ℝ} (h : mkModel o = .ok m) :
    validate o = none ∧ m = build o := by
  unfold mkModel at h
  split at h
  · cases h
  · rename_i hv; injection h with h; exact ⟨hv, h.symm⟩

/-- a constructed model has a positive bead diameter, and a surface distance (if any) of at least one radius -/
theorem mkModel_dist_pos {o : Opts ℝ} {m : Mdl ℝ} (h : mkModel o = .ok m) {l : ℝ}
    (hd : o.dist = some l) : 0 < o.d ∧ o.d / 2 ≤ l ∧ 0 < l := by
  have hv := (validate_none_iff o).mp (mkModel_ok h).1
  have h1 : (1e-2:ℝ) ≤ o.d := hv.1
  have h2 := hv.2.1 l hd
  have : (0:ℝ) < 1e-2 := by norm_num
  refine ⟨by linarith, h2, by linarith⟩

theorem drag_build (o : Opts ℝ) : (build o).drag = bulkDrag o * dragCorrection o := rfl

theorem dragCorrection_bulk (o : Opts ℝ) (hd : o.dist = none) : dragCorrection o = 1 := by
  unfold dragCorrection; rw [hd]; split <;> norm_num

theorem dragCorrection_hydro (o : Opts ℝ) (hh : o.hydro = true) : dragCorrection o = 1 := by
  unfold dragCorrection; rw [hh]; norm_num

theorem dragCorrection_faxen (o : Opts ℝ) (l : ℝ) (hh : o.hydro = false) (ha : o.axial = false)
    (hd : o.dist = some l) (hl : l ≠ 0) : dragCorrection o = faxenSpec (o.d / 2 / l) := by
  unfold dragCorrection
  rw [hh, hd, ha]
  simp only [(truthy_real l).mpr hl, faxenFactor_real]
  have e : o.d * (1.0e-6:ℝ) / 2.0 / (l * 1.0e-6) = o.d / 2 / l := by
    have := unit_ratio o.d l hl; norm_num at this ⊢; exact this
  simp [e]

theorem dragCorrection_brenner (o : Opts ℝ) (l : ℝ) (hh : o.hydro = false) (ha : o.axial = true)
    (hd : o.dist = some l) (hl : l ≠ 0) : dragCorrection o = brennerSpec (o.d / 2 / l) := by
  unfold dragCorrection
  rw [hh, hd, ha]
  simp only [(truthy_real l).mpr hl, brennerAxial_real]
  have e : o.d * (1.0e-6:ℝ) / 2.0 / (l * 1.0e-6) = o.d / 2 / l := by
    have := unit_ratio o.d l hl; norm_num at this ⊢; exact this
  simp [e]


/-! ### passive results over ℝ -/

theorem passive_kappa_SI (m : Mdl ℝ) (fc D sfc sD : ℝ) :
    (passiveResults m fc D sfc sD).kappa * 1e-3 = 2 * Real.pi * m.drag * fc := by
  rw [passive_kappa]; ring_nf

theorem passive_rd_SI (m : Mdl ℝ) (fc D sfc sD : ℝ) :
    (passiveResults m fc D sfc sD).rd * 1e-6 = Real.sqrt (kT m.o.temp / (m.drag * D)) := by
  rw [passive_rd, kT, div_div]; ring_nf

theorem passive_rf (m : Mdl ℝ) (fc D sfc sD : ℝ) :
    (passiveResults m fc D sfc sD).rf
      = (passiveResults m fc D sfc sD).rd * (passiveResults m fc D sfc sD).kappa * 1000 := by
  simp only [passiveResults]; norm_num

theorem passive_errKappa (m : Mdl ℝ) (fc D sfc sD : ℝ) :
    (passiveResults m fc D sfc sD).errKappa = (passiveResults m fc D sfc sD).kappa / fc * sfc := by
  simp only [passiveResults]

theorem passive_errRd (m : Mdl ℝ) (fc D sfc sD : ℝ) :
    (passiveResults m fc D sfc sD).errRd = (passiveResults m fc D sfc sD).rd / (2 * D) * sD := by
  simp only [passiveResults]; norm_num

theorem kappa_hasDerivAt (m : Mdl ℝ) (fc D sfc sD : ℝ) (hfc : fc ≠ 0) :
    HasDerivAt (fun x => (passiveResults m x D sfc sD).kappa)
      ((passiveResults m fc D sfc sD).kappa / fc) fc := by
  have hfun : (fun x => (passiveResults m x D sfc sD).kappa)
      = fun x => 2 * Real.pi * m.drag * x * 1000 := by funext x; exact passive_kappa ..
  rw [hfun, passive_kappa]
  have h := ((hasDerivAt_id' fc).const_mul (2 * Real.pi * m.drag)).mul_const (1000:ℝ)
  refine h.congr_deriv ?_
  field_simp

theorem rd_hasDerivAt (m : Mdl ℝ) (fc D sfc sD : ℝ) (hD : 0 < D) (hc : 0 < kT m.o.temp / m.drag) :
    HasDerivAt (fun x => (passiveResults m fc x sfc sD).rd)
      (-((passiveResults m fc D sfc sD).rd / (2 * D))) D := by
  have hfun : (fun x => (passiveResults m fc x sfc sD).rd)
      = fun x => Real.sqrt (kT m.o.temp / m.drag / x) * 1000000 := by
    funext x; rw [passive_rd, kT]
  rw [hfun, passive_rd, ← kT]
  set c := kT m.o.temp / m.drag with hc_def
  have hpos : 0 < c / D := div_pos hc hD
  have h1 : HasDerivAt (fun x : ℝ => c / x) (-c / D ^ 2) D := by
    have := (hasDerivAt_const D c).div (hasDerivAt_id' D) hD.ne'
    exact this.congr_deriv (by simp)
  have h2 := (h1.sqrt hpos.ne').mul_const (1000000:ℝ)
  refine h2.congr_deriv ?_
  have hs : Real.sqrt (c / D) * Real.sqrt (c / D) = c / D := Real.mul_self_sqrt hpos.le
  have hsne : Real.sqrt (c / D) ≠ 0 := (Real.sqrt_pos.mpr hpos).ne'
  have hc' : c = Real.sqrt (c / D) * Real.sqrt (c / D) * D := by rw [hs]; field_simp
  field_simp
  nlinarith [hc']


/-! ### active results over ℝ -/

theorem active_fields (m : Mdl ℝ) (dr : Drive ℝ) (g fc D sfc sD : ℝ) :
    let r := activeResults m dr g fc D sfc sD
    r.pExp = (dr.maxP - m.physicalPsd dr.freq fc D * g) * dr.df ∧
    r.pTheory = m.theoreticalPower dr fc ∧
    r.rd = Real.sqrt (r.pTheory / r.pExp) * 1000000 ∧
    r.measured = kT m.o.temp / (Real.sqrt (r.pTheory / r.pExp) * Real.sqrt (r.pTheory / r.pExp) * D) ∧
    r.kappa = 2 * Real.pi * fc * r.measured * 1000 ∧
    r.rf = Real.sqrt (r.pTheory / r.pExp) * (2 * Real.pi * fc * r.measured) * 1000000000000 ∧
    r.gammaEx = r.measured / m.corr ∧
    r.localDrag = r.measured * m.toLocal ∧
    r.gamma0 = m.dragCoeff := by
  simp only [activeResults, RealLike.sqrt, RealLike.pi, kB, toKelvin, kT]
  norm_num

theorem faxen_den_pos (h : ℝ) (h0 : 0 ≤ h) (h1 : h ≤ 1) :
    0 < 1 - 9 / 16 * h + 1 / 8 * h ^ 3 - 45 / 256 * h ^ 4 - 1 / 16 * h ^ 5 := by
  have a3 : 0 ≤ h ^ 3 := pow_nonneg h0 3
  have a4 : h ^ 4 ≤ 1 := pow_le_one₀ h0 h1
  have a5 : h ^ 5 ≤ 1 := pow_le_one₀ h0 h1
  linarith

theorem faxenSpec_pos (h : ℝ) (h0 : 0 ≤ h) (h1 : h ≤ 1) : 0 < faxenSpec h := by
  unfold faxenSpec; exact one_div_pos.mpr (faxen_den_pos h h0 h1)

/-- `calculate_complex_drag(f=0, gamma0=1, …)[0]`: the static wall factor `1/(1 − 9/16·R/l)` -/
theorem complexDrag_zero (g rho r : ℝ) (l : ℝ) :
    (complexDrag (0.0:ℝ) g rho r (some l)).1 = 1 / (1 - 9 / 16 * (r / l)) := by
  simp only [complexDrag, RealLike.sqrt, RealLike.exp, RealLike.cos, RealLike.sin, RealLike.pi]
  norm_num

theorem complexDrag_zero_bulk (g rho r : ℝ) : (complexDrag (0.0:ℝ) g rho r none).1 = 1 := by
  simp only [complexDrag, RealLike.sqrt, RealLike.pi]
  norm_num

end Verif.C11
