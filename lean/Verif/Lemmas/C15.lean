/-
  C15 — helper lemmas and the independent specifications the property theorems are stated against.
-/
import Verif.Model.C15
import Verif.NumReal
import Mathlib.Tactic.Ring
import Mathlib.Tactic.Linarith
import Mathlib.Tactic.Positivity
import Mathlib.Tactic.FieldSimp
import Mathlib.Analysis.SpecialFunctions.ExpDeriv
import Mathlib.Analysis.SpecialFunctions.Log.Deriv
import Mathlib.MeasureTheory.Integral.IntervalIntegral.FundThmCalculus

namespace Verif.C15
open Verif

/-! ## Specifications (written from the textbook definitions, not from the code) -/

/-- `e^{-tmax/τ}`, `0` for an unbounded window -/
noncomputable def specE (tmax : Option ℝ) (tau : ℝ) : ℝ :=
  match tmax with
  | none => 0
  | some m => Real.exp (-m / tau)

/-- probability that a dwell of the mixture falls in the observation window:
    `Σ a_i (e^{-tmin/τ_i} − e^{-tmax/τ_i})` -/
noncomputable def specNormCont (comps : List (Comp ℝ)) (tmin : ℝ) (tmax : Option ℝ) : ℝ :=
  (comps.map fun c => c.amp * (Real.exp (-tmin / c.tau) - specE tmax c.tau)).sum

/-- truncated exponential-mixture density `Σ a_i/τ_i e^{-t/τ_i} / N` -/
noncomputable def specPdfCont (comps : List (Comp ℝ)) (tmin : ℝ) (tmax : Option ℝ) (t : ℝ) : ℝ :=
  (comps.map fun c => c.amp / c.tau * Real.exp (-t / c.tau)).sum / specNormCont comps tmin tmax

/-- normalisation of the discretised model:
    `Σ a_i τ_i (1 − e^{-Δ/τ_i}) (e^{-(tmin−Δ)/τ_i} − e^{-tmax/τ_i})` -/
noncomputable def specNormDisc (comps : List (Comp ℝ)) (tmin : ℝ) (tmax : Option ℝ) (step : ℝ) : ℝ :=
  (comps.map fun c => c.amp * c.tau * (1 - Real.exp (-step / c.tau))
      * (Real.exp (-(tmin - step) / c.tau) - specE tmax c.tau)).sum

/-- probability mass of the discretised model (triangular sampling kernel):
    `Σ a_i τ_i (1 − e^{-Δ/τ_i})² e^{-(t−Δ)/τ_i} / N` -/
noncomputable def specPmfDisc (comps : List (Comp ℝ)) (tmin : ℝ) (tmax : Option ℝ) (step t : ℝ) : ℝ :=
  (comps.map fun c => c.amp * c.tau * (1 - Real.exp (-step / c.tau)) ^ 2
      * Real.exp (-(t - step) / c.tau)).sum / specNormDisc comps tmin tmax step

/-- all amplitudes and lifetimes positive -/
def Admissible (comps : List (Comp ℝ)) : Prop := ∀ c ∈ comps, 0 < c.amp ∧ 0 < c.tau

/-! ## Real reading of the list primitives -/

theorem sumL_eq_sum (l : List ℝ) : sumL l = l.sum := by
  induction l with
  | nil => simp only [sumL, List.sum_nil]; norm_num
  | cons x xs ih => simp only [sumL, List.sum_cons, ih]

theorem sum_map_exp_pos (l : List ℝ) (h : l ≠ []) : 0 < (l.map Real.exp).sum := by
  induction l with
  | nil => exact absurd rfl h
  | cons x xs ih =>
    simp only [List.map_cons, List.sum_cons]
    by_cases hx : xs = []
    · subst hx; simp only [List.map_nil, List.sum_nil, add_zero]; exact Real.exp_pos x
    · have := ih hx; have := Real.exp_pos x; linarith

theorem sum_map_exp_sub (m : ℝ) (l : List ℝ) :
    (l.map fun x => Real.exp (x - m)).sum = Real.exp (-m) * (l.map Real.exp).sum := by
  induction l with
  | nil => simp
  | cons x xs ih =>
    simp only [List.map_cons, List.sum_cons, ih, mul_add]
    rw [sub_eq_add_neg, Real.exp_add]; ring

/-- SciPy's max-shifted `logsumexp` is `log Σ exp`, whatever the shift -/
theorem lseShift_eq (m : ℝ) (l : List ℝ) (h : l ≠ []) :
    lseShift m l = Real.log ((l.map Real.exp).sum) := by
  unfold lseShift
  simp only [RealLike.log, RealLike.exp, sumL_eq_sum]
  rw [sum_map_exp_sub, Real.log_mul (Real.exp_pos _).ne' (sum_map_exp_pos l h).ne', Real.log_exp]
  ring

theorem lse_eq (l : List ℝ) (h : l ≠ []) : lse l = Real.log ((l.map Real.exp).sum) :=
  lseShift_eq _ l h

theorem exp_lse (l : List ℝ) (h : l ≠ []) : Real.exp (lse l) = (l.map Real.exp).sum := by
  rw [lse_eq l h, Real.exp_log (sum_map_exp_pos l h)]

/-! ## small list-sum algebra -/

theorem sum_map_mul_const {β : Type} (l : List β) (f : β → ℝ) (k : ℝ) :
    (l.map fun c => f c * k).sum = (l.map f).sum * k := by
  induction l with
  | nil => simp
  | cons x xs ih => simp only [List.map_cons, List.sum_cons, ih]; ring

theorem sum_map_add' {β : Type} (l : List β) (f g : β → ℝ) :
    (l.map fun c => f c + g c).sum = (l.map f).sum + (l.map g).sum := by
  induction l with
  | nil => simp
  | cons x xs ih => simp only [List.map_cons, List.sum_cons, ih]; ring

theorem sum_map_sub' {β : Type} (l : List β) (f g : β → ℝ) :
    (l.map fun c => f c - g c).sum = (l.map f).sum - (l.map g).sum := by
  induction l with
  | nil => simp
  | cons x xs ih => simp only [List.map_cons, List.sum_cons, ih]; ring

theorem sum_map_pos {β : Type} (l : List β) (f : β → ℝ) (hne : l ≠ []) (h : ∀ c ∈ l, 0 < f c) :
    0 < (l.map f).sum := by
  induction l with
  | nil => exact absurd rfl hne
  | cons x xs ih =>
    simp only [List.map_cons, List.sum_cons]
    have hx := h x (List.mem_cons_self ..)
    by_cases hxs : xs = []
    · subst hxs; simpa using hx
    · have := ih hxs (fun c hc => h c (List.mem_cons_of_mem _ hc)); linarith

theorem exp_lse_map {β : Type} (l : List β) (f g : β → ℝ) (hne : l ≠ [])
    (h : ∀ c ∈ l, Real.exp (f c) = g c) : Real.exp (lse (l.map f)) = (l.map g).sum := by
  rw [exp_lse _ (by simpa using hne), List.map_map]
  congr 1
  exact List.map_congr_left fun c hc => h c hc

/-! ## the log-domain algorithm computes the textbook density -/

theorem expNegMax_real (tmax : Option ℝ) (tau : ℝ) : expNegMax tmax tau = specE tmax tau := by
  cases tmax with
  | none => simp only [expNegMax, specE]; norm_num
  | some m => simp only [expNegMax, specE, RealLike.exp]

theorem exp_normTermCont (tmin : ℝ) (tmax : Option ℝ) (c : Comp ℝ) (ha : 0 < c.amp)
    (hd : specE tmax c.tau < Real.exp (-tmin / c.tau)) :
    Real.exp (normTermCont tmin tmax c) = c.amp * (Real.exp (-tmin / c.tau) - specE tmax c.tau) := by
  simp only [normTermCont, RealLike.log, RealLike.exp, expNegMax_real]
  rw [Real.exp_add, Real.exp_log ha, Real.exp_log (by linarith)]

theorem exp_logNormCont (comps : List (Comp ℝ)) (hne : comps ≠ []) (hadm : Admissible comps)
    (tmin : ℝ) (tmax : Option ℝ) (hwin : ∀ c ∈ comps, specE tmax c.tau < Real.exp (-tmin / c.tau)) :
    Real.exp (lse (comps.map (normTermCont tmin tmax))) = specNormCont comps tmin tmax :=
  exp_lse_map comps _ _ hne fun c hc => exp_normTermCont tmin tmax c (hadm c hc).1 (hwin c hc)

theorem specNormCont_pos (comps : List (Comp ℝ)) (hne : comps ≠ []) (hadm : Admissible comps)
    (tmin : ℝ) (tmax : Option ℝ) (hwin : ∀ c ∈ comps, specE tmax c.tau < Real.exp (-tmin / c.tau)) :
    0 < specNormCont comps tmin tmax :=
  sum_map_pos comps _ hne fun c hc => mul_pos (hadm c hc).1 (by have := hwin c hc; linarith)

theorem pdf_cont_eq_spec (comps : List (Comp ℝ)) (hne : comps ≠ []) (hadm : Admissible comps)
    (tmin t : ℝ) (tmax : Option ℝ) (hwin : ∀ c ∈ comps, specE tmax c.tau < Real.exp (-tmin / c.tau)) :
    pdfCont comps tmin tmax t = specPdfCont comps tmin tmax t := by
  have hN := exp_logNormCont comps hne hadm tmin tmax hwin
  have hNpos := specNormCont_pos comps hne hadm tmin tmax hwin
  unfold pdfCont pdf logLikObs logComps specPdfCont
  simp only [RealLike.exp]
  rw [exp_lse_map comps _ (fun c => c.amp / c.tau * Real.exp (-t / c.tau) * (specNormCont comps tmin tmax)⁻¹) hne]
  · rw [sum_map_mul_const]; rfl
  · intro c hc
    obtain ⟨ha, ht⟩ := hadm c hc
    simp only [RealLike.log]
    rw [sub_eq_add_neg, sub_eq_add_neg, Real.exp_add, Real.exp_add, Real.exp_add, Real.exp_neg, hN,
      Real.exp_log ha, Real.exp_neg (Real.log c.tau), Real.exp_log ht, neg_div]
    field_simp

theorem discFactor_real (step tau : ℝ) : discFactor step tau = 1 - Real.exp (-step / tau) := by
  simp only [discFactor, RealLike.exp]; norm_num

theorem discFactor_pos (step tau : ℝ) (hs : 0 < step) (ht : 0 < tau) : 0 < 1 - Real.exp (-step / tau) := by
  have : Real.exp (-step / tau) < 1 := by
    rw [Real.exp_lt_one_iff]  -- may be renamed
    have : 0 < step / tau := div_pos hs ht
    rw [neg_div]; linarith
  linarith

theorem exp_normTermDisc (tmin : ℝ) (tmax : Option ℝ) (step : ℝ) (c : Comp ℝ) (ha : 0 < c.amp)
    (ht : 0 < c.tau) (hs : 0 < step)
    (hd : specE tmax c.tau < Real.exp (-(tmin - step) / c.tau)) :
    Real.exp (normTermDisc tmin tmax step c)
      = c.amp * c.tau * (1 - Real.exp (-step / c.tau))
          * (Real.exp (-(tmin - step) / c.tau) - specE tmax c.tau) := by
  simp only [normTermDisc, RealLike.log, RealLike.exp, expNegMax_real, discFactor_real]
  rw [Real.exp_add, Real.exp_add, Real.exp_add, Real.exp_log ha, Real.exp_log ht,
    Real.exp_log (by linarith), Real.exp_log (discFactor_pos step c.tau hs ht)]
  ring

theorem exp_logNormDisc (comps : List (Comp ℝ)) (hne : comps ≠ []) (hadm : Admissible comps)
    (tmin step : ℝ) (hs : 0 < step) (tmax : Option ℝ)
    (hwin : ∀ c ∈ comps, specE tmax c.tau < Real.exp (-(tmin - step) / c.tau)) :
    Real.exp (lse (comps.map (normTermDisc tmin tmax step))) = specNormDisc comps tmin tmax step :=
  exp_lse_map comps _ _ hne fun c hc =>
    exp_normTermDisc tmin tmax step c (hadm c hc).1 (hadm c hc).2 hs (hwin c hc)

theorem specNormDisc_pos (comps : List (Comp ℝ)) (hne : comps ≠ []) (hadm : Admissible comps)
    (tmin step : ℝ) (hs : 0 < step) (tmax : Option ℝ)
    (hwin : ∀ c ∈ comps, specE tmax c.tau < Real.exp (-(tmin - step) / c.tau)) :
    0 < specNormDisc comps tmin tmax step :=
  sum_map_pos comps _ hne fun c hc =>
    mul_pos (mul_pos (mul_pos (hadm c hc).1 (hadm c hc).2) (discFactor_pos step c.tau hs (hadm c hc).2))
      (by have := hwin c hc; linarith)

theorem pmf_disc_eq_spec (comps : List (Comp ℝ)) (hne : comps ≠ []) (hadm : Admissible comps)
    (tmin step t : ℝ) (hs : 0 < step) (tmax : Option ℝ)
    (hwin : ∀ c ∈ comps, specE tmax c.tau < Real.exp (-(tmin - step) / c.tau)) :
    pmfDisc comps tmin tmax step t = specPmfDisc comps tmin tmax step t := by
  have hN := exp_logNormDisc comps hne hadm tmin step hs tmax hwin
  have hNpos := specNormDisc_pos comps hne hadm tmin step hs tmax hwin
  unfold pmfDisc pdf logLikObs logComps specPmfDisc
  simp only [RealLike.exp]
  rw [exp_lse_map comps _ (fun c => c.amp * c.tau * (1 - Real.exp (-step / c.tau)) ^ 2
      * Real.exp (-(t - step) / c.tau) * (specNormDisc comps tmin tmax step)⁻¹) hne]
  · rw [sum_map_mul_const]; rfl
  · intro c hc
    obtain ⟨ha, ht⟩ := hadm c hc
    have hdf := discFactor_pos step c.tau hs ht
    simp only [RealLike.log, discFactor_real]
    have h2 : (2.0 : ℝ) * Real.log (1 - Real.exp (-step / c.tau))
        = Real.log (1 - Real.exp (-step / c.tau)) + Real.log (1 - Real.exp (-step / c.tau)) := by
      norm_num; ring
    rw [h2, sub_eq_add_neg, Real.exp_add, Real.exp_add, Real.exp_add, Real.exp_add, Real.exp_add,
      Real.exp_neg, hN, Real.exp_log ha, Real.exp_log ht, Real.exp_log hdf, neg_div]
    field_simp

/-! ## the continuous density integrates to one (FTC on `−Σ a e^{−t/τ}/N`) -/

theorem hasDerivAt_sum_map {β : Type} (l : List β) (f f' : β → ℝ → ℝ) (t : ℝ)
    (h : ∀ c ∈ l, HasDerivAt (f c) (f' c t) t) :
    HasDerivAt (fun s => (l.map fun c => f c s).sum) ((l.map fun c => f' c t).sum) t := by
  induction l with
  | nil => simpa using hasDerivAt_const t (0:ℝ)
  | cons x xs ih =>
    simp only [List.map_cons, List.sum_cons]
    exact (h x (List.mem_cons_self ..)).add (ih fun c hc => h c (List.mem_cons_of_mem _ hc))

theorem continuous_sum_map {β : Type} (l : List β) (f : β → ℝ → ℝ) (h : ∀ c ∈ l, Continuous (f c)) :
    Continuous fun s => (l.map fun c => f c s).sum := by
  induction l with
  | nil => simpa using continuous_const
  | cons x xs ih =>
    simp only [List.map_cons, List.sum_cons]
    exact (h x (List.mem_cons_self ..)).add (ih fun c hc => h c (List.mem_cons_of_mem _ hc))

theorem hasDerivAt_amp_exp (a tau t : ℝ) :
    HasDerivAt (fun s => a * Real.exp (-s / tau)) (-(a / tau * Real.exp (-t / tau))) t := by
  have h1 : HasDerivAt (fun s : ℝ => -s / tau) (-1 / tau) t := ((hasDerivAt_id' t).neg).div_const tau
  exact (h1.exp.const_mul a).congr_deriv (by ring)

theorem integral_specPdfCont (comps : List (Comp ℝ)) (tmin tmax : ℝ)
    (hN : specNormCont comps tmin (some tmax) ≠ 0) :
    ∫ t in tmin..tmax, specPdfCont comps tmin (some tmax) t = 1 := by
  set N := specNormCont comps tmin (some tmax) with hNdef
  have hderiv : ∀ t ∈ Set.uIcc tmin tmax,
      HasDerivAt (fun s => -((comps.map fun c => c.amp * Real.exp (-s / c.tau)).sum) / N)
        (specPdfCont comps tmin (some tmax) t) t := by
    intro t _
    have h := hasDerivAt_sum_map comps (fun c s => c.amp * Real.exp (-s / c.tau))
      (fun c s => -(c.amp / c.tau * Real.exp (-s / c.tau))) t
      (fun c _ => hasDerivAt_amp_exp c.amp c.tau t)
    refine (h.neg.div_const N).congr_deriv ?_
    unfold specPdfCont
    rw [← hNdef]
    congr 1
    have : (comps.map fun c => -(c.amp / c.tau * Real.exp (-t / c.tau)))
        = comps.map fun c => (c.amp / c.tau * Real.exp (-t / c.tau)) * (-1) :=
      List.map_congr_left fun c _ => by ring
    rw [this, sum_map_mul_const]; ring
  have hcont : Continuous fun t => specPdfCont comps tmin (some tmax) t := by
    unfold specPdfCont
    refine (continuous_sum_map comps (fun c s => c.amp / c.tau * Real.exp (-s / c.tau)) ?_).div_const _
    intro c _
    exact continuous_const.mul (Real.continuous_exp.comp ((continuous_id.neg).div_const _))
  rw [intervalIntegral.integral_eq_sub_of_hasDerivAt hderiv (hcont.intervalIntegrable _ _)]
  have hsplit : N = (comps.map fun c => c.amp * Real.exp (-tmin / c.tau)).sum
      - (comps.map fun c => c.amp * Real.exp (-tmax / c.tau)).sum := by
    rw [hNdef, specNormCont, ← sum_map_sub']
    congr 1
    exact List.map_congr_left fun c _ => by simp only [specE]; ring
  field_simp
  rw [hsplit]; ring_nf

/-! ## the discretised model sums to one (telescoping geometric sum in `x = e^{−Δ/τ}`) -/

theorem geom_sum_comps {β : Type} (comps : List β) (w x : β → ℝ) (hx : ∀ c ∈ comps, 1 - x c ≠ 0) (K : ℕ) :
    ((List.range (K + 1)).map fun (k : ℕ) => (comps.map fun c => w c * x c ^ k).sum).sum
      = (comps.map fun c => w c * (1 - x c ^ (K + 1)) / (1 - x c)).sum := by
  induction K with
  | zero =>
    simp only [zero_add, List.range_one, List.map_cons, List.map_nil, List.sum_cons, List.sum_nil, add_zero]
    congr 1
    exact List.map_congr_left fun c hc => by have := hx c hc; field_simp
  | succ K ih =>
    rw [List.range_succ, List.map_append, List.sum_append, ih]
    simp only [List.map_cons, List.map_nil, List.sum_cons, List.sum_nil, add_zero]
    rw [← sum_map_add']
    congr 1
    exact List.map_congr_left fun c hc => by have := hx c hc; field_simp; ring

theorem exp_grid (tmin step tau : ℝ) (k : ℕ) :
    Real.exp (-((tmin + (k : ℝ) * step) - step) / tau)
      = Real.exp (-(tmin - step) / tau) * Real.exp (-step / tau) ^ k := by
  rw [← Real.exp_nat_mul, ← Real.exp_add]
  congr 1; ring

theorem sum_specPmfDisc (comps : List (Comp ℝ)) (hadm : Admissible comps)
    (tmin step : ℝ) (hs : 0 < step) (K : ℕ)
    (hN : specNormDisc comps tmin (some (tmin + (K : ℝ) * step)) step ≠ 0) :
    ((List.range (K + 1)).map fun (k : ℕ) =>
        specPmfDisc comps tmin (some (tmin + (K : ℝ) * step)) step (tmin + (k : ℝ) * step)).sum = 1 := by
  set N := specNormDisc comps tmin (some (tmin + (K : ℝ) * step)) step with hNdef
  have hdf : ∀ c ∈ comps, 1 - Real.exp (-step / c.tau) ≠ 0 := fun c hc =>
    (discFactor_pos step c.tau hs (hadm c hc).2).ne'
  have h1 : ((List.range (K + 1)).map fun (k : ℕ) =>
        specPmfDisc comps tmin (some (tmin + (K : ℝ) * step)) step (tmin + (k : ℝ) * step))
      = (List.range (K + 1)).map fun (k : ℕ) =>
          (comps.map fun c => (c.amp * c.tau * (1 - Real.exp (-step / c.tau)) ^ 2
              * Real.exp (-(tmin - step) / c.tau)) * Real.exp (-step / c.tau) ^ k).sum * N⁻¹ := by
    refine List.map_congr_left fun k _ => ?_
    unfold specPmfDisc
    rw [← hNdef, div_eq_mul_inv]
    congr 2
    exact List.map_congr_left fun c _ => by rw [exp_grid]; ring
  rw [h1, sum_map_mul_const, geom_sum_comps comps _ _ hdf K]
  have h2 : (comps.map fun c => (c.amp * c.tau * (1 - Real.exp (-step / c.tau)) ^ 2
        * Real.exp (-(tmin - step) / c.tau)) * (1 - Real.exp (-step / c.tau) ^ (K + 1))
        / (1 - Real.exp (-step / c.tau))).sum = N := by
    rw [hNdef, specNormDisc]
    congr 1
    refine List.map_congr_left fun c hc => ?_
    have hd := hdf c hc
    have he : Real.exp (-(tmin + (K : ℝ) * step) / c.tau)
        = Real.exp (-(tmin - step) / c.tau) * Real.exp (-step / c.tau) ^ (K + 1) := by
      rw [← Real.exp_nat_mul, ← Real.exp_add]
      congr 1; push_cast; ring
    simp only [specE]
    rw [he]
    field_simp
  rw [h2]
  exact mul_inv_cancel₀ hN

/-! ## relabelling -/

theorem lse_perm (l₁ l₂ : List ℝ) (h : l₁.Perm l₂) : lse l₁ = lse l₂ := by
  by_cases h1 : l₁ = []
  · subst h1; rw [List.Perm.nil_eq h]
  · have h2 : l₂ ≠ [] := fun e => h1 (by subst e; exact h.eq_nil)
    rw [lse_eq _ h1, lse_eq _ h2, (h.map Real.exp).sum_eq]

theorem logLikObs_perm (c₁ c₂ : List (Comp ℝ)) (h : c₁.Perm c₂) (o : Obs ℝ) :
    logLikObs c₁ o = logLikObs c₂ o := by
  unfold logLikObs logComps
  cases o.step with
  | none =>
    simp only
    rw [lse_perm _ _ (h.map (normTermCont o.tmin o.tmax))]
    exact lse_perm _ _ (h.map _)
  | some step =>
    simp only
    rw [lse_perm _ _ (h.map (normTermDisc o.tmin o.tmax step))]
    exact lse_perm _ _ (h.map _)

/-! ## one component, no upper limit: closed-form maximum -/

theorem lse_singleton (x : ℝ) : lse [x] = x := by
  rw [lse_eq _ (by simp)]; simp

/-- an observation of the continuous model without upper limit -/
def openObs (p : ℝ × ℝ) : Obs ℝ := ⟨p.1, p.2, none, none⟩

theorem logLikObs_one (a tau : ℝ) (p : ℝ × ℝ) :
    logLikObs [⟨a, tau⟩] (openObs p) = -Real.log tau - (p.1 - p.2) / tau := by
  unfold logLikObs logComps openObs
  simp only [List.map_cons, List.map_nil, lse_singleton, normTermCont, expNegMax, RealLike.log,
    RealLike.exp]
  have : ((0.0 : ℝ)) = 0 := by norm_num
  rw [this, sub_zero, Real.log_exp]
  ring

theorem logLik_one (a tau : ℝ) (ps : List (ℝ × ℝ)) :
    logLik [⟨a, tau⟩] (ps.map openObs)
      = -((ps.length : ℝ) * Real.log tau) - (ps.map fun p => p.1 - p.2).sum / tau := by
  unfold logLik negLogLik
  rw [neg_neg, sumL_eq_sum, List.map_map]
  induction ps with
  | nil => simp
  | cons p ps ih =>
    simp only [List.map_cons, List.sum_cons, Function.comp_apply, List.length_cons] at ih ⊢
    rw [ih, logLikObs_one]
    push_cast; ring

theorem mleTau_real (ps : List (ℝ × ℝ)) (n : ℝ) :
    mleTau (ps.map openObs) n = (ps.map fun p => p.1 - p.2).sum / n := by
  unfold mleTau
  rw [sumL_eq_sum, List.map_map]
  rfl

/-- `−n log τ − S/τ` is maximal at `τ = S/n`, strictly -/
theorem profile_max (n S tau : ℝ) (hn : 0 < n) (hS : 0 < S) (ht : 0 < tau) :
    -(n * Real.log tau) - S / tau ≤ -(n * Real.log (S / n)) - S / (S / n)
    ∧ (-(n * Real.log tau) - S / tau = -(n * Real.log (S / n)) - S / (S / n) → tau = S / n) := by
  have hx : 0 < S / n / tau := by positivity
  have hlog : Real.log (S / n / tau) = Real.log (S / n) - Real.log tau :=
    Real.log_div (by positivity) ht.ne'
  have hS' : S / (S / n) = n := by field_simp
  have hSt : S / tau = n * (S / n / tau) := by field_simp
  rw [hS', hSt]
  constructor
  · have := Real.log_le_sub_one_of_pos hx
    nlinarith
  · intro heq
    by_contra hne
    have hne1 : S / n / tau ≠ 1 := by
      intro h1
      apply hne
      field_simp at h1 ⊢
      linarith
    have := Real.log_lt_sub_one_of_pos hx hne1
    nlinarith

end Verif.C15
