/-
  C15 — helper lemmas and the independent specifications the property theorems are stated against.
-/
import Verif.Model.C15
import Verif.NumReal
import Mathlib.Tactic.Ring
import Mathlib.Tactic.Linarith
import Mathlib.Tactic.Positivity
import Mathlib.Tactic.FieldSimp
import Mathlib.Analysis.SpecialFunctions.ExpDeriv
import Mathlib.Analysis.SpecialFunctions.Log.Deriv
import Mathlib.MeasureTheory.Integral.IntervalIntegral.FundThmCalculus

namespace Verif.C15
open Verif

/-! ## Specifications (written from the textbook definitions, not from the code) -/

/-- `e^{-tmax/τ}`, `0` for an unbounded window -/
noncomputable def specE (tmax : Option ℝ) (tau : ℝ) : ℝ :=
  match tmax with
  | none => 0
  | some m => Real.exp (-m / tau)

/-- probability that a dwell of the mixture falls in the observation window:
    `Σ a_i (e^{-tmin/τ_i} − e^{-tmax/τ_i})` -/
noncomputable def specNormCont (comps : List (Comp ℝ)) (tmin : ℝ) (tmax : Option ℝ) : ℝ :=
  (comps.map fun c => c.amp * (Real.exp (-tmin / c.tau) - specE tmax c.tau)).sum

/-- truncated exponential-mixture density `Σ a_i/τ_i e^{-t/τ_i} / N` -/
noncomputable def specPdfCont (comps : List (Comp ℝ)) (tmin : ℝ) (tmax : Option ℝ) (t : ℝ) : ℝ :=
  (comps.map fun c => c.amp / c.tau * Real.exp (-t / c.tau)).sum / specNormCont comps tmin tmax

/-- normalisation of the discretised model:
    `Σ a_i τ_i (1 − e^{-Δ/τ_i}) (e^{-(tmin−Δ)/τ_i} − e^{-tmax/τ_i})` -/
noncomputable def specNormDisc (comps : List (Comp ℝ)) (tmin : ℝ) (tmax : Option ℝ) (step : ℝ) : ℝ :=
  (comps.map fun c => c.amp * c.tau * (1 - Real.exp (-step / c.tau))
      * (Real.exp (-(tmin - step) / c.tau) - specE tmax c.tau)).sum

/-- probability mass of the discretised model (triangular sampling kernel):
    `Σ a_i τ_i (1 − e^{-Δ/τ_i})² e^{-(t−Δ)/τ_i} / N` -/
noncomputable def specPmfDisc (comps : List (Comp ℝ)) (tmin : ℝ) (tmax : Option ℝ) (step t : ℝ) : ℝ :=
  (comps.map fun c => c.amp * c.tau * (1 - Real.exp (-step / c.tau)) ^ 2
      * Real.exp (-(t - step) / c.tau)).sum / specNormDisc comps tmin tmax step

/-- all amplitudes and lifetimes positive -/
def Admissible (comps : List (Comp ℝ)) : Prop := ∀ c ∈ comps, 0 < c.amp ∧ 0 < c.tau

/-! ## Real reading of the list primitives -/

theorem sumL_eq_sum (l : List ℝ) : sumL l = l.sum := by
  induction l with
  | nil => simp only [sumL, List.sum_nil]; norm_num
  | cons x xs ih => simp only [sumL, List.sum_cons, ih]

theorem sum_map_exp_pos (l : List ℝ) (h : l ≠ []) : 0 < (l.map Real.exp).sum := by
  induction l with
  | nil => exact absurd rfl h
  | cons x xs ih =>
    simp only [List.map_cons, List.sum_cons]
    by_cases hx : xs = []
    · subst hx; simp only [List.map_nil, List.sum_nil, add_zero]; exact Real.exp_pos x
    · have := ih hx; have := Real.exp_pos x; linarith

theorem sum_map_exp_sub (m : ℝ) (l : List ℝ) :
    (l.map fun x => Real.exp (x - m)).sum = Real.exp (-m) * (l.map Real.exp).sum := by
  induction l with
  | nil => simp
  | cons x xs ih =>
    simp only [List.map_cons, List.sum_cons, ih, mul_add]
    rw [sub_eq_add_neg, Real.exp_add]; ring

/-- SciPy's max-shifted `logsumexp` is `log Σ exp`, whatever the shift -/
theorem lseShift_eq (m : ℝ) (l : List ℝ) (h : l ≠ []) :
    lseShift m l = Real.log ((l.map Real.exp).sum) := by
  unfold lseShift
  simp only [RealLike.log, RealLike.exp, sumL_eq_sum]
  rw [sum_map_exp_sub, Real.log_mul (Real.exp_pos _).ne' (sum_map_exp_pos l h).ne', Real.log_exp]
  ring

theorem lse_eq (l : List ℝ) (h : l ≠ []) : lse l = Real.log ((l.map Real.exp).sum) :=
  lseShift_eq _ l h

theorem exp_lse (l : List ℝ) (h : l ≠ []) : Real.exp (lse l) = (l.map Real.exp).sum := by
  rw [lse_eq l h, Real.exp_log (sum_map_exp_pos l h)]

/-! ## small list-sum algebra -/

theorem sum_map_mul_const {β : Type} (l : List β) (f : β → ℝ) (k : ℝ) :
    (l.map fun c => f c * k).sum = (l.map f).sum * k := by
  induction l with
  | nil => simp
  | cons x xs ih => simp only [List.map_cons, List.sum_cons, ih]; ring

theorem sum_map_add' {β : Type} (l : List β) (f g : β → ℝ) :
    (l.map fun c => f c + g c).sum = (l.map f).sum + (l.map g).sum := by
  induction l with
  | nil => simp
  | cons x xs ih => simp only [List.map_cons, List.sum_cons, ih]; ring

theorem sum_map_sub' {β : Type} (l : List β) (f g : β → ℝ) :
    (l.map fun c => f c - g c).sum = (l.map f).sum - (l.map g).sum := by
  induction l with
  | nil => simp
  | cons x xs ih => simp only [List.map_cons, List.sum_cons, ih]; ring

theorem sum_map_pos {β : Type} (l : List β) (f : β → ℝ) (hne : l ≠ []) (h : ∀ c ∈ l, 0 < f c) :
    0 < (l.map f).sum := by
  induction l with
  | nil => exact absurd rfl hne
  | cons x xs ih =>
    simp only [List.map_cons, List.sum_cons]
    have hx := h x (List.mem_cons_self ..)
    by_cases hxs : xs = []
    · subst hxs; simpa using hx
    · have := ih hxs (fun c hc => h c (List.mem_cons_of_mem _ hc)); linarith

theorem exp_lse_map {β : Type} (l : List β) (f g : β → ℝ) (hne : l ≠ [])
    (h : ∀ c ∈ l, Real.exp (f c) = g c) : Real.exp (lse (l.map f)) = (l.map g).sum := by
  rw [exp_lse _ (by simpa using hne), List.map_map]
  congr 1
  exact List.map_congr_left fun c hc => h c hc

/-! ## the log-domain algorithm computes the textbook density -/

theorem expNegMax_real (tmax : Option ℝ) (tau : ℝ) : expNegMax tmax tau = specE tmax tau := by
  cases tmax with
  | none => simp only [expNegMax, specE]; norm_num
  | some m => simp only [expNegMax, specE, RealLike.exp]

/-- `e^{−lo/τ} · (1 − e^{−(m − lo)/τ}) = e^{−lo/τ} − e^{−m/τ}`: the factored window probability of the code is the
    textbook one, and its second factor is positive on a proper window -/
theorem exp_logWindow (lo : ℝ) (tmax : Option ℝ) (tau : ℝ)
    (hd : specE tmax tau < Real.exp (-lo / tau)) :
    Real.exp (-lo / tau) * Real.exp (logWindow (tmax.map fun m => m - lo) tau)
      = Real.exp (-lo / tau) - specE tmax tau := by
  cases tmax with
  | none =>
    simp only [Option.map_none, logWindow, specE]
    have h0 : ((0.0 : ℝ)) = 0 := by norm_num
    rw [h0, Real.exp_zero]; ring
  | some m =>
    simp only [Option.map_some, logWindow, specE, RealLike.log, RealLike.exp] at hd ⊢
    have h1 : ((1.0 : ℝ)) = 1 := by norm_num
    have hsplit : Real.exp (-m / tau) = Real.exp (-lo / tau) * Real.exp (-(m - lo) / tau) := by
      rw [← Real.exp_add]; congr 1; ring
    have hpos : 0 < 1 - Real.exp (-(m - lo) / tau) := by
      have he := Real.exp_pos (-lo / tau)
      have : Real.exp (-lo / tau) * Real.exp (-(m - lo) / tau) < Real.exp (-lo / tau) * 1 := by
        rw [← hsplit, mul_one]; exact hd
      have := lt_of_mul_lt_mul_left this he.le
      linarith
    rw [h1, Real.exp_log hpos, hsplit]; ring

theorem exp_normTermCont (tmin : ℝ) (tmax : Option ℝ) (c : Comp ℝ) (ha : 0 < c.amp)
    (hd : specE tmax c.tau < Real.exp (-tmin / c.tau)) :
    Real.exp (normTermCont tmin tmax c) = c.amp * (Real.exp (-tmin / c.tau) - specE tmax c.tau) := by
  simp only [normTermCont, RealLike.log]
  rw [Real.exp_add, Real.exp_add, Real.exp_log ha, exp_logWindow tmin tmax c.tau hd]

theorem exp_logNormCont (comps : List (Comp ℝ)) (hne : comps ≠ []) (hadm : Admissible comps)
    (tmin : ℝ) (tmax : Option ℝ) (hwin : ∀ c ∈ comps, specE tmax c.tau < Real.exp (-tmin / c.tau)) :
    Real.exp (lse (comps.map (normTermCont tmin tmax))) = specNormCont comps tmin tmax :=
  exp_lse_map comps _ _ hne fun c hc => exp_normTermCont tmin tmax c (hadm c hc).1 (hwin c hc)

theorem specNormCont_pos (comps : List (Comp ℝ)) (hne : comps ≠ []) (hadm : Admissible comps)
    (tmin : ℝ) (tmax : Option ℝ) (hwin : ∀ c ∈ comps, specE tmax c.tau < Real.exp (-tmin / c.tau)) :
    0 < specNormCont comps tmin tmax :=
  sum_map_pos comps _ hne fun c hc => mul_pos (hadm c hc).1 (by have := hwin c hc; linarith)

theorem pdf_cont_eq_spec (comps : List (Comp ℝ)) (hne : comps ≠ []) (hadm : Admissible comps)
    (tmin t : ℝ) (tmax : Option ℝ) (hwin : ∀ c ∈ comps, specE tmax c.tau < Real.exp (-tmin / c.tau)) :
    pdfCont comps tmin tmax t = specPdfCont comps tmin tmax t := by
  have hN := exp_logNormCont comps hne hadm tmin tmax hwin
  have hNpos := specNormCont_pos comps hne hadm tmin tmax hwin
  unfold pdfCont pdf logLikObs logComps specPdfCont
  simp only [RealLike.exp]
  rw [exp_lse_map comps _ (fun c => c.amp / c.tau * Real.exp (-t / c.tau) * (specNormCont comps tmin tmax)⁻¹) hne]
  · rw [sum_map_mul_const]; rfl
  · intro c hc
    obtain ⟨ha, ht⟩ := hadm c hc
    simp only [RealLike.log]
    rw [sub_eq_add_neg, sub_eq_add_neg, Real.exp_add, Real.exp_add, Real.exp_add, Real.exp_neg, hN,
      Real.exp_log ha, Real.exp_neg (Real.log c.tau), Real.exp_log ht, neg_div]
    field_simp

theorem discFactor_real (step tau : ℝ) : discFactor step tau = 1 - Real.exp (-step / tau) := by
  simp only [discFactor, RealLike.exp]; norm_num

theorem discFactor_pos (step tau : ℝ) (hs : 0 < step) (ht : 0 < tau) : 0 < 1 - Real.exp (-step / tau) := by
  have : Real.exp (-step / tau) < 1 := by
    rw [Real.exp_lt_one_iff]  -- may be renamed
    have : 0 < step / tau := div_pos hs ht
    rw [neg_div]; linarith
  linarith

theorem exp_normTermDisc (tmin : ℝ) (tmax : Option ℝ) (step : ℝ) (c : Comp ℝ) (ha : 0 < c.amp)
    (ht : 0 < c.tau) (hs : 0 < step)
    (hd : specE tmax c.tau < Real.exp (-(tmin - step) / c.tau)) :
    Real.exp (normTermDisc tmin tmax step c)
      = c.amp * c.tau * (1 - Real.exp (-step / c.tau))
          * (Real.exp (-(tmin - step) / c.tau) - specE tmax c.tau) := by
  have hw : (tmax.map fun m => m - tmin + step) = tmax.map fun m => m - (tmin - step) := by
    cases tmax with
    | none => rfl
    | some m => simp only [Option.map_some]; congr 1; ring
  simp only [normTermDisc, RealLike.log, discFactor_real]
  rw [hw, Real.exp_add, Real.exp_add, Real.exp_add, Real.exp_add, Real.exp_log ha, Real.exp_log ht,
    Real.exp_log (discFactor_pos step c.tau hs ht), mul_assoc (c.amp * c.tau),
    exp_logWindow (tmin - step) tmax c.tau hd]
  ring

theorem exp_logNormDisc (comps : List (Comp ℝ)) (hne : comps ≠ []) (hadm : Admissible comps)
    (tmin step : ℝ) (hs : 0 < step) (tmax : Option ℝ)
    (hwin : ∀ c ∈ comps, specE tmax c.tau < Real.exp (-(tmin - step) / c.tau)) :
    Real.exp (lse (comps.map (normTermDisc tmin tmax step))) = specNormDisc comps tmin tmax step :=
  exp_lse_map comps _ _ hne fun c hc =>
    exp_normTermDisc tmin tmax step c (hadm c hc).1 (hadm c hc).2 hs (hwin c hc)

theorem specNormDisc_pos (comps : List (Comp ℝ)) (hne : comps ≠ []) (hadm : Admissible comps)
    (tmin step : ℝ) (hs : 0 < step) (tmax : Option ℝ)
    (hwin : ∀ c ∈ comps, specE tmax c.tau < Real.exp (-(tmin - step) / c.tau)) :
    0 < specNormDisc comps tmin tmax step :=
  sum_map_pos comps _ hne fun c hc =>
    mul_pos (mul_pos (mul_pos (hadm c hc).1 (hadm c hc).2) (discFactor_pos step c.tau hs (hadm c hc).2))
      (by have := hwin c hc; linarith)

theorem pmf_disc_eq_spec (comps : List (Comp ℝ)) (hne : comps ≠ []) (hadm : Admissible comps)
    (tmin step t : ℝ) (hs : 0 < step) (tmax : Option ℝ)
    (hwin : ∀ c ∈ comps, specE tmax c.tau < Real.exp (-(tmin - step) / c.tau)) :
    pmfDisc comps tmin tmax step t = specPmfDisc comps tmin tmax step t := by
  have hN := exp_logNormDisc comps hne hadm tmin step hs tmax hwin
  have hNpos := specNormDisc_pos comps hne hadm tmin step hs tmax hwin
  unfold pmfDisc pdf logLikObs logComps specPmfDisc
  simp only [RealLike.exp]
  rw [exp_lse_map comps _ (fun c => c.amp * c.tau * (1 - Real.exp (-step / c.tau)) ^ 2
      * Real.exp (-(t - step) / c.tau) * (specNormDisc comps tmin tmax step)⁻¹) hne]
  · rw [sum_map_mul_const]; rfl
  · intro c hc
    obtain ⟨ha, ht⟩ := hadm c hc
    have hdf := discFactor_pos step c.tau hs ht
    simp only [RealLike.log, discFactor_real]
    have h2 : (2.0 : ℝ) * Real.log (1 - Real.exp (-step / c.tau))
        = Real.log (1 - Real.exp (-step / c.tau)) + Real.log (1 - Real.exp (-step / c.tau)) := by
      norm_num; ring
    rw [h2, sub_eq_add_neg, Real.exp_add, Real.exp_add, Real.exp_add, Real.exp_add, Real.exp_add,
      Real.exp_neg, hN, Real.exp_log ha, Real.exp_log ht, Real.exp_log hdf, neg_div]
    field_simp

/-! ## the continuous density integrates to one (FTC on `−Σ a e^{−t/τ}/N`) -/

theorem hasDerivAt_sum_map {β : Type} (l : List β) (f f' : β → ℝ → ℝ) (t : ℝ)
    (h : ∀ c ∈ l, HasDerivAt (f c) (f' c t) t) :
    HasDerivAt (fun s => (l.map fun c => f c s).sum) ((l.map fun c => f' c t).sum) t := by
  induction l with
  | nil => simpa using hasDerivAt_const t (0:ℝ)
  | cons x xs ih =>
    simp only [List.map_cons, List.sum_cons]
    exact (h x (List.mem_cons_self ..)).add (ih fun c hc => h c (List.mem_cons_of_mem _ hc))

theorem continuous_sum_map {β : Type} (l : List β) (f : β → ℝ → ℝ) (h : ∀ c ∈ l, Continuous (f c)) :
    Continuous fun s => (l.map fun c => f c s).sum := by
  induction l with
  | nil => simpa using continuous_const
  | cons x xs ih =>
    simp only [List.map_cons, List.sum_cons]
    exact (h x (List.mem_cons_self ..)).add (ih fun c hc => h c (List.mem_cons_of_mem _ hc))

theorem hasDerivAt_amp_exp (a tau t : ℝ) :
    HasDerivAt (fun s => a * Real.exp (-s / tau)) (-(a / tau * Real.exp (-t / tau))) t := by
  have h1 : HasDerivAt (fun s : ℝ => -s / tau) (-1 / tau) t := ((hasDerivAt_id' t).neg).div_const tau
  exact (h1.exp.const_mul a).congr_deriv (by ring)

theorem integral_specPdfCont (comps : List (Comp ℝ)) (tmin tmax : ℝ)
    (hN : specNormCont comps tmin (some tmax) ≠ 0) :
    ∫ t in tmin..tmax, specPdfCont comps tmin (some tmax) t = 1 := by
  set N := specNormCont comps tmin (some tmax) with hNdef
  have hderiv : ∀ t ∈ Set.uIcc tmin tmax,
      HasDerivAt (fun s => -((comps.map fun c => c.amp * Real.exp (-s / c.tau)).sum) / N)
        (specPdfCont comps tmin (some tmax) t) t := by
    intro t _
    have h := hasDerivAt_sum_map comps (fun c s => c.amp * Real.exp (-s / c.tau))
      (fun c s => -(c.amp / c.tau * Real.exp (-s / c.tau))) t
      (fun c _ => hasDerivAt_amp_exp c.amp c.tau t)
    refine (h.neg.div_const N).congr_deriv ?_
    unfold specPdfCont
    rw [← hNdef]
    congr 1
    have : (comps.map fun c => -(c.amp / c.tau * Real.exp (-t / c.tau)))
        = comps.map fun c => (c.amp / c.tau * Real.exp (-t / c.tau)) * (-1) :=
      List.map_congr_left fun c _ => by ring
    rw [this, sum_map_mul_const]; ring
  have hcont : Continuous fun t => specPdfCont comps tmin (some tmax) t := by
    unfold specPdfCont
    refine (continuous_sum_map comps (fun c s => c.amp / c.tau * Real.exp (-s / c.tau)) ?_).div_const _
    intro c _
    exact continuous_const.mul (Real.continuous_exp.comp ((continuous_id.neg).div_const _))
  rw [intervalIntegral.integral_eq_sub_of_hasDerivAt hderiv (hcont.intervalIntegrable _ _)]
  have hsplit : N = (comps.map fun c => c.amp * Real.exp (-tmin / c.tau)).sum
      - (comps.map fun c => c.amp * Real.exp (-tmax / c.tau)).sum := by
    rw [hNdef, specNormCont, ← sum_map_sub']
    congr 1
    exact List.map_congr_left fun c _ => by simp only [specE]; ring
  field_simp
  rw [hsplit]; ring_nf

/-! ## the discretised model sums to one (telescoping geometric sum in `x = e^{−Δ/τ}`) -/

theorem geom_sum_comps {β : Type} (comps : List β) (w x : β → ℝ) (hx : ∀ c ∈ comps, 1 - x c ≠ 0) (K : ℕ) :
    ((List.range (K + 1)).map fun (k : ℕ) => (comps.map fun c => w c * x c ^ k).sum).sum
      = (comps.map fun c => w c * (1 - x c ^ (K + 1)) / (1 - x c)).sum := by
  induction K with
  | zero =>
    simp only [zero_add, List.range_one, List.map_cons, List.map_nil, List.sum_cons, List.sum_nil, add_zero]
    congr 1
    exact List.map_congr_left fun c hc => by have := hx c hc; field_simp
  | succ K ih =>
    rw [List.range_succ, List.map_append, List.sum_append, ih]
    simp only [List.map_cons, List.map_nil, List.sum_cons, List.sum_nil, add_zero]
    rw [← sum_map_add']
    congr 1
    exact List.map_congr_left fun c hc => by have := hx c hc; field_simp; ring

theorem exp_grid (tmin step tau : ℝ) (k : ℕ) :
    Real.exp (-((tmin + (k : ℝ) * step) - step) / tau)
      = Real.exp (-(tmin - step) / tau) * Real.exp (-step / tau) ^ k := by
  rw [← Real.exp_nat_mul, ← Real.exp_add]
  congr 1; ring

theorem sum_specPmfDisc (comps : List (Comp ℝ)) (hadm : Admissible comps)
    (tmin step : ℝ) (hs : 0 < step) (K : ℕ)
    (hN : specNormDisc comps tmin (some (tmin + (K : ℝ) * step)) step ≠ 0) :
    ((List.range (K + 1)).map fun (k : ℕ) =>
        specPmfDisc comps tmin (some (tmin + (K : ℝ) * step)) step (tmin + (k : ℝ) * step)).sum = 1 := by
  set N := specNormDisc comps tmin (some (tmin + (K : ℝ) * step)) step with hNdef
  have hdf : ∀ c ∈ comps, 1 - Real.exp (-step / c.tau) ≠ 0 := fun c hc =>
    (discFactor_pos step c.tau hs (hadm c hc).2).ne'
  have h1 : ((List.range (K + 1)).map fun (k : ℕ) =>
        specPmfDisc comps tmin (some (tmin + (K : ℝ) * step)) step (tmin + (k : ℝ) * step))
      = (List.range (K + 1)).map fun (k : ℕ) =>
          (comps.map fun c => (c.amp * c.tau * (1 - Real.exp (-step / c.tau)) ^ 2
              * Real.exp (-(tmin - step) / c.tau)) * Real.exp (-step / c.tau) ^ k).sum * N⁻¹ := by
    refine List.map_congr_left fun k _ => ?_
    unfold specPmfDisc
    rw [← hNdef, div_eq_mul_inv]
    congr 2
    exact List.map_congr_left fun c _ => by rw [exp_grid]; ring
  rw [h1, sum_map_mul_const, geom_sum_comps comps _ _ hdf K]
  have h2 : (comps.map fun c => (c.amp * c.tau * (1 - Real.exp (-step / c.tau)) ^ 2
        * Real.exp (-(tmin - step) / c.tau)) * (1 - Real.exp (-step / c.tau) ^ (K + 1))
        / (1 - Real.exp (-step / c.tau))).sum = N := by
    rw [hNdef, specNormDisc]
    congr 1
    refine List.map_congr_left fun c hc => ?_
    have hd := hdf c hc
    have he : Real.exp (-(tmin + (K : ℝ) * step) / c.tau)
        = Real.exp (-(tmin - step) / c.tau) * Real.exp (-step / c.tau) ^ (K + 1) := by
      rw [← Real.exp_nat_mul, ← Real.exp_add]
      congr 1; push_cast; ring
    simp only [specE]
    rw [he]
    field_simp
  rw [h2]
  exact mul_inv_cancel₀ hN

/-! ## relabelling -/

theorem lse_perm (l₁ l₂ : List ℝ) (h : l₁.Perm l₂) : lse l₁ = lse l₂ := by
  by_cases h1 : l₁ = []
  · subst h1; rw [List.Perm.nil_eq h]
  · have h2 : l₂ ≠ [] := fun e => h1 (by subst e; exact h.eq_nil)
    rw [lse_eq _ h1, lse_eq _ h2, (h.map Real.exp).sum_eq]

theorem logLikObs_perm (c₁ c₂ : List (Comp ℝ)) (h : c₁.Perm c₂) (o : Obs ℝ) :
    logLikObs c₁ o = logLikObs c₂ o := by
  unfold logLikObs logComps
  cases o.step with
  | none =>
    simp only
    rw [lse_perm _ _ (h.map (normTermCont o.tmin o.tmax))]
    exact lse_perm _ _ (h.map _)
  | some step =>
    simp only
    rw [lse_perm _ _ (h.map (normTermDisc o.tmin o.tmax step))]
    exact lse_perm _ _ (h.map _)

/-! ## one component, no upper limit: closed-form maximum -/

theorem lse_singleton (x : ℝ) : lse [x] = x := by
  rw [lse_eq _ (by simp)]; simp

/-- an observation of the continuous model without upper limit -/
def openObs (p : ℝ × ℝ) : Obs ℝ := ⟨p.1, p.2, none, none⟩

theorem logLikObs_one (a tau : ℝ) (p : ℝ × ℝ) :
    logLikObs [⟨a, tau⟩] (openObs p) = -Real.log tau - (p.1 - p.2) / tau := by
  unfold logLikObs logComps openObs
  simp only [List.map_cons, List.map_nil, lse_singleton, normTermCont, logWindow, Option.map_none,
    RealLike.log]
  have : ((0.0 : ℝ)) = 0 := by norm_num
  rw [this]
  ring

theorem logLik_one (a tau : ℝ) (ps : List (ℝ × ℝ)) :
    logLik [⟨a, tau⟩] (ps.map openObs)
      = -((ps.length : ℝ) * Real.log tau) - (ps.map fun p => p.1 - p.2).sum / tau := by
  unfold logLik negLogLik
  rw [neg_neg, sumL_eq_sum, List.map_map]
  induction ps with
  | nil => simp
  | cons p ps ih =>
    simp only [List.map_cons, List.sum_cons, Function.comp_apply, List.length_cons] at ih ⊢
    rw [ih, logLikObs_one]
    push_cast; ring

theorem mleTau_real (ps : List (ℝ × ℝ)) (n : ℝ) :
    mleTau (ps.map openObs) n = (ps.map fun p => p.1 - p.2).sum / n := by
  unfold mleTau
  rw [sumL_eq_sum, List.map_map]
  rfl

/-- `−n log τ − S/τ` is maximal at `τ = S/n`, strictly -/
theorem profile_max (n S tau : ℝ) (hn : 0 < n) (hS : 0 < S) (ht : 0 < tau) :
    -(n * Real.log tau) - S / tau ≤ -(n * Real.log (S / n)) - S / (S / n)
    ∧ (-(n * Real.log tau) - S / tau = -(n * Real.log (S / n)) - S / (S / n) → tau = S / n) := by
  have hx : 0 < S / n / tau := by positivity
  have hlog : Real.log (S / n / tau) = Real.log (S / n) - Real.log tau :=
    Real.log_div (by positivity) ht.ne'
  have hS' : S / (S / n) = n := by field_simp
  have hSt : S / tau = n * (S / n / tau) := by field_simp
  rw [hS', hSt]
  constructor
  · have := Real.log_le_sub_one_of_pos hx
    nlinarith
  · intro heq
    by_contra hne
    have hne1 : S / n / tau ≠ 1 := by
      intro h1
      apply hne
      field_simp at h1 ⊢
      linarith
    have := Real.log_lt_sub_one_of_pos hx hne1
    nlinarith

/-! ## `_handle_amplitude_constraint` -/

theorem sum_take_scatter (n : Nat) : ∀ (ps : List Rat) (fixed : List Bool) (xs : List Rat),
    n ≤ ps.length → n ≤ fixed.length → countTrue n (fixed.map (!·)) ≤ xs.length →
    ((scatter ps (fixed.map (!·)) xs).take n).sum
      = ampSum n ps fixed + (xs.take (countTrue n (fixed.map (!·)))).sum := by
  induction n with
  | zero => intro ps fixed xs _ _ _; simp [ampSum, countTrue]
  | succ n ih =>
    intro ps fixed xs hp hf hx
    match ps, fixed, hp, hf with
    | p :: ps, true :: fs, hp, hf =>
      have hp' : n ≤ ps.length := by simpa using hp
      have hf' : n ≤ fs.length := by simpa using hf
      simp only [List.map_cons, Bool.not_true, countTrue] at hx ⊢
      simp only [scatter, List.take_succ_cons, List.sum_cons, ampSum, if_true]
      rw [ih ps fs xs hp' hf' (by simpa using hx)]
      simp
      ring
    | p :: ps, false :: fs, hp, hf =>
      have hp' : n ≤ ps.length := by simpa using hp
      have hf' : n ≤ fs.length := by simpa using hf
      simp only [List.map_cons, Bool.not_false, countTrue, if_true] at hx ⊢
      match xs, hx with
      | [], hx => simp at hx
      | x :: xs, hx =>
        have hx' : countTrue n (fs.map (!·)) ≤ xs.length := by simp at hx; omega
        simp only [scatter, List.take_succ_cons, List.sum_cons, ampSum]
        rw [ih ps fs xs hp' hf' hx', Nat.add_comm 1, List.take_succ_cons, List.sum_cons]
        simp
        ring

theorem fixFree_spec (n : Nat) : ∀ (ps : List Rat) (fixed : List Bool) (v : Rat),
    n ≤ ps.length → n ≤ fixed.length → countTrue n (fixed.map (!·)) = 1 →
    (((fixFree n ps (fixed.map (!·)) v).1).take n).sum = ampSum n ps fixed + v
    ∧ countTrue n (fixFree n ps (fixed.map (!·)) v).2 = 0
    ∧ ((fixFree n ps (fixed.map (!·)) v).1).drop n = ps.drop n
    ∧ ((fixFree n ps (fixed.map (!·)) v).2).drop n = (fixed.map (!·)).drop n := by
  induction n with
  | zero => intro ps fixed v _ _ h; simp [countTrue] at h
  | succ n ih =>
    intro ps fixed v hp hf h1
    match ps, fixed, hp, hf with
    | p :: ps, true :: fs, hp, hf =>
      have hp' : n ≤ ps.length := by simpa using hp
      have hf' : n ≤ fs.length := by simpa using hf
      simp only [List.map_cons, Bool.not_true, countTrue] at h1 ⊢
      have h1' : countTrue n (fs.map (!·)) = 1 := by simpa using h1
      obtain ⟨a, b, c, d⟩ := ih ps fs v hp' hf' h1'
      simp only [fixFree, Bool.false_eq_true, if_false, List.take_succ_cons, List.sum_cons, ampSum,
        if_true, countTrue, List.drop_succ_cons]
      refine ⟨?_, ?_, c, d⟩
      · rw [a]; ring
      · simpa using b
    | p :: ps, false :: fs, hp, hf =>
      have hp' : n ≤ ps.length := by simpa using hp
      have hf' : n ≤ fs.length := by simpa using hf
      simp only [List.map_cons, Bool.not_false, countTrue, if_true] at h1 ⊢
      have h0 : countTrue n (fs.map (!·)) = 0 := by omega
      -- all remaining amplitudes are fixed
      have hall : ∀ (m : Nat) (qs : List Rat) (gs : List Bool), m ≤ qs.length → m ≤ gs.length →
          countTrue m (gs.map (!·)) = 0 → (qs.take m).sum = ampSum m qs gs := by
        intro m
        induction m with
        | zero => intro qs gs _ _ _; simp [ampSum]
        | succ m ihm =>
          intro qs gs hq hg hc
          match qs, gs, hq, hg with
          | q :: qs, true :: gs, hq, hg =>
            simp only [List.map_cons, Bool.not_true, countTrue] at hc
            simp only [List.take_succ_cons, List.sum_cons, ampSum, if_true]
            rw [ihm qs gs (by simpa using hq) (by simpa using hg) (by simpa using hc)]
          | q :: qs, false :: gs, hq, hg =>
            simp only [List.map_cons, Bool.not_false, countTrue, if_true] at hc
            omega
      simp only [fixFree, if_true, List.take_succ_cons, List.sum_cons, ampSum, countTrue,
        Bool.false_eq_true, if_false, List.drop_succ_cons]
      refine ⟨?_, ?_, trivial, trivial⟩
      · rw [hall n ps fs hp' hf' h0]; simp; ring
      · simpa using h0

/-- everything `handleConstraint` can answer, by cases -/
theorem handleConstraint_cases (n : Nat) (params : List Rat) (mask : Option (List Bool)) (c : Constraint)
    (h : handleConstraint n params mask = some c) :
    (fixedOf params mask).length = params.length ∧ params.length = 2 * n
    ∧ ampSum n params (fixedOf params mask) ≤ 1
    ∧ ((countTrue n ((fixedOf params mask).map (!·)) = 1
        ∧ c = ⟨(fixFree n params ((fixedOf params mask).map (!·)) (1 - ampSum n params (fixedOf params mask))).2, 0,
              ampSum n params (fixedOf params mask) + (1 - ampSum n params (fixedOf params mask)),
              (fixFree n params ((fixedOf params mask).map (!·)) (1 - ampSum n params (fixedOf params mask))).1⟩)
      ∨ (countTrue n ((fixedOf params mask).map (!·)) ≠ 1
        ∧ c = ⟨(fixedOf params mask).map (!·), countTrue n ((fixedOf params mask).map (!·)),
              ampSum n params (fixedOf params mask), params⟩)) := by
  unfold handleConstraint at h
  simp only at h
  split at h
  · exact absurd h (by simp)
  · rename_i hlen
    split at h
    · exact absurd h (by simp)
    · rename_i hlen2
      split at h
      · exact absurd h (by simp)
      · rename_i hsum
        refine ⟨by simpa using hlen, by simpa using hlen2, by simpa using hsum, ?_⟩
        split at h
        · rename_i h1
          split at h
          · left; exact ⟨h1, by simpa using h.symm⟩
          · exact absurd h (by simp)
        · rename_i h1
          split at h
          · exact absurd h (by simp)
          · right; exact ⟨h1, by simpa using h.symm⟩

/-! ## dwell-time data of a track group -/

/-- specification of a track's dwell time: number of line steps × line time -/
def specDuration (t : Track) : Rat := ((t.last - t.first : Int) : Rat) * t.lineTime

theorem duration_eq (t : Track) : t.duration = specDuration t := by
  unfold Track.duration specDuration; push_cast; ring

/-- a track contributes iff its dwell time is positive and, when ambiguous dwells are excluded,
    it touches neither the first nor the last scan line -/
def keep (excl : Bool) (t : Track) : Bool := decide (0 < specDuration t) && (!excl || t.endsDefined)

/-- the row a kept track contributes: its duration, its own minimum observable duration, its
    kymograph's total duration `#lines · line time`, and the line time as discretisation step -/
def specRow? (t : Track) : Option Row :=
  t.minObs.map fun m => ⟨specDuration t, m, (t.nLines : Rat) * t.lineTime, t.lineTime⟩

/-- tracks of the same kymograph agree on that kymograph's geometry -/
def Consistent (tracks : List Track) : Prop :=
  ∀ t ∈ tracks, ∀ u ∈ tracks, t.kymo = u.kymo → t.nLines = u.nLines ∧ t.lineTime = u.lineTime

theorem allSome_eq_some {β : Type} : ∀ (l : List (Option β)) (r : List β),
    allSome l = some r ↔ l = r.map some := by
  intro l
  induction l with
  | nil => intro r; cases r <;> simp [allSome]
  | cons x xs ih =>
    intro r
    cases x with
    | none => cases r <;> simp [allSome]
    | some x =>
      cases r with
      | nil => simp [allSome]
      | cons y ys =>
        simp only [allSome, Option.map_eq_some_iff, List.map_cons, List.cons.injEq, Option.some.injEq]
        constructor
        · rintro ⟨r', hr', hx, hy⟩
          exact ⟨hx, by rw [← hy]; exact (ih r').1 hr'⟩
        · rintro ⟨hx, hxs⟩
          exact ⟨ys, (ih ys).2 hxs, hx, rfl⟩

theorem allSome_eq_none {β : Type} : ∀ (l : List (Option β)), allSome l = none ↔ none ∈ l := by
  intro l
  induction l with
  | nil => simp [allSome]
  | cons x xs ih =>
    cases x with
    | none => simp [allSome]
    | some x => simp [allSome, ih]

theorem mem_uniqFirst (a : Nat) : ∀ l : List Nat, a ∈ uniqFirst l ↔ a ∈ l := by
  intro l
  induction l with
  | nil => simp [uniqFirst]
  | cons x xs ih =>
    simp only [uniqFirst, List.mem_cons, List.mem_filter, ih, decide_eq_true_eq]
    by_cases h : a = x <;> simp [h]

theorem nodup_uniqFirst : ∀ l : List Nat, (uniqFirst l).Nodup := by
  intro l
  induction l with
  | nil => simp [uniqFirst]
  | cons x xs ih =>
    simp only [uniqFirst, List.nodup_cons, List.mem_filter, decide_eq_true_eq]
    exact ⟨fun h => h.2 rfl, ih.filter _⟩

theorem flatMap_ite_singleton {β : Type} (t : β) (a : Nat) : ∀ ks : List Nat, ks.Nodup → a ∈ ks →
    ks.flatMap (fun k => if a = k then [t] else []) = [t] := by
  intro ks
  induction ks with
  | nil => intro _ h; simp at h
  | cons k ks ih =>
    intro hnd hmem
    rw [List.nodup_cons] at hnd
    rw [List.flatMap_cons]
    by_cases hk : a = k
    · subst hk
      have : ks.flatMap (fun k => if a = k then [t] else []) = [] := by
        rw [List.flatMap_eq_nil_iff]
        intro k hk
        have : a ≠ k := fun e => hnd.1 (e ▸ hk)
        simp [this]
      simp [this]
    · have hm : a ∈ ks := by
        rcases List.mem_cons.1 hmem with h | h
        · exact absurd h hk
        · exact h
      simp [hk, ih hnd.2 hm]

/-- grouping by key (keys distinct and covering) is a permutation -/
theorem perm_flatMap_filter_key (key : Track → Nat) (ks : List Nat) (hnd : ks.Nodup) :
    ∀ l : List Track, (∀ t ∈ l, key t ∈ ks) →
      (ks.flatMap fun k => l.filter fun t => key t = k).Perm l := by
  intro l
  induction l with
  | nil => intro _; simp
  | cons t ts ih =>
    intro hmem
    have hsplit : (ks.flatMap fun k => (t :: ts).filter fun u => key u = k)
        = ks.flatMap fun k => (if key t = k then [t] else []) ++ ts.filter fun u => key u = k := by
      congr 1
      funext k
      by_cases hk : key t = k <;> simp [hk]
    rw [hsplit]
    refine (List.flatMap_append_perm ks _ _).symm.trans ?_
    rw [flatMap_ite_singleton t (key t) ks hnd (hmem t (List.mem_cons_self ..))]
    exact List.Perm.cons t (ih fun u hu => hmem u (List.mem_cons_of_mem _ hu))

theorem flatMap_of_map_eq {γ δ ε : Type} (f : γ → Option δ) (g : δ → List ε) (h' : γ → List ε) :
    ∀ (gs : List γ) (parts : List δ), gs.map f = parts.map some →
      (∀ G ∈ gs, ∀ p, f G = some p → g p = h' G) → parts.flatMap g = gs.flatMap h' := by
  intro gs
  induction gs with
  | nil => intro parts hm _; cases parts <;> simp at hm ⊢
  | cons G gs ih =>
    intro parts hm hh
    cases parts with
    | nil => simp at hm
    | cons p ps =>
      simp only [List.map_cons, List.cons.injEq] at hm
      rw [List.flatMap_cons, List.flatMap_cons, hh G (List.mem_cons_self ..) p hm.1,
        ih ps hm.2 fun G' hG' => hh G' (List.mem_cons_of_mem _ hG')]

theorem kept_eq (excl : Bool) (G : List Track) :
    (if excl then G.filter Track.endsDefined else G).filter (fun t => decide (0 < t.duration))
      = G.filter (keep excl) := by
  cases excl
  · simp only [Bool.false_eq_true, if_false]
    exact List.filter_congr fun t _ => by simp [keep, duration_eq]
  · simp only [if_true, List.filter_filter]
    exact List.filter_congr fun t _ => by simp [keep, duration_eq]

theorem zip_rows (R : Track → Rat → Row) : ∀ (kept : List Track) (ms : List Rat),
    kept.map (·.minObs) = ms.map some →
    ((kept.zip ms).map fun x => R x.1 x.2).map some = kept.map fun t => t.minObs.map (R t) := by
  intro kept
  induction kept with
  | nil => intro ms _; simp
  | cons t ts ih =>
    intro ms h
    cases ms with
    | nil => simp at h
    | cons m ms =>
      simp only [List.map_cons, List.cons.injEq] at h
      simp only [List.zip_cons_cons, List.map_cons, h.1, Option.map_some, List.cons.injEq, true_and]
      exact ih ms h.2

theorem extractGroup_rows (excl : Bool) (g0 : Track) (gs : List Track) (rows : List Row) (rem : Bool)
    (hgeo : ∀ t ∈ g0 :: gs, t.nLines = g0.nLines ∧ t.lineTime = g0.lineTime)
    (h : extractGroup excl false (g0 :: gs) = some (rows, rem)) :
    rows.map some = ((g0 :: gs).filter (keep excl)).map specRow? := by
  unfold extractGroup at h
  simp only [kept_eq, Bool.false_eq_true, if_false] at h
  have hnz : ((if excl then (g0 :: gs).filter Track.endsDefined else g0 :: gs).map Track.duration).filter
      (fun x => decide (0 < x)) = ((g0 :: gs).filter (keep excl)).map Track.duration := by
    rw [List.filter_map, ← kept_eq]
    rfl
  rw [hnz] at h
  split at h
  · rename_i hnil
    have : (g0 :: gs).filter (keep excl) = [] := by simpa using hnil
    simp only [Option.some.injEq, Prod.mk.injEq] at h
    rw [this, ← h.1]; rfl
  · split at h
    · exact absurd h (by simp)
    · rename_i ms hms
      simp only [Option.some.injEq, Prod.mk.injEq] at h
      rw [← h.1]
      have hm := (allSome_eq_some _ _).1 hms
      rw [zip_rows (fun t m => ⟨t.duration, m, (g0.nLines : Rat) * g0.lineTime, g0.lineTime⟩) _ ms hm]
      refine List.map_congr_left fun t ht => ?_
      have hg := hgeo t (List.mem_of_mem_filter ht)
      simp only [specRow?, duration_eq, hg.1, hg.2]

theorem mem_tracksByKymo (tracks G : List Track) (hG : G ∈ tracksByKymo tracks) :
    ∃ k g0 gs, G = tracks.filter (fun t => decide (t.kymo = k)) ∧ G = g0 :: gs := by
  unfold tracksByKymo at hG
  obtain ⟨k, hk, rfl⟩ := List.mem_map.1 hG
  have hkmem : k ∈ tracks.map (·.kymo) := (mem_uniqFirst k _).1 hk
  obtain ⟨t0, ht0, hk0⟩ := List.mem_map.1 hkmem
  cases hG' : tracks.filter (fun t => decide (t.kymo = k)) with
  | nil =>
    have : t0 ∈ tracks.filter (fun t => decide (t.kymo = k)) :=
      List.mem_filter.2 ⟨ht0, by simpa using hk0⟩
    rw [hG'] at this; simp at this
  | cons g0 gs => exact ⟨k, g0, gs, hG'.symm ▸ rfl, rfl⟩

theorem extract_rows_perm (excl : Bool) (tracks : List Track) (hc : Consistent tracks)
    (rows : List Row) (rem : Bool) (h : extract excl false tracks = some (rows, rem)) :
    (rows.map some).Perm ((tracks.filter (keep excl)).map specRow?) := by
  unfold extract at h
  split at h
  · exact absurd h (by simp)
  · rename_i parts hparts
    simp only [Option.some.injEq, Prod.mk.injEq] at h
    have hm := (allSome_eq_some _ _).1 hparts
    have hflat : parts.flatMap (fun p => p.1.map some)
        = (tracksByKymo tracks).flatMap (fun G => (G.filter (keep excl)).map specRow?) := by
      refine flatMap_of_map_eq _ _ _ _ parts hm ?_
      intro G hG p hp
      obtain ⟨k, g0, gs, hGk, hGc⟩ := mem_tracksByKymo tracks G hG
      obtain ⟨rows', rem'⟩ := p
      rw [hGc] at hp ⊢
      refine extractGroup_rows excl g0 gs rows' rem' ?_ hp
      intro t ht
      have htm : t ∈ tracks.filter (fun t => decide (t.kymo = k)) := by rw [← hGk, hGc]; exact ht
      have hg0 : g0 ∈ tracks.filter (fun t => decide (t.kymo = k)) := by
        rw [← hGk, hGc]; exact List.mem_cons_self ..
      obtain ⟨ht1, ht2⟩ := List.mem_filter.1 htm
      obtain ⟨hg1, hg2⟩ := List.mem_filter.1 hg0
      simp only [decide_eq_true_eq] at ht2 hg2
      exact hc t ht1 g0 hg1 (by rw [ht2, hg2])
    rw [← h.1, List.map_flatMap, hflat]
    unfold tracksByKymo
    rw [List.flatMap_map]
    have hcomm : (fun k => ((tracks.filter (fun t => decide (t.kymo = k))).filter (keep excl)).map specRow?)
        = fun k => ((tracks.filter (keep excl)).filter (fun t => decide (t.kymo = k))).map specRow? := by
      funext k
      rw [List.filter_filter, List.filter_filter]
      congr 1
      exact List.filter_congr fun t _ => Bool.and_comm _ _
    rw [hcomm, ← List.map_flatMap]
    refine (perm_flatMap_filter_key (·.kymo) _ (nodup_uniqFirst _) _ ?_).map _
    intro t ht
    exact (mem_uniqFirst _ _).2 (List.mem_map.2 ⟨t, List.mem_of_mem_filter ht, rfl⟩)

/-! ### when the extraction refuses, and the `removed_zeros` flag -/

theorem mem_of_map_eq_map_some {γ δ : Type} (f : γ → Option δ) : ∀ (gs : List γ) (parts : List δ),
    gs.map f = parts.map some → ∀ p, p ∈ parts ↔ ∃ G ∈ gs, f G = some p := by
  intro gs
  induction gs with
  | nil => intro parts hm p; cases parts <;> simp at hm ⊢
  | cons G gs ih =>
    intro parts hm p
    cases parts with
    | nil => simp at hm
    | cons q qs =>
      simp only [List.map_cons, List.cons.injEq] at hm
      simp only [List.mem_cons, ih qs hm.2 p, exists_eq_or_imp, hm.1, Option.some.injEq]
      constructor
      · rintro (h | h)
        · exact Or.inl h.symm
        · exact Or.inr h
      · rintro (h | h)
        · exact Or.inl h.symm
        · exact Or.inr h

theorem extractGroup_none_iff (excl : Bool) (g0 : Track) (gs : List Track) :
    extractGroup excl false (g0 :: gs) = none
      ↔ ∃ t ∈ (g0 :: gs).filter (keep excl), t.minObs = none := by
  unfold extractGroup
  simp only [kept_eq, Bool.false_eq_true, if_false]
  have hnz : ((if excl then (g0 :: gs).filter Track.endsDefined else g0 :: gs).map Track.duration).filter
      (fun x => decide (0 < x)) = ((g0 :: gs).filter (keep excl)).map Track.duration := by
    rw [List.filter_map, ← kept_eq]
    rfl
  rw [hnz]
  split
  · rename_i hnil
    have : (g0 :: gs).filter (keep excl) = [] := by simpa using hnil
    simp [this]
  · split
    · rename_i hnone
      have := (allSome_eq_none _).1 hnone
      simp only [List.mem_map] at this
      obtain ⟨t, ht, htn⟩ := this
      simp only [true_iff]
      exact ⟨t, ht, htn⟩
    · rename_i ms hms
      have hm := (allSome_eq_some _ _).1 hms
      simp only [reduceCtorEq, false_iff, not_exists, not_and]
      intro t ht htn
      have : t.minObs ∈ ((g0 :: gs).filter (keep excl)).map (·.minObs) := List.mem_map.2 ⟨t, ht, rfl⟩
      rw [hm, htn] at this
      simp at this

theorem extract_none_iff' (excl : Bool) (tracks : List Track) :
    extract excl false tracks = none ↔ ∃ t ∈ tracks, keep excl t = true ∧ t.minObs = none := by
  unfold extract
  constructor
  · intro h
    split at h
    · rename_i hnone
      have := (allSome_eq_none _).1 hnone
      obtain ⟨G, hG, hGn⟩ := List.mem_map.1 this
      obtain ⟨k, g0, gs, hGk, hGc⟩ := mem_tracksByKymo tracks G hG
      rw [hGc] at hGn
      obtain ⟨t, ht, htn⟩ := (extractGroup_none_iff excl g0 gs).1 hGn
      obtain ⟨ht1, ht2⟩ := List.mem_filter.1 ht
      have : t ∈ tracks := by
        have : t ∈ G := hGc ▸ ht1
        rw [hGk] at this
        exact List.mem_of_mem_filter this
      exact ⟨t, this, ht2, htn⟩
    · exact absurd h (by simp)
  · rintro ⟨t, ht, hk, htn⟩
    have hG : tracks.filter (fun u => decide (u.kymo = t.kymo)) ∈ tracksByKymo tracks := by
      unfold tracksByKymo
      exact List.mem_map.2 ⟨t.kymo, (mem_uniqFirst _ _).2 (List.mem_map.2 ⟨t, ht, rfl⟩), rfl⟩
    obtain ⟨k, g0, gs, _, hGc⟩ := mem_tracksByKymo tracks _ hG
    have htG : t ∈ g0 :: gs := hGc ▸ List.mem_filter.2 ⟨ht, by simp⟩
    have hnone : extractGroup excl false (g0 :: gs) = none :=
      (extractGroup_none_iff excl g0 gs).2 ⟨t, List.mem_filter.2 ⟨htG, hk⟩, htn⟩
    have : none ∈ (tracksByKymo tracks).map (extractGroup excl false) :=
      List.mem_map.2 ⟨_, hG, hGc ▸ hnone⟩
    rw [(allSome_eq_none _).2 this]

theorem filter_length_ne_iff {β : Type} (p : β → Bool) (l : List β) :
    ((l.filter p).length != l.length) = l.any (fun x => !p x) := by
  induction l with
  | nil => simp
  | cons x xs ih =>
    have hle := List.length_filter_le p xs
    by_cases hx : p x = true
    · simp only [List.filter_cons, hx, if_true, List.length_cons, List.any_cons, Bool.not_true,
        Bool.false_or, ← ih]
      by_cases h : (xs.filter p).length = xs.length <;> simp [h]
    · simp only [Bool.not_eq_true] at hx
      simp only [List.filter_cons, hx, Bool.false_eq_true, if_false, List.length_cons, List.any_cons,
        Bool.not_false, Bool.true_or]
      simp only [bne_iff_ne, ne_eq]
      omega

/-- the tracks whose zero duration makes the code warn: not excluded as ambiguous, yet of duration `≤ 0` -/
def zeroDwell (excl : Bool) (t : Track) : Bool := (!excl || t.endsDefined) && !decide (0 < specDuration t)

theorem extractGroup_removed (excl om : Bool) (G : List Track) (rows : List Row) (rem : Bool)
    (h : extractGroup excl om G = some (rows, rem)) : rem = G.any (zeroDwell excl) := by
  have hrem : ∀ dw : List Rat, dw = (if excl then G.filter Track.endsDefined else G).map Track.duration →
      ((dw.filter (fun x => decide (0 < x))).length != dw.length) = G.any (zeroDwell excl) := by
    intro dw hdw
    rw [filter_length_ne_iff, hdw, List.any_map]
    cases excl
    · simp only [Bool.false_eq_true, if_false]
      congr 1; funext t; simp [zeroDwell, duration_eq]
    · simp only [if_true, List.any_filter]
      congr 1; funext t; simp [zeroDwell, duration_eq]
  rw [← hrem _ rfl]
  unfold extractGroup at h
  simp only at h
  generalize (if excl then G.filter Track.endsDefined else G) = tr at h ⊢
  generalize (((tr.map Track.duration).filter fun x => decide (0 < x)).length
    != (tr.map Track.duration).length) = flag at h ⊢
  cases G with
  | nil =>
    simp only [Option.some.injEq, Prod.mk.injEq] at h
    exact h.2.symm
  | cons g0 gs =>
    simp only at h
    by_cases hnz : (tr.map Track.duration).filter (fun x => decide (0 < x)) = []
    · rw [if_pos hnz] at h
      simp only [Option.some.injEq, Prod.mk.injEq] at h
      exact h.2.symm
    · rw [if_neg hnz] at h
      cases om with
      | true =>
        simp only [if_true, Option.some.injEq, Prod.mk.injEq] at h
        exact h.2.symm
      | false =>
        simp only [Bool.false_eq_true, if_false] at h
        split at h
        · exact absurd h (by simp)
        · simp only [Option.some.injEq, Prod.mk.injEq] at h
          exact h.2.symm

theorem extract_removed' (excl om : Bool) (tracks : List Track) (rows : List Row) (rem : Bool)
    (h : extract excl om tracks = some (rows, rem)) : rem = tracks.any (zeroDwell excl) := by
  unfold extract at h
  split at h
  · exact absurd h (by simp)
  · rename_i parts hparts
    simp only [Option.some.injEq, Prod.mk.injEq] at h
    have hm := (allSome_eq_some _ _).1 hparts
    have hmem := mem_of_map_eq_map_some _ _ _ hm
    rw [← h.2, Bool.eq_iff_iff, List.any_eq_true, List.any_eq_true]
    constructor
    · rintro ⟨p, hp, hp2⟩
      obtain ⟨G, hG, hGp⟩ := (hmem p).1 hp
      obtain ⟨r', m'⟩ := p
      have := extractGroup_removed excl om G r' m' hGp
      simp only at hp2
      rw [hp2] at this
      obtain ⟨t, ht, htz⟩ := List.any_eq_true.1 this.symm
      obtain ⟨k, g0, gs, hGk, _⟩ := mem_tracksByKymo tracks G hG
      exact ⟨t, List.mem_of_mem_filter (hGk ▸ ht), htz⟩
    · rintro ⟨t, ht, htz⟩
      have hG : tracks.filter (fun u => decide (u.kymo = t.kymo)) ∈ tracksByKymo tracks := by
        unfold tracksByKymo
        exact List.mem_map.2 ⟨t.kymo, (mem_uniqFirst _ _).2 (List.mem_map.2 ⟨t, ht, rfl⟩), rfl⟩
      have hsome : ∃ p, extractGroup excl om (tracks.filter (fun u => decide (u.kymo = t.kymo))) = some p := by
        have : extractGroup excl om (tracks.filter (fun u => decide (u.kymo = t.kymo)))
            ∈ (tracksByKymo tracks).map (extractGroup excl om) := List.mem_map.2 ⟨_, hG, rfl⟩
        rw [hm] at this
        obtain ⟨p, _, hp⟩ := List.mem_map.1 this
        exact ⟨p, hp.symm⟩
      obtain ⟨⟨r', m'⟩, hp⟩ := hsome
      have hrem := extractGroup_removed excl om _ r' m' hp
      have : (tracks.filter (fun u => decide (u.kymo = t.kymo))).any (zeroDwell excl) = true :=
        List.any_eq_true.2 ⟨t, List.mem_filter.2 ⟨ht, by simp⟩, htz⟩
      exact ⟨(r', m'), (hmem _).2 ⟨_, hG, hp⟩, by simp [hrem, this]⟩

/-! ## odds and ends used by the property statements -/

theorem specE_lt_of_lt (a b tau : ℝ) (ht : 0 < tau) (h : a < b) :
    specE (some b) tau < Real.exp (-a / tau) := by
  unfold specE
  rw [Real.exp_lt_exp]
  have h1 : -b / tau - (-a / tau) = (a - b) / tau := by ring
  have h2 : (a - b) / tau < 0 := div_neg_of_neg_of_pos (by linarith) ht
  linarith

theorem specE_lt (a : ℝ) (tmax : Option ℝ) (tau : ℝ) (ht : 0 < tau) (h : ∀ m, tmax = some m → a < m) :
    specE tmax tau < Real.exp (-a / tau) := by
  cases tmax with
  | none => exact Real.exp_pos _
  | some m => exact specE_lt_of_lt a m tau ht (h m rfl)

theorem scatter_nil : ∀ (ps : List Rat) (fs : List Bool), scatter ps fs [] = ps := by
  intro ps
  induction ps with
  | nil => intro fs; simp [scatter]
  | cons p ps ih =>
    intro fs
    cases fs with
    | nil => simp [scatter]
    | cons f fs => cases f <;> simp [scatter, ih]

theorem fixFree_eq_scatter (n : Nat) : ∀ (ps : List Rat) (fs : List Bool) (v : Rat),
    n ≤ ps.length → n ≤ fs.length → 1 ≤ countTrue n fs → (fixFree n ps fs v).1 = scatter ps fs [v] := by
  induction n with
  | zero => intro ps fs v _ _ h; simp [countTrue] at h
  | succ n ih =>
    intro ps fs v hp hf h1
    match ps, fs, hp, hf with
    | p :: ps, true :: fs, hp, hf => simp [fixFree, scatter, scatter_nil]
    | p :: ps, false :: fs, hp, hf =>
      simp only [countTrue, Bool.false_eq_true, if_false, Nat.zero_add] at h1
      simp only [fixFree, Bool.false_eq_true, if_false, scatter, List.cons.injEq, true_and]
      exact ih ps fs v (by simpa using hp) (by simpa using hf) h1

theorem sum_map_sub_const (ps : List (ℝ × ℝ)) (tmin : ℝ) (h : ∀ p ∈ ps, p.2 = tmin) :
    (ps.map fun p => p.1 - p.2).sum = (ps.map (·.1)).sum - (ps.length : ℝ) * tmin := by
  induction ps with
  | nil => simp
  | cons p ps ih =>
    simp only [List.map_cons, List.sum_cons, List.length_cons]
    rw [ih fun q hq => h q (List.mem_cons_of_mem _ hq), h p (List.mem_cons_self ..)]
    push_cast; ring

/-! ## the analytic gradient of the continuous model (ext) -/

/-- `tmax · e^{-tmax/τ}`, `0` for an unbounded window -/
noncomputable def specME (tmax : Option ℝ) (tau : ℝ) : ℝ :=
  match tmax with
  | none => 0
  | some m => m * Real.exp (-m / tau)

/-- numerator of the density: `Σ a_i/τ_i e^{-t/τ_i}` -/
noncomputable def specP (comps : List (Comp ℝ)) (t : ℝ) : ℝ :=
  (comps.map fun c => c.amp / c.tau * Real.exp (-t / c.tau)).sum

/-- textbook `∂/∂a_c log pdf = (e^{-t/τ_c}/τ_c)/P − (e^{-tmin/τ_c} − e^{-tmax/τ_c})/N` -/
noncomputable def specDa (comps : List (Comp ℝ)) (t tmin : ℝ) (tmax : Option ℝ) (c : Comp ℝ) : ℝ :=
  (Real.exp (-t / c.tau) / c.tau) / specP comps t
    - (Real.exp (-tmin / c.tau) - specE tmax c.tau) / specNormCont comps tmin tmax

/-- textbook `∂/∂τ_c log pdf = a_c e^{-t/τ_c}(t/τ_c³ − 1/τ_c²)/P − a_c (tmin e^{-tmin/τ_c} − tmax e^{-tmax/τ_c})/τ_c²/N` -/
noncomputable def specDtau (comps : List (Comp ℝ)) (t tmin : ℝ) (tmax : Option ℝ) (c : Comp ℝ) : ℝ :=
  (c.amp * Real.exp (-t / c.tau) * (t / c.tau ^ 3 - 1 / c.tau ^ 2)) / specP comps t
    - (c.amp * (tmin * Real.exp (-tmin / c.tau) - specME tmax c.tau) / c.tau ^ 2)
        / specNormCont comps tmin tmax

theorem clipAmp_real (a : ℝ) (h : (1.0e-14 : ℝ) ≤ a) : clipAmp a = a := by
  unfold clipAmp
  simp only [RealLike.lt, decide_eq_true_eq]
  rw [if_neg (not_lt.2 h)]

theorem maxBound_real (tmax : Option ℝ) (tau : ℝ) (h : ∀ m, tmax = some m → m / tau < (1.0e10 : ℝ)) :
    maxBound tmax tau = specME tmax tau := by
  cases tmax with
  | none => simp only [maxBound, specME]; norm_num
  | some m =>
    simp only [maxBound, specME, RealLike.lt, RealLike.exp, decide_eq_true_eq]
    rw [if_pos (h m rfl), neg_div]

theorem specP_pos (comps : List (Comp ℝ)) (hne : comps ≠ []) (hadm : Admissible comps) (t : ℝ) :
    0 < specP comps t :=
  sum_map_pos comps _ hne fun c hc =>
    mul_pos (div_pos (hadm c hc).1 (hadm c hc).2) (Real.exp_pos _)

/-- the code's collapsed chain-rule expressions are the textbook partial derivatives, for every
    component, when the amplitude clip (`a ≥ 1e-14`) and the `t_max/τ < 1e10` mask are inactive -/
theorem gradObsCont_eq_spec (comps : List (Comp ℝ)) (hne : comps ≠ []) (hadm : Admissible comps)
    (hclip : ∀ c ∈ comps, (1.0e-14 : ℝ) ≤ c.amp) (t tmin : ℝ) (tmax : Option ℝ)
    (hwin : ∀ m, tmax = some m → tmin < m)
    (hvalid : ∀ c ∈ comps, ∀ m, tmax = some m → m / c.tau < (1.0e10 : ℝ)) :
    gradObsCont comps t tmin tmax
      = comps.map fun c => (specDa comps t tmin tmax c, specDtau comps t tmin tmax c) := by
  have hw : ∀ c ∈ comps, specE tmax c.tau < Real.exp (-tmin / c.tau) :=
    fun c hc => specE_lt tmin tmax c.tau (hadm c hc).2 hwin
  have hNpos := specNormCont_pos comps hne hadm tmin tmax hw
  have hPpos := specP_pos comps hne hadm t
  have hcs : (comps.map fun c => (⟨clipAmp c.amp, c.tau⟩ : Comp ℝ)) = comps := by
    conv_rhs => rw [← List.map_id comps]
    exact List.map_congr_left fun c hc => by rw [clipAmp_real _ (hclip c hc)]; rfl
  unfold gradObsCont
  simp only [hcs]
  have hN : sumL (comps.map fun c => c.amp * (RealLike.exp ((-tmin) / c.tau) - expNegMax tmax c.tau))
      = specNormCont comps tmin tmax := by
    rw [sumL_eq_sum]; unfold specNormCont
    congr 1
    exact List.map_congr_left fun c _ => by simp only [RealLike.exp, expNegMax_real]
  simp only [hN]
  have h1 : ((1.0 : ℝ)) = 1 := by norm_num
  have hexp : ∀ c ∈ comps, Real.exp (RealLike.log (1.0 / specNormCont comps tmin tmax) + RealLike.log c.amp
      + -RealLike.log c.tau - t / c.tau)
      = c.amp / c.tau * Real.exp (-t / c.tau) * (specNormCont comps tmin tmax)⁻¹ := by
    intro c hc
    obtain ⟨ha, ht⟩ := hadm c hc
    simp only [RealLike.log, h1]
    rw [sub_eq_add_neg, Real.exp_add, Real.exp_add, Real.exp_add, Real.exp_neg (Real.log c.tau),
      Real.exp_log ha, Real.exp_log ht, Real.exp_log (by positivity), neg_div]
    field_simp
  have hS : (comps.map fun c => Real.exp (RealLike.log (1.0 / specNormCont comps tmin tmax)
        + RealLike.log c.amp + -RealLike.log c.tau - t / c.tau)).sum
      = specP comps t * (specNormCont comps tmin tmax)⁻¹ := by
    unfold specP
    rw [← sum_map_mul_const]
    congr 1
    exact List.map_congr_left hexp
  have htot : RealLike.exp (lse (comps.map fun c => RealLike.log (1.0 / specNormCont comps tmin tmax)
        + RealLike.log c.amp + -RealLike.log c.tau - t / c.tau))
      = specP comps t * (specNormCont comps tmin tmax)⁻¹ := by
    simp only [RealLike.exp]
    rw [exp_lse_map comps _ _ hne hexp, sum_map_mul_const]; rfl
  have hsum : sumL ((comps.map fun c => RealLike.log (1.0 / specNormCont comps tmin tmax)
        + RealLike.log c.amp + -RealLike.log c.tau - t / c.tau).map RealLike.exp)
      = specP comps t * (specNormCont comps tmin tmax)⁻¹ := by
    rw [sumL_eq_sum, List.map_map]
    exact hS
  simp only [htot, hsum]
  refine List.map_congr_left fun c hc => ?_
  obtain ⟨ha, ht⟩ := hadm c hc
  have hNne := hNpos.ne'
  have hPne := hPpos.ne'
  have hm1 : ((-1.0 : ℝ)) = -1 := by norm_num
  simp only [RealLike.exp]
  rw [hexp c hc]
  simp only [maxBound_real tmax c.tau (hvalid c hc), expNegMax_real, h1,
    specDa, specDtau, Prod.mk.injEq]
  constructor
  · field_simp
    ring
  · field_simp
    ring

/-! ### the textbook partial derivatives are derivatives -/

theorem specP_split (pre post : List (Comp ℝ)) (c : Comp ℝ) (t : ℝ) :
    specP (pre ++ c :: post) t = specP pre t + (c.amp / c.tau * Real.exp (-t / c.tau) + specP post t) := by
  unfold specP; simp [List.map_append, List.sum_append]

theorem specNormCont_split (pre post : List (Comp ℝ)) (c : Comp ℝ) (tmin : ℝ) (tmax : Option ℝ) :
    specNormCont (pre ++ c :: post) tmin tmax
      = specNormCont pre tmin tmax
        + (c.amp * (Real.exp (-tmin / c.tau) - specE tmax c.tau) + specNormCont post tmin tmax) := by
  unfold specNormCont; simp [List.map_append, List.sum_append]

theorem specPdfCont_eq (comps : List (Comp ℝ)) (tmin t : ℝ) (tmax : Option ℝ) :
    specPdfCont comps tmin tmax t = specP comps t / specNormCont comps tmin tmax := rfl

theorem hasDerivAt_logpdf_amp (pre post : List (Comp ℝ)) (a0 tau t tmin : ℝ) (tmax : Option ℝ)
    (hP : 0 < specP (pre ++ ⟨a0, tau⟩ :: post) t)
    (hN : 0 < specNormCont (pre ++ ⟨a0, tau⟩ :: post) tmin tmax) :
    HasDerivAt (fun a => Real.log (specPdfCont (pre ++ ⟨a, tau⟩ :: post) tmin tmax t))
      (specDa (pre ++ ⟨a0, tau⟩ :: post) t tmin tmax ⟨a0, tau⟩) a0 := by
  have hPd : HasDerivAt (fun a => specP (pre ++ ⟨a, tau⟩ :: post) t)
      (Real.exp (-t / tau) / tau) a0 := by
    have h : HasDerivAt (fun a : ℝ => specP pre t + (a / tau * Real.exp (-t / tau) + specP post t))
        (0 + (1 / tau * Real.exp (-t / tau) + 0)) a0 :=
      (hasDerivAt_const a0 _).add
        ((((hasDerivAt_id' a0).div_const tau).mul_const _).add (hasDerivAt_const a0 _))
    have hf : (fun a => specP (pre ++ ⟨a, tau⟩ :: post) t)
        = fun a : ℝ => specP pre t + (a / tau * Real.exp (-t / tau) + specP post t) :=
      funext fun a => specP_split pre post ⟨a, tau⟩ t
    rw [hf]
    exact h.congr_deriv (by ring)
  have hNd : HasDerivAt (fun a => specNormCont (pre ++ ⟨a, tau⟩ :: post) tmin tmax)
      (Real.exp (-tmin / tau) - specE tmax tau) a0 := by
    have h : HasDerivAt (fun a : ℝ => specNormCont pre tmin tmax
          + (a * (Real.exp (-tmin / tau) - specE tmax tau) + specNormCont post tmin tmax))
        (0 + (1 * (Real.exp (-tmin / tau) - specE tmax tau) + 0)) a0 :=
      (hasDerivAt_const a0 _).add (((hasDerivAt_id' a0).mul_const _).add (hasDerivAt_const a0 _))
    have hf : (fun a => specNormCont (pre ++ ⟨a, tau⟩ :: post) tmin tmax)
        = fun a : ℝ => specNormCont pre tmin tmax
          + (a * (Real.exp (-tmin / tau) - specE tmax tau) + specNormCont post tmin tmax) :=
      funext fun a => specNormCont_split pre post ⟨a, tau⟩ tmin tmax
    rw [hf]
    exact h.congr_deriv (by ring)
  have hq := (hPd.div hNd hN.ne').log (div_pos hP hN).ne'
  simp only [specPdfCont_eq]
  refine hq.congr_deriv ?_
  unfold specDa
  simp only [Pi.div_apply]
  have := hP.ne'
  have := hN.ne'
  field_simp

theorem hasDerivAt_specE (tmax : Option ℝ) (tau0 : ℝ) (ht : tau0 ≠ 0) :
    HasDerivAt (fun tau => specE tmax tau) (specME tmax tau0 / tau0 ^ 2) tau0 := by
  cases tmax with
  | none => simpa [specE, specME] using hasDerivAt_const tau0 (0 : ℝ)
  | some m =>
    simp only [specE, specME]
    have h1 : HasDerivAt (fun tau : ℝ => -m / tau) ((0 * tau0 - -m * 1) / tau0 ^ 2) tau0 :=
      (hasDerivAt_const tau0 (-m)).div (hasDerivAt_id' tau0) ht
    exact h1.exp.congr_deriv (by ring)

theorem hasDerivAt_logpdf_tau (pre post : List (Comp ℝ)) (a tau0 t tmin : ℝ) (tmax : Option ℝ)
    (ht : 0 < tau0)
    (hP : 0 < specP (pre ++ ⟨a, tau0⟩ :: post) t)
    (hN : 0 < specNormCont (pre ++ ⟨a, tau0⟩ :: post) tmin tmax) :
    HasDerivAt (fun tau => Real.log (specPdfCont (pre ++ ⟨a, tau⟩ :: post) tmin tmax t))
      (specDtau (pre ++ ⟨a, tau0⟩ :: post) t tmin tmax ⟨a, tau0⟩) tau0 := by
  have hexp : ∀ x : ℝ, HasDerivAt (fun tau : ℝ => Real.exp (-x / tau))
      (Real.exp (-x / tau0) * (x / tau0 ^ 2)) tau0 := by
    intro x
    have h1 : HasDerivAt (fun tau : ℝ => -x / tau) ((0 * tau0 - -x * 1) / tau0 ^ 2) tau0 :=
      (hasDerivAt_const tau0 (-x)).div (hasDerivAt_id' tau0) ht.ne'
    exact h1.exp.congr_deriv (by ring)
  have hPd : HasDerivAt (fun tau => specP (pre ++ ⟨a, tau⟩ :: post) t)
      (a * Real.exp (-t / tau0) * (t / tau0 ^ 3 - 1 / tau0 ^ 2)) tau0 := by
    have hdiv : HasDerivAt (fun tau : ℝ => a / tau) ((0 * tau0 - a * 1) / tau0 ^ 2) tau0 :=
      (hasDerivAt_const tau0 a).div (hasDerivAt_id' tau0) ht.ne'
    have h := (hasDerivAt_const tau0 (specP pre t)).add
      ((hdiv.mul (hexp t)).add (hasDerivAt_const tau0 (specP post t)))
    have hf : (fun tau => specP (pre ++ ⟨a, tau⟩ :: post) t)
        = fun tau : ℝ => specP pre t + (a / tau * Real.exp (-t / tau) + specP post t) :=
      funext fun tau => specP_split pre post ⟨a, tau⟩ t
    rw [hf]
    refine h.congr_deriv ?_
    have := ht.ne'
    field_simp
    ring
  have hNd : HasDerivAt (fun tau => specNormCont (pre ++ ⟨a, tau⟩ :: post) tmin tmax)
      (a * (tmin * Real.exp (-tmin / tau0) - specME tmax tau0) / tau0 ^ 2) tau0 := by
    have h := (hasDerivAt_const tau0 (specNormCont pre tmin tmax)).add
      ((((hexp tmin).sub (hasDerivAt_specE tmax tau0 ht.ne')).const_mul a).add
        (hasDerivAt_const tau0 (specNormCont post tmin tmax)))
    have hf : (fun tau => specNormCont (pre ++ ⟨a, tau⟩ :: post) tmin tmax)
        = fun tau : ℝ => specNormCont pre tmin tmax
          + (a * (Real.exp (-tmin / tau) - specE tmax tau) + specNormCont post tmin tmax) :=
      funext fun tau => specNormCont_split pre post ⟨a, tau⟩ tmin tmax
    rw [hf]
    refine h.congr_deriv ?_
    have := ht.ne'
    field_simp
    ring
  have hq := (hPd.div hNd hN.ne').log (div_pos hP hN).ne'
  simp only [specPdfCont_eq]
  refine hq.congr_deriv ?_
  unfold specDtau
  simp only [Pi.div_apply]
  have := hP.ne'
  have := hN.ne'
  have := ht.ne'
  field_simp

/-! ### putting it together for the model's log-likelihood -/

theorem logLikObs_eq_log_spec (comps : List (Comp ℝ)) (hne : comps ≠ []) (hadm : Admissible comps)
    (tmin t : ℝ) (tmax : Option ℝ) (hwin : ∀ m, tmax = some m → tmin < m) :
    logLikObs comps ⟨t, tmin, tmax, none⟩ = Real.log (specPdfCont comps tmin tmax t) := by
  have h := pdf_cont_eq_spec comps hne hadm tmin t tmax
    fun c hc => specE_lt tmin tmax c.tau (hadm c hc).2 hwin
  unfold pdfCont pdf at h
  simp only [RealLike.exp] at h
  rw [← h, Real.log_exp]

theorem admissible_replace (pre post : List (Comp ℝ)) (c c' : Comp ℝ)
    (h : Admissible (pre ++ c :: post)) (hc' : 0 < c'.amp ∧ 0 < c'.tau) :
    Admissible (pre ++ c' :: post) := by
  intro x hx
  simp only [List.mem_append, List.mem_cons] at hx
  rcases hx with hx | rfl | hx
  · exact h x (by simp [hx])
  · exact hc'
  · exact h x (by simp [hx])

theorem getD_map_mid {β γ : Type} (f : β → γ) (pre post : List β) (c : β) (d : γ) :
    ((pre ++ c :: post).map f).getD pre.length d = f c := by
  simp [List.getD_eq_getElem?_getD]

/-! ## `DwelltimeModel.pdf` of data pooled from several observation windows -/

section pooled
open MeasureTheory Set

theorem continuous_specPdfCont (comps : List (Comp ℝ)) (tmin : ℝ) (tmax : Option ℝ) :
    Continuous fun t => specPdfCont comps tmin tmax t := by
  unfold specPdfCont
  refine (continuous_sum_map comps (fun c s => c.amp / c.tau * Real.exp (-s / c.tau)) ?_).div_const _
  intro c _
  exact continuous_const.mul (Real.continuous_exp.comp ((continuous_id.neg).div_const _))

/-- a function masked to `[a, b)` integrates over any interval containing `[a, b]` to its integral over `[a, b]` -/
theorem integral_indicator_Ico (f : ℝ → ℝ) (lo hi a b : ℝ) (h1 : lo ≤ a) (h2 : a ≤ b) (h3 : b ≤ hi) :
    ∫ x in lo..hi, (Ico a b).indicator f x = ∫ x in a..b, f x := by
  rw [intervalIntegral.integral_of_le (by linarith), intervalIntegral.integral_of_le h2,
    setIntegral_indicator measurableSet_Ico]
  apply setIntegral_congr_set
  have hset : (Ioc lo hi ∩ Ioo a b : Set ℝ) = Ioo a b := by
    ext x
    simp only [mem_inter_iff, mem_Ioc, mem_Ioo]
    constructor
    · exact fun h => h.2
    · exact fun h => ⟨⟨by linarith [h.1], by linarith [h.2]⟩, h⟩
  have h4 : (Ioc lo hi ∩ Ico a b : Set ℝ) =ᵐ[volume] (Ioc lo hi ∩ Ioo a b : Set ℝ) :=
    ae_eq_set_inter (ae_eq_refl _) Ioo_ae_eq_Ico.symm
  rw [hset] at h4
  exact h4.trans Ioo_ae_eq_Ioc

theorem integral_list_sum {β : Type} (l : List β) (F : β → ℝ → ℝ) (lo hi : ℝ)
    (hint : ∀ c ∈ l, IntervalIntegrable (F c) volume lo hi) :
    ∫ x in lo..hi, (l.map fun c => F c x).sum = (l.map fun c => ∫ x in lo..hi, F c x).sum := by
  induction l with
  | nil => simp
  | cons c cs ih =>
    have hc := hint c (List.mem_cons_self ..)
    have hcs : ∀ d ∈ cs, IntervalIntegrable (F d) volume lo hi := fun d hd => hint d (List.mem_cons_of_mem _ hd)
    have hsum : IntervalIntegrable (fun x => (cs.map fun d => F d x).sum) volume lo hi := by
      clear ih hc hint
      induction cs with
      | nil => simp
      | cons d ds ih2 =>
        simp only [List.map_cons, List.sum_cons]
        exact (hcs d (List.mem_cons_self ..)).add (ih2 fun e he => hcs e (List.mem_cons_of_mem _ he))
    simp only [List.map_cons, List.sum_cons]
    rw [intervalIntegral.integral_add hc hsum, ih hcs]


/-! ## `DwelltimeModel.pdf` of pooled observation windows -/

theorem logComps_length (comps : List (Comp ℝ)) (o : Obs ℝ) : (logComps comps o).length = comps.length := by
  unfold logComps
  cases o.step <;> simp

theorem sumL_pdfRows (comps : List (Comp ℝ)) (hne : comps ≠ []) (o : Obs ℝ) :
    sumL (pdfRows comps o) = pdf comps o := by
  have h : logComps comps o ≠ [] := by
    intro h0
    have := logComps_length comps o
    rw [h0] at this
    exact hne (List.length_eq_zero_iff.mp this.symm)
  unfold pdfRows pdf logLikObs
  rw [sumL_eq_sum]
  exact (exp_lse _ h).symm

theorem addRows_length : ∀ (a b : List ℝ), a.length = b.length → (addRows a b).length = a.length
  | [], [], _ => rfl
  | [], _ :: _, h => by simp at h
  | _ :: _, [], h => by simp at h
  | x :: xs, y :: ys, h => by
    simp only [addRows, List.length_cons]
    rw [addRows_length xs ys (by simpa using h)]

theorem sumL_addRows : ∀ (a b : List ℝ), a.length = b.length → sumL (addRows a b) = sumL a + sumL b
  | [], [], _ => by simp only [addRows, sumL]; norm_num
  | [], _ :: _, h => by simp at h
  | _ :: _, [], h => by simp at h
  | x :: xs, y :: ys, h => by
    simp only [addRows, sumL]
    rw [sumL_addRows xs ys (by simpa using h)]; ring

theorem sumL_foldl_addRows {β : Type} (n : Nat) (g : β → List ℝ) :
    ∀ (l : List β) (acc : List ℝ), acc.length = n → (∀ c ∈ l, (g c).length = n) →
      sumL (l.foldl (fun acc c => addRows acc (g c)) acc) = sumL acc + (l.map fun c => sumL (g c)).sum
  | [], acc, _, _ => by simp
  | c :: cs, acc, hacc, hg => by
    have hc := hg c (List.mem_cons_self ..)
    simp only [List.foldl_cons, List.map_cons, List.sum_cons]
    rw [sumL_foldl_addRows n g cs (addRows acc (g c)) (by rw [addRows_length _ _ (by omega)]; exact hacc)
      (fun d hd => hg d (List.mem_cons_of_mem _ hd)), sumL_addRows _ _ (by omega)]
    ring

theorem sumL_zeros {β : Type} (l : List β) : sumL (l.map fun _ => (0.0 : ℝ)) = 0 := by
  rw [sumL_eq_sum]
  induction l with
  | nil => simp
  | cons x xs ih => simp only [List.map_cons, List.sum_cons, ih]; norm_num

/-- the weighted, masked sub-density of one set of limits (continuous model), read at the reals -/
theorem sumL_classPdfRows (comps : List (Comp ℝ)) (hne : comps ≠ []) (total : ℝ) (c : LimitClass ℝ) (m : ℝ)
    (hstep : c.step = none) (hmax : c.tmax = some m) (x : ℝ) :
    sumL (classPdfRows comps total c x x)
      = c.count / total * (Ico c.tmin m).indicator (fun t => pdfCont comps c.tmin c.tmax t) x := by
  unfold classPdfRows
  simp only [hstep]
  have hmap : ∀ k : ℝ, sumL ((pdfRows comps ⟨x, c.tmin, c.tmax, none⟩).map fun p => c.count / total * k * p * 1.0)
      = c.count / total * k * pdfCont comps c.tmin c.tmax x := by
    intro k
    have : (fun p : ℝ => c.count / total * k * p * 1.0) = fun p => p * (c.count / total * k) := by
      funext p; norm_num; ring
    rw [sumL_eq_sum, this, sum_map_mul_const, List.map_id', ← sumL_eq_sum, sumL_pdfRows comps hne]
    unfold pdfCont; ring
  by_cases hx : x ∈ Ico c.tmin m
  · have hw : inWindow c.tmin c.tmax x = true := by
      simp only [inWindow, hmax, RealLike.le, RealLike.lt, Bool.and_eq_true, decide_eq_true_eq]
      exact hx
    rw [if_pos hw, hmap, indicator_of_mem hx]; norm_num
  · have hw : ¬ inWindow c.tmin c.tmax x = true := by
      simp only [inWindow, hmax, RealLike.le, RealLike.lt, Bool.and_eq_true, decide_eq_true_eq]
      exact hx
    rw [if_neg hw, hmap, indicator_of_notMem hx]; norm_num


/-- the limits of a class of the continuous model with a finite window inside `[lo, hi]` -/
def WindowIn (lo hi : ℝ) (c : LimitClass ℝ) : Prop :=
  c.step = none ∧ ∃ m, c.tmax = some m ∧ lo ≤ c.tmin ∧ c.tmin < m ∧ m ≤ hi

theorem pooledPdf_eq (comps : List (Comp ℝ)) (hne : comps ≠ []) (classes : List (LimitClass ℝ)) (lo hi : ℝ)
    (hcls : ∀ c ∈ classes, WindowIn lo hi c) (x : ℝ) :
    pooledPdf comps classes x (fun _ => x)
      = (classes.map fun c => c.count / sumL (classes.map (·.count))
          * (Ico c.tmin (c.tmax.getD 0)).indicator (fun t => pdfCont comps c.tmin c.tmax t) x).sum := by
  unfold pooledPdf pooledPdfRows
  have hlen : ∀ c ∈ classes, (classPdfRows comps (sumL (classes.map (·.count))) c x x).length = comps.length := by
    intro c _
    unfold classPdfRows pdfRows
    rw [List.length_map, List.length_map, logComps_length]
  rw [sumL_foldl_addRows comps.length _ classes _ (by simp) hlen, sumL_zeros, zero_add]
  congr 1
  refine List.map_congr_left fun c hc => ?_
  obtain ⟨hstep, m, hmax, -⟩ := hcls c hc
  rw [sumL_classPdfRows comps hne _ c m hstep hmax x, hmax]
  rfl

end pooled

end Verif.C15
