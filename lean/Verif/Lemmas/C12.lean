/-
  Helper lemmas for C12: the `ℝ` reading of the model's formulas and the algebra behind the
  Cardano / trigonometric roots, the cubic forms of the model equations and the parameter routing.
-/
import Verif.Model.C12
import Verif.NumReal
import Mathlib.Tactic.Ring
import Mathlib.Tactic.Linarith
import Mathlib.Tactic.FieldSimp
import Mathlib.Tactic.Positivity
import Mathlib.Tactic.NormNum
import Mathlib.Analysis.SpecialFunctions.Trigonometric.Basic
import Mathlib.Analysis.SpecialFunctions.Trigonometric.Deriv
import Mathlib.Topology.Order.IntermediateValue
import Mathlib.Analysis.Calculus.Deriv.MeanValue
import Mathlib.Analysis.Calculus.Deriv.Inv
import Mathlib.Analysis.SpecialFunctions.Trigonometric.DerivHyp
import Mathlib.Topology.Algebra.Polynomial

namespace Verif.C12
open Verif

/-- the `ℝ` reading of the extra operations -/
noncomputable instance : Ops ℝ where
  cosh := Real.cosh
  sinh := Real.sinh
  clip := RealLike.clip
  selGe0 det A B := if 0 ≤ det then A else B

/-! ### real forms of the definitions -/

theorem depP_real (a b : ℝ) : depP a b = b - a ^ 2 / 3 := by
  simp only [depP]; norm_num; ring

theorem depQ_real (a b c : ℝ) : depQ a b c = 2 * a ^ 3 / 27 - a * b / 3 + c := by
  simp only [depQ]; norm_num; ring

theorem disc_real (p q : ℝ) : disc p q = q ^ 2 / 4 + p ^ 3 / 27 := by
  simp only [disc]; norm_num; ring

theorem cardano_real (q det : ℝ) :
    cardano q det = Real.cbrt (-q / 2 + √det) + Real.cbrt (-q / 2 - √det) := by
  simp only [cardano, RealLike.sqrt, RealLike.cbrt]; norm_num
  have e : -(q * (1 / 2)) = -q / 2 := by ring
  rw [e]

theorem asinArgRaw_real (p q : ℝ) : asinArgRaw p q = 3 * √3 * q / (2 * √(-p) ^ 3) := by
  simp only [asinArgRaw, RealLike.sqrt]; norm_num; ring_nf

theorem clip_real_of_mem {x : ℝ} (h1 : -1 ≤ x) (h2 : x ≤ 1) :
    (Ops.clip x (-1.0) 1.0 : ℝ) = x := by
  show RealLike.clip x (-1.0) 1.0 = x
  simp only [RealLike.clip, RealLike.lt]
  have e1 : ¬ x < (-1.0 : ℝ) := by norm_num; linarith
  have e2 : ¬ (1.0 : ℝ) < x := by norm_num; linarith
  simp [e1, e2]

theorem selGe0_real (det A B : ℝ) : (Ops.selGe0 det A B : ℝ) = if 0 ≤ det then A else B := rfl

theorem cube_inj {x y : ℝ} (h : x ^ 3 = y ^ 3) : x = y :=
  (Odd.strictMono_pow (by decide : Odd 3)).injective h

theorem cbrt_pow3 (x : ℝ) : Real.cbrt x ^ 3 = x := by
  have := Real.cbrt_cube x
  calc Real.cbrt x ^ 3 = Real.cbrt x * Real.cbrt x * Real.cbrt x := by ring
    _ = x := this

/-- Cardano: for `det = q²/4 + p³/27 ≥ 0` the value is a root of the depressed cubic. -/
theorem cardano_is_root (p q : ℝ) (hdet : 0 ≤ q ^ 2 / 4 + p ^ 3 / 27) :
    let y := Real.cbrt (-q / 2 + √(q ^ 2 / 4 + p ^ 3 / 27)) + Real.cbrt (-q / 2 - √(q ^ 2 / 4 + p ^ 3 / 27))
    y ^ 3 + p * y + q = 0 := by
  intro y
  set s := √(q ^ 2 / 4 + p ^ 3 / 27) with hs
  set u := Real.cbrt (-q / 2 + s) with hu
  set v := Real.cbrt (-q / 2 - s) with hv
  have hs2 : s ^ 2 = q ^ 2 / 4 + p ^ 3 / 27 := Real.sq_sqrt hdet
  have hu3 : u ^ 3 = -q / 2 + s := cbrt_pow3 _
  have hv3 : v ^ 3 = -q / 2 - s := cbrt_pow3 _
  have huv : u * v = -p / 3 := by
    apply cube_inj
    have : (u * v) ^ 3 = u ^ 3 * v ^ 3 := by ring
    rw [this, hu3, hv3]
    have : (-q / 2 + s) * (-q / 2 - s) = q ^ 2 / 4 - s ^ 2 := by ring
    rw [this, hs2]; ring
  have : y ^ 3 = u ^ 3 + v ^ 3 + 3 * (u * v) * y := by
    show (u + v) ^ 3 = _
    ring
  rw [this, hu3, hv3, huv]; ring

/-- facts shared by the three trigonometric roots when the discriminant is negative -/
theorem trig_setup (p q : ℝ) (hdet : q ^ 2 / 4 + p ^ 3 / 27 < 0) :
    0 < √(-p) ∧ √(-p) ^ 2 = -p ∧
    -1 ≤ 3 * √3 * q / (2 * √(-p) ^ 3) ∧ 3 * √3 * q / (2 * √(-p) ^ 3) ≤ 1 := by
  have hp : p < 0 := by
    by_contra h
    have h' : 0 ≤ p := not_lt.mp h
    have : 0 ≤ p ^ 3 := by positivity
    nlinarith [sq_nonneg q]
  have hmp : 0 < -p := by linarith
  set s := √(-p) with hs
  have hspos : 0 < s := Real.sqrt_pos.mpr hmp
  have hs2 : s ^ 2 = -p := Real.sq_sqrt hmp.le
  have h3sq : (√3 : ℝ) ^ 2 = 3 := Real.sq_sqrt (by norm_num)
  set F := 3 * √3 * q / (2 * s ^ 3) with hF
  have hs6 : s ^ 6 = -(p ^ 3) := by
    have : s ^ 6 = (s ^ 2) ^ 3 := by ring
    rw [this, hs2]; ring
  have hF2 : F ^ 2 < 1 := by
    have : F ^ 2 = 27 * q ^ 2 / (4 * s ^ 6) := by
      rw [hF]; field_simp; nlinarith [h3sq]
    rw [this, div_lt_one (by positivity)]
    rw [hs6]; nlinarith
  refine ⟨hspos, hs2, ?_, ?_⟩ <;> nlinarith


/-- algebra shared by the three trigonometric roots: `r = √3`, `w` a solution of `4w³ - 3w = -F` -/
theorem trig_alg (s p q F w r : ℝ) (hr : r ^ 2 = 3) (hs2 : s ^ 2 = -p) (hq : q = 2 * s ^ 3 * F * r / 9)
    (hw : 4 * w ^ 3 - 3 * w = -F) :
    ((2 * r / 3) * s * w) ^ 3 + p * ((2 * r / 3) * s * w) + q = 0 := by
  have hp : p = -(s ^ 2) := by linarith
  subst hq; rw [hp]
  linear_combination (8 * s ^ 3 * w ^ 3 * r / 27) * hr + (2 * r * s ^ 3 / 9) * hw

theorem two_div_sqrt3 : (2 : ℝ) / √3 = 2 * √3 / 3 := by
  have h3sq : (√3 : ℝ) ^ 2 = 3 := Real.sq_sqrt (by norm_num)
  have h3pos : (0 : ℝ) < √3 := Real.sqrt_pos.mpr (by norm_num)
  field_simp; linarith

/-- the three values of the `det < 0` branch, with `F` the (unclipped) arcsine argument -/
theorem trig_roots (p q : ℝ) (hdet : q ^ 2 / 4 + p ^ 3 / 27 < 0) :
    let s := √(-p)
    let F := 3 * √3 * q / (2 * s ^ 3)
    let t := 1 / 3 * Real.arcsin F
    (2 / √3 * s * Real.sin t) ^ 3 + p * (2 / √3 * s * Real.sin t) + q = 0 ∧
    (-2 / √3 * s * Real.sin (t + Real.pi / 3)) ^ 3 + p * (-2 / √3 * s * Real.sin (t + Real.pi / 3)) + q = 0 ∧
    (2 / √3 * s * Real.cos (t + Real.pi / 6)) ^ 3 + p * (2 / √3 * s * Real.cos (t + Real.pi / 6)) + q = 0 := by
  intro s F t
  obtain ⟨hspos, hs2, hF1, hF2⟩ := trig_setup p q hdet
  have h3sq : (√3 : ℝ) ^ 2 = 3 := Real.sq_sqrt (by norm_num)
  have h3pos : (0 : ℝ) < √3 := Real.sqrt_pos.mpr (by norm_num)
  have hsne : s ≠ 0 := hspos.ne'
  have hF : F * (2 * s ^ 3) = 3 * √3 * q := by
    show 3 * √3 * q / (2 * s ^ 3) * (2 * s ^ 3) = _
    field_simp
  have hq : q = 2 * s ^ 3 * F * √3 / 9 := by
    linear_combination (-(√3) / 9) * hF + (-(q / 3)) * h3sq
  have hsin3 : Real.sin (3 * t) = F := by
    have : 3 * t = Real.arcsin F := by show 3 * (1 / 3 * Real.arcsin F) = _; ring
    rw [this, Real.sin_arcsin hF1 hF2]
  have e2 : (-2 : ℝ) / √3 = -(2 * √3 / 3) := by rw [neg_div, two_div_sqrt3]
  refine ⟨?_, ?_, ?_⟩
  · rw [two_div_sqrt3]
    have hw : 4 * Real.sin t ^ 3 - 3 * Real.sin t = -F := by
      have := Real.sin_three_mul t; rw [hsin3] at this; linarith
    exact trig_alg s p q F (Real.sin t) (√3) h3sq hs2 hq hw
  · rw [e2]
    have h3 : Real.sin (3 * (t + Real.pi / 3)) = -F := by
      have : 3 * (t + Real.pi / 3) = 3 * t + Real.pi := by ring
      rw [this, Real.sin_add_pi, hsin3]
    have hw : 4 * (-Real.sin (t + Real.pi / 3)) ^ 3 - 3 * (-Real.sin (t + Real.pi / 3)) = -F := by
      have := Real.sin_three_mul (t + Real.pi / 3); rw [h3] at this; linarith
    have := trig_alg s p q F (-Real.sin (t + Real.pi / 3)) (√3) h3sq hs2 hq hw
    have e : -(2 * √3 / 3) * s * Real.sin (t + Real.pi / 3)
        = 2 * √3 / 3 * s * -Real.sin (t + Real.pi / 3) := by ring
    rw [e]; exact this
  · rw [two_div_sqrt3]
    have h3 : Real.cos (3 * (t + Real.pi / 6)) = -F := by
      have : 3 * (t + Real.pi / 6) = 3 * t + Real.pi / 2 := by ring
      rw [this, Real.cos_add_pi_div_two, hsin3]
    have hw : 4 * Real.cos (t + Real.pi / 6) ^ 3 - 3 * Real.cos (t + Real.pi / 6) = -F := by
      have := Real.cos_three_mul (t + Real.pi / 6); rw [h3] at this; linarith
    exact trig_alg s p q F (Real.cos (t + Real.pi / 6)) (√3) h3sq hs2 hq hw

/-- for a negative discriminant the `np.clip(·, -1, 1)` of the code is the identity -/
theorem asinArg_real (p q : ℝ) (hdet : q ^ 2 / 4 + p ^ 3 / 27 < 0) :
    asinArg p q = 3 * √3 * q / (2 * √(-p) ^ 3) := by
  obtain ⟨_, _, hF1, hF2⟩ := trig_setup p q hdet
  unfold asinArg
  rw [asinArgRaw_real, clip_real_of_mem hF1 hF2]

theorem trigRoot_real (p q : ℝ) (k : ℕ) :
    trigRoot p q k =
      match k with
      | 0 => 2 / √3 * √(-p) * Real.sin (1 / 3 * Real.arcsin (asinArg p q))
      | 1 => -2 / √3 * √(-p) * Real.sin (1 / 3 * Real.arcsin (asinArg p q) + Real.pi / 3)
      | _ => 2 / √3 * √(-p) * Real.cos (1 / 3 * Real.arcsin (asinArg p q) + Real.pi / 6) := by
  match k with
  | 0 => simp only [trigRoot, RealLike.sqrt, RealLike.arcsin, RealLike.sin]; norm_num
  | 1 => simp only [trigRoot, RealLike.sqrt, RealLike.arcsin, RealLike.sin, RealLike.pi]; norm_num
  | (n + 2) => simp only [trigRoot, RealLike.sqrt, RealLike.arcsin, RealLike.cos, RealLike.pi]; norm_num

theorem depressedRoot_is_root (p q : ℝ) (k : ℕ) :
    depressedRoot p q k ^ 3 + p * depressedRoot p q k + q = 0 := by
  unfold depressedRoot
  simp only [selGe0_real, disc_real]
  split_ifs with h
  · rw [cardano_real]; exact cardano_is_root p q h
  · have hdet : q ^ 2 / 4 + p ^ 3 / 27 < 0 := not_le.mp h
    obtain ⟨h0, h1, h2⟩ := trig_roots p q hdet
    rw [trigRoot_real, asinArg_real p q hdet]
    match k with
    | 0 => exact h0
    | 1 => exact h1
    | (n + 2) => exact h2

theorem calcCubicRoot_real (a b c : ℝ) (k : ℕ) :
    calcCubicRoot a b c k = depressedRoot (depP a b) (depQ a b c) k - a / 3 := by
  simp only [calcCubicRoot]; norm_num

theorem calcCubicRoot_is_root (a b c : ℝ) (k : ℕ) :
    calcCubicRoot a b c k ^ 3 + a * calcCubicRoot a b c k ^ 2 + b * calcCubicRoot a b c k + c = 0 := by
  rw [calcCubicRoot_real]
  have h := depressedRoot_is_root (depP a b) (depQ a b c) k
  set t := depressedRoot (depP a b) (depQ a b c) k
  rw [depP_real, depQ_real] at h
  linear_combination h


/-! ### the model equations and their cubic forms -/

theorem odijkDistance_real (f Lp Lc St kT : ℝ) :
    odijkDistance f Lp Lc St kT = Lc * (1 - 1 / 2 * √(kT / (f * Lp)) + f / St) := by
  simp only [odijkDistance, RealLike.sqrt]; norm_num

theorem odijkForceCoeffs_real (d Lp Lc St kT : ℝ) :
    odijkForceCoeffs d Lp Lc St kT =
      (-2 * (d / Lc - 1) * St, (d / Lc - 1) ^ 2 * St ^ 2, -(1 / 4) * (kT / Lp) * St ^ 2) := by
  simp only [odijkForceCoeffs]
  refine Prod.ext ?_ (Prod.ext ?_ ?_)
  · show (-2.0 : ℝ) * (d / Lc - 1.0) * St = _
    norm_num
  · show ((d / Lc - 1.0) * (d / Lc - 1.0)) * (St * St) = (d / Lc - 1) ^ 2 * St ^ 2
    norm_num; ring
  · show (-0.25 : ℝ) * (kT / Lp) * (St * St) = -(1 / 4) * (kT / Lp) * St ^ 2
    have : (-0.25 : ℝ) = -(1 / 4) := by norm_num
    rw [this]; ring

theorem msForce_real (d Lp Lc kT : ℝ) :
    msForce d Lp Lc kT = kT / Lp * (1 / 4 * (1 / ((1 - d / Lc) * (1 - d / Lc))) + d / Lc - 1 / 4) := by
  simp only [msForce]; norm_num

theorem emsResidual_real (f d Lp Lc St kT : ℝ) :
    emsResidual f d Lp Lc St kT =
      1 / 4 * (1 / ((1 - d / Lc + f / St) * (1 - d / Lc + f / St))) - 1 / 4 + d / Lc - f / St - f * Lp / kT := by
  simp only [emsResidual]; norm_num

/-- Marko–Siggia: `(F - F_MS(d))·Lp·Lc·(Lc-d)² = -kT·P(d)` with the code's coefficients -/
theorem ms_identity (F d Lp Lc kT : ℝ) (hLp : Lp ≠ 0) (hLc : Lc ≠ 0) (hkT : kT ≠ 0) (hd : d ≠ Lc) :
    (F - msForce d Lp Lc kT) * (Lp * Lc * (Lc - d) ^ 2) =
      -kT * (d ^ 3 + (msDistanceCoeffs F Lp Lc kT).1 * d ^ 2 + (msDistanceCoeffs F Lp Lc kT).2.1 * d
              + (msDistanceCoeffs F Lp Lc kT).2.2) := by
  have h1 : Lc - d ≠ 0 := sub_ne_zero.mpr (Ne.symm hd)
  have h2 : 1 - d / Lc ≠ 0 := by
    intro h; apply h1; field_simp at h; linarith
  rw [msForce_real]
  simp only [msDistanceCoeffs]
  norm_num
  field_simp
  ring


/-- the residual of the extensible Marko–Siggia relation, cleared of its one denominator -/
theorem emsResidual_mul_sq (F d Lp Lc St kT : ℝ) (hy : 1 - d / Lc + F / St ≠ 0) :
    emsResidual F d Lp Lc St kT * (1 - d / Lc + F / St) ^ 2 =
      1 / 4 - (1 / 4 - d / Lc + F / St + F * Lp / kT) * (1 - d / Lc + F / St) ^ 2 := by
  rw [emsResidual_real]
  set Y := 1 - d / Lc + F / St with hY
  field_simp
  ring

/-- extensible Marko–Siggia as a cubic in the force: `R·y²·St³·kT = -(Lp St + kT)·P(F)` -/
theorem ems_identity_force (F d Lp Lc St kT : ℝ) (hLc : Lc ≠ 0) (hSt : St ≠ 0) (hkT : kT ≠ 0)
    (hden : Lp * St + kT ≠ 0) (hy : 1 - d / Lc + F / St ≠ 0) :
    emsResidual F d Lp Lc St kT * ((1 - d / Lc + F / St) ^ 2 * (St ^ 3 * kT)) =
      -(Lp * St + kT) * (F ^ 3 + (emsForceCoeffs d Lp Lc St kT).1 * F ^ 2
        + (emsForceCoeffs d Lp Lc St kT).2.1 * F + (emsForceCoeffs d Lp Lc St kT).2.2) := by
  rw [← mul_assoc, emsResidual_mul_sq F d Lp Lc St kT hy]
  have hden' : St * Lp + kT ≠ 0 := by rwa [mul_comm]
  simp only [emsForceCoeffs]
  norm_num
  field_simp
  ring

/-- extensible Marko–Siggia as a cubic in the distance: `R·y²·Lc³ = P(d)` -/
theorem ems_identity_distance (F d Lp Lc St kT : ℝ) (hLc : Lc ≠ 0) (hSt : St ≠ 0) (hkT : kT ≠ 0)
    (hy : 1 - d / Lc + F / St ≠ 0) :
    emsResidual F d Lp Lc St kT * ((1 - d / Lc + F / St) ^ 2 * Lc ^ 3) =
      d ^ 3 + (emsDistanceCoeffs F Lp Lc St kT).1 * d ^ 2
        + (emsDistanceCoeffs F Lp Lc St kT).2.1 * d + (emsDistanceCoeffs F Lp Lc St kT).2.2 := by
  rw [← mul_assoc, emsResidual_mul_sq F d Lp Lc St kT hy]
  simp only [emsDistanceCoeffs]
  norm_num
  field_simp
  ring


/-- Odijk: on `F > 0` the model equation is the code's cubic plus the sign condition `α·St ≤ F`
    (the cubic is the square of the equation, so it also has the roots of the mirrored equation) -/
theorem odijk_iff_aux (F d Lp Lc St kT : ℝ) (hF : 0 < F) (hLp : 0 < Lp) (hLc : 0 < Lc) (hSt : 0 < St)
    (hkT : 0 < kT) :
    d = Lc * (1 - 1 / 2 * √(kT / (F * Lp)) + F / St) ↔
      (F ^ 3 + (-2 * (d / Lc - 1) * St) * F ^ 2 + ((d / Lc - 1) ^ 2 * St ^ 2) * F
          + -(1 / 4) * (kT / Lp) * St ^ 2 = 0 ∧ (d / Lc - 1) * St ≤ F) := by
  have hpos : 0 < kT / (F * Lp) := by positivity
  set r := √(kT / (F * Lp)) with hr
  have hr0 : 0 ≤ r := Real.sqrt_nonneg _
  have hr2 : r ^ 2 = kT / (F * Lp) := Real.sq_sqrt hpos.le
  have key : F * r ^ 2 = kT / Lp := by rw [hr2]; field_simp
  set m := (d / Lc - 1) * St with hm
  have ha : -2 * (d / Lc - 1) * St = -2 * m := by rw [hm]; ring
  have hb : (d / Lc - 1) ^ 2 * St ^ 2 = m ^ 2 := by rw [hm]; ring
  rw [ha, hb]
  constructor
  · intro h
    have hm' : m = F - St * r / 2 := by
      rw [hm, h]; field_simp; ring
    refine ⟨?_, ?_⟩
    · rw [hm']; linear_combination (St ^ 2 / 4) * key
    · rw [hm']; nlinarith
  · rintro ⟨hc, hle⟩
    have h2 : F * ((F - m) ^ 2 - (St * r / 2) ^ 2) = 0 := by
      linear_combination hc - (St ^ 2 / 4) * key
    have h2' : (F - m) ^ 2 - (St * r / 2) ^ 2 = 0 := by
      rcases mul_eq_zero.mp h2 with h | h
      · exact absurd h hF.ne'
      · exact h
    have h3 : (F - m - St * r / 2) * (F - m + St * r / 2) = 0 := by linear_combination h2'
    have hsr : 0 ≤ St * r / 2 := by positivity
    have hm' : m = F - St * r / 2 := by
      rcases mul_eq_zero.mp h3 with h | h
      · linarith
      · have h0 : F - m = 0 := by linarith
        have h1 : St * r / 2 = 0 := by linarith
        linarith
    have e : d / Lc - 1 = (F - St * r / 2) / St := by
      rw [← hm', hm]; field_simp
    have e2 : d / Lc = 1 + (F - St * r / 2) / St := by linarith
    have e3 : d = (1 + (F - St * r / 2) / St) * Lc := (div_eq_iff hLc.ne').mp e2
    rw [e3]; field_simp; ring

/-! ### parameter routing: index into the ordered, de-duplicated dictionary = lookup by name -/

section routing
variable {α : Type} [RealLike α] [Ops α]

theorem mem_dedup {x : String} {l : List String} : x ∈ dedup l ↔ x ∈ l := by
  induction l with
  | nil => simp [dedup]
  | cons y ys ih =>
    simp only [dedup, List.mem_cons, List.mem_filter, decide_eq_true_eq, ih]
    constructor
    · rintro (h | ⟨h, _⟩)
      · exact Or.inl h
      · exact Or.inr h
    · intro h
      by_cases hxy : x = y
      · exact Or.inl hxy
      · rcases h with h | h
        · exact Or.inl h
        · exact Or.inr ⟨h, hxy⟩

omit [RealLike α] [Ops α] in
theorem getD_idxOf (env : String → α) (l : List String) (p : String) (hp : p ∈ l) (d : α) :
    (l.map env).getD (idxOf p l) d = env p := by
  induction l with
  | nil => cases hp
  | cons y ys ih =>
    simp only [idxOf]
    by_cases h : y = p
    · simp [h]
    · have hp' : p ∈ ys := by
        rcases List.mem_cons.mp hp with h' | h'
        · exact absurd h'.symm h
        · exact h'
      simp only [h, if_false, List.map_cons, List.getD_cons_succ]
      exact ih hp'

omit [Ops α] in
theorem route_map (env : String → α) (all sub : List String) (h : ∀ p ∈ sub, p ∈ all) :
    M.route all sub (all.map env) = sub.map env := by
  unfold M.route
  apply List.map_congr_left
  intro p hp
  exact getD_idxOf env all p (h p hp) _

/-- evaluating through the code's index routing on the vector built from a parameter dictionary
    equals the evaluation that looks every parameter up by name -/
theorem val_eq_spec (S : Solver α) (env : String → α) (m : M α) (x : α) :
    m.val S x (m.params.map env) = m.spec S env x := by
  induction m generalizing x with
  | base k n => rfl
  | add l r ihl ihr =>
    simp only [M.val, M.spec]
    rw [route_map env _ l.params (fun p hp => by
          simp only [M.params]; exact mem_dedup.mpr (List.mem_append_left _ hp)),
        route_map env _ r.params (fun p hp => by
          simp only [M.params]; exact mem_dedup.mpr (List.mem_append_right _ hp)),
        ihl, ihr]
  | off m ih =>
    simp only [M.val, M.spec]
    rw [route_map env _ m.params (fun p hp => by
          simp only [M.params]; exact mem_dedup.mpr (List.mem_cons_of_mem _ hp)),
        getD_idxOf env _ m.offsetName (by
          simp only [M.params]; exact mem_dedup.mpr (List.mem_cons_self ..)),
        ih]
  | inv m lo hi interp ih =>
    simp only [M.val, M.spec, M.params]
    congr 1
    funext f
    exact ih f

/-- the same for the parameter validation (`ValueError` guards): index routing = lookup by name -/
theorem check_eq_spec (env : String → α) (m : M α) :
    m.check (m.params.map env) = m.checkSpec env := by
  induction m with
  | base k n => rfl
  | add l r ihl ihr =>
    simp only [M.check, M.checkSpec]
    rw [route_map env _ l.params (fun p hp => by
          simp only [M.params]; exact mem_dedup.mpr (List.mem_append_left _ hp)),
        route_map env _ r.params (fun p hp => by
          simp only [M.params]; exact mem_dedup.mpr (List.mem_append_right _ hp)),
        ihl, ihr]
  | off m ih =>
    simp only [M.check, M.checkSpec]
    rw [route_map env _ m.params (fun p hp => by
          simp only [M.params]; exact mem_dedup.mpr (List.mem_cons_of_mem _ hp)), ih]
  | inv m lo hi interp ih =>
    simp only [M.check, M.checkSpec, M.params]
    rw [ih]

end routing


/-! ### which root the code selects -/

theorem depressedRoot_real (p q : ℝ) (k : ℕ) :
    depressedRoot p q k = if 0 ≤ disc p q then cardano q (disc p q) else trigRoot p q k := by
  simp only [depressedRoot, selGe0_real]

/-- the cubic `F (F - m)² = k` (`k > 0`) of the Odijk inversion: the root the code selects (index 2)
    is positive and at least `m` -/
theorem odijk_shape_root (m k : ℝ) (hk : 0 < k) :
    0 < calcCubicRoot (-2 * m) (m ^ 2) (-k) 2 ∧ m ≤ calcCubicRoot (-2 * m) (m ^ 2) (-k) 2 := by
  have hroot := calcCubicRoot_is_root (-2 * m) (m ^ 2) (-k) 2
  have hdef := calcCubicRoot_real (-2 * m) (m ^ 2) (-k) 2
  set F := calcCubicRoot (-2 * m) (m ^ 2) (-k) 2 with hFdef
  have hF : F * (F - m) ^ 2 = k := by linear_combination hroot
  have hFpos : 0 < F := by
    by_contra h
    have h' : F ≤ 0 := not_lt.mp h
    nlinarith [sq_nonneg (F - m)]
  refine ⟨hFpos, ?_⟩
  by_cases hm0 : m ≤ 0
  · linarith
  have hm : 0 < m := not_le.mp hm0
  have hp : depP (-2 * m) (m ^ 2) = -(m ^ 2 / 3) := by rw [depP_real]; ring
  have hq : depQ (-2 * m) (m ^ 2) (-k) = 2 * m ^ 3 / 27 - k := by rw [depQ_real]; ring
  rw [hp, hq, depressedRoot_real] at hdef
  have hdisc : disc (-(m ^ 2 / 3)) (2 * m ^ 3 / 27 - k) = k * (k / 4 - m ^ 3 / 27) := by
    rw [disc_real]; ring
  by_cases hdet : 0 ≤ disc (-(m ^ 2 / 3)) (2 * m ^ 3 / 27 - k)
  · -- Cardano branch
    rw [if_pos hdet] at hdef
    by_contra hlt
    have hlt' : F < m := not_le.mp hlt
    have hkge : m ^ 3 / 27 ≤ k / 4 := by
      rw [hdisc] at hdet
      by_contra hc
      have : k / 4 - m ^ 3 / 27 < 0 := by linarith [not_le.mp hc]
      nlinarith
    have hid : (F - m / 3) ^ 2 * (4 * m / 3 - F) = 4 * m ^ 3 / 27 - k := by
      linear_combination -hF
    have hpos : 0 < 4 * m / 3 - F := by linarith
    have hsq : (F - m / 3) ^ 2 ≤ 0 := by
      by_contra hc
      have : 0 < (F - m / 3) ^ 2 := not_le.mp hc
      nlinarith
    have hFeq : F = m / 3 := by
      have : (F - m / 3) ^ 2 = 0 := le_antisymm hsq (sq_nonneg _)
      have := pow_eq_zero_iff (n := 2) (by norm_num) |>.mp this
      linarith
    have hkeq : k = 4 * m ^ 3 / 27 := by rw [← hF, hFeq]; ring
    have hd0 : disc (-(m ^ 2 / 3)) (2 * m ^ 3 / 27 - k) = 0 := by rw [hdisc, hkeq]; ring
    rw [hd0, cardano_real, Real.sqrt_zero, hkeq] at hdef
    have hc : Real.cbrt (-(2 * m ^ 3 / 27 - 4 * m ^ 3 / 27) / 2 + 0) = m / 3 := by
      apply cube_inj
      rw [cbrt_pow3]; ring
    have hc' : Real.cbrt (-(2 * m ^ 3 / 27 - 4 * m ^ 3 / 27) / 2 - 0) = m / 3 := by
      apply cube_inj
      rw [cbrt_pow3]; ring
    rw [hc, hc'] at hdef
    linarith
  · -- trigonometric branch
    rw [if_neg hdet, trigRoot_real] at hdef
    simp only at hdef
    set A := Real.arcsin (asinArg (-(m ^ 2 / 3)) (2 * m ^ 3 / 27 - k)) with hA
    have hA1 : -(Real.pi / 2) ≤ A := Real.neg_pi_div_two_le_arcsin _
    have hA2 : A ≤ Real.pi / 2 := Real.arcsin_le_pi_div_two _
    have hcos : 1 / 2 ≤ Real.cos (1 / 3 * A + Real.pi / 6) := by
      rw [← Real.cos_pi_div_three]
      apply Real.cos_le_cos_of_nonneg_of_le_pi
      · linarith
      · linarith [Real.pi_pos]
      · linarith
    set s := √(-(-(m ^ 2 / 3))) with hs
    have hs0 : 0 ≤ s := Real.sqrt_nonneg _
    have hs2 : s ^ 2 = m ^ 2 / 3 := by
      rw [hs, Real.sq_sqrt (by have : 0 ≤ m ^ 2 / 3 := by positivity
                               linarith)]; ring
    have h3sq : (√3 : ℝ) ^ 2 = 3 := Real.sq_sqrt (by norm_num)
    have h3pos : (0 : ℝ) < √3 := Real.sqrt_pos.mpr (by norm_num)
    -- s / √3 = m / 3
    have hsm : s = m / 3 * √3 := by
      have h1 : (s - m / 3 * √3) * (s + m / 3 * √3) = 0 := by
        have : (m / 3 * √3) ^ 2 = m ^ 2 / 3 := by rw [mul_pow, h3sq]; ring
        linear_combination hs2 - this
      rcases mul_eq_zero.mp h1 with h | h
      · linarith
      · have : 0 < m / 3 * √3 := by positivity
        linarith
    rw [two_div_sqrt3, hsm] at hdef
    have : F = 2 * m / 3 * Real.cos (1 / 3 * A + Real.pi / 6) + 2 * m / 3 := by
      rw [hdef]
      have : 2 * √3 / 3 * (m / 3 * √3) = 2 * m / 3 * (√3 ^ 2 / 3) := by ring
      rw [this, h3sq]; ring
    nlinarith


theorem odijkForce_shape (d Lp Lc St kT : ℝ) :
    odijkForce d Lp Lc St kT =
      calcCubicRoot (-2 * ((d / Lc - 1) * St)) (((d / Lc - 1) * St) ^ 2) (-(1 / 4 * (kT / Lp) * St ^ 2)) 2 := by
  simp only [odijkForce]
  rw [odijkForceCoeffs_real]
  simp only []
  congr 1 <;> ring

theorem odijk_selected_root_aux (d Lp Lc St kT : ℝ) (hLp : 0 < Lp) (hSt : 0 < St) (hkT : 0 < kT) :
    0 < odijkForce d Lp Lc St kT ∧ (d / Lc - 1) * St ≤ odijkForce d Lp Lc St kT := by
  rw [odijkForce_shape]
  exact odijk_shape_root ((d / Lc - 1) * St) (1 / 4 * (kT / Lp) * St ^ 2) (by positivity)

/-- Odijk's extension is strictly increasing in the force, hence injective on `F > 0` -/
theorem odijkDistance_injective (F1 F2 Lp Lc St kT : ℝ) (h1 : 0 < F1) (h2 : 0 < F2) (hLp : 0 < Lp)
    (hLc : 0 < Lc) (hSt : 0 < St) (hkT : 0 < kT)
    (h : odijkDistance F1 Lp Lc St kT = odijkDistance F2 Lp Lc St kT) : F1 = F2 := by
  rw [odijkDistance_real, odijkDistance_real] at h
  have h' : -(1 / 2) * √(kT / (F1 * Lp)) + F1 / St = -(1 / 2) * √(kT / (F2 * Lp)) + F2 / St := by
    have := mul_left_cancel₀ hLc.ne' h
    linarith
  have key : ∀ a b : ℝ, 0 < a → a < b →
      -(1 / 2) * √(kT / (a * Lp)) + a / St < -(1 / 2) * √(kT / (b * Lp)) + b / St := by
    intro a b ha hab
    have hb : 0 < b := lt_trans ha hab
    have hlt : kT / (b * Lp) < kT / (a * Lp) := by
      apply div_lt_div_of_pos_left hkT (by positivity)
      exact mul_lt_mul_of_pos_right hab hLp
    have hs : √(kT / (b * Lp)) < √(kT / (a * Lp)) := Real.sqrt_lt_sqrt (by positivity) hlt
    have hd : a / St < b / St := div_lt_div_of_pos_right hab hSt
    linarith
  rcases lt_trichotomy F1 F2 with hlt | heq | hgt
  · exact absurd h' (ne_of_lt (key F1 F2 h1 hlt))
  · exact heq
  · exact absurd h'.symm (ne_of_lt (key F2 F1 h2 hgt))


theorem cubic_mono_aux (e t r : ℝ) (he : 0 < e) (hte : e ≤ t) (hlt : t < r)
    (h : (r - t) * (r ^ 2 + r * t + t ^ 2 - 3 * e ^ 2) = 0) : False := by
  have a1 : 0 ≤ t - e := by linarith
  have a2 : 0 < r - e := by linarith
  have hpos : 0 < r ^ 2 + r * t + t ^ 2 - 3 * e ^ 2 := by
    nlinarith [mul_nonneg a1 a1, mul_pos a2 a2, mul_nonneg a1 a2.le, mul_pos he a2, mul_nonneg he.le a1]
  rcases mul_eq_zero.mp h with h' | h'
  · linarith
  · linarith

/-- with three real roots (`det < 0`) the code's root 1 is the smallest and root 2 the largest real root -/
theorem trig_root_order_aux (p q : ℝ) (hdet : q ^ 2 / 4 + p ^ 3 / 27 < 0) (r : ℝ)
    (hr : r ^ 3 + p * r + q = 0) :
    trigRoot p q 1 ≤ r ∧ r ≤ trigRoot p q 2 := by
  obtain ⟨hspos, hs2, hF1, hF2⟩ := trig_setup p q hdet
  obtain ⟨_, h1root, h2root⟩ := trig_roots p q hdet
  have hT1 : trigRoot p q 1 = -2 / √3 * √(-p) * Real.sin (1 / 3 * Real.arcsin (asinArg p q) + Real.pi / 3) :=
    trigRoot_real p q 1
  have hT2 : trigRoot p q 2 = 2 / √3 * √(-p) * Real.cos (1 / 3 * Real.arcsin (asinArg p q) + Real.pi / 6) :=
    trigRoot_real p q 2
  rw [asinArg_real p q hdet] at hT1 hT2
  set s := √(-p) with hs
  set A := Real.arcsin (3 * √3 * q / (2 * s ^ 3)) with hA
  have hA1 : -(Real.pi / 2) ≤ A := Real.neg_pi_div_two_le_arcsin _
  have hA2 : A ≤ Real.pi / 2 := Real.arcsin_le_pi_div_two _
  have h3sq : (√3 : ℝ) ^ 2 = 3 := Real.sq_sqrt (by norm_num)
  have h3pos : (0 : ℝ) < √3 := Real.sqrt_pos.mpr (by norm_num)
  have hcos : 1 / 2 ≤ Real.cos (1 / 3 * A + Real.pi / 6) := by
    rw [← Real.cos_pi_div_three]
    apply Real.cos_le_cos_of_nonneg_of_le_pi <;> linarith [Real.pi_pos]
  have hsin : 1 / 2 ≤ Real.sin (1 / 3 * A + Real.pi / 3) := by
    rw [← Real.sin_pi_div_six]
    apply Real.sin_le_sin_of_le_of_le_pi_div_two <;> linarith [Real.pi_pos]
  -- e = s/√3, with 3 e² = s² = -p
  set e := s * √3 / 3 with he
  have hepos : 0 < e := by positivity
  have he2 : 3 * e ^ 2 = -p := by
    rw [he, ← hs2]
    have : (s * √3 / 3) ^ 2 = s ^ 2 * (√3 ^ 2) / 9 := by ring
    rw [this, h3sq]; ring
  set t1 := trigRoot p q 1 with ht1
  set t2 := trigRoot p q 2 with ht2
  have ht1le : t1 ≤ -e := by
    rw [hT1, neg_div, two_div_sqrt3, he]
    have : 0 ≤ s * √3 / 3 * 2 * (Real.sin (1 / 3 * A + Real.pi / 3) - 1 / 2) := by
      apply mul_nonneg (by positivity); linarith
    nlinarith
  have ht2ge : e ≤ t2 := by
    rw [hT2, two_div_sqrt3, he]
    have : 0 ≤ s * √3 / 3 * 2 * (Real.cos (1 / 3 * A + Real.pi / 6) - 1 / 2) := by
      apply mul_nonneg (by positivity); linarith
    nlinarith
  have h1 : t1 ^ 3 + p * t1 + q = 0 := by rw [hT1]; exact h1root
  have h2 : t2 ^ 3 + p * t2 + q = 0 := by rw [hT2]; exact h2root
  have hp : p = -(3 * e ^ 2) := by linarith
  constructor
  · by_contra hc
    have hlt : r < t1 := not_le.mp hc
    have hd : (-r - -t1) * ((-r) ^ 2 + -r * -t1 + (-t1) ^ 2 - 3 * e ^ 2) = 0 := by
      rw [hp] at h1 hr; linear_combination h1 - hr
    exact cubic_mono_aux e (-t1) (-r) hepos (by linarith) (by linarith) hd
  · by_contra hc
    have hlt : t2 < r := not_le.mp hc
    have hd : (r - t2) * (r ^ 2 + r * t2 + t2 ^ 2 - 3 * e ^ 2) = 0 := by
      rw [hp] at h2 hr; linear_combination hr - h2
    exact cubic_mono_aux e t2 r hepos ht2ge hlt hd



/-! ## deepening round D: which real root `calc_cubic_root` returns; the Marko–Siggia family -/

/-- two distinct real roots of a depressed cubic: its discriminant is a (negated) square -/
theorem disc_of_two_roots (p q r t : ℝ) (hr : r ^ 3 + p * r + q = 0) (ht : t ^ 3 + p * t + q = 0)
    (hne : r ≠ t) :
    p = -(r ^ 2 + r * t + t ^ 2) ∧ q = r * t * (r + t) ∧
    108 * (q ^ 2 / 4 + p ^ 3 / 27) = -((r - t) ^ 2 * (2 * r + t) ^ 2 * (2 * t + r) ^ 2) := by
  have h1 : (r - t) * (r ^ 2 + r * t + t ^ 2 + p) = 0 := by linear_combination hr - ht
  have hp : p = -(r ^ 2 + r * t + t ^ 2) := by
    rcases mul_eq_zero.mp h1 with h | h
    · exact absurd (sub_eq_zero.mp h) hne
    · linarith
  have hq : q = r * t * (r + t) := by rw [hp] at hr; linear_combination hr
  refine ⟨hp, hq, ?_⟩
  rw [hp, hq]; ring

/-- Cardano's value in the regime the code uses it (`det ≥ 0`): any OTHER real root `r` of the
    depressed cubic is a double root, and the cubic is `(t - r)² (t - y)`. -/
theorem cardano_other_root_double (p q r : ℝ) (hdet : 0 ≤ disc p q)
    (hr : r ^ 3 + p * r + q = 0) (hne : r ≠ cardano q (disc p q)) :
    disc p q = 0 ∧ ∀ t : ℝ, t ^ 3 + p * t + q = (t - r) ^ 2 * (t - cardano q (disc p q)) := by
  have hy := cardano_is_root p q (by rwa [disc_real] at hdet)
  have hyd : cardano q (disc p q) =
      Real.cbrt (-q / 2 + √(q ^ 2 / 4 + p ^ 3 / 27)) + Real.cbrt (-q / 2 - √(q ^ 2 / 4 + p ^ 3 / 27)) := by
    rw [cardano_real, disc_real]
  simp only at hy
  rw [← hyd] at hy
  set y := cardano q (disc p q) with hydef
  obtain ⟨hp, hq, hD⟩ := disc_of_two_roots p q r y hr hy hne
  rw [disc_real] at hdet
  have hprod : (r - y) ^ 2 * (2 * r + y) ^ 2 * (2 * y + r) ^ 2 = 0 := by
    have : 0 ≤ (r - y) ^ 2 * (2 * r + y) ^ 2 * (2 * y + r) ^ 2 := by positivity
    linarith
  have hd0 : q ^ 2 / 4 + p ^ 3 / 27 = 0 := by linarith
  refine ⟨by rw [disc_real]; exact hd0, ?_⟩
  have hry : r - y ≠ 0 := sub_ne_zero.mpr hne
  have hcase : 2 * r + y = 0 ∨ 2 * y + r = 0 := by
    rcases mul_eq_zero.mp hprod with h | h
    · rcases mul_eq_zero.mp h with h' | h'
      · exact absurd (pow_eq_zero_iff (by norm_num) |>.mp h') hry
      · exact Or.inl (pow_eq_zero_iff (by norm_num) |>.mp h')
    · exact Or.inr (pow_eq_zero_iff (by norm_num) |>.mp h)
  rcases hcase with h | h
  · -- r is the double root, y = -2r
    have hy2 : y = -2 * r := by linarith
    intro t
    rw [hp, hq, hy2]; ring
  · -- y would be the double root: Cardano's value at det = 0 is the SIMPLE root, so y = 0 = r
    exfalso
    have hr2 : r = -2 * y := by linarith
    have hq' : q = 2 * y ^ 3 := by rw [hq, hr2]; ring
    have hc : Real.cbrt (-q / 2) = -y := by
      apply cube_inj
      rw [cbrt_pow3, hq']; ring
    have : y = -y + -y := by
      conv_lhs => rw [hyd, hd0, Real.sqrt_zero, add_zero, sub_zero, hc]
    have hy0 : y = 0 := by linarith
    apply hne
    rw [hr2, hy0]; ring


/-- the same for `calc_cubic_root` on a general cubic: in the Cardano regime a real root other than
    the returned value is a double root -/
theorem calcCubicRoot_other_root_double (a b c R : ℝ) (k : ℕ)
    (hdet : 0 ≤ disc (depP a b) (depQ a b c))
    (hR : R ^ 3 + a * R ^ 2 + b * R + c = 0) (hne : R ≠ calcCubicRoot a b c k) :
    disc (depP a b) (depQ a b c) = 0 ∧
    ∀ x : ℝ, x ^ 3 + a * x ^ 2 + b * x + c = (x - R) ^ 2 * (x - calcCubicRoot a b c k) := by
  have hY : calcCubicRoot a b c k = cardano (depQ a b c) (disc (depP a b) (depQ a b c)) - a / 3 := by
    rw [calcCubicRoot_real, depressedRoot_real, if_pos hdet]
  have hr' : (R + a / 3) ^ 3 + depP a b * (R + a / 3) + depQ a b c = 0 := by
    rw [depP_real, depQ_real]; linear_combination hR
  have hne' : R + a / 3 ≠ cardano (depQ a b c) (disc (depP a b) (depQ a b c)) := by
    intro h; apply hne; rw [hY, ← h]; ring
  obtain ⟨hd0, key⟩ := cardano_other_root_double (depP a b) (depQ a b c) (R + a / 3) hdet hr' hne'
  refine ⟨hd0, ?_⟩
  intro x
  have := key (x + a / 3)
  rw [hY]
  generalize cardano (depQ a b c) (disc (depP a b) (depQ a b c)) = Yc at this ⊢
  rw [depP_real, depQ_real] at this
  linear_combination this

/-! ### Marko–Siggia: the selected root is the physical one -/

theorem msDistanceCoeffs_real (F Lp Lc kT : ℝ) :
    msDistanceCoeffs F Lp Lc kT =
      (-Lc * (F * Lp / kT + 9 / 4), Lc ^ 2 * (2 * F * Lp / kT + 3 / 2), -F * Lc ^ 3 * Lp / kT) := by
  simp only [msDistanceCoeffs]
  refine Prod.ext ?_ (Prod.ext ?_ ?_)
  · show -Lc * (F * Lp / kT + (2.25 : ℝ)) = _
    norm_num
  · show (Lc * Lc) * ((2.0 : ℝ) * F * Lp / kT + 1.5) = _
    have e1 : (2.0 : ℝ) = 2 := by norm_num
    have e2 : (1.5 : ℝ) = 3 / 2 := by norm_num
    rw [e1, e2]; ring
  · show -F * (Lc * Lc * Lc) * Lp / kT = _
    ring

/-- the Marko–Siggia cubic `P(x) = x³ + a x² + b x + c` with the code's coefficients -/
noncomputable def msPoly (F Lp Lc kT x : ℝ) : ℝ :=
  x ^ 3 + (msDistanceCoeffs F Lp Lc kT).1 * x ^ 2 + (msDistanceCoeffs F Lp Lc kT).2.1 * x
    + (msDistanceCoeffs F Lp Lc kT).2.2

theorem msPoly_real (F Lp Lc kT x : ℝ) :
    msPoly F Lp Lc kT x = x ^ 3 - Lc * (F * Lp / kT + 9 / 4) * x ^ 2
      + Lc ^ 2 * (2 * F * Lp / kT + 3 / 2) * x - F * Lc ^ 3 * Lp / kT := by
  unfold msPoly; rw [msDistanceCoeffs_real]; ring

/-- no root at or below zero: every term is `≤ 0` there and the constant one is negative -/
theorem msPoly_neg_of_nonpos (F Lp Lc kT x : ℝ) (hF : 0 < F) (hLp : 0 < Lp) (hLc : 0 < Lc)
    (hkT : 0 < kT) (hx : x ≤ 0) : msPoly F Lp Lc kT x < 0 := by
  rw [msPoly_real]
  have hphi : 0 < F * Lp / kT := by positivity
  have h1 : x ^ 3 ≤ 0 := by
    have : x ^ 3 = x * x ^ 2 := by ring
    rw [this]; exact mul_nonpos_of_nonpos_of_nonneg hx (sq_nonneg x)
  have h2 : 0 ≤ Lc * (F * Lp / kT + 9 / 4) * x ^ 2 := by positivity
  have h3 : Lc ^ 2 * (2 * F * Lp / kT + 3 / 2) * x ≤ 0 := by
    apply mul_nonpos_of_nonneg_of_nonpos _ hx
    have : 0 < 2 * F * Lp / kT := by positivity
    positivity
  have h4 : 0 < F * Lc ^ 3 * Lp / kT := by positivity
  linarith

theorem msPoly_at_Lc (F Lp Lc kT : ℝ) (hkT : 0 < kT) : msPoly F Lp Lc kT Lc = Lc ^ 3 / 4 := by
  rw [msPoly_real]; field_simp; ring

/-- existence of the physical root (intermediate value theorem on `[0, Lc]`) -/
theorem msPoly_exists_root (F Lp Lc kT : ℝ) (hF : 0 < F) (hLp : 0 < Lp) (hLc : 0 < Lc)
    (hkT : 0 < kT) : ∃ r, 0 < r ∧ r < Lc ∧ msPoly F Lp Lc kT r = 0 := by
  have hcont : ContinuousOn (msPoly F Lp Lc kT) (Set.Icc 0 Lc) := by
    unfold msPoly; fun_prop
  have h0 : msPoly F Lp Lc kT 0 < 0 := msPoly_neg_of_nonpos F Lp Lc kT 0 hF hLp hLc hkT le_rfl
  have h1 : 0 < msPoly F Lp Lc kT Lc := by rw [msPoly_at_Lc F Lp Lc kT hkT]; positivity
  obtain ⟨r, hr, hr0⟩ := intermediate_value_Icc hLc.le hcont ⟨h0.le, h1.le⟩
  refine ⟨r, ?_, ?_, hr0⟩
  · rcases lt_or_eq_of_le hr.1 with h | h
    · exact h
    · rw [← h] at hr0; linarith
  · rcases lt_or_eq_of_le hr.2 with h | h
    · exact h
    · rw [h] at hr0; linarith

/-- `wlc_marko_siggia_force` is strictly increasing below the contour length -/
theorem msForce_strictMono (d1 d2 Lp Lc kT : ℝ) (hLp : 0 < Lp) (hLc : 0 < Lc) (hkT : 0 < kT)
    (h12 : d1 < d2) (h2 : d2 < Lc) : msForce d1 Lp Lc kT < msForce d2 Lp Lc kT := by
  rw [msForce_real, msForce_real]
  have hg : 0 < kT / Lp := by positivity
  apply mul_lt_mul_of_pos_left _ hg
  have hx : d1 / Lc < d2 / Lc := div_lt_div_of_pos_right h12 hLc
  have hx2 : d2 / Lc < 1 := (div_lt_one hLc).mpr h2
  set x1 := d1 / Lc
  set x2 := d2 / Lc
  have hu2 : 0 < 1 - x2 := by linarith
  have hu : 1 - x2 < 1 - x1 := by linarith
  have hsq : (1 - x2) * (1 - x2) < (1 - x1) * (1 - x1) := by nlinarith
  have : 1 / ((1 - x1) * (1 - x1)) < 1 / ((1 - x2) * (1 - x2)) :=
    one_div_lt_one_div_of_lt (by positivity) hsq
  linarith

/-- **ms_selected_root** -/
theorem ms_selected_root_aux (F Lp Lc kT : ℝ) (hF : 0 < F) (hLp : 0 < Lp) (hLc : 0 < Lc) (hkT : 0 < kT) :
    0 < msDistance F Lp Lc kT ∧ msDistance F Lp Lc kT < Lc := by
  obtain ⟨r, hr0, hrL, hr⟩ := msPoly_exists_root F Lp Lc kT hF hLp hLc hkT
  set a := (msDistanceCoeffs F Lp Lc kT).1 with ha
  set b := (msDistanceCoeffs F Lp Lc kT).2.1 with hb
  set c := (msDistanceCoeffs F Lp Lc kT).2.2 with hc
  have hms : msDistance F Lp Lc kT = calcCubicRoot a b c 1 := rfl
  have hroot : msPoly F Lp Lc kT (msDistance F Lp Lc kT) = 0 := by
    unfold msPoly; rw [hms]; exact calcCubicRoot_is_root a b c 1
  have hpos : 0 < msDistance F Lp Lc kT := by
    by_contra h
    have := msPoly_neg_of_nonpos F Lp Lc kT _ hF hLp hLc hkT (not_lt.mp h)
    linarith
  refine ⟨hpos, ?_⟩
  by_cases hdet : 0 ≤ disc (depP a b) (depQ a b c)
  · -- Cardano regime: the returned value IS the root below Lc
    by_contra hge
    have hne : r ≠ calcCubicRoot a b c 1 := by
      intro h; rw [← hms] at h; rw [← h] at hge; exact hge hrL
    have hfac := (calcCubicRoot_other_root_double a b c r 1 hdet hr hne).2 Lc
    have hL : msPoly F Lp Lc kT Lc = (Lc - r) ^ 2 * (Lc - calcCubicRoot a b c 1) := hfac
    rw [msPoly_at_Lc F Lp Lc kT hkT, ← hms] at hL
    have h1 : 0 < Lc ^ 3 / 4 := by positivity
    have h2 : (Lc - r) ^ 2 * (Lc - msDistance F Lp Lc kT) ≤ 0 :=
      mul_nonpos_of_nonneg_of_nonpos (sq_nonneg _) (by linarith [not_lt.mp hge])
    linarith
  · -- three real roots: the returned value is the smallest one
    have hdet' : disc (depP a b) (depQ a b c) < 0 := not_le.mp hdet
    have hr1 : r ^ 3 + a * r ^ 2 + b * r + c = 0 := hr
    have hr' : (r + a / 3) ^ 3 + depP a b * (r + a / 3) + depQ a b c = 0 := by
      rw [depP_real, depQ_real]; linear_combination hr1
    rw [hms, calcCubicRoot_real, depressedRoot_real, if_neg hdet]
    rw [disc_real] at hdet'
    have := (trig_root_order_aux (depP a b) (depQ a b c) hdet' (r + a / 3) hr').1
    linarith


theorem emsDistanceCoeffs_real (F Lp Lc St kT : ℝ) (hSt : St ≠ 0) (hkT : kT ≠ 0) :
    emsDistanceCoeffs F Lp Lc St kT =
      (-Lc * (F * Lp / kT + 9 / 4) - 3 * (Lc * F / St),
       Lc ^ 2 * (2 * F * Lp / kT + 3 / 2) - 2 * (-Lc * (F * Lp / kT + 9 / 4)) * (Lc * F / St)
         + 3 * (Lc * F / St) ^ 2,
       -F * Lc ^ 3 * Lp / kT - Lc ^ 2 * (2 * F * Lp / kT + 3 / 2) * (Lc * F / St)
         + (-Lc * (F * Lp / kT + 9 / 4)) * (Lc * F / St) ^ 2 - (Lc * F / St) ^ 3) := by
  simp only [emsDistanceCoeffs]
  refine Prod.ext ?_ (Prod.ext ?_ ?_)
  · show -F * Lc * Lp / kT - (3.0 : ℝ) * F * Lc / St - 2.25 * Lc = _
    norm_num; field_simp; ring
  · show Lc * Lc * ((2.0 : ℝ) * (F * F) * Lp * St + 3.0 * (F * F) * kT + 2.0 * F * Lp * (St * St) + 4.5 * F * St * kT
                  + 1.5 * (St * St) * kT) / ((St * St) * kT) = _
    norm_num; field_simp; ring
  · show -F * (Lc * Lc * Lc) * ((F * F) * Lp * St + (F * F) * kT + (2.0 : ℝ) * F * Lp * (St * St) + 2.25 * F * St * kT
                        + Lp * (St * St * St) + 1.5 * (St * St) * kT) / ((St * St * St) * kT) = _
    norm_num; field_simp; ring

/-- `ewlc_marko_siggia_distance` is `wlc_marko_siggia_distance` shifted by the elastic stretch `Lc·F/St` -/
theorem emsDistance_eq_shift (F Lp Lc St kT : ℝ) (hSt : St ≠ 0) (hkT : kT ≠ 0) :
    emsDistance F Lp Lc St kT = msDistance F Lp Lc kT + Lc * F / St := by
  simp only [emsDistance, msDistance]
  rw [emsDistanceCoeffs_real F Lp Lc St kT hSt hkT, msDistanceCoeffs_real]
  simp only []
  rw [calcCubicRoot_real, calcCubicRoot_real]
  set a := -Lc * (F * Lp / kT + 9 / 4)
  set b := Lc ^ 2 * (2 * F * Lp / kT + 3 / 2)
  set c := -F * Lc ^ 3 * Lp / kT
  set s := Lc * F / St
  have hp : depP (a - 3 * s) (b - 2 * a * s + 3 * s ^ 2) = depP a b := by
    rw [depP_real, depP_real]; ring
  have hq : depQ (a - 3 * s) (b - 2 * a * s + 3 * s ^ 2) (c - b * s + a * s ^ 2 - s ^ 3) = depQ a b c := by
    rw [depQ_real, depQ_real]; ring
  rw [hp, hq]; ring


/-- the cubic in the force solved by `ewlc_marko_siggia_force`, with the code's coefficients -/
noncomputable def emsFPoly (d Lp Lc St kT F : ℝ) : ℝ :=
  F ^ 3 + (emsForceCoeffs d Lp Lc St kT).1 * F ^ 2 + (emsForceCoeffs d Lp Lc St kT).2.1 * F
    + (emsForceCoeffs d Lp Lc St kT).2.2

/-- polynomial identity behind `ems_identity_force`, valid for EVERY `F` (also where the relation is singular) -/
theorem emsFPoly_identity (F d Lp Lc St kT : ℝ) (hLc : Lc ≠ 0) (hSt : St ≠ 0) (hkT : kT ≠ 0)
    (hden : Lp * St + kT ≠ 0) :
    (1 / 4 - (1 / 4 - d / Lc + F / St + F * Lp / kT) * (1 - d / Lc + F / St) ^ 2) * (St ^ 3 * kT) =
      -(Lp * St + kT) * emsFPoly d Lp Lc St kT F := by
  have hden' : St * Lp + kT ≠ 0 := by rwa [mul_comm]
  unfold emsFPoly
  simp only [emsForceCoeffs]
  norm_num
  field_simp
  ring


/-- sign of the cubic from the sign of `¼ - G·y²` -/
theorem emsFPoly_eq (F d Lp Lc St kT : ℝ) (hLp : 0 < Lp) (hLc : 0 < Lc) (hSt : 0 < St) (hkT : 0 < kT) :
    emsFPoly d Lp Lc St kT F =
      -((1 / 4 - (1 / 4 - d / Lc + F / St + F * Lp / kT) * (1 - d / Lc + F / St) ^ 2) * (St ^ 3 * kT))
        / (Lp * St + kT) := by
  have hden : 0 < Lp * St + kT := by positivity
  rw [emsFPoly_identity F d Lp Lc St kT hLc.ne' hSt.ne' hkT.ne' hden.ne']
  field_simp

/-- at the singular point `F_min = (d/Lc - 1)·St` (where `1 - d/Lc + F/St = 0`) the cubic is negative -/
theorem emsFPoly_at_min (d Lp Lc St kT : ℝ) (hLp : 0 < Lp) (hLc : 0 < Lc) (hSt : 0 < St) (hkT : 0 < kT) :
    emsFPoly d Lp Lc St kT ((d / Lc - 1) * St) < 0 := by
  rw [emsFPoly_eq _ d Lp Lc St kT hLp hLc hSt hkT]
  have hy : 1 - d / Lc + (d / Lc - 1) * St / St = 0 := by field_simp; ring
  rw [hy]
  have hden : 0 < Lp * St + kT := by positivity
  have : 0 < (1 / 4 - (1 / 4 - d / Lc + (d / Lc - 1) * St / St + (d / Lc - 1) * St * Lp / kT) * 0 ^ 2)
      * (St ^ 3 * kT) := by
    have : (0 : ℝ) ^ 2 = 0 := by norm_num
    rw [this, mul_zero, sub_zero]; positivity
  rw [neg_div]
  exact neg_neg_of_pos (div_pos this hden)

/-- far enough out the cubic is positive -/
theorem emsFPoly_at_hi (d Lp Lc St kT : ℝ) (hLp : 0 < Lp) (hLc : 0 < Lc) (hSt : 0 < St) (hkT : 0 < kT) :
    0 < emsFPoly d Lp Lc St kT ((|d / Lc| + 1) * St) := by
  rw [emsFPoly_eq _ d Lp Lc St kT hLp hLc hSt hkT]
  have hden : 0 < Lp * St + kT := by positivity
  have e : (|d / Lc| + 1) * St / St = |d / Lc| + 1 := by field_simp
  rw [e]
  have h1 : d / Lc ≤ |d / Lc| := le_abs_self _
  have h0 : 0 ≤ |d / Lc| := abs_nonneg _
  have hFp : 0 ≤ (|d / Lc| + 1) * St * Lp / kT := by positivity
  set m := |d / Lc|
  set x := d / Lc
  set G := 1 / 4 - x + (m + 1) + (m + 1) * St * Lp / kT with hG
  set y := 1 - x + (m + 1) with hy
  have hGge : 5 / 4 ≤ G := by rw [hG]; linarith
  have hyge : 2 ≤ y := by rw [hy]; linarith
  have hy2 : 4 ≤ y ^ 2 := by nlinarith
  have : 1 / 4 - G * y ^ 2 < 0 := by nlinarith
  have hneg : (1 / 4 - G * y ^ 2) * (St ^ 3 * kT) < 0 :=
    mul_neg_of_neg_of_pos this (by positivity)
  exact div_pos (neg_pos.mpr hneg) hden

/-- existence of the physical root: above the singular point -/
theorem emsFPoly_exists_root (d Lp Lc St kT : ℝ) (hLp : 0 < Lp) (hLc : 0 < Lc) (hSt : 0 < St) (hkT : 0 < kT) :
    ∃ R, (d / Lc - 1) * St < R ∧ emsFPoly d Lp Lc St kT R = 0 := by
  have hcont : ContinuousOn (emsFPoly d Lp Lc St kT) (Set.Icc ((d / Lc - 1) * St) ((|d / Lc| + 1) * St)) := by
    unfold emsFPoly; fun_prop
  have h0 := emsFPoly_at_min d Lp Lc St kT hLp hLc hSt hkT
  have h1 := emsFPoly_at_hi d Lp Lc St kT hLp hLc hSt hkT
  have hle : (d / Lc - 1) * St ≤ (|d / Lc| + 1) * St := by
    apply mul_le_mul_of_nonneg_right _ hSt.le
    linarith [le_abs_self (d / Lc)]
  obtain ⟨r, hr, hr0⟩ := intermediate_value_Icc hle hcont ⟨h0.le, h1.le⟩
  refine ⟨r, ?_, hr0⟩
  rcases lt_or_eq_of_le hr.1 with h | h
  · exact h
  · rw [← h] at hr0; linarith

/-- **eMS force: the selected root (index 2) lies in the relation's domain**, for every `d` -/
theorem ems_force_selected_root_aux (d Lp Lc St kT : ℝ) (hLp : 0 < Lp) (hLc : 0 < Lc) (hSt : 0 < St)
    (hkT : 0 < kT) : (d / Lc - 1) * St < emsForce d Lp Lc St kT := by
  obtain ⟨R, hRmin, hR⟩ := emsFPoly_exists_root d Lp Lc St kT hLp hLc hSt hkT
  set a := (emsForceCoeffs d Lp Lc St kT).1 with ha
  set b := (emsForceCoeffs d Lp Lc St kT).2.1 with hb
  set c := (emsForceCoeffs d Lp Lc St kT).2.2 with hc
  have hems : emsForce d Lp Lc St kT = calcCubicRoot a b c 2 := rfl
  by_cases hdet : 0 ≤ disc (depP a b) (depQ a b c)
  · by_cases hne : R = calcCubicRoot a b c 2
    · rw [hems, ← hne]; exact hRmin
    · have hfac := (calcCubicRoot_other_root_double a b c R 2 hdet hR hne).2 ((d / Lc - 1) * St)
      have hL : emsFPoly d Lp Lc St kT ((d / Lc - 1) * St)
          = ((d / Lc - 1) * St - R) ^ 2 * ((d / Lc - 1) * St - calcCubicRoot a b c 2) := hfac
      have hneg := emsFPoly_at_min d Lp Lc St kT hLp hLc hSt hkT
      rw [hL, ← hems] at hneg
      by_contra hge
      have : 0 ≤ ((d / Lc - 1) * St - R) ^ 2 * ((d / Lc - 1) * St - emsForce d Lp Lc St kT) :=
        mul_nonneg (sq_nonneg _) (by linarith [not_lt.mp hge])
      linarith
  · have hdet' : disc (depP a b) (depQ a b c) < 0 := not_le.mp hdet
    rw [hems, calcCubicRoot_real, depressedRoot_real, if_neg hdet]
    have hR' : R ^ 3 + a * R ^ 2 + b * R + c = 0 := hR
    have hr' : (R + a / 3) ^ 3 + depP a b * (R + a / 3) + depQ a b c = 0 := by
      rw [depP_real, depQ_real]; linear_combination hR'
    rw [disc_real] at hdet'
    have := (trig_root_order_aux (depP a b) (depQ a b c) hdet' (R + a / 3) hr').2
    linarith



/-- between the origin and the contour length the Marko–Siggia force is positive -/
theorem msForce_pos (d Lp Lc kT : ℝ) (hLp : 0 < Lp) (hLc : 0 < Lc) (hkT : 0 < kT) (h0 : 0 < d)
    (h1 : d < Lc) : 0 < msForce d Lp Lc kT := by
  rw [msForce_real]
  have hg : 0 < kT / Lp := by positivity
  apply mul_pos hg
  have hx0 : 0 < d / Lc := by positivity
  have hx1 : d / Lc < 1 := (div_lt_one hLc).mpr h1
  set x := d / Lc
  have hu : 0 < 1 - x := by linarith
  have hsq : (1 - x) * (1 - x) < 1 := by nlinarith
  have : 1 < 1 / ((1 - x) * (1 - x)) := by
    rw [lt_div_iff₀ (by positivity)]; linarith
  linarith

/-- on its domain the residual of the extensible Marko–Siggia relation is strictly decreasing in the force -/
theorem emsResidual_strictAnti_F (F1 F2 d Lp Lc St kT : ℝ) (hLp : 0 < Lp) (hSt : 0 < St) (hkT : 0 < kT)
    (h12 : F1 < F2) (hy : 0 < 1 - d / Lc + F1 / St) :
    emsResidual F2 d Lp Lc St kT < emsResidual F1 d Lp Lc St kT := by
  rw [emsResidual_real, emsResidual_real]
  have hz : F1 / St < F2 / St := div_lt_div_of_pos_right h12 hSt
  have hk : F1 * Lp / kT < F2 * Lp / kT :=
    div_lt_div_of_pos_right (mul_lt_mul_of_pos_right h12 hLp) hkT
  set y1 := 1 - d / Lc + F1 / St with hy1
  set y2 := 1 - d / Lc + F2 / St with hy2
  have hyy : y1 < y2 := by rw [hy1, hy2]; linarith
  have hsq : y1 * y1 < y2 * y2 := by nlinarith
  have : 1 / (y2 * y2) < 1 / (y1 * y1) := one_div_lt_one_div_of_lt (by positivity) hsq
  linarith

/-- … and strictly increasing in the distance -/
theorem emsResidual_strictMono_d (F d1 d2 Lp Lc St kT : ℝ) (hLc : 0 < Lc)
    (h12 : d1 < d2) (hy : 0 < 1 - d2 / Lc + F / St) :
    emsResidual F d1 Lp Lc St kT < emsResidual F d2 Lp Lc St kT := by
  rw [emsResidual_real, emsResidual_real]
  have hz : d1 / Lc < d2 / Lc := div_lt_div_of_pos_right h12 hLc
  set y1 := 1 - d1 / Lc + F / St with hy1
  set y2 := 1 - d2 / Lc + F / St with hy2
  have hyy : y2 < y1 := by rw [hy1, hy2]; linarith
  have hsq : y2 * y2 < y1 * y1 := by nlinarith
  have : 1 / (y1 * y1) < 1 / (y2 * y2) := one_div_lt_one_div_of_lt (by positivity) hsq
  linarith

/-- a solution of the relation at a positive distance has a positive force -/
theorem ems_force_pos_of_solves (F d Lp Lc St kT : ℝ) (hLp : 0 < Lp) (hLc : 0 < Lc) (hSt : 0 < St)
    (hkT : 0 < kT) (hd : 0 < d) (hy : 0 < 1 - d / Lc + F / St) (h : emsResidual F d Lp Lc St kT = 0) :
    0 < F := by
  by_contra hF
  have hF' : F ≤ 0 := not_lt.mp hF
  rw [emsResidual_real] at h
  have hx0 : 0 < d / Lc := by positivity
  have hz : F / St ≤ 0 := div_nonpos_of_nonpos_of_nonneg hF' hSt.le
  have hk : F * Lp / kT ≤ 0 :=
    div_nonpos_of_nonpos_of_nonneg (mul_nonpos_of_nonpos_of_nonneg hF' hLp.le) hkT.le
  set y := 1 - d / Lc + F / St with hyd
  have hy1 : y < 1 := by rw [hyd]; linarith
  have hsq : y * y < 1 := by nlinarith
  have : 1 < 1 / (y * y) := by
    rw [lt_div_iff₀ (by positivity)]; linarith
  linarith



/-! ### the masked array form of `calc_cubic_root` -/

section vec
variable {β γ δ ε : Type}

theorem zipWith_map_map (f : γ → δ → ε) (g : β → γ) (h : β → δ) (l : List β) :
    List.zipWith f (l.map g) (l.map h) = l.map fun x => f (g x) (h x) := by
  induction l with
  | nil => rfl
  | cons x xs ih => simp only [List.map_cons, List.zipWith_cons_cons, ih]

theorem zipWith3'_map {ζ : Type} (f : γ → δ → ε → ζ) (g : β → γ) (h : β → δ) (i : β → ε) (l : List β) :
    zipWith3' f (l.map g) (l.map h) (l.map i) = l.map fun x => f (g x) (h x) (i x) := by
  induction l with
  | nil => rfl
  | cons x xs ih => simp only [List.map_cons, zipWith3', ih]

/-- reading two arrays through the same mask and combining = combining and reading through the mask -/
theorem zipWith_gather (c : γ → δ → ε) (m : β → Bool) (f1 : β → γ) (f2 : β → δ) (l : List β) :
    List.zipWith c (gather (l.map m) (l.map f1)) (gather (l.map m) (l.map f2))
      = gather (l.map m) (l.map fun x => c (f1 x) (f2 x)) := by
  induction l with
  | nil => rfl
  | cons x xs ih =>
    simp only [List.map_cons]
    cases hm : m x
    · simp only [gather, ih]
    · simp only [gather, List.zipWith_cons_cons, ih]

/-- NumPy's masked write of values computed from the masked read: position by position -/
theorem scatter_gather (m : β → Bool) (f h : β → γ) (l : List β) :
    scatter (l.map m) (gather (l.map m) (l.map f)) (l.map h)
      = l.map fun x => if m x then f x else h x := by
  induction l with
  | nil => rfl
  | cons x xs ih =>
    simp only [List.map_cons]
    cases hm : m x
    · simp only [gather, scatter, ih]; simp
    · simp only [gather, scatter, ih]; simp

end vec

section
variable {α : Type} [RealLike α] [Ops α]

/-- the masked array algorithm computes, at every position, the scalar `calcCubicRoot` — for any number type
    whose `selGe0` is the plain branch on `det ≥ 0` -/
theorem calcCubicRootVec_pointwise
    (hsel : ∀ det A B : α, Ops.selGe0 det A B = if RealLike.le (0.0 : α) det then A else B)
    (l : List (α × α × α)) (k : Nat) :
    calcCubicRootVec (l.map (·.1)) (l.map (·.2.1)) (l.map (·.2.2)) k
      = l.map fun t => calcCubicRoot t.1 t.2.1 t.2.2 k := by
  unfold calcCubicRootVec
  simp only [zipWith_map_map, zipWith3'_map, List.map_map, Function.comp_def]
  rw [zipWith_gather cardano, zipWith_gather (fun p q => trigRoot p q k)]
  rw [scatter_gather (fun t : α × α × α => RealLike.le (0.0 : α) (disc (depP t.1 t.2.1) (depQ t.1 t.2.1 t.2.2)))]
  rw [scatter_gather (fun t : α × α × α => !RealLike.le (0.0 : α) (disc (depP t.1 t.2.1) (depQ t.1 t.2.1 t.2.2)))]
  rw [zipWith_map_map]
  apply List.map_congr_left
  intro t _
  simp only [calcCubicRoot, depressedRoot, hsel]
  cases RealLike.le (0.0 : α) (disc (depP t.1 t.2.1) (depQ t.1 t.2.1 t.2.2)) <;> simp

end


/-! ### eFJC / tWLC: the guards and masks around the published closed forms -/

theorem twlcG_real (f g0 g1 Fc : ℝ) : twlcG f g0 g1 Fc = g0 + g1 * max f Fc := by
  simp only [twlcG, RealLike.lt, RealLike.le]
  by_cases h : f < Fc
  · simp [h, max_eq_right h.le]
  · have h' : Fc ≤ f := not_lt.mp h
    simp [h, h']

theorem twlcDistance_real (f Lp Lc St C g0 g1 Fc kT : ℝ) :
    twlcDistance f Lp Lc St C g0 g1 Fc kT =
      Lc * (1 - 1 / 2 * √(kT / (f * Lp)) + C / (-(g0 + g1 * max f Fc) ^ 2 + St * C) * f) := by
  simp only [twlcDistance, twlcG_real, RealLike.sqrt]
  have e1 : (1.0 : ℝ) = 1 := by norm_num
  have e2 : (2.0 : ℝ) = 2 := by norm_num
  rw [e1, e2]
  ring

theorem coth_real (x : ℝ) : coth x = if |x| < 500 then Real.cosh x / Real.sinh x else 1 := by
  simp only [coth, RealLike.lt, RealLike.abs, Ops.cosh, Ops.sinh]
  norm_num

/-- beyond the guard the hyperbolic cotangent differs from 1 by less than `2/(e¹⁰⁰⁰ - 1)` -/
theorem coth_guard_error_aux (x : ℝ) (hx : 0 < x) :
    |coth x - Real.cosh x / Real.sinh x| ≤ 2 / (Real.exp 1000 - 1) := by
  rw [coth_real]
  have hE : 1 < Real.exp 1000 := by
    have := Real.add_one_lt_exp (show (1000 : ℝ) ≠ 0 by norm_num)
    linarith
  by_cases h : |x| < 500
  · rw [if_pos h, sub_self, abs_zero]
    have : 0 < Real.exp 1000 - 1 := by linarith
    positivity
  · rw [if_neg h]
    have hx5 : 500 ≤ x := by
      rw [abs_of_pos hx] at h; exact not_lt.mp h
    have hs : 0 < Real.sinh x := Real.sinh_pos_iff.mpr hx
    have hdiff : 1 - Real.cosh x / Real.sinh x = -(Real.exp (-x) / Real.sinh x) := by
      have := Real.cosh_sub_sinh x
      field_simp
      linarith
    rw [hdiff, abs_neg, abs_of_pos (div_pos (Real.exp_pos _) hs)]
    -- exp(-x)/sinh x = 2/(exp(2x) - 1)
    have hsinh : Real.sinh x = (Real.exp x - Real.exp (-x)) / 2 := Real.sinh_eq x
    have hmul : Real.exp x * Real.exp (-x) = 1 := by rw [← Real.exp_add]; simp
    have h2x : Real.exp 1000 ≤ Real.exp x * Real.exp x := by
      rw [← Real.exp_add]; apply Real.exp_le_exp.mpr; linarith
    have hen : 0 < Real.exp (-x) := Real.exp_pos _
    have hep : 0 < Real.exp x := Real.exp_pos _
    have hden : 0 < Real.exp 1000 - 1 := by linarith
    rw [div_le_div_iff₀ hs hden, hsinh]
    -- exp(-x) (E - 1) ≤ 2 (exp x - exp(-x))/2 = exp x - exp(-x)
    have : Real.exp (-x) * Real.exp 1000 ≤ Real.exp x := by
      calc Real.exp (-x) * Real.exp 1000 ≤ Real.exp (-x) * (Real.exp x * Real.exp x) :=
            mul_le_mul_of_nonneg_left h2x hen.le
        _ = (Real.exp x * Real.exp (-x)) * Real.exp x := by ring
        _ = Real.exp x := by rw [hmul, one_mul]
    nlinarith



/-! ### monotonicity of the explicit eFJC / tWLC models (where it holds) -/

/-- `x·cosh x - sinh x > 0` for `x > 0` -/
theorem x_cosh_sub_sinh_pos (x : ℝ) (hx : 0 < x) : 0 < x * Real.cosh x - Real.sinh x := by
  have hmono : StrictMonoOn (fun t : ℝ => t * Real.cosh t - Real.sinh t) (Set.Ici 0) := by
    apply strictMonoOn_of_deriv_pos (convex_Ici 0)
    · fun_prop
    · intro t ht
      rw [interior_Ici] at ht
      have hd : HasDerivAt (fun t : ℝ => t * Real.cosh t - Real.sinh t) (t * Real.sinh t) t := by
        exact (((hasDerivAt_id' t).mul (Real.hasDerivAt_cosh t)).sub (Real.hasDerivAt_sinh t)).congr_deriv
          (by ring)
      rw [hd.deriv]
      exact mul_pos ht (Real.sinh_pos_iff.mpr ht)
  have := hmono (Set.mem_Ici.mpr le_rfl) (Set.mem_Ici.mpr hx.le) hx
  simpa using this

/-- the Langevin function `coth x - 1/x` is positive and strictly increasing on `x > 0` -/
theorem langevin_pos (x : ℝ) (hx : 0 < x) : 0 < Real.cosh x / Real.sinh x - 1 / x := by
  have hs : 0 < Real.sinh x := Real.sinh_pos_iff.mpr hx
  have := x_cosh_sub_sinh_pos x hx
  have e : Real.cosh x / Real.sinh x - 1 / x = (x * Real.cosh x - Real.sinh x) / (Real.sinh x * x) := by
    field_simp
  rw [e]; positivity

theorem langevin_strictMono (x y : ℝ) (hx : 0 < x) (hxy : x < y) :
    Real.cosh x / Real.sinh x - 1 / x < Real.cosh y / Real.sinh y - 1 / y := by
  have hmono : StrictMonoOn (fun t : ℝ => Real.cosh t / Real.sinh t - 1 / t) (Set.Ioi 0) := by
    apply strictMonoOn_of_deriv_pos (convex_Ioi 0)
    · apply ContinuousOn.sub
      · apply ContinuousOn.div Real.continuous_cosh.continuousOn Real.continuous_sinh.continuousOn
        intro t ht; exact (Real.sinh_pos_iff.mpr ht).ne'
      · apply ContinuousOn.div continuousOn_const continuousOn_id
        intro t ht; exact (ne_of_gt ht)
    · intro t ht
      rw [interior_Ioi] at ht
      have ht0 : t ≠ 0 := ne_of_gt ht
      have hs : 0 < Real.sinh t := Real.sinh_pos_iff.mpr ht
      have hd : HasDerivAt (fun t : ℝ => Real.cosh t / Real.sinh t - 1 / t)
          ((Real.sinh t * Real.sinh t - Real.cosh t * Real.cosh t) / Real.sinh t ^ 2 - (-(1 / t ^ 2))) t := by
        have h1 := (Real.hasDerivAt_cosh t).div (Real.hasDerivAt_sinh t) hs.ne'
        have h2 : HasDerivAt (fun t : ℝ => 1 / t) (-(1 / t ^ 2)) t := by
          have := hasDerivAt_inv ht0
          simpa [one_div] using this
        exact h1.sub h2
      rw [hd.deriv]
      have hcs : Real.cosh t ^ 2 - Real.sinh t ^ 2 = 1 := Real.cosh_sq_sub_sinh_sq t
      have hlt : t < Real.sinh t := Real.self_lt_sinh_iff.mpr ht
      have e : (Real.sinh t * Real.sinh t - Real.cosh t * Real.cosh t) / Real.sinh t ^ 2 - (-(1 / t ^ 2))
          = (Real.sinh t ^ 2 - t ^ 2) / (Real.sinh t ^ 2 * t ^ 2) := by
        field_simp
        nlinarith
      rw [e]
      have ht' : 0 < t := ht
      have hprod : 0 < (Real.sinh t - t) * (Real.sinh t + t) := mul_pos (by linarith) (by linarith)
      apply div_pos
      · nlinarith
      · positivity
  exact hmono (Set.mem_Ioi.mpr hx) (Set.mem_Ioi.mpr (lt_trans hx hxy)) hxy


/-- `efjc_distance` below the overflow guard (`2·F·Lp/kT < 500`) is the product of the Langevin function and the
    elastic factor, both positive and strictly increasing: strictly increasing in the force. -/
theorem efjc_distance_strictMono_aux (F1 F2 Lp Lc St kT : ℝ) (h1 : 0 < F1) (h12 : F1 < F2) (hLp : 0 < Lp)
    (hLc : 0 < Lc) (hSt : 0 < St) (hkT : 0 < kT) (hg : 2 * F2 * Lp / kT < 500) :
    efjcDistance F1 Lp Lc St kT < efjcDistance F2 Lp Lc St kT := by
  have h2 : 0 < F2 := lt_trans h1 h12
  have hform : ∀ F : ℝ, 0 < F → 2 * F * Lp / kT < 500 → efjcDistance F Lp Lc St kT
      = Lc * (Real.cosh (2 * F * Lp / kT) / Real.sinh (2 * F * Lp / kT) - 1 / (2 * F * Lp / kT)) * (1 + F / St) := by
    intro F hF hgF
    have ht : 0 < 2 * F * Lp / kT := by positivity
    simp only [efjcDistance]
    have e1 : (1.0 : ℝ) = 1 := by norm_num
    have e2 : (2.0 : ℝ) = 2 := by norm_num
    rw [e1, e2, coth_real, if_pos (by rw [abs_of_pos ht]; exact hgF)]
    congr 2
    field_simp
  have ht1 : 0 < 2 * F1 * Lp / kT := by positivity
  have ht12 : 2 * F1 * Lp / kT < 2 * F2 * Lp / kT := by
    apply div_lt_div_of_pos_right _ hkT
    nlinarith
  rw [hform F1 h1 (lt_trans ht12 hg), hform F2 h2 hg]
  have hL1 := langevin_pos _ ht1
  have hL := langevin_strictMono _ _ ht1 ht12
  have he : 1 + F1 / St < 1 + F2 / St := by
    have := div_lt_div_of_pos_right h12 hSt; linarith
  have he1 : 0 < 1 + F1 / St := by positivity
  have := mul_lt_mul'' hL he hL1.le he1.le
  have key := mul_lt_mul_of_pos_left this hLc
  have ea : ∀ a b : ℝ, Lc * a * b = Lc * (a * b) := fun a b => mul_assoc _ _ _
  rw [ea, ea]
  exact key


/-- tWLC below the critical force (constant coupling `g0 + g1·Fc`) inside the validity region
    (`(g0 + g1·Fc)² < St·C`): strictly increasing in the force. -/
theorem twlc_distance_strictMono_below_Fc_aux (F1 F2 Lp Lc St C g0 g1 Fc kT : ℝ) (h1 : 0 < F1) (h12 : F1 < F2)
    (h2 : F2 ≤ Fc) (hLp : 0 < Lp) (hLc : 0 < Lc) (hkT : 0 < kT) (hC : 0 < C)
    (hval : (g0 + g1 * Fc) ^ 2 < St * C) :
    twlcDistance F1 Lp Lc St C g0 g1 Fc kT < twlcDistance F2 Lp Lc St C g0 g1 Fc kT := by
  rw [twlcDistance_real, twlcDistance_real, max_eq_right (le_trans h12.le h2), max_eq_right h2]
  have hF2 : 0 < F2 := lt_trans h1 h12
  have hlt : kT / (F2 * Lp) < kT / (F1 * Lp) := by
    apply div_lt_div_of_pos_left hkT (by positivity)
    exact mul_lt_mul_of_pos_right h12 hLp
  have hs : √(kT / (F2 * Lp)) < √(kT / (F1 * Lp)) := Real.sqrt_lt_sqrt (by positivity) hlt
  have hden : 0 < -(g0 + g1 * Fc) ^ 2 + St * C := by linarith
  have hk : 0 < C / (-(g0 + g1 * Fc) ^ 2 + St * C) := div_pos hC hden
  have : C / (-(g0 + g1 * Fc) ^ 2 + St * C) * F1 < C / (-(g0 + g1 * Fc) ^ 2 + St * C) * F2 :=
    mul_lt_mul_of_pos_left h12 hk
  apply mul_lt_mul_of_pos_left _ hLc
  linarith


end Verif.C12
