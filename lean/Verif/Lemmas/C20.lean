/-
  C20 — helper lemmas: the `ℝ` reading of the generic formulas of `Verif.Model.C20` (unfolding lemmas `…_real`),
  polynomial facts about the Faxén / Brenner / Goldman–Cox–Brenner expressions, list/Finset plumbing for the
  aliasing sum, `sin² y ≤ y²` for the motion-blur factor, the bulk complex drag at non-negative frequencies.
-/
import Verif.Model.C20
import Verif.NumReal
import Mathlib.Analysis.SpecialFunctions.ImproperIntegrals
import Mathlib.Analysis.SpecialFunctions.Trigonometric.Bounds
import Mathlib.Data.Int.Interval
import Mathlib.Analysis.Calculus.Deriv.MeanValue
import Mathlib.Analysis.Calculus.Deriv.Pow
import Mathlib.Algebra.BigOperators.Intervals
import Mathlib.Tactic.Ring
import Mathlib.Tactic.Linarith
import Mathlib.Tactic.Positivity
import Mathlib.Tactic.FieldSimp
import Mathlib.Tactic.NormNum

namespace Verif.C20
open Verif Filter Topology

/-- the `ℝ` reading of `x ** y` -/
noncomputable instance : RPow ℝ where
  rpow := Real.rpow

/-! ### power_models -/

theorem lorentzian_real (f fc D : ℝ) : lorentzian f fc D = (D / Real.pi ^ 2) / (f ^ 2 + fc ^ 2) := by
  simp only [lorentzian, RealLike.pi]; ring_nf

theorem gDiode_real (f fd a : ℝ) : gDiode f fd a = a ^ 2 + (1 - a ^ 2) / (1 + (f / fd) ^ 2) := by
  simp only [gDiode]; norm_num; ring_nf

theorem ofNat_real (n : Nat) : (ofNat n : ℝ) = (n : ℝ) := by
  unfold ofNat
  rw [NNRatCast.ofScientific_eq_ite]
  simp

theorem ofInt_real (i : Int) : (ofInt i : ℝ) = (i : ℝ) := by
  unfold ofInt
  split
  · rw [ofNat_real]
    have : ((-i).toNat : ℤ) = -i := Int.toNat_of_nonneg (by omega)
    have h2 : (((-i).toNat : ℤ) : ℝ) = ((-i : ℤ) : ℝ) := by rw [this]
    rw [Int.cast_natCast] at h2
    rw [h2]; simp
  · rw [ofNat_real]
    have : (i.toNat : ℤ) = i := Int.toNat_of_nonneg (by omega)
    have h2 : ((i.toNat : ℤ) : ℝ) = (i : ℝ) := by rw [this]
    rw [Int.cast_natCast] at h2
    exact h2

theorem foldl_add_eq (g : ℤ → ℝ) (l : List ℤ) (acc : ℝ) :
    l.foldl (fun acc i => acc + g i) acc = acc + (l.map g).sum := by
  induction l generalizing acc with
  | nil => simp
  | cons x xs ih => simp [ih, add_assoc]

theorem list_range_map_sum (h : ℕ → ℝ) (m : ℕ) :
    ((List.range m).map h).sum = ∑ k ∈ Finset.range m, h k := by
  induction m with
  | zero => simp
  | succ m ih => rw [List.range_succ, List.map_append, List.sum_append, ih, Finset.sum_range_succ]; simp

/-- the left fold of `alias_spectrum` as a sum over `range(2n+1)` -/
theorem alias_eq_range (psd : ℝ → ℝ) (fs : ℝ) (n : ℕ) (f : ℝ) :
    aliasSpectrum psd fs n f = ∑ k ∈ Finset.range (2 * n + 1), psd (f + ((k : ℝ) - n) * fs) := by
  unfold aliasSpectrum aliasShifts
  rw [foldl_add_eq]
  have z : (0.0 : ℝ) = 0 := by norm_num
  rw [z, zero_add, List.map_map, list_range_map_sum]
  apply Finset.sum_congr rfl
  intro k _
  simp only [Function.comp, ofInt_real]
  push_cast
  rfl

theorem sinc_sq_le_one (x : ℝ) : sinc x * sinc x ≤ 1 := by
  unfold sinc
  simp only [RealLike.sin]
  generalize (RealLike.pi * (if isZero x then (1.0e-20 : ℝ) else x)) = y
  by_cases hy : y = 0
  · subst hy; simp
  · have h := Real.sin_sq_le_sq (x := y)
    have hy2 : 0 < y ^ 2 := by positivity
    have : Real.sin y / y * (Real.sin y / y) = Real.sin y ^ 2 / y ^ 2 := by field_simp
    rw [this, div_le_one hy2]; exact h

theorem sinc_sq_nonneg (x : ℝ) : 0 ≤ sinc x * sinc x := mul_self_nonneg _

/-! ### wrapper chains and the bisection of the molarity → molality conversion -/

theorem wrapChain_append_single (ws : List (Wrapper ℝ)) (w : Wrapper ℝ) (psd : ℝ → ℝ) :
    wrapChain (ws ++ [w]) psd = w.apply (wrapChain ws psd) := by
  simp [wrapChain, List.foldl_append]

theorem two_real : (2.0 : ℝ) = 2 := by norm_num

/-- invariant of `bisect`: the last bracket `[a, b]` lies inside the first, has width `(hi − lo) / 2^k`, still
    carries the sign change, and the answer is its midpoint -/
theorem bisect_bracket (g : ℝ → ℝ) (k : ℕ) (lo hi : ℝ) (h : lo ≤ hi) (hlo : 0 ≤ g lo) (hhi : g hi ≤ 0) :
    ∃ a b, lo ≤ a ∧ a ≤ b ∧ b ≤ hi ∧ b - a = (hi - lo) / 2 ^ k ∧ 0 ≤ g a ∧ g b ≤ 0 ∧
      bisect g k lo hi = (a + b) / 2 := by
  induction k generalizing lo hi with
  | zero => exact ⟨lo, hi, le_refl _, h, le_refl _, by simp, hlo, hhi, by simp [bisect, two_real]⟩
  | succ k ih =>
    have hm1 : lo ≤ (lo + hi) / 2 := by linarith
    have hm2 : (lo + hi) / 2 ≤ hi := by linarith
    have z : (0.0 : ℝ) = 0 := by norm_num
    by_cases hg : 0 < g ((lo + hi) / 2)
    · obtain ⟨a, b, h1, h2, h3, h4, h5, h6, h7⟩ := ih ((lo + hi) / 2) hi hm2 hg.le hhi
      refine ⟨a, b, by linarith, h2, h3, ?_, h5, h6, ?_⟩
      · rw [h4, pow_succ]; field_simp; ring
      · simp only [bisect, two_real, z, RealLike.lt, decide_eq_true_eq, hg, if_true]; exact h7
    · obtain ⟨a, b, h1, h2, h3, h4, h5, h6, h7⟩ := ih lo ((lo + hi) / 2) hm1 hlo (not_lt.mp hg)
      refine ⟨a, b, h1, h2, by linarith, ?_, h5, h6, ?_⟩
      · rw [h4, pow_succ]; field_simp; ring
      · simp only [bisect, two_real, z, RealLike.lt, decide_eq_true_eq, hg, if_false]; exact h7

/-! ### drag_models: polynomials in `x = R / h` (wall) and `x = R / d` (bead–bead) -/

noncomputable def faxenP (x : ℝ) : ℝ := 1 - 9/16*x + 1/8*x^3 - 45/256*x^4 - 1/16*x^5
noncomputable def brennerP (x : ℝ) : ℝ :=
  1 - 9/8*x + 1/2*x^3 - 57/100*x^4 + 1/5*x^5 + 7/200*x^11 - 1/25*x^12
noncomputable def goldmanRotP (x : ℝ) : ℝ :=
  1 - 3/4*x + 9/16*x^2 - 59/64*x^3 + 273/256*x^4 - 1107/1024*x^5 + x^6/(1 + x)
noncomputable def goldmanFixP (x : ℝ) : ℝ :=
  1 - 3/4*x + 9/16*x^2 - 59/64*x^3 + 465/256*x^4 - 15813/7168*x^5 + 2*x^6/(1 + x)

theorem faxenDen_real (x : ℝ) : faxenDen x = faxenP x := by
  simp only [faxenDen, faxenP, RealLike.npow]; norm_num; ring

theorem brennerDen_real (x : ℝ) : brennerDen x = brennerP x := by
  simp only [brennerDen, brennerP, RealLike.npow]; norm_num; ring

theorem faxen_real (h R : ℝ) : faxen h R = 1 / faxenP (R / h) := by
  simp only [faxen, faxenDen_real]; norm_num

theorem brenner_real (h R : ℝ) : brenner h R = 1 / brennerP (R / h) := by
  simp only [brenner, brennerDen_real]; norm_num

theorem goldman_rot_real (R d : ℝ) : goldman R d true = goldmanRotP (R / d) := by
  simp only [goldman, goldmanFactors, goldmanRotP]
  norm_num [List.zipIdx, RealLike.npow]
  ring

theorem goldman_fix_real (R d : ℝ) : goldman R d false = goldmanFixP (R / d) := by
  simp only [goldman, goldmanFactors, goldmanFixP]
  norm_num [List.zipIdx, RealLike.npow]
  ring

theorem faxenP_lt_one (x : ℝ) (h0 : 0 < x) (h1 : x ≤ 1) : faxenP x < 1 := by
  unfold faxenP
  have h3 : x^3 ≤ x := by nlinarith [sq_nonneg x, mul_pos h0 h0]
  have h4 : 0 ≤ x^4 := by positivity
  have h5 : 0 ≤ x^5 := by positivity
  nlinarith

theorem faxenP_pos (x : ℝ) (h0 : 0 ≤ x) (h1 : x ≤ 1) : 0 < faxenP x := by
  unfold faxenP
  have hx2 : x^2 ≤ 1 := by nlinarith
  have h3 : 0 ≤ x^3 := by positivity
  have h4 : x^4 ≤ x := by nlinarith [sq_nonneg x, sq_nonneg (x^2), mul_nonneg h0 h0]
  have h5 : x^5 ≤ x := by nlinarith [sq_nonneg x, sq_nonneg (x^2), mul_nonneg h0 h0, mul_nonneg h0 h3]
  nlinarith

theorem faxenP_strictAnti (x y : ℝ) (hx : 0 ≤ x) (hxy : x < y) (hy : y ≤ 1) : faxenP y < faxenP x := by
  unfold faxenP
  have hd : 0 < y - x := by linarith
  have hx1 : x ≤ 1 := by linarith
  have hy0 : 0 ≤ y := by linarith
  have h3 : y^3 - x^3 ≤ 3 * (y - x) := by
    have e : y^3 - x^3 = (y - x) * (y^2 + y*x + x^2) := by ring
    have hb : y^2 + y*x + x^2 ≤ 3 := by nlinarith [mul_nonneg hx hy0]
    rw [e]; nlinarith
  have h4 : 0 ≤ y^4 - x^4 := by
    have e : y^4 - x^4 = (y - x) * (y^3 + y^2*x + y*x^2 + x^3) := by ring
    have : 0 ≤ y^3 + y^2*x + y*x^2 + x^3 := by positivity
    rw [e]; exact mul_nonneg hd.le this
  have h5 : 0 ≤ y^5 - x^5 := by
    have e : y^5 - x^5 = (y - x) * (y^4 + y^3*x + y^2*x^2 + y*x^3 + x^4) := by ring
    have : 0 ≤ y^4 + y^3*x + y^2*x^2 + y*x^3 + x^4 := by positivity
    rw [e]; exact mul_nonneg hd.le this
  nlinarith

/-- the Brenner denominator vanishes at contact: it factors as `(1 − x) · q(x)` -/
theorem brennerP_factor (x : ℝ) : brennerP x =
    (1 - x) * (x^11/25 + x^10/200 + x^9/200 + x^8/200 + x^7/200 + x^6/200 + x^5/200
      - 39*x^4/200 + 3*x^3/8 - x^2/8 - x/8 + 1) := by
  unfold brennerP; ring

theorem brennerP_pos (x : ℝ) (h0 : 0 ≤ x) (h1 : x < 1) : 0 < brennerP x := by
  rw [brennerP_factor]
  apply mul_pos (by linarith)
  have hx2 : x^2 ≤ x := by nlinarith
  have hx4 : x^4 ≤ x^2 := by nlinarith [sq_nonneg x, mul_nonneg h0 h0]
  have : 0 ≤ x^11/25 + x^10/200 + x^9/200 + x^8/200 + x^7/200 + x^6/200 + x^5/200 + 3*x^3/8 := by positivity
  nlinarith

theorem brennerP_lt_one (x : ℝ) (h0 : 0 < x) (h1 : x ≤ 1) : brennerP x < 1 := by
  unfold brennerP
  have h3 : x^3 ≤ x := pow_le_of_le_one h0.le h1 (by norm_num)
  have h5 : x^5 ≤ x := pow_le_of_le_one h0.le h1 (by norm_num)
  have h11 : x^11 ≤ x := pow_le_of_le_one h0.le h1 (by norm_num)
  have h4 : 0 ≤ x^4 := by positivity
  have h12 : 0 ≤ x^12 := by positivity
  nlinarith

/-- `brennerP ≤ faxenP` on `[0,1]`: the axial correction is at least the lateral one -/
theorem brennerP_le_faxenP (x : ℝ) (h0 : 0 ≤ x) (h1 : x ≤ 1) : brennerP x ≤ faxenP x := by
  unfold brennerP faxenP
  have h3 : x^3 ≤ x := pow_le_of_le_one h0 h1 (by norm_num)
  have h11 : x^11 ≤ x := pow_le_of_le_one h0 h1 (by norm_num)
  have h54 : x^5 ≤ x^4 := by
    have : x^5 = x^4 * x := by ring
    rw [this]; exact mul_le_of_le_one_right (by positivity) h1
  have h4 : 0 ≤ x^4 := by positivity
  have h12 : 0 ≤ x^12 := by positivity
  nlinarith

/-! #### the Brenner denominator is strictly decreasing on `[0, 1]` (derivative `< 0`) -/

noncomputable def brennerP' (x : ℝ) : ℝ := -9/8 + 3/2*x^2 - 57/25*x^3 + x^4 + 77/200*x^10 - 12/25*x^11

theorem brennerP_hasDerivAt (x : ℝ) : HasDerivAt brennerP (brennerP' x) x := by
  have hm : ∀ (c : ℝ) (n : ℕ), HasDerivAt (fun x : ℝ => c * x ^ n) (c * (n * x ^ (n - 1))) x :=
    fun c n => (hasDerivAt_pow n x).const_mul c
  have h := ((((((hasDerivAt_const x (1:ℝ)).sub ((hasDerivAt_id' x).const_mul (9/8))).add (hm (1/2) 3)).sub
    (hm (57/100) 4)).add (hm (1/5) 5)).add (hm (7/200) 11)).sub (hm (1/25) 12)
  have hf : brennerP = fun x => 1 - 9/8*x + 1/2*x^3 - 57/100*x^4 + 1/5*x^5 + 7/200*x^11 - 1/25*x^12 := by
    funext y; rfl
  rw [hf]
  refine h.congr_deriv ?_
  unfold brennerP'
  norm_num
  ring

theorem brennerP'_neg (x : ℝ) (h0 : 0 ≤ x) (h1 : x ≤ 1) : brennerP' x < 0 := by
  unfold brennerP'
  have h43 : x^4 ≤ x^3 := by
    have : x^4 = x^3 * x := by ring
    rw [this]; exact mul_le_of_le_one_right (by positivity) h1
  have h10 : x^10 ≤ 1 := pow_le_one₀ h0 h1
  have h11 : 0 ≤ x^11 := by positivity
  -- 3/2 x² − 32/25 x³ ≤ 7/20 on [0,1]
  have key : 3/2*x^2 - 32/25*x^3 ≤ 7/20 := by
    nlinarith [mul_nonneg h0 (sq_nonneg (x - 39/50)), sq_nonneg (x - 98/125)]
  nlinarith

theorem brennerP_strictAntiOn : StrictAntiOn brennerP (Set.Icc 0 1) := by
  apply strictAntiOn_of_deriv_neg (convex_Icc 0 1)
  · exact fun x _ => (brennerP_hasDerivAt x).continuousAt.continuousWithinAt
  · intro x hx
    rw [interior_Icc] at hx
    rw [(brennerP_hasDerivAt x).deriv]
    exact brennerP'_neg x hx.1.le hx.2.le

theorem half_pows (x : ℝ) (h0 : 0 < x) (h1 : x ≤ 1/2) :
    x^2 ≤ x/2 ∧ x^3 ≤ x/4 ∧ x^4 ≤ x/8 ∧ x^5 ≤ x/16 ∧ x^6 ≤ x/32 := by
  have h2 : x^2 ≤ x/2 := by nlinarith
  have h3 : x^3 ≤ x/4 := by nlinarith [mul_pos h0 h0]
  have h4 : x^4 ≤ x/8 := by nlinarith [mul_pos h0 h0, pow_pos h0 3]
  have h5 : x^5 ≤ x/16 := by nlinarith [mul_pos h0 h0, pow_pos h0 3, pow_pos h0 4]
  have h6 : x^6 ≤ x/32 := by nlinarith [mul_pos h0 h0, pow_pos h0 3, pow_pos h0 4, pow_pos h0 5]
  exact ⟨h2, h3, h4, h5, h6⟩

theorem goldmanRotP_bounds (x : ℝ) (h0 : 0 < x) (h1 : x ≤ 1/2) : 0 < goldmanRotP x ∧ goldmanRotP x < 1 := by
  obtain ⟨h2, h3, h4, h5, h6⟩ := half_pows x h0 h1
  have hq : 0 ≤ x^6/(1 + x) := by positivity
  have hq' : x^6/(1 + x) ≤ x^6 := div_le_self (by positivity) (by linarith)
  have p2 : 0 ≤ x^2 := by positivity
  have p3 : 0 ≤ x^3 := by positivity
  have p4 : 0 ≤ x^4 := by positivity
  have p5 : 0 ≤ x^5 := by positivity
  unfold goldmanRotP
  constructor <;> nlinarith

theorem goldmanFixP_bounds (x : ℝ) (h0 : 0 < x) (h1 : x ≤ 1/2) : 0 < goldmanFixP x ∧ goldmanFixP x < 1 := by
  obtain ⟨h2, h3, h4, h5, h6⟩ := half_pows x h0 h1
  have hq : 0 ≤ 2*x^6/(1 + x) := by positivity
  have hq' : 2*x^6/(1 + x) ≤ 2*x^6 := div_le_self (by positivity) (by linarith)
  have p2 : 0 ≤ x^2 := by positivity
  have p3 : 0 ≤ x^3 := by positivity
  have p4 : 0 ≤ x^4 := by positivity
  have p5 : 0 ≤ x^5 := by positivity
  unfold goldmanFixP
  constructor <;> nlinarith

/-- `R / d → 0` as `d → ∞` -/
theorem tendsto_ratio (R : ℝ) : Tendsto (fun d : ℝ => R / d) atTop (𝓝 0) :=
  tendsto_const_nhds.div_atTop tendsto_id

/-- a function of the ratio `R / d` that is continuous at `0` tends to its value there as `d → ∞` -/
theorem tendsto_of_ratio (G : ℝ → ℝ) (hc : ContinuousAt G 0) (R : ℝ) :
    Tendsto (fun d : ℝ => G (R / d)) atTop (𝓝 (G 0)) :=
  hc.tendsto.comp (tendsto_ratio R)

theorem inv_faxenP_continuousAt : ContinuousAt (fun x => 1 / faxenP x) 0 := by
  unfold faxenP; fun_prop (disch := norm_num)
theorem inv_brennerP_continuousAt : ContinuousAt (fun x => 1 / brennerP x) 0 := by
  unfold brennerP; fun_prop (disch := norm_num)
theorem goldmanRotP_continuousAt : ContinuousAt goldmanRotP 0 := by
  unfold goldmanRotP; fun_prop (disch := norm_num)
theorem goldmanFixP_continuousAt : ContinuousAt goldmanFixP 0 := by
  unfold goldmanFixP; fun_prop (disch := norm_num)

/-! ### viscosity of water -/

theorem viscosityWater_real (T : ℝ) : viscosityWater T =
    (280.68 * ((T + 273.15) / 300) ^ (-1.9 : ℝ) + 511.45 * ((T + 273.15) / 300) ^ (-7.7 : ℝ)
      + 61.131 * ((T + 273.15) / 300) ^ (-19.6 : ℝ) + 0.45903 * ((T + 273.15) / 300) ^ (-40 : ℝ)) * 1e-6 := by
  simp only [viscosityWater, huberA, huberB, RPow.rpow, List.zipWith, List.foldl]
  norm_num

/-- a term `a · x^b` with `a > 0 > b` is strictly decreasing on `x > 0` -/
theorem rpow_term_strictAnti (a b x y : ℝ) (ha : 0 < a) (hb : b < 0) (hx : 0 < x) (hxy : x < y) :
    a * y ^ b < a * x ^ b := by
  have := Real.rpow_lt_rpow_of_neg hx hxy hb
  nlinarith

theorem poly_zero_123 (a b c : ℝ) : poly (0 : ℝ) [1, 2, 3] [a, b, c] = 0 := by
  simp [poly, ipow, RealLike.npow]
  norm_num

theorem zpv_zero (t : ℝ) : zeroPressureViscosity t 0 = muW t := by
  simp only [zeroPressureViscosity, poly_zero_123, RPow.rpow]
  norm_num

theorem pf_zero (t : ℝ) : pressureFactor t 0 = betaW t := by
  simp only [pressureFactor, zero_div, poly_zero_123]
  ring

/-! ### hydrodynamics: bulk drag at non-negative frequencies -/

theorem frequencyNu_real (g rho R : ℝ) :
    frequencyNu g rho R = g / (6 * Real.pi * rho * R) / (Real.pi * (R * R)) := by
  simp only [frequencyNu, RealLike.pi]; norm_num

theorem frequencyNu_pos (g rho R : ℝ) (hg : 0 < g) (hrho : 0 < rho) (hR : 0 < R) : 0 < frequencyNu g rho R := by
  rw [frequencyNu_real]; have := Real.pi_pos; positivity

theorem csqrtReal_nonneg (r : ℝ) (hr : 0 ≤ r) : csqrtReal r = (Real.sqrt r, 0) := by
  have h0 : ¬ r < (0.0 : ℝ) := by norm_num; exact hr
  simp only [csqrtReal, RealLike.lt, RealLike.sqrt, decide_eq_true_eq, if_neg h0]
  norm_num

theorem stokesDrag_nonneg (r : ℝ) (hr : 0 ≤ r) :
    stokesDrag r = (1 + Real.sqrt r, -Real.sqrt r - 2 / 9 * r) := by
  simp only [stokesDrag, csqrtReal_nonneg r hr]
  norm_num

/-- bulk complex drag at a non-negative frequency: `1 + √r`, `−√r − 2r/9`, `r = f / f_ν` -/
theorem complexDrag_bulk (f g rho R : ℝ) (hf : 0 ≤ f) (hnu : 0 < frequencyNu g rho R) :
    complexDrag f g rho R none =
      (1 + Real.sqrt (f / frequencyNu g rho R),
       -Real.sqrt (f / frequencyNu g rho R) - 2 / 9 * (f / frequencyNu g rho R)) := by
  have hr : 0 ≤ f / frequencyNu g rho R := div_nonneg hf hnu.le
  simp only [complexDrag, stokesDrag_nonneg _ hr]

theorem hydroPsd_bulk (f fc D g R rhoS rhoB : ℝ) (hf : 0 ≤ f) (hnu : 0 < frequencyNu g rhoS R) :
    hydroPsd f fc D g R rhoS rhoB none =
      D / Real.pi ^ 2 * (1 + Real.sqrt (f / frequencyNu g rhoS R)) /
        ((fc + f * ((-Real.sqrt (f / frequencyNu g rhoS R) - 2 / 9 * (f / frequencyNu g rhoS R))
            - f / frequencyM g R rhoB)) ^ 2
          + (f * (1 + Real.sqrt (f / frequencyNu g rhoS R))) ^ 2) := by
  simp only [hydroPsd, complexDrag_bulk f g rhoS R hf hnu, RealLike.pi]
  ring_nf

/-! ### coupling_correction_2d: the 2-D decomposition for one bead pair -/

theorem coupling2d_real_x (dx dy ca cp : ℝ) (h : dx ≠ 0 ∨ dy ≠ 0) :
    coupling2d dx dy ca cp false = ca * (dx ^ 2 / (dx ^ 2 + dy ^ 2)) + cp * (dy ^ 2 / (dx ^ 2 + dy ^ 2)) := by
  have hpos : 0 < dx * dx + dy * dy := by
    rcases h with h | h
    · have := mul_self_pos.mpr h; nlinarith [mul_self_nonneg dy]
    · have := mul_self_pos.mpr h; nlinarith [mul_self_nonneg dx]
  have hs : Real.sqrt (dx * dx + dy * dy) ≠ 0 := (Real.sqrt_pos.mpr hpos).ne'
  have hsq : Real.sqrt (dx * dx + dy * dy) ^ 2 = dx * dx + dy * dy := Real.sq_sqrt hpos.le
  simp only [coupling2d, RealLike.sqrt]
  norm_num
  generalize hd : Real.sqrt (dx * dx + dy * dy) = d at hs hsq
  have hd2 : dx ^ 2 + dy ^ 2 = d ^ 2 := by rw [hsq]; ring
  rw [hd2]
  field_simp

theorem coupling2d_real_y (dx dy ca cp : ℝ) (h : dx ≠ 0 ∨ dy ≠ 0) :
    coupling2d dx dy ca cp true = ca * (dy ^ 2 / (dx ^ 2 + dy ^ 2)) + cp * (dx ^ 2 / (dx ^ 2 + dy ^ 2)) := by
  have hpos : 0 < dx * dx + dy * dy := by
    rcases h with h | h
    · have := mul_self_pos.mpr h; nlinarith [mul_self_nonneg dy]
    · have := mul_self_pos.mpr h; nlinarith [mul_self_nonneg dx]
  have hs : Real.sqrt (dx * dx + dy * dy) ≠ 0 := (Real.sqrt_pos.mpr hpos).ne'
  have hsq : Real.sqrt (dx * dx + dy * dy) ^ 2 = dx * dx + dy * dy := Real.sq_sqrt hpos.le
  simp only [coupling2d, RealLike.sqrt]
  norm_num
  generalize hd : Real.sqrt (dx * dx + dy * dy) = d at hs hsq
  have hd2 : dx ^ 2 + dy ^ 2 = d ^ 2 := by rw [hsq]; ring
  rw [hd2]
  field_simp

/-- the weight `cos² θ = dx² / (dx² + dy²)` of a pair lies in `[0, 1]` and `sin² θ` is its complement -/
theorem coupling_weights (dx dy : ℝ) (h : dx ≠ 0 ∨ dy ≠ 0) :
    0 ≤ dx ^ 2 / (dx ^ 2 + dy ^ 2) ∧ dx ^ 2 / (dx ^ 2 + dy ^ 2) ≤ 1 ∧
      dy ^ 2 / (dx ^ 2 + dy ^ 2) = 1 - dx ^ 2 / (dx ^ 2 + dy ^ 2) := by
  have hpos : 0 < dx ^ 2 + dy ^ 2 := by
    rcases h with h | h
    · have := pow_pos (abs_pos.mpr h) 2; rw [sq_abs] at this; nlinarith [sq_nonneg dy]
    · have := pow_pos (abs_pos.mpr h) 2; rw [sq_abs] at this; nlinarith [sq_nonneg dx]
  refine ⟨div_nonneg (sq_nonneg _) hpos.le, ?_, ?_⟩
  · rw [div_le_one hpos]; nlinarith [sq_nonneg dy]
  · field_simp; ring

/-- a weighted mean of two numbers of `(0, 1)` lies in `(0, 1)` -/
theorem convex_unit (ca cp w : ℝ) (hw0 : 0 ≤ w) (hw1 : w ≤ 1) (ha : 0 < ca ∧ ca < 1) (hp : 0 < cp ∧ cp < 1) :
    0 < ca * w + cp * (1 - w) ∧ ca * w + cp * (1 - w) < 1 := by
  constructor
  · nlinarith [mul_nonneg hw0 ha.1.le, mul_nonneg (sub_nonneg.mpr hw1) hp.1.le]
  · nlinarith [mul_nonneg hw0 (sub_nonneg.mpr ha.2.le), mul_nonneg (sub_nonneg.mpr hw1) (sub_nonneg.mpr hp.2.le)]

/-- a weighted mean lies between the two numbers -/
theorem convex_between (ca cp w : ℝ) (hw0 : 0 ≤ w) (hw1 : w ≤ 1) :
    min ca cp ≤ ca * w + cp * (1 - w) ∧ ca * w + cp * (1 - w) ≤ max ca cp := by
  have h1 := min_le_left ca cp; have h2 := min_le_right ca cp
  have h3 := le_max_left ca cp; have h4 := le_max_right ca cp
  have hw1' : 0 ≤ 1 - w := sub_nonneg.mpr hw1
  constructor
  · nlinarith [mul_le_mul_of_nonneg_right h1 hw0, mul_le_mul_of_nonneg_right h2 hw1']
  · nlinarith [mul_le_mul_of_nonneg_right h3 hw0, mul_le_mul_of_nonneg_right h4 hw1']

end Verif.C20
