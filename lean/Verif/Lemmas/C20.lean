import Verif.Model.C20
import Verif.NumReal
