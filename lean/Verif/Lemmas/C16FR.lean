/-
  C16 — deepening round D: one Baum–Welch iteration OF THE ALGORITHM over ℝ.
  `GenR`: the generic-field forward–backward model (`Lemmas/C16F`) at `F = ℝ` — strict positivity
  of the scaled recursions, its specification sums against the path sums of `Lemmas/C16EM`, its
  re-estimation formulas against those of `em_monotone`, and the step / iteration theorems.
  `GenQ`: the generic model at `F = ℚ` IS the executable model of `Model/C16`.
-/
import Verif.Lemmas.C16F
import Verif.Lemmas.C16EM
import Mathlib.Order.Monotone.Basic

namespace Verif.C16

/-! ### the positivity lemmas of `Lemmas/C16` (section `pos`, zero entries allowed) for the generic model at ℝ — same text -/
namespace Gen
open Verif.Py

section pos
open Finset

theorem sumK_nonneg (K : Nat) (f : Nat → ℝ) (h : ∀ i, i < K → 0 ≤ f i) : 0 ≤ sumK K f := by
  rw [sumK_eq]; exact Finset.sum_nonneg (fun i hi => h i (Finset.mem_range.mp hi))

/-- weights `u ≥ 0` with a positive total against strictly positive `b`: the weighted sum is positive -/
theorem sumK_mul_pos (K : Nat) (u b : Nat → ℝ) (hu : ∀ j, j < K → 0 ≤ u j)
    (hb : ∀ j, j < K → 0 < b j) (hs : 0 < sumK K u) : 0 < sumK K (fun j => u j * b j) := by
  rw [sumK_eq] at hs ⊢
  have hex : ∃ j ∈ range K, 0 < u j := by
    by_contra hne
    have : ∑ j ∈ range K, u j ≤ 0 :=
      Finset.sum_nonpos (fun j hj => not_lt.mp (fun h => hne ⟨j, hj, h⟩))
    exact absurd hs (not_lt.mpr this)
  obtain ⟨j, hj, hpos⟩ := hex
  exact Finset.sum_pos' (fun i hi => mul_nonneg (hu i (mem_range.mp hi)) (hb i (mem_range.mp hi)).le)
    ⟨j, hj, mul_pos hpos (hb j (mem_range.mp hj))⟩

/-- A forward step as the code leaves it for a model with probability weights and positive emissions. -/
def GoodStep (K : Nat) (s : (Step ℝ)) : Prop :=
  0 < s.c ∧ (∀ j, j < K → 0 ≤ atR s.alpha j) ∧ (∀ j, j < K → 0 < atR s.b j)

theorem normStep_good (K : Nat) (a b : (List ℝ)) (ha : ∀ j, j < K → 0 ≤ atR a j)
    (hc : 0 < sumK K (atR a)) (hb : ∀ j, j < K → 0 < atR b j) :
    GoodStep K (normStep K a b) ∧ sumK K (atR (normStep K a b).alpha) = 1 ∧
      ∀ j, j < K → 0 < atR a j → 0 < atR (normStep K a b).alpha j := by
  have hc' : 0 < (normStep K a b).c := hc
  refine ⟨⟨hc', ?_, hb⟩, normStep_sum K a b (ne_of_gt hc'), ?_⟩
  · intro j hj; rw [normStep_alpha K a b j hj]; exact div_nonneg (ha j hj) hc'.le
  · intro j hj h; rw [normStep_alpha K a b j hj]; exact div_pos h hc'

theorem initStep_good (K : Nat) (pi : Nat → ℝ) (b0 : (List ℝ)) (hpi : ∀ i, i < K → 0 ≤ pi i)
    (hs : 0 < sumK K pi) (hb : ∀ j, j < K → 0 < atR b0 j) :
    GoodStep K (initStep K pi b0) ∧ sumK K (atR (initStep K pi b0).alpha) = 1 ∧
      ∀ j, j < K → 0 < pi j → 0 < atR (initStep K pi b0).alpha j := by
  unfold initStep
  obtain ⟨h1, h2, h3⟩ := normStep_good K (tab K (fun j => pi j * atR b0 j)) b0
    (fun j hj => by rw [atR_tab _ _ _ hj]; exact mul_nonneg (hpi j hj) (hb j hj).le)
    (by rw [sumK_atR_tab]; exact sumK_mul_pos K pi (atR b0) hpi hb hs) hb
  refine ⟨h1, h2, fun j hj hp => h3 j hj ?_⟩
  rw [atR_tab _ _ _ hj]; exact mul_pos hp (hb j hj)

theorem fwdStep_good (K : Nat) (A : Nat → Nat → ℝ) (prev b : (List ℝ))
    (hA : ∀ i j, i < K → j < K → 0 ≤ A i j) (hrow : ∀ i, i < K → 0 < sumK K (A i))
    (hprev : ∀ i, i < K → 0 ≤ atR prev i) (hsum : sumK K (atR prev) = 1)
    (hb : ∀ j, j < K → 0 < atR b j) :
    GoodStep K (fwdStep K A prev b) ∧ sumK K (atR (fwdStep K A prev b).alpha) = 1 := by
  unfold fwdStep
  have hu : ∀ j, j < K → 0 ≤ sumK K (fun i => atR prev i * A i j) := fun j hj =>
    sumK_nonneg K _ (fun i hi => mul_nonneg (hprev i hi) (hA i j hi hj))
  have hS : 0 < sumK K (fun j => sumK K (fun i => atR prev i * A i j)) := by
    have e : sumK K (fun j => sumK K (fun i => atR prev i * A i j))
        = sumK K (fun i => atR prev i * sumK K (A i)) := by
      simp only [sumK_eq]
      rw [Finset.sum_comm]
      apply Finset.sum_congr rfl; intro i _; rw [Finset.mul_sum]
    rw [e]
    exact sumK_mul_pos K (atR prev) (fun i => sumK K (A i)) hprev hrow (by rw [hsum]; exact zero_lt_one)
  obtain ⟨h1, h2, _⟩ := normStep_good K
    (tab K (fun j => sumK K (fun i => atR prev i * A i j) * atR b j)) b
    (fun j hj => by rw [atR_tab _ _ _ hj]; exact mul_nonneg (hu j hj) (hb j hj).le)
    (by rw [sumK_atR_tab]; exact sumK_mul_pos K _ (atR b) hu hb hS) hb
  exact ⟨h1, h2⟩

theorem fwdFrom_good (K : Nat) (A : Nat → Nat → ℝ)
    (hA : ∀ i j, i < K → j < K → 0 ≤ A i j) (hrow : ∀ i, i < K → 0 < sumK K (A i)) :
    ∀ (bs : List (List ℝ)) (prev : (List ℝ)), (∀ i, i < K → 0 ≤ atR prev i) → sumK K (atR prev) = 1 →
      (∀ b ∈ bs, ∀ j, j < K → 0 < atR b j) → ∀ s ∈ fwdFrom K A prev bs, GoodStep K s
  | [], _, _, _, _ => by simp [fwdFrom]
  | b :: bs, prev, hprev, hsum, hb => by
    obtain ⟨hg, hs⟩ := fwdStep_good K A prev b hA hrow hprev hsum (hb b (by simp))
    intro s hs'
    simp only [fwdFrom, List.mem_cons] at hs'
    rcases hs' with rfl | hs'
    · exact hg
    · exact fwdFrom_good K A hA hrow bs _ hg.2.1 hs (fun b' hb' => hb b' (by simp [hb'])) s hs'

theorem atR_had (K : Nat) (a b : (List ℝ)) (i : Nat) (hi : i < K) : atR (had K a b) i = atR a i * atR b i := by
  simp only [had]; rw [atR_tab _ _ _ hi]

/-- `β̂ > 0`, `γ ≥ 0`, `ξ ≥ 0`, and `γ_t(i) > 0` where `α̂_t(i) > 0` (first time point of the suffix). -/
theorem smooth_pos (K : Nat) (A : Nat → Nat → ℝ)
    (hA : ∀ i j, i < K → j < K → 0 ≤ A i j) (hrow : ∀ i, i < K → 0 < sumK K (A i)) :
    ∀ (rest : List (Step ℝ)) (s : (Step ℝ)), GoodStep K s → (∀ s' ∈ rest, GoodStep K s') →
      (∀ i, i < K → 0 < atR (smooth K A s rest).1 i) ∧
      (∀ g ∈ (smooth K A s rest).2.1, ∀ i, i < K → 0 ≤ atR g i) ∧
      (∀ x ∈ (smooth K A s rest).2.2, ∀ i j, i < K → j < K → 0 ≤ atR (x.getD i []) j) ∧
      (∀ i, i < K → 0 < atR s.alpha i → 0 < atR ((smooth K A s rest).2.1.headD []) i)
  | [], s, hs, _ => by
    simp only [smooth]
    refine ⟨fun i hi => by rw [atR_tab _ _ _ hi]; exact zero_lt_one, ?_, by simp, ?_⟩
    · intro g hg i hi
      simp only [List.mem_singleton] at hg; subst hg
      rw [atR_had K _ _ i hi, atR_tab _ _ _ hi, mul_one]; exact hs.2.1 i hi
    · intro i hi h
      simp only [List.headD_cons]
      rw [atR_had K _ _ i hi, atR_tab _ _ _ hi, mul_one]; exact h
  | s' :: rest, s, hs, hrest => by
    have hs' : GoodStep K s' := hrest s' (by simp)
    obtain ⟨ih1, ih2, ih3, _⟩ := smooth_pos K A hA hrow rest s' hs' (fun x hx => hrest x (by simp [hx]))
    simp only [smooth]
    generalize smooth K A s' rest = r at ih1 ih2 ih3 ⊢
    have hβ : ∀ i, i < K → 0 < atR (backStep K A s' r.1) i := by
      intro i hi
      simp only [backStep]; rw [atR_tab _ _ _ hi]
      refine div_pos ?_ hs'.1
      have := sumK_mul_pos K (A i) (fun j => atR s'.b j * atR r.1 j) (fun j hj => hA i j hi hj)
        (fun j hj => mul_pos (hs'.2.2 j hj) (ih1 j hj)) (hrow i hi)
      refine lt_of_lt_of_eq this (sumK_congr _ _ _ (fun j _ => by ring))
    refine ⟨hβ, ?_, ?_, ?_⟩
    · intro g hg i hi
      simp only [List.mem_cons] at hg
      rcases hg with rfl | hg
      · rw [atR_had K _ _ i hi]; exact mul_nonneg (hs.2.1 i hi) (hβ i hi).le
      · exact ih2 g hg i hi
    · intro x hx i j hi hj
      simp only [List.mem_cons] at hx
      rcases hx with rfl | hx
      · rw [atR_xiOf K A _ _ _ i j hi hj]
        exact div_nonneg (mul_nonneg (mul_nonneg (mul_nonneg (hs.2.1 i hi) (hA i j hi hj))
          (hs'.2.2 j hj).le) (ih1 j hj).le) hs'.1.le
      · exact ih3 x hx i j hi hj
    · intro i hi h
      simp only [List.headD_cons]
      rw [atR_had K _ _ i hi]; exact mul_pos h (hβ i hi)

theorem sumT_nonneg {α} (l : List α) (f : α → ℝ) (h : ∀ x ∈ l, 0 ≤ f x) : 0 ≤ sumT l f := by
  unfold sumT
  induction l with
  | nil => simp
  | cons x xs ih =>
    simp only [List.map_cons, List.sum_cons]
    exact add_nonneg (h x (by simp)) (ih (fun y hy => h y (by simp [hy])))

theorem prodL_pos : ∀ l : List ℝ, (∀ x ∈ l, 0 < x) → 0 < prodL l
  | [], _ => by simp [prodL]
  | x :: xs, h => by
    simp only [prodL]
    exact mul_pos (h x (by simp)) (prodL_pos xs (fun y hy => h y (by simp [hy])))

end pos
end Gen
namespace GenR
open Verif.Py Finset Gen

/-! ### strict positivity of the scaled recursions over ℝ -/

theorem sumK_pos' {K : ℕ} (hK : 0 < K) (f : ℕ → ℝ) (h : ∀ i, i < K → 0 < f i) : 0 < Gen.sumK K f := by
  rw [Gen.sumK_eq]
  exact Finset.sum_pos (fun i hi => h i (mem_range.mp hi)) ⟨0, mem_range.mpr hK⟩

/-- a forward step with everything strictly positive -/
def Good (K : ℕ) (s : Gen.Step ℝ) : Prop :=
  0 < s.c ∧ (∀ j, j < K → 0 < Gen.atR s.alpha j) ∧ (∀ j, j < K → 0 < Gen.atR s.b j)

theorem normStep_good {K : ℕ} (hK : 0 < K) (a b : List ℝ) (ha : ∀ j, j < K → 0 < Gen.atR a j)
    (hb : ∀ j, j < K → 0 < Gen.atR b j) :
    Good K (Gen.normStep K a b) ∧ Gen.sumK K (Gen.atR (Gen.normStep K a b).alpha) = 1 := by
  have hc : 0 < (Gen.normStep K a b).c := sumK_pos' hK _ ha
  refine ⟨⟨hc, ?_, hb⟩, Gen.normStep_sum K a b (ne_of_gt hc)⟩
  intro j hj; rw [Gen.normStep_alpha K a b j hj]; exact div_pos (ha j hj) hc

theorem initStep_good {K : ℕ} (hK : 0 < K) (pi : ℕ → ℝ) (b0 : List ℝ) (hpi : ∀ i, i < K → 0 < pi i)
    (hb : ∀ j, j < K → 0 < Gen.atR b0 j) :
    Good K (Gen.initStep K pi b0) ∧ Gen.sumK K (Gen.atR (Gen.initStep K pi b0).alpha) = 1 := by
  unfold Gen.initStep
  exact normStep_good hK _ b0 (fun j hj => by rw [Gen.atR_tab _ _ _ hj]; exact mul_pos (hpi j hj) (hb j hj)) hb

theorem fwdStep_good {K : ℕ} (hK : 0 < K) (A : ℕ → ℕ → ℝ) (prev b : List ℝ)
    (hA : ∀ i j, i < K → j < K → 0 < A i j) (hprev : ∀ i, i < K → 0 < Gen.atR prev i)
    (hb : ∀ j, j < K → 0 < Gen.atR b j) :
    Good K (Gen.fwdStep K A prev b) ∧ Gen.sumK K (Gen.atR (Gen.fwdStep K A prev b).alpha) = 1 := by
  unfold Gen.fwdStep
  refine normStep_good hK _ b (fun j hj => ?_) hb
  rw [Gen.atR_tab _ _ _ hj]
  exact mul_pos (sumK_pos' hK _ (fun i hi => mul_pos (hprev i hi) (hA i j hi hj))) (hb j hj)

theorem fwdFrom_good {K : ℕ} (hK : 0 < K) (A : ℕ → ℕ → ℝ) (hA : ∀ i j, i < K → j < K → 0 < A i j) :
    ∀ (bs : List (List ℝ)) (prev : List ℝ), (∀ i, i < K → 0 < Gen.atR prev i) →
      (∀ b ∈ bs, ∀ j, j < K → 0 < Gen.atR b j) → ∀ s ∈ Gen.fwdFrom K A prev bs, Good K s
  | [], _, _, _ => by simp [Gen.fwdFrom]
  | b :: bs, prev, hprev, hb => by
    obtain ⟨hg, _⟩ := fwdStep_good hK A prev b hA hprev (hb b (by simp))
    intro s hs'
    simp only [Gen.fwdFrom, List.mem_cons] at hs'
    rcases hs' with rfl | hs'
    · exact hg
    · exact fwdFrom_good hK A hA bs _ hg.2.1 (fun b' hb' => hb b' (by simp [hb'])) s hs'

theorem atR_had (K : ℕ) (a b : List ℝ) (i : ℕ) (hi : i < K) :
    Gen.atR (Gen.had K a b) i = Gen.atR a i * Gen.atR b i := by
  simp only [Gen.had]; rw [Gen.atR_tab _ _ _ hi]

/-- `β̂ > 0`, `γ > 0`, `ξ > 0` -/
theorem smooth_pos {K : ℕ} (hK : 0 < K) (A : ℕ → ℕ → ℝ) (hA : ∀ i j, i < K → j < K → 0 < A i j) :
    ∀ (rest : List (Gen.Step ℝ)) (s : Gen.Step ℝ), Good K s → (∀ s' ∈ rest, Good K s') →
      (∀ i, i < K → 0 < Gen.atR (Gen.smooth K A s rest).1 i) ∧
      (∀ g ∈ (Gen.smooth K A s rest).2.1, ∀ i, i < K → 0 < Gen.atR g i) ∧
      (∀ x ∈ (Gen.smooth K A s rest).2.2, ∀ i j, i < K → j < K → 0 < Gen.atR (x.getD i []) j)
  | [], s, hs, _ => by
    simp only [Gen.smooth]
    refine ⟨fun i hi => by rw [Gen.atR_tab _ _ _ hi]; exact zero_lt_one, ?_, by simp⟩
    intro g hg i hi
    simp only [List.mem_singleton] at hg; subst hg
    rw [atR_had K _ _ i hi, Gen.atR_tab _ _ _ hi, mul_one]; exact hs.2.1 i hi
  | s' :: rest, s, hs, hrest => by
    have hs' : Good K s' := hrest s' (by simp)
    obtain ⟨ih1, ih2, ih3⟩ := smooth_pos hK A hA rest s' hs' (fun x hx => hrest x (by simp [hx]))
    simp only [Gen.smooth]
    generalize Gen.smooth K A s' rest = r at ih1 ih2 ih3 ⊢
    have hβ : ∀ i, i < K → 0 < Gen.atR (Gen.backStep K A s' r.1) i := by
      intro i hi
      simp only [Gen.backStep]; rw [Gen.atR_tab _ _ _ hi]
      exact div_pos (sumK_pos' hK _ (fun j hj =>
        mul_pos (mul_pos (hA i j hi hj) (hs'.2.2 j hj)) (ih1 j hj))) hs'.1
    refine ⟨hβ, ?_, ?_⟩
    · intro g hg i hi
      simp only [List.mem_cons] at hg
      rcases hg with rfl | hg
      · rw [atR_had K _ _ i hi]; exact mul_pos (hs.2.1 i hi) (hβ i hi)
      · exact ih2 g hg i hi
    · intro x hx i j hi hj
      simp only [List.mem_cons] at hx
      rcases hx with rfl | hx
      · rw [Gen.atR_xiOf K A _ _ _ i j hi hj]
        exact div_pos (mul_pos (mul_pos (mul_pos (hs.2.1 i hi) (hA i j hi hj))
          (hs'.2.2 j hj)) (ih1 j hj)) hs'.1
      · exact ih3 x hx i j hi hj

/-! ### the generic model at ℝ against the path sums of `Lemmas/C16EM` -/

open EM in
theorem wFrom_prod (A : ℕ → ℕ → ℝ) : ∀ (bs : List (List ℝ)) (i : ℕ) (q : List ℕ), q.length = bs.length →
    Gen.wFrom A i bs q = ∏ t ∈ range bs.length,
      (A (st (i :: q) t) (st (i :: q) (t + 1)) * Gen.atR (bs.getD t []) (st (i :: q) (t + 1)))
  | [], i, q, h => by
    have : q = [] := List.eq_nil_of_length_eq_zero h
    subst this; simp [Gen.wFrom]
  | b :: bs, i, [], h => by simp at h
  | b :: bs, i, j :: q, h => by
    have h' : q.length = bs.length := by simpa using h
    rw [Gen.wFrom, wFrom_prod A bs j q h', List.length_cons, Finset.prod_range_succ']
    simp only [st, List.getD_cons_zero, List.getD_cons_succ]
    ring

/-- the emission table as a function of time and state -/
noncomputable def tabRR (B : List (List ℝ)) : ℕ → ℕ → ℝ := fun t j => Gen.atR (B.getD t []) j

open EM in
theorem joint_eq (pi : ℕ → ℝ) (A : ℕ → ℕ → ℝ) (B : List (List ℝ)) (z : List ℕ) (hB : B ≠ [])
    (hz : z.length = B.length) :
    Gen.joint pi A B z = jointR B.length pi A (tabRR B) z := by
  match B, z, hB, hz with
  | b0 :: bs, s0 :: q, _, hz =>
    have h' : q.length = bs.length := by simpa using hz
    simp only [Gen.joint]
    rw [wFrom_prod A bs s0 q h']
    unfold jointR tabRR
    rw [List.length_cons, Nat.add_sub_cancel,
      Finset.prod_range_succ' (fun t => Gen.atR ((b0 :: bs).getD t []) (st (s0 :: q) t))]
    rw [Finset.prod_mul_distrib]
    simp only [st, List.getD_cons_zero, List.getD_cons_succ]
    ring

section spec
open EM
variable {K : ℕ} {pi : ℕ → ℝ} {A : ℕ → ℕ → ℝ} {B : List (List ℝ)}

theorem likelihoodSpec_eq (hB : B ≠ []) :
    Gen.likelihoodSpec K pi A B = LR K B.length pi A (tabRR B) := by
  unfold Gen.likelihoodSpec LR
  exact S_congr _ _ _ (fun z hz => joint_eq pi A B z hB (mem_allPaths K _ z hz).1)

theorem pinnedSpec_eq (hB : B ≠ []) {t : ℕ} (ht : t < B.length) (i : ℕ) :
    Gen.pinnedSpec K pi A B t i = G K B.length pi A (tabRR B) t i := by
  unfold Gen.pinnedSpec G
  have e : (allPaths K B.length).filter (fun p => decide (p[t]? = some i))
      = (allPaths K B.length).filter (fun z => decide (st z t = i)) :=
    List.filter_congr (fun z hz => by simp only [st_eq_iff hz ht])
  rw [e]
  exact S_congr _ _ _ (fun z hz => joint_eq pi A B z hB (mem_allPaths K _ z (List.mem_filter.mp hz).1).1)

theorem pinned2Spec_eq (hB : B ≠ []) {t : ℕ} (ht : t + 1 < B.length) (i j : ℕ) :
    Gen.pinned2Spec K pi A B t i j = X K B.length pi A (tabRR B) t i j := by
  unfold Gen.pinned2Spec X
  have e : (allPaths K B.length).filter (fun p => decide (p[t]? = some i ∧ p[t + 1]? = some j))
      = (allPaths K B.length).filter (fun z => decide (st z t = i ∧ st z (t + 1) = j)) :=
    List.filter_congr (fun z hz => by
      simp only [st_eq_iff hz (show t < B.length by omega), st_eq_iff hz ht])
  rw [e]
  exact S_congr _ _ _ (fun z hz => joint_eq pi A B z hB (mem_allPaths K _ z (List.mem_filter.mp hz).1).1)

end spec

/-! ### the re-estimation formulas of the generic model at ℝ are those of `em_monotone` -/

theorem sumT_range {α} (d : α) : ∀ (l : List α) (f : α → ℝ),
    Gen.sumT l f = ∑ t ∈ range l.length, f (l.getD t d)
  | [], f => by simp [Gen.sumT]
  | x :: xs, f => by
    rw [List.length_cons, Finset.sum_range_succ']
    simp only [List.getD_cons_succ, List.getD_cons_zero]
    rw [← sumT_range d xs f]; simp [Gen.sumT, add_comm]

theorem sumT_zip_range : ∀ (γ : List (List ℝ)) (data : List ℝ), data.length = γ.length →
    ∀ f : List ℝ × ℝ → ℝ, Gen.sumT (γ.zip data) f = ∑ t ∈ range γ.length, f (γ.getD t [], data.getD t 0)
  | [], _, _, f => by simp [Gen.sumT]
  | g :: gs, [], h, f => by simp at h
  | g :: gs, x :: xs, h, f => by
    have h' : xs.length = gs.length := by simpa using h
    rw [List.length_cons, Finset.sum_range_succ']
    simp only [List.getD_cons_succ, List.getD_cons_zero]
    rw [← sumT_zip_range gs xs h' f]; simp [Gen.sumT, add_comm]

section links
open EM
variable {K : ℕ} {pi : ℕ → ℝ} {A : ℕ → ℕ → ℝ} {B : List (List ℝ)}

theorem pi_link (gammas : List (List ℝ)) (L : ℝ) (hLne : L ≠ 0)
    (hLR : LR K B.length pi A (tabRR B) = L) {i : ℕ}
    (hG : G K B.length pi A (tabRR B) 0 i = Gen.atR (gammas.getD 0 []) i * L) :
    newPi K B.length pi A (tabRR B) i = Gen.atR (Gen.updPi gammas) i := by
  unfold newPi
  rw [hLR, hG, mul_div_assoc, div_self hLne, mul_one]
  have : Gen.updPi gammas = gammas.getD 0 [] := by cases gammas <;> simp [Gen.updPi]
  rw [this]

theorem A_link (gammas : List (List ℝ)) (xis : List (List (List ℝ))) (L : ℝ) (hLne : L ≠ 0)
    (hxl : xis.length = B.length - 1) (hgl : gammas.length = B.length) {i j : ℕ} (hi : i < K) (hj : j < K)
    (hG : ∀ t, t < B.length → G K B.length pi A (tabRR B) t i = Gen.atR (gammas.getD t []) i * L)
    (hX : ∀ t, t + 1 < B.length → X K B.length pi A (tabRR B) t i j
      = Gen.atR ((xis.getD t []).getD i []) j * L) :
    newA K B.length pi A (tabRR B) i j = Gen.fnOfRows (Gen.updA K gammas xis) i j := by
  unfold newA Nij occ Gen.fnOfRows Gen.updA
  rw [getD_tab _ _ _ _ hi, Gen.atR_tab _ _ _ hj, sumT_range ([] : List (List ℝ)), sumT_range ([] : List ℝ), hxl]
  rw [List.length_dropLast, hgl]
  rw [Finset.sum_congr rfl (fun t ht => hX t (by have := mem_range.mp ht; omega)),
    Finset.sum_congr rfl (fun t ht => hG t (by have := mem_range.mp ht; omega)),
    ← Finset.sum_mul, ← Finset.sum_mul, mul_div_mul_right _ _ hLne]
  congr 1
  apply Finset.sum_congr rfl
  intro t ht
  rw [getD_dropLast _ _ _ (by rw [hgl]; exact mem_range.mp ht)]

theorem mean_link (gammas : List (List ℝ)) (data : List ℝ) (L : ℝ) (hL : L ≠ 0)
    (hgl : gammas.length = B.length) (hdl : data.length = B.length) {j : ℕ} (hj : j < K)
    (hG : ∀ t, t < B.length → G K B.length pi A (tabRR B) t j = Gen.atR (gammas.getD t []) j * L) :
    Gen.atR (Gen.updMean K gammas data) j
      = newMuB K B.length pi A (tabRR B) (fun t => data.getD t 0) j := by
  unfold Gen.updMean newMuB wsumB
  rw [Gen.atR_tab _ _ _ hj, sumT_zip_range gammas data (by rw [hdl, hgl]), sumT_range ([] : List ℝ), hgl]
  have e1 : ∀ t ∈ range B.length, G K B.length pi A (tabRR B) t j * data.getD t 0
      = (Gen.atR (gammas.getD t []) j * data.getD t 0) * L := by
    intro t ht; rw [hG t (mem_range.mp ht)]; ring
  rw [Finset.sum_congr rfl e1, Finset.sum_congr rfl (fun t ht => hG t (mem_range.mp ht)),
    ← Finset.sum_mul, ← Finset.sum_mul, mul_div_mul_right _ _ hL]

theorem var_link (gammas : List (List ℝ)) (data : List ℝ) (L : ℝ) (hL : L ≠ 0)
    (hgl : gammas.length = B.length) (hdl : data.length = B.length) {j : ℕ} (hj : j < K)
    (hG : ∀ t, t < B.length → G K B.length pi A (tabRR B) t j = Gen.atR (gammas.getD t []) j * L) :
    Gen.atR (Gen.updVar K gammas data) j
      = newVarB K B.length pi A (tabRR B) (fun t => data.getD t 0) j := by
  unfold newVarB
  rw [← mean_link gammas data L hL hgl hdl hj hG]
  unfold Gen.updVar wsumB
  simp only []
  rw [Gen.atR_tab _ _ _ hj, sumT_zip_range gammas data (by rw [hdl, hgl]), sumT_range ([] : List ℝ), hgl]
  have e1 : ∀ t ∈ range B.length, G K B.length pi A (tabRR B) t j
        * (data.getD t 0 - Gen.atR (Gen.updMean K gammas data) j) ^ 2
      = (Gen.atR (gammas.getD t []) j * ((data.getD t 0 - Gen.atR (Gen.updMean K gammas data) j)
          * (data.getD t 0 - Gen.atR (Gen.updMean K gammas data) j))) * L := by
    intro t ht; rw [hG t (mem_range.mp ht)]; ring
  rw [Finset.sum_congr rfl e1, Finset.sum_congr rfl (fun t ht => hG t (mem_range.mp ht)),
    ← Finset.sum_mul, ← Finset.sum_mul, mul_div_mul_right _ _ hL]

end links

/-! ### one Baum–Welch iteration of the algorithm, over ℝ -/

open EM in
/-- `em_monotone` for tables that are Gaussian on the states `< K` and times `< T` -/
theorem em_gauss_tables {K T : ℕ} {π : ℕ → ℝ} {A : ℕ → ℕ → ℝ} {x μ v : ℕ → ℝ} (b b' : ℕ → ℕ → ℝ)
    (hT : 0 < T) (hπ : ∀ i, i < K → 0 ≤ π i) (hA : ∀ i j, i < K → j < K → 0 ≤ A i j)
    (hπ1 : ∑ i ∈ range K, π i ≤ 1) (hA1 : ∀ i, i < K → ∑ j ∈ range K, A i j ≤ 1)
    (hv : ∀ j, j < K → 0 < v j)
    (hb : ∀ t j, t < T → j < K → b t j = gaussR (x t) (μ j) (v j))
    (hb' : ∀ t j, t < T → j < K →
      b' t j = gaussR (x t) (newMuB K T π A b x j) (newVarB K T π A b x j))
    (hv' : ∀ j, j < K → 0 < wsumB K T π A b j → 0 < newVarB K T π A b x j) :
    LR K T π A b ≤ LR K T (newPi K T π A b) (newA K T π A b) b' := by
  have w : Weights K T π A b :=
    ⟨hπ, hA, fun t j ht hj => by rw [hb t j ht hj]; exact gaussR_pos _ _ _⟩
  refine em_general hT w hπ1 hA1 b' (fun t j ht hj => by rw [hb' t j ht hj]; exact gaussR_pos _ _ _) ?_
  rw [Finset.sum_comm]
  apply Finset.sum_nonneg
  intro j hj
  have hj := mem_range.mp hj
  rw [Finset.sum_congr rfl (fun t ht => by
    rw [hb t j (mem_range.mp ht) hj, hb' t j (mem_range.mp ht) hj])]
  have hg : ∀ t ∈ range T, 0 ≤ G K T π A b t j := fun t _ => G_nonneg hT w t j
  rcases lt_or_eq_of_le (Finset.sum_nonneg hg) with hW | hW
  · exact gauss_mstep (range T) (fun t => G K T π A b t j) x (μ j) (v j) (hv j hj) hW (hv' j hj hW)
  · have hz := (Finset.sum_eq_zero_iff_of_nonneg hg).mp hW.symm
    exact le_of_eq (Finset.sum_eq_zero (fun t ht => by rw [hz t ht, zero_mul])).symm

theorem prodL_pos : ∀ l : List ℝ, (∀ x ∈ l, 0 < x) → 0 < Gen.prodL l
  | [], _ => by simp [Gen.prodL]
  | x :: xs, h => by
    simp only [Gen.prodL]
    exact mul_pos (h x (by simp)) (prodL_pos xs (fun y hy => h y (by simp [hy])))

open EM in
/-- everything the E-step of the algorithm delivers, for a strictly positive model over ℝ -/
theorem estep {K : ℕ} (hK : 0 < K) (π : ℕ → ℝ) (A : ℕ → ℕ → ℝ) (B : List (List ℝ))
    (hπ : ∀ i, i < K → 0 < π i) (hA : ∀ i j, i < K → j < K → 0 < A i j)
    (hBpos : ∀ b ∈ B, ∀ j, j < K → 0 < Gen.atR b j) (r : Gen.FB ℝ)
    (h : Gen.forwardBackward K π A B = some r) :
    0 < r.likelihood ∧ r.likelihood = LR K B.length π A (tabRR B) ∧
    r.gammas.length = B.length ∧ r.xis.length = B.length - 1 ∧
    (∀ t i, t < B.length → i < K →
      G K B.length π A (tabRR B) t i = Gen.atR (r.gammas.getD t []) i * r.likelihood) ∧
    (∀ t i j, t + 1 < B.length → i < K → j < K →
      X K B.length π A (tabRR B) t i j = Gen.atR ((r.xis.getD t []).getD i []) j * r.likelihood) ∧
    (∀ g ∈ r.gammas, ∀ i, i < K → 0 < Gen.atR g i) ∧
    (∀ x ∈ r.xis, ∀ i j, i < K → j < K → 0 < Gen.atR (x.getD i []) j) ∧
    (∀ g ∈ r.gammas, Gen.sumK K (Gen.atR g) = 1) ∧
    r.xis.map (Gen.rowSums K) = r.gammas.dropLast := by
  cases B with
  | nil => simp [Gen.forwardBackward] at h
  | cons b0 bs =>
    have hB : (b0 :: bs) ≠ [] := by simp
    simp only [Gen.forwardBackward, Option.some.injEq] at h
    subst h
    obtain ⟨g0, s0⟩ := initStep_good hK π b0 hπ (hBpos b0 (by simp))
    have hrest := fwdFrom_good hK A hA bs _ g0.2.1 (fun b hb => hBpos b (by simp [hb]))
    obtain ⟨_, k2, k3⟩ := smooth_pos hK A hA _ _ g0 hrest
    have hc0 : (Gen.initStep K π b0).c ≠ 0 := ne_of_gt g0.1
    have hcr : ∀ s' ∈ Gen.fwdFrom K A (Gen.initStep K π b0).alpha bs, s'.c ≠ 0 :=
      fun s' hs' => ne_of_gt (hrest s' hs').1
    have hL := Gen.likelihood_paths K π A b0 bs hc0 hcr
    have hgl : (Gen.smooth K A (Gen.initStep K π b0)
        (Gen.fwdFrom K A (Gen.initStep K π b0).alpha bs)).2.1.length = (b0 :: bs).length :=
      Gen.smooth_gammas_length K A bs (Gen.initStep K π b0)
    have hxi := Gen.smooth_xi K A (Gen.fwdFrom K A (Gen.initStep K π b0).alpha bs) (Gen.initStep K π b0)
    refine ⟨?_, ?_, hgl, ?_, ?_, ?_, k2, k3, (Gen.smooth_gamma K A bs _ s0 hcr).2, hxi⟩
    · simp only [Gen.FB.likelihood]
      apply prodL_pos
      intro x hx
      obtain ⟨s, hs, rfl⟩ := List.mem_map.mp hx
      simp only [List.mem_cons] at hs
      rcases hs with rfl | hs
      · exact g0.1
      · exact (hrest s hs).1
    · simp only [Gen.FB.likelihood]; rw [hL, likelihoodSpec_eq hB]
    · have := congrArg List.length hxi
      simp only [List.length_map, List.length_dropLast, hgl] at this
      exact this
    · intro t i ht hi
      simp only [Gen.FB.likelihood]
      rw [Gen.gamma_exact_aux K π A b0 bs hc0 hcr t ht i hi, pinnedSpec_eq hB ht]
    · intro t i j ht hi hj
      simp only [Gen.FB.likelihood]
      rw [Gen.xi_exact_aux K π A b0 bs hc0 hcr t ht i j hi hj, pinned2Spec_eq hB ht]

/-- `B[t][j] = N(x_t; μ_j, v_j)`: the emission table `forward_backward` builds from the model -/
noncomputable def gaussB (K : ℕ) (x : List ℝ) (μ v : ℕ → ℝ) : List (List ℝ) :=
  x.map (fun xt => tab K (fun j => EM.gaussR xt (μ j) (v j)))

theorem gaussB_length (K : ℕ) (x : List ℝ) (μ v : ℕ → ℝ) : (gaussB K x μ v).length = x.length := by
  simp [gaussB]

theorem gaussB_pos (K : ℕ) (x : List ℝ) (μ v : ℕ → ℝ) :
    ∀ b ∈ gaussB K x μ v, ∀ j, j < K → 0 < Gen.atR b j := by
  intro b hb j hj
  obtain ⟨xt, _, rfl⟩ := List.mem_map.mp hb
  rw [Gen.atR_tab _ _ _ hj]; exact EM.gaussR_pos _ _ _

theorem tabRR_gaussB (K : ℕ) (x : List ℝ) (μ v : ℕ → ℝ) {t j : ℕ} (ht : t < x.length) (hj : j < K) :
    tabRR (gaussB K x μ v) t j = EM.gaussR (x.getD t 0) (μ j) (v j) := by
  have e : (gaussB K x μ v).getD t [] = tab K (fun j => EM.gaussR (x.getD t 0) (μ j) (v j)) := by
    simp [gaussB, List.getD_eq_getElem?_getD, List.getElem?_eq_getElem ht]
  unfold tabRR; rw [e, Gen.atR_tab _ _ _ hj]

theorem sumT_pos {α} : ∀ (l : List α) (f : α → ℝ), l ≠ [] → (∀ x ∈ l, 0 < f x) → 0 < Gen.sumT l f
  | [], _, h, _ => absurd rfl h
  | [x], f, _, hf => by simpa [Gen.sumT] using hf x (by simp)
  | x :: y :: l, f, _, hf => by
    have := sumT_pos (y :: l) f (by simp) (fun z hz => hf z (by simp [hz]))
    have hx := hf x (by simp)
    simp only [Gen.sumT, List.map_cons, List.sum_cons] at this ⊢
    linarith

/-- the parameters of a Gaussian-emission hidden Markov model -/
structure Params where
  π : ℕ → ℝ
  A : ℕ → ℕ → ℝ
  μ : ℕ → ℝ
  v : ℕ → ℝ

/-- one Baum–Welch iteration as the code performs it: `forward_backward` +
    `calculate_temporary_variables` on the Gaussian emission table, then `ClassicHmm.update` -/
noncomputable def bwStep (K : ℕ) (x : List ℝ) (p : Params) : Params :=
  match Gen.forwardBackward K p.π p.A (gaussB K x p.μ p.v) with
  | none => p
  | some r => ⟨Gen.atR (Gen.updPi r.gammas), Gen.fnOfRows (Gen.updA K r.gammas r.xis),
      Gen.atR (Gen.updMean K r.gammas x), Gen.atR (Gen.updVar K r.gammas x)⟩

/-- the likelihood the code reports for a model (`exp` of `Σ_t log c_t`): `∏_t c_t` -/
noncomputable def bwLik (K : ℕ) (x : List ℝ) (p : Params) : ℝ :=
  match Gen.forwardBackward K p.π p.A (gaussB K x p.μ p.v) with
  | none => 0
  | some r => r.likelihood

/-- strictly positive probability weights with totals at most one, positive variances -/
structure Inv (K : ℕ) (p : Params) : Prop where
  pi_pos : ∀ i, i < K → 0 < p.π i
  A_pos : ∀ i j, i < K → j < K → 0 < p.A i j
  pi_sum : ∑ i ∈ range K, p.π i ≤ 1
  A_sum : ∀ i, i < K → ∑ j ∈ range K, p.A i j ≤ 1
  v_pos : ∀ j, j < K → 0 < p.v j

theorem fb_some (K : ℕ) (π : ℕ → ℝ) (A : ℕ → ℕ → ℝ) (B : List (List ℝ)) (hB : B ≠ []) :
    ∃ r, Gen.forwardBackward K π A B = some r := by
  cases B with
  | nil => exact absurd rfl hB
  | cons b0 bs => exact ⟨_, rfl⟩

open EM in
/-- **One Baum–Welch iteration of the algorithm, over ℝ.** -/
theorem bw_step {K : ℕ} (hK : 0 < K) (x : List ℝ) (hT : 2 ≤ x.length) {t1 t2 : ℕ} (h1 : t1 < x.length)
    (h2 : t2 < x.length) (hx : x.getD t1 0 ≠ x.getD t2 0) (p : Params) (hp : Inv K p) :
    Inv K (bwStep K x p) ∧ bwLik K x p ≤ bwLik K x (bwStep K x p) ∧ 0 < bwLik K x p ∧
    ∑ i ∈ range K, (bwStep K x p).π i = 1 ∧ ∀ i, i < K → ∑ j ∈ range K, (bwStep K x p).A i j = 1 := by
  have hBne : gaussB K x p.μ p.v ≠ [] := by
    intro h; have := gaussB_length K x p.μ p.v; rw [h] at this; simp at this; omega
  obtain ⟨r, hr⟩ := fb_some K p.π p.A _ hBne
  obtain ⟨eL0, eL, egl, exl, eG, eX, eγ, eξ, eγ1, exi⟩ :=
    estep hK p.π p.A _ hp.pi_pos hp.A_pos (gaussB_pos K x p.μ p.v) r hr
  rw [gaussB_length] at egl exl eG eX eL
  have hLne : r.likelihood ≠ 0 := ne_of_gt eL0
  have hdl : x.length = (gaussB K x p.μ p.v).length := (gaussB_length _ _ _ _).symm
  -- the new parameters
  have hstep : bwStep K x p = ⟨Gen.atR (Gen.updPi r.gammas), Gen.fnOfRows (Gen.updA K r.gammas r.xis),
      Gen.atR (Gen.updMean K r.gammas x), Gen.atR (Gen.updVar K r.gammas x)⟩ := by
    simp only [bwStep, hr]
  have hlik : bwLik K x p = r.likelihood := by simp only [bwLik, hr]
  -- γ, ξ facts
  have hγne : r.gammas ≠ [] := by intro h; rw [h] at egl; simp at egl; omega
  have hξne : r.xis ≠ [] := by intro h; rw [h] at exl; simp at exl; omega
  have hdne : r.gammas.dropLast ≠ [] := by
    intro h; have := congrArg List.length h; simp [egl] at this; omega
  have hπ' : ∀ i, i < K → 0 < Gen.atR (Gen.updPi r.gammas) i := by
    intro i hi
    have : Gen.updPi r.gammas ∈ r.gammas := by
      cases hg : r.gammas with
      | nil => exact absurd hg hγne
      | cons g gs => simp [Gen.updPi]
    exact eγ _ this i hi
  have hπ1 : ∑ i ∈ range K, Gen.atR (Gen.updPi r.gammas) i = 1 := by
    have : Gen.updPi r.gammas ∈ r.gammas := by
      cases hg : r.gammas with
      | nil => exact absurd hg hγne
      | cons g gs => simp [Gen.updPi]
    rw [← Gen.sumK_eq]; exact eγ1 _ this
  have hocc : ∀ i, i < K → 0 < Gen.sumT r.gammas.dropLast (fun g => Gen.atR g i) := fun i hi =>
    sumT_pos _ _ hdne (fun g hg => eγ g (List.mem_of_mem_dropLast hg) i hi)
  have hA' : ∀ i j, i < K → j < K → 0 < Gen.fnOfRows (Gen.updA K r.gammas r.xis) i j := by
    intro i j hi hj
    unfold Gen.fnOfRows Gen.updA
    rw [getD_tab _ _ _ _ hi, Gen.atR_tab _ _ _ hj]
    exact div_pos (sumT_pos _ _ hξne (fun y hy => eξ y hy i j hi hj)) (hocc i hi)
  have hA1 : ∀ i, i < K → ∑ j ∈ range K, Gen.fnOfRows (Gen.updA K r.gammas r.xis) i j = 1 := by
    intro i hi
    have := Gen.updA_row_sum K r.gammas r.xis exi i hi (ne_of_gt (hocc i hi))
    rw [Gen.sumK_eq] at this
    exact this
  -- links with the path sums
  let xf : ℕ → ℝ := fun t => x.getD t 0
  have lG : ∀ t i, t < (gaussB K x p.μ p.v).length → i < K →
      G K (gaussB K x p.μ p.v).length p.π p.A (tabRR (gaussB K x p.μ p.v)) t i
        = Gen.atR (r.gammas.getD t []) i * r.likelihood := by
    intro t i ht hi; rw [gaussB_length] at ht ⊢; exact eG t i ht hi
  have lX : ∀ t i j, t + 1 < (gaussB K x p.μ p.v).length → i < K → j < K →
      X K (gaussB K x p.μ p.v).length p.π p.A (tabRR (gaussB K x p.μ p.v)) t i j
        = Gen.atR ((r.xis.getD t []).getD i []) j * r.likelihood := by
    intro t i j ht hi hj; rw [gaussB_length] at ht ⊢; exact eX t i j ht hi hj
  have egl' : r.gammas.length = (gaussB K x p.μ p.v).length := by rw [gaussB_length]; exact egl
  have exl' : r.xis.length = (gaussB K x p.μ p.v).length - 1 := by rw [gaussB_length]; exact exl
  have hmean : ∀ j, j < K → Gen.atR (Gen.updMean K r.gammas x) j
      = newMuB K x.length p.π p.A (tabRR (gaussB K x p.μ p.v)) xf j := by
    intro j hj
    have := mean_link (B := gaussB K x p.μ p.v) r.gammas x r.likelihood hLne egl' hdl hj
      (fun t ht => lG t j ht hj)
    rw [gaussB_length] at this; exact this
  have hvar : ∀ j, j < K → Gen.atR (Gen.updVar K r.gammas x) j
      = newVarB K x.length p.π p.A (tabRR (gaussB K x p.μ p.v)) xf j := by
    intro j hj
    have := var_link (B := gaussB K x p.μ p.v) r.gammas x r.likelihood hLne egl' hdl hj
      (fun t ht => lG t j ht hj)
    rw [gaussB_length] at this; exact this
  have hGpos : ∀ t j, t < x.length → j < K → 0 < G K x.length p.π p.A (tabRR (gaussB K x p.μ p.v)) t j := by
    intro t j ht hj
    rw [eG t j ht hj]
    refine mul_pos (eγ _ ?_ j hj) eL0
    rw [List.getD_eq_getElem?_getD, List.getElem?_eq_getElem (by rw [egl]; exact ht)]
    simp
  have w : Weights K x.length p.π p.A (tabRR (gaussB K x p.μ p.v)) :=
    ⟨fun i hi => (hp.pi_pos i hi).le, fun i j hi hj => (hp.A_pos i j hi hj).le,
     fun t j ht hj => by rw [tabRR_gaussB K x p.μ p.v ht hj]; exact gaussR_pos _ _ _⟩
  have hT0 : 0 < x.length := by omega
  have hvpos : ∀ j, j < K → 0 < newVarB K x.length p.π p.A (tabRR (gaussB K x p.μ p.v)) xf j := by
    intro j hj
    exact wvar_pos (range x.length) (fun t => G K x.length p.π p.A (tabRR (gaussB K x p.μ p.v)) t j) xf _
      (fun t _ => G_nonneg hT0 w t j) (mem_range.mpr h1) (mem_range.mpr h2) hx
      (hGpos t1 j h1 hj) (hGpos t2 j h2 hj)
  have hInv : Inv K (bwStep K x p) := by
    rw [hstep]
    exact ⟨hπ', hA', le_of_eq hπ1, fun i hi => le_of_eq (hA1 i hi), fun j hj => by
      show 0 < Gen.atR (Gen.updVar K r.gammas x) j
      rw [hvar j hj]; exact hvpos j hj⟩
  refine ⟨hInv, ?_, by rw [hlik]; exact eL0, by rw [hstep]; exact hπ1, by rw [hstep]; exact hA1⟩
  -- the likelihood of the new model, through its own E-step
  have hBne' : gaussB K x (bwStep K x p).μ (bwStep K x p).v ≠ [] := by
    intro h; have := gaussB_length K x (bwStep K x p).μ (bwStep K x p).v; rw [h] at this; simp at this; omega
  obtain ⟨r', hr'⟩ := fb_some K (bwStep K x p).π (bwStep K x p).A _ hBne'
  obtain ⟨_, eL', _⟩ := estep hK (bwStep K x p).π (bwStep K x p).A _ hInv.pi_pos hInv.A_pos
    (gaussB_pos K x _ _) r' hr'
  rw [gaussB_length] at eL'
  have hlik' : bwLik K x (bwStep K x p) = r'.likelihood := by simp only [bwLik, hr']
  rw [hlik, hlik', eL, eL']
  have key := em_gauss_tables (x := xf) (μ := p.μ) (v := p.v)
    (tabRR (gaussB K x p.μ p.v)) (tabRR (gaussB K x (bwStep K x p).μ (bwStep K x p).v)) hT0
    w.pi_nonneg w.A_nonneg hp.pi_sum hp.A_sum hp.v_pos
    (fun t j ht hj => tabRR_gaussB K x p.μ p.v ht hj)
    (fun t j ht hj => by
      rw [tabRR_gaussB K x _ _ ht hj, hstep]
      show gaussR (x.getD t 0) (Gen.atR (Gen.updMean K r.gammas x) j) (Gen.atR (Gen.updVar K r.gammas x) j) = _
      rw [hmean j hj, hvar j hj])
    (fun j hj _ => hvpos j hj)
  refine le_trans key (le_of_eq ?_)
  apply LR_congr hT0
  · intro i hi
    have := pi_link (B := gaussB K x p.μ p.v) r.gammas r.likelihood hLne
      (by rw [gaussB_length]; exact eL.symm) (lG 0 i (by rw [gaussB_length]; exact hT0) hi)
    rw [gaussB_length] at this
    rw [this, hstep]
  · intro i j hi hj
    have := A_link (B := gaussB K x p.μ p.v) r.gammas r.xis r.likelihood hLne exl' egl' hi hj
      (fun t ht => lG t i ht hi) (fun t ht => lX t i j ht hi hj)
    rw [gaussB_length] at this
    rw [this, hstep]

section zero
open EM

/-- the E-step of the algorithm over ℝ for probability weights with zero entries allowed -/
theorem estep0 {K : ℕ} (π : ℕ → ℝ) (A : ℕ → ℕ → ℝ) (B : List (List ℝ))
    (hπ : ∀ i, i < K → 0 ≤ π i) (hπs : 0 < Gen.sumK K π)
    (hA : ∀ i j, i < K → j < K → 0 ≤ A i j) (hrow : ∀ i, i < K → 0 < Gen.sumK K (A i))
    (hBpos : ∀ b ∈ B, ∀ j, j < K → 0 < Gen.atR b j) (r : Gen.FB ℝ)
    (h : Gen.forwardBackward K π A B = some r) :
    0 < r.likelihood ∧ r.likelihood = LR K B.length π A (tabRR B) ∧
    r.gammas.length = B.length ∧ r.xis.length = B.length - 1 ∧
    (∀ t i, t < B.length → i < K →
      G K B.length π A (tabRR B) t i = Gen.atR (r.gammas.getD t []) i * r.likelihood) ∧
    (∀ t i j, t + 1 < B.length → i < K → j < K →
      X K B.length π A (tabRR B) t i j = Gen.atR ((r.xis.getD t []).getD i []) j * r.likelihood) ∧
    (∀ g ∈ r.gammas, ∀ i, i < K → 0 ≤ Gen.atR g i) ∧
    (∀ x ∈ r.xis, ∀ i j, i < K → j < K → 0 ≤ Gen.atR (x.getD i []) j) ∧
    (∀ g ∈ r.gammas, Gen.sumK K (Gen.atR g) = 1) ∧
    r.xis.map (Gen.rowSums K) = r.gammas.dropLast := by
  cases B with
  | nil => simp [Gen.forwardBackward] at h
  | cons b0 bs =>
    have hB : (b0 :: bs) ≠ [] := by simp
    simp only [Gen.forwardBackward, Option.some.injEq] at h
    subst h
    obtain ⟨g0, s0, _⟩ := Gen.initStep_good K π b0 hπ hπs (hBpos b0 (by simp))
    have hrest := Gen.fwdFrom_good K A hA hrow bs _ g0.2.1 s0 (fun b hb => hBpos b (by simp [hb]))
    obtain ⟨_, k2, k3, _⟩ := Gen.smooth_pos K A hA hrow _ _ g0 hrest
    have hc0 : (Gen.initStep K π b0).c ≠ 0 := ne_of_gt g0.1
    have hcr : ∀ s' ∈ Gen.fwdFrom K A (Gen.initStep K π b0).alpha bs, s'.c ≠ 0 :=
      fun s' hs' => ne_of_gt (hrest s' hs').1
    have hL := Gen.likelihood_paths K π A b0 bs hc0 hcr
    have hgl : (Gen.smooth K A (Gen.initStep K π b0)
        (Gen.fwdFrom K A (Gen.initStep K π b0).alpha bs)).2.1.length = (b0 :: bs).length :=
      Gen.smooth_gammas_length K A bs (Gen.initStep K π b0)
    have hxi := Gen.smooth_xi K A (Gen.fwdFrom K A (Gen.initStep K π b0).alpha bs) (Gen.initStep K π b0)
    refine ⟨?_, ?_, hgl, ?_, ?_, ?_, k2, k3, (Gen.smooth_gamma K A bs _ s0 hcr).2, hxi⟩
    · simp only [Gen.FB.likelihood]
      apply prodL_pos
      intro x hx
      obtain ⟨s, hs, rfl⟩ := List.mem_map.mp hx
      simp only [List.mem_cons] at hs
      rcases hs with rfl | hs
      · exact g0.1
      · exact (hrest s hs).1
    · simp only [Gen.FB.likelihood]; rw [hL, likelihoodSpec_eq hB]
    · have := congrArg List.length hxi
      simp only [List.length_map, List.length_dropLast, hgl] at this
      exact this
    · intro t i ht hi
      simp only [Gen.FB.likelihood]
      rw [Gen.gamma_exact_aux K π A b0 bs hc0 hcr t ht i hi, pinnedSpec_eq hB ht]
    · intro t i j ht hi hj
      simp only [Gen.FB.likelihood]
      rw [Gen.xi_exact_aux K π A b0 bs hc0 hcr t ht i j hi hj, pinned2Spec_eq hB ht]

/-- probability weights with zero entries allowed: `π, A ≥ 0`, positive totals at most one, `v > 0` -/
structure Inv0 (K : ℕ) (p : Params) : Prop where
  pi_nonneg : ∀ i, i < K → 0 ≤ p.π i
  A_nonneg : ∀ i j, i < K → j < K → 0 ≤ p.A i j
  pi_tot : 0 < ∑ i ∈ range K, p.π i
  A_tot : ∀ i, i < K → 0 < ∑ j ∈ range K, p.A i j
  pi_sum : ∑ i ∈ range K, p.π i ≤ 1
  A_sum : ∀ i, i < K → ∑ j ∈ range K, p.A i j ≤ 1
  v_pos : ∀ j, j < K → 0 < p.v j

/-- **One Baum–Welch iteration of the algorithm, zero probabilities allowed**: if the step does not
    run into the two documented degenerate outcomes — a row of `A'` that is `0/0` (a state never
    occupied before the last sample) or a re-estimated variance that is not positive — the
    reported likelihood does not decrease and `π'` sums to one. -/
theorem bw_step0 {K : ℕ} (x : List ℝ) (hT : 1 ≤ x.length) (p : Params) (hp : Inv0 K p)
    (hrow' : ∀ i, i < K → 0 < ∑ j ∈ range K, (bwStep K x p).A i j)
    (hvar' : ∀ j, j < K → 0 < (bwStep K x p).v j) :
    bwLik K x p ≤ bwLik K x (bwStep K x p) ∧ 0 < bwLik K x p ∧
    ∑ i ∈ range K, (bwStep K x p).π i = 1 := by
  have hBne : gaussB K x p.μ p.v ≠ [] := by
    intro h; have := gaussB_length K x p.μ p.v; rw [h] at this; simp at this; omega
  obtain ⟨r, hr⟩ := fb_some K p.π p.A _ hBne
  obtain ⟨eL0, eL, egl, exl, eG, eX, eγ, eξ, eγ1, exi⟩ :=
    estep0 p.π p.A _ hp.pi_nonneg (by rw [Gen.sumK_eq]; exact hp.pi_tot) hp.A_nonneg
      (fun i hi => by rw [Gen.sumK_eq]; exact hp.A_tot i hi) (gaussB_pos K x p.μ p.v) r hr
  rw [gaussB_length] at egl exl eG eX eL
  have hLne : r.likelihood ≠ 0 := ne_of_gt eL0
  have hdl : x.length = (gaussB K x p.μ p.v).length := (gaussB_length _ _ _ _).symm
  have hstep : bwStep K x p = ⟨Gen.atR (Gen.updPi r.gammas), Gen.fnOfRows (Gen.updA K r.gammas r.xis),
      Gen.atR (Gen.updMean K r.gammas x), Gen.atR (Gen.updVar K r.gammas x)⟩ := by
    simp only [bwStep, hr]
  have hlik : bwLik K x p = r.likelihood := by simp only [bwLik, hr]
  have hγne : r.gammas ≠ [] := by intro h; rw [h] at egl; simp at egl; omega
  have hmem : Gen.updPi r.gammas ∈ r.gammas := by
    cases hg : r.gammas with
    | nil => exact absurd hg hγne
    | cons g gs => simp [Gen.updPi]
  have hπ' : ∀ i, i < K → 0 ≤ Gen.atR (Gen.updPi r.gammas) i := fun i hi => eγ _ hmem i hi
  have hπ1 : ∑ i ∈ range K, Gen.atR (Gen.updPi r.gammas) i = 1 := by
    rw [← Gen.sumK_eq]; exact eγ1 _ hmem
  have hA' : ∀ i j, i < K → j < K → 0 ≤ Gen.fnOfRows (Gen.updA K r.gammas r.xis) i j := by
    intro i j hi hj
    unfold Gen.fnOfRows Gen.updA
    rw [getD_tab _ _ _ _ hi, Gen.atR_tab _ _ _ hj]
    exact div_nonneg (Gen.sumT_nonneg _ _ (fun y hy => eξ y hy i j hi hj))
      (Gen.sumT_nonneg _ _ (fun g hg => eγ g (List.mem_of_mem_dropLast hg) i hi))
  let xf : ℕ → ℝ := fun t => x.getD t 0
  have lG : ∀ t i, t < (gaussB K x p.μ p.v).length → i < K →
      G K (gaussB K x p.μ p.v).length p.π p.A (tabRR (gaussB K x p.μ p.v)) t i
        = Gen.atR (r.gammas.getD t []) i * r.likelihood := by
    intro t i ht hi; rw [gaussB_length] at ht ⊢; exact eG t i ht hi
  have lX : ∀ t i j, t + 1 < (gaussB K x p.μ p.v).length → i < K → j < K →
      X K (gaussB K x p.μ p.v).length p.π p.A (tabRR (gaussB K x p.μ p.v)) t i j
        = Gen.atR ((r.xis.getD t []).getD i []) j * r.likelihood := by
    intro t i j ht hi hj; rw [gaussB_length] at ht ⊢; exact eX t i j ht hi hj
  have egl' : r.gammas.length = (gaussB K x p.μ p.v).length := by rw [gaussB_length]; exact egl
  have exl' : r.xis.length = (gaussB K x p.μ p.v).length - 1 := by rw [gaussB_length]; exact exl
  have hmean : ∀ j, j < K → Gen.atR (Gen.updMean K r.gammas x) j
      = newMuB K x.length p.π p.A (tabRR (gaussB K x p.μ p.v)) xf j := by
    intro j hj
    have := mean_link (B := gaussB K x p.μ p.v) r.gammas x r.likelihood hLne egl' hdl hj
      (fun t ht => lG t j ht hj)
    rw [gaussB_length] at this; exact this
  have hvar : ∀ j, j < K → Gen.atR (Gen.updVar K r.gammas x) j
      = newVarB K x.length p.π p.A (tabRR (gaussB K x p.μ p.v)) xf j := by
    intro j hj
    have := var_link (B := gaussB K x p.μ p.v) r.gammas x r.likelihood hLne egl' hdl hj
      (fun t ht => lG t j ht hj)
    rw [gaussB_length] at this; exact this
  have hT0 : 0 < x.length := by omega
  refine ⟨?_, by rw [hlik]; exact eL0, by rw [hstep]; exact hπ1⟩
  -- the new model through its own E-step
  have hBne' : gaussB K x (bwStep K x p).μ (bwStep K x p).v ≠ [] := by
    intro h; have := gaussB_length K x (bwStep K x p).μ (bwStep K x p).v; rw [h] at this; simp at this; omega
  obtain ⟨r', hr'⟩ := fb_some K (bwStep K x p).π (bwStep K x p).A _ hBne'
  have hnewπ : ∀ i, i < K → 0 ≤ (bwStep K x p).π i := by rw [hstep]; exact hπ'
  have hnewA : ∀ i j, i < K → j < K → 0 ≤ (bwStep K x p).A i j := by rw [hstep]; exact hA'
  have hnewπs : 0 < Gen.sumK K (bwStep K x p).π := by
    rw [Gen.sumK_eq, hstep]; show 0 < ∑ i ∈ range K, Gen.atR (Gen.updPi r.gammas) i
    rw [hπ1]; exact zero_lt_one
  obtain ⟨_, eL', _⟩ := estep0 (bwStep K x p).π (bwStep K x p).A _ hnewπ hnewπs hnewA
    (fun i hi => by rw [Gen.sumK_eq]; exact hrow' i hi) (gaussB_pos K x _ _) r' hr'
  rw [gaussB_length] at eL'
  have hlik' : bwLik K x (bwStep K x p) = r'.likelihood := by simp only [bwLik, hr']
  rw [hlik, hlik', eL, eL']
  have key := em_gauss_tables (x := xf) (μ := p.μ) (v := p.v)
    (tabRR (gaussB K x p.μ p.v)) (tabRR (gaussB K x (bwStep K x p).μ (bwStep K x p).v)) hT0
    hp.pi_nonneg hp.A_nonneg hp.pi_sum hp.A_sum hp.v_pos
    (fun t j ht hj => tabRR_gaussB K x p.μ p.v ht hj)
    (fun t j ht hj => by
      rw [tabRR_gaussB K x _ _ ht hj, hstep]
      show gaussR (x.getD t 0) (Gen.atR (Gen.updMean K r.gammas x) j) (Gen.atR (Gen.updVar K r.gammas x) j) = _
      rw [hmean j hj, hvar j hj])
    (fun j hj _ => by
      have := hvar' j hj
      rw [hstep] at this
      rw [← hvar j hj]; exact this)
  refine le_trans key (le_of_eq ?_)
  apply LR_congr hT0
  · intro i hi
    have := pi_link (B := gaussB K x p.μ p.v) r.gammas r.likelihood hLne
      (by rw [gaussB_length]; exact eL.symm) (lG 0 i (by rw [gaussB_length]; exact hT0) hi)
    rw [gaussB_length] at this
    rw [this, hstep]
  · intro i j hi hj
    have := A_link (B := gaussB K x p.μ p.v) r.gammas r.xis r.likelihood hLne exl' egl' hi hj
      (fun t ht => lG t i ht hi) (fun t ht => lX t i j ht hi hj)
    rw [gaussB_length] at this
    rw [this, hstep]

end zero

/-- **Every Baum–Welch iteration**: the hypotheses of `bw_step` are re-established by the step
    itself, so the likelihoods the algorithm reports along the iterations never decrease. -/
theorem bw_monotone {K : ℕ} (hK : 0 < K) (x : List ℝ) (hT : 2 ≤ x.length) {t1 t2 : ℕ} (h1 : t1 < x.length)
    (h2 : t2 < x.length) (hx : x.getD t1 0 ≠ x.getD t2 0) (p : Params) (hp : Inv K p) (n : ℕ) :
    Inv K ((bwStep K x)^[n] p) ∧
    bwLik K x ((bwStep K x)^[n] p) ≤ bwLik K x ((bwStep K x)^[n + 1] p) := by
  induction n with
  | zero => exact ⟨hp, (bw_step hK x hT h1 h2 hx p hp).2.1⟩
  | succ n ih =>
    simp only [Function.iterate_succ_apply'] at ih ⊢
    have hs := bw_step hK x hT h1 h2 hx _ ih.1
    exact ⟨hs.1, (bw_step hK x hT h1 h2 hx _ hs.1).2.1⟩

theorem bw_monotone_le {K : ℕ} (hK : 0 < K) (x : List ℝ) (hT : 2 ≤ x.length) {t1 t2 : ℕ} (h1 : t1 < x.length)
    (h2 : t2 < x.length) (hx : x.getD t1 0 ≠ x.getD t2 0) (p : Params) (hp : Inv K p) :
    Monotone (fun n => bwLik K x ((bwStep K x)^[n] p)) :=
  monotone_nat_of_le_succ (fun n => (bw_monotone hK x hT h1 h2 hx p hp n).2)

end GenR
namespace GenQ
open Verif.Py

/-- a forward step of the executable model as a step of the generic model at `ℚ` -/
def toStep (s : Step) : Gen.Step ℚ := ⟨s.alpha, s.c, s.b⟩

theorem normStep_eq (K : ℕ) (a b : Vec) : Gen.normStep K a b = toStep (normStep K a b) := rfl
theorem initStep_eq (K : ℕ) (pi : ℕ → ℚ) (b0 : Vec) : Gen.initStep K pi b0 = toStep (initStep K pi b0) := rfl
theorem fwdStep_eq (K : ℕ) (A : ℕ → ℕ → ℚ) (prev b : Vec) :
    Gen.fwdStep K A prev b = toStep (fwdStep K A prev b) := rfl

theorem fwdFrom_eq (K : ℕ) (A : ℕ → ℕ → ℚ) : ∀ (bs : List Vec) (prev : Vec),
    Gen.fwdFrom K A prev bs = (fwdFrom K A prev bs).map toStep
  | [], _ => rfl
  | b :: bs, prev => by
    simp only [Gen.fwdFrom, fwdFrom, List.map_cons, fwdStep_eq]
    rw [show (toStep (fwdStep K A prev b)).alpha = (fwdStep K A prev b).alpha from rfl, fwdFrom_eq K A bs]

theorem smooth_eq (K : ℕ) (A : ℕ → ℕ → ℚ) : ∀ (rest : List Step) (s : Step),
    Gen.smooth K A (toStep s) (rest.map toStep) = smooth K A s rest
  | [], s => rfl
  | s' :: rest, s => by
    simp only [List.map_cons, Gen.smooth, smooth]
    rw [smooth_eq K A rest s']
    rfl

/-- **The generic algorithm at `F = ℚ` is the executable model** (the one the driver runs and the
    harness compares with the code): same scaling factors, same `γ`, same `ξ`. -/
theorem forwardBackward_eq (K : ℕ) (pi : ℕ → ℚ) (A : ℕ → ℕ → ℚ) (B : List Vec) :
    Gen.forwardBackward K pi A B
      = (forwardBackward K pi A B).map (fun r => ⟨r.steps.map toStep, r.gammas, r.xis⟩) := by
  cases B with
  | nil => rfl
  | cons b0 bs =>
    simp only [Gen.forwardBackward, forwardBackward, Option.map_some, List.map_cons, initStep_eq]
    rw [show (toStep (initStep K pi b0)).alpha = (initStep K pi b0).alpha from rfl, fwdFrom_eq,
      smooth_eq]

theorem update_eq (K : ℕ) (gammas : List Vec) (xis : List (List Vec)) (data : List ℚ) :
    Gen.updPi gammas = updPi gammas ∧ Gen.updA K gammas xis = updA K gammas xis ∧
    Gen.updMean K gammas data = updMean K gammas data ∧ Gen.updVar K gammas data = updVar K gammas data :=
  ⟨rfl, rfl, rfl, rfl⟩

theorem prodL_eq : ∀ l : List ℚ, Gen.prodL l = prodL l
  | [] => rfl
  | x :: xs => by simp only [Gen.prodL, prodL, prodL_eq xs]

theorem likelihood_eq (r : FB) :
    Gen.FB.likelihood (⟨r.steps.map toStep, r.gammas, r.xis⟩ : Gen.FB ℚ) = r.likelihood := by
  simp only [Gen.FB.likelihood, FB.likelihood, List.map_map, prodL_eq]
  rfl

end GenQ
end Verif.C16
