/-
  Helper lemmas for C06 (core Lean only).
-/
import Verif.Model.C06

namespace Verif.C06
open Verif.Py

/-- all rows have the same length `n` -/
def Rect {α} (img : List (List α)) (n : Nat) : Prop := ∀ r ∈ img, r.length = n

theorem takeWhile_length_le {α} (p : α → Bool) (l : List α) : (l.takeWhile p).length ≤ l.length := by
  induction l with
  | nil => simp
  | cons x xs ih => simp only [List.takeWhile_cons]; split <;> simp <;> omega

/-- In a sorted list, position `c` lies before `searchsorted(l, v, "left")` iff `l[c] < v`. -/
theorem lt_searchsortedLeft_iff (l : List Int) (hs : l.Pairwise (· ≤ ·)) (v : Int) (c : Nat) (hc : c < l.length) :
    c < searchsortedLeft l v ↔ l[c] < v := by
  unfold searchsortedLeft
  induction l generalizing c with
  | nil => simp at hc
  | cons x xs ih =>
    rw [List.pairwise_cons] at hs
    simp only [List.takeWhile_cons]
    by_cases hx : x < v
    · simp only [hx, decide_true, ↓reduceIte, List.length_cons]
      cases c with
      | zero => simp [hx]
      | succ c =>
        have := ih hs.2 c (by simpa using hc)
        simp only [List.getElem_cons_succ]
        omega
    · simp only [hx, decide_false, Bool.false_eq_true, ↓reduceIte, List.length_nil, Nat.not_lt_zero, false_iff]
      cases c with
      | zero => simpa using hx
      | succ c =>
        have hc' : c < xs.length := by simpa using hc
        simp only [List.getElem_cons_succ]
        have := hs.1 xs[c] (List.getElem_mem hc')
        omega

theorem searchsortedLeft_le_length (l : List Int) (v : Int) : searchsortedLeft l v ≤ l.length :=
  takeWhile_length_le _ _

/-! ### chunks -/

theorem chunks_zero {α} (l : List α) : chunks 0 l = [] := by
  unfold chunks; simp

theorem chunks_length {α} (k : Nat) (hk : 0 < k) (l : List α) : (chunks k l).length = l.length / k := by
  fun_induction chunks k l with
  | case1 => omega
  | case2 l hk' hlt => simp [Nat.div_eq_of_lt hlt]
  | case3 l hk' hlt ih =>
    simp only [List.length_cons, ih, List.length_drop]
    have : l.length = (l.length - k) + k := by omega
    conv => rhs; rw [this]
    rw [Nat.add_div_right _ hk]

theorem chunks_getElem {α} (k : Nat) (hk : 0 < k) (l : List α) (i : Nat) (hi : i < (chunks k l).length) :
    (chunks k l)[i] = (l.drop (i * k)).take k := by
  induction i generalizing l with
  | zero =>
    unfold chunks at hi ⊢
    simp only [dif_neg (by omega : ¬ k = 0)] at hi ⊢
    by_cases hlt : l.length < k
    · simp [hlt] at hi
    · simp [hlt]
  | succ i ih =>
    have hlt : ¬ l.length < k := by
      intro hlt
      unfold chunks at hi
      simp [dif_neg (by omega : ¬ k = 0), hlt] at hi
    have e : chunks k l = l.take k :: chunks k (l.drop k) := by
      conv => lhs; unfold chunks
      simp [dif_neg (by omega : ¬ k = 0), hlt]
    have hi' : i < (chunks k (l.drop k)).length := by
      rw [e] at hi; simpa using hi
    simp only [e, List.getElem_cons_succ]
    rw [ih (l.drop k) hi', List.drop_drop]
    congr 2
    rw [Nat.add_mul]; omega

theorem chunks_one {α} (l : List α) : chunks 1 l = l.map fun x => [x] := by
  induction l with
  | nil => unfold chunks; simp
  | cons x xs ih =>
    unfold chunks
    simp [ih]

end Verif.C06

namespace Verif.C06
open Verif.Py

/-- `searchsortedLeft` is characterised by its defining property on a sorted list. -/
theorem searchsortedLeft_unique (l : List Int) (hs : l.Pairwise (· ≤ ·)) (v : Int) (m : Nat) (hm : m ≤ l.length)
    (h : ∀ k (hk : k < l.length), k < m ↔ l[k] < v) : searchsortedLeft l v = m := by
  have hle := searchsortedLeft_le_length l v
  by_cases hlt : searchsortedLeft l v < m
  · have h1 := (h (searchsortedLeft l v) (by omega)).mp hlt
    have h2 := (lt_searchsortedLeft_iff l hs v (searchsortedLeft l v) (by omega)).mpr h1
    omega
  · by_cases hgt : m < searchsortedLeft l v
    · have h1 := (lt_searchsortedLeft_iff l hs v m (by omega)).mp hgt
      have h2 := (h m (by omega)).mpr h1
      omega
    · omega

theorem pairwise_take_drop (l : List Int) (hs : l.Pairwise (· ≤ ·)) (i j : Nat) :
    ((l.take j).drop i).Pairwise (· ≤ ·) :=
  (hs.sublist (List.take_sublist j l)).sublist (List.drop_sublist i _)

/-- `searchsorted` on a window `[i, j)` of a sorted list is the clamped global position, re-based. -/
theorem searchsortedLeft_take_drop (l : List Int) (hs : l.Pairwise (· ≤ ·)) (i j : Nat) (hij : i ≤ j)
    (hj : j ≤ l.length) (v : Int) :
    searchsortedLeft ((l.take j).drop i) v = max i (min (searchsortedLeft l v) j) - i := by
  apply searchsortedLeft_unique _ (pairwise_take_drop l hs i j)
  · simp only [List.length_drop, List.length_take]; omega
  · intro k hk
    simp only [List.length_drop, List.length_take] at hk
    have hk' : i + k < l.length := by omega
    have e : ((l.take j).drop i)[k] = l[i + k] := by
      simp [List.getElem_drop, List.getElem_take]
    rw [e]
    have := lt_searchsortedLeft_iff l hs v (i + k) hk'
    omega

end Verif.C06
