/-
  C16 — deepening round D: the Baum–Welch ascent (EM monotonicity), over ℝ.

  The path weights, likelihood and posteriors are defined here directly as sums over ALL state paths
  (`allPaths` of the model file), position by position — a specification, no recursion.  The
  re-estimation formulas are those of `ClassicHmm.update` applied to these exact posteriors (that the
  code's scaled forward–backward recursions compute exactly these posteriors is `gamma_exact`,
  `xi_exact`, `likelihood_exact`).
-/
import Verif.Lemmas.C16
import Mathlib.Analysis.SpecialFunctions.Log.Basic
import Mathlib.Analysis.SpecialFunctions.Trigonometric.Basic
import Mathlib.Algebra.Order.BigOperators.Group.Finset
import Mathlib.Algebra.Order.BigOperators.Ring.Finset
import Mathlib.Data.Rat.Cast.Order
import Mathlib.Tactic.Ring
import Mathlib.Tactic.FieldSimp
import Mathlib.Tactic.Linarith
import Mathlib.Tactic.Positivity

namespace Verif.C16
namespace EM
open Finset

/-! ### list sums -/

/-- sum of `f` over a list -/
def S {α} (l : List α) (f : α → ℝ) : ℝ := (l.map f).sum

theorem S_nil {α} (f : α → ℝ) : S [] f = 0 := by simp [S]
theorem S_cons {α} (x : α) (l : List α) (f : α → ℝ) : S (x :: l) f = f x + S l f := by simp [S]

theorem S_congr {α} (l : List α) (f g : α → ℝ) (h : ∀ z ∈ l, f z = g z) : S l f = S l g := by
  induction l with
  | nil => rfl
  | cons x xs ih =>
    rw [S_cons, S_cons, h x (by simp), ih (fun z hz => h z (by simp [hz]))]

theorem S_le {α} (l : List α) (f g : α → ℝ) (h : ∀ z ∈ l, f z ≤ g z) : S l f ≤ S l g := by
  induction l with
  | nil => simp [S]
  | cons x xs ih =>
    rw [S_cons, S_cons]
    exact add_le_add (h x (by simp)) (ih (fun z hz => h z (by simp [hz])))

theorem S_nonneg {α} (l : List α) (f : α → ℝ) (h : ∀ z ∈ l, 0 ≤ f z) : 0 ≤ S l f := by
  induction l with
  | nil => simp [S]
  | cons x xs ih =>
    rw [S_cons]; exact add_nonneg (h x (by simp)) (ih (fun z hz => h z (by simp [hz])))

theorem S_single_le {α} (l : List α) (f : α → ℝ) (h : ∀ z ∈ l, 0 ≤ f z) (z : α) (hz : z ∈ l) :
    f z ≤ S l f := by
  induction l with
  | nil => simp at hz
  | cons x xs ih =>
    rw [S_cons]
    have hx : 0 ≤ f x := h x (by simp)
    have hr : 0 ≤ S xs f := S_nonneg xs f (fun y hy => h y (by simp [hy]))
    simp only [List.mem_cons] at hz
    rcases hz with rfl | hz
    · linarith
    · have := ih (fun y hy => h y (by simp [hy])) hz
      linarith

theorem S_add {α} (l : List α) (f g : α → ℝ) : S l (fun z => f z + g z) = S l f + S l g := by
  induction l with
  | nil => simp [S]
  | cons x xs ih => rw [S_cons, S_cons, S_cons, ih]; ring

theorem S_sub {α} (l : List α) (f g : α → ℝ) : S l (fun z => f z - g z) = S l f - S l g := by
  induction l with
  | nil => simp [S]
  | cons x xs ih => rw [S_cons, S_cons, S_cons, ih]; ring

theorem S_mul_right {α} (l : List α) (f : α → ℝ) (c : ℝ) : S l (fun z => f z * c) = S l f * c := by
  induction l with
  | nil => simp [S]
  | cons x xs ih => rw [S_cons, S_cons, ih]; ring

theorem S_zero {α} (l : List α) : S l (fun _ => (0 : ℝ)) = 0 := by
  induction l with
  | nil => simp [S]
  | cons x xs ih => rw [S_cons, ih]; ring

theorem S_filter {α} (l : List α) (c : α → Prop) [DecidablePred c] (f : α → ℝ) :
    S (l.filter (fun z => decide (c z))) f = S l (fun z => if c z then f z else 0) := by
  induction l with
  | nil => simp [S]
  | cons x xs ih =>
    by_cases hx : c x
    · rw [List.filter_cons_of_pos (by simpa using hx), S_cons, S_cons, ih, if_pos hx]
    · rw [List.filter_cons_of_neg (by simpa using hx), S_cons, ih, if_neg hx]; ring

theorem S_finset {α} (s : Finset ℕ) (l : List α) (f : ℕ → α → ℝ) :
    ∑ i ∈ s, S l (f i) = S l (fun z => ∑ i ∈ s, f i z) := by
  induction l with
  | nil => simp [S]
  | cons x xs ih =>
    simp only [S_cons]
    rw [Finset.sum_add_distrib, ih]

/-! ### paths -/

/-- the state of path `z` at time `t` -/
def st (z : List ℕ) (t : ℕ) : ℕ := z.getD t 0

theorem mem_allPaths (K : ℕ) : ∀ (n : ℕ) (z : List ℕ), z ∈ allPaths K n →
    z.length = n ∧ ∀ s ∈ z, s < K
  | 0, z, h => by
    simp only [allPaths, List.mem_singleton] at h
    subst h; simp
  | n + 1, z, h => by
    simp only [allPaths, List.mem_flatMap, List.mem_range, List.mem_map] at h
    obtain ⟨j, hj, q, hq, rfl⟩ := h
    obtain ⟨h1, h2⟩ := mem_allPaths K n q hq
    refine ⟨by simp [h1], ?_⟩
    intro s hs
    simp only [List.mem_cons] at hs
    rcases hs with rfl | hs
    · exact hj
    · exact h2 s hs

theorem st_lt {K T : ℕ} {z : List ℕ} (hz : z ∈ allPaths K T) {t : ℕ} (ht : t < T) : st z t < K := by
  obtain ⟨h1, h2⟩ := mem_allPaths K T z hz
  have ht' : t < z.length := by omega
  have e : st z t = z[t] := by simp [st, List.getD_eq_getElem?_getD, List.getElem?_eq_getElem ht']
  rw [e]
  exact h2 _ (List.getElem_mem ht')

/-! ### marginalisation: sums over paths regrouped by the state(s) at given times -/

theorem marg1 (l : List (List ℕ)) (K : ℕ) (φ : List ℕ → ℕ) (hφ : ∀ z ∈ l, φ z < K)
    (p : List ℕ → ℝ) (h : ℕ → ℝ) :
    S l (fun z => p z * h (φ z))
      = ∑ i ∈ range K, S (l.filter (fun z => decide (φ z = i))) p * h i := by
  have e : ∀ i, S (l.filter (fun z => decide (φ z = i))) p * h i
      = S l (fun z => if φ z = i then p z * h i else 0) := by
    intro i
    rw [S_filter, ← S_mul_right]
    apply S_congr; intro z _
    by_cases hc : φ z = i <;> simp [hc]
  rw [Finset.sum_congr rfl (fun i _ => e i), S_finset]
  apply S_congr
  intro z hz
  rw [Finset.sum_ite_eq, if_pos (Finset.mem_range.mpr (hφ z hz))]

theorem marg2 (l : List (List ℕ)) (K : ℕ) (φ ψ : List ℕ → ℕ) (hφ : ∀ z ∈ l, φ z < K)
    (hψ : ∀ z ∈ l, ψ z < K) (p : List ℕ → ℝ) (g : ℕ → ℕ → ℝ) :
    S l (fun z => p z * g (φ z) (ψ z))
      = ∑ i ∈ range K, ∑ j ∈ range K,
          S (l.filter (fun z => decide (φ z = i ∧ ψ z = j))) p * g i j := by
  have e : ∀ i j, S (l.filter (fun z => decide (φ z = i ∧ ψ z = j))) p * g i j
      = S l (fun z => if φ z = i then (if ψ z = j then p z * g i j else 0) else 0) := by
    intro i j
    rw [S_filter, ← S_mul_right]
    apply S_congr; intro z _
    by_cases hc : φ z = i <;> by_cases hd : ψ z = j <;> simp [hc, hd]
  rw [Finset.sum_congr rfl (fun i _ => Finset.sum_congr rfl (fun j _ => e i j))]
  rw [Finset.sum_congr rfl (fun i _ => S_finset (range K) l _), S_finset]
  apply S_congr
  intro z hz
  have e2 : ∀ i, (∑ j ∈ range K, if φ z = i then (if ψ z = j then p z * g i j else 0) else 0)
      = if φ z = i then p z * g i (ψ z) else 0 := by
    intro i
    by_cases hc : φ z = i
    · simp only [if_pos hc]
      rw [Finset.sum_ite_eq, if_pos (Finset.mem_range.mpr (hψ z hz))]
    · simp [hc]
  rw [Finset.sum_congr rfl (fun i _ => e2 i), Finset.sum_ite_eq,
    if_pos (Finset.mem_range.mpr (hφ z hz))]

/-! ### the model over ℝ, position by position -/

section model
variable (K T : ℕ)

/-- `P(path, y) = π(s₀) · Π_t b_t(s_t) · Π_t A(s_t, s_{t+1})` -/
noncomputable def jointR (π : ℕ → ℝ) (A : ℕ → ℕ → ℝ) (b : ℕ → ℕ → ℝ) (z : List ℕ) : ℝ :=
  π (st z 0) * (∏ t ∈ range T, b t (st z t)) * ∏ t ∈ range (T - 1), A (st z t) (st z (t + 1))

/-- the likelihood: sum over all `K^T` paths -/
noncomputable def LR (π : ℕ → ℝ) (A : ℕ → ℕ → ℝ) (b : ℕ → ℕ → ℝ) : ℝ :=
  S (allPaths K T) (jointR T π A b)

/-- `L · γ_t(i)`: sum over the paths through `i` at `t` -/
noncomputable def G (π : ℕ → ℝ) (A : ℕ → ℕ → ℝ) (b : ℕ → ℕ → ℝ) (t i : ℕ) : ℝ :=
  S ((allPaths K T).filter (fun z => decide (st z t = i))) (jointR T π A b)

/-- `L · ξ_t(i,j)`: sum over the paths through `i` at `t` and `j` at `t+1` -/
noncomputable def X (π : ℕ → ℝ) (A : ℕ → ℕ → ℝ) (b : ℕ → ℕ → ℝ) (t i j : ℕ) : ℝ :=
  S ((allPaths K T).filter (fun z => decide (st z t = i ∧ st z (t + 1) = j))) (jointR T π A b)

/-- probability weights and positive emission densities, on the states `< K` and times `< T` -/
structure Weights (π : ℕ → ℝ) (A : ℕ → ℕ → ℝ) (b : ℕ → ℕ → ℝ) : Prop where
  pi_nonneg : ∀ i, i < K → 0 ≤ π i
  A_nonneg : ∀ i j, i < K → j < K → 0 ≤ A i j
  b_pos : ∀ t j, t < T → j < K → 0 < b t j

variable {K T}
variable {π : ℕ → ℝ} {A : ℕ → ℕ → ℝ} {b : ℕ → ℕ → ℝ}

theorem jointR_nonneg (hT : 0 < T) (w : Weights K T π A b) {z : List ℕ} (hz : z ∈ allPaths K T) :
    0 ≤ jointR T π A b z := by
  unfold jointR
  refine mul_nonneg (mul_nonneg (w.pi_nonneg _ (st_lt hz hT)) ?_) ?_
  · exact Finset.prod_nonneg (fun t ht => (w.b_pos t _ (mem_range.mp ht) (st_lt hz (mem_range.mp ht))).le)
  · refine Finset.prod_nonneg (fun t ht => ?_)
    have ht := mem_range.mp ht
    exact w.A_nonneg _ _ (st_lt hz (by omega)) (st_lt hz (by omega))

/-- on a path of positive weight every factor is positive -/
theorem factors_pos (hT : 0 < T) (w : Weights K T π A b) {z : List ℕ} (hz : z ∈ allPaths K T)
    (hp : 0 < jointR T π A b z) :
    0 < π (st z 0) ∧ ∀ t, t < T - 1 → 0 < A (st z t) (st z (t + 1)) := by
  constructor
  · rcases lt_or_eq_of_le (w.pi_nonneg _ (st_lt hz hT)) with h | h
    · exact h
    · exfalso; unfold jointR at hp; rw [← h] at hp; simp at hp
  · intro t ht
    rcases lt_or_eq_of_le (w.A_nonneg _ _ (st_lt hz (show t < T by omega)) (st_lt hz (show t + 1 < T by omega))) with h | h
    · exact h
    · exfalso
      unfold jointR at hp
      rw [Finset.prod_eq_zero (mem_range.mpr ht) h.symm] at hp
      simp at hp

/-- the logarithm of a path weight all of whose factors are positive -/
theorem log_jointR (w : Weights K T π A b) {z : List ℕ} (hz : z ∈ allPaths K T)
    (h0 : 0 < π (st z 0)) (hA : ∀ t, t < T - 1 → 0 < A (st z t) (st z (t + 1))) :
    0 < jointR T π A b z ∧
    Real.log (jointR T π A b z) = Real.log (π (st z 0)) + ∑ t ∈ range T, Real.log (b t (st z t))
      + ∑ t ∈ range (T - 1), Real.log (A (st z t) (st z (t + 1))) := by
  have hb : ∀ t ∈ range T, 0 < b t (st z t) := fun t ht =>
    w.b_pos t _ (mem_range.mp ht) (st_lt hz (mem_range.mp ht))
  have hA' : ∀ t ∈ range (T - 1), 0 < A (st z t) (st z (t + 1)) := fun t ht => hA t (mem_range.mp ht)
  have pb : 0 < ∏ t ∈ range T, b t (st z t) := Finset.prod_pos hb
  have pA : 0 < ∏ t ∈ range (T - 1), A (st z t) (st z (t + 1)) := Finset.prod_pos hA'
  refine ⟨mul_pos (mul_pos h0 pb) pA, ?_⟩
  unfold jointR
  rw [Real.log_mul (ne_of_gt (mul_pos h0 pb)) (ne_of_gt pA), Real.log_mul (ne_of_gt h0) (ne_of_gt pb),
    Real.log_prod (fun t ht => ne_of_gt (hb t ht)), Real.log_prod (fun t ht => ne_of_gt (hA' t ht))]

/-- the expected complete-data log ratio of a path (`log q(z)/p(z)` written factor by factor) -/
noncomputable def F (T : ℕ) (π π' : ℕ → ℝ) (A A' : ℕ → ℕ → ℝ) (b b' : ℕ → ℕ → ℝ) (z : List ℕ) : ℝ :=
  Real.log (π' (st z 0) / π (st z 0)) + ∑ t ∈ range T, Real.log (b' t (st z t) / b t (st z t))
    + ∑ t ∈ range (T - 1), Real.log (A' (st z t) (st z (t + 1)) / A (st z t) (st z (t + 1)))

variable {π' : ℕ → ℝ} {A' : ℕ → ℕ → ℝ} {b' : ℕ → ℕ → ℝ}

/-- `p · log(q/p) ≤ q − p`, path by path (for `p = 0` it reads `0 ≤ q`) -/
theorem term_ineq (hT : 0 < T) (w : Weights K T π A b) (w' : Weights K T π' A' b')
    {z : List ℕ} (hz : z ∈ allPaths K T)
    (hsupp : 0 < jointR T π A b z →
      0 < π' (st z 0) ∧ ∀ t, t < T - 1 → 0 < A' (st z t) (st z (t + 1))) :
    jointR T π A b z * F T π π' A A' b b' z ≤ jointR T π' A' b' z - jointR T π A b z := by
  rcases lt_or_eq_of_le (jointR_nonneg hT w hz) with hp | hp
  · obtain ⟨h0, hA⟩ := factors_pos hT w hz hp
    obtain ⟨h0', hA'⟩ := hsupp hp
    obtain ⟨_, lp⟩ := log_jointR w hz h0 hA
    obtain ⟨hq, lq⟩ := log_jointR w' hz h0' hA'
    have hb : ∀ t ∈ range T, 0 < b t (st z t) := fun t ht =>
      w.b_pos t _ (mem_range.mp ht) (st_lt hz (mem_range.mp ht))
    have hb' : ∀ t ∈ range T, 0 < b' t (st z t) := fun t ht =>
      w'.b_pos t _ (mem_range.mp ht) (st_lt hz (mem_range.mp ht))
    have eF : F T π π' A A' b b' z = Real.log (jointR T π' A' b' z / jointR T π A b z) := by
      rw [Real.log_div (ne_of_gt hq) (ne_of_gt hp), lp, lq]
      unfold F
      rw [Real.log_div (ne_of_gt h0') (ne_of_gt h0)]
      rw [Finset.sum_congr rfl (fun t ht => Real.log_div (ne_of_gt (hb' t ht)) (ne_of_gt (hb t ht)))]
      rw [Finset.sum_congr rfl (fun t ht => Real.log_div (ne_of_gt (hA' t (mem_range.mp ht)))
        (ne_of_gt (hA t (mem_range.mp ht))))]
      rw [Finset.sum_sub_distrib, Finset.sum_sub_distrib]
      ring
    rw [eF]
    have := Real.log_le_sub_one_of_pos (div_pos hq hp)
    calc jointR T π A b z * Real.log (jointR T π' A' b' z / jointR T π A b z)
        ≤ jointR T π A b z * (jointR T π' A' b' z / jointR T π A b z - 1) :=
          mul_le_mul_of_nonneg_left this hp.le
      _ = jointR T π' A' b' z - jointR T π A b z := by field_simp
  · rw [← hp]; simp only [zero_mul, sub_zero]
    exact jointR_nonneg hT w' hz

/-- **Jensen step**: `L' − L ≥ Σ_z p(z) · log(q(z)/p(z))`. -/
theorem gain_ge (hT : 0 < T) (w : Weights K T π A b) (w' : Weights K T π' A' b')
    (hsupp : ∀ z ∈ allPaths K T, 0 < jointR T π A b z →
      0 < π' (st z 0) ∧ ∀ t, t < T - 1 → 0 < A' (st z t) (st z (t + 1))) :
    S (allPaths K T) (fun z => jointR T π A b z * F T π π' A A' b b' z) ≤ LR K T π' A' b' - LR K T π A b := by
  unfold LR
  rw [← S_sub]
  exact S_le _ _ _ (fun z hz => term_ineq hT w w' hz (hsupp z hz))

/-- **Decomposition** of the expected log ratio over the posteriors. -/
theorem expected_F (hT : 0 < T) :
    S (allPaths K T) (fun z => jointR T π A b z * F T π π' A A' b b' z)
      = ∑ i ∈ range K, G K T π A b 0 i * Real.log (π' i / π i)
        + ∑ t ∈ range T, ∑ j ∈ range K, G K T π A b t j * Real.log (b' t j / b t j)
        + ∑ t ∈ range (T - 1), ∑ i ∈ range K, ∑ j ∈ range K,
            X K T π A b t i j * Real.log (A' i j / A i j) := by
  have e : ∀ z, jointR T π A b z * F T π π' A A' b b' z
      = jointR T π A b z * Real.log (π' (st z 0) / π (st z 0))
        + ∑ t ∈ range T, jointR T π A b z * Real.log (b' t (st z t) / b t (st z t))
        + ∑ t ∈ range (T - 1), jointR T π A b z
            * Real.log (A' (st z t) (st z (t + 1)) / A (st z t) (st z (t + 1))) := by
    intro z; unfold F; rw [mul_add, mul_add, Finset.mul_sum, Finset.mul_sum]
  rw [S_congr _ _ _ (fun z _ => e z), S_add, S_add, ← S_finset, ← S_finset]
  congr 1
  · congr 1
    · exact marg1 _ K (fun z => st z 0) (fun z hz => st_lt hz hT) _ (fun i => Real.log (π' i / π i))
    · apply Finset.sum_congr rfl
      intro t ht
      exact marg1 _ K (fun z => st z t) (fun z hz => st_lt hz (mem_range.mp ht)) _
        (fun j => Real.log (b' t j / b t j))
  · apply Finset.sum_congr rfl
    intro t ht
    have ht := mem_range.mp ht
    exact marg2 _ K (fun z => st z t) (fun z => st z (t + 1)) (fun z hz => st_lt hz (by omega))
      (fun z hz => st_lt hz (by omega)) _ (fun i j => Real.log (A' i j / A i j))

end model

/-! ### Gibbs' inequality -/

theorem kl (s : Finset ℕ) (p q : ℕ → ℝ) (hp : ∀ i ∈ s, 0 ≤ p i) (hq : ∀ i ∈ s, 0 ≤ q i)
    (h0 : ∀ i ∈ s, q i = 0 → p i = 0) :
    ∑ i ∈ s, p i - ∑ i ∈ s, q i ≤ ∑ i ∈ s, p i * Real.log (p i / q i) := by
  rw [← Finset.sum_sub_distrib]
  apply Finset.sum_le_sum
  intro i hi
  rcases lt_or_eq_of_le (hp i hi) with h | h
  · have hq' : 0 < q i := by
      rcases lt_or_eq_of_le (hq i hi) with h' | h'
      · exact h'
      · exact absurd (h0 i hi h'.symm) (ne_of_gt h)
    have h1 := Real.log_le_sub_one_of_pos (div_pos hq' h)
    have e : Real.log (p i / q i) = - Real.log (q i / p i) := by
      rw [← Real.log_inv, inv_div]
    rw [e]
    have h2 : p i * Real.log (q i / p i) ≤ p i * (q i / p i - 1) := mul_le_mul_of_nonneg_left h1 h.le
    have e2 : p i * (q i / p i - 1) = q i - p i := by field_simp
    linarith
  · rw [← h]; simp only [zero_sub, zero_div, Real.log_zero, mul_zero, neg_nonpos]
    exact hq i hi

/-! ### facts about the path sums -/

section facts
variable {K T : ℕ} {π : ℕ → ℝ} {A : ℕ → ℕ → ℝ} {b : ℕ → ℕ → ℝ}

theorem G_nonneg (hT : 0 < T) (w : Weights K T π A b) (t i : ℕ) : 0 ≤ G K T π A b t i :=
  S_nonneg _ _ (fun _ hz => jointR_nonneg hT w (List.mem_filter.mp hz).1)

theorem X_nonneg (hT : 0 < T) (w : Weights K T π A b) (t i j : ℕ) : 0 ≤ X K T π A b t i j :=
  S_nonneg _ _ (fun _ hz => jointR_nonneg hT w (List.mem_filter.mp hz).1)

theorem LR_nonneg (hT : 0 < T) (w : Weights K T π A b) : 0 ≤ LR K T π A b :=
  S_nonneg _ _ (fun _ hz => jointR_nonneg hT w hz)

theorem sum_G {t : ℕ} (ht : t < T) : ∑ i ∈ range K, G K T π A b t i = LR K T π A b := by
  have := marg1 (allPaths K T) K (fun z => st z t) (fun z hz => st_lt hz ht) (jointR T π A b) (fun _ => 1)
  simp only [mul_one] at this
  exact this.symm

theorem sum_X {t : ℕ} (ht : t + 1 < T) (i : ℕ) :
    ∑ j ∈ range K, X K T π A b t i j = G K T π A b t i := by
  unfold X G
  rw [Finset.sum_congr rfl (fun j _ => S_filter (allPaths K T) (fun z => st z t = i ∧ st z (t + 1) = j) _),
    S_filter (allPaths K T) (fun z => st z t = i), S_finset]
  apply S_congr
  intro z hz
  by_cases hc : st z t = i
  · simp only [hc, true_and, if_true]
    rw [Finset.sum_ite_eq, if_pos (mem_range.mpr (st_lt hz ht))]
  · simp [hc]

theorem le_G (hT : 0 < T) (w : Weights K T π A b) {z : List ℕ} (hz : z ∈ allPaths K T) (t : ℕ) :
    jointR T π A b z ≤ G K T π A b t (st z t) :=
  S_single_le _ _ (fun _ hy => jointR_nonneg hT w (List.mem_filter.mp hy).1) z
    (List.mem_filter.mpr ⟨hz, by simp⟩)

theorem le_X (hT : 0 < T) (w : Weights K T π A b) {z : List ℕ} (hz : z ∈ allPaths K T) (t : ℕ) :
    jointR T π A b z ≤ X K T π A b t (st z t) (st z (t + 1)) :=
  S_single_le _ _ (fun _ hy => jointR_nonneg hT w (List.mem_filter.mp hy).1) z
    (List.mem_filter.mpr ⟨hz, by simp⟩)

theorem le_LR (hT : 0 < T) (w : Weights K T π A b) {z : List ℕ} (hz : z ∈ allPaths K T) :
    jointR T π A b z ≤ LR K T π A b :=
  S_single_le _ _ (fun _ hy => jointR_nonneg hT w hy) z hz

theorem G0_zero {i : ℕ} (h : π i = 0) : G K T π A b 0 i = 0 := by
  unfold G
  rw [S_congr _ _ (fun _ => 0) ?_, S_zero]
  intro z hz
  have hz := (List.mem_filter.mp hz).2
  simp only [decide_eq_true_eq] at hz
  unfold jointR; rw [hz, h]; ring

theorem X_zero {t i j : ℕ} (ht : t < T - 1) (h : A i j = 0) : X K T π A b t i j = 0 := by
  unfold X
  rw [S_congr _ _ (fun _ => 0) ?_, S_zero]
  intro z hz
  have hz := (List.mem_filter.mp hz).2
  simp only [decide_eq_true_eq] at hz
  unfold jointR
  rw [Finset.prod_eq_zero (mem_range.mpr ht) (by rw [hz.1, hz.2]; exact h)]; ring

end facts

/-! ### the re-estimation formulas and the ascent -/

section mstep
variable (K T : ℕ) (π : ℕ → ℝ) (A : ℕ → ℕ → ℝ) (b : ℕ → ℕ → ℝ)

/-- `pi = gamma[0]` -/
noncomputable def newPi (i : ℕ) : ℝ := G K T π A b 0 i / LR K T π A b
/-- `xi.sum(axis=0)[i][j]` (times `L`) -/
noncomputable def Nij (i j : ℕ) : ℝ := ∑ t ∈ range (T - 1), X K T π A b t i j
/-- `gamma[:-1].sum(axis=0)[i]` (times `L`) -/
noncomputable def occ (i : ℕ) : ℝ := ∑ t ∈ range (T - 1), G K T π A b t i
/-- `A = xi.sum(axis=0) / col(gamma[:-1].sum(axis=0))` -/
noncomputable def newA (i j : ℕ) : ℝ := Nij K T π A b i j / occ K T π A b i

variable {K T π A b}

theorem Nij_nonneg (hT : 0 < T) (w : Weights K T π A b) (i j : ℕ) : 0 ≤ Nij K T π A b i j :=
  Finset.sum_nonneg (fun t _ => X_nonneg hT w t i j)

theorem occ_nonneg (hT : 0 < T) (w : Weights K T π A b) (i : ℕ) : 0 ≤ occ K T π A b i :=
  Finset.sum_nonneg (fun t _ => G_nonneg hT w t i)

theorem sum_Nij (i : ℕ) : ∑ j ∈ range K, Nij K T π A b i j = occ K T π A b i := by
  unfold Nij occ
  rw [Finset.sum_comm]
  apply Finset.sum_congr rfl
  intro t ht
  exact sum_X (by have := mem_range.mp ht; omega) i

/-- **The Baum–Welch ascent, general emission tables.**  For a model with probability weights
    (`π ≥ 0`, `A ≥ 0`, totals at most one) and positive emission densities, the model with
    `π' = γ_0`, `A' = Σ_t ξ_t / Σ_{t<T-1} γ_t` (exact posteriors) and ANY positive emission table `b'`
    that does not lower the expected emission log-density has at least the likelihood of the old
    one — all sums over ALL paths. -/
theorem em_general (hT : 0 < T) (w : Weights K T π A b)
    (hπ1 : ∑ i ∈ range K, π i ≤ 1) (hA1 : ∀ i, i < K → ∑ j ∈ range K, A i j ≤ 1)
    (b' : ℕ → ℕ → ℝ) (hb' : ∀ t j, t < T → j < K → 0 < b' t j)
    (hemit : 0 ≤ ∑ t ∈ range T, ∑ j ∈ range K, G K T π A b t j * Real.log (b' t j / b t j)) :
    LR K T π A b ≤ LR K T (newPi K T π A b) (newA K T π A b) b' := by
  have w' : Weights K T (newPi K T π A b) (newA K T π A b) b' :=
    ⟨fun i _ => div_nonneg (G_nonneg hT w 0 i) (LR_nonneg hT w),
     fun i j _ _ => div_nonneg (Nij_nonneg hT w i j) (occ_nonneg hT w i), hb'⟩
  rcases lt_or_eq_of_le (LR_nonneg hT w) with hL | hL
  swap
  · rw [← hL]; exact LR_nonneg hT w'
  have hsupp : ∀ z ∈ allPaths K T, 0 < jointR T π A b z →
      0 < newPi K T π A b (st z 0) ∧ ∀ t, t < T - 1 → 0 < newA K T π A b (st z t) (st z (t + 1)) := by
    intro z hz hp
    refine ⟨div_pos (lt_of_lt_of_le hp (le_G hT w hz 0)) hL, fun t ht => ?_⟩
    refine div_pos ?_ ?_
    · exact lt_of_lt_of_le (lt_of_lt_of_le hp (le_X hT w hz t))
        (Finset.single_le_sum (f := fun u => X K T π A b u (st z t) (st z (t + 1)))
          (fun t' _ => X_nonneg hT w t' _ _) (mem_range.mpr ht))
    · exact lt_of_lt_of_le (lt_of_lt_of_le hp (le_G hT w hz t))
        (Finset.single_le_sum (f := fun u => G K T π A b u (st z t))
          (fun t' _ => G_nonneg hT w t' _) (mem_range.mpr ht))
  have key := gain_ge hT w w' hsupp
  rw [expected_F hT] at key
  -- the initial-distribution part
  have h1 : 0 ≤ ∑ i ∈ range K, G K T π A b 0 i * Real.log (newPi K T π A b i / π i) := by
    have e : ∀ i ∈ range K, G K T π A b 0 i * Real.log (newPi K T π A b i / π i)
        = G K T π A b 0 i * Real.log (G K T π A b 0 i / (LR K T π A b * π i)) := by
      intro i _; unfold newPi; rw [div_div]
    rw [Finset.sum_congr rfl e]
    have := kl (range K) (fun i => G K T π A b 0 i) (fun i => LR K T π A b * π i)
      (fun i _ => G_nonneg hT w 0 i)
      (fun i hi => mul_nonneg hL.le (w.pi_nonneg i (mem_range.mp hi)))
      (fun i _ h => G0_zero ((mul_eq_zero.mp h).resolve_left (ne_of_gt hL)))
    rw [sum_G hT, ← Finset.mul_sum] at this
    have h2 : 0 ≤ LR K T π A b * (1 - ∑ i ∈ range K, π i) := mul_nonneg hL.le (by linarith)
    linarith
  -- the transition part
  have h3 : 0 ≤ ∑ t ∈ range (T - 1), ∑ i ∈ range K, ∑ j ∈ range K,
      X K T π A b t i j * Real.log (newA K T π A b i j / A i j) := by
    rw [Finset.sum_comm]
    apply Finset.sum_nonneg
    intro i hi
    rw [Finset.sum_comm]
    have e : ∀ j ∈ range K, ∑ t ∈ range (T - 1), X K T π A b t i j * Real.log (newA K T π A b i j / A i j)
        = Nij K T π A b i j * Real.log (Nij K T π A b i j / (occ K T π A b i * A i j)) := by
      intro j _; rw [← Finset.sum_mul]; unfold newA; rw [div_div]; rfl
    rw [Finset.sum_congr rfl e]
    have hle : ∀ j ∈ range K, Nij K T π A b i j ≤ occ K T π A b i := by
      intro j hj
      rw [← sum_Nij (K := K) i]
      exact Finset.single_le_sum (f := fun j => Nij K T π A b i j) (fun j' _ => Nij_nonneg hT w i j') hj
    have := kl (range K) (fun j => Nij K T π A b i j) (fun j => occ K T π A b i * A i j)
      (fun j _ => Nij_nonneg hT w i j)
      (fun j hj => mul_nonneg (occ_nonneg hT w i) (w.A_nonneg i j (mem_range.mp hi) (mem_range.mp hj)))
      (fun j hj h => by
        rcases mul_eq_zero.mp h with h | h
        · exact le_antisymm (h ▸ hle j hj) (Nij_nonneg hT w i j)
        · exact Finset.sum_eq_zero (fun t ht => X_zero (mem_range.mp ht) h))
    rw [sum_Nij, ← Finset.mul_sum] at this
    have h2 : 0 ≤ occ K T π A b i * (1 - ∑ j ∈ range K, A i j) :=
      mul_nonneg (occ_nonneg hT w i) (by have := hA1 i (mem_range.mp hi); linarith)
    linarith
  linarith

end mstep

/-! ### Gaussian emissions: the weighted mean and variance maximise the expected log-density -/

/-- `exp(state_log_likelihood)`: `-0.5 * (log(2π) - log(tau) + (x - mu)² * tau)` with `tau = 1/v` -/
noncomputable def gaussR (x m v : ℝ) : ℝ :=
  Real.exp (-(1 / 2) * (Real.log (2 * Real.pi) + Real.log v + (x - m) ^ 2 / v))

theorem gaussR_pos (x m v : ℝ) : 0 < gaussR x m v := Real.exp_pos _

theorem log_gauss_ratio (x m v m' v' : ℝ) :
    Real.log (gaussR x m' v' / gaussR x m v)
      = (1 / 2) * ((Real.log v - Real.log v') + (x - m) ^ 2 / v - (x - m') ^ 2 / v') := by
  rw [Real.log_div (ne_of_gt (gaussR_pos _ _ _)) (ne_of_gt (gaussR_pos _ _ _))]
  unfold gaussR
  rw [Real.log_exp, Real.log_exp]; ring

theorem gauss_mstep (s : Finset ℕ) (g x : ℕ → ℝ) (m v : ℝ) (hv : 0 < v)
    (hW : 0 < ∑ t ∈ s, g t)
    (hv' : 0 < (∑ t ∈ s, g t * (x t - (∑ t ∈ s, g t * x t) / ∑ t ∈ s, g t) ^ 2) / ∑ t ∈ s, g t) :
    0 ≤ ∑ t ∈ s, g t * Real.log
      (gaussR (x t) ((∑ t ∈ s, g t * x t) / ∑ t ∈ s, g t)
        ((∑ t ∈ s, g t * (x t - (∑ t ∈ s, g t * x t) / ∑ t ∈ s, g t) ^ 2) / ∑ t ∈ s, g t)
        / gaussR (x t) m v) := by
  generalize hWd : ∑ t ∈ s, g t = W at hW hv' ⊢
  generalize hm' : (∑ t ∈ s, g t * x t) / W = m' at hv' ⊢
  generalize hS3 : ∑ t ∈ s, g t * (x t - m') ^ 2 = S3 at hv' ⊢
  generalize hvd : S3 / W = v' at hv' ⊢
  have hWne : W ≠ 0 := ne_of_gt hW
  have e3 : S3 = v' * W := by rw [← hvd]; field_simp
  have e1 : ∑ t ∈ s, g t * x t = m' * W := by rw [← hm']; field_simp
  -- Σ g (x - m)² = Σ g (x - m')² + W (m' - m)²
  have e2 : ∑ t ∈ s, g t * (x t - m) ^ 2 = S3 + W * (m' - m) ^ 2 := by
    have : ∀ t ∈ s, g t * (x t - m) ^ 2
        = g t * (x t - m') ^ 2 + (2 * (m' - m)) * (g t * x t) + ((m' - m) ^ 2 - 2 * (m' - m) * m') * g t := by
      intro t _; ring
    rw [Finset.sum_congr rfl this, Finset.sum_add_distrib, Finset.sum_add_distrib, ← Finset.mul_sum,
      ← Finset.mul_sum, hS3, e1, hWd]
    ring
  have tot : ∑ t ∈ s, g t * Real.log (gaussR (x t) m' v' / gaussR (x t) m v)
      = (1 / 2) * ((Real.log v - Real.log v') * W + (1 / v) * (S3 + W * (m' - m) ^ 2) - (1 / v') * S3) := by
    rw [← e2, ← hS3, ← hWd, Finset.mul_sum, Finset.mul_sum, Finset.mul_sum, ← Finset.sum_add_distrib,
      ← Finset.sum_sub_distrib, Finset.mul_sum]
    apply Finset.sum_congr rfl
    intro t _
    rw [log_gauss_ratio]; ring
  rw [tot, e3]
  have hlog : Real.log v' - Real.log v ≤ v' / v - 1 := by
    rw [← Real.log_div (ne_of_gt hv') (ne_of_gt hv)]
    exact Real.log_le_sub_one_of_pos (div_pos hv' hv)
  have e4 : (Real.log v - Real.log v') * W + 1 / v * (v' * W + W * (m' - m) ^ 2) - 1 / v' * (v' * W)
      = W * ((Real.log v - Real.log v') + v' / v - 1 + (m' - m) ^ 2 / v) := by
    field_simp
    ring
  rw [e4]
  have : 0 ≤ (m' - m) ^ 2 / v := div_nonneg (sq_nonneg _) hv.le
  have : 0 ≤ Real.log v - Real.log v' + v' / v - 1 + (m' - m) ^ 2 / v := by linarith
  positivity

section gaussian
variable (K T : ℕ) (π : ℕ → ℝ) (A : ℕ → ℕ → ℝ) (x μ v : ℕ → ℝ)

/-- the emission table of a Gaussian-emission model on the observations `x` -/
noncomputable def gaussTab (x μ v : ℕ → ℝ) : ℕ → ℕ → ℝ := fun t j => gaussR (x t) (μ j) (v j)

/-- `gamma.sum(axis=0)[j]` (times `L`), for any emission table -/
noncomputable def wsumB (b : ℕ → ℕ → ℝ) (j : ℕ) : ℝ := ∑ t ∈ range T, G K T π A b t j
/-- `x_bar = np.sum(gamma * col(data), axis=0) / gamma.sum(axis=0)`, for any emission table -/
noncomputable def newMuB (b : ℕ → ℕ → ℝ) (x : ℕ → ℝ) (j : ℕ) : ℝ :=
  (∑ t ∈ range T, G K T π A b t j * x t) / wsumB K T π A b j
/-- `variance = np.sum(gamma * (col(data) - row(x_bar)) ** 2, axis=0) / gamma.sum(axis=0)` -/
noncomputable def newVarB (b : ℕ → ℕ → ℝ) (x : ℕ → ℝ) (j : ℕ) : ℝ :=
  (∑ t ∈ range T, G K T π A b t j * (x t - newMuB K T π A b x j) ^ 2) / wsumB K T π A b j

/-- the same for a Gaussian-emission model -/
noncomputable def wsum (j : ℕ) : ℝ := wsumB K T π A (gaussTab x μ v) j
noncomputable def newMu (j : ℕ) : ℝ := newMuB K T π A (gaussTab x μ v) x j
noncomputable def newVar (j : ℕ) : ℝ := newVarB K T π A (gaussTab x μ v) x j

variable {K T π A x μ v}

/-- **Baum–Welch does not decrease the likelihood** (Gaussian emissions, all sums over ALL paths):
    for probability weights `π`, `A` (zero entries allowed, totals at most one), variances `v > 0`,
    the model re-estimated by `ClassicHmm.update` from the exact posteriors
    (`π' = γ_0`, `A' = Σξ/Σγ`, `μ' = Σγx/Σγ`, `σ'² = Σγ(x-μ')²/Σγ`) has at least the likelihood of
    the old one, provided no re-estimated variance of an occupied state collapses to zero. -/
theorem em_monotone_gaussian (hT : 0 < T)
    (hπ : ∀ i, i < K → 0 ≤ π i) (hA : ∀ i j, i < K → j < K → 0 ≤ A i j)
    (hπ1 : ∑ i ∈ range K, π i ≤ 1) (hA1 : ∀ i, i < K → ∑ j ∈ range K, A i j ≤ 1)
    (hv : ∀ j, j < K → 0 < v j)
    (hv' : ∀ j, j < K → 0 < wsum K T π A x μ v j → 0 < newVar K T π A x μ v j) :
    LR K T π A (gaussTab x μ v)
      ≤ LR K T (newPi K T π A (gaussTab x μ v)) (newA K T π A (gaussTab x μ v))
          (gaussTab x (newMu K T π A x μ v) (newVar K T π A x μ v)) := by
  have w : Weights K T π A (gaussTab x μ v) := ⟨hπ, hA, fun _ _ _ _ => gaussR_pos _ _ _⟩
  refine em_general hT w hπ1 hA1 _ (fun _ _ _ _ => gaussR_pos _ _ _) ?_
  rw [Finset.sum_comm]
  apply Finset.sum_nonneg
  intro j hj
  have hj := mem_range.mp hj
  have hg : ∀ t ∈ range T, 0 ≤ G K T π A (gaussTab x μ v) t j := fun t _ => G_nonneg hT w t j
  rcases lt_or_eq_of_le (Finset.sum_nonneg hg) with hW | hW
  · exact gauss_mstep (range T) (fun t => G K T π A (gaussTab x μ v) t j) x (μ j) (v j) (hv j hj) hW
      (hv' j hj hW)
  · have hz := (Finset.sum_eq_zero_iff_of_nonneg hg).mp hW.symm
    exact le_of_eq (Finset.sum_eq_zero (fun t ht => by rw [hz t ht, zero_mul])).symm

end gaussian

/-! ### the side condition on the new variances is met by strictly positive models on non-constant data -/

theorem replicate_mem (K j : ℕ) (hj : j < K) : ∀ T, List.replicate T j ∈ allPaths K T
  | 0 => by simp [allPaths]
  | T + 1 => by
    simp only [allPaths, List.mem_flatMap, List.mem_range, List.mem_map, List.replicate_succ]
    exact ⟨j, hj, List.replicate T j, replicate_mem K j hj T, rfl⟩

theorem st_replicate (T j t : ℕ) (ht : t < T) : st (List.replicate T j) t = j := by
  simp [st, List.getD_eq_getElem?_getD, ht]

/-- in a strictly positive model every state is occupied at every time with positive probability -/
theorem G_pos {K T : ℕ} {π : ℕ → ℝ} {A : ℕ → ℕ → ℝ} {b : ℕ → ℕ → ℝ} (hT : 0 < T)
    (w : Weights K T π A b) (hπ : ∀ i, i < K → 0 < π i) (hA : ∀ i j, i < K → j < K → 0 < A i j)
    {t j : ℕ} (ht : t < T) (hj : j < K) : 0 < G K T π A b t j := by
  have hz := replicate_mem K j hj T
  have h1 := le_G hT w hz t
  rw [st_replicate T j t ht] at h1
  exact lt_of_lt_of_le (log_jointR w hz (hπ _ (st_lt hz hT))
    (fun u hu => hA _ _ (st_lt hz (by omega)) (st_lt hz (by omega)))).1 h1

/-- a weighted variance over data that differ at two occupied time points is positive -/
theorem wvar_pos (s : Finset ℕ) (g x : ℕ → ℝ) (m : ℝ) (hg : ∀ t ∈ s, 0 ≤ g t)
    {t1 t2 : ℕ} (h1 : t1 ∈ s) (h2 : t2 ∈ s) (hx : x t1 ≠ x t2) (g1 : 0 < g t1) (g2 : 0 < g t2) :
    0 < (∑ t ∈ s, g t * (x t - m) ^ 2) / ∑ t ∈ s, g t := by
  have hW : 0 < ∑ t ∈ s, g t := Finset.sum_pos' hg ⟨t1, h1, g1⟩
  refine div_pos (Finset.sum_pos' (fun t ht => mul_nonneg (hg t ht) (sq_nonneg _)) ?_) hW
  by_cases hm : x t1 = m
  · have hne : x t2 - m ≠ 0 := fun h => hx (by rw [hm]; linarith)
    exact ⟨t2, h2, mul_pos g2 (by positivity)⟩
  · have hne : x t1 - m ≠ 0 := fun h => hm (by linarith)
    exact ⟨t1, h1, mul_pos g1 (by positivity)⟩

section
variable {K T : ℕ} {π : ℕ → ℝ} {A : ℕ → ℕ → ℝ} {x μ v : ℕ → ℝ}

/-- **The ascent without side condition on the new variances**: strictly positive `π`, `A`, and
    observations that are not all equal. -/
theorem em_monotone_of_pos (hT : 0 < T)
    (hπ : ∀ i, i < K → 0 < π i) (hA : ∀ i j, i < K → j < K → 0 < A i j)
    (hπ1 : ∑ i ∈ range K, π i ≤ 1) (hA1 : ∀ i, i < K → ∑ j ∈ range K, A i j ≤ 1)
    (hv : ∀ j, j < K → 0 < v j) {t1 t2 : ℕ} (h1 : t1 < T) (h2 : t2 < T) (hx : x t1 ≠ x t2) :
    LR K T π A (gaussTab x μ v)
      ≤ LR K T (newPi K T π A (gaussTab x μ v)) (newA K T π A (gaussTab x μ v))
          (gaussTab x (newMu K T π A x μ v) (newVar K T π A x μ v)) := by
  have w : Weights K T π A (gaussTab x μ v) :=
    ⟨fun i hi => (hπ i hi).le, fun i j hi hj => (hA i j hi hj).le, fun _ _ _ _ => gaussR_pos _ _ _⟩
  refine em_monotone_gaussian hT w.pi_nonneg w.A_nonneg hπ1 hA1 hv (fun j hj _ => ?_)
  exact wvar_pos (range T) (fun t => G K T π A (gaussTab x μ v) t j) x _
    (fun t _ => G_nonneg hT w t j) (mem_range.mpr h1) (mem_range.mpr h2) hx
    (G_pos hT w hπ hA h1 hj) (G_pos hT w hπ hA h2 hj)
end

/-! ### link to the rational model: its `joint`, `likelihoodSpec`, `pinnedSpec`, `pinned2Spec`, `updPi`, `updA` -/

/-- position form of `wFrom` -/
theorem wFrom_prod (A : ℕ → ℕ → ℚ) : ∀ (bs : List Vec) (i : ℕ) (q : List ℕ), q.length = bs.length →
    wFrom A i bs q = ∏ t ∈ range bs.length,
      (A (st (i :: q) t) (st (i :: q) (t + 1)) * atR (bs.getD t []) (st (i :: q) (t + 1)))
  | [], i, q, h => by
    have : q = [] := List.eq_nil_of_length_eq_zero h
    subst this; simp [wFrom]
  | b :: bs, i, [], h => by simp at h
  | b :: bs, i, j :: q, h => by
    have h' : q.length = bs.length := by simpa using h
    rw [wFrom, wFrom_prod A bs j q h', List.length_cons, Finset.prod_range_succ']
    simp only [st, List.getD_cons_zero, List.getD_cons_succ]
    ring

/-- the emission table of the rational model, as reals -/
noncomputable def tabR (B : List Vec) : ℕ → ℕ → ℝ := fun t j => ((atR (B.getD t []) j : ℚ) : ℝ)

theorem cast_joint (pi : ℕ → ℚ) (A : ℕ → ℕ → ℚ) (B : List Vec) (z : List ℕ) (hB : B ≠ [])
    (hz : z.length = B.length) :
    ((joint pi A B z : ℚ) : ℝ)
      = jointR B.length (fun i => (pi i : ℝ)) (fun i j => (A i j : ℝ)) (tabR B) z := by
  match B, z, hB, hz with
  | b0 :: bs, s0 :: q, _, hz =>
    have h' : q.length = bs.length := by simpa using hz
    simp only [joint]
    rw [wFrom_prod A bs s0 q h']
    unfold jointR tabR
    rw [List.length_cons, Nat.add_sub_cancel, Finset.prod_range_succ' (fun t => ((atR ((b0 :: bs).getD t []) (st (s0 :: q) t) : ℚ) : ℝ))]
    push_cast
    rw [Finset.prod_mul_distrib]
    simp only [st, List.getD_cons_zero, List.getD_cons_succ]
    ring

theorem cast_list_sum {α} (l : List α) (f : α → ℚ) : (((l.map f).sum : ℚ) : ℝ) = S l (fun z => (f z : ℝ)) := by
  induction l with
  | nil => simp [S]
  | cons x xs ih => rw [S_cons, ← ih]; simp

section castmodel
variable (K : ℕ) (pi : ℕ → ℚ) (A : ℕ → ℕ → ℚ) (B : List Vec)

/-- the rational model's parameters as reals -/
noncomputable def cpi : ℕ → ℝ := fun i => (pi i : ℝ)
noncomputable def cA : ℕ → ℕ → ℝ := fun i j => (A i j : ℝ)

variable {K pi A B}

theorem cast_likelihoodSpec (hB : B ≠ []) :
    ((likelihoodSpec K pi A B : ℚ) : ℝ) = LR K B.length (cpi pi) (cA A) (tabR B) := by
  unfold likelihoodSpec LR
  rw [cast_list_sum]
  exact S_congr _ _ _ (fun z hz => cast_joint pi A B z hB (mem_allPaths K _ z hz).1)

theorem st_eq_iff {T : ℕ} {z : List ℕ} (hz : z ∈ allPaths K T) {t : ℕ} (ht : t < T) (i : ℕ) :
    z[t]? = some i ↔ st z t = i := by
  have hl : t < z.length := by rw [(mem_allPaths K T z hz).1]; exact ht
  simp [st, List.getD_eq_getElem?_getD, List.getElem?_eq_getElem hl]

theorem cast_pinnedSpec (hB : B ≠ []) {t : ℕ} (ht : t < B.length) (i : ℕ) :
    ((pinnedSpec K pi A B t i : ℚ) : ℝ) = G K B.length (cpi pi) (cA A) (tabR B) t i := by
  unfold pinnedSpec G
  rw [cast_list_sum]
  have e : (allPaths K B.length).filter (fun p => decide (p[t]? = some i))
      = (allPaths K B.length).filter (fun z => decide (st z t = i)) :=
    List.filter_congr (fun z hz => by simp only [st_eq_iff hz ht])
  rw [e]
  exact S_congr _ _ _ (fun z hz =>
    cast_joint pi A B z hB (mem_allPaths K _ z (List.mem_filter.mp hz).1).1)

theorem cast_pinned2Spec (hB : B ≠ []) {t : ℕ} (ht : t + 1 < B.length) (i j : ℕ) :
    ((pinned2Spec K pi A B t i j : ℚ) : ℝ) = X K B.length (cpi pi) (cA A) (tabR B) t i j := by
  unfold pinned2Spec X
  rw [cast_list_sum]
  have e : (allPaths K B.length).filter (fun p => decide (p[t]? = some i ∧ p[t + 1]? = some j))
      = (allPaths K B.length).filter (fun z => decide (st z t = i ∧ st z (t + 1) = j)) :=
    List.filter_congr (fun z hz => by
      simp only [st_eq_iff hz (show t < B.length by omega), st_eq_iff hz ht])
  rw [e]
  exact S_congr _ _ _ (fun z hz =>
    cast_joint pi A B z hB (mem_allPaths K _ z (List.mem_filter.mp hz).1).1)

end castmodel

theorem LR_congr {K T : ℕ} (hT : 0 < T) {π1 π2 : ℕ → ℝ} {A1 A2 : ℕ → ℕ → ℝ} (b : ℕ → ℕ → ℝ)
    (hπ : ∀ i, i < K → π1 i = π2 i) (hA : ∀ i j, i < K → j < K → A1 i j = A2 i j) :
    LR K T π1 A1 b = LR K T π2 A2 b := by
  unfold LR
  apply S_congr
  intro z hz
  unfold jointR
  rw [hπ _ (st_lt hz hT)]
  congr 1
  apply Finset.prod_congr rfl
  intro t ht
  have ht := mem_range.mp ht
  exact hA _ _ (st_lt hz (by omega)) (st_lt hz (by omega))

theorem sumT_range {α} (d : α) : ∀ (l : List α) (f : α → ℚ),
    sumT l f = ∑ t ∈ range l.length, f (l.getD t d)
  | [], f => by simp [sumT]
  | x :: xs, f => by
    rw [List.length_cons, Finset.sum_range_succ']
    simp only [List.getD_cons_succ, List.getD_cons_zero]
    rw [← sumT_range d xs f]; simp [sumT, add_comm]

theorem getD_dropLast {α} (d : α) (l : List α) (t : ℕ) (ht : t < l.length - 1) :
    l.dropLast.getD t d = l.getD t d := by
  have ht' : t < l.length := by omega
  have h2 : t < l.dropLast.length := by simp; omega
  rw [List.getD_eq_getElem?_getD, List.getD_eq_getElem?_getD, List.getElem?_eq_getElem h2,
    List.getElem?_eq_getElem ht', List.getElem_dropLast]

section links
variable {K : ℕ} {pi : ℕ → ℚ} {A : ℕ → ℕ → ℚ} {B : List Vec}

/-- the model's re-estimated initial distribution is the `π'` of `em_monotone` -/
theorem pi_link (gammas : List Vec) (L : ℚ) (hLne : (L : ℝ) ≠ 0)
    (hLR : LR K B.length (cpi pi) (cA A) (tabR B) = (L : ℝ)) {i : ℕ}
    (hG : G K B.length (cpi pi) (cA A) (tabR B) 0 i = ((atR (gammas.getD 0 []) i : ℚ) : ℝ) * (L : ℝ)) :
    newPi K B.length (cpi pi) (cA A) (tabR B) i = ((atR (updPi gammas) i : ℚ) : ℝ) := by
  unfold newPi
  rw [hLR, hG, mul_div_assoc, div_self hLne, mul_one]
  have : updPi gammas = gammas.getD 0 [] := by cases gammas <;> simp [updPi]
  rw [this]

/-- the model's re-estimated transition matrix is the `A'` of `em_monotone` -/
theorem A_link (gammas : List Vec) (xis : List (List Vec)) (L : ℚ) (hLne : (L : ℝ) ≠ 0)
    (hxl : xis.length = B.length - 1) (hgl : gammas.length = B.length) {i j : ℕ} (hi : i < K) (hj : j < K)
    (hG : ∀ t, t < B.length → G K B.length (cpi pi) (cA A) (tabR B) t i
      = ((atR (gammas.getD t []) i : ℚ) : ℝ) * (L : ℝ))
    (hX : ∀ t, t + 1 < B.length → X K B.length (cpi pi) (cA A) (tabR B) t i j
      = ((atR ((xis.getD t []).getD i []) j : ℚ) : ℝ) * (L : ℝ)) :
    newA K B.length (cpi pi) (cA A) (tabR B) i j = ((fnOfRows (updA K gammas xis) i j : ℚ) : ℝ) := by
  unfold newA Nij occ fnOfRows updA
  rw [getD_tab _ _ _ _ hi, atR_tab _ _ _ hj, sumT_range ([] : List Vec), sumT_range ([] : Vec), hxl]
  rw [List.length_dropLast, hgl]
  push_cast
  rw [Finset.sum_congr rfl (fun t ht => hX t (by have := mem_range.mp ht; omega)),
    Finset.sum_congr rfl (fun t ht => hG t (by have := mem_range.mp ht; omega)),
    ← Finset.sum_mul, ← Finset.sum_mul, mul_div_mul_right _ _ hLne]
  congr 1
  apply Finset.sum_congr rfl
  intro t ht
  rw [getD_dropLast _ _ _ (by rw [hgl]; exact mem_range.mp ht)]

end links

/-- Re-estimating `π` and `A` from exact posteriors (emission table kept) does not decrease the
    exact likelihood — the rational model's `updPi`, `updA`, given that its `γ`, `ξ`, `L` are exact. -/
theorem em_tables_of_exact (K : ℕ) (pi : ℕ → ℚ) (A : ℕ → ℕ → ℚ) (B : List Vec)
    (gammas : List Vec) (xis : List (List Vec)) (L : ℚ) (hB : B ≠ [])
    (hw : posModel K pi A B = true) (hπ1 : sumK K pi ≤ 1) (hA1 : ∀ i, i < K → sumK K (A i) ≤ 1)
    (hL : L = likelihoodSpec K pi A B) (hL0 : 0 < L)
    (hxl : xis.length = B.length - 1) (hgl : gammas.length = B.length)
    (hγ : ∀ t i, t < B.length → i < K → atR (gammas.getD t []) i * L = pinnedSpec K pi A B t i)
    (hξ : ∀ t i j, t + 1 < B.length → i < K → j < K →
      atR ((xis.getD t []).getD i []) j * L = pinned2Spec K pi A B t i j) :
    likelihoodSpec K pi A B
      ≤ likelihoodSpec K (atR (updPi gammas)) (fnOfRows (updA K gammas xis)) B := by
  obtain ⟨p1, _, p3, _, p5⟩ := posModel_spec K pi A B hw
  have hT : 0 < B.length := List.length_pos_of_ne_nil hB
  have w : Weights K B.length (cpi pi) (cA A) (tabR B) := by
    refine ⟨fun i hi => by unfold cpi; exact_mod_cast p1 i hi,
      fun i j hi hj => by unfold cA; exact_mod_cast p3 i j hi hj, fun t j ht hj => ?_⟩
    unfold tabR
    have : B.getD t [] ∈ B := by
      rw [List.getD_eq_getElem?_getD, List.getElem?_eq_getElem ht]; simp
    exact_mod_cast p5 _ this j hj
  have s1 : ∑ i ∈ range K, cpi pi i ≤ 1 := by
    rw [sumK_eq] at hπ1; unfold cpi; exact_mod_cast hπ1
  have s2 : ∀ i, i < K → ∑ j ∈ range K, cA A i j ≤ 1 := by
    intro i hi
    have := hA1 i hi
    rw [sumK_eq] at this; unfold cA; exact_mod_cast this
  have hemit : 0 ≤ ∑ t ∈ range B.length, ∑ j ∈ range K,
      G K B.length (cpi pi) (cA A) (tabR B) t j * Real.log (tabR B t j / tabR B t j) := by
    apply le_of_eq; symm
    apply Finset.sum_eq_zero; intro t ht
    apply Finset.sum_eq_zero; intro j hj
    rw [div_self (ne_of_gt (w.b_pos t j (mem_range.mp ht) (mem_range.mp hj))), Real.log_one, mul_zero]
  have key := em_general hT w s1 s2 (tabR B) w.b_pos hemit
  have hLR : LR K B.length (cpi pi) (cA A) (tabR B) = (L : ℝ) := by rw [hL, cast_likelihoodSpec hB]
  have hLne : (L : ℝ) ≠ 0 := by exact_mod_cast ne_of_gt hL0
  have hG : ∀ t i, t < B.length → i < K →
      G K B.length (cpi pi) (cA A) (tabR B) t i = ((atR (gammas.getD t []) i : ℚ) : ℝ) * (L : ℝ) := by
    intro t i ht hi
    rw [← cast_pinnedSpec hB ht, ← hγ t i ht hi]; push_cast; ring
  have hX : ∀ t i j, t + 1 < B.length → i < K → j < K →
      X K B.length (cpi pi) (cA A) (tabR B) t i j
        = ((atR ((xis.getD t []).getD i []) j : ℚ) : ℝ) * (L : ℝ) := by
    intro t i j ht hi hj
    rw [← cast_pinned2Spec hB ht, ← hξ t i j ht hi hj]; push_cast; ring
  have e : LR K B.length (newPi K B.length (cpi pi) (cA A) (tabR B))
      (newA K B.length (cpi pi) (cA A) (tabR B)) (tabR B)
      = ((likelihoodSpec K (atR (updPi gammas)) (fnOfRows (updA K gammas xis)) B : ℚ) : ℝ) := by
    rw [cast_likelihoodSpec hB]
    apply LR_congr hT
    · intro i hi
      exact pi_link gammas L hLne hLR (hG 0 i hT hi)
    · intro i j hi hj
      exact A_link gammas xis L hLne hxl hgl hi hj (fun t ht => hG t i ht hi) (fun t ht => hX t i j ht hi hj)
  rw [e, ← cast_likelihoodSpec hB] at key
  exact_mod_cast key

/-! ### the model's re-estimated means and variances -/

theorem sumT_zip_range : ∀ (γ : List Vec) (data : List ℚ), data.length = γ.length →
    ∀ f : Vec × ℚ → ℚ, sumT (γ.zip data) f = ∑ t ∈ range γ.length, f (γ.getD t [], data.getD t 0)
  | [], _, _, f => by simp [sumT]
  | g :: gs, [], h, f => by simp at h
  | g :: gs, x :: xs, h, f => by
    have h' : xs.length = gs.length := by simpa using h
    rw [List.length_cons, Finset.sum_range_succ']
    simp only [List.getD_cons_succ, List.getD_cons_zero]
    rw [← sumT_zip_range gs xs h' f]; simp [sumT, add_comm]

section
variable {K : ℕ} {pi : ℕ → ℚ} {A : ℕ → ℕ → ℚ} {B : List Vec}

/-- the model's re-estimated means are the weighted means of `em_monotone` -/
theorem mean_link (gammas : List Vec) (data : List ℚ) (L : ℚ) (hL : (L : ℝ) ≠ 0)
    (hgl : gammas.length = B.length) (hdl : data.length = B.length) {j : ℕ} (hj : j < K)
    (hG : ∀ t, t < B.length → G K B.length (cpi pi) (cA A) (tabR B) t j
      = ((atR (gammas.getD t []) j : ℚ) : ℝ) * (L : ℝ)) :
    ((atR (updMean K gammas data) j : ℚ) : ℝ)
      = newMuB K B.length (cpi pi) (cA A) (tabR B) (fun t => ((data.getD t 0 : ℚ) : ℝ)) j := by
  unfold updMean newMuB wsumB
  rw [atR_tab _ _ _ hj, sumT_zip_range gammas data (by rw [hdl, hgl]), sumT_range ([] : Vec), hgl]
  push_cast
  have e1 : ∀ t ∈ range B.length, G K B.length (cpi pi) (cA A) (tabR B) t j * ((data.getD t 0 : ℚ) : ℝ)
      = (((atR (gammas.getD t []) j : ℚ) : ℝ) * ((data.getD t 0 : ℚ) : ℝ)) * (L : ℝ) := by
    intro t ht; rw [hG t (mem_range.mp ht)]; ring
  rw [Finset.sum_congr rfl e1, Finset.sum_congr rfl (fun t ht => hG t (mem_range.mp ht)),
    ← Finset.sum_mul, ← Finset.sum_mul, mul_div_mul_right _ _ hL]

/-- the model's re-estimated variances are the weighted variances of `em_monotone` -/
theorem var_link (gammas : List Vec) (data : List ℚ) (L : ℚ) (hL : (L : ℝ) ≠ 0)
    (hgl : gammas.length = B.length) (hdl : data.length = B.length) {j : ℕ} (hj : j < K)
    (hG : ∀ t, t < B.length → G K B.length (cpi pi) (cA A) (tabR B) t j
      = ((atR (gammas.getD t []) j : ℚ) : ℝ) * (L : ℝ)) :
    ((atR (updVar K gammas data) j : ℚ) : ℝ)
      = newVarB K B.length (cpi pi) (cA A) (tabR B) (fun t => ((data.getD t 0 : ℚ) : ℝ)) j := by
  unfold newVarB
  rw [← mean_link gammas data L hL hgl hdl hj hG]
  unfold updVar wsumB
  simp only []
  rw [atR_tab _ _ _ hj, sumT_zip_range gammas data (by rw [hdl, hgl]), sumT_range ([] : Vec), hgl]
  push_cast
  have e1 : ∀ t ∈ range B.length, G K B.length (cpi pi) (cA A) (tabR B) t j
        * (((data.getD t 0 : ℚ) : ℝ) - ((atR (updMean K gammas data) j : ℚ) : ℝ)) ^ 2
      = (((atR (gammas.getD t []) j : ℚ) : ℝ) * ((((data.getD t 0 : ℚ) : ℝ) - ((atR (updMean K gammas data) j : ℚ) : ℝ))
          * (((data.getD t 0 : ℚ) : ℝ) - ((atR (updMean K gammas data) j : ℚ) : ℝ)))) * (L : ℝ) := by
    intro t ht; rw [hG t (mem_range.mp ht)]; ring
  rw [Finset.sum_congr rfl e1, Finset.sum_congr rfl (fun t ht => hG t (mem_range.mp ht)),
    ← Finset.sum_mul, ← Finset.sum_mul, mul_div_mul_right _ _ hL]
end

end EM
end Verif.C16
