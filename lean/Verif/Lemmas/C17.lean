/-
  C17 — helper lemmas for the track editing / saving model.
-/
import Verif.Model.C17
import Mathlib.Tactic.Ring
import Mathlib.Tactic.FieldSimp
import Mathlib.Tactic.Linarith
import Mathlib.Algebra.Order.Floor.Ring
import Mathlib.Data.Rat.Floor

namespace Verif.C17
open Verif.Py

/-! ### specification-side definitions for the CSV round trip -/

/-- the file line of node `p` of track number `i` (written row by row, not column by column) -/
def rowOf (k : Kymo) (sample : Option (Int → Rat → Int)) (md : Option Rat) (i : Nat) (p : Pt) : Row :=
  ⟨i, p.1, p.2, k.lt * p.1, p.2 * k.px, sample.map fun s => s p.1 p.2, md⟩

/-- the minimum-duration entry written for a track -/
def mdOf (fmt : Rat → Rat) (all : Bool) (tr : Track) : Option Rat :=
  if all then tr.minDur.map fmt else none

def blockOf (k : Kymo) (sample : Option (Int → Rat → Int)) (fmt : Rat → Rat) (all : Bool)
    (tr : Track) (i : Nat) : List Row :=
  tr.pts.map (rowOf k sample (mdOf fmt all tr) i)

/-- all lines: track after track, nodes in track order -/
def rowBlocksFrom (k : Kymo) (sample : Option (Int → Rat → Int)) (fmt : Rat → Rat) (all : Bool)
    (s : Nat) (g : List Track) : List Row :=
  (g.zipIdx s).flatMap fun p => blockOf k sample fmt all p.1 p.2

/-- what a track looks like after `save` + `import`: the nodes, the counts sampled while saving (if
    any), and the formatted minimum duration (if every track of the group has one). -/
def reimported (sample : Option (Int → Rat → Int)) (fmt : Rat → Rat) (all : Bool) (tr : Track) : Track :=
  ⟨tr.pts, mdOf fmt all tr, sample.map fun s => tr.pts.map fun p => s p.1 p.2⟩

/-! ### columns → rows -/

theorem zip_flatMap {α β γ} (l : List γ) (f : γ → List α) (h : γ → List β)
    (hl : ∀ x ∈ l, (f x).length = (h x).length) :
    (l.flatMap f).zip (l.flatMap h) = l.flatMap fun x => (f x).zip (h x) := by
  induction l with
  | nil => simp
  | cons a l ih =>
    simp only [List.flatMap_cons]
    rw [List.zip_append (hl a (by simp))]
    rw [ih (fun x hx => hl x (by simp [hx]))]

theorem block_rows (k : Kymo) (sample : Option (Int → Rat → Int)) (md : Option Rat) (i : Nat)
    (pts : List Pt) :
    ((List.replicate pts.length i).zip ((pts.map (·.1)).zip ((pts.map (·.2)).zip
      ((pts.map fun p => k.lt * p.1).zip ((pts.map fun p => p.2 * k.px).zip
        ((pts.map fun p => sample.map fun s => s p.1 p.2).zip (List.replicate pts.length md))))))).map
      (fun x => (⟨x.1, x.2.1, x.2.2.1, x.2.2.2.1, x.2.2.2.2.1, x.2.2.2.2.2.1, x.2.2.2.2.2.2⟩ : Row))
    = pts.map (rowOf k sample md i) := by
  induction pts with
  | nil => simp
  | cons p ps ih =>
    simp only [List.length_cons, List.replicate_succ, List.map_cons, List.zip_cons_cons]
    rw [ih]
    rfl

theorem exportRows_eq (k : Kymo) (sample : Option (Int → Rat → Int)) (fmt : Rat → Rat)
    (g : List Track) (hne : g ≠ []) :
    exportRows k sample fmt g
      = .ok (rowBlocksFrom k sample fmt (g.all (·.minDur.isSome)) 0 g) := by
  unfold exportRows
  have : g.isEmpty = false := by cases g <;> simp_all
  simp only [this, Bool.false_eq_true, if_false]
  congr 1
  unfold mkRows idxCol tCol cCol secCol posCol countCol minDurCol hstack rowBlocksFrom blockOf
  simp only [Track.len]
  rw [zip_flatMap _ _ _ (by intros; simp), zip_flatMap _ _ _ (by intros; simp),
    zip_flatMap _ _ _ (by intros; simp), zip_flatMap _ _ _ (by intros; simp),
    zip_flatMap _ _ _ (by intros; simp), zip_flatMap _ _ _ (by intros; simp)]
  rw [List.map_flatMap]
  congr 1
  funext p
  exact block_rows k sample _ p.2 p.1.pts

/-! ### `np.unique` -/

theorem foldl_max_ge (l : List Nat) (a : Nat) :
    a ≤ l.foldl max a ∧ (∀ x ∈ l, x ≤ l.foldl max a) ∧ (l.foldl max a = a ∨ l.foldl max a ∈ l) := by
  induction l generalizing a with
  | nil => simp
  | cons y ys ih =>
    simp only [List.foldl_cons, List.mem_cons]
    obtain ⟨h1, h2, h3⟩ := ih (max a y)
    refine ⟨by omega, ?_, ?_⟩
    · intro x hx
      rcases hx with rfl | hx
      · omega
      · exact h2 x hx
    · rcases h3 with h | h
      · by_cases hay : a ≤ y
        · right; left; rw [h]; omega
        · left; rw [h]; omega
      · right; right; exact h

theorem uniqueSorted_eq_range (l : List Nat) (n : Nat) (h : ∀ k, k ∈ l ↔ k < n) :
    uniqueSorted l = List.range n := by
  unfold uniqueSorted
  obtain ⟨_, h2, h3⟩ := foldl_max_ge l 0
  rcases Nat.eq_zero_or_pos n with hn | hn
  · subst hn
    have : l = [] := by
      cases l with
      | nil => rfl
      | cons a as => exact absurd ((h a).1 (by simp)) (by omega)
    subst this
    simp
  · have hM : l.foldl max 0 = n - 1 := by
      have a1 : n - 1 ≤ l.foldl max 0 := h2 _ ((h (n - 1)).2 (by omega))
      have a2 : l.foldl max 0 < n := by
        rcases h3 with h3 | h3
        · omega
        · exact (h _).1 h3
      omega
    rw [hM, show n - 1 + 1 = n by omega]
    apply List.filter_eq_self.2
    intro k hk
    simp only [List.mem_range] at hk
    simpa using (h k).2 hk

/-! ### grouping the rows of an exported file -/

theorem mem_rowBlocksFrom_idx (k : Kymo) (sample : Option (Int → Rat → Int)) (fmt : Rat → Rat)
    (all : Bool) (s : Nat) (g : List Track) :
    ∀ r ∈ rowBlocksFrom k sample fmt all s g, s ≤ r.idx ∧ r.idx < s + g.length := by
  induction g generalizing s with
  | nil => simp [rowBlocksFrom]
  | cons tr rest ih =>
    intro r hr
    simp only [rowBlocksFrom, List.zipIdx_cons, List.flatMap_cons, List.mem_append] at hr
    rcases hr with hr | hr
    · simp only [blockOf, List.mem_map] at hr
      obtain ⟨p, _, rfl⟩ := hr
      simp [rowOf]
    · have := ih (s + 1) r hr
      simp only [List.length_cons]
      omega

theorem rowBlocksFrom_cons (k : Kymo) (sample : Option (Int → Rat → Int)) (fmt : Rat → Rat)
    (all : Bool) (s : Nat) (tr : Track) (g : List Track) :
    rowBlocksFrom k sample fmt all s (tr :: g)
      = blockOf k sample fmt all tr s ++ rowBlocksFrom k sample fmt all (s + 1) g := by
  simp [rowBlocksFrom, List.zipIdx_cons]

theorem filter_blocks (k : Kymo) (sample : Option (Int → Rat → Int)) (fmt : Rat → Rat)
    (all : Bool) (s : Nat) (g : List Track) :
    (List.range' s g.length).map
        (fun i => (rowBlocksFrom k sample fmt all s g).filter fun r => r.idx == i)
      = (g.zipIdx s).map fun p => blockOf k sample fmt all p.1 p.2 := by
  induction g generalizing s with
  | nil => simp
  | cons tr rest ih =>
    simp only [List.length_cons, List.range'_succ, List.map_cons, List.zipIdx_cons,
      rowBlocksFrom_cons, List.filter_append]
    congr 1
    · have h1 : (blockOf k sample fmt all tr s).filter (fun r => r.idx == s)
          = blockOf k sample fmt all tr s := by
        apply List.filter_eq_self.2
        intro r hr
        simp only [blockOf, List.mem_map] at hr
        obtain ⟨p, _, rfl⟩ := hr
        simp [rowOf]
      have h2 : (rowBlocksFrom k sample fmt all (s + 1) rest).filter (fun r => r.idx == s) = [] := by
        apply List.filter_eq_nil_iff.2
        intro r hr
        have := (mem_rowBlocksFrom_idx k sample fmt all (s + 1) rest r hr).1
        simp only [beq_iff_eq]
        omega
      rw [h1, h2, List.append_nil]
    · rw [← ih (s + 1)]
      apply List.map_congr_left
      intro i hi
      have hi' : s + 1 ≤ i := by
        simp only [List.mem_range'_1] at hi
        omega
      have h1 : (blockOf k sample fmt all tr s).filter (fun r => r.idx == i) = [] := by
        apply List.filter_eq_nil_iff.2
        intro r hr
        simp only [blockOf, List.mem_map] at hr
        obtain ⟨p, _, rfl⟩ := hr
        simp only [rowOf, beq_iff_eq]
        omega
      rw [h1, List.nil_append]

theorem idx_mem_rowBlocks (k : Kymo) (sample : Option (Int → Rat → Int)) (fmt : Rat → Rat)
    (all : Bool) (s : Nat) (g : List Track) (hpts : ∀ tr ∈ g, tr.pts ≠ []) (i : Nat) :
    i ∈ (rowBlocksFrom k sample fmt all s g).map (·.idx) ↔ s ≤ i ∧ i < s + g.length := by
  constructor
  · intro h
    simp only [List.mem_map] at h
    obtain ⟨r, hr, rfl⟩ := h
    exact mem_rowBlocksFrom_idx k sample fmt all s g r hr
  · induction g generalizing s with
    | nil => simp
    | cons tr rest ih =>
      intro ⟨h1, h2⟩
      rw [rowBlocksFrom_cons, List.map_append, List.mem_append]
      by_cases hi : i = s
      · left
        subst hi
        have hne := hpts tr (by simp)
        cases hp : tr.pts with
        | nil => exact absurd hp hne
        | cons p ps => simp [blockOf, hp, rowOf]
      · right
        apply ih (s + 1) (fun t ht => hpts t (by simp [ht]))
        simp only [List.length_cons] at h2
        omega

theorem readTxt_rowBlocks (k : Kymo) (sample : Option (Int → Rat → Int)) (fmt : Rat → Rat)
    (all : Bool) (g : List Track) (hpts : ∀ tr ∈ g, tr.pts ≠ []) :
    readTxt (rowBlocksFrom k sample fmt all 0 g)
      = g.zipIdx.map fun p => blockOf k sample fmt all p.1 p.2 := by
  unfold readTxt
  rw [uniqueSorted_eq_range _ g.length (fun i => by
    rw [idx_mem_rowBlocks k sample fmt all 0 g hpts i]; omega)]
  rw [List.range_eq_range']
  exact filter_blocks k sample fmt all 0 g

/-! ### one track back from its block -/

theorem allSome_map_some {α β} (l : List α) (f : α → β) :
    allSome (l.map fun x => some (f x)) = some (l.map f) := by
  induction l with
  | nil => rfl
  | cons a as ih => simp [allSome, ih]

theorem allSome_map_none {α β} (l : List α) (h : l ≠ []) :
    allSome (l.map fun _ => (none : Option β)) = none := by
  cases l with
  | nil => exact absurd rfl h
  | cons a as => simp [allSome]

theorem uniqueSingle_const {α} (l : List α) (h : l ≠ []) (d : Rat) :
    uniqueSingle (l.map fun _ => d) = some d := by
  cases l with
  | nil => exact absurd rfl h
  | cons a as => simp [uniqueSingle]

theorem mkTrack_block (k : Kymo) (hpx : k.px ≠ 0) (sample : Option (Int → Rat → Int))
    (fmt : Rat → Rat) (all : Bool) (tr : Track) (i : Nat) (hne : tr.pts ≠ []) :
    mkTrack k (blockOf k sample fmt all tr i) = .ok (reimported sample fmt all tr) := by
  unfold mkTrack blockOf reimported
  simp only [List.map_map]
  have hpts : (tr.pts.map ((fun r : Row => (r.t, r.c * k.px / k.px)) ∘ rowOf k sample (mdOf fmt all tr) i))
      = tr.pts := by
    conv => rhs; rw [← List.map_id tr.pts]
    apply List.map_congr_left
    intro p _
    simp only [Function.comp, rowOf, id]
    rw [mul_div_assoc, div_self hpx, mul_one]
  have hcnt : allSome (tr.pts.map ((·.count) ∘ rowOf k sample (mdOf fmt all tr) i))
      = sample.map fun s => tr.pts.map fun p => s p.1 p.2 := by
    cases sample with
    | none => exact allSome_map_none tr.pts hne
    | some s => exact allSome_map_some tr.pts _
  rw [hpts, hcnt]
  cases hmd : mdOf fmt all tr with
  | none =>
    have : allSome (tr.pts.map ((·.minDur) ∘ rowOf k sample none i)) = none :=
      allSome_map_none tr.pts hne
    simp only [this]
  | some d =>
    have : allSome (tr.pts.map ((·.minDur) ∘ rowOf k sample (some d) i))
        = some (tr.pts.map fun _ => d) := allSome_map_some tr.pts _
    simp only [this, uniqueSingle_const tr.pts hne d]

theorem mapM_map_ok {α β γ} (f : β → Except Err γ) (B : α → β) (h : α → γ) (l : List α)
    (hf : ∀ x ∈ l, f (B x) = .ok (h x)) : (l.map B).mapM f = .ok (l.map h) := by
  induction l with
  | nil => rfl
  | cons a as ih =>
    rw [List.map_cons, List.mapM_cons, hf a (by simp), ih (fun x hx => hf x (by simp [hx]))]
    rfl

theorem importGroup_rowBlocks (k : Kymo) (hpx : k.px ≠ 0) (sample : Option (Int → Rat → Int))
    (fmt : Rat → Rat) (all : Bool) (g : List Track) (hne : g ≠ []) (hpts : ∀ tr ∈ g, tr.pts ≠ []) :
    importGroup k (rowBlocksFrom k sample fmt all 0 g) = .ok (g.map (reimported sample fmt all)) := by
  have hrows : (rowBlocksFrom k sample fmt all 0 g).isEmpty = false := by
    cases g with
    | nil => exact absurd rfl hne
    | cons tr rest =>
      rw [rowBlocksFrom_cons]
      have := hpts tr (by simp)
      cases hp : tr.pts with
      | nil => exact absurd hp this
      | cons p ps => simp [blockOf, hp]
  unfold importGroup
  simp only [hrows, Bool.false_eq_true, if_false]
  rw [readTxt_rowBlocks k sample fmt all g hpts]
  rw [mapM_map_ok (mkTrack k) _ (fun p => reimported sample fmt all p.1)]
  · congr 1
    conv => rhs; rw [← List.zipIdx_map_fst 0 g]
    rw [List.map_map]
    rfl
  · intro p hp
    apply mkTrack_block k hpx
    have hm : p.1 ∈ (g.zipIdx 0).map Prod.fst := List.mem_map_of_mem hp
    rw [List.zipIdx_map_fst] at hm
    exact hpts p.1 hm

/-! ### Python slicing with non-negative bounds -/

theorem pyNorm_nat (n k : Nat) : pyNorm n (k : Int) = min k n := by
  unfold pyNorm
  have : ¬ ((k : Int) < 0) := by omega
  simp [this]

theorem pySliceOpt_take {α} (l : List α) (k : Nat) : pySliceOpt l none (some (k : Int)) = l.take k := by
  unfold pySliceOpt pySlice
  simp only [Option.getD_none, Option.getD_some]
  rw [pyNorm_nat, show pyNorm l.length 0 = 0 from by simpa using pyNorm_nat l.length 0]
  simp [List.take_eq_take_min]

theorem pySliceOpt_drop {α} (l : List α) (k : Nat) : pySliceOpt l (some (k : Int)) none = l.drop k := by
  unfold pySliceOpt pySlice
  simp only [Option.getD_none, Option.getD_some]
  rw [pyNorm_nat, pyNorm_nat]
  simp only [Nat.min_self, List.take_length]
  by_cases h : k ≤ l.length
  · rw [Nat.min_eq_left h]
  · have h' : l.length ≤ k := by omega
    rw [Nat.min_eq_right h', List.drop_eq_nil_of_le h', List.drop_eq_nil_of_le (Nat.le_refl _)]

theorem pyIndex_nat {α} (l : List α) (k : Nat) : pyIndex l (k : Int) = l[k]? := by
  unfold pyIndex
  have : ¬ ((k : Int) < 0) := by omega
  simp [this]

/-- the two halves `_split` and `_merge_tracks` cut out of a track -/
def Track.takeN (tr : Track) (n : Nat) : Track := ⟨tr.pts.take n, tr.minDur, tr.counts.map (·.take n)⟩
def Track.dropN (tr : Track) (n : Nat) : Track := ⟨tr.pts.drop n, tr.minDur, tr.counts.map (·.drop n)⟩

theorem slice_take (tr : Track) (k : Nat) : tr.slice none (some (k : Int)) = tr.takeN k := by
  unfold Track.slice Track.takeN
  rw [pySliceOpt_take]
  congr 1
  cases tr.counts <;> simp [pySliceOpt_take]

theorem slice_drop (tr : Track) (k : Nat) : tr.slice (some (k : Int)) none = tr.dropN k := by
  unfold Track.slice Track.dropN
  rw [pySliceOpt_drop]
  congr 1
  cases tr.counts <;> simp [pySliceOpt_drop]

theorem split_inside (tr : Track) (n : Nat) (h0 : 0 < n) (h1 : n < tr.len) :
    tr.split (n : Int) = .ok (tr.takeN n, tr.dropN n) := by
  unfold Track.split
  have hc : clipNode (n : Int) tr.len = (n : Int) := by unfold clipNode; omega
  simp only [hc, slice_take, slice_drop]
  have a : (tr.takeN n).len ≠ 0 := by
    simp only [Track.takeN, Track.len, List.length_take]; unfold Track.len at h1; omega
  have b : (tr.dropN n).len ≠ 0 := by
    simp only [Track.dropN, Track.len, List.length_drop]; unfold Track.len at h1; omega
  simp [a, b]

theorem split_outside (tr : Track) (node : Int) (h : node ≤ 0 ∨ (tr.len : Int) ≤ node) :
    tr.split node = .error .value := by
  unfold Track.split
  rcases h with h | h
  · have hc : clipNode node tr.len = ((0 : Nat) : Int) := by unfold clipNode; omega
    simp only [hc, slice_take, slice_drop]
    simp [Track.takeN, Track.len]
  · have hc : clipNode node tr.len = ((tr.len : Nat) : Int) := by unfold clipNode; omega
    simp only [hc, slice_take, slice_drop]
    simp [Track.dropN, Track.len]

/-! ### interpolation -/

/-- scan-line indices strictly increasing along the track -/
def StrictInc (pts : List Pt) : Prop := pts.Pairwise fun a b => a.1 < b.1

theorem foldl_min_eq (l : List Pt) (a : Int) (h : ∀ q ∈ l, a ≤ q.1) :
    l.foldl (fun m q => min m q.1) a = a := by
  induction l with
  | nil => rfl
  | cons q qs ih =>
    simp only [List.foldl_cons]
    have := h q (by simp)
    rw [show min a q.1 = a by omega]
    exact ih (fun x hx => h x (by simp [hx]))

theorem tmin_sorted (p : Pt) (ps : List Pt) (h : StrictInc (p :: ps)) : tmin (p :: ps) = p.1 := by
  unfold tmin
  apply foldl_min_eq
  intro q hq
  have := (List.pairwise_cons.1 h).1 q hq
  omega

theorem tmax_cons_cons (p q : Pt) (rest : List Pt) (h : p.1 < q.1) :
    tmax (p :: q :: rest) = tmax (q :: rest) := by
  unfold tmax
  simp only [List.foldl_cons]
  rw [show max p.1 q.1 = q.1 by omega]

theorem tmax_ge_head (p : Pt) (ps : List Pt) (h : StrictInc (p :: ps)) : p.1 ≤ tmax (p :: ps) := by
  induction ps generalizing p with
  | nil => simp [tmax]
  | cons q rest ih =>
    have hpq : p.1 < q.1 := (List.pairwise_cons.1 h).1 q (by simp)
    rw [tmax_cons_cons p q rest hpq]
    have := ih q (List.pairwise_cons.1 h).2
    omega

theorem arange_split (a b c : Int) (h1 : a ≤ b) (h2 : b ≤ c) : arange a c = arange a b ++ arange b c := by
  unfold arange
  have hn : (c - a).toNat = (b - a).toNat + (c - b).toNat := by omega
  rw [hn, List.range_add, List.map_append, List.map_map]
  congr 1
  apply List.map_congr_left
  intro i _
  simp only [Function.comp]
  omega

theorem mem_arange (a b x : Int) : x ∈ arange a b ↔ a ≤ x ∧ x < b := by
  unfold arange
  simp only [List.mem_map, List.mem_range]
  constructor
  · rintro ⟨i, hi, rfl⟩; omega
  · rintro ⟨h1, h2⟩; exact ⟨(x - a).toNat, by omega, by omega⟩

theorem arange_succ_left (a b : Int) (h : a < b) : arange a b = a :: arange (a + 1) b := by
  rw [arange_split a (a + 1) b (by omega) (by omega)]
  have : arange a (a + 1) = [a] := by
    unfold arange
    rw [show (a + 1 - a).toNat = 1 by omega]
    simp
  rw [this]; rfl

/-- the nodes `interpolate` creates on the segment from `p` (included) to `q` (excluded) -/
def segment (p q : Pt) : List Pt := (arange p.1 q.1).map fun x => (x, lin p q x)

theorem interpolate_single (p : Pt) : interpolate [p] = [p] := by
  unfold interpolate
  simp only [tmin, tmax, List.foldl_nil]
  rw [arange_succ_left p.1 (p.1 + 1) (by omega)]
  have : arange (p.1 + 1) (p.1 + 1) = [] := by unfold arange; simp
  simp [this, interpAt]

theorem interpolate_cons_cons (p q : Pt) (rest : List Pt) (h : StrictInc (p :: q :: rest)) :
    interpolate (p :: q :: rest) = segment p q ++ interpolate (q :: rest) := by
  have hpq : p.1 < q.1 := (List.pairwise_cons.1 h).1 q (by simp)
  have hq : StrictInc (q :: rest) := (List.pairwise_cons.1 h).2
  unfold interpolate segment
  rw [tmin_sorted p _ h, tmin_sorted q _ hq, tmax_cons_cons p q rest hpq]
  have hmax := tmax_ge_head q rest hq
  rw [arange_split p.1 q.1 (tmax (q :: rest) + 1) (by omega) (by omega), List.map_append]
  congr 1
  · apply List.map_congr_left
    intro x hx
    rw [mem_arange] at hx
    have h1 : ¬ x < p.1 := by omega
    simp [interpAt, h1, hx.2]
  · apply List.map_congr_left
    intro x hx
    rw [mem_arange] at hx
    have h1 : ¬ x < p.1 := by omega
    have h2 : ¬ x < q.1 := by omega
    simp [interpAt, h1, h2]

theorem segment_head (p q : Pt) (h : p.1 < q.1) :
    segment p q = p :: (arange (p.1 + 1) q.1).map fun x => (x, lin p q x) := by
  unfold segment
  rw [arange_succ_left p.1 q.1 h, List.map_cons]
  congr 1
  unfold lin
  simp

/-- `r` lies on the straight line through `p` and `q` (division-free form) -/
def Collinear (p q r : Pt) : Prop :=
  (r.2 - p.2) * ((q.1 - p.1 : Int) : Rat) = (q.2 - p.2) * ((r.1 - p.1 : Int) : Rat)

theorem lin_collinear (p q : Pt) (x : Int) (h : p.1 < q.1) : Collinear p q (x, lin p q x) := by
  unfold Collinear lin
  have hne : ((q.1 - p.1 : Int) : Rat) ≠ 0 := by
    have : (q.1 - p.1 : Int) ≠ 0 := by omega
    exact_mod_cast this
  simp only
  field_simp
  ring

/-! ### foldl bounds (unsorted tracks) -/

theorem foldl_min_le (l : List Pt) (a : Int) :
    l.foldl (fun m q => min m q.1) a ≤ a ∧ ∀ q ∈ l, l.foldl (fun m q => min m q.1) a ≤ q.1 := by
  induction l generalizing a with
  | nil => simp
  | cons y ys ih =>
    simp only [List.foldl_cons, List.mem_cons]
    obtain ⟨h1, h2⟩ := ih (min a y.1)
    refine ⟨by omega, ?_⟩
    intro q hq
    rcases hq with rfl | hq
    · omega
    · exact h2 q hq

theorem foldl_max_ge' (l : List Pt) (a : Int) :
    a ≤ l.foldl (fun m q => max m q.1) a ∧ ∀ q ∈ l, q.1 ≤ l.foldl (fun m q => max m q.1) a := by
  induction l generalizing a with
  | nil => simp
  | cons y ys ih =>
    simp only [List.foldl_cons, List.mem_cons]
    obtain ⟨h1, h2⟩ := ih (max a y.1)
    refine ⟨by omega, ?_⟩
    intro q hq
    rcases hq with rfl | hq
    · omega
    · exact h2 q hq

theorem tmin_le_tmax_mem (pts : List Pt) (q : Pt) (hq : q ∈ pts) : tmin pts ≤ q.1 ∧ q.1 ≤ tmax pts := by
  cases pts with
  | nil => simp at hq
  | cons p ps =>
    unfold tmin tmax
    obtain ⟨a1, a2⟩ := foldl_min_le ps p.1
    obtain ⟨b1, b2⟩ := foldl_max_ge' ps p.1
    rcases List.mem_cons.1 hq with rfl | h
    · exact ⟨a1, b1⟩
    · exact ⟨a2 q h, b2 q h⟩

theorem interpolate_times_eq (pts : List Pt) :
    (interpolate pts).map (·.1) = arange (tmin pts) (tmax pts + 1) := by
  unfold interpolate
  rw [List.map_map]
  conv => rhs; rw [← List.map_id (arange (tmin pts) (tmax pts + 1))]
  rfl

end Verif.C17
