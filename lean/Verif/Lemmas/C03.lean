/-
  Helper lemmas for C03 (core Lean only).
-/
import Verif.Model.C03
import Verif.Lemmas.C01
import Verif.Props.C01

namespace Verif.C03
open Verif.Py

/-! ## `listMax` / `listMin` -/

theorem le_listMax : ∀ (l : List Int) (x : Int), x ∈ l → x ≤ listMax l
  | [], x, h => by simp at h
  | [a], x, h => by simp at h; simp [listMax, h]
  | a :: b :: t, x, h => by
    simp only [listMax]
    rcases List.mem_cons.mp h with h | h
    · subst h; exact Int.le_max_left _ _
    · exact Int.le_trans (le_listMax (b :: t) x h) (Int.le_max_right _ _)

theorem listMin_le : ∀ (l : List Int) (x : Int), x ∈ l → listMin l ≤ x
  | [], x, h => by simp at h
  | [a], x, h => by simp at h; simp [listMin, h]
  | a :: b :: t, x, h => by
    simp only [listMin]
    rcases List.mem_cons.mp h with h | h
    · subst h; exact Int.min_le_left _ _
    · exact Int.le_trans (Int.min_le_right _ _) (listMin_le (b :: t) x h)

theorem listMax_mem : ∀ (l : List Int), l ≠ [] → listMax l ∈ l
  | [], h => by simp at h
  | [a], _ => by simp [listMax]
  | a :: b :: t, _ => by
    simp only [listMax]
    have ih := listMax_mem (b :: t) (by simp)
    rcases Int.le_total a (listMax (b :: t)) with h | h
    · rw [Int.max_eq_right h]; exact List.mem_cons_of_mem _ ih
    · rw [Int.max_eq_left h]; exact List.mem_cons_self

theorem listMin_mem : ∀ (l : List Int), l ≠ [] → listMin l ∈ l
  | [], h => by simp at h
  | [a], _ => by simp [listMin]
  | a :: b :: t, _ => by
    simp only [listMin]
    have ih := listMin_mem (b :: t) (by simp)
    rcases Int.le_total a (listMin (b :: t)) with h | h
    · rw [Int.min_eq_left h]; exact List.mem_cons_self
    · rw [Int.min_eq_right h]; exact List.mem_cons_of_mem _ ih

theorem listMax_eq_of {l : List Int} {x : Int} (hx : x ∈ l) (h : ∀ y ∈ l, y ≤ x) : listMax l = x :=
  Int.le_antisymm (h _ (listMax_mem l (List.ne_nil_of_mem hx))) (le_listMax l x hx)

theorem listMin_eq_of {l : List Int} {x : Int} (hx : x ∈ l) (h : ∀ y ∈ l, x ≤ y) : listMin l = x :=
  Int.le_antisymm (listMin_le l x hx) (h _ (listMin_mem l (List.ne_nil_of_mem hx)))

/-! ## sums -/

theorem sum_nonneg : ∀ (l : List Int), (∀ x ∈ l, 0 ≤ x) → 0 ≤ l.sum
  | [], _ => by simp
  | a :: t, h => by
    have := sum_nonneg t (fun x hx => h x (List.mem_cons_of_mem _ hx))
    have := h a List.mem_cons_self
    simp only [List.sum_cons]; omega

theorem sum_le_length_mul : ∀ (l : List Int) (M : Int), (∀ x ∈ l, x ≤ M) → l.sum ≤ l.length * M
  | [], _, _ => by simp
  | a :: t, M, h => by
    have ih := sum_le_length_mul t M (fun x hx => h x (List.mem_cons_of_mem _ hx))
    have ha := h a List.mem_cons_self
    simp only [List.sum_cons, List.length_cons]
    have : ((t.length + 1 : Nat) : Int) * M = t.length * M + M := by
      rw [Int.natCast_add, Int.add_mul]; omega
    rw [this]; omega

theorem sum_map_sub : ∀ (l : List Int) (m : Int), (l.map (· - m)).sum = l.sum - l.length * m
  | [], m => by simp
  | a :: t, m => by
    simp only [List.map_cons, List.sum_cons, List.length_cons, sum_map_sub t m]
    have : ((t.length + 1 : Nat) : Int) * m = t.length * m + m := by
      rw [Int.natCast_add, Int.add_mul]; omega
    rw [this]; omega

/-- Every sub-sum of a block of non-negative numbers lies between 0 and the block's sum: whatever
    order `np.sum` adds a leaf block in, no partial sum leaves `[0, sum]`. -/
theorem sublist_sum_bounds {s b : List Int} (hs : s.Sublist b) (h0 : ∀ x ∈ b, 0 ≤ x) :
    0 ≤ s.sum ∧ s.sum ≤ b.sum := by
  induction hs with
  | slnil => simp
  | cons a _ ih =>
    have := ih (fun x hx => h0 x (List.mem_cons_of_mem _ hx))
    have := h0 a List.mem_cons_self
    simp only [List.sum_cons]; omega
  | cons_cons a _ ih =>
    have := ih (fun x hx => h0 x (List.mem_cons_of_mem _ hx))
    have := h0 a List.mem_cons_self
    simp only [List.sum_cons]; omega

/-! ## floor division -/

theorem ediv_add_bounds (N : Int) (hN : 0 < N) (x y : Int) :
    x / N + y / N ≤ (x + y) / N ∧ (x + y) / N ≤ x / N + y / N + 1 := by
  have hx := Int.mul_ediv_add_emod x N
  have hy := Int.mul_ediv_add_emod y N
  have h1 := Int.emod_nonneg x (Int.ne_of_gt hN)
  have h2 := Int.emod_lt_of_pos x hN
  have h3 := Int.emod_nonneg y (Int.ne_of_gt hN)
  have h4 := Int.emod_lt_of_pos y hN
  have e : x + y = (x % N + y % N) + N * (x / N + y / N) := by rw [Int.mul_add]; omega
  have h5 : 0 ≤ (x % N + y % N) / N := Int.ediv_nonneg (by omega) (by omega)
  have h6 : (x % N + y % N) / N < 2 := Int.ediv_lt_of_lt_mul hN (by omega)
  have h7 : (x + y) / N = (x % N + y % N) / N + (x / N + y / N) := by
    conv => lhs; rw [e]
    exact Int.add_mul_ediv_left _ _ (Int.ne_of_gt hN)
  omega

/-! ## `_int_mean` -/

theorem intMean_node {a : List Int} {t : Int} (h : couldSumOverflow a = true ∧ 2 ≤ a.length) :
    intMean a t = intMean (a.take (a.length / 2)) t + intMean (a.drop (a.length / 2)) t := by
  rw [intMean, dif_pos h]

theorem intMean_leaf {a : List Int} {t : Int} (h : ¬(couldSumOverflow a = true ∧ 2 ≤ a.length)) :
    intMean a t = a.sum / t := by
  rw [intMean, dif_neg h]

theorem intMeanSplits_node {a : List Int} (h : couldSumOverflow a = true ∧ 2 ≤ a.length) :
    intMeanSplits a =
      intMeanSplits (a.take (a.length / 2)) + intMeanSplits (a.drop (a.length / 2)) + 1 := by
  rw [intMeanSplits, dif_pos h]

theorem intMeanSplits_leaf {a : List Int} (h : ¬(couldSumOverflow a = true ∧ 2 ≤ a.length)) :
    intMeanSplits a = 0 := by
  rw [intMeanSplits, dif_neg h]

theorem couldSumOverflow_iff (a : List Int) :
    couldSumOverflow a = true ↔ 0 < a.length ∧ I64MAX / (a.length : Int) < listMax a := by
  simp [couldSumOverflow, willMulOverflow]

/-- the partial means never exceed, and fall short of the floor of `sum/N` by at most the number of
    splits -/
theorem intMean_bounds (N : Int) (hN : 0 < N) (a : List Int) (h0 : ∀ x ∈ a, 0 ≤ x) :
    0 ≤ intMean a N ∧ intMean a N ≤ a.sum / N ∧ a.sum / N ≤ intMean a N + intMeanSplits a := by
  induction a using intMean.induct with
  | case1 a h ih1 ih2 =>
    have h1 := ih1 (fun x hx => h0 x (List.mem_of_mem_take hx))
    have h2 := ih2 (fun x hx => h0 x (List.mem_of_mem_drop hx))
    rw [intMean_node h, intMeanSplits_node h]
    have hs : a.sum = (a.take (a.length / 2)).sum + (a.drop (a.length / 2)).sum := by
      rw [← List.sum_append, List.take_append_drop]
    have := ediv_add_bounds N hN (a.take (a.length / 2)).sum (a.drop (a.length / 2)).sum
    rw [hs]
    omega
  | case2 a h =>
    rw [intMean_leaf h, intMeanSplits_leaf h]
    have := sum_nonneg a h0
    have : 0 ≤ a.sum / N := Int.ediv_nonneg this (Int.le_of_lt hN)
    omega

theorem intMeanTrace_node {a : List Int} {t : Int} (h : couldSumOverflow a = true ∧ 2 ≤ a.length) :
    intMeanTrace a t =
      intMeanTrace (a.take (a.length / 2)) t ++ intMeanTrace (a.drop (a.length / 2)) t ++
        [intMean (a.take (a.length / 2)) t + intMean (a.drop (a.length / 2)) t] := by
  rw [intMeanTrace, dif_pos h]

theorem intMeanTrace_leaf {a : List Int} {t : Int} (h : ¬(couldSumOverflow a = true ∧ 2 ≤ a.length)) :
    intMeanTrace a t = [a.sum, a.sum / t] := by
  rw [intMeanTrace, dif_neg h]

/-- a block the conservative test lets through really has a sum inside int64 -/
theorem leaf_sum_le (a : List Int) (M : Int) (hM : M ≤ I64MAX) (hb : ∀ x ∈ a, 0 ≤ x ∧ x ≤ M)
    (h : ¬(couldSumOverflow a = true ∧ 2 ≤ a.length)) : a.sum ≤ I64MAX := by
  by_cases hc : couldSumOverflow a = true
  · have hl : a.length < 2 := by
      rcases Nat.lt_or_ge a.length 2 with h' | h'
      · exact h'
      · exact absurd ⟨hc, h'⟩ h
    match a, hl, hb with
    | [], _, _ => simp [I64MAX]
    | [x], _, hb => have := (hb x (by simp)).2; simp; omega
  · rw [couldSumOverflow_iff] at hc
    by_cases hl : 0 < a.length
    · have hmax : listMax a ≤ I64MAX / (a.length : Int) := by
        by_cases h' : I64MAX / (a.length : Int) < listMax a
        · exact absurd ⟨hl, h'⟩ hc
        · omega
      have h1 := sum_le_length_mul a (listMax a) (fun x hx => le_listMax a x hx)
      have h2 : (a.length : Int) * listMax a ≤ (a.length : Int) * (I64MAX / (a.length : Int)) :=
        Int.mul_le_mul_of_nonneg_left hmax (by omega)
      have h3 : (a.length : Int) * (I64MAX / (a.length : Int)) ≤ I64MAX :=
        Int.mul_ediv_self_le (by omega)
      omega
    · have : a = [] := List.eq_nil_of_length_eq_zero (by omega)
      subst this; simp [I64MAX]

/-- every integer `_int_mean` computes for a sub-block of an array of `N` values in `[0, M]`,
    `M ≤ int64 max`, lies in `[0, int64 max]` -/
theorem intMeanTrace_bounds (N : Int) (M : Int) (hM : M ≤ I64MAX) (a : List Int)
    (hb : ∀ x ∈ a, 0 ≤ x ∧ x ≤ M) (hl : (a.length : Int) ≤ N) (hN : 0 < N) :
    ∀ y ∈ intMeanTrace a N, 0 ≤ y ∧ y ≤ I64MAX := by
  induction a using intMean.induct with
  | case1 a h ih1 ih2 =>
    have hbt : ∀ x ∈ a.take (a.length / 2), 0 ≤ x ∧ x ≤ M := fun x hx => hb x (List.mem_of_mem_take hx)
    have hbd : ∀ x ∈ a.drop (a.length / 2), 0 ≤ x ∧ x ≤ M := fun x hx => hb x (List.mem_of_mem_drop hx)
    have h1 := ih1 hbt (by simp only [List.length_take]; omega)
    have h2 := ih2 hbd (by simp only [List.length_drop]; omega)
    rw [intMeanTrace_node h]
    intro y hy
    simp only [List.mem_append, List.mem_singleton] at hy
    rcases hy with (hy | hy) | hy
    · exact h1 y hy
    · exact h2 y hy
    · subst hy
      have b1 := intMean_bounds N hN _ (fun x hx => (hbt x hx).1)
      have b2 := intMean_bounds N hN _ (fun x hx => (hbd x hx).1)
      have hs : a.sum = (a.take (a.length / 2)).sum + (a.drop (a.length / 2)).sum := by
        rw [← List.sum_append, List.take_append_drop]
      have b3 := ediv_add_bounds N hN (a.take (a.length / 2)).sum (a.drop (a.length / 2)).sum
      rw [← hs] at b3
      -- a.sum / N ≤ M
      have hM0 : 0 ≤ M := by
        match a, h.2, hb with
        | x :: _, _, hb => have := hb x List.mem_cons_self; omega
      have h4 := sum_le_length_mul a M (fun x hx => (hb x hx).2)
      have h5 : (a.length : Int) * M ≤ N * M := Int.mul_le_mul_of_nonneg_right hl hM0
      have h6 : a.sum / N ≤ M := Int.ediv_le_of_le_mul hN (by have := Int.mul_comm N M; omega)
      omega
  | case2 a h =>
    rw [intMeanTrace_leaf h]
    intro y hy
    have hs0 := sum_nonneg a (fun x hx => (hb x hx).1)
    have hs1 := leaf_sum_le a M hM hb h
    simp only [List.mem_cons, List.not_mem_nil, or_false] at hy
    rcases hy with hy | hy
    · subst hy; exact ⟨hs0, hs1⟩
    · subst hy
      have : 0 ≤ a.sum / N := Int.ediv_nonneg hs0 (Int.le_of_lt hN)
      have : a.sum / N ≤ a.sum := Int.ediv_le_self _ hs0
      omega

/-- shifted values -/
theorem shifted_bounds (a : List Int) :
    ∀ y ∈ a.map (· - listMin a), 0 ≤ y ∧ y ≤ listMax a - listMin a := by
  intro y hy
  rcases List.mem_map.mp hy with ⟨x, hx, rfl⟩
  have := listMin_le a x hx
  have := le_listMax a x hx
  omega

/-! ## rows, padding, transposition as index functions -/

theorem takeRows_eq_map_range {α} (k : Nat) : ∀ (m : Nat) (l : List α),
    takeRows k m l = (List.range m).map fun i => (l.drop (i * k)).take k
  | 0, _ => rfl
  | m + 1, l => by
    rw [takeRows, takeRows_eq_map_range k m (l.drop k), List.range_succ_eq_map, List.map_cons,
      List.map_map]
    congr 1
    · simp
    · apply List.map_congr_left
      intro i _
      simp only [Function.comp, List.drop_drop]
      have : k + i * k = (i + 1) * k := by rw [Nat.add_mul]; omega
      rw [this]

theorem getD_map_range (f : Nat → Int) (n c : Nat) (h : c < n) :
    ((List.range n).map f).getD c 0 = f c := by
  simp [List.getD_eq_getElem?_getD, h]

theorem getD_map_range_list {α} (f : Nat → List α) (n c : Nat) (h : c < n) :
    ((List.range n).map f).getD c [] = f c := by
  simp [List.getD_eq_getElem?_getD, h]

theorem getD_take_drop (l : List Int) (s n r : Nat) (h : r < n) :
    ((l.drop s).take n).getD r 0 = l.getD (s + r) 0 := by
  simp [List.getD_eq_getElem?_getD, h]

theorem getD_append_zeros (pix : List Int) (z i : Nat) :
    (pix ++ List.replicate z 0).getD i 0 = pix.getD i 0 := by
  simp only [List.getD_eq_getElem?_getD]
  by_cases h : i < pix.length
  · rw [List.getElem?_append_left h]
  · rw [List.getElem?_append_right (by omega), List.getElem?_eq_none (l := pix) (by omega)]
    simp only [List.getElem?_replicate]
    split <;> rfl

theorem numBlocks_mul_ge (size n : Nat) (hn : 0 < n) : size ≤ numBlocks size n * n := by
  unfold numBlocks
  have := Nat.div_add_mod (size + n - 1) n
  have := Nat.mod_lt (size + n - 1) hn
  have e : (size + n - 1) / n * n = n * ((size + n - 1) / n) := Nat.mul_comm _ _
  omega

theorem lt_numBlocks_iff (size n l : Nat) (hn : 0 < n) : l < numBlocks size n ↔ l * n < size := by
  unfold numBlocks
  rw [Nat.lt_div_iff_mul_lt hn]
  constructor <;> intro h <;> omega

/-- row `ℓ`, column `r` of the zero-padded reshape is pixel `ℓ·n + r` (0 past the end) -/
theorem padRows_eq (n : Nat) (pix : List Int) :
    padRows n pix = (List.range (numBlocks pix.length n)).map fun l =>
      (List.range n).map fun r => pix.getD (l * n + r) 0 := by
  unfold padRows
  rw [takeRows_eq_map_range]
  apply List.map_congr_left
  intro l hl
  have hl := List.mem_range.mp hl
  apply List.ext_getElem?
  intro r
  by_cases hr : r < n
  · have hlen : l * n + n ≤ (pix ++ List.replicate (numBlocks pix.length n * n - pix.length) 0).length := by
      by_cases hn : 0 < n
      · have := numBlocks_mul_ge pix.length n hn
        simp only [List.length_append, List.length_replicate]
        have : (l + 1) * n ≤ numBlocks pix.length n * n := Nat.mul_le_mul_right _ (by omega)
        rw [Nat.add_mul] at this
        omega
      · omega
    have h1 := getD_take_drop (pix ++ List.replicate (numBlocks pix.length n * n - pix.length) 0) (l * n) n r hr
    rw [getD_append_zeros] at h1
    simp only [List.getD_eq_getElem?_getD] at h1
    rw [List.getElem?_map, List.getElem?_range hr]
    simp only [Option.map_some]
    rw [List.getD_eq_getElem?_getD, ← h1]
    have : r < (List.take n (List.drop (l * n) (pix ++ List.replicate (numBlocks pix.length n * n - pix.length) 0))).length := by
      simp only [List.length_take, List.length_drop]; omega
    rw [List.getElem?_eq_getElem this]
    simp
  · rw [List.getElem?_eq_none (by simp only [List.length_take]; omega),
      List.getElem?_eq_none (by simp; omega)]

theorem transposeN_head (n : Nat) (hn : 0 < n) (rows : List (List Int)) :
    (transposeN n rows).headD [] = rows.map fun row => row.getD 0 0 := by
  unfold transposeN
  match n, hn with
  | n + 1, _ => rw [List.range_succ_eq_map]; rfl

/-- first row of the kymograph image: the first pixel of every line -/
theorem kymoImage_row0 (P : Nat) (hP : 0 < P) (pix : List Int) :
    (kymoImage P pix).headD [] =
      (List.range (numBlocks pix.length P)).map fun l => pix.getD (l * P) 0 := by
  unfold kymoImage
  rw [transposeN_head P hP, padRows_eq, List.map_map]
  apply List.map_congr_left
  intro l _
  simp only [Function.comp]
  rw [getD_map_range _ _ _ hP]
  simp

/-- column maxima of the kymograph image: the maximum over the `P` (zero-padded) pixels of a line -/
theorem kymoImage_colMax (P : Nat) (pix : List Int) :
    colMax (kymoImage P pix) (numBlocks pix.length P) =
      (List.range (numBlocks pix.length P)).map fun l =>
        listMax ((List.range P).map fun r => pix.getD (l * P + r) 0) := by
  unfold colMax kymoImage transposeN
  apply List.map_congr_left
  intro l hl
  have hl := List.mem_range.mp hl
  congr 1
  rw [List.map_map]
  apply List.map_congr_left
  intro r hr
  have hr := List.mem_range.mp hr
  simp only [Function.comp]
  rw [padRows_eq, List.map_map]
  rw [getD_map_range _ _ _ hl]
  simp only [Function.comp]
  rw [getD_map_range _ _ _ hr]

/-! ## the used-sample stream is increasing -/

/-- `Sep δ key l`: consecutive (hence all) keys are at least `δ` apart, in order -/
def Sep {β} (δ : Int) (key : β → Int) (l : List β) : Prop :=
  l.Pairwise fun x y => key x + δ ≤ key y

theorem usedOf_sublist {α} : ∀ (iw : List Nat) (xs : List α), (usedOf iw xs).Sublist xs
  | [], xs => by simp [usedOf]
  | _ :: _, [] => by simp [usedOf]
  | c :: cs, x :: xs => by
    simp only [usedOf]
    split
    · exact List.Sublist.cons _ (usedOf_sublist cs xs)
    · exact List.Sublist.cons_cons _ (usedOf_sublist cs xs)

theorem usedOf_map {α β} (f : α → β) : ∀ (iw : List Nat) (xs : List α),
    (usedOf iw xs).map f = usedOf iw (xs.map f)
  | [], xs => by simp [usedOf]
  | _ :: _, [] => by simp [usedOf]
  | c :: cs, x :: xs => by
    simp only [usedOf, List.map_cons]
    split <;> simp [usedOf_map f cs xs]

theorem times_sep (dt : Int) (hdt : 0 < dt) : ∀ (n : Nat) (t0 : Int),
    Sep dt id (times t0 dt n) ∧ ∀ y ∈ times t0 dt n, t0 ≤ y
  | 0, _ => by simp [times, Sep]
  | n + 1, t0 => by
    have ih := times_sep dt hdt n (t0 + dt)
    constructor
    · simp only [times, Sep, List.pairwise_cons, id]
      exact ⟨fun y hy => ih.2 y hy, ih.1⟩
    · intro y hy
      simp only [times, List.mem_cons] at hy
      rcases hy with hy | hy
      · omega
      · have := ih.2 y hy; omega

theorem Sep.sublist {β} {δ : Int} {key : β → Int} {l l' : List β} (h : Sep δ key l)
    (hs : l'.Sublist l) : Sep δ key l' := List.Pairwise.sublist hs h

theorem Sep.getElem_lt {β} {δ : Int} {key : β → Int} {l : List β} (h : Sep δ key l)
    {i j : Nat} (hj : j < l.length) (hij : i < j) :
    key (l[i]'(by omega)) + δ ≤ key l[j] :=
  (List.pairwise_iff_getElem.mp h) i j (by omega) hj hij

theorem Sep.getElem_le {β} {δ : Int} {key : β → Int} {l : List β} (h : Sep δ key l) (hδ : 0 ≤ δ)
    {i j : Nat} (hj : j < l.length) (hij : i ≤ j) :
    key (l[i]'(by omega)) ≤ key l[j] := by
  rcases Nat.lt_or_ge i j with h' | h'
  · have := h.getElem_lt hj h'; omega
  · have : i = j := by omega
    subst this; exact Int.le_refl _

/-- The heart of the range theorems: in a stream whose keys are `δ`-separated, the window
    `[key l[a], key l[b] + δ)` selects exactly the elements `a … b`. -/
theorem filter_window {β} (δ : Int) (hδ : 1 ≤ δ) (key : β → Int) (l : List β) (h : Sep δ key l)
    (a b : Nat) (hab : a ≤ b) (hb : b < l.length) (lo hi : Int)
    (hlo : lo = key (l[a]'(by omega))) (hhi : hi = key l[b]) :
    l.filter (fun s => decide (lo ≤ key s) && decide (key s < hi + δ))
      = (l.drop a).take (b + 1 - a) := by
  have hsplit : l = l.take a ++ ((l.drop a).take (b + 1 - a) ++ (l.drop a).drop (b + 1 - a)) := by
    rw [List.take_append_drop, List.take_append_drop]
  conv => lhs; rw [hsplit]
  rw [List.filter_append, List.filter_append]
  have h1 : (l.take a).filter (fun s => decide (lo ≤ key s) && decide (key s < hi + δ)) = [] := by
    rw [List.filter_eq_nil_iff]
    intro x hx
    rcases List.mem_take_iff_getElem.mp hx with ⟨i, hi, rfl⟩
    have := h.getElem_lt (i := i) (j := a) (by omega) (by omega)
    simp only [Bool.and_eq_true, decide_eq_true_eq, not_and]
    intro; omega
  have h2 : ((l.drop a).take (b + 1 - a)).filter (fun s => decide (lo ≤ key s) && decide (key s < hi + δ)) = (l.drop a).take (b + 1 - a) := by
    rw [List.filter_eq_self]
    intro x hx
    rcases List.mem_take_iff_getElem.mp hx with ⟨i, hi, rfl⟩
    simp only [List.length_drop] at hi
    simp only [List.getElem_drop]
    have g1 := h.getElem_le (by omega) (i := a) (j := a + i) (by omega) (by omega)
    have g2 := h.getElem_le (by omega) (i := a + i) (j := b) (by omega) (by omega)
    simp only [Bool.and_eq_true, decide_eq_true_eq]
    omega
  have h3 : ((l.drop a).drop (b + 1 - a)).filter (fun s => decide (lo ≤ key s) && decide (key s < hi + δ)) = [] := by
    rw [List.filter_eq_nil_iff]
    intro x hx
    rw [List.drop_drop] at hx
    rcases List.mem_drop_iff_getElem.mp hx with ⟨i, hi, rfl⟩
    have := h.getElem_lt (i := b) (j := a + (b + 1 - a) + i) (by omega) (by omega)
    simp only [Bool.and_eq_true, decide_eq_true_eq, not_and]
    intro; omega
  rw [h1, h2, h3]; simp

theorem usedTs_sep (w : Wave) (hdt : 0 < w.dt) : Sep w.dt id w.usedTs :=
  (times_sep w.dt hdt _ _).1.sublist (usedOf_sublist _ _)

theorem usedTs_ge (w : Wave) (hdt : 0 < w.dt) : ∀ y ∈ w.usedTs, w.start ≤ y := fun y hy =>
  (times_sep w.dt hdt _ _).2 y ((usedOf_sublist _ _).subset hy)

/-! ## pixels of an increasing stream -/

theorem getD_eq (l : List Int) (i : Nat) (h : i < l.length) : l.getD i 0 = l[i] := by
  simp [List.getD_eq_getElem?_getD, h]

theorem row_min_max (U : List Int) (δ : Int) (hδ : 0 ≤ δ) (hsep : Sep δ id U) (k j : Nat) (hk : 0 < k)
    (hj : j * k + k ≤ U.length) :
    listMin ((U.drop (j * k)).take k) = U.getD (j * k) 0 ∧
      listMax ((U.drop (j * k)).take k) = U.getD (j * k + k - 1) 0 := by
  rw [getD_eq _ _ (by omega), getD_eq _ _ (by omega)]
  constructor
  · apply listMin_eq_of
    · rw [List.mem_take_iff_getElem]
      exact ⟨0, by simp only [List.length_drop]; omega, by simp⟩
    · intro y hy
      rcases List.mem_take_iff_getElem.mp hy with ⟨i, hi, rfl⟩
      simp only [List.length_drop] at hi
      simp only [List.getElem_drop]
      exact hsep.getElem_le hδ (by omega) (by omega)
  · apply listMax_eq_of
    · rw [List.mem_take_iff_getElem]
      refine ⟨k - 1, by simp only [List.length_drop]; omega, ?_⟩
      simp only [List.getElem_drop]
      congr 1; omega
    · intro y hy
      rcases List.mem_take_iff_getElem.mp hy with ⟨i, hi, rfl⟩
      simp only [List.length_drop] at hi
      simp only [List.getElem_drop]
      exact hsep.getElem_le hδ (by omega) (by omega)

theorem rowsOf_eq {α} (k : Nat) (l : List α) :
    rowsOf k l = (List.range (l.length / k)).map fun j => (l.drop (j * k)).take k :=
  takeRows_eq_map_range k _ l

theorem pixelSize_pos (w : Wave) (k : Nat) (h : w.pixelSize = some k) : 0 < k := by
  unfold Wave.pixelSize at h
  cases h' : argmaxFirst (w.subset.map Int.ofNat) with
  | none => rw [h'] at h; cases h
  | some i => rw [h'] at h; simp at h; omega

theorem mul_succ_le_of_lt_div (j k n : Nat) (hk : 0 < k) (h : j < n / k) : j * k + k ≤ n := by
  have h1 : (j + 1) * k ≤ (n / k) * k := Nat.mul_le_mul_right _ (by omega)
  have h2 := Nat.div_mul_le_self n k
  rw [Nat.add_mul] at h1
  omega

/-- the per-pixel minima / maxima, as index functions of the used-sample stream -/
theorem pixReduce_min (w : Wave) (hdt : 0 < w.dt) (k : Nat) (hk : w.pixelSize = some k) :
    w.pixReduce listMin = some ((List.range (w.usedTs.length / k)).map fun j => w.usedTs.getD (j * k) 0) := by
  unfold Wave.pixReduce Wave.pixelRows
  rw [hk]
  simp only [Option.map_some, rowsOf_eq, List.map_map, Option.some.injEq]
  apply List.map_congr_left
  intro j hj
  have hj := List.mem_range.mp hj
  have hk0 := pixelSize_pos w k hk
  exact (row_min_max w.usedTs w.dt (by omega) (usedTs_sep w hdt) k j hk0
    (mul_succ_le_of_lt_div _ _ _ hk0 hj)).1

theorem pixReduce_max (w : Wave) (hdt : 0 < w.dt) (k : Nat) (hk : w.pixelSize = some k) :
    w.pixReduce listMax =
      some ((List.range (w.usedTs.length / k)).map fun j => w.usedTs.getD (j * k + k - 1) 0) := by
  unfold Wave.pixReduce Wave.pixelRows
  rw [hk]
  simp only [Option.map_some, rowsOf_eq, List.map_map, Option.some.injEq]
  apply List.map_congr_left
  intro j hj
  have hj := List.mem_range.mp hj
  have hk0 := pixelSize_pos w k hk
  exact (row_min_max w.usedTs w.dt (by omega) (usedTs_sep w hdt) k j hk0
    (mul_succ_le_of_lt_div _ _ _ hk0 hj)).2

/-- maximum over the `P` zero-padded pixel maxima of block `l` = the last used sample of the last
    complete pixel of the block -/
theorem block_max (U : List Int) (δ : Int) (hδ : 0 ≤ δ) (hsep : Sep δ id U) (h0 : ∀ y ∈ U, 0 ≤ y)
    (k P l : Nat) (hk : 0 < k) (hP : 0 < P) (hl : l * P < U.length / k) :
    listMax ((List.range P).map fun r =>
        ((List.range (U.length / k)).map fun j => U.getD (j * k + k - 1) 0).getD (l * P + r) 0)
      = U.getD (min ((l + 1) * P) (U.length / k) * k - 1) 0 := by
  have hm : ∀ j, j < U.length / k → j * k + k ≤ U.length := fun j hj =>
    mul_succ_le_of_lt_div _ _ _ hk hj
  -- the index of the last complete pixel of the block
  have hP1 : (l + 1) * P = l * P + P := by rw [Nat.add_mul]; omega
  have hjl : l * P ≤ min ((l + 1) * P) (U.length / k) - 1 := by omega
  have hjm : min ((l + 1) * P) (U.length / k) - 1 < U.length / k := by omega
  have hlast : (min ((l + 1) * P) (U.length / k) - 1) * k + k - 1
      = min ((l + 1) * P) (U.length / k) * k - 1 := by
    have : (min ((l + 1) * P) (U.length / k) - 1 + 1) * k = min ((l + 1) * P) (U.length / k) * k := by
      congr 1; omega
    rw [Nat.add_mul] at this
    omega
  have hb := hm _ hjm
  apply listMax_eq_of
  · rw [List.mem_map]
    refine ⟨min ((l + 1) * P) (U.length / k) - 1 - l * P, List.mem_range.mpr (by omega), ?_⟩
    have : l * P + (min ((l + 1) * P) (U.length / k) - 1 - l * P) = min ((l + 1) * P) (U.length / k) - 1 := by
      omega
    rw [this, getD_map_range _ _ _ hjm, hlast]
  · intro y hy
    rcases List.mem_map.mp hy with ⟨r, hr, rfl⟩
    have hr := List.mem_range.mp hr
    rw [getD_eq U _ (by omega)]
    by_cases hj : l * P + r < U.length / k
    · rw [getD_map_range _ _ _ hj]
      have hb' := hm _ hj
      rw [getD_eq U _ (by omega)]
      apply hsep.getElem_le hδ (by omega)
      have : (l * P + r + 1) * k ≤ min ((l + 1) * P) (U.length / k) * k :=
        Nat.mul_le_mul_right _ (by omega)
      rw [Nat.add_mul] at this
      omega
    · rw [List.getD_eq_getElem?_getD, List.getElem?_eq_none (by simp; omega)]
      exact h0 _ (List.getElem_mem _)

/-! ## the reported ranges as index functions of the used-sample stream -/

/-- number of complete pixels -/
def Wave.numPix (w : Wave) (k : Nat) : Nat := w.usedTs.length / k

/-- `line_timestamp_ranges()` (dead time excluded): line `l` runs from the first used sample of its
    first pixel to `δ` past the last used sample of its last complete pixel. -/
theorem lineRangesExcl_spec (w : Wave) (hdt : 0 < w.dt) (hs : 0 ≤ w.start) (k : Nat)
    (hk : w.pixelSize = some k) (P : Nat) (hP : 0 < P) (δ : Int) :
    w.lineRangesExcl P δ = some ((List.range (numBlocks (w.numPix k) P)).map fun l =>
      (w.usedTs.getD (l * P * k) 0,
        w.usedTs.getD (min ((l + 1) * P) (w.numPix k) * k - 1) 0 + δ)) := by
  have hk0 := pixelSize_pos w k hk
  unfold Wave.lineRangesExcl
  rw [pixReduce_min w hdt k hk, pixReduce_max w hdt k hk]
  simp only []
  rw [kymoImage_row0 P hP, kymoImage_colMax]
  simp only [List.length_map, List.length_range, List.map_map]
  rw [List.zip_map']
  simp only [Option.some.injEq]
  unfold Wave.numPix
  apply List.map_congr_left
  intro l hl
  have hl := (lt_numBlocks_iff _ _ _ hP).mp (List.mem_range.mp hl)
  simp only [Function.comp, Prod.mk.injEq]
  constructor
  · rw [getD_map_range _ _ _ hl]
  · rw [block_max w.usedTs w.dt (by omega) (usedTs_sep w hdt)
      (fun y hy => by have := usedTs_ge w hdt y hy; omega) k P l hk0 hP hl]

theorem Sep.mono {β} {δ δ' : Int} {key : β → Int} {l : List β} (h : Sep δ key l) (hle : δ' ≤ δ) :
    Sep δ' key l := List.Pairwise.imp (fun {a b} hab => by omega) h

/-- the samples of block `l` (a line of `P` pixels, a frame of `L·P` pixels), by position in the
    stream of used samples: the specification the reported ranges are measured against -/
def blockSamples {β} (U : List β) (k P l : Nat) : List β :=
  (((U.take (U.length / k * k)).drop (l * P * k)).take (P * k))

theorem blockSamples_eq {β} (U : List β) (k P l : Nat) (hk : 0 < k) (hP : 0 < P)
    (hl : l * P < U.length / k) :
    blockSamples U k P l =
      (U.drop (l * P * k)).take (min ((l + 1) * P) (U.length / k) * k - 1 + 1 - l * P * k) := by
  unfold blockSamples
  rw [List.drop_take, List.take_take]
  congr 1
  have hP1 : (l + 1) * P = l * P + P := by rw [Nat.add_mul]; omega
  have hAB : (l + 1) * P * k = l * P * k + P * k := by rw [hP1, Nat.add_mul]
  have hPk : k ≤ P * k := Nat.le_mul_of_pos_left k hP
  have hlk : l * P * k + k ≤ U.length / k * k := by
    have : (l * P + 1) * k ≤ U.length / k * k := Nat.mul_le_mul_right _ (by omega)
    rw [Nat.add_mul] at this; omega
  rcases Nat.le_total ((l + 1) * P) (U.length / k) with h | h
  · rw [Nat.min_eq_left h]
    have : (l + 1) * P * k ≤ U.length / k * k := Nat.mul_le_mul_right _ h
    omega
  · rw [Nat.min_eq_right h]
    have : U.length / k * k ≤ (l + 1) * P * k := Nat.mul_le_mul_right _ h
    omega

theorem Sep.of_lt {δ : Int} (hδ : 0 < δ) {l : List Int} (h : Sep δ id l) {x y : Int}
    (hx : x ∈ l) (hy : y ∈ l) (hxy : x < y) : x + δ ≤ y := by
  rcases List.getElem_of_mem hx with ⟨i, hi, rfl⟩
  rcases List.getElem_of_mem hy with ⟨j, hj, rfl⟩
  rcases Nat.lt_trichotomy i j with hij | hij | hij
  · exact h.getElem_lt hj hij
  · subst hij; omega
  · have := h.getElem_lt hi hij
    simp only [id] at this
    omega

/-- a sublist of a list without repetitions is the filter of the list by membership -/
theorem sublist_eq_filter_mem {δ : Int} (hδ : 0 < δ) {l l' : List Int} (hsep : Sep δ id l)
    (hs : l'.Sublist l) : l' = l.filter (fun t => decide (t ∈ l')) := by
  induction hs with
  | slnil => simp
  | @cons l₁ l₂ a hs ih =>
    have hsep' : Sep δ id l₂ := (List.pairwise_cons.mp hsep).2
    have ha : a ∉ l₁ := by
      intro hmem
      have := (List.pairwise_cons.mp hsep).1 a (hs.subset hmem)
      simp only [id] at this; omega
    rw [List.filter_cons, if_neg (by simpa using ha)]
    exact ih hsep'
  | @cons_cons l₁ l₂ a hs ih =>
    have hsep' : Sep δ id l₂ := (List.pairwise_cons.mp hsep).2
    rw [List.filter_cons, if_pos (by simp)]
    congr 1
    have ih := ih hsep'
    conv => lhs; rw [ih]
    apply List.filter_congr
    intro x hx
    have hne : x ≠ a := by
      intro h; subst h
      have := (List.pairwise_cons.mp hsep).1 x hx
      simp only [id] at this; omega
    simp [hne]

theorem allTs_sep (w : Wave) (hdt : 0 < w.dt) : Sep w.dt id w.allTs := (times_sep w.dt hdt _ _).1

theorem usedTs_sublist (w : Wave) : w.usedTs.Sublist w.allTs := usedOf_sublist _ _

/-! ## frames -/

theorem padRows_length (n : Nat) (pix : List Int) : (padRows n pix).length = numBlocks pix.length n := by
  rw [padRows_eq]; simp

theorem padRows_single_flatten (n : Nat) (pix : List Int) (h : numBlocks pix.length n = 1) :
    (padRows n pix).flatten = (List.range n).map fun r => pix.getD r 0 := by
  rw [padRows_eq, h]
  simp [List.range_succ_eq_map]

/-- with one (possibly incomplete) frame the repaired single-frame formula is the line formula with
    `L·P` pixels per block; with several frames the code uses that formula anyway -/
theorem frameRanges_excl (w : Wave) (hdt : 0 < w.dt) (hs : 0 ≤ w.start) (k : Nat)
    (hk : w.pixelSize = some k) (P L : Nat) (hPL : 0 < L * P) (δ : Int) :
    w.frameRanges P L false δ = (w.lineRangesExcl (L * P) δ).map some := by
  have hk0 := pixelSize_pos w k hk
  unfold Wave.frameRanges
  rw [pixReduce_min w hdt k hk, pixReduce_max w hdt k hk]
  simp only [padRows_length, List.length_map, List.length_range]
  by_cases h1 : numBlocks (w.usedTs.length / k) (L * P) = 1
  · rw [if_pos h1, lineRangesExcl_spec w hdt hs k hk (L * P) hPL δ]
    unfold Wave.numPix
    rw [h1]
    have h0 : 0 * (L * P) < w.usedTs.length / k := (lt_numBlocks_iff _ _ _ hPL).mp (by omega)
    have hb := block_max w.usedTs w.dt (by omega) (usedTs_sep w hdt)
      (fun y hy => by have := usedTs_ge w hdt y hy; omega) k (L * P) 0 hk0 hPL h0
    rw [padRows_single_flatten _ _ (by simpa using h1), padRows_single_flatten _ _ (by simpa using h1)]
    simp only [Nat.zero_mul, Nat.zero_add] at hb h0
    rw [hb]
    match hn : L * P, hPL with
    | n + 1, _ =>
      simp only [List.range_succ_eq_map, List.map_cons, List.headD_cons, Option.map_some]
      rw [getD_map_range _ _ _ h0]
      simp
  · rw [if_neg h1]; simp

theorem frameRanges_incl_multi (w : Wave) (k : Nat) (hdt : 0 < w.dt)
    (hk : w.pixelSize = some k) (P L : Nat) (δ : Int)
    (h1 : numBlocks (w.usedTs.length / k) (L * P) ≠ 1) :
    w.frameRanges P L true δ = w.lineRangesIncl (L * P) := by
  unfold Wave.frameRanges
  rw [pixReduce_min w hdt k hk, pixReduce_max w hdt k hk]
  simp only [padRows_length, List.length_map, List.length_range]
  rw [if_neg h1]; simp

/-- the pinned single-frame start (`np.min` over the zero-padded frame) is the repaired one unless
    the only frame is incomplete -/
theorem framePinned_eq (w : Wave) (hdt : 0 < w.dt) (k : Nat)
    (hk : w.pixelSize = some k) (P L : Nat) (hPL : 0 < L * P) (incl : Bool) (δ : Int)
    (h : numBlocks (w.usedTs.length / k) (L * P) ≠ 1 ∨ w.usedTs.length / k = L * P) :
    w.frameRangesPinned P L incl δ = w.frameRanges P L incl δ := by
  have hk0 := pixelSize_pos w k hk
  unfold Wave.frameRangesPinned Wave.frameRanges
  rw [pixReduce_min w hdt k hk, pixReduce_max w hdt k hk]
  simp only [padRows_length, List.length_map, List.length_range]
  by_cases h1 : numBlocks (w.usedTs.length / k) (L * P) = 1
  · rw [if_pos h1, if_pos h1]
    have hm : w.usedTs.length / k = L * P := by
      rcases h with h | h
      · exact absurd h1 h
      · exact h
    rw [padRows_single_flatten _ _ (by simpa using h1)]
    congr 4
    match hn : L * P, hPL with
    | n + 1, _ =>
      have hsep := usedTs_sep w hdt
      have h0 : 0 < w.usedTs.length / k := by omega
      have hb0 := mul_succ_le_of_lt_div _ _ _ hk0 h0
      apply listMin_eq_of
      · simp [List.range_succ_eq_map]
      · intro y hy
        rcases List.mem_map.mp hy with ⟨r, hr, rfl⟩
        have hr := List.mem_range.mp hr
        simp only [List.range_succ_eq_map, List.map_cons, List.headD_cons]
        rw [getD_map_range _ _ _ h0, getD_map_range _ _ _ (by omega)]
        have hbr := mul_succ_le_of_lt_div r k w.usedTs.length hk0 (by omega)
        rw [getD_eq _ _ (by omega), getD_eq _ _ (by omega)]
        exact hsep.getElem_le (by omega) (by omega) (by simp)
  · rw [if_neg h1, if_neg h1]

/-! ## dead time included -/

theorem lineRangesIncl_spec (w : Wave) (hdt : 0 < w.dt) (k : Nat)
    (hk : w.pixelSize = some k) (P : Nat) (hP : 0 < P) :
    w.lineRangesIncl P = some (
      if 2 ≤ numBlocks (w.usedTs.length / k) P then
        some ((List.range (numBlocks (w.usedTs.length / k) P)).map fun l =>
          (w.usedTs.getD (l * P * k) 0,
            w.usedTs.getD (l * P * k) 0 + (w.usedTs.getD (1 * P * k) 0 - w.usedTs.getD (0 * P * k) 0)))
      else none) := by
  unfold Wave.lineRangesIncl
  rw [pixReduce_min w hdt k hk]
  simp only [kymoImage_row0 P hP, List.length_map, List.length_range]
  have hrow : ((List.range (numBlocks (w.usedTs.length / k) P)).map fun l =>
      ((List.range (w.usedTs.length / k)).map fun j => w.usedTs.getD (j * k) 0).getD (l * P) 0)
      = (List.range (numBlocks (w.usedTs.length / k) P)).map fun l => w.usedTs.getD (l * P * k) 0 := by
    apply List.map_congr_left
    intro l hl
    have hl := (lt_numBlocks_iff _ _ _ hP).mp (List.mem_range.mp hl)
    rw [getD_map_range _ _ _ hl]
  rw [hrow]
  match hn : numBlocks (w.usedTs.length / k) P with
  | 0 => simp
  | 1 => simp [List.range_succ_eq_map]
  | n + 2 =>
    simp only [List.range_succ_eq_map, List.map_cons, List.map_map]
    simp

/-! ## timing encoded in the info wave -/

theorem findIdx_append_false {α} (p : α → Bool) (A B : List α) (h : ∀ x ∈ A, p x = false) :
    (A ++ B).findIdx p = A.length + B.findIdx p := by
  induction A with
  | nil => simp
  | cons a t ih =>
    have ha := h a (by simp)
    have := ih (fun x hx => h x (List.mem_cons_of_mem _ hx))
    simp only [List.cons_append, List.findIdx_cons, ha, cond_false, this, List.length_cons]
    omega

theorem argmaxBool_append (p : Nat → Bool) (A : List Nat) (b : Nat) (B : List Nat)
    (h : ∀ x ∈ A, p x = false) (hb : p b = true) : argmaxBool p (A ++ b :: B) = A.length := by
  unfold argmaxBool
  rw [findIdx_append_false p A (b :: B) h]
  simp [List.findIdx_cons, hb]

/-- a pixel of `k` used samples: `k − 1` ones and the boundary code -/
def pixelCodes (k : Nat) : List Nat := List.replicate (k - 1) 1 ++ [2]

theorem pixelCodes_cons (k : Nat) (tail : List Nat) :
    ∃ c t, pixelCodes k ++ tail = c :: t ∧ c ≠ 0 := by
  unfold pixelCodes
  cases k - 1 with
  | zero => exact ⟨2, tail, by simp, by decide⟩
  | succ n => exact ⟨1, List.replicate n 1 ++ [2] ++ tail, by simp [List.replicate_succ], by decide⟩

theorem firstPixelIdx_regular (lead k : Nat) (hk : 0 < k) (tail : List Nat) :
    firstPixelIdx (List.replicate lead 0 ++ (pixelCodes k ++ tail)) = some (lead, lead + k - 1) := by
  have h2 : argmaxBool (· == 2) (List.replicate lead 0 ++ (pixelCodes k ++ tail)) = lead + (k - 1) := by
    have : List.replicate lead 0 ++ (pixelCodes k ++ tail)
        = (List.replicate lead 0 ++ List.replicate (k - 1) 1) ++ 2 :: tail := by
      simp [pixelCodes]
    rw [this, argmaxBool_append _ _ _ _ _ (by rfl)]
    · simp
    · intro x hx
      rcases List.mem_append.mp hx with hx | hx
      · rw [(List.mem_replicate.mp hx).2]; rfl
      · rw [(List.mem_replicate.mp hx).2]; rfl
  have h0 : argmaxBool (· != 0) (List.replicate lead 0 ++ (pixelCodes k ++ tail)) = lead := by
    rcases pixelCodes_cons k tail with ⟨c, t, hc, hc0⟩
    rw [hc, argmaxBool_append _ _ _ _ _ (by simpa using hc0)]
    · simp
    · intro x hx; rw [(List.mem_replicate.mp hx).2]; rfl
  unfold firstPixelIdx
  have hne : List.replicate lead 0 ++ (pixelCodes k ++ tail) ≠ [] := by
    simp [pixelCodes]
  rw [if_neg hne]
  simp only [h2, h0]
  have hget : (List.replicate lead 0 ++ (pixelCodes k ++ tail)).getD (lead + (k - 1)) 0 = 2 := by
    have : List.replicate lead 0 ++ (pixelCodes k ++ tail)
        = (List.replicate lead 0 ++ List.replicate (k - 1) 1) ++ 2 :: tail := by
      simp [pixelCodes]
    rw [this, List.getD_eq_getElem?_getD, List.getElem?_append_right (by simp)]
    simp
  rw [if_neg (by rw [hget]; simp)]
  congr 2; omega

theorem times_length (t0 dt : Int) : ∀ n, (times t0 dt n).length = n
  | 0 => rfl
  | n + 1 => by simp [times, times_length (t0 + dt) dt n]

theorem times_add (dt : Int) : ∀ (a b : Nat) (t0 : Int),
    times t0 dt (a + b) = times t0 dt a ++ times (t0 + a * dt) dt b
  | 0, b, t0 => by simp [times]
  | a + 1, b, t0 => by
    have : a + 1 + b = (a + b) + 1 := by omega
    rw [this]
    simp only [times, List.cons_append, times_add dt a b (t0 + dt)]
    have e : ((a + 1 : Nat) : Int) * dt = a * dt + dt := by
      rw [Int.natCast_add, Int.add_mul]; simp
    rw [e]
    congr 3
    omega

theorem usedOf_append {α} : ∀ (A B : List Nat) (xs ys : List α), xs.length = A.length →
    usedOf (A ++ B) (xs ++ ys) = usedOf A xs ++ usedOf B ys
  | [], B, [], ys, _ => by simp [usedOf]
  | [], B, _ :: _, ys, h => by simp at h
  | _ :: _, B, [], ys, h => by simp at h
  | c :: cs, B, x :: xs, ys, h => by
    simp only [List.cons_append, usedOf]
    rw [usedOf_append cs B xs ys (by simpa using h)]
    split <;> simp

theorem usedOf_zeros {α} : ∀ (n : Nat) (xs : List α), usedOf (List.replicate n 0) xs = []
  | 0, xs => by simp [usedOf]
  | n + 1, [] => by simp [usedOf, List.replicate_succ]
  | n + 1, x :: xs => by simp [usedOf, List.replicate_succ, usedOf_zeros n xs]

theorem usedOf_nonzero {α} : ∀ (A : List Nat) (xs : List α), (∀ c ∈ A, c ≠ 0) → xs.length = A.length →
    usedOf A xs = xs
  | [], [], _, _ => by simp [usedOf]
  | [], _ :: _, _, h => by simp at h
  | _ :: _, [], _, h => by simp at h
  | c :: cs, x :: xs, hc, h => by
    simp only [usedOf]
    rw [if_neg (hc c (by simp)), usedOf_nonzero cs xs (fun c' h' => hc c' (List.mem_cons_of_mem _ h')) (by simpa using h)]

/-- a wave whose first line is regular: lead-in, `P·k` consecutive used samples the first `k` of which
    form the first pixel, `dead` discarded samples, then the next used sample -/
structure FirstLine (w : Wave) (lead k P dead : Nat) (more rest : List Nat) (c : Nat) : Prop where
  hk : 0 < k
  hP : 0 < P
  iw : w.iw = List.replicate lead 0 ++ ((pixelCodes k ++ more) ++ (List.replicate dead 0 ++ c :: rest))
  len : (pixelCodes k ++ more).length = P * k
  used : ∀ x ∈ more, x ≠ 0
  next : c ≠ 0

theorem pixelCodes_length (k : Nat) (hk : 0 < k) : (pixelCodes k).length = k := by
  simp [pixelCodes]; omega

theorem usedTs_regular (w : Wave) (lead k P dead : Nat) (more rest : List Nat) (c : Nat)
    (h : FirstLine w lead k P dead more rest c) :
    w.usedTs = times (w.start + lead * w.dt) w.dt (P * k) ++
      (w.start + lead * w.dt + (P * k : Nat) * w.dt + dead * w.dt) ::
        usedOf rest (times (w.start + lead * w.dt + (P * k : Nat) * w.dt + dead * w.dt + w.dt) w.dt rest.length) := by
  unfold Wave.usedTs Wave.allTs
  rw [h.iw]
  have hlen : (List.replicate lead 0 ++ ((pixelCodes k ++ more) ++ (List.replicate dead 0 ++ c :: rest))).length
      = lead + (P * k + (dead + (rest.length + 1))) := by
    simp only [List.length_append, List.length_replicate, List.length_cons]
    have := h.len
    simp only [List.length_append] at this
    omega
  rw [hlen, times_add, times_add, times_add]
  rw [usedOf_append _ _ _ _ (by simp [times_length]), usedOf_zeros]
  rw [usedOf_append _ _ _ _ (by rw [times_length, h.len])]
  rw [usedOf_nonzero _ _ _ (by rw [times_length, h.len])]
  · rw [usedOf_append _ _ _ _ (by simp [times_length]), usedOf_zeros]
    simp only [times, usedOf, if_neg h.next, List.nil_append]
  · intro x hx
    rcases List.mem_append.mp hx with hx | hx
    · unfold pixelCodes at hx
      rcases List.mem_append.mp hx with hx | hx
      · rw [(List.mem_replicate.mp hx).2]; decide
      · simp at hx; omega
    · exact h.used x hx

/-! ## per-pixel mean -/

theorem length_mul_le_sum : ∀ (l : List Int) (M : Int), (∀ x ∈ l, M ≤ x) → l.length * M ≤ l.sum
  | [], _, _ => by simp
  | a :: t, M, h => by
    have ih := length_mul_le_sum t M (fun x hx => h x (List.mem_cons_of_mem _ hx))
    have ha := h a List.mem_cons_self
    simp only [List.sum_cons, List.length_cons]
    have : ((t.length + 1 : Nat) : Int) * M = t.length * M + M := by
      rw [Int.natCast_add, Int.add_mul]; omega
    rw [this]; omega

/-- the floor of the mean of a non-empty list lies between its minimum and its maximum -/
theorem floor_mean_mem (r : List Int) (hne : r ≠ []) :
    listMin r ≤ r.sum / r.length ∧ r.sum / r.length ≤ listMax r := by
  have hlen : 0 < r.length := List.length_pos_iff.mpr hne
  constructor
  · have := length_mul_le_sum r (listMin r) (fun x hx => listMin_le r x hx)
    exact (Int.le_ediv_iff_mul_le (by omega)).mpr (by
      have := Int.mul_comm (r.length : Int) (listMin r); omega)
  · have := sum_le_length_mul r (listMax r) (fun x hx => le_listMax r x hx)
    exact Int.ediv_le_of_le_mul (by omega) (by
      have := Int.mul_comm (r.length : Int) (listMax r); omega)

theorem intMeanRows_leaf {rows : List (List Int)} {w : Nat} {t : Int}
    (h : ¬(anyCould rows w = true ∧ 2 ≤ w)) : intMeanRows rows w t = rows.map fun r => r.sum / t := by
  rw [intMeanRows, dif_neg h]

/-- `timestamp_mean(axis=1)` is the row-wise floor mean whenever `(max − min)·w < 2⁶³` over the
    whole array -/
theorem tsMeanRows_floor (rows : List (List Int)) (w : Nat) (hw : 0 < w)
    (hlen : ∀ r ∈ rows, r.length = w) (hne : rows.flatten ≠ [])
    (hspan : (listMax rows.flatten - listMin rows.flatten) * w ≤ I64MAX) :
    tsMeanRows rows w = some (rows.map fun r => r.sum / (w : Int)) := by
  unfold tsMeanRows
  rw [if_neg hne]
  simp only [Option.some.injEq]
  have hq : listMax rows.flatten - listMin rows.flatten ≤ I64MAX / (w : Int) :=
    (Int.le_ediv_iff_mul_le (by omega)).mpr hspan
  have hno : ¬(anyCould (rows.map fun r => r.map (· - listMin rows.flatten)) w = true ∧ 2 ≤ w) := by
    intro ⟨hc, _⟩
    simp only [anyCould, List.any_map, List.any_eq_true, Function.comp] at hc
    rcases hc with ⟨r, hr, hc⟩
    simp only [willMulOverflow, Bool.and_eq_true, decide_eq_true_eq] at hc
    have hrne : r.map (· - listMin rows.flatten) ≠ [] := by
      intro h
      have hl := hlen r hr
      have h' := congrArg List.length h
      simp only [List.length_map, List.length_nil] at h'
      omega
    rcases List.mem_map.mp (listMax_mem _ hrne) with ⟨x, hx, hxe⟩
    have hxF : x ∈ rows.flatten := List.mem_flatten.mpr ⟨r, hr, hx⟩
    have := le_listMax _ x hxF
    have hxe' : x - listMin rows.flatten = listMax (r.map (· - listMin rows.flatten)) := hxe
    omega
  rw [intMeanRows_leaf hno, List.map_map, List.map_map]
  apply List.map_congr_left
  intro r hr
  simp only [Function.comp]
  rw [sum_map_sub, hlen r hr]
  have : r.sum - (w : Int) * listMin rows.flatten = r.sum + (w : Int) * (-listMin rows.flatten) := by
    rw [Int.mul_neg]; omega
  rw [this, Int.add_mul_ediv_left _ _ (by omega)]
  omega

theorem rowsOf_row_length {α} (k : Nat) (hk : 0 < k) (l : List α) :
    ∀ r ∈ rowsOf k l, r.length = k := by
  intro r hr
  rw [rowsOf_eq] at hr
  rcases List.mem_map.mp hr with ⟨j, hj, rfl⟩
  have hj := List.mem_range.mp hj
  have := mul_succ_le_of_lt_div _ _ _ hk hj
  simp only [List.length_take, List.length_drop]
  omega

/-- image[r][l] of the kymograph is pixel `l·P + r`, `0` past the last complete pixel -/
theorem kymoImage_eq (P : Nat) (pix : List Int) :
    kymoImage P pix = (List.range P).map fun r =>
      (List.range (numBlocks pix.length P)).map fun l => pix.getD (l * P + r) 0 := by
  unfold kymoImage transposeN
  apply List.map_congr_left
  intro r hr
  have hr := List.mem_range.mp hr
  rw [padRows_eq, List.map_map]
  apply List.map_congr_left
  intro l _
  simp only [Function.comp]
  rw [getD_map_range _ _ _ hr]

/-! ## photon-count image pixels of a regular wave -/

/-- discarded samples do not matter: the pixel sums are those of the used codes and used data -/
theorem pixelSums_used : ∀ (iw : List Nat) (data : List Int) (acc : Int),
    pixelSums iw data acc = pixelSums (iw.filter (· ≠ 0)) (usedOf iw data) acc
  | [], data, acc => by simp [pixelSums, usedOf]
  | c :: cs, [], acc => by
    simp only [pixelSums, usedOf]
    cases h : (c :: cs).filter (· ≠ 0) <;> simp [pixelSums]
  | c :: cs, x :: xs, acc => by
    by_cases h0 : c = 0
    · subst h0
      simp only [pixelSums, usedOf, if_true]
      simpa using pixelSums_used cs xs acc
    · by_cases h2 : c = 2
      · subst h2
        simp only [pixelSums, usedOf, List.filter_cons]
        simp [pixelSums, pixelSums_used cs xs 0]
      · have hf : (c :: cs).filter (· ≠ 0) = c :: cs.filter (· ≠ 0) := by simp [h0]
        rw [hf]
        simp only [pixelSums, usedOf, if_neg h0, if_neg h2]
        exact pixelSums_used cs xs (acc + x)

theorem pixelSums_ones : ∀ (n : Nat) (xs : List Int) (acc : Int),
    pixelSums (List.replicate n 1) xs acc = []
  | 0, xs, acc => by simp [pixelSums]
  | n + 1, [], acc => by simp [pixelSums, List.replicate_succ]
  | n + 1, x :: xs, acc => by
    simp only [List.replicate_succ, pixelSums]
    simpa using pixelSums_ones n xs (acc + x)

/-- one pixel of `k` used samples -/
theorem pixelSums_pixel : ∀ (n : Nat) (cs : List Nat) (xs ys : List Int) (acc : Int),
    xs.length = n + 1 →
    pixelSums ((List.replicate n 1 ++ [2]) ++ cs) (xs ++ ys) acc = (acc + xs.sum) :: pixelSums cs ys 0
  | 0, cs, [x], ys, acc, _ => by simp [pixelSums]
  | 0, cs, [], ys, acc, h => by simp at h
  | 0, cs, _ :: _ :: _, ys, acc, h => by simp at h
  | n + 1, cs, [], ys, acc, h => by simp at h
  | n + 1, cs, x :: xs, ys, acc, h => by
    simp only [List.replicate_succ, List.cons_append, pixelSums, List.sum_cons]
    have := pixelSums_pixel n cs xs ys (acc + x) (by simpa using h)
    simp only [List.append_assoc] at this ⊢
    simp only [show (1 : Nat) ≠ 0 by decide, show (1 : Nat) ≠ 2 by decide, if_false]
    rw [this]; congr 1; omega

/-- the pixel sums of `m` regular pixels followed by an incomplete one are the sums of the first `m`
    rows of `k` used samples -/
theorem pixelSums_regular (k : Nat) (hk : 0 < k) : ∀ (m r : Nat) (X : List Int),
    m * k ≤ X.length →
    pixelSums ((List.replicate m (pixelCodes k)).flatten ++ List.replicate r 1) X 0
      = (takeRows k m X).map List.sum
  | 0, r, X, _ => by simp [takeRows, pixelSums_ones]
  | m + 1, r, X, h => by
    have hkm : (m + 1) * k = m * k + k := by rw [Nat.add_mul]; omega
    have hX : X = X.take k ++ X.drop k := (List.take_append_drop k X).symm
    have hlen : (X.take k).length = (k - 1) + 1 := by simp only [List.length_take]; omega
    conv => lhs; rw [hX]
    simp only [List.replicate_succ, List.flatten_cons, takeRows, List.map_cons, List.append_assoc]
    unfold pixelCodes
    rw [pixelSums_pixel (k - 1) _ (X.take k) (X.drop k) 0 hlen]
    congr 1
    · omega
    · have := pixelSums_regular k hk m r (X.drop k) (by simp only [List.length_drop]; omega)
      unfold pixelCodes at this
      exact this

/-! ## `np.argmax(subset) + 1` of a regular wave is the pixel size -/

def amStep (st : Nat × Nat × Int) (y : Int) : Nat × Nat × Int :=
  let (best, i, bv) := st
  if y > bv then (i, i + 1, y) else (best, i + 1, bv)

theorem argmaxFirst_cons (x : Int) (xs : List Int) :
    argmaxFirst (x :: xs) = some (xs.foldl amStep (0, 1, x)).1 := rfl

theorem amStep_foldl_le : ∀ (xs : List Int) (b i : Nat) (bv : Int), (∀ y ∈ xs, y ≤ bv) →
    xs.foldl amStep (b, i, bv) = (b, i + xs.length, bv)
  | [], b, i, bv, _ => by simp
  | y :: ys, b, i, bv, h => by
    have hy := h y (by simp)
    simp only [List.foldl_cons, List.length_cons]
    have : amStep (b, i, bv) y = (b, i + 1, bv) := by
      simp only [amStep]; rw [if_neg (by omega)]
    rw [this, amStep_foldl_le ys b (i + 1) bv (fun z hz => h z (List.mem_cons_of_mem _ hz))]
    congr 2; omega

theorem argmaxFirst_pixel (k : Nat) (hk : 0 < k) (rest : List Nat) (hrest : ∀ c ∈ rest, c ≤ 2) :
    argmaxFirst ((pixelCodes k ++ rest).map Int.ofNat) = some (k - 1) := by
  have hr : ∀ y ∈ rest.map Int.ofNat, y ≤ 2 := by
    intro y hy
    rcases List.mem_map.mp hy with ⟨c, hc, rfl⟩
    have := hrest c hc
    simp only [Int.ofNat_eq_natCast]; omega
  unfold pixelCodes
  cases hn : k - 1 with
  | zero =>
    simp only [List.replicate_zero, List.nil_append, List.cons_append, List.map_cons]
    rw [argmaxFirst_cons, amStep_foldl_le _ _ _ _ (by simpa using hr)]
  | succ n =>
    have e : ((List.replicate (n + 1) 1 ++ [2]) ++ rest).map Int.ofNat
        = (1 : Int) :: ((List.replicate n 1).map Int.ofNat ++ ((2 : Int) :: rest.map Int.ofNat)) := by
      simp [List.replicate_succ]
    rw [e, argmaxFirst_cons, List.foldl_append,
      amStep_foldl_le ((List.replicate n 1).map Int.ofNat) 0 1 1 (by
        intro y hy
        rcases List.mem_map.mp hy with ⟨c, hc, rfl⟩
        rw [(List.mem_replicate.mp hc).2]; decide)]
    simp only [List.length_map, List.length_replicate, List.foldl_cons]
    have : amStep (0, 1 + n, 1) 2 = (1 + n, 1 + n + 1, 2) := by
      simp only [amStep]; rw [if_pos (by decide)]
    rw [this, amStep_foldl_le (rest.map Int.ofNat) _ _ 2 hr]
    simp only [Option.some.injEq]; omega

/-- a wave all of whose pixels have `k` used samples: `m ≥ 1` complete pixels, then `r < k` used
    samples of an unfinished one -/
def Wave.Regular (w : Wave) (k m r : Nat) : Prop :=
  0 < k ∧ 0 < m ∧ r < k ∧ w.subset = (List.replicate m (pixelCodes k)).flatten ++ List.replicate r 1

theorem Wave.Regular.pixelSize {w : Wave} {k m r : Nat} (h : w.Regular k m r) :
    w.pixelSize = some k := by
  obtain ⟨hk, hm, hr, hs⟩ := h
  unfold Wave.pixelSize
  rw [hs]
  match m, hm with
  | m + 1, _ =>
    simp only [List.replicate_succ, List.flatten_cons, List.append_assoc]
    rw [argmaxFirst_pixel k hk]
    · simp; omega
    · intro c hc
      rcases List.mem_append.mp hc with hc | hc
      · rcases List.mem_flatten.mp hc with ⟨p, hp, hcp⟩
        rw [(List.mem_replicate.mp hp).2] at hcp
        unfold pixelCodes at hcp
        rcases List.mem_append.mp hcp with h' | h'
        · rw [(List.mem_replicate.mp h').2]; decide
        · simp at h'; omega
      · rw [(List.mem_replicate.mp hc).2]; decide

theorem usedOf_length {α} : ∀ (iw : List Nat) (xs : List α), xs.length = iw.length →
    (usedOf iw xs).length = (iw.filter (· ≠ 0)).length
  | [], [], _ => by simp [usedOf]
  | [], _ :: _, h => by simp at h
  | _ :: _, [], h => by simp at h
  | c :: cs, x :: xs, h => by
    have ih := usedOf_length cs xs (by simpa using h)
    by_cases h0 : c = 0
    · simp [usedOf, h0, ih]
    · simp [usedOf, h0, ih]

theorem flatten_replicate_length {α} (m : Nat) (p : List α) :
    (List.replicate m p).flatten.length = m * p.length := by
  induction m with
  | zero => simp
  | succ n ih => simp [List.replicate_succ, ih, Nat.add_mul]; omega

theorem Wave.Regular.used_length {w : Wave} {k m r : Nat} (h : w.Regular k m r) :
    w.usedTs.length = m * k + r := by
  obtain ⟨hk, hm, hr, hs⟩ := h
  unfold Wave.usedTs Wave.allTs
  rw [usedOf_length _ _ (times_length _ _ _)]
  have : w.iw.filter (· ≠ 0) = w.subset := rfl
  rw [this, hs]
  simp [pixelCodes_length k hk]

theorem Wave.Regular.numPix {w : Wave} {k m r : Nat} (h : w.Regular k m r) :
    w.usedTs.length / k = m := by
  rw [h.used_length]
  obtain ⟨hk, hm, hr, hs⟩ := h
  rw [Nat.mul_comm, Nat.mul_add_div hk, Nat.div_eq_of_lt hr]; omega

/-! ## windows on the raw stream, keyed -/

theorem Sep.of_key_lt {β} {δ : Int} (hδ : 0 < δ) {key : β → Int} {l : List β} (h : Sep δ key l)
    {x y : β} (hx : x ∈ l) (hy : y ∈ l) (hxy : key x < key y) : key x + δ ≤ key y := by
  rcases List.getElem_of_mem hx with ⟨i, hi, rfl⟩
  rcases List.getElem_of_mem hy with ⟨j, hj, rfl⟩
  rcases Nat.lt_trichotomy i j with hij | hij | hij
  · exact h.getElem_lt hj hij
  · subst hij; omega
  · have := h.getElem_lt hi hij
    omega

theorem sublist_eq_filter_key {β} {δ : Int} (hδ : 0 < δ) (key : β → Int) {l l' : List β}
    (hsep : Sep δ key l) (hs : l'.Sublist l) :
    l' = l.filter (fun s => decide (key s ∈ l'.map key)) := by
  induction hs with
  | slnil => simp
  | @cons l₁ l₂ a hs ih =>
    have hsep' : Sep δ key l₂ := (List.pairwise_cons.mp hsep).2
    have ha : key a ∉ l₁.map key := by
      intro hmem
      rcases List.mem_map.mp hmem with ⟨x, hx, hxe⟩
      have := (List.pairwise_cons.mp hsep).1 x (hs.subset hx)
      omega
    rw [List.filter_cons, if_neg (by simpa using ha)]
    exact ih hsep'
  | @cons_cons l₁ l₂ a hs ih =>
    have hsep' : Sep δ key l₂ := (List.pairwise_cons.mp hsep).2
    rw [List.filter_cons, if_pos (by simp)]
    congr 1
    have ih := ih hsep'
    conv => lhs; rw [ih]
    apply List.filter_congr
    intro x hx
    have hne : key x ≠ key a := by
      have := (List.pairwise_cons.mp hsep).1 x hx
      omega
    simp [hne]

/-- the keyed, raw-stream version of `filter_window`: when no element of the full stream `SP` with a
    key between those of `UP[a]` and `UP[b]` is missing from the sub-stream `UP`, the window selects
    `UP[a … b]` from the full stream -/
theorem window_raw {β} (δ dt : Int) (h1 : 1 ≤ δ) (h2 : δ ≤ dt) (key : β → Int) (SP UP : List β)
    (hsep : Sep dt key SP) (hsub : UP.Sublist SP) (a b : Nat) (hab : a ≤ b) (hb : b < UP.length)
    (lo hi : Int) (hlo : lo = key (UP[a]'(by omega))) (hhi : hi = key UP[b])
    (hcont : ∀ s ∈ SP, lo ≤ key s → key s ≤ hi → key s ∈ UP.map key) :
    SP.filter (fun s => decide (lo ≤ key s) && decide (key s < hi + δ)) = (UP.drop a).take (b + 1 - a) := by
  have hdt : 0 < dt := by omega
  rw [← filter_window δ h1 key UP ((hsep.sublist hsub).mono h2) a b hab hb lo hi hlo hhi]
  conv => rhs; rw [sublist_eq_filter_key hdt key hsep hsub, List.filter_filter]
  apply List.filter_congr
  intro s hsm
  by_cases hr : lo ≤ key s ∧ key s < hi + δ
  · have hle : key s ≤ hi := by
      rcases Int.lt_or_le hi (key s) with h | h
      · have hbm : UP[b] ∈ SP := hsub.subset (List.getElem_mem _)
        have := hsep.of_key_lt hdt hbm hsm (by omega)
        omega
      · exact h
    have := hcont s hsm hr.1 hle
    simp [hr.1, hr.2, this]
  · have : ¬(lo ≤ key s) ∨ ¬(key s < hi + δ) := by
      by_cases h : lo ≤ key s
      · right; intro h'; exact hr ⟨h, h'⟩
      · left; exact h
    rcases this with h | h <;> simp [h]

/-! ## sums over blocks of rows -/

theorem sum_rows_block (X : List Int) (k j0 : Nat) : ∀ (n : Nat),
    ((X.drop (j0 * k)).take (n * k)).sum
      = ((List.range n).map fun r => ((X.drop ((j0 + r) * k)).take k).sum).sum
  | 0 => by simp
  | n + 1 => by
    have e : (n + 1) * k = n * k + k := by rw [Nat.add_mul]; omega
    rw [e, List.take_add, List.sum_append, sum_rows_block X k j0 n, List.range_succ, List.map_append,
      List.sum_append, List.drop_drop]
    have : j0 * k + n * k = (j0 + n) * k := by rw [Nat.add_mul]
    simp [this]

theorem sum_range_zero_tail (f : Nat → Int) (n' : Nat) : ∀ (P : Nat), n' ≤ P →
    (∀ r, n' ≤ r → r < P → f r = 0) → ((List.range P).map f).sum = ((List.range n').map f).sum
  | 0, h, _ => by have : n' = 0 := by omega
                  subst this; rfl
  | P + 1, h, hz => by
    rcases Nat.eq_or_lt_of_le h with h' | h'
    · rw [h']
    · rw [List.range_succ, List.map_append, List.sum_append,
        sum_range_zero_tail f n' P (by omega) (fun r h1 h2 => hz r h1 (by omega))]
      simp [hz P (by omega) (by omega)]

/-! ## both sides of `sum_over_ranges_eq_image` -/

/-- total of the used data of block `l` (positions `l·P·k … min((l+1)·P, m)·k − 1` of the used stream) -/
def blockSum (UD : List Int) (k m P l : Nat) : Int :=
  ((UD.drop (l * P * k)).take ((min ((l + 1) * P) m - l * P) * k)).sum

/-- image side: block totals of the zero-padded chunk sums -/
theorem lineTotals_rows (UD : List Int) (k m P : Nat) (hP : 0 < P) :
    lineTotals P ((takeRows k m UD).map List.sum) = (List.range (numBlocks m P)).map (blockSum UD k m P) := by
  unfold lineTotals
  rw [padRows_eq, List.map_map]
  simp only [List.length_map, takeRows_eq_map_range, List.length_range]
  apply List.map_congr_left
  intro l hl
  have hl := (lt_numBlocks_iff _ _ _ hP).mp (List.mem_range.mp hl)
  simp only [Function.comp, blockSum]
  have hP1 : (l + 1) * P = l * P + P := by rw [Nat.add_mul]; omega
  rw [sum_range_zero_tail _ (min ((l + 1) * P) m - l * P) P (by omega)]
  · rw [sum_rows_block]
    congr 1
    apply List.map_congr_left
    intro r hr
    have hr := List.mem_range.mp hr
    rw [List.map_map, getD_map_range _ _ _ (by omega)]
    rfl
  · intro r h1 h2
    rw [List.getD_eq_getElem?_getD, List.getElem?_eq_none (by simp; omega)]
    rfl

theorem samplesFrom_fst (dt : Int) : ∀ (l : List Int) (t0 : Int),
    (C01.samplesFrom t0 dt l).map (·.1) = times t0 dt l.length
  | [], _ => rfl
  | v :: vs, t0 => by simp [C01.samplesFrom, times, samplesFrom_fst dt vs (t0 + dt)]

theorem samplesFrom_snd (dt : Int) : ∀ (l : List Int) (t0 : Int),
    (C01.samplesFrom t0 dt l).map (·.2) = l
  | [], _ => rfl
  | v :: vs, t0 => by simp [C01.samplesFrom, samplesFrom_snd dt vs (t0 + dt)]

theorem times_stop (dt : Int) (hdt : 0 < dt) : ∀ (n : Nat) (t0 : Int),
    ∀ y ∈ times t0 dt n, y + dt ≤ t0 + n * dt
  | 0, _, y, h => by simp [times] at h
  | n + 1, t0, y, h => by
    simp only [times, List.mem_cons] at h
    have e : ((n + 1 : Nat) : Int) * dt = n * dt + dt := by
      rw [Int.natCast_add, Int.add_mul]; simp
    have hn : 0 ≤ (n : Int) * dt := Int.mul_nonneg (by omega) (by omega)
    rcases h with h | h
    · omega
    · have := times_stop dt hdt n (t0 + dt) y h; omega

theorem filterMap_eq_map_of {α β} (f : α → Option β) (g : α → β) :
    ∀ (L : List α), (∀ x ∈ L, f x = some (g x)) → L.filterMap f = L.map g
  | [], _ => rfl
  | a :: t, h => by
    rw [List.filterMap_cons, h a (by simp), List.map_cons,
      filterMap_eq_map_of f g t (fun x hx => h x (List.mem_cons_of_mem _ hx))]

/-- channel side: `downsampled_over(line ranges, np.sum)` yields, for every line, the total of the
    line's used data — provided no discarded sample lies inside a line -/
theorem sumOver_blocks (w : Wave) (data : List Int) (hlen : data.length = w.iw.length)
    (hdt : 0 < w.dt) (hs : 0 ≤ w.start) (k : Nat) (hk : w.pixelSize = some k) (P : Nat) (hP : 0 < P)
    (δ : Int) (h1 : 1 ≤ δ) (h2 : δ ≤ w.dt)
    (hcont : ∀ l, l < numBlocks (w.usedTs.length / k) P → ∀ t ∈ w.allTs,
      w.usedTs.getD (l * P * k) 0 ≤ t →
      t ≤ w.usedTs.getD (min ((l + 1) * P) (w.usedTs.length / k) * k - 1) 0 → t ∈ w.usedTs)
    (rs : List (Int × Int)) (hrs : w.lineRangesExcl P δ = some rs) :
    sumOver ⟨w.start, w.dt, data⟩ rs =
      (List.range (numBlocks (w.usedTs.length / k) P)).map
        (blockSum (usedOf w.iw data) k (w.usedTs.length / k) P) := by
  have hk0 := pixelSize_pos w k hk
  rw [lineRangesExcl_spec w hdt hs k hk P hP δ] at hrs
  injection hrs with hrs
  subst hrs
  unfold Wave.numPix
  -- the sample stream of the channel and its used part
  have hSPfst : (C01.samplesFrom w.start w.dt data).map (·.1) = w.allTs := by
    rw [samplesFrom_fst, hlen]; rfl
  have hsepSP : Sep w.dt (fun s : C01.Sample => s.1) (C01.samplesFrom w.start w.dt data) := by
    have := allTs_sep w hdt
    rw [← hSPfst] at this
    exact List.pairwise_map.mp this
  have hUPfst : (usedOf w.iw (C01.samplesFrom w.start w.dt data)).map (·.1) = w.usedTs := by
    rw [usedOf_map, hSPfst]; rfl
  have hUPsnd : (usedOf w.iw (C01.samplesFrom w.start w.dt data)).map (·.2) = usedOf w.iw data := by
    rw [usedOf_map, samplesFrom_snd]
  have hUPlen : (usedOf w.iw (C01.samplesFrom w.start w.dt data)).length = w.usedTs.length := by
    rw [← hUPfst, List.length_map]
  -- facts per line
  have key : ∀ l, l < numBlocks (w.usedTs.length / k) P →
      (C01.Cont.slice ⟨w.start, w.dt, data⟩ (w.usedTs.getD (l * P * k) 0)
        (w.usedTs.getD (min ((l + 1) * P) (w.usedTs.length / k) * k - 1) 0 + δ)).samples
      = ((usedOf w.iw (C01.samplesFrom w.start w.dt data)).drop (l * P * k)).take
          ((min ((l + 1) * P) (w.usedTs.length / k) - l * P) * k) ∧
      0 < (min ((l + 1) * P) (w.usedTs.length / k) - l * P) * k ∧
      l * P * k + (min ((l + 1) * P) (w.usedTs.length / k) - l * P) * k ≤ w.usedTs.length ∧
      w.start ≤ w.usedTs.getD (l * P * k) 0 ∧
      w.usedTs.getD (min ((l + 1) * P) (w.usedTs.length / k) * k - 1) 0 + δ
        ≤ w.start + (data.length : Int) * w.dt := by
    intro l hl
    have hlt := (lt_numBlocks_iff _ _ _ hP).mp hl
    have hP1 : (l + 1) * P = l * P + P := by rw [Nat.add_mul]; omega
    have hmin : l * P + 1 ≤ min ((l + 1) * P) (w.usedTs.length / k) := by omega
    have he1 : (l * P + 1) * k ≤ min ((l + 1) * P) (w.usedTs.length / k) * k := Nat.mul_le_mul_right _ hmin
    have he2 : min ((l + 1) * P) (w.usedTs.length / k) * k ≤ w.usedTs.length / k * k :=
      Nat.mul_le_mul_right _ (Nat.min_le_right _ _)
    have he3 := Nat.div_mul_le_self w.usedTs.length k
    rw [Nat.add_mul] at he1
    have hsub : (min ((l + 1) * P) (w.usedTs.length / k) - l * P) * k
        = min ((l + 1) * P) (w.usedTs.length / k) * k - 1 + 1 - l * P * k := by
      rw [Nat.sub_mul]; omega
    have ha : l * P * k < w.usedTs.length := by omega
    have hb : min ((l + 1) * P) (w.usedTs.length / k) * k - 1 < w.usedTs.length := by omega
    have hslice := C01.cont_slice_samples ⟨w.start, w.dt, data⟩ hdt (w.usedTs.getD (l * P * k) 0)
      (w.usedTs.getD (min ((l + 1) * P) (w.usedTs.length / k) * k - 1) 0 + δ)
    refine ⟨?_, by omega, by omega, ?_, ?_⟩
    · rw [hslice, hsub]
      have hlo : w.usedTs.getD (l * P * k) 0
          = ((usedOf w.iw (C01.samplesFrom w.start w.dt data))[l * P * k]'(by rw [hUPlen]; omega)).1 := by
        rw [getD_eq _ _ ha]
        simp only [← hUPfst, List.getElem_map]
      have hhi : w.usedTs.getD (min ((l + 1) * P) (w.usedTs.length / k) * k - 1) 0
          = ((usedOf w.iw (C01.samplesFrom w.start w.dt data))[min ((l + 1) * P) (w.usedTs.length / k) * k - 1]'(by rw [hUPlen]; omega)).1 := by
        rw [getD_eq _ _ hb]
        simp only [← hUPfst, List.getElem_map]
      exact window_raw δ w.dt h1 h2 (fun s : C01.Sample => s.1) _ _ hsepSP (usedOf_sublist _ _) (l * P * k)
        (min ((l + 1) * P) (w.usedTs.length / k) * k - 1) (by omega) (by rw [hUPlen]; omega) _ _ hlo hhi
        (fun s hsm hl1 hl2 => by
          rw [hUPfst]
          exact hcont l hl s.1 (by rw [← hSPfst]; exact List.mem_map_of_mem hsm) hl1 hl2)
    · rw [getD_eq _ _ ha]
      exact usedTs_ge w hdt _ (List.getElem_mem _)
    · rw [getD_eq _ _ hb, hlen]
      have hmem : w.usedTs[min ((l + 1) * P) (w.usedTs.length / k) * k - 1] ∈ w.allTs :=
        (usedTs_sublist w).subset (List.getElem_mem _)
      have := times_stop w.dt hdt _ _ _ hmem
      omega
  unfold sumOver
  rw [List.filter_eq_self.mpr]
  · rw [List.filterMap_map]
    apply filterMap_eq_map_of
    intro l hl
    have hl := List.mem_range.mp hl
    obtain ⟨hsl, hpos, hle, _, _⟩ := key l hl
    simp only [Function.comp]
    rw [hsl]
    have hne : ((usedOf w.iw (C01.samplesFrom w.start w.dt data)).drop (l * P * k)).take
        ((min ((l + 1) * P) (w.usedTs.length / k) - l * P) * k) ≠ [] := by
      intro h
      have := congrArg List.length h
      simp only [List.length_take, List.length_drop, List.length_nil, hUPlen] at this
      omega
    rw [if_neg (by simpa using hne)]
    simp only [blockSum, List.map_take, List.map_drop, hUPsnd]
  · intro r hr
    rcases List.mem_map.mp hr with ⟨l, hl, rfl⟩
    have hl := List.mem_range.mp hl
    obtain ⟨_, _, _, hc1, hc2⟩ := key l hl
    simp only [C01.Cont.stop]
    rw [Bool.and_eq_true]
    exact ⟨decide_eq_true hc1, decide_eq_true hc2⟩

/-! ## `timestamp_mean(axis=1)` at any split depth (deepening round D) -/


/-- what `_int_mean(axis=1)` does to one row `r` of the array `rows` (proof device) -/
def rowMeanWith (rows : List (List Int)) (w : Nat) (total : Int) (r : List Int) : Int :=
  if _h : anyCould rows w = true ∧ 2 ≤ w then
    rowMeanWith (rows.map (·.take (w / 2))) (w / 2) total (r.take (w / 2)) +
      rowMeanWith (rows.map (·.drop (w / 2))) (w - w / 2) total (r.drop (w / 2))
  else r.sum / total
termination_by w
decreasing_by all_goals omega

def rowTraceWith (rows : List (List Int)) (w : Nat) (total : Int) (r : List Int) : List Int :=
  if _h : anyCould rows w = true ∧ 2 ≤ w then
    rowTraceWith (rows.map (·.take (w / 2))) (w / 2) total (r.take (w / 2)) ++
      rowTraceWith (rows.map (·.drop (w / 2))) (w - w / 2) total (r.drop (w / 2)) ++
      [rowMeanWith (rows.map (·.take (w / 2))) (w / 2) total (r.take (w / 2)) +
        rowMeanWith (rows.map (·.drop (w / 2))) (w - w / 2) total (r.drop (w / 2))]
  else [r.sum, r.sum / total]
termination_by w
decreasing_by all_goals omega

theorem zipWith_map_map {α} (f g : α → Int) (l : List α) :
    List.zipWith (· + ·) (l.map f) (l.map g) = l.map fun x => f x + g x := by
  induction l with
  | nil => rfl
  | cons a t ih => simp [ih]

theorem intMeanRows_node {rows : List (List Int)} {w : Nat} {t : Int} (h : anyCould rows w = true ∧ 2 ≤ w) :
    intMeanRows rows w t = List.zipWith (· + ·) (intMeanRows (rows.map (·.take (w / 2))) (w / 2) t)
      (intMeanRows (rows.map (·.drop (w / 2))) (w - w / 2) t) := by
  rw [intMeanRows, dif_pos h]

theorem rowMeanWith_node {rows : List (List Int)} {w : Nat} {t : Int} {r : List Int}
    (h : anyCould rows w = true ∧ 2 ≤ w) :
    rowMeanWith rows w t r = rowMeanWith (rows.map (·.take (w / 2))) (w / 2) t (r.take (w / 2)) +
      rowMeanWith (rows.map (·.drop (w / 2))) (w - w / 2) t (r.drop (w / 2)) := by
  rw [rowMeanWith, dif_pos h]

theorem rowMeanWith_leaf {rows : List (List Int)} {w : Nat} {t : Int} {r : List Int}
    (h : ¬(anyCould rows w = true ∧ 2 ≤ w)) : rowMeanWith rows w t r = r.sum / t := by
  rw [rowMeanWith, dif_neg h]

theorem intMeanRowsSplits_node {rows : List (List Int)} {w : Nat} (h : anyCould rows w = true ∧ 2 ≤ w) :
    intMeanRowsSplits rows w = intMeanRowsSplits (rows.map (·.take (w / 2))) (w / 2) +
      intMeanRowsSplits (rows.map (·.drop (w / 2))) (w - w / 2) + 1 := by
  rw [intMeanRowsSplits, dif_pos h]

theorem intMeanRowsSplits_leaf {rows : List (List Int)} {w : Nat} (h : ¬(anyCould rows w = true ∧ 2 ≤ w)) :
    intMeanRowsSplits rows w = 0 := by
  rw [intMeanRowsSplits, dif_neg h]

theorem intMeanRows_eq_map (t : Int) (w : Nat) : ∀ (rows : List (List Int)),
    intMeanRows rows w t = rows.map (rowMeanWith rows w t) := by
  induction w using Nat.strongRecOn with
  | ind w ih =>
    intro rows
    by_cases h : anyCould rows w = true ∧ 2 ≤ w
    · rw [intMeanRows_node h, ih (w / 2) (by omega), ih (w - w / 2) (by omega), List.map_map,
        List.map_map, zipWith_map_map]
      apply List.map_congr_left
      intro r _
      rw [rowMeanWith_node h]
      rfl
    · rw [intMeanRows_leaf h]
      apply List.map_congr_left
      intro r _
      rw [rowMeanWith_leaf h]

theorem rowMeanWith_bounds (N : Int) (hN : 0 < N) (w : Nat) : ∀ (rows : List (List Int)) (r : List Int),
    (∀ x ∈ r, 0 ≤ x) →
    0 ≤ rowMeanWith rows w N r ∧ rowMeanWith rows w N r ≤ r.sum / N ∧
      r.sum / N ≤ rowMeanWith rows w N r + intMeanRowsSplits rows w := by
  induction w using Nat.strongRecOn with
  | ind w ih =>
    intro rows r h0
    by_cases h : anyCould rows w = true ∧ 2 ≤ w
    · have h1 := ih (w / 2) (by omega) (rows.map (·.take (w / 2))) (r.take (w / 2))
        (fun x hx => h0 x (List.mem_of_mem_take hx))
      have h2 := ih (w - w / 2) (by omega) (rows.map (·.drop (w / 2))) (r.drop (w / 2))
        (fun x hx => h0 x (List.mem_of_mem_drop hx))
      rw [rowMeanWith_node h, intMeanRowsSplits_node h]
      have hs : r.sum = (r.take (w / 2)).sum + (r.drop (w / 2)).sum := by
        rw [← List.sum_append, List.take_append_drop]
      have := ediv_add_bounds N hN (r.take (w / 2)).sum (r.drop (w / 2)).sum
      rw [hs]
      omega
    · rw [rowMeanWith_leaf h, intMeanRowsSplits_leaf h]
      have := sum_nonneg r h0
      have : 0 ≤ r.sum / N := Int.ediv_nonneg this (Int.le_of_lt hN)
      omega

theorem intMeanRowsSplits_le (w : Nat) : ∀ (rows : List (List Int)), intMeanRowsSplits rows w ≤ w - 1 := by
  induction w using Nat.strongRecOn with
  | ind w ih =>
    intro rows
    by_cases h : anyCould rows w = true ∧ 2 ≤ w
    · rw [intMeanRowsSplits_node h]
      have := ih (w / 2) (by omega) (rows.map (·.take (w / 2)))
      have := ih (w - w / 2) (by omega) (rows.map (·.drop (w / 2)))
      omega
    · rw [intMeanRowsSplits_leaf h]; omega

theorem rowTraceWith_node {rows : List (List Int)} {w : Nat} {t : Int} {r : List Int}
    (h : anyCould rows w = true ∧ 2 ≤ w) :
    rowTraceWith rows w t r =
      rowTraceWith (rows.map (·.take (w / 2))) (w / 2) t (r.take (w / 2)) ++
      rowTraceWith (rows.map (·.drop (w / 2))) (w - w / 2) t (r.drop (w / 2)) ++
      [rowMeanWith (rows.map (·.take (w / 2))) (w / 2) t (r.take (w / 2)) +
        rowMeanWith (rows.map (·.drop (w / 2))) (w - w / 2) t (r.drop (w / 2))] := by
  rw [rowTraceWith, dif_pos h]

theorem rowTraceWith_leaf {rows : List (List Int)} {w : Nat} {t : Int} {r : List Int}
    (h : ¬(anyCould rows w = true ∧ 2 ≤ w)) : rowTraceWith rows w t r = [r.sum, r.sum / t] := by
  rw [rowTraceWith, dif_neg h]

theorem intMeanRowsTrace_node {rows : List (List Int)} {w : Nat} {t : Int} (h : anyCould rows w = true ∧ 2 ≤ w) :
    intMeanRowsTrace rows w t =
      intMeanRowsTrace (rows.map (·.take (w / 2))) (w / 2) t ++
      intMeanRowsTrace (rows.map (·.drop (w / 2))) (w - w / 2) t ++
      List.zipWith (· + ·) (intMeanRows (rows.map (·.take (w / 2))) (w / 2) t)
        (intMeanRows (rows.map (·.drop (w / 2))) (w - w / 2) t) := by
  rw [intMeanRowsTrace, dif_pos h]

theorem intMeanRowsTrace_leaf {rows : List (List Int)} {w : Nat} {t : Int}
    (h : ¬(anyCould rows w = true ∧ 2 ≤ w)) :
    intMeanRowsTrace rows w t = (rows.map List.sum) ++ (rows.map fun r => r.sum / t) := by
  rw [intMeanRowsTrace, dif_neg h]

/-- every integer of the array-level trace is an integer of some row's trace -/
theorem intMeanRowsTrace_mem (t : Int) (w : Nat) : ∀ (rows : List (List Int)) (y : Int),
    y ∈ intMeanRowsTrace rows w t → ∃ r ∈ rows, y ∈ rowTraceWith rows w t r := by
  induction w using Nat.strongRecOn with
  | ind w ih =>
    intro rows y hy
    by_cases h : anyCould rows w = true ∧ 2 ≤ w
    · rw [intMeanRowsTrace_node h] at hy
      simp only [List.mem_append] at hy
      rcases hy with (hy | hy) | hy
      · rcases ih (w / 2) (by omega) _ y hy with ⟨r', hr', hy'⟩
        rcases List.mem_map.mp hr' with ⟨r, hr, rfl⟩
        exact ⟨r, hr, by rw [rowTraceWith_node h]; simp only [List.mem_append]; exact Or.inl (Or.inl hy')⟩
      · rcases ih (w - w / 2) (by omega) _ y hy with ⟨r', hr', hy'⟩
        rcases List.mem_map.mp hr' with ⟨r, hr, rfl⟩
        exact ⟨r, hr, by rw [rowTraceWith_node h]; simp only [List.mem_append]; exact Or.inl (Or.inr hy')⟩
      · rw [intMeanRows_eq_map, intMeanRows_eq_map, List.map_map, List.map_map, zipWith_map_map] at hy
        rcases List.mem_map.mp hy with ⟨r, hr, rfl⟩
        exact ⟨r, hr, by rw [rowTraceWith_node h]; simp [Function.comp]⟩
    · rw [intMeanRowsTrace_leaf h] at hy
      simp only [List.mem_append, List.mem_map] at hy
      rcases hy with ⟨r, hr, rfl⟩ | ⟨r, hr, rfl⟩
      · exact ⟨r, hr, by rw [rowTraceWith_leaf h]; simp⟩
      · exact ⟨r, hr, by rw [rowTraceWith_leaf h]; simp⟩

/-- a row of a block the (array-wide) conservative test lets through has a sum inside int64 -/
theorem row_leaf_sum_le (rows : List (List Int)) (w : Nat) (r : List Int) (hr : r ∈ rows) (hl : r.length = w)
    (M : Int) (hM : M ≤ I64MAX) (hb : ∀ x ∈ r, 0 ≤ x ∧ x ≤ M)
    (h : ¬(anyCould rows w = true ∧ 2 ≤ w)) : r.sum ≤ I64MAX := by
  apply leaf_sum_le r M hM hb
  intro ⟨hc, h2⟩
  apply h
  refine ⟨?_, by omega⟩
  simp only [anyCould, List.any_eq_true]
  refine ⟨r, hr, ?_⟩
  simpa [couldSumOverflow, hl] using hc

/-- every integer `_int_mean(axis=1)` computes for a row of an array of values in `[0, M]`,
    `M ≤ int64 max`, lies in `[0, int64 max]` -/
theorem rowTraceWith_bounds (N : Int) (hN : 0 < N) (M : Int) (hM : M ≤ I64MAX) (w : Nat) :
    ∀ (rows : List (List Int)) (r : List Int), r ∈ rows →
    (∀ r' ∈ rows, r'.length = w ∧ ∀ x ∈ r', 0 ≤ x ∧ x ≤ M) → (w : Int) ≤ N →
    ∀ y ∈ rowTraceWith rows w N r, 0 ≤ y ∧ y ≤ I64MAX := by
  induction w using Nat.strongRecOn with
  | ind w ih =>
    intro rows r hr hb hl y hy
    have hbr := hb r hr
    by_cases h : anyCould rows w = true ∧ 2 ≤ w
    · rw [rowTraceWith_node h] at hy
      have hbt : ∀ r' ∈ rows.map (·.take (w / 2)), r'.length = w / 2 ∧ ∀ x ∈ r', 0 ≤ x ∧ x ≤ M := by
        intro r' hr'
        rcases List.mem_map.mp hr' with ⟨r0, hr0, rfl⟩
        have := hb r0 hr0
        exact ⟨by simp only [List.length_take]; omega, fun x hx => this.2 x (List.mem_of_mem_take hx)⟩
      have hbd : ∀ r' ∈ rows.map (·.drop (w / 2)), r'.length = w - w / 2 ∧ ∀ x ∈ r', 0 ≤ x ∧ x ≤ M := by
        intro r' hr'
        rcases List.mem_map.mp hr' with ⟨r0, hr0, rfl⟩
        have := hb r0 hr0
        exact ⟨by simp only [List.length_drop]; omega, fun x hx => this.2 x (List.mem_of_mem_drop hx)⟩
      simp only [List.mem_append, List.mem_singleton] at hy
      rcases hy with (hy | hy) | hy
      · exact ih (w / 2) (by omega) _ _ (List.mem_map_of_mem hr) hbt (by omega) y hy
      · exact ih (w - w / 2) (by omega) _ _ (List.mem_map_of_mem hr) hbd (by omega) y hy
      · subst hy
        have b1 := rowMeanWith_bounds N hN (w / 2) (rows.map (·.take (w / 2))) (r.take (w / 2))
          (fun x hx => (hbr.2 x (List.mem_of_mem_take hx)).1)
        have b2 := rowMeanWith_bounds N hN (w - w / 2) (rows.map (·.drop (w / 2))) (r.drop (w / 2))
          (fun x hx => (hbr.2 x (List.mem_of_mem_drop hx)).1)
        have hs : r.sum = (r.take (w / 2)).sum + (r.drop (w / 2)).sum := by
          rw [← List.sum_append, List.take_append_drop]
        have b3 := ediv_add_bounds N hN (r.take (w / 2)).sum (r.drop (w / 2)).sum
        rw [← hs] at b3
        have hM0 : 0 ≤ M := by
          match r, hbr with
          | [], hbr => have := hbr.1; simp at this; omega
          | x :: _, hbr => have := hbr.2 x List.mem_cons_self; omega
        have h4 := sum_le_length_mul r M (fun x hx => (hbr.2 x hx).2)
        rw [hbr.1] at h4
        have h5 : (w : Int) * M ≤ N * M := Int.mul_le_mul_of_nonneg_right hl hM0
        have h6 : r.sum / N ≤ M := Int.ediv_le_of_le_mul hN (by have := Int.mul_comm N M; omega)
        omega
    · rw [rowTraceWith_leaf h] at hy
      have hs0 := sum_nonneg r (fun x hx => (hbr.2 x hx).1)
      have hs1 := row_leaf_sum_le rows w r hr hbr.1 M hM hbr.2 h
      simp only [List.mem_cons, List.not_mem_nil, or_false] at hy
      rcases hy with hy | hy
      · subst hy; exact ⟨hs0, hs1⟩
      · subst hy
        have : 0 ≤ r.sum / N := Int.ediv_nonneg hs0 (Int.le_of_lt hN)
        have : r.sum / N ≤ r.sum := Int.ediv_le_self _ hs0
        omega

/-- the rows after the global minimum shift -/
def shiftRows (rows : List (List Int)) : List (List Int) :=
  rows.map fun r => r.map (· - listMin rows.flatten)

theorem tsMeanRows_eq (rows : List (List Int)) (w : Nat) (hne : rows.flatten ≠ []) :
    tsMeanRows rows w = some (rows.map fun r =>
      listMin rows.flatten + rowMeanWith (shiftRows rows) w w (r.map (· - listMin rows.flatten))) := by
  unfold tsMeanRows
  rw [if_neg hne]
  simp only [Option.some.injEq]
  rw [intMeanRows_eq_map]
  simp only [shiftRows, List.map_map]
  rfl

theorem shiftRows_bounds (rows : List (List Int)) (r : List Int) (hr : r ∈ rows) :
    ∀ y ∈ r.map (· - listMin rows.flatten),
      0 ≤ y ∧ y ≤ listMax rows.flatten - listMin rows.flatten := by
  intro y hy
  rcases List.mem_map.mp hy with ⟨x, hx, rfl⟩
  have hxF : x ∈ rows.flatten := List.mem_flatten.mpr ⟨r, hr, hx⟩
  have := listMin_le _ x hxF
  have := le_listMax _ x hxF
  omega

/-- row `r` of `timestamp_mean(rows, axis=1)`, whatever the split depth -/
theorem tsMeanRows_row_bounds (rows : List (List Int)) (w : Nat) (hw : 0 < w)
    (hlen : ∀ r ∈ rows, r.length = w) (r : List Int) (hr : r ∈ rows) :
    let v := listMin rows.flatten + rowMeanWith (shiftRows rows) w w (r.map (· - listMin rows.flatten))
    r.sum / (w : Int) - intMeanRowsSplits (shiftRows rows) w ≤ v ∧ v ≤ r.sum / (w : Int) ∧
      listMin rows.flatten ≤ v ∧ v ≤ listMax r := by
  intro v
  have hsh := shiftRows_bounds rows r hr
  have b := rowMeanWith_bounds (w : Int) (by omega) w (shiftRows rows) _ (fun x hx => (hsh x hx).1)
  rw [sum_map_sub, hlen r hr] at b
  have e : r.sum - (w : Int) * listMin rows.flatten = r.sum + (w : Int) * (-listMin rows.flatten) := by
    rw [Int.mul_neg]; omega
  rw [e, Int.add_mul_ediv_left _ _ (by omega)] at b
  have hrne : r ≠ [] := by
    intro h; have := hlen r hr; rw [h] at this; simp at this; omega
  have hm := (floor_mean_mem r hrne).2
  rw [hlen r hr] at hm
  refine ⟨?_, ?_, ?_, ?_⟩ <;> (simp only [v]; omega)


theorem rowsOf_flatten_mem {α} (k : Nat) (l : List α) (x : α) (hx : x ∈ (rowsOf k l).flatten) : x ∈ l := by
  rw [rowsOf_eq] at hx
  rcases List.mem_flatten.mp hx with ⟨r, hr, hxr⟩
  rcases List.mem_map.mp hr with ⟨j, _, rfl⟩
  exact List.mem_of_mem_drop (List.mem_of_mem_take hxr)

/-! ## `int(1e9 / (1e9 / dt))` in exact binary64 arithmetic (deepening round D) -/


theorem mul_swap4 (X p q r : Nat) : X * p * (q * r) = X * q * (p * r) := by
  rw [Nat.mul_assoc, Nat.mul_assoc, Nat.mul_left_comm p q r]

theorem pow_shift (X Y a b a' b' : Nat) (h : X * 2 ^ a ≤ Y * 2 ^ b) (e : a + b' = b + a') :
    X * 2 ^ a' ≤ Y * 2 ^ b' := by
  apply Nat.le_of_mul_le_mul_right (c := 2 ^ (a + b')) _ (Nat.pow_pos (by omega))
  have h' := Nat.mul_le_mul_right (2 ^ (a' + b')) h
  have e1 : X * 2 ^ a' * 2 ^ (a + b') = X * 2 ^ a * 2 ^ (a' + b') := by
    rw [Nat.pow_add, Nat.pow_add, mul_swap4]
  have e2 : Y * 2 ^ b' * 2 ^ (a + b') = Y * 2 ^ b * 2 ^ (a' + b') := by
    rw [e, Nat.pow_add, Nat.pow_add, Nat.mul_comm (2 ^ a') (2 ^ b'), mul_swap4]
  rw [e1, e2]; exact h'

theorem scaled_core (p q lp lq c : Nat) (h1 : 2 ^ lp ≤ p) (h2 : q < 2 ^ (lq + 1)) :
    (q * 2 ^ (lp - (lq + (c + 1))) * 2 ^ (c + 1) ≤ p * 2 ^ ((lq + (c + 1)) - lp) →
      q * 2 ^ (lp - (lq + c)) * 2 ^ c ≤ p * 2 ^ ((lq + c) - lp)) ∧
    q * 2 ^ (lp - (lq + (c + 1))) * 2 ^ c ≤ p * 2 ^ ((lq + (c + 1)) - lp) := by
  constructor
  · intro h
    rw [Nat.mul_assoc, ← Nat.pow_add] at h ⊢
    exact pow_shift _ _ _ _ _ _ h (by omega)
  · have h3 : q * 2 ^ lp ≤ p * 2 ^ (lq + 1) := by
      have := Nat.mul_le_mul (Nat.le_of_lt h2) h1
      rw [Nat.mul_comm (2 ^ (lq + 1))] at this; exact this
    rw [Nat.mul_assoc, ← Nat.pow_add]
    exact pow_shift _ _ _ _ _ _ h3 (by omega)

/-- the chosen exponent scales the quotient to at least `2^c` -/
theorem rnExp_scaled (c p q : Nat) (hp : 0 < p) :
    q * 2 ^ (rnExp c p q).1 * 2 ^ c ≤ p * 2 ^ (rnExp c p q).2 := by
  have h1 : 2 ^ p.log2 ≤ p := Nat.log2_self_le (by omega)
  have h2 : q < 2 ^ (q.log2 + 1) := Nat.lt_log2_self
  have hc := scaled_core p q p.log2 q.log2 c h1 h2
  unfold rnExp
  by_cases h : q * 2 ^ (p.log2 - (q.log2 + (c + 1))) * 2 ^ (c + 1) ≤ p * 2 ^ ((q.log2 + (c + 1)) - p.log2)
  · rw [if_pos h]; exact hc.1 h
  · rw [if_neg h]; exact hc.2

theorem roundHalfEven_bounds (A B : Nat) (hB : 0 < B) :
    2 * (roundHalfEven A B * B) ≤ 2 * A + B ∧ 2 * A ≤ 2 * (roundHalfEven A B * B) + B := by
  have hdm := Nat.div_add_mod A B
  have hr := Nat.mod_lt A hB
  have e1 : (A / B + 1) * B = B * (A / B) + B := by rw [Nat.add_mul, Nat.mul_comm]; omega
  have e0 : A / B * B = B * (A / B) := Nat.mul_comm _ _
  unfold roundHalfEven
  simp only []
  split
  · rw [e0]; omega
  · split
    · rw [e1]; omega
    · split
      · rw [e0]; omega
      · rw [e1]; omega

/-- the relative error of one rounded division is at most `2^-53`, in cross-multiplied form -/
theorem rnDiv_err (p q : Nat) (hp : 0 < p) (hq : 0 < q) :
    0 < (rnDiv p q).2 ∧
    9007199254740992 * ((rnDiv p q).1 * q) ≤ 9007199254740993 * (p * (rnDiv p q).2) ∧
    9007199254740991 * (p * (rnDiv p q).2) ≤ 9007199254740992 * ((rnDiv p q).1 * q) := by
  have hs := rnExp_scaled 52 p q hp
  unfold rnDiv
  simp only []
  generalize (rnExp 52 p q).1 = u at hs ⊢
  generalize (rnExp 52 p q).2 = v at hs ⊢
  have hB : 0 < q * 2 ^ u := Nat.mul_pos hq (Nat.pow_pos (by omega))
  have hb := roundHalfEven_bounds (p * 2 ^ v) (q * 2 ^ u) hB
  have e : roundHalfEven (p * 2 ^ v) (q * 2 ^ u) * 2 ^ u * q
      = roundHalfEven (p * 2 ^ v) (q * 2 ^ u) * (q * 2 ^ u) := by
    rw [Nat.mul_assoc, Nat.mul_comm (2 ^ u) q]
  rw [e]
  generalize roundHalfEven (p * 2 ^ v) (q * 2 ^ u) * (q * 2 ^ u) = mB at hb ⊢
  generalize p * 2 ^ v = A at hs hb ⊢
  generalize q * 2 ^ u = B at hs hb hB ⊢
  refine ⟨Nat.pow_pos (by omega), ?_, ?_⟩ <;> omega

/-- two rounded divisions in a row: `n1/d1 ≈ E/dt`, `n2/d2 ≈ E/(n1/d1)`, each with relative error at most
    `1/K` (`Km = K − 1`, `Kp = K + 1`), give `Km·n2 ≤ Kp·dt·d2` and `Km·dt·d2 ≤ Kp·n2`. -/
theorem two_stage (K Km Kp E dt n1 d1 n2 d2 : Nat) (hK : 0 < K) (hKm : 0 < Km) (hE : 0 < E) (hdt : 0 < dt)
    (hd1 : 0 < d1)
    (S1u : K * (n1 * dt) ≤ Kp * (E * d1)) (S1l : Km * (E * d1) ≤ K * (n1 * dt))
    (S2u : K * (n2 * n1) ≤ Kp * (E * d1 * d2)) (S2l : Km * (E * d1 * d2) ≤ K * (n2 * n1)) :
    Km * n2 ≤ Kp * (dt * d2) ∧ Km * (dt * d2) ≤ Kp * n2 := by
  have hn1 : 0 < n1 := by
    rcases Nat.eq_zero_or_pos n1 with h | h
    · subst h
      have : 0 < Km * (E * d1) := Nat.mul_pos hKm (Nat.mul_pos hE hd1)
      simp at S1l; omega
    · exact h
  have hc : 0 < K * n1 := Nat.mul_pos hK hn1
  constructor
  · apply Nat.le_of_mul_le_mul_right (c := K * n1) _ hc
    have a := Nat.mul_le_mul_left Km S2u
    have b := Nat.mul_le_mul_left (Kp * d2) S1l
    have e1 : Km * n2 * (K * n1) = Km * (K * (n2 * n1)) := by ac_rfl
    have e2 : Km * (Kp * (E * d1 * d2)) = Kp * d2 * (Km * (E * d1)) := by ac_rfl
    have e3 : Kp * d2 * (K * (n1 * dt)) = Kp * (dt * d2) * (K * n1) := by ac_rfl
    rw [e1, ← e3]
    exact Nat.le_trans a (e2 ▸ b)
  · apply Nat.le_of_mul_le_mul_right (c := K * n1) _ hc
    have a := Nat.mul_le_mul_left (Km * d2) S1u
    have b := Nat.mul_le_mul_left Kp S2l
    have e1 : Km * (dt * d2) * (K * n1) = Km * d2 * (K * (n1 * dt)) := by ac_rfl
    have e2 : Km * d2 * (Kp * (E * d1)) = Kp * (Km * (E * d1 * d2)) := by ac_rfl
    have e3 : Kp * (K * (n2 * n1)) = Kp * n2 * (K * n1) := by ac_rfl
    rw [e1, ← e3]
    exact Nat.le_trans a (e2 ▸ b)


/-- the float round trip of a sample period loses at most one nanosecond, downwards -/
theorem deltaSoft_near (dt : Nat) (h1 : 1 ≤ dt) (h2 : dt ≤ 1000000000000000) :
    dt - 1 ≤ deltaSoft dt ∧ deltaSoft dt ≤ dt := by
  unfold deltaSoft
  simp only []
  have s1 := rnDiv_err 1000000000 dt (by omega) (by omega)
  generalize (rnDiv 1000000000 dt).1 = n1 at s1 ⊢
  generalize (rnDiv 1000000000 dt).2 = d1 at s1 ⊢
  have hn1 : 0 < n1 := by
    rcases Nat.eq_zero_or_pos n1 with h | h
    · subst h
      have : 0 < 1000000000 * d1 := Nat.mul_pos (by omega) s1.1
      omega
    · exact h
  have s2 := rnDiv_err (1000000000 * d1) n1 (Nat.mul_pos (by omega) s1.1) hn1
  generalize (rnDiv (1000000000 * d1) n1).1 = n2 at s2 ⊢
  generalize (rnDiv (1000000000 * d1) n1).2 = d2 at s2 ⊢
  have hd2 := s2.1
  have ts := two_stage 9007199254740992 9007199254740991 9007199254740993 1000000000 dt n1 d1 n2 d2
    (by omega) (by omega) (by omega) (by omega) s1.1 s1.2.1 s1.2.2 s2.2.1 s2.2.2
  have hY : dt * d2 ≤ 1000000000000000 * d2 := Nat.mul_le_mul_right d2 h2
  have hY1 : 1 * d2 ≤ dt * d2 := Nat.mul_le_mul_right d2 h1
  constructor
  · rw [Nat.le_div_iff_mul_le hd2, Nat.sub_mul]
    generalize dt * d2 = Y at ts hY hY1 ⊢
    omega
  · apply Nat.le_of_lt_succ
    rw [Nat.div_lt_iff_lt_mul hd2, Nat.succ_mul]
    generalize dt * d2 = Y at ts hY hY1 ⊢
    omega

theorem deltaSoft_one : deltaSoft 1 = 1 := by decide +kernel

example : deltaSoft 55 = 54 ∧ deltaSoft 57 = 56 ∧ deltaSoft 110 = 109 ∧ deltaSoft 12800 = 12800 ∧
    deltaSoft 100000000 = 100000000 := by decide +kernel

/-! ## zero-tolerant windows, frames with dead time, boundary count, longer channels (deepening round D) -/

theorem sum_filter_split {β} (f : β → Int) (p q : β → Bool) : ∀ (l : List β),
    ((l.filter p).map f).sum = ((l.filter (fun s => p s && q s)).map f).sum +
      ((l.filter (fun s => p s && !q s)).map f).sum
  | [] => by simp
  | a :: t => by
    have ih := sum_filter_split f p q t
    simp only [List.filter_cons]
    cases hp : p a <;> cases hq : q a <;> simp [ih] <;> omega

theorem sum_map_zero {β} (f : β → Int) : ∀ (l : List β), (∀ x ∈ l, f x = 0) → (l.map f).sum = 0
  | [], _ => by simp
  | a :: t, h => by
    simp only [List.map_cons, List.sum_cons, h a (by simp),
      sum_map_zero f t (fun x hx => h x (List.mem_cons_of_mem _ hx))]
    rfl

/-- `window_raw` for totals: elements of the full stream inside the window that are missing from the
    sub-stream may be present as long as their value is zero -/
theorem window_raw_sum {β} (δ dt : Int) (h1 : 1 ≤ δ) (h2 : δ ≤ dt) (key val : β → Int) (SP UP : List β)
    (hsep : Sep dt key SP) (hsub : UP.Sublist SP) (a b : Nat) (hab : a ≤ b) (hb : b < UP.length)
    (lo hi : Int) (hlo : lo = key (UP[a]'(by omega))) (hhi : hi = key UP[b])
    (hzero : ∀ s ∈ SP, lo ≤ key s → key s ≤ hi → key s ∉ UP.map key → val s = 0) :
    ((SP.filter (fun s => decide (lo ≤ key s) && decide (key s < hi + δ))).map val).sum
      = (((UP.drop a).take (b + 1 - a)).map val).sum ∧
    SP.filter (fun s => decide (lo ≤ key s) && decide (key s < hi + δ)) ≠ [] := by
  have hdt : 0 < dt := by omega
  constructor
  · rw [sum_filter_split val _ (fun s => decide (key s ∈ UP.map key))]
    have p1 : SP.filter (fun s => (decide (lo ≤ key s) && decide (key s < hi + δ)) && decide (key s ∈ UP.map key))
        = (UP.drop a).take (b + 1 - a) := by
      rw [← List.filter_filter, ← sublist_eq_filter_key hdt key hsep hsub]
      exact filter_window δ h1 key UP ((hsep.sublist hsub).mono h2) a b hab hb lo hi hlo hhi
    have z : ((SP.filter (fun s => (decide (lo ≤ key s) && decide (key s < hi + δ)) &&
        !decide (key s ∈ UP.map key))).map val).sum = 0 := by
      apply sum_map_zero
      intro s hs
      rcases List.mem_filter.mp hs with ⟨hsm, hc⟩
      simp only [Bool.and_eq_true, decide_eq_true_eq, Bool.not_eq_true', decide_eq_false_iff_not] at hc
      have hle : key s ≤ hi := by
        rcases Int.lt_or_le hi (key s) with h | h
        · have hbm : UP[b] ∈ SP := hsub.subset (List.getElem_mem _)
          have := hsep.of_key_lt hdt hbm hsm (by omega)
          omega
        · exact h
      exact hzero s hsm hc.1.1 hle hc.2
    rw [p1, z]
    omega
  · intro h
    have hm : UP[a]'(by omega) ∈ SP := hsub.subset (List.getElem_mem _)
    have hle := ((hsep.sublist hsub).mono (show (0 : Int) ≤ dt by omega)).getElem_le (by omega) (i := a) (j := b) (by omega) hab
    have : UP[a]'(by omega) ∈ SP.filter (fun s => decide (lo ≤ key s) && decide (key s < hi + δ)) := by
      rw [List.mem_filter]
      refine ⟨hm, ?_⟩
      simp only [Bool.and_eq_true, decide_eq_true_eq]
      omega
    rw [h] at this
    simp at this

/-- channel side: `downsampled_over(line ranges, np.sum)` yields, for every line, the total of the
    line's used data — provided every discarded sample inside a line carries a zero -/
theorem sumOver_blocks_zero (w : Wave) (data : List Int) (hlen : data.length = w.iw.length)
    (hdt : 0 < w.dt) (hs : 0 ≤ w.start) (k : Nat) (hk : w.pixelSize = some k) (P : Nat) (hP : 0 < P)
    (δ : Int) (h1 : 1 ≤ δ) (h2 : δ ≤ w.dt)
    (hzero : ∀ l, l < numBlocks (w.usedTs.length / k) P → ∀ s ∈ C01.samplesFrom w.start w.dt data,
      w.usedTs.getD (l * P * k) 0 ≤ s.1 →
      s.1 ≤ w.usedTs.getD (min ((l + 1) * P) (w.usedTs.length / k) * k - 1) 0 → s.1 ∉ w.usedTs → s.2 = 0)
    (rs : List (Int × Int)) (hrs : w.lineRangesExcl P δ = some rs) :
    sumOver ⟨w.start, w.dt, data⟩ rs =
      (List.range (numBlocks (w.usedTs.length / k) P)).map
        (blockSum (usedOf w.iw data) k (w.usedTs.length / k) P) := by
  have hk0 := pixelSize_pos w k hk
  rw [lineRangesExcl_spec w hdt hs k hk P hP δ] at hrs
  injection hrs with hrs
  subst hrs
  unfold Wave.numPix
  -- the sample stream of the channel and its used part
  have hSPfst : (C01.samplesFrom w.start w.dt data).map (·.1) = w.allTs := by
    rw [samplesFrom_fst, hlen]; rfl
  have hsepSP : Sep w.dt (fun s : C01.Sample => s.1) (C01.samplesFrom w.start w.dt data) := by
    have := allTs_sep w hdt
    rw [← hSPfst] at this
    exact List.pairwise_map.mp this
  have hUPfst : (usedOf w.iw (C01.samplesFrom w.start w.dt data)).map (·.1) = w.usedTs := by
    rw [usedOf_map, hSPfst]; rfl
  have hUPsnd : (usedOf w.iw (C01.samplesFrom w.start w.dt data)).map (·.2) = usedOf w.iw data := by
    rw [usedOf_map, samplesFrom_snd]
  have hUPlen : (usedOf w.iw (C01.samplesFrom w.start w.dt data)).length = w.usedTs.length := by
    rw [← hUPfst, List.length_map]
  -- facts per line
  have key : ∀ l, l < numBlocks (w.usedTs.length / k) P →
      (((C01.Cont.slice ⟨w.start, w.dt, data⟩ (w.usedTs.getD (l * P * k) 0)
        (w.usedTs.getD (min ((l + 1) * P) (w.usedTs.length / k) * k - 1) 0 + δ)).samples.map (·.2)).sum
      = ((((usedOf w.iw (C01.samplesFrom w.start w.dt data)).drop (l * P * k)).take
          ((min ((l + 1) * P) (w.usedTs.length / k) - l * P) * k)).map (·.2)).sum ∧
      (C01.Cont.slice ⟨w.start, w.dt, data⟩ (w.usedTs.getD (l * P * k) 0)
        (w.usedTs.getD (min ((l + 1) * P) (w.usedTs.length / k) * k - 1) 0 + δ)).samples ≠ []) ∧
      0 < (min ((l + 1) * P) (w.usedTs.length / k) - l * P) * k ∧
      l * P * k + (min ((l + 1) * P) (w.usedTs.length / k) - l * P) * k ≤ w.usedTs.length ∧
      w.start ≤ w.usedTs.getD (l * P * k) 0 ∧
      w.usedTs.getD (min ((l + 1) * P) (w.usedTs.length / k) * k - 1) 0 + δ
        ≤ w.start + (data.length : Int) * w.dt := by
    intro l hl
    have hlt := (lt_numBlocks_iff _ _ _ hP).mp hl
    have hP1 : (l + 1) * P = l * P + P := by rw [Nat.add_mul]; omega
    have hmin : l * P + 1 ≤ min ((l + 1) * P) (w.usedTs.length / k) := by omega
    have he1 : (l * P + 1) * k ≤ min ((l + 1) * P) (w.usedTs.length / k) * k := Nat.mul_le_mul_right _ hmin
    have he2 : min ((l + 1) * P) (w.usedTs.length / k) * k ≤ w.usedTs.length / k * k :=
      Nat.mul_le_mul_right _ (Nat.min_le_right _ _)
    have he3 := Nat.div_mul_le_self w.usedTs.length k
    rw [Nat.add_mul] at he1
    have hsub : (min ((l + 1) * P) (w.usedTs.length / k) - l * P) * k
        = min ((l + 1) * P) (w.usedTs.length / k) * k - 1 + 1 - l * P * k := by
      rw [Nat.sub_mul]; omega
    have ha : l * P * k < w.usedTs.length := by omega
    have hb : min ((l + 1) * P) (w.usedTs.length / k) * k - 1 < w.usedTs.length := by omega
    have hslice := C01.cont_slice_samples ⟨w.start, w.dt, data⟩ hdt (w.usedTs.getD (l * P * k) 0)
      (w.usedTs.getD (min ((l + 1) * P) (w.usedTs.length / k) * k - 1) 0 + δ)
    refine ⟨?_, by omega, by omega, ?_, ?_⟩
    · rw [hslice, hsub]
      have hlo : w.usedTs.getD (l * P * k) 0
          = ((usedOf w.iw (C01.samplesFrom w.start w.dt data))[l * P * k]'(by rw [hUPlen]; omega)).1 := by
        rw [getD_eq _ _ ha]
        simp only [← hUPfst, List.getElem_map]
      have hhi : w.usedTs.getD (min ((l + 1) * P) (w.usedTs.length / k) * k - 1) 0
          = ((usedOf w.iw (C01.samplesFrom w.start w.dt data))[min ((l + 1) * P) (w.usedTs.length / k) * k - 1]'(by rw [hUPlen]; omega)).1 := by
        rw [getD_eq _ _ hb]
        simp only [← hUPfst, List.getElem_map]
      exact window_raw_sum δ w.dt h1 h2 (fun s : C01.Sample => s.1) (fun s : C01.Sample => s.2) _ _ hsepSP
        (usedOf_sublist _ _) (l * P * k)
        (min ((l + 1) * P) (w.usedTs.length / k) * k - 1) (by omega) (by rw [hUPlen]; omega) _ _ hlo hhi
        (fun s hsm hl1 hl2 hnot => by
          rw [hUPfst] at hnot
          exact hzero l hl s hsm hl1 hl2 hnot)
    · rw [getD_eq _ _ ha]
      exact usedTs_ge w hdt _ (List.getElem_mem _)
    · rw [getD_eq _ _ hb, hlen]
      have hmem : w.usedTs[min ((l + 1) * P) (w.usedTs.length / k) * k - 1] ∈ w.allTs :=
        (usedTs_sublist w).subset (List.getElem_mem _)
      have := times_stop w.dt hdt _ _ _ hmem
      omega
  unfold sumOver
  rw [List.filter_eq_self.mpr]
  · rw [List.filterMap_map]
    apply filterMap_eq_map_of
    intro l hl
    have hl := List.mem_range.mp hl
    obtain ⟨⟨hsl, hne⟩, hpos, hle, _, _⟩ := key l hl
    simp only [Function.comp]
    rw [if_neg (by simpa using hne), hsl]
    simp only [blockSum, List.map_take, List.map_drop, hUPsnd]
  · intro r hr
    rcases List.mem_map.mp hr with ⟨l, hl, rfl⟩
    have hl := List.mem_range.mp hl
    obtain ⟨_, _, _, hc1, hc2⟩ := key l hl
    simp only [C01.Cont.stop]
    rw [Bool.and_eq_true]
    exact ⟨decide_eq_true hc1, decide_eq_true hc2⟩

theorem frameRanges_single_incl (w : Wave) (k : Nat) (hdt : 0 < w.dt)
    (hk : w.pixelSize = some k) (P L : Nat) (δ : Int)
    (h1 : numBlocks (w.usedTs.length / k) (L * P) = 1) :
    w.frameRanges P L true δ = w.frameRanges P L false δ := by
  unfold Wave.frameRanges
  rw [pixReduce_min w hdt k hk, pixReduce_max w hdt k hk]
  simp only [padRows_length, List.length_map, List.length_range]
  rw [if_pos h1, if_pos h1]

theorem count2_pixelCodes (k : Nat) : ((pixelCodes k).filter (· == 2)).length = 1 := by
  unfold pixelCodes
  rw [List.filter_append, List.filter_eq_nil_iff.mpr]
  · rfl
  · intro x hx
    rw [(List.mem_replicate.mp hx).2]; decide

theorem count2_pixels (k : Nat) : ∀ (m : Nat),
    ((List.replicate m (pixelCodes k)).flatten.filter (· == 2)).length = m
  | 0 => rfl
  | m + 1 => by
    rw [List.replicate_succ, List.flatten_cons, List.filter_append, List.length_append,
      count2_pixelCodes, count2_pixels k m]; omega

/-- a regular wave has one pixel-boundary code per complete pixel -/
theorem Wave.Regular.numBoundaries {w : Wave} {k m r : Nat} (h : w.Regular k m r) :
    w.numBoundaries = m := by
  obtain ⟨_, _, _, hs⟩ := h
  have e : w.iw.filter (· == 2) = w.subset.filter (· == 2) := by
    unfold Wave.subset
    rw [List.filter_filter]
    apply List.filter_congr
    intro x _
    by_cases hx : x = 2
    · subst hx; rfl
    · simp [hx]
  unfold Wave.numBoundaries
  rw [e, hs, List.filter_append, List.length_append, count2_pixels,
    List.filter_eq_nil_iff.mpr (by intro x hx; rw [(List.mem_replicate.mp hx).2]; decide)]
  rfl

theorem samplesFrom_append (dt : Int) : ∀ (A B : List Int) (t0 : Int),
    C01.samplesFrom t0 dt (A ++ B) = C01.samplesFrom t0 dt A ++ C01.samplesFrom (t0 + A.length * dt) dt B
  | [], B, t0 => by simp [C01.samplesFrom]
  | a :: A, B, t0 => by
    simp only [List.cons_append, C01.samplesFrom, samplesFrom_append dt A B (t0 + dt), List.length_cons]
    have : t0 + dt + (A.length : Int) * dt = t0 + ((A.length + 1 : Nat) : Int) * dt := by
      rw [Int.natCast_add, Int.add_mul]; omega
    rw [this]

theorem samplesFrom_time_bounds (dt : Int) (hdt : 0 < dt) (A : List Int) (t0 : Int) :
    ∀ s ∈ C01.samplesFrom t0 dt A, t0 ≤ s.1 ∧ s.1 + dt ≤ t0 + A.length * dt := by
  intro s hs
  have hm : s.1 ∈ times t0 dt A.length := by
    rw [← samplesFrom_fst]; exact List.mem_map_of_mem hs
  exact ⟨(times_sep dt hdt _ _).2 _ hm, times_stop dt hdt _ _ _ hm⟩

theorem filterMap_congr_mem {α β} (f g : α → Option β) : ∀ (l : List α), (∀ x ∈ l, f x = g x) →
    l.filterMap f = l.filterMap g
  | [], _ => rfl
  | a :: t, h => by
    rw [List.filterMap_cons, List.filterMap_cons, h a (by simp),
      filterMap_congr_mem f g t (fun x hx => h x (List.mem_cons_of_mem _ hx))]

/-- **A channel that extends beyond the acquisition gives the same reduction**: samples recorded before
    the first or after the last sample of the acquisition (`pre`, `post`, on the same sampling grid) never
    enter a range that lies within the acquisition. -/
theorem sumOver_extend (start dt : Int) (hdt : 0 < dt) (pre data post : List Int)
    (rs : List (Int × Int))
    (hcov : ∀ r ∈ rs, start ≤ r.1 ∧ r.2 ≤ start + data.length * dt) :
    sumOver ⟨start - pre.length * dt, dt, pre ++ (data ++ post)⟩ rs = sumOver ⟨start, dt, data⟩ rs := by
  have hpost : 0 ≤ (post.length : Int) * dt := Int.mul_nonneg (by omega) (by omega)
  have hpre : 0 ≤ (pre.length : Int) * dt := Int.mul_nonneg (by omega) (by omega)
  unfold sumOver
  rw [List.filter_eq_self.mpr, List.filter_eq_self.mpr]
  · apply filterMap_congr_mem
    intro r hr
    have hc := hcov r hr
    have e : (C01.Cont.slice ⟨start - pre.length * dt, dt, pre ++ (data ++ post)⟩ r.1 r.2).samples
        = (C01.Cont.slice ⟨start, dt, data⟩ r.1 r.2).samples := by
      rw [C01.cont_slice_samples _ hdt, C01.cont_slice_samples _ hdt]
      unfold C01.Cont.samples
      simp only []
      rw [samplesFrom_append, samplesFrom_append, List.filter_append, List.filter_append]
      have e0 : start - (pre.length : Int) * dt + (pre.length : Int) * dt = start := by omega
      rw [e0]
      have z1 : (C01.samplesFrom (start - pre.length * dt) dt pre).filter (C01.inWin r.1 r.2) = [] := by
        rw [List.filter_eq_nil_iff]
        intro s hs
        have := (samplesFrom_time_bounds dt hdt pre _ s hs).2
        simp only [C01.inWin, Bool.and_eq_true, decide_eq_true_eq, not_and]
        intro; omega
      have z2 : (C01.samplesFrom (start + data.length * dt) dt post).filter (C01.inWin r.1 r.2) = [] := by
        rw [List.filter_eq_nil_iff]
        intro s hs
        have := (samplesFrom_time_bounds dt hdt post _ s hs).1
        simp only [C01.inWin, Bool.and_eq_true, decide_eq_true_eq, not_and]
        intro; omega
      rw [z1, z2]; simp
    rw [e]
  · intro r hr
    have hc := hcov r hr
    simp only [C01.Cont.stop]
    rw [Bool.and_eq_true]
    exact ⟨decide_eq_true hc.1, decide_eq_true hc.2⟩
  · intro r hr
    have hc := hcov r hr
    simp only [C01.Cont.stop, List.length_append]
    rw [Bool.and_eq_true]
    have : ((pre.length + (data.length + post.length) : Nat) : Int) * dt
        = pre.length * dt + data.length * dt + post.length * dt := by
      rw [Int.natCast_add, Int.natCast_add, Int.add_mul, Int.add_mul]; omega
    refine ⟨decide_eq_true (by omega), decide_eq_true ?_⟩
    rw [this]; omega

/-! ## seconds as binary64 values (deepening round D) -/


theorem mul3_le {a1 a2 a3 b1 b2 b3 : Nat} (h1 : a1 ≤ b1) (h2 : a2 ≤ b2) (h3 : a3 ≤ b3) :
    a1 * a2 * a3 ≤ b1 * b2 * b3 := Nat.mul_le_mul (Nat.mul_le_mul h1 h2) h3

/-- three roundings in a row (`f ≈ N`, `c ≈ 1/E`, `s ≈ f·c`), each with relative error at most `1/K` -/
theorem three_stage (K Km Kp N E f1 f2 c1 c2 s1 s2 : Nat) (hf1 : 0 < f1) (hf2 : 0 < f2) (hc1 : 0 < c1)
    (hc2 : 0 < c2)
    (Fu : K * (f1 * 1) ≤ Kp * (N * f2)) (Fl : Km * (N * f2) ≤ K * (f1 * 1))
    (Cu : K * (c1 * E) ≤ Kp * (1 * c2)) (Cl : Km * (1 * c2) ≤ K * (c1 * E))
    (Su : K * (s1 * (f2 * c2)) ≤ Kp * (f1 * c1 * s2)) (Sl : Km * (f1 * c1 * s2) ≤ K * (s1 * (f2 * c2))) :
    K * K * K * (s1 * E) ≤ Kp * Kp * Kp * (N * s2) ∧ Km * Km * Km * (N * s2) ≤ K * K * K * (s1 * E) := by
  have hC : 0 < f1 * c1 * (f2 * c2) := Nat.mul_pos (Nat.mul_pos hf1 hc1) (Nat.mul_pos hf2 hc2)
  constructor
  · apply Nat.le_of_mul_le_mul_right (c := f1 * c1 * (f2 * c2)) _ hC
    have h := mul3_le Fu Cu Su
    have e1 : K * K * K * (s1 * E) * (f1 * c1 * (f2 * c2))
        = K * (f1 * 1) * (K * (c1 * E)) * (K * (s1 * (f2 * c2))) := by
      simp only [Nat.mul_one]; ac_rfl
    have e2 : Kp * Kp * Kp * (N * s2) * (f1 * c1 * (f2 * c2))
        = Kp * (N * f2) * (Kp * (1 * c2)) * (Kp * (f1 * c1 * s2)) := by
      simp only [Nat.one_mul]; ac_rfl
    rw [e1, e2]; exact h
  · apply Nat.le_of_mul_le_mul_right (c := f1 * c1 * (f2 * c2)) _ hC
    have h := mul3_le Fl Cl Sl
    have e1 : K * K * K * (s1 * E) * (f1 * c1 * (f2 * c2))
        = K * (f1 * 1) * (K * (c1 * E)) * (K * (s1 * (f2 * c2))) := by
      simp only [Nat.mul_one]; ac_rfl
    have e2 : Km * Km * Km * (N * s2) * (f1 * c1 * (f2 * c2))
        = Km * (N * f2) * (Km * (1 * c2)) * (Km * (f1 * c1 * s2)) := by
      simp only [Nat.one_mul]; ac_rfl
    rw [e1, e2]; exact h

theorem rnDiv_pos (p q : Nat) (hp : 0 < p) (hq : 0 < q) : 0 < (rnDiv p q).1 ∧ 0 < (rnDiv p q).2 := by
  have h := rnDiv_err p q hp hq
  refine ⟨?_, h.1⟩
  rcases Nat.eq_zero_or_pos (rnDiv p q).1 with h0 | h0
  · rw [h0] at h
    have : 0 < p * (rnDiv p q).2 := Nat.mul_pos hp h.1
    omega
  · exact h0

/-- `float(N) * 1e-9` is within `(1 ± 2⁻⁵³)³` of `N·10⁻⁹` (cross-multiplied) -/
theorem secondsOf_err (N : Nat) (hN : 0 < N) :
    0 < (secondsOf N).2 ∧
    9007199254740992 * 9007199254740992 * 9007199254740992 * ((secondsOf N).1 * 1000000000)
      ≤ 9007199254740993 * 9007199254740993 * 9007199254740993 * (N * (secondsOf N).2) ∧
    9007199254740991 * 9007199254740991 * 9007199254740991 * (N * (secondsOf N).2)
      ≤ 9007199254740992 * 9007199254740992 * 9007199254740992 * ((secondsOf N).1 * 1000000000) := by
  unfold secondsOf
  rw [if_neg (by omega)]
  simp only []
  have hf := rnDiv_err N 1 hN (by omega)
  have hfp := rnDiv_pos N 1 hN (by omega)
  have hc := rnDiv_err 1 1000000000 (by omega) (by omega)
  have hcp := rnDiv_pos 1 1000000000 (by omega) (by omega)
  generalize rnDiv N 1 = f at hf hfp ⊢
  generalize rnDiv 1 1000000000 = c at hc hcp ⊢
  have hs := rnDiv_err (f.1 * c.1) (f.2 * c.2) (Nat.mul_pos hfp.1 hcp.1) (Nat.mul_pos hfp.2 hcp.2)
  generalize rnDiv (f.1 * c.1) (f.2 * c.2) = s at hs ⊢
  exact ⟨hs.1, three_stage _ _ _ N 1000000000 f.1 f.2 c.1 c.2 s.1 s.2 hfp.1 hfp.2 hcp.1 hcp.2
    hf.2.1 hf.2.2 hc.2.1 hc.2.2 hs.2.1 hs.2.2⟩

/-- `x * n` in binary64 is within `(1 ± 2⁻⁵³)²` of the exact product -/
theorem timesNat_err (x : Nat × Nat) (n : Nat) (hx1 : 0 < x.1) (hx2 : 0 < x.2) (hn : 0 < n) :
    0 < (timesNat x n).2 ∧
    9007199254740992 * 9007199254740992 * ((timesNat x n).1 * x.2)
      ≤ 9007199254740993 * 9007199254740993 * (x.1 * n * (timesNat x n).2) ∧
    9007199254740991 * 9007199254740991 * (x.1 * n * (timesNat x n).2)
      ≤ 9007199254740992 * 9007199254740992 * ((timesNat x n).1 * x.2) := by
  unfold timesNat
  rw [if_neg (by omega)]
  simp only []
  have hf := rnDiv_err n 1 hn (by omega)
  have hfp := rnDiv_pos n 1 hn (by omega)
  generalize rnDiv n 1 = f at hf hfp ⊢
  have hs := rnDiv_err (x.1 * f.1) (x.2 * f.2) (Nat.mul_pos hx1 hfp.1) (Nat.mul_pos hx2 hfp.2)
  generalize rnDiv (x.1 * f.1) (x.2 * f.2) = s at hs ⊢
  refine ⟨hs.1, ?_, ?_⟩
  · apply Nat.le_of_mul_le_mul_right (c := f.1 * f.2) _ (Nat.mul_pos hfp.1 hfp.2)
    have h := Nat.mul_le_mul hf.2.1 hs.2.1
    have e1 : 9007199254740992 * 9007199254740992 * (s.1 * x.2) * (f.1 * f.2)
        = 9007199254740992 * (f.1 * 1) * (9007199254740992 * (s.1 * (x.2 * f.2))) := by
      simp only [Nat.mul_one]; ac_rfl
    have e2 : 9007199254740993 * 9007199254740993 * (x.1 * n * s.2) * (f.1 * f.2)
        = 9007199254740993 * (n * f.2) * (9007199254740993 * (x.1 * f.1 * s.2)) := by ac_rfl
    rw [e1, e2]; exact h
  · apply Nat.le_of_mul_le_mul_right (c := f.1 * f.2) _ (Nat.mul_pos hfp.1 hfp.2)
    have h := Nat.mul_le_mul hf.2.2 hs.2.2
    have e1 : 9007199254740992 * 9007199254740992 * (s.1 * x.2) * (f.1 * f.2)
        = 9007199254740992 * (f.1 * 1) * (9007199254740992 * (s.1 * (x.2 * f.2))) := by
      simp only [Nat.mul_one]; ac_rfl
    have e2 : 9007199254740991 * 9007199254740991 * (x.1 * n * s.2) * (f.1 * f.2)
        = 9007199254740991 * (n * f.2) * (9007199254740991 * (x.1 * f.1 * s.2)) := by ac_rfl
    rw [e1, e2]; exact h

/-- the fraction `s` lies within `(1 ± 2⁻⁵³)³` of `a / b` -/
def Within3 (s : Nat × Nat) (a b : Nat) : Prop :=
  0 < s.2 ∧
  9007199254740992 * 9007199254740992 * 9007199254740992 * (s.1 * b)
    ≤ 9007199254740993 * 9007199254740993 * 9007199254740993 * (a * s.2) ∧
  9007199254740991 * 9007199254740991 * 9007199254740991 * (a * s.2)
    ≤ 9007199254740992 * 9007199254740992 * 9007199254740992 * (s.1 * b)

/-- the fraction `s` lies within `(1 ± 2⁻⁵³)²` of `a / b` -/
def Within2 (s : Nat × Nat) (a b : Nat) : Prop :=
  0 < s.2 ∧
  9007199254740992 * 9007199254740992 * (s.1 * b) ≤ 9007199254740993 * 9007199254740993 * (a * s.2) ∧
  9007199254740991 * 9007199254740991 * (a * s.2) ≤ 9007199254740992 * 9007199254740992 * (s.1 * b)

theorem toNat_natCast_mul (k : Nat) (dt : Int) (hdt : 0 < dt) : ((k : Int) * dt).toNat = k * dt.toNat := by
  obtain ⟨n, rfl⟩ := Int.eq_ofNat_of_zero_le (Int.le_of_lt hdt)
  rw [← Int.natCast_mul, Int.toNat_natCast, Int.toNat_natCast]

theorem intMeanSplits_le (a : List Int) : intMeanSplits a ≤ a.length - 1 := by
  induction a using intMean.induct with
  | case1 a h ih1 ih2 =>
    rw [intMeanSplits_node h]
    simp only [List.length_take, List.length_drop] at ih1 ih2
    omega
  | case2 a h => rw [intMeanSplits_leaf h]; omega

/-! ## the shape of waves with dead time only between lines; the C02 geometries have it (deepening round D) -/

/-- The info waves "with dead time only between lines" (C02's geometries, any lead-in, any dead time,
    any truncation): discarded samples, then lines of exactly `B` used samples each followed by any
    number of discarded samples, the last line possibly shorter and followed only by discarded
    samples. -/
inductive LinesOk (B : Nat) : List Nat → Prop
  | nil : LinesOk B []
  | zero {t : List Nat} : LinesOk B t → LinesOk B (0 :: t)
  | line {U t : List Nat} : U.length = B → (∀ c ∈ U, c ≠ 0) → LinesOk B t → LinesOk B (U ++ t)
  | last {U Z : List Nat} : U.length ≤ B → (∀ c ∈ U, c ≠ 0) → (∀ c ∈ Z, c = 0) → LinesOk B (U ++ Z)

theorem usedOf_all_zero {α} : ∀ (Z : List Nat) (xs : List α), (∀ c ∈ Z, c = 0) → usedOf Z xs = []
  | [], xs, _ => by cases xs <;> simp [usedOf]
  | c :: cs, [], _ => by simp [usedOf]
  | c :: cs, x :: xs, h => by
    have hc := h c (by simp)
    subst hc
    simp only [usedOf, if_true]
    exact usedOf_all_zero cs xs (fun c hc => h c (List.mem_cons_of_mem _ hc))

theorem getD_mem (l : List Int) (i : Nat) (h : i < l.length) : l.getD i 0 ∈ l := by
  rw [getD_eq _ _ h]; exact List.getElem_mem _

theorem getD_append_l (l1 l2 : List Int) (i : Nat) (h : i < l1.length) :
    (l1 ++ l2).getD i 0 = l1.getD i 0 := by
  simp only [List.getD_eq_getElem?_getD, List.getElem?_append_left h]

theorem getD_append_r (l1 l2 : List Int) (i : Nat) (h : l1.length ≤ i) :
    (l1 ++ l2).getD i 0 = l2.getD (i - l1.length) 0 := by
  simp only [List.getD_eq_getElem?_getD, List.getElem?_append_right h]

theorem times_lo (dt : Int) (hdt : 0 < dt) (n : Nat) (t0 : Int) : ∀ y ∈ times t0 dt n, t0 ≤ y :=
  (times_sep dt hdt n t0).2

/-- in a wave of that shape no discarded sample lies between the first and the last used sample of a
    line -/
theorem linesOk_cont (B : Nat) (hB : 0 < B) (dt : Int) (hdt : 0 < dt) (iw : List Nat) (h : LinesOk B iw) :
    ∀ (t0 : Int) (l : Nat), l * B < (usedOf iw (times t0 dt iw.length)).length →
    ∀ t ∈ times t0 dt iw.length,
      (usedOf iw (times t0 dt iw.length)).getD (l * B) 0 ≤ t →
      t ≤ (usedOf iw (times t0 dt iw.length)).getD
        (min ((l + 1) * B) (usedOf iw (times t0 dt iw.length)).length - 1) 0 →
      t ∈ usedOf iw (times t0 dt iw.length) := by
  induction h with
  | nil => intro t0 l hl; simp [usedOf] at hl
  | @zero tl _ ih =>
    intro t0 l hl t ht hlo hhi
    simp only [List.length_cons, times, usedOf, if_true] at hl ht hlo hhi ⊢
    rcases List.mem_cons.mp ht with h0 | h0
    · have hm := getD_mem _ _ hl
      have := times_lo dt hdt _ _ _ ((usedOf_sublist _ _).subset hm)
      omega
    · exact ih (t0 + dt) l hl t h0 hlo hhi
  | @line U tl hU hnz _ ih =>
    intro t0 l hl t ht hlo hhi
    have e1 : times t0 dt (U ++ tl).length = times t0 dt B ++ times (t0 + B * dt) dt tl.length := by
      rw [List.length_append, hU, times_add]
    have e2 : usedOf (U ++ tl) (times t0 dt (U ++ tl).length)
        = times t0 dt B ++ usedOf tl (times (t0 + B * dt) dt tl.length) := by
      rw [e1, usedOf_append _ _ _ _ (by rw [times_length, hU]),
        usedOf_nonzero U _ hnz (by rw [times_length, hU])]
    rw [e2] at hl hlo hhi ⊢
    rw [e1] at ht
    simp only [List.length_append, times_length] at hl hhi
    have hA1 : ∀ y ∈ times t0 dt B, y + dt ≤ t0 + B * dt := times_stop dt hdt B t0
    have hA2 : ∀ y ∈ times (t0 + B * dt) dt tl.length, t0 + B * dt ≤ y := times_lo dt hdt _ _
    rcases Nat.eq_zero_or_pos l with hl0 | hl0
    · subst hl0
      -- the first line: its last sample is the last element of the first block
      have hidx : min ((0 + 1) * B) (B + (usedOf tl (times (t0 + B * dt) dt tl.length)).length) - 1 = B - 1 := by
        rw [Nat.zero_add, Nat.one_mul, Nat.min_eq_left (by omega)]
      rw [hidx, getD_append_l _ _ _ (by rw [times_length]; omega)] at hhi
      have hm := getD_mem (times t0 dt B) (B - 1) (by rw [times_length]; omega)
      have := hA1 _ hm
      rcases List.mem_append.mp ht with h1 | h2
      · exact List.mem_append_left _ h1
      · have := hA2 _ h2; omega
    · obtain ⟨l', rfl⟩ : ∃ l', l = l' + 1 := ⟨l - 1, by omega⟩
      have hmul : (l' + 1) * B = B + l' * B := by rw [Nat.add_mul]; omega
      have hmul2 : (l' + 1 + 1) * B = B + (l' + 1) * B := by rw [Nat.add_mul (l' + 1) 1 B]; omega
      have hl' : l' * B < (usedOf tl (times (t0 + B * dt) dt tl.length)).length := by omega
      rw [hmul, getD_append_r _ _ _ (by rw [times_length]; omega), times_length,
        Nat.add_sub_cancel_left] at hlo
      have hidx : min ((l' + 1 + 1) * B) (B + (usedOf tl (times (t0 + B * dt) dt tl.length)).length) - 1
          = B + (min ((l' + 1) * B) (usedOf tl (times (t0 + B * dt) dt tl.length)).length - 1) := by
        rw [hmul2]; omega
      rw [hidx, getD_append_r _ _ _ (by rw [times_length]; omega), times_length,
        Nat.add_sub_cancel_left] at hhi
      have hm := getD_mem _ _ hl'
      have hge := hA2 _ ((usedOf_sublist _ _).subset hm)
      rcases List.mem_append.mp ht with h1 | h2
      · have := hA1 _ h1; omega
      · exact List.mem_append_right _ (ih (t0 + B * dt) l' hl' t h2 hlo hhi)
  | @last U Z hU hnz hz =>
    intro t0 l hl t ht hlo hhi
    have e1 : times t0 dt (U ++ Z).length = times t0 dt U.length ++ times (t0 + U.length * dt) dt Z.length := by
      rw [List.length_append, times_add]
    have e2 : usedOf (U ++ Z) (times t0 dt (U ++ Z).length) = times t0 dt U.length := by
      rw [e1, usedOf_append _ _ _ _ (by rw [times_length]),
        usedOf_nonzero U _ hnz (by rw [times_length]), usedOf_all_zero Z _ hz, List.append_nil]
    rw [e2] at hl hlo hhi ⊢
    rw [e1] at ht
    simp only [times_length] at hl hhi
    have hA1 : ∀ y ∈ times t0 dt U.length, y + dt ≤ t0 + U.length * dt := times_stop dt hdt _ t0
    have hA2 : ∀ y ∈ times (t0 + U.length * dt) dt Z.length, t0 + U.length * dt ≤ y := times_lo dt hdt _ _
    have hm := getD_mem (times t0 dt U.length) (min ((l + 1) * B) U.length - 1)
      (by rw [times_length]; omega)
    have := hA1 _ hm
    rcases List.mem_append.mp ht with h1 | h2
    · exact h1
    · have := hA2 _ h2; omega

/-- the semantic hypothesis `hcont` of `line_range_exact_raw` / `sum_over_ranges_eq_image` follows from
    the shape of the info wave -/
theorem hcont_of_linesOk (w : Wave) (hdt : 0 < w.dt) (k : Nat) (hk : w.pixelSize = some k) (P : Nat)
    (hP : 0 < P) (hok : LinesOk (P * k) w.iw) :
    ∀ l, l < numBlocks (w.usedTs.length / k) P → ∀ t ∈ w.allTs,
      w.usedTs.getD (l * P * k) 0 ≤ t →
      t ≤ w.usedTs.getD (min ((l + 1) * P) (w.usedTs.length / k) * k - 1) 0 → t ∈ w.usedTs := by
  intro l hl t ht hlo hhi
  have hk0 := pixelSize_pos w k hk
  have hlt := (lt_numBlocks_iff _ _ _ hP).mp hl
  have hm := mul_succ_le_of_lt_div _ _ _ hk0 hlt
  have he3 := Nat.div_mul_le_self w.usedTs.length k
  have he2 : min ((l + 1) * P) (w.usedTs.length / k) * k ≤ w.usedTs.length / k * k :=
    Nat.mul_le_mul_right _ (Nat.min_le_right _ _)
  have he4 : min ((l + 1) * P) (w.usedTs.length / k) * k ≤ (l + 1) * P * k :=
    Nat.mul_le_mul_right _ (Nat.min_le_left _ _)
  have hP1 : (l + 1) * P = l * P + P := by rw [Nat.add_mul]; omega
  have he1 : (l * P + 1) * k ≤ min ((l + 1) * P) (w.usedTs.length / k) * k :=
    Nat.mul_le_mul_right _ (by omega)
  rw [Nat.add_mul] at he1
  have a1 : l * (P * k) = l * P * k := (Nat.mul_assoc _ _ _).symm
  have a2 : (l + 1) * (P * k) = (l + 1) * P * k := (Nat.mul_assoc _ _ _).symm
  have hU : w.usedTs = usedOf w.iw (times w.start w.dt w.iw.length) := rfl
  have hc := linesOk_cont (P * k) (Nat.mul_pos hP hk0) w.dt hdt w.iw hok w.start l
    (by rw [← hU, a1]; omega) t ht (by rw [← hU, a1]; exact hlo)
  rw [← hU] at hc
  apply hc
  rw [a2]
  have hsep := usedTs_sep w hdt
  have hle := hsep.getElem_le (by omega)
    (i := min ((l + 1) * P) (w.usedTs.length / k) * k - 1)
    (j := min ((l + 1) * P * k) w.usedTs.length - 1) (by omega) (by omega)
  simp only [id] at hle
  rw [getD_eq _ _ (by omega)] at hhi
  rw [getD_eq _ _ (by omega)]
  omega


theorem linesOk_zeros_append (B : Nat) (t : List Nat) (h : LinesOk B t) : ∀ (n : Nat),
    LinesOk B (List.replicate n 0 ++ t)
  | 0 => by simpa using h
  | n + 1 => by
    rw [List.replicate_succ, List.cons_append]
    exact LinesOk.zero (linesOk_zeros_append B t h n)

theorem linesOk_zeros (B n : Nat) : LinesOk B (List.replicate n 0) := by
  have := linesOk_zeros_append B [] LinesOk.nil n
  simpa using this

theorem geomPixel_length (k : Nat) (hk : 0 < k) : (geomPixel k).length = k := by
  simp [geomPixel]; omega

theorem geomPixel_nonzero (k : Nat) : ∀ c ∈ geomPixel k, c ≠ 0 := by
  intro c hc
  simp only [geomPixel, List.mem_append, List.mem_replicate, List.mem_singleton] at hc
  rcases hc with ⟨_, rfl⟩ | rfl <;> decide

theorem geomPixels_length (k : Nat) (hk : 0 < k) : ∀ (P : Nat),
    (List.replicate P (geomPixel k)).flatten.length = P * k
  | 0 => by simp
  | P + 1 => by
    rw [List.replicate_succ, List.flatten_cons, List.length_append, geomPixels_length k hk P,
      geomPixel_length k hk, Nat.add_mul]; omega

theorem geomPixels_nonzero (k P : Nat) : ∀ c ∈ (List.replicate P (geomPixel k)).flatten, c ≠ 0 := by
  intro c hc
  rcases List.mem_flatten.mp hc with ⟨p, hp, hcp⟩
  rw [(List.mem_replicate.mp hp).2] at hcp
  exact geomPixel_nonzero k c hcp

theorem geomLines_ok (k P dead tail : Nat) (hk : 0 < k) : ∀ (lines : Nat),
    LinesOk (P * k) ((List.replicate lines (geomLine k P dead)).flatten ++ List.replicate tail 0)
  | 0 => by simpa using linesOk_zeros (P * k) tail
  | n + 1 => by
    rw [List.replicate_succ, List.flatten_cons, geomLine, List.append_assoc, List.append_assoc]
    exact LinesOk.line (geomPixels_length k hk P) (geomPixels_nonzero k P)
      (linesOk_zeros_append _ _ (geomLines_ok k P dead tail hk n) dead)

theorem LinesOk.take {B : Nat} {l : List Nat} (h : LinesOk B l) : ∀ (n : Nat), LinesOk B (l.take n) := by
  induction h with
  | nil => intro n; simpa using LinesOk.nil
  | zero _ ih =>
    intro n
    cases n with
    | zero => simpa using LinesOk.nil
    | succ n => rw [List.take_succ_cons]; exact LinesOk.zero (ih n)
  | @line U t hU hnz _ ih =>
    intro n
    rw [List.take_append]
    by_cases hn : n ≤ U.length
    · have : t.take (n - U.length) = [] := by simp [Nat.sub_eq_zero_of_le hn]
      rw [this]
      exact LinesOk.last (by simp only [List.length_take]; omega)
        (fun c hc => hnz c (List.mem_of_mem_take hc)) (by simp)
    · rw [List.take_of_length_le (by omega)]
      exact LinesOk.line hU hnz (ih _)
  | @last U Z hU hnz hz =>
    intro n
    rw [List.take_append]
    exact LinesOk.last (by simp only [List.length_take]; omega)
      (fun c hc => hnz c (List.mem_of_mem_take hc)) (fun c hc => hz c (List.mem_of_mem_take hc))

/-- every C02 kymograph geometry, truncated anywhere, has the shape `LinesOk` -/
theorem geomKymo_linesOk (lead k P dead lines tail n : Nat) (hk : 0 < k) :
    LinesOk (P * k) ((geomKymo lead k P dead lines tail).take n) :=
  (linesOk_zeros_append _ _ (geomLines_ok k P dead tail hk lines) lead).take n

theorem filter_take_prefix {α} (p : α → Bool) : ∀ (l : List α) (n : Nat),
    (l.take n).filter p = (l.filter p).take ((l.take n).filter p).length
  | [], n => by simp
  | a :: t, 0 => by simp
  | a :: t, n + 1 => by
    rw [List.take_succ_cons, List.filter_cons, List.filter_cons]
    cases hp : p a
    · simp only [Bool.false_eq_true, if_false]; exact filter_take_prefix p t n
    · simp only [if_true, List.length_cons, List.take_succ_cons]
      rw [← filter_take_prefix p t n]

theorem filter_nonzero_zeros (n : Nat) : (List.replicate n 0).filter (· ≠ 0) = [] := by
  rw [List.filter_eq_nil_iff]; intro c hc; rw [(List.mem_replicate.mp hc).2]; decide

theorem filter_nonzero_self (l : List Nat) (h : ∀ c ∈ l, c ≠ 0) : l.filter (· ≠ 0) = l := by
  rw [List.filter_eq_self]; intro c hc; simpa using h c hc

theorem geomLines_subset (k P dead : Nat) : ∀ (lines : Nat),
    ((List.replicate lines (geomLine k P dead)).flatten).filter (· ≠ 0)
      = (List.replicate (lines * P) (geomPixel k)).flatten
  | 0 => by simp
  | n + 1 => by
    rw [List.replicate_succ, List.flatten_cons, List.filter_append, geomLines_subset k P dead n, geomLine,
      List.filter_append, filter_nonzero_zeros, List.append_nil,
      filter_nonzero_self _ (geomPixels_nonzero k P), Nat.add_mul, Nat.one_mul, Nat.add_comm (n * P) P,
      ← List.replicate_append_replicate, List.flatten_append]

theorem geomKymo_subset (lead k P dead lines tail : Nat) :
    (geomKymo lead k P dead lines tail).filter (· ≠ 0) = (List.replicate (lines * P) (geomPixel k)).flatten := by
  rw [geomKymo, List.filter_append, List.filter_append, filter_nonzero_zeros, filter_nonzero_zeros,
    geomLines_subset]
  simp

theorem take_geomPixel (k r : Nat) (hr : r < k) : (geomPixel k).take r = List.replicate r 1 := by
  rw [geomPixel, List.take_append_of_le_length (by simp; omega), List.take_replicate,
    Nat.min_eq_left (by omega)]

theorem take_geomPixels (k : Nat) (hk : 0 < k) : ∀ (M n : Nat), n ≤ M * k →
    ((List.replicate M (geomPixel k)).flatten).take n
      = (List.replicate (n / k) (geomPixel k)).flatten ++ List.replicate (n % k) 1
  | 0, n, h => by
    have : n = 0 := by omega
    subst this; simp
  | M + 1, n, h => by
    rw [List.replicate_succ, List.flatten_cons]
    by_cases hn : n < k
    · rw [List.take_append_of_le_length (by rw [geomPixel_length k hk]; omega), take_geomPixel k n hn,
        Nat.div_eq_of_lt hn, Nat.mod_eq_of_lt hn]
      simp
    · obtain ⟨j, rfl⟩ : ∃ j, n = k + j := ⟨n - k, by omega⟩
      have hj : j ≤ M * k := by rw [Nat.add_mul] at h; omega
      rw [List.take_append, geomPixel_length k hk, List.take_of_length_le (by rw [geomPixel_length k hk]; omega),
        Nat.add_sub_cancel_left, take_geomPixels k hk M j hj, Nat.add_div_left j hk, Nat.add_mod_left,
        List.replicate_succ, List.flatten_cons, List.append_assoc]

/-- every C02 kymograph geometry, truncated anywhere after its first complete pixel, is `Regular` -/
theorem geomKymo_regular (w : Wave) (lead k P dead lines tail n : Nat) (hk : 0 < k)
    (hiw : w.iw = (geomKymo lead k P dead lines tail).take n) (hpix : k ≤ w.subset.length) :
    w.Regular k (w.subset.length / k) (w.subset.length % k) := by
  have hsub : w.subset = ((List.replicate (lines * P) (geomPixel k)).flatten).take w.subset.length := by
    conv => lhs; unfold Wave.subset; rw [hiw, filter_take_prefix, geomKymo_subset]
    congr 1
    unfold Wave.subset; rw [hiw]
  have hle : w.subset.length ≤ lines * P * k := by
    have := congrArg List.length hsub
    rw [List.length_take, geomPixels_length k hk] at this
    omega
  refine ⟨hk, Nat.div_pos hpix hk, Nat.mod_lt _ hk, ?_⟩
  conv => lhs; rw [hsub]
  exact take_geomPixels k hk _ _ hle

/-! ## scan frames as an index function -/

theorem take_drop_map_range (g : Nat → Int) (N s n : Nat) (h : s + n ≤ N) :
    (((List.range N).map g).drop s).take n = (List.range n).map fun b => g (s + b) := by
  apply List.ext_getElem?
  intro i
  by_cases hi : i < n
  · rw [List.getElem?_take_of_lt hi, List.getElem?_drop, List.getElem?_map, List.getElem?_map,
      List.getElem?_range (by omega), List.getElem?_range hi]
    rfl
  · rw [List.getElem?_eq_none (by simp only [List.length_take]; omega),
      List.getElem?_eq_none (by simp; omega)]

theorem scanFrames_eq (P L : Nat) (flip : Bool) (pix : List Int) :
    scanFrames P L flip pix = (List.range (numBlocks pix.length (L * P))).map fun f =>
      if flip then (List.range P).map fun a => (List.range L).map fun b => pix.getD (f * (L * P) + (b * P + a)) 0
      else (List.range L).map fun a => (List.range P).map fun b => pix.getD (f * (L * P) + (a * P + b)) 0 := by
  unfold scanFrames
  rw [padRows_eq, List.map_map]
  apply List.map_congr_left
  intro f _
  simp only [Function.comp]
  have hlines : takeRows P L ((List.range (L * P)).map fun r => pix.getD (f * (L * P) + r) 0)
      = (List.range L).map fun a => (List.range P).map fun b => pix.getD (f * (L * P) + (a * P + b)) 0 := by
    rw [takeRows_eq_map_range]
    apply List.map_congr_left
    intro a ha
    have ha := List.mem_range.mp ha
    rw [take_drop_map_range _ _ _ _ (by
      have : (a + 1) * P ≤ L * P := Nat.mul_le_mul_right _ (by omega)
      rw [Nat.add_mul] at this; omega)]
  rw [hlines]
  cases flip
  · simp
  · simp only [if_true]
    unfold transposeN
    apply List.map_congr_left
    intro a ha
    have ha := List.mem_range.mp ha
    rw [List.map_map]
    apply List.map_congr_left
    intro b _
    simp only [Function.comp]
    rw [getD_map_range _ _ _ ha]

/-- in a strictly increasing stream the half-open window `[l[a], l[b+1])` selects the elements `a … b` -/
theorem filter_window_next (l : List Int) (h : Sep 1 id l) (a b : Nat) (hab : a ≤ b)
    (hb : b + 1 < l.length) :
    l.filter (fun t => decide (l[a]'(by omega) ≤ t) && decide (t < l[b + 1]))
      = (l.drop a).take (b + 1 - a) := by
  rw [← filter_window 1 (by omega) id l h a b hab (by omega) (l[a]'(by omega)) (l[b]'(by omega)) rfl rfl]
  apply List.filter_congr
  intro t ht
  rcases List.getElem_of_mem ht with ⟨i, hi, rfl⟩
  simp only [id]
  by_cases hib : i ≤ b
  · have h1 := h.getElem_le (by omega) (i := i) (j := b) (by omega) hib
    have h2 := h.getElem_lt (i := b) (j := b + 1) hb (by omega)
    simp only [id] at h1 h2
    have e1 : decide (l[i] < l[b + 1]) = true := decide_eq_true (by omega)
    have e2 : decide (l[i] < l[b] + 1) = true := decide_eq_true (by omega)
    rw [e1, e2]
  · have h1 := h.getElem_le (by omega) (i := b + 1) (j := i) hi (by omega)
    have h2 := h.getElem_lt (i := b) (j := i) hi (by omega)
    simp only [id] at h1 h2
    have e1 : decide (l[i] < l[b + 1]) = false := decide_eq_false (by omega)
    have e2 : decide (l[i] < l[b] + 1) = false := decide_eq_false (by omega)
    rw [e1, e2]

/-! ### derived kymographs (round H) -/

/-- showing all `P` rows of a reconstructed kymograph image shows the image -/
theorem pickRows_range_transposeN (P : Nat) (rows : List (List Int)) :
    pickRows (List.range P) (transposeN P rows) = transposeN P rows := by
  unfold pickRows transposeN
  apply List.ext_getElem
  · simp
  · intro i h1 h2
    simp at h1 h2 ⊢
    simp [h1]

end Verif.C03
